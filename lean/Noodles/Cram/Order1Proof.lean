import Noodles.Cram.Order1
import Noodles.Cram.Rans4x8Proof
/-! Helper lemmas for `Noodles/Props/C08Order1.lean`: the part shared by the order-1 coders
(cumulative tables, one lane step, rounds, the chunk layout, the run-length symbol list). -/
namespace Noodles.Cram.O1
open Noodles.Cram.Num Noodles.Cram.R4

/-! ## A. cumulative frequencies -/

theorem cums_length (a : Nat) (F : List Nat) : (cums a F).length = F.length := by
  induction F generalizing a with
  | nil => rfl
  | cons f F ih => simp [cums, ih]

theorem getF_cums (F : List Nat) : ∀ (a s : Nat), s < F.length → getF (cums a F) s = a + cum F s := by
  induction F with
  | nil => intro a s h; simp at h
  | cons f F ih =>
    intro a s h
    cases s with
    | zero => simp [cums, getF, cum]
    | succ s =>
      have := ih (a + f) s (by simpa using h)
      simp only [getF] at this
      simp only [cums, getF, List.getD_cons_succ, this, cum, List.take_succ_cons, List.sum_cons]
      omega

theorem cums_eq_cumL (F : List Nat) (h : F.length = 256) : cums 0 F = cumL F := by
  apply List.ext_getElem
  · simp [cums_length, cumL, h]
  · intro i h1 h2
    have hi : i < 256 := by simpa [cumL] using h2
    have a := getF_cums F 0 i (by omega)
    have b := getF_cumL F i hi
    simp only [getF, List.getD_eq_getElem?_getD, List.getElem?_eq_getElem h1,
      List.getElem?_eq_getElem h2, Option.getD_some] at a b
    omega

/-! ## B. one step -/

/-- what the round trip needs from a renormalisation pair, for states in `[lo, 2^31)` -/
structure KitOK (K : Kit) (lo : Nat) : Prop where
  law : ∀ (s f c : Nat) (rest : List Nat), lo ≤ s → s < 2 ^ 31 → 0 < f → c + f ≤ 4096 →
    lo ≤ encStep (K.renE s f).1 f c ∧ encStep (K.renE s f).1 f c < 2 ^ 31 ∧
    K.renD ((K.renE s f).2 ++ rest) (K.renE s f).1 = some (s, rest)

/-- the pair (context, symbol) can be coded with the table `F`: the row has 256 entries, the
symbol has a non-zero frequency and its slot interval lies inside `[0, 4096)` -/
structure PairOK (F : Table) (c s : Nat) : Prop where
  len : (row F c).length = 256
  sym : SymOK (row F c) s

theorem row_cumTable (F : Table) (c : Nat) (h : (row F c).length = 256) :
    row (cumTable F) c = cumL (row F c) := by
  unfold row cumTable at *
  by_cases hc : c < F.length
  · simp only [List.getD_eq_getElem?_getD, List.getElem?_map, List.getElem?_eq_getElem hc,
      Option.map_some, Option.getD_some] at h ⊢
    exact cums_eq_cumL _ h
  · simp [List.getD_eq_getElem?_getD, List.getElem?_eq_none (Nat.le_of_not_lt hc)] at h

/-- a lane whose remaining symbols can all be coded -/
def HistOK (F : Table) : List Nat → Prop
  | [] => True
  | s :: h => PairOK F (h.headD 0) s ∧ HistOK F h

/-- encoding the newest symbol of a lane and then decoding one symbol on the result gives the lane
and the stream back -/
theorem decOne_encOne (K : Kit) (lo : Nat) (hK : KitOK K lo) (F : Table) (x s : Nat) (h : List Nat)
    (hx1 : lo ≤ x) (hx2 : x < 2 ^ 31) (hp : PairOK F (h.headD 0) s) :
    ∃ ln' b, encOne K F (cumTable F) (x, s :: h) = some (ln', b) ∧ ln'.2 = h ∧
      lo ≤ ln'.1 ∧ ln'.1 < 2 ^ 31 ∧
      ∀ rest, decOne K 12 F (cumTable F) ln' (b ++ rest) = some ((x, s :: h), rest) := by
  obtain ⟨hlen, hs⟩ := hp
  have hf : getF (row F (h.headD 0)) s ≠ 0 := Nat.pos_iff_ne_zero.mp hs.pos
  have hC : getF (row (cumTable F) (h.headD 0)) s = cum (row F (h.headD 0)) s := by
    rw [row_cumTable F _ hlen, getF_cumL _ _ hs.lt]
  have hcf : cum (row F (h.headD 0)) s + getF (row F (h.headD 0)) s ≤ 4096 := by
    have := cum_succ (row F (h.headD 0)) s
    have := hs.tot
    omega
  obtain ⟨l1, l2, l3⟩ := hK.law x (getF (row F (h.headD 0)) s) (cum (row F (h.headD 0)) s) [] hx1 hx2
    hs.pos hcf
  refine ⟨_, _, by simp only [encOne, hf, ↓reduceIte]; rfl, rfl, ?_, ?_, ?_⟩
  · show lo ≤ encStep _ _ (getF (row (cumTable F) (h.headD 0)) s)
    rw [hC]; exact l1
  · show encStep _ _ (getF (row (cumTable F) (h.headD 0)) s) < 2 ^ 31
    rw [hC]; exact l2
  · intro rest
    obtain ⟨_, _, l3⟩ := hK.law x (getF (row F (h.headD 0)) s) (cum (row F (h.headD 0)) s) rest hx1
      hx2 hs.pos hcf
    have hfpos := hs.pos
    have hslt := hs.lt
    generalize hfe : getF (row F (h.headD 0)) s = f at *
    generalize hce : cum (row F (h.headD 0)) s = c at *
    generalize hre : K.renE x f = r at *
    simp only [decOne, hC]
    rw [row_cumTable F _ hlen]
    have hslot : encStep r.1 f c % 2 ^ 12 = r.1 % f + c := encStep_mod _ _ _ hfpos hcf
    have hlook : lookup (cumL (row F (h.headD 0))) (encStep r.1 f c % 2 ^ 12) = s := by
      rw [hslot]
      apply lookup_cumL _ s _ hs.lt (by omega)
      rw [cum_succ, hfe, hce]
      have : r.1 % f < f := Nat.mod_lt _ hfpos
      omega
    rw [hlook, hfe, getF_cumL _ _ hs.lt, hce]
    have hdec := decStep_encStep r.1 f c hfpos hcf
    unfold decStep at hdec
    rw [show (2 : Nat) ^ 12 = 4096 from rfl, hdec, l3]

/-! ## C. rounds -/

/-- every lane has a state in `[lo, 2^31)` and symbols that can be coded -/
def LanesOK (lo : Nat) (F : Table) (lns : List Lane) : Prop :=
  ∀ ln ∈ lns, lo ≤ ln.1 ∧ ln.1 < 2 ^ 31 ∧ HistOK F ln.2

theorem decRound_encRound (K : Kit) (lo : Nat) (hK : KitOK K lo) (F : Table) (lns : List Lane) :
    LanesOK lo F lns → (∀ ln ∈ lns, ln.2 ≠ []) →
    ∃ lns' b, encRound K F (cumTable F) lns = some (lns', b) ∧
      lns'.map (·.2) = lns.map (·.2.tail) ∧ LanesOK lo F lns' ∧
      ∀ rest, decRound K 12 F (cumTable F) lns' (b ++ rest) = some (lns, rest) := by
  induction lns with
  | nil => intro _ _; exact ⟨[], [], rfl, rfl, by intro ln h; simp at h, fun rest => rfl⟩
  | cons ln lns ih =>
    intro hok hne
    obtain ⟨x, hist⟩ := ln
    cases hist with
    | nil => exact absurd rfl (hne (x, []) (by simp))
    | cons s h =>
      obtain ⟨hx1, hx2, hp, hh⟩ := hok (x, s :: h) (by simp)
      obtain ⟨ln', b, e1, e2, e3, e4, e5⟩ := decOne_encOne K lo hK F x s h hx1 hx2 hp
      obtain ⟨lns', bs, r1, r2, r3, r4⟩ := ih (fun l hl => hok l (List.mem_cons_of_mem _ hl))
        (fun l hl => hne l (List.mem_cons_of_mem _ hl))
      refine ⟨ln' :: lns', b ++ bs, by simp only [encRound, e1, r1], by simp [e2, r2], ?_, ?_⟩
      · intro l hl
        simp only [List.mem_cons] at hl
        rcases hl with rfl | hl
        · exact ⟨e3, e4, by rw [e2]; exact hh⟩
        · exact r3 l hl
      · intro rest
        simp only [decRound, List.append_assoc, e5, r4]

theorem decRounds_snoc (K : Kit) (bits : Nat) (F C : Table) (q : Nat) :
    ∀ (lns : List Lane) (bs : List Nat),
      decRounds K bits F C (q + 1) lns bs =
        match decRounds K bits F C q lns bs with
        | none => none
        | some (lns', bs') => decRound K bits F C lns' bs' := by
  induction q with
  | zero =>
    intro lns bs
    simp only [decRounds]
    cases decRound K bits F C lns bs with
    | none => rfl
    | some p => rfl
  | succ q ih =>
    intro lns bs
    rw [decRounds]
    cases h : decRound K bits F C lns bs with
    | none => simp [decRounds, h]
    | some p =>
      obtain ⟨l1, b1⟩ := p
      simp only []
      rw [ih l1 b1]
      conv => rhs; rw [decRounds, h]

theorem decRounds_encRounds (K : Kit) (lo : Nat) (hK : KitOK K lo) (F : Table) (q : Nat) :
    ∀ (lns : List Lane) (out : List Nat), LanesOK lo F lns → (∀ ln ∈ lns, q ≤ ln.2.length) →
    ∃ lns' out', encRounds K F (cumTable F) q lns out = some (lns', out') ∧
      lns'.map (·.2) = lns.map (·.2.drop q) ∧ LanesOK lo F lns' ∧
      ∀ rest, decRounds K 12 F (cumTable F) q lns' (out' ++ rest) = some (lns, out ++ rest) := by
  induction q with
  | zero =>
    intro lns out hok _
    exact ⟨lns, out, rfl, by simp, hok, fun rest => rfl⟩
  | succ q ih =>
    intro lns out hok hlen
    have hne : ∀ ln ∈ lns, ln.2 ≠ [] := by
      intro ln hl h0
      have := hlen ln hl
      rw [h0] at this
      simp at this
    obtain ⟨l1, b, r1, r2, r3, r4⟩ := decRound_encRound K lo hK F lns hok hne
    have hlen1 : ∀ ln ∈ l1, q ≤ ln.2.length := by
      intro ln hl
      have hm : ln.2 ∈ l1.map (·.2) := List.mem_map_of_mem hl
      rw [r2] at hm
      obtain ⟨l0, hl0, he⟩ := List.mem_map.mp hm
      have := hlen l0 hl0
      rw [← he, List.length_tail]
      omega
    obtain ⟨l2, o2, s1, s2, s3, s4⟩ := ih l1 (b ++ out) r3 hlen1
    refine ⟨l2, o2, by simp only [encRounds, r1, s1], ?_, s3, ?_⟩
    · rw [s2]
      have : l1.map (fun ln => ln.2.drop q) = (l1.map (·.2)).map (·.drop q) := by simp
      rw [this, r2]
      simp [List.drop_tail]
    · intro rest
      rw [decRounds_snoc, s4 rest]
      simp only [List.append_assoc]
      exact r4 (out ++ rest)

theorem decTail_snoc (K : Kit) (bits : Nat) (F C : Table) (r : Nat) :
    ∀ (ln : Lane) (bs : List Nat),
      decTail K bits F C (r + 1) ln bs =
        match decTail K bits F C r ln bs with
        | none => none
        | some (ln', bs') => decOne K bits F C ln' bs' := by
  induction r with
  | zero =>
    intro ln bs
    simp only [decTail]
    cases decOne K bits F C ln bs with
    | none => rfl
    | some p => rfl
  | succ r ih =>
    intro ln bs
    rw [decTail]
    cases h : decOne K bits F C ln bs with
    | none => simp [decTail, h]
    | some p =>
      obtain ⟨l1, b1⟩ := p
      simp only []
      rw [ih l1 b1]
      conv => rhs; rw [decTail, h]

theorem decTail_encTail (K : Kit) (lo : Nat) (hK : KitOK K lo) (F : Table) (r : Nat) :
    ∀ (x : Nat) (hist out : List Nat), lo ≤ x → x < 2 ^ 31 → HistOK F hist → r ≤ hist.length →
    ∃ ln' out', encTail K F (cumTable F) r (x, hist) out = some (ln', out') ∧
      ln'.2 = hist.drop r ∧ lo ≤ ln'.1 ∧ ln'.1 < 2 ^ 31 ∧
      ∀ rest, decTail K 12 F (cumTable F) r ln' (out' ++ rest) = some ((x, hist), out ++ rest) := by
  induction r with
  | zero =>
    intro x hist out h1 h2 _ _
    exact ⟨(x, hist), out, rfl, by simp, h1, h2, fun rest => rfl⟩
  | succ r ih =>
    intro x hist out h1 h2 hh hlen
    cases hist with
    | nil => simp at hlen
    | cons s h =>
      obtain ⟨hp, hh'⟩ := hh
      obtain ⟨ln', b, e1, e2, e3, e4, e5⟩ := decOne_encOne K lo hK F x s h h1 h2 hp
      obtain ⟨x', h'⟩ := ln'
      simp only at e2
      subst e2
      obtain ⟨l2, o2, s1, s2, s3, s4, s5⟩ := ih x' h' (b ++ out) e3 e4 hh' (by simpa using hlen)
      refine ⟨l2, o2, by simp only [encTail, e1, s1], by simpa using s2, s3, s4, ?_⟩
      intro rest
      rw [decTail_snoc, s5 rest]
      simp only [List.append_assoc]
      exact e5 (out ++ rest)

/-! ## D. the chunk layout -/

theorem onLast_snoc (f : Lane → List Nat → Option (Lane × List Nat)) (front : List Lane) (ln : Lane)
    (bs : List Nat) :
    onLast f (front ++ [ln]) bs =
      match f ln bs with
      | none => none
      | some (ln', bs') => some (front ++ [ln'], bs') := by
  induction front with
  | nil =>
    simp only [List.nil_append, onLast]
    cases f ln bs with
    | none => rfl
    | some p => rfl
  | cons a front ih =>
    cases front with
    | nil =>
      simp only [List.nil_append] at ih
      simp only [List.cons_append, List.nil_append, onLast]
      cases f ln bs with
      | none => rfl
      | some p => rfl
    | cons b front =>
      simp only [List.cons_append] at ih
      simp only [List.cons_append, onLast, ih]
      cases f ln bs with
      | none => rfl
      | some p => rfl

theorem chunks_flatten (q : Nat) (l : List Nat) (m : Nat) :
    ((List.range m).map fun j => (l.drop (j * q)).take q).flatten ++ l.drop (m * q) = l := by
  induction m with
  | zero => simp
  | succ m ih =>
    rw [List.range_succ, List.map_append, List.flatten_append, List.append_assoc]
    simp only [List.map_cons, List.map_nil, List.flatten_cons, List.flatten_nil, List.append_nil]
    have : l.drop ((m + 1) * q) = (l.drop (m * q)).drop q := by
      rw [List.drop_drop, Nat.succ_mul]
    rw [this, List.take_append_drop]
    exact ih

theorem map_fst_nil (l : List Lane) (h : ∀ ln ∈ l, ln.2 = []) :
    (l.map (·.1)).map (fun x => ((x, []) : Lane)) = l := by
  induction l with
  | nil => rfl
  | cons a l ih =>
    obtain ⟨x, hh⟩ := a
    have : hh = [] := h (x, hh) (by simp)
    subst this
    simp only [List.map_cons, List.cons.injEq, true_and]
    exact ih (fun ln hl => h ln (List.mem_cons_of_mem _ hl))

theorem histOK_drop (F : Table) (h : List Nat) : ∀ k, HistOK F h → HistOK F (h.drop k) := by
  induction h with
  | nil => intro k _; simp [HistOK]
  | cons s h ih =>
    intro k hk
    cases k with
    | zero => exact hk
    | succ k => exact ih k hk.2

/-! ## E. every pair the encoder codes has a frequency -/

/-- forward chain: every symbol of `l` in the context of its predecessor, the first one in `c` -/
def ChainOK (F : Table) : Nat → List Nat → Prop
  | _, [] => True
  | c, s :: t => PairOK F c s ∧ ChainOK F s t

theorem histOK_reverse (F : Table) (l : List Nat) :
    ∀ h0, ChainOK F (h0.headD 0) l → HistOK F h0 → HistOK F (l.reverse ++ h0) := by
  induction l with
  | nil => intro h0 _ h; simpa using h
  | cons s t ih =>
    intro h0 hc hh
    rw [List.reverse_cons, List.append_assoc]
    exact ih (s :: h0) hc.2 ⟨hc.1, hh⟩

theorem chainOK_take (F : Table) (t : List Nat) : ∀ (a m : Nat), ChainOK F a t → ChainOK F a (t.take m) := by
  induction t with
  | nil => intro a m _; simp [ChainOK]
  | cons b t ih =>
    intro a m h
    cases m with
    | zero => simp [ChainOK]
    | succ m => exact ⟨h.1, ih b m h.2⟩

theorem succs_cons_subset (c a : Nat) (l : List Nat) : ∀ s ∈ succs c l, s ∈ succs c (a :: l) := by
  intro s hs
  cases l with
  | nil => simp [succs] at hs
  | cons b t =>
    simp only [succs]
    split
    · exact List.mem_cons_of_mem _ hs
    · exact hs

theorem succs_drop_subset (c : Nat) (l : List Nat) : ∀ k, ∀ s ∈ succs c (l.drop k), s ∈ succs c l := by
  induction l with
  | nil => intro k s hs; simpa using hs
  | cons a l ih =>
    intro k s hs
    cases k with
    | zero => simpa using hs
    | succ k => exact succs_cons_subset c a l s (ih k s (by simpa using hs))

theorem chainOK_of_succs (F : Table) (t : List Nat) :
    ∀ a, (∀ c s, s ∈ succs c (a :: t) → PairOK F c s) → ChainOK F a t := by
  induction t with
  | nil => intro a _; trivial
  | cons b t ih =>
    intro a h
    refine ⟨h a b (by simp [succs]), ih b ?_⟩
    intro c s hs
    exact h c s (succs_cons_subset c a (b :: t) s hs)

/-- the table has a usable entry for every pair (predecessor, symbol) of the input and for every
chunk start in the context NUL -/
structure TableOK (F : Table) (n : Nat) (src : List Nat) : Prop where
  pairs : ∀ c s, s ∈ succs c src → PairOK F c s
  first : ∀ s ∈ starts n (src.length / n) src, PairOK F 0 s

/-- a stretch of the input that begins at a chunk start, as a lane -/
theorem histOK_chunk (F : Table) (n : Nat) (src : List Nat) (hT : TableOK F n src) (j m : Nat)
    (hj : j < n) :
    HistOK F ((src.drop (j * (src.length / n))).take m).reverse := by
  have := histOK_reverse F ((src.drop (j * (src.length / n))).take m) [] ?_ trivial
  · simpa using this
  · cases hd : src.drop (j * (src.length / n)) with
    | nil => simp [ChainOK]
    | cons a t =>
      cases m with
      | zero => simp [ChainOK]
      | succ m =>
        have ha : a = src.getD (j * (src.length / n)) 0 := by
          have := congrArg (fun l => l.headD 0) hd
          simp only [List.headD_cons] at this
          rw [← this]
          simp [List.getD_eq_getElem?_getD, List.head?_drop]
        have hmem : a ∈ starts n (src.length / n) src := by
          rw [ha]
          exact List.mem_map.mpr ⟨j, List.mem_range.mpr hj, rfl⟩
        refine ⟨hT.first a hmem, chainOK_take F t a m (chainOK_of_succs F t a ?_)⟩
        intro c s hs
        rw [← hd] at hs
        exact hT.pairs c s (succs_drop_subset c src _ s hs)

/-! ## F. the three loops of `encode` against the decoder -/

theorem decLanes_encLanes (K : Kit) (lo : Nat) (hK : KitOK K lo) (hlo : lo < 2 ^ 31) (F : Table)
    (n : Nat) (hn : 0 < n) (src : List Nat) (hT : TableOK F n src) :
    ∃ st out, encLanes K F (cumTable F) lo n src = some (st, out) ∧ st.length = n ∧
      (∀ x ∈ st, x < 2 ^ 32) ∧
      ∀ rest, decLanes K 12 F (cumTable F) n src.length st (out ++ rest) = some src := by
  have hdm := Nat.div_add_mod src.length n
  generalize hq : src.length / n = q at *
  generalize hr : src.length % n = r at *
  have hlast_len : (src.drop ((n - 1) * q)).length = q + r := by
    rw [List.length_drop]
    have : (n - 1) * q + q = n * q := by
      cases n with
      | zero => omega
      | succ n => simp [Nat.succ_mul]
    omega
  -- the remainder on the last lane
  have hlastOK : HistOK F (src.drop ((n - 1) * q)).reverse := by
    have := histOK_chunk F n src hT (n - 1) src.length (by omega)
    rw [hq, List.take_of_length_le (by simp)] at this
    exact this
  obtain ⟨last', out1, t1, t2, t3, t4, t5⟩ := decTail_encTail K lo hK F r lo
    (src.drop ((n - 1) * q)).reverse [] (Nat.le_refl _) hlo hlastOK (by simp [hlast_len])
  -- the rounds
  have hfrontOK : ∀ ln ∈ frontLanes lo n q src, lo ≤ ln.1 ∧ ln.1 < 2 ^ 31 ∧ HistOK F ln.2 ∧ ln.2.length = q := by
    intro ln hl
    obtain ⟨j, hj, rfl⟩ := List.mem_map.mp hl
    have hj' : j < n - 1 := List.mem_range.mp hj
    refine ⟨Nat.le_refl _, hlo, ?_, ?_⟩
    · have := histOK_chunk F n src hT j q (by omega)
      rw [hq] at this
      exact this
    · simp only [List.length_reverse, List.length_take, List.length_drop]
      have h1 : (j + 1) * q ≤ (n - 1) * q := Nat.mul_le_mul_right q (by omega)
      have h2 : (n - 1) * q ≤ n * q := Nat.mul_le_mul_right q (by omega)
      have e : (j + 1) * q = j * q + q := Nat.succ_mul j q
      omega
  have hlanes1 : LanesOK lo F (frontLanes lo n q src ++ [last']) := by
    intro ln hl
    simp only [List.mem_append, List.mem_singleton] at hl
    rcases hl with hl | rfl
    · obtain ⟨a, b, c, _⟩ := hfrontOK ln hl
      exact ⟨a, b, c⟩
    · exact ⟨t3, t4, by rw [t2]; exact histOK_drop F _ r hlastOK⟩
  have hlen1 : ∀ ln ∈ frontLanes lo n q src ++ [last'], ln.2.length = q := by
    intro ln hl
    simp only [List.mem_append, List.mem_singleton] at hl
    rcases hl with hl | rfl
    · exact (hfrontOK ln hl).2.2.2
    · rw [t2, List.length_drop, List.length_reverse, hlast_len]
      omega
  obtain ⟨lns2, out2, r1, r2, r3, r4⟩ := decRounds_encRounds K lo hK F q
    (frontLanes lo n q src ++ [last']) out1 hlanes1 (fun ln hl => by rw [hlen1 ln hl]; exact Nat.le_refl _)
  have hnil : ∀ ln ∈ lns2, ln.2 = [] := by
    intro ln hl
    have hm : ln.2 ∈ lns2.map (·.2) := List.mem_map_of_mem hl
    rw [r2] at hm
    obtain ⟨l0, hl0, he⟩ := List.mem_map.mp hm
    rw [← he]
    exact List.drop_eq_nil_of_le (by rw [hlen1 l0 hl0]; exact Nat.le_refl _)
  refine ⟨lns2.map (·.1), out2, ?_, ?_, ?_, ?_⟩
  · simp only [encLanes, hq, hr, lastLane, t1, r1]
  · have := congrArg List.length r2
    simp only [List.length_map, List.length_append, frontLanes, List.length_range,
      List.length_cons, List.length_nil] at this
    simp only [List.length_map]
    omega
  · intro x hx
    obtain ⟨ln, hl, rfl⟩ := List.mem_map.mp hx
    have := (r3 ln hl).2.1
    omega
  · intro rest
    simp only [decLanes, hq, hr]
    rw [map_fst_nil lns2 hnil, r4 rest]
    simp only []
    rw [onLast_snoc, t5 rest]
    simp only [List.map_append, List.map_cons, List.map_nil, List.reverse_reverse,
      frontLanes, List.map_map, Function.comp_def]
    have := chunks_flatten q src (n - 1)
    simpa [List.flatten_append] using this

/-! ## G. the symbol list with run lengths -/

section Runs
variable {α : Type} (p : α → Bool) (we : α → List Nat) (re : List Nat → Option (α × List Nat))
  (d : α) (ok : α → Prop)

/-- the list being filled by the reader: the part already read, default entries behind it -/
def partD (pre : List α) (n : Nat) : List α := pre ++ List.replicate n d

theorem partD_set (pre : List α) (n : Nat) (e : α) :
    (partD d pre (n + 1)).set pre.length e = partD d (pre ++ [e]) n := by
  unfold partD
  simp [List.replicate_succ]

theorem partD_dflt (pre : List α) (n : Nat) : partD d pre (n + 1) = partD d (pre ++ [d]) n := by
  unfold partD
  simp [List.replicate_succ]

/-- number of entries that are present -/
def nzP : List α → Nat
  | [] => 0
  | e :: r => (if p e then 1 else 0) + nzP r

theorem nzP_append (a b : List α) : nzP p (a ++ b) = nzP p a + nzP p b := by
  induction a with
  | nil => simp [nzP]
  | cons x a ih => simp [nzP, ih]; omega

theorem leadP_le (l : List α) : leadP p l ≤ l.length := by
  induction l with
  | nil => simp [leadP]
  | cons f l ih => simp only [leadP]; split <;> simp <;> omega

theorem nzP_take_leadP (l : List α) : nzP p (l.take (leadP p l)) = leadP p l := by
  induction l with
  | nil => simp [leadP, nzP]
  | cons f l ih =>
    simp only [leadP]
    split
    · rename_i h
      simp [nzP, h, ih]; omega
    · simp [nzP]

theorem nzP_split (l : List α) : nzP p l = leadP p l + nzP p (l.drop (leadP p l)) := by
  conv => lhs; rw [← List.take_append_drop (leadP p l) l]
  rw [nzP_append, nzP_take_leadP]

theorem nzP_le_length (l : List α) : nzP p l ≤ l.length := by
  induction l with
  | nil => simp [nzP]
  | cons f l ih => simp only [nzP, List.length_cons]; split <;> omega

theorem take_leadP_present (l : List α) : ∀ e ∈ l.take (leadP p l), p e = true := by
  induction l with
  | nil => intro e h; simp at h
  | cons f l ih =>
    intro e h
    simp only [leadP] at h
    split at h
    · rename_i hf
      simp only [List.take_succ_cons, List.mem_cons] at h
      rcases h with rfl | h
      · exact hf
      · exact ih e h
    · simp at h

abbrev ents (run : List α) : List Nat := (run.map we).flatten

/-- the entry reader reads back what the entry writer wrote, for the entries that are `ok` -/
def EntryOK : Prop := ∀ e rest, ok e → re (we e ++ rest) = some (e, rest)

/-- the reader over one run of consecutive symbols (a single symbol is a run of length 1) -/
theorem runs_run (hE : EntryOK we re ok) (run : List α) :
    ∀ (pre : List α) (n3 fuel : Nat) (more : List Nat), run ≠ [] → (∀ e ∈ run, ok e) →
      pre.length + run.length ≤ 256 → run.length ≤ fuel →
      readRunsLoop re fuel (partD d pre (run.length + n3)) pre.length (run.length - 1)
          (ents we run ++ more)
        = readRunsNext (fun T s r bs => readRunsLoop re (fuel - run.length) T s r bs)
            (partD d (pre ++ run) n3) (pre.length + run.length - 1) more := by
  induction run with
  | nil => intro _ _ _ _ h; exact absurd rfl h
  | cons f run ih =>
    intro pre n3 fuel more _ hv hlen hfuel
    obtain ⟨fuel', rfl⟩ : ∃ k, fuel = k + 1 := ⟨fuel - 1, by simp at hfuel; omega⟩
    have hf : ok f := hv f (by simp)
    simp only [ents, List.map_cons, List.flatten_cons, List.append_assoc]
    rw [readRunsLoop, hE f _ hf]
    have hc : ¬ (pre.length ≥ 256) := by
      simp at hlen; omega
    simp only [hc, ↓reduceIte]
    cases run with
    | nil =>
      simp only [List.length_cons, List.length_nil, Nat.zero_add, Nat.sub_self,
        Nat.lt_irrefl, ↓reduceIte, List.map_nil, List.flatten_nil, List.nil_append]
      rw [show 1 + n3 = n3 + 1 by omega, partD_set]
      simp
    | cons g run =>
      have h1 : (f :: g :: run).length - 1 > 0 := by simp
      simp only [h1, ↓reduceIte]
      have := ih (pre ++ [f]) n3 fuel' more (by simp) (fun x hx => hv x (List.mem_cons_of_mem _ hx))
        (by simp at hlen ⊢; omega) (by simp at hfuel ⊢; omega)
      rw [show (f :: g :: run).length + n3 = ((g :: run).length + n3) + 1 by simp; omega, partD_set]
      simp only [List.length_append, List.length_cons, List.length_nil, ents] at this ⊢
      rw [show run.length + 1 + 1 - 1 - 1 = run.length + 1 - 1 by omega]
      rw [this]
      simp only [List.append_assoc, List.cons_append, List.nil_append]
      rw [show fuel' + 1 - (run.length + 1 + 1) = fuel' - (run.length + 1) by omega,
        show pre.length + (run.length + 1 + 1) - 1 = pre.length + 1 + (run.length + 1) - 1 by omega]

/-- The reader, resumed after an entry with no run pending, against the writer's output for the
rest of the list. -/
theorem runs_spec (hE : EntryOK we re ok) (n : Nat) :
    ∀ (T' pre : List α) (last fuel : Nat) (rest : List Nat), T'.length = n →
      (∀ e ∈ T', p e = true → ok e) → (∀ e ∈ T', p e = false → e = d) →
      pre.length + T'.length = 256 → last < pre.length → nzP p T' ≤ fuel →
      readRunsNext (fun T s r bs => readRunsLoop re fuel T s r bs) (partD d pre T'.length) last
        (writeRunsGo p we pre.length T' (some last) ++ rest) = some (pre ++ T', rest) := by
  induction n using Nat.strongRecOn with
  | _ n ih =>
    intro T' pre last fuel rest hn hv habs hlen hlast hfuel
    cases T' with
    | nil =>
      simp [writeRunsGo, readRunsNext, partD]
    | cons f T'' =>
      have ha : pre.length ≠ 0 := by omega
      rw [writeRunsGo]
      cases hpf : p f with
      | false =>
        -- absent: the symbol is skipped
        have hfd : f = d := habs f (by simp) hpf
        subst hfd
        simp only [Bool.not_false, ↓reduceIte]
        have := ih T''.length (by simp at hn; omega) T'' (pre ++ [f]) last fuel rest rfl
          (fun x hx => hv x (List.mem_cons_of_mem _ hx))
          (fun x hx => habs x (List.mem_cons_of_mem _ hx)) (by simp at hlen ⊢; omega)
          (by simp; omega) (by simp [nzP, hpf] at hfuel; omega)
        simp only [List.length_append, List.length_cons, List.length_nil, Nat.zero_add] at this
        rw [List.length_cons, partD_dflt, this]
        simp
      | true =>
        simp only [Bool.not_true, Bool.false_eq_true, ↓reduceIte]
        have hfv : ok f := hv f (by simp) hpf
        have hml := leadP_le p T''
        have hnz := nzP_split p T''
        split
        · -- the symbol continues the previous one: a run
          rename_i hrun
          obtain ⟨_, hprev⟩ := hrun
          have hl : pre.length = last + 1 := by
            simp only [Option.some.injEq] at hprev; omega
          simp only [List.cons_append, List.nil_append, List.append_assoc, readRunsNext]
          rw [if_neg ha, if_pos hl]
          have hr := runs_run we re d ok hE (f :: T''.take (leadP p T'')) pre
            (T''.drop (leadP p T'')).length fuel
            (writeRunsGo p we (pre.length + 1 + leadP p T'') (T''.drop (leadP p T''))
              (some (pre.length + leadP p T'')) ++ rest)
            (by simp)
            (by
              intro x hx
              simp only [List.mem_cons] at hx
              rcases hx with rfl | hx
              · exact hfv
              · exact hv x (List.mem_cons_of_mem _ (List.mem_of_mem_take hx))
                  (take_leadP_present p T'' x hx))
            (by simp at hlen ⊢; omega)
            (by simp [nzP, hpf] at hfuel ⊢; omega)
          have e1 : (f :: T''.take (leadP p T'')).length = leadP p T'' + 1 := by
            simp; omega
          simp only [e1, List.length_drop, Nat.add_sub_cancel, ents, List.map_cons,
            List.flatten_cons, List.append_assoc] at hr
          rw [show leadP p T'' + 1 + (T''.length - leadP p T'') = (f :: T'').length by simp; omega] at hr
          rw [hr]
          have := ih (T''.drop (leadP p T'')).length (by simp at hn ⊢; omega) (T''.drop (leadP p T''))
            (pre ++ f :: T''.take (leadP p T'')) (pre.length + leadP p T'') (fuel - (leadP p T'' + 1)) rest rfl
            (fun x hx => hv x (List.mem_cons_of_mem _ (List.mem_of_mem_drop hx)))
            (fun x hx => habs x (List.mem_cons_of_mem _ (List.mem_of_mem_drop hx)))
            (by simp at hlen ⊢; omega) (by simp; omega)
            (by simp [nzP, hpf] at hfuel; omega)
          simp only [List.length_append, List.length_cons, List.length_take, List.length_drop,
            Nat.min_eq_left hml] at this
          rw [show pre.length + (leadP p T'' + 1) - 1 = pre.length + leadP p T'' by omega,
            show pre.length + 1 + leadP p T'' = pre.length + (leadP p T'' + 1) by omega, this]
          simp
        · -- a symbol on its own
          rename_i hrun
          have hl : pre.length ≠ last + 1 := by
            intro h
            apply hrun
            exact ⟨by omega, by simp; omega⟩
          simp only [List.cons_append, List.nil_append, List.append_assoc, readRunsNext]
          rw [if_neg ha, if_neg hl]
          have hr := runs_run we re d ok hE [f] pre T''.length fuel
            (writeRunsGo p we (pre.length + 1) T'' (some pre.length) ++ rest)
            (by simp) (by simpa using hfv) (by simp at hlen ⊢; omega)
            (by simp [nzP, hpf] at hfuel ⊢; omega)
          simp only [List.length_cons, List.length_nil, Nat.zero_add, Nat.sub_self, ents,
            List.map_cons, List.map_nil, List.flatten_cons, List.flatten_nil, List.append_nil,
            Nat.add_sub_cancel] at hr
          rw [show (f :: T'').length = 1 + T''.length by simp; omega, hr]
          have := ih T''.length (by simp at hn; omega) T'' (pre ++ [f]) pre.length (fuel - 1) rest rfl
            (fun x hx => hv x (List.mem_cons_of_mem _ hx))
            (fun x hx => habs x (List.mem_cons_of_mem _ hx)) (by simp at hlen ⊢; omega)
            (by simp) (by simp [nzP, hpf] at hfuel; omega)
          simp only [List.length_append, List.length_cons, List.length_nil, Nat.zero_add] at this
          rw [this]
          simp

/-- the writer skips the symbols that are absent, the reader starts at the first that is present -/
theorem runs_top (hE : EntryOK we re ok) (T' : List α) :
    ∀ (a : Nat) (rest : List Nat), (∀ e ∈ T', p e = true → ok e) → (∀ e ∈ T', p e = false → e = d) →
      a + T'.length = 256 → (∃ e ∈ T', p e = true) →
      readRuns re d (writeRunsGo p we a T' none ++ rest) = some (List.replicate a d ++ T', rest) := by
  induction T' with
  | nil => intro _ _ _ _ _ h; obtain ⟨f, hf, _⟩ := h; simp at hf
  | cons f T'' ih =>
    intro a rest hv habs hlen hex
    rw [writeRunsGo]
    cases hpf : p f with
    | false =>
      have hfd : f = d := habs f (by simp) hpf
      subst hfd
      simp only [Bool.not_false, ↓reduceIte]
      have := ih (a + 1) rest (fun x hx => hv x (List.mem_cons_of_mem _ hx))
        (fun x hx => habs x (List.mem_cons_of_mem _ hx))
        (by simp at hlen ⊢; omega)
        (by
          obtain ⟨g, hg, hg0⟩ := hex
          simp only [List.mem_cons] at hg
          rcases hg with rfl | hg
          · rw [hpf] at hg0; exact absurd hg0 (by simp)
          · exact ⟨g, hg, hg0⟩)
      rw [this, List.replicate_succ']
      simp
    | true =>
      simp only [Bool.not_true, Bool.false_eq_true, ↓reduceIte]
      have hno : ¬ (a > 0 ∧ (none : Option Nat) = some (a - 1)) := by simp
      rw [if_neg hno]
      simp only [List.cons_append, List.nil_append, List.append_assoc, readRuns]
      have hfv : ok f := hv f (by simp) hpf
      have hpre : (List.replicate a d).length = a := by simp
      have hzero : List.replicate 256 d = partD d (List.replicate a d) (1 + T''.length) := by
        unfold partD
        rw [List.replicate_append_replicate]
        congr 1
        simp at hlen; omega
      have hr := runs_run we re d ok hE [f] (List.replicate a d) T''.length
        ((we f ++ (writeRunsGo p we (a + 1) T'' (some a) ++ rest)).length + 257)
        (writeRunsGo p we (a + 1) T'' (some a) ++ rest)
        (by simp) (by simpa using hfv) (by simp at hlen ⊢; omega) (by simp)
      simp only [List.length_cons, List.length_nil, Nat.zero_add, Nat.sub_self, ents,
        List.map_cons, List.map_nil, List.flatten_cons, List.flatten_nil, List.append_nil,
        Nat.add_sub_cancel, hpre] at hr
      rw [hzero, hr]
      have := runs_spec p we re d ok hE T''.length T'' (List.replicate a d ++ [f]) a
        ((we f ++ (writeRunsGo p we (a + 1) T'' (some a) ++ rest)).length + 257 - 1) rest rfl
        (fun x hx => hv x (List.mem_cons_of_mem _ hx))
        (fun x hx => habs x (List.mem_cons_of_mem _ hx)) (by simp at hlen ⊢; omega) (by simp)
        (by have := nzP_le_length p T''; simp at hlen; omega)
      simp only [List.length_append, List.length_replicate, List.length_cons, List.length_nil,
        Nat.zero_add] at this
      simp only [List.length_append]
      rw [this]
      simp

end Runs

/-- a list of 256 entries in which some entry is present, the absent entries being the default and
the present ones readable, is read back exactly; the reader stops at the end of the list -/
theorem readRuns_writeRuns {α : Type} (p : α → Bool) (we : α → List Nat)
    (re : List Nat → Option (α × List Nat)) (d : α) (ok : α → Prop) (hE : EntryOK we re ok)
    (T : List α) (rest : List Nat) (hlen : T.length = 256) (hv : ∀ e ∈ T, p e = true → ok e)
    (habs : ∀ e ∈ T, p e = false → e = d) (hex : ∃ e ∈ T, p e = true) :
    readRuns re d (writeRunsGo p we 0 T none ++ rest) = some (T, rest) := by
  have := runs_top p we re d ok hE T 0 rest hv habs (by omega) hex
  simpa using this

/-! ## H. states -/

theorem rdStates_write (st : List Nat) (rest : List Nat) (hv : ∀ x ∈ st, x < 2 ^ 32) :
    rdStates st.length ((st.map le4).flatten ++ rest) = some (st, rest) := by
  induction st with
  | nil => rfl
  | cons x st ih =>
    have hx : x < 2 ^ 32 := hv x (by simp)
    have := ih (fun y hy => hv y (List.mem_cons_of_mem _ hy))
    simp only [List.map_cons, List.flatten_cons, le4, List.cons_append, List.nil_append,
      List.length_cons, rdStates, this]
    have e : x % 256 + x / 2 ^ 8 % 256 * 2 ^ 8 + x / 2 ^ 16 % 256 * 2 ^ 16 + x / 2 ^ 24 % 256 * 2 ^ 24 = x := by
      omega
    rw [e]

/-! ## I. the table the encoder builds -/

theorem succs_subset (c : Nat) (l : List Nat) : ∀ s ∈ succs c l, s ∈ l := by
  induction l with
  | nil => intro s h; simp [succs] at h
  | cons a l ih =>
    intro s hs
    cases l with
    | nil => simp [succs] at hs
    | cons b t =>
      simp only [succs] at hs
      split at hs
      · simp only [List.mem_cons] at hs
        rcases hs with rfl | hs
        · simp
        · exact List.mem_cons_of_mem _ (ih s hs)
      · exact List.mem_cons_of_mem _ (ih s hs)

theorem starts_lt (n q : Nat) (src : List Nat) (hsym : ∀ x ∈ src, x < 256) :
    ∀ s ∈ starts n q src, s < 256 := by
  intro s hs
  obtain ⟨j, _, rfl⟩ := List.mem_map.mp hs
  rw [List.getD_eq_getElem?_getD]
  cases h : src[j * q]? with
  | none => simp
  | some v => exact hsym v (List.mem_of_getElem? h)

theorem row_freqTable (total n : Nat) (src : List Nat) (c : Nat) (hc : c < 256) :
    row (freqTable total n src) c = normalizeTo total (rawRow n src c) := by
  simp [row, freqTable, List.getD_eq_getElem?_getD, hc]

theorem freqTable_length (total n : Nat) (src : List Nat) : (freqTable total n src).length = 256 := by
  simp [freqTable]

theorem rawRow_length (n : Nat) (src : List Nat) (c : Nat) : (rawRow n src c).length = 256 :=
  hist_length _

/-- every symbol of `X` gets a non-empty slot interval inside `[0, total)` in the normalised
histogram of `X` -/
theorem symOK_total (total : Nat) (h1 : 256 ≤ total) (h2 : total ≤ 4096) (X : List Nat)
    (hsym : ∀ x ∈ X, x < 256) (x : Nat) (hx : x ∈ X) : SymOK (normalizeTo total (hist X)) x := by
  have hn := normalizeTo_spec total (hist X) (by rw [hist_length]; omega)
    (hist_sum_ne X x hx (hsym x hx))
  refine ⟨hsym x hx, hn.pos x (hist_pos X x hx (hsym x hx)), ?_⟩
  have := cum_le_sum (normalizeTo total (hist X)) (x + 1)
  have := hn.sum
  omega

theorem tableOK_freqTable (total : Nat) (h1 : 256 ≤ total) (h2 : total ≤ 4096) (n : Nat)
    (src : List Nat) (hsym : ∀ x ∈ src, x < 256) : TableOK (freqTable total n src) n src := by
  have hX : ∀ c, ∀ x ∈ (if c = 0 then starts n (src.length / n) src else []) ++ succs c src, x < 256 := by
    intro c x hx
    simp only [List.mem_append] at hx
    rcases hx with hx | hx
    · split at hx
      · exact starts_lt n _ src hsym x hx
      · simp at hx
    · exact hsym x (succs_subset c src x hx)
  have hctx : ∀ c s, s ∈ succs c src → c < 256 := by
    intro c s hs
    have : ∀ l : List Nat, s ∈ succs c l → c ∈ l := by
      intro l
      induction l with
      | nil => intro h; simp [succs] at h
      | cons a l ih =>
        intro h
        cases l with
        | nil => simp [succs] at h
        | cons b t =>
          simp only [succs] at h
          split at h
          · rename_i hac
            simp [hac]
          · exact List.mem_cons_of_mem _ (ih h)
    exact hsym c (this src hs)
  constructor
  · intro c s hs
    have hc := hctx c s hs
    refine ⟨?_, ?_⟩
    · rw [row_freqTable total n src c hc]
      exact normalizeTo_length total _ (rawRow_length n src c) h1
    · rw [row_freqTable total n src c hc]
      exact symOK_total total h1 h2 _ (hX c) s (List.mem_append_right _ hs)
  · intro s hs
    refine ⟨?_, ?_⟩
    · rw [row_freqTable total n src 0 (by decide)]
      exact normalizeTo_length total _ (rawRow_length n src 0) h1
    · rw [row_freqTable total n src 0 (by decide)]
      exact symOK_total total h1 h2 _ (hX 0) s (List.mem_append_left _ (by simpa using hs))

theorem normalizeTo_zero (total : Nat) (raw : List Nat) (h : raw.sum = 0) :
    normalizeTo total raw = List.replicate 256 0 := by
  unfold normalizeTo
  simp only [h, ↓reduceIte]

theorem getF_replicate_zero (n j : Nat) : getF (List.replicate n 0) j = 0 := by
  unfold getF
  rw [List.getD_eq_getElem?_getD, List.getElem?_replicate]
  split <;> rfl

theorem sum_replicate_zero (n : Nat) : (List.replicate n 0).sum = 0 :=
  sum_eq_zero _ (getF_replicate_zero n)

/-- a row of the encoder's table is all zero or sums to `total`; its entries are at most `total` -/
theorem freqTable_row (total : Nat) (h1 : 256 ≤ total) (n : Nat) (src : List Nat) :
    ∀ r ∈ freqTable total n src, r.length = 256 ∧
      (r = List.replicate 256 0 ∨ r.sum = total) ∧ ∀ f ∈ r, f ≤ total := by
  intro r hr
  obtain ⟨c, _, rfl⟩ := List.mem_map.mp hr
  refine ⟨normalizeTo_length total _ (rawRow_length n src c) h1, ?_⟩
  by_cases hs : (rawRow n src c).sum = 0
  · have : normalizeTo total (rawRow n src c) = List.replicate 256 0 := by
      unfold normalizeTo
      simp only [hs, ↓reduceIte]
    rw [this]
    exact ⟨Or.inl rfl, fun f hf => by rw [List.mem_replicate] at hf; omega⟩
  · have hn := normalizeTo_spec total (rawRow n src c) (by rw [rawRow_length]; omega) hs
    exact ⟨Or.inr hn.sum, fun f hf => by have := mem_le_sum _ f hf; have := hn.sum; omega⟩

/-- the row of the context NUL is never empty: it holds the chunk starts -/
theorem freqTable_row0 (total : Nat) (h1 : 256 ≤ total) (n : Nat) (hn : 0 < n) (src : List Nat)
    (hsym : ∀ x ∈ src, x < 256) :
    (row (freqTable total n src) 0).sum = total := by
  rw [row_freqTable total n src 0 (by decide)]
  have hmem : src.getD (0 * (src.length / n)) 0 ∈ starts n (src.length / n) src :=
    List.mem_map.mpr ⟨0, List.mem_range.mpr hn, rfl⟩
  have hlt := starts_lt n _ src hsym _ hmem
  have hs : (rawRow n src 0).sum ≠ 0 := by
    unfold rawRow
    exact hist_sum_ne _ _ (List.mem_append_left _ (by simpa using hmem)) hlt
  exact (normalizeTo_spec total (rawRow n src 0) (by rw [rawRow_length]; omega) hs).sum

/-! ## J. size of the encoder's output -/

theorem encOne_length (K : Kit) (B : Nat) (hB : ∀ s f, (K.renE s f).2.length ≤ B) (F C : Table)
    (ln ln' : Lane) (b : List Nat) (h : encOne K F C ln = some (ln', b)) : b.length ≤ B := by
  unfold encOne at h
  split at h
  · simp only [Option.some.injEq, Prod.mk.injEq] at h
    rw [← h.2]; simp
  · simp only [] at h
    split at h
    · exact absurd h (by simp)
    · simp only [Option.some.injEq, Prod.mk.injEq] at h
      rw [← h.2]; exact hB _ _

theorem encRound_length (K : Kit) (B : Nat) (hB : ∀ s f, (K.renE s f).2.length ≤ B) (F C : Table)
    (lns : List Lane) : ∀ lns' b, encRound K F C lns = some (lns', b) →
      lns'.length = lns.length ∧ b.length ≤ B * lns.length := by
  induction lns with
  | nil => intro lns' b h; simp only [encRound, Option.some.injEq, Prod.mk.injEq] at h; simp [← h.1, ← h.2]
  | cons ln lns ih =>
    intro lns' b h
    simp only [encRound] at h
    split at h
    · rename_i ln1 b1 l2 b2 e1 e2
      simp only [Option.some.injEq, Prod.mk.injEq] at h
      obtain ⟨rfl, rfl⟩ := h
      obtain ⟨a1, a2⟩ := ih l2 b2 e2
      have := encOne_length K B hB F C ln ln1 b1 e1
      refine ⟨by simp [a1], ?_⟩
      simp only [List.length_append, List.length_cons]
      have : B * (lns.length + 1) = B * lns.length + B := Nat.mul_succ _ _
      omega
    · exact absurd h (by simp)

theorem encRounds_length (K : Kit) (B : Nat) (hB : ∀ s f, (K.renE s f).2.length ≤ B) (F C : Table)
    (q : Nat) : ∀ lns out lns' out', encRounds K F C q lns out = some (lns', out') →
      out'.length ≤ out.length + B * (q * lns.length) := by
  induction q with
  | zero =>
    intro lns out lns' out' h
    simp only [encRounds, Option.some.injEq, Prod.mk.injEq] at h
    simp [← h.2]
  | succ q ih =>
    intro lns out lns' out' h
    simp only [encRounds] at h
    split at h
    · exact absurd h (by simp)
    · rename_i l1 b e
      obtain ⟨a1, a2⟩ := encRound_length K B hB F C lns l1 b e
      have := ih l1 (b ++ out) lns' out' h
      rw [a1] at this
      simp only [List.length_append] at this
      rw [Nat.succ_mul, Nat.mul_add]
      omega

theorem encTail_length (K : Kit) (B : Nat) (hB : ∀ s f, (K.renE s f).2.length ≤ B) (F C : Table)
    (r : Nat) : ∀ ln out ln' out', encTail K F C r ln out = some (ln', out') →
      out'.length ≤ out.length + B * r := by
  induction r with
  | zero =>
    intro ln out ln' out' h
    simp only [encTail, Option.some.injEq, Prod.mk.injEq] at h
    simp [← h.2]
  | succ r ih =>
    intro ln out ln' out' h
    simp only [encTail] at h
    split at h
    · exact absurd h (by simp)
    · rename_i l1 b e
      have := encOne_length K B hB F C ln l1 b e
      have := ih l1 (b ++ out) ln' out' h
      simp only [List.length_append] at this
      rw [Nat.mul_succ]
      omega

theorem encLanes_length (K : Kit) (B : Nat) (hB : ∀ s f, (K.renE s f).2.length ≤ B) (F C : Table)
    (lo n : Nat) (hn : 0 < n) (src st out : List Nat) (h : encLanes K F C lo n src = some (st, out)) :
    out.length ≤ B * src.length := by
  unfold encLanes at h
  simp only [] at h
  split at h
  · exact absurd h (by simp)
  · rename_i last out1 e1
    split at h
    · exact absurd h (by simp)
    · rename_i lns out2 e2
      simp only [Option.some.injEq, Prod.mk.injEq] at h
      obtain ⟨_, rfl⟩ := h
      have a := encTail_length K B hB F C _ _ _ _ _ e1
      have b := encRounds_length K B hB F C _ _ _ _ _ e2
      simp only [List.length_nil, Nat.zero_add, List.length_append, frontLanes, List.length_map,
        List.length_range, List.length_cons] at a b
      have hn1 : n - 1 + 1 = n := by omega
      rw [hn1] at b
      have hdm := Nat.div_add_mod src.length n
      have : B * (src.length / n * n) + B * (src.length % n) = B * src.length := by
        rw [← Nat.mul_add, Nat.mul_comm (src.length / n) n, hdm]
      omega

/-- the serialised list has at most `M + 2` bytes per symbol -/
theorem writeRunsGo_length {α : Type} (p : α → Bool) (we : α → List Nat) (M : Nat) (n : Nat) :
    ∀ (T' : List α) (a : Nat) (prev : Option Nat), T'.length = n → (∀ e ∈ T', (we e).length ≤ M) →
      (writeRunsGo p we a T' prev).length ≤ (M + 2) * T'.length + 1 := by
  induction n using Nat.strongRecOn with
  | _ n ih =>
    intro T' a prev hn hM
    cases T' with
    | nil => simp [writeRunsGo]
    | cons f T'' =>
      rw [writeRunsGo]
      have hf := hM f (by simp)
      have hM' : ∀ e ∈ T'', (we e).length ≤ M := fun e he => hM e (List.mem_cons_of_mem _ he)
      split
      · have := ih T''.length (by simp at hn; omega) T'' (a + 1) prev rfl hM'
        simp only [List.length_cons, Nat.mul_succ]; omega
      · split
        · have hml := leadP_le p T''
          have h1 := ih (T''.drop (leadP p T'')).length (by simp at hn ⊢; omega) (T''.drop (leadP p T''))
            (a + 1 + leadP p T'') (some (a + leadP p T'')) rfl
            (fun e he => hM' e (List.mem_of_mem_drop he))
          have h2 : ∀ l : List α, (∀ e ∈ l, (we e).length ≤ M) → ((l.map we).flatten).length ≤ M * l.length := by
            intro l
            induction l with
            | nil => intro _; simp
            | cons x l ihl =>
              intro hl
              have := ihl (fun e he => hl e (List.mem_cons_of_mem _ he))
              have := hl x (by simp)
              simp only [List.map_cons, List.flatten_cons, List.length_append, List.length_cons,
                Nat.mul_succ]
              omega
          have h3 := h2 (T''.take (leadP p T'')) (fun e he => hM' e (List.mem_of_mem_take he))
          simp only [List.length_drop, List.length_take, Nat.min_eq_left hml] at h1 h3
          simp only [List.length_append, List.length_cons, List.length_nil]
          have e1 : (M + 2) * (T''.length + 1) = (M + 2) * (T''.length - leadP p T'') + (M + 2) * leadP p T'' + (M + 2) := by
            rw [← Nat.mul_add, Nat.mul_succ]
            congr 2
            omega
          have e2 : (M + 2) * leadP p T'' = M * leadP p T'' + 2 * leadP p T'' := Nat.add_mul _ _ _
          omega
        · have := ih T''.length (by simp at hn; omega) T'' (a + 1) (some a) rfl hM'
          simp only [List.length_append, List.length_cons, List.length_nil, Nat.mul_succ]
          omega

end Noodles.Cram.O1
