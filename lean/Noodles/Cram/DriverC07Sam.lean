import Noodles.Basic.Wire
import Noodles.Cram.SamConv
import Noodles.Cram.CompressionHeader
import Noodles.Cram.DriverC07Enc
/-! Line-protocol handler for the SAM ⇄ CRAM slice model (`c07 sam …`):

`c07 sam <preserve names 0/1> <delta 0/1> <record counter> <matrix, 20 letters> <ref hex,…> <rec;…>`
with `rec = name hex,flags,ref,pos,mapq,CIGAR,mate ref,mate pos,tlen,bases hex,qualities hex`
(`-` = missing). The compression header is the writer's default (`DataSeriesEncodings::init`) with
the one empty tag set. The answer is `w:<error>` when `encodeSlice` fails, `r:<error>` when
`decodeSlice` fails, otherwise the slice context, the CRAM flags / mate distances after `set_mates`
and the decoded records in the request's format. -/
namespace Noodles.Cram.DrvSam
open Noodles.Wire Noodles.Cram Noodles.Cram.Enc Noodles.Cram.Sam
open Noodles.Cram.DrvEnc (hexN unhexN errStr listOf)

def kindOfChar : Char → Option Kind
  | 'M' => some .M | 'I' => some .I | 'D' => some .D | 'N' => some .N | 'S' => some .S
  | 'H' => some .H | 'P' => some .P | '=' => some .Eq | 'X' => some .X | _ => none

def kindChar : Kind → Char
  | .M => 'M' | .I => 'I' | .D => 'D' | .N => 'N' | .S => 'S' | .H => 'H' | .P => 'P' | .Eq => '=' | .X => 'X'

def parseCigarGo : List Char → Nat → Bool → Option Cigar
  | [], _, digits => if digits then none else some []
  | c :: cs, acc, digits =>
    if c.isDigit then parseCigarGo cs (acc * 10 + (c.toNat - '0'.toNat)) true
    else match kindOfChar c with
      | some k => if digits then (parseCigarGo cs 0 false).map (⟨k, acc⟩ :: ·) else none
      | none => none

def parseCigar (s : String) : Option Cigar := if s = "*" then some [] else parseCigarGo s.toList 0 false

def fmtCigar (c : Cigar) : String :=
  if c.isEmpty then "*" else String.join (c.map fun op => s!"{op.len}{kindChar op.kind}")

def baseOfChar : Char → Option Base
  | 'A' => some .A | 'C' => some .C | 'G' => some .G | 'T' => some .T | 'N' => some .N | _ => none

def baseIdx : Base → Nat
  | .A => 0 | .C => 1 | .G => 2 | .T => 3 | .N => 4

def parseMatrix (s : String) : Option Matrix := do
  let l ← s.toList.mapM baseOfChar
  if l.length ≠ 20 then none else
  pure fun r c => l.getD (baseIdx r * 4 + c) .N

def optNat (s : String) : Option (Option Nat) := if s = "-" then some none else s.toNat?.map some
def fmtOpt : Option Nat → String
  | none => "-"
  | some n => toString n

def optHex (s : String) : Option (Option (List Nat)) := if s = "-" then some none else (unhexN s).map some

def parseRec (s : String) : Option SamRec :=
  match s.splitOn "," with
  | [name, f, rid, pos, mapq, cigar, mrid, mpos, tlen, seq, qual] => do
    pure { name := ← optHex name, flags := ← f.toNat?, rid := ← optNat rid, pos := ← optNat pos,
           mapq := ← optNat mapq, cigar := ← parseCigar cigar, mrid := ← optNat mrid, mpos := ← optNat mpos,
           tlen := ← tlen.toInt?, seq := ← unhexN seq, quals := ← unhexN qual }
  | _ => none

def fmtRec (r : SamRec) : String :=
  let name := match r.name with | none => "-" | some n => hexN n
  s!"{name},{r.flags},{fmtOpt r.rid},{fmtOpt r.pos},{fmtOpt r.mapq},{fmtCigar r.cigar},{fmtOpt r.mrid},{fmtOpt r.mpos},{r.tlen},{hexN r.seq},{hexN r.quals}"

def fmtCtx : RefCtx → String
  | .some id s e => s!"some:{id}:{s}:{e}"
  | .none => "none"
  | .many => "many"

def samCH (pn delta : Bool) : CH :=
  { recordsHaveNames := pn, apDelta := delta, tagSets := [[]], dse := DSE.init }

def runSam (pn delta : Bool) (counter : Nat) (m : Matrix) (refs : List (List Nat)) (rs : List SamRec) : String :=
  let ch := samCH pn delta
  let rf : Refs := fun i => refs[i]?
  match encodeSlice ch rf m rs with
  | .error e => s!"w:{errStr e}"
  | .ok (ctx, core, ext) =>
    match decodeSlice ch rf m ctx rs.length counter core (blocksOf ext) with
    | .error e => s!"{fmtCtx ctx} r:{errStr e}"
    | .ok out => s!"{fmtCtx ctx} {";".intercalate (out.map fmtRec)}"

def b01 (s : String) : Option Bool := if s = "1" then some true else if s = "0" then some false else none

def handle : List String → Option String
  | ["sam", pn, delta, counter, matrix, refs, recs] => some <|
    match b01 pn, b01 delta, counter.toNat?, parseMatrix matrix, (listOf refs ",").mapM unhexN,
          (listOf recs ";").mapM parseRec with
    | some pn, some delta, some counter, some m, some refs, some rs => runSam pn delta counter m refs rs
    | _, _, _, _, _, _ => "bad-op"
  | _ => none

end Noodles.Cram.DrvSam
