import Noodles.Cram.RecordCodec
/-!
# The CRAM writer's chunking state machine (C07 extension "chunk")

Transcribed from noodles-cram

* `io/writer.rs`: `Writer { records, record_counter, context }`, `add_record` (push, then
  `if self.records.len() >= self.records.capacity() { self.flush(header)? }`), `flush`
  (`write_container`; `record_counter += records.len()`; `records.clear()`), `try_finish`
  (`flush`, then the EOF container);
* `io/writer/builder.rs`: `build_from_writer` (`records: Vec::with_capacity(DEFAULT_SLICES_PER_CONTAINER *
  records_per_slice)`, `record_counter: 0`) and the `cfg(noodles_verif)` hook
  `verif_build_from_writer_with_layout` (`context.records_per_slice = rps`,
  `records = Vec::with_capacity(rps * spc)`);
* `io/writer/container.rs`: `write_container` (nothing at all for an empty record buffer),
  `build_container` (`records.chunks_mut(ctx.records_per_slice)` → `build_slice` per chunk with the running
  `slice_record_counter`; `get_container_reference_sequence_context`; `record_count`, `record_counter`,
  `base_count = Σ read_length`).

AT HEAD THERE IS NO REFERENCE-CONTEXT-DRIVEN CHUNKING: a slice is closed by the record count only
(`chunks_mut`), a container by the buffer reaching its capacity or by `try_finish`. A change of reference
inside a chunk makes that slice multi-reference (`ReferenceSequenceContext::update` → `Many`); slices of one
container with different contexts make `get_container_reference_sequence_context` FAIL with `InvalidInput`
(unreachable with the public builder, whose containers have one slice). Both are modelled as they are.

The per-slice work (`build_slice`: context, mates, record streams) is the parameter `Params.ctxOf`: given the
container's records (they determine the compression header `build_slice` receives) and the chunk, it returns
the slice's reference sequence context or fails; `Params.readLen` is `Record::read_length`.

`Vec` facts used (std, validated by the correspondence on every run): `Vec::with_capacity(n)` has capacity
exactly `n`; a push into a full `Vec` grows the capacity to `max(2·cap, len+1, 4)` (`RawVec::grow_amortized`,
`MIN_NON_ZERO_CAP = 4` for elements of at most 1024 bytes); `clear` keeps the capacity. Growth happens only
for `rps * spc = 0`.
-/
namespace Noodles.Cram.Chunk
open Noodles.Cram.Enc (RefCtx Res Err)

/-- `slice::chunks_mut(k)` for `k ≥ 1` (the caller handles the `k = 0` panic); `fuel ≥ l.length` -/
def chunksGo {α : Type} (k : Nat) : (fuel : Nat) → List α → List (List α)
  | 0, _ => []
  | fuel+1, l => if l.isEmpty then [] else l.take k :: chunksGo k fuel (l.drop k)

def chunks {α : Type} (k : Nat) (l : List α) : List (List α) := chunksGo k l.length l

/-- what a slice header carries, and the slice's records -/
structure SliceOut (α : Type) where
  ctx : RefCtx
  counter : Nat
  records : List α

/-- what a container header carries, and its slices in file order -/
structure ContainerOut (α : Type) where
  ctx : RefCtx
  counter : Nat
  nrec : Nat
  bases : Nat
  slices : List (SliceOut α)

/-- the per-slice work (`build_slice`) and `Record::read_length` -/
structure Params (α : Type) where
  /-- container's records → chunk → the slice header's context -/
  ctxOf : List α → List α → Res RefCtx
  readLen : α → Nat

/-- one step of the loop in `get_container_reference_sequence_context` -/
def mergeCtx : RefCtx → RefCtx → Res RefCtx
  | .some id s e, .some id' s' e' =>
    if id = id' then .ok (.some id (min s s') (max e e')) else .error .invalidInput
  | .none, .none => .ok .none
  | .many, .many => .ok .many
  | _, _ => .error .invalidInput

def mergeAll : RefCtx → List RefCtx → Res RefCtx
  | c, [] => .ok c
  | c, d :: ds => match mergeCtx c d with
    | .ok c' => mergeAll c' ds
    | .error e => .error e

/-- `get_container_reference_sequence_context` (`assert!(!slices.is_empty())`) -/
def containerCtx : List RefCtx → Res RefCtx
  | [] => .error .panic
  | c :: cs => mergeAll c cs

/-- the `for chunk in records.chunks_mut(..)` loop: `build_slice` with the running `slice_record_counter` -/
def buildSlices {α : Type} (P : Params α) (all : List α) : Nat → List (List α) → Res (List (SliceOut α))
  | _, [] => .ok []
  | counter, c :: cs =>
    match P.ctxOf all c with
    | .error e => .error e
    | .ok ctx =>
      match buildSlices P all (counter + c.length) cs with
      | .error e => .error e
      | .ok rest => .ok (⟨ctx, counter, c⟩ :: rest)

/-- `build_container` for a non-empty record buffer; `chunks_mut(0)` panics ("chunk size must be non-zero") -/
def buildContainer {α : Type} (P : Params α) (rps counter : Nat) (records : List α) : Res (ContainerOut α) :=
  if rps = 0 then .error .panic else
  match buildSlices P records counter (chunks rps records) with
  | .error e => .error e
  | .ok slices =>
    match containerCtx (slices.map (·.ctx)) with
    | .error e => .error e
    | .ok ctx => .ok ⟨ctx, counter, records.length, (records.map P.readLen).sum, slices⟩

/-- `Writer`: `context.records_per_slice`, `records.capacity()`, `records`, `record_counter`, and the data
containers written so far -/
structure W (α : Type) where
  rps : Nat
  cap : Nat
  records : List α
  counter : Nat
  out : List (ContainerOut α)

/-- `verif_build_from_writer_with_layout(rps, spc)`; `build_from_writer` is `spc = 1` -/
def W.new {α : Type} (rps spc : Nat) : W α := ⟨rps, rps * spc, [], 0, []⟩

/-- `Writer::flush`: `write_container` returns at once for an empty buffer (then `record_counter += 0`,
`clear`); an error leaves the writer as it was (`?`) -/
def W.flush {α : Type} (P : Params α) (w : W α) : Res (W α) :=
  if w.records.isEmpty then .ok w else
  match buildContainer P w.rps w.counter w.records with
  | .error e => .error e
  | .ok c => .ok { w with records := [], counter := w.counter + w.records.length, out := w.out ++ [c] }

/-- the capacity after `Vec::push` onto `len` elements -/
def growCap (cap len : Nat) : Nat := if len = cap then max (max (2 * cap) (len + 1)) 4 else cap

/-- `Writer::add_record` -/
def W.addRecord {α : Type} (P : Params α) (w : W α) (r : α) : Res (W α) :=
  let w' : W α := { w with cap := growCap w.cap w.records.length, records := w.records ++ [r] }
  if w'.records.length ≥ w'.cap then w'.flush P else .ok w'

def W.addAll {α : Type} (P : Params α) : W α → List α → Res (W α)
  | w, [] => .ok w
  | w, r :: rs => match w.addRecord P r with
    | .error e => .error e
    | .ok w' => W.addAll P w' rs

/-- write every record, then `try_finish`: the data containers of the file (the EOF container follows) -/
def run {α : Type} (P : Params α) (rps spc : Nat) (rs : List α) : Res (List (ContainerOut α)) :=
  match W.addAll P (W.new rps spc) rs with
  | .error e => .error e
  | .ok w => match w.flush P with
    | .error e => .error e
    | .ok w' => .ok w'.out

/-- all slices of a file, in file order -/
def allSlices {α : Type} (out : List (ContainerOut α)) : List (SliceOut α) := out.flatMap (·.slices)

/-- all records of a file, in file order -/
def allRecords {α : Type} (out : List (ContainerOut α)) : List α := (allSlices out).flatMap (·.records)

/-! ## the light record of the correspondence (`c07 chunk …`) -/

/-- name, reference id, alignment start, alignment end (`io::writer::Record::alignment_end`), read length -/
structure LRec where
  name : String
  rid : Option Nat
  start : Option Nat
  end_ : Option Nat
  readLen : Nat

/-- `get_reference_sequence_context` over the light record (same `first` / `update` as `Enc.getRefCtx`) -/
def lctx : List LRec → Res RefCtx
  | [] => .error .panic
  | r :: rs => .ok (rs.foldl (fun c x => c.update x.rid x.start x.end_) (RefCtx.first r.rid r.start r.end_))

def lparams : Params LRec := ⟨fun _ => lctx, (·.readLen)⟩

/-- `Reader::records`: every slice of every container in file order is decoded (`dec`: `Slice::records` on
the item's blocks) and the records are concatenated; the first error ends the read -/
def readAll {ι γ : Type} (dec : ι → Res (List γ)) : List ι → Res (List γ)
  | [] => .ok []
  | i :: is => match dec i with
    | .error e => .error e
    | .ok o => match readAll dec is with
      | .error e => .error e
      | .ok os => .ok (o ++ os)

/-- two lists of the same length related position by position -/
inductive Forall2 {ι κ : Type} (R : ι → κ → Prop) : List ι → List κ → Prop
  | nil : Forall2 R [] []
  | cons {i : ι} {o : κ} {is : List ι} {os : List κ} : R i o → Forall2 R is os → Forall2 R (i :: is) (o :: os)

/-- (container, slice) pairs in file order -/
def items {α : Type} (out : List (ContainerOut α)) : List (ContainerOut α × SliceOut α) :=
  out.flatMap fun c => c.slices.map fun s => (c, s)

/-- the records a container was built from -/
def ContainerOut.records {α : Type} (c : ContainerOut α) : List α := c.slices.flatMap (·.records)

/-- the number of the first record (0-based) whose `add_record` fails, `none` = `try_finish` fails;
meaningful only when `run` fails -/
def failIndexGo {α : Type} (P : Params α) : W α → Nat → List α → Option Nat
  | _, _, [] => none
  | w, i, r :: rs => match w.addRecord P r with
    | .error _ => some i
    | .ok w' => failIndexGo P w' (i + 1) rs

end Noodles.Cram.Chunk
