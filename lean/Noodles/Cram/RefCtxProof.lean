import Noodles.Cram.EncSpec
/-! helper lemmas: the slice's reference context covers its records (see Props/C07Enc.lean) -/
namespace Noodles.Cram.Enc

/-- a context agrees with a reference id -/
def CoversId (c : RefCtx) (rid : Option Nat) : Prop :=
  (∀ id s e, c = .some id s e → rid = some id) ∧ (c = .none → rid = none)

theorem coversId_many (rid : Option Nat) : CoversId .many rid :=
  ⟨fun _ _ _ h => (by cases h), fun h => (by cases h)⟩

theorem first_covers (rid rs re : Option Nat) : CoversId (RefCtx.first rid rs re) rid := by
  cases rid with
  | none => exact ⟨fun _ _ _ h => (by simp [RefCtx.first] at h), fun _ => rfl⟩
  | some x =>
    cases rs with
    | none => simpa [RefCtx.first] using coversId_many (some x)
    | some a =>
      cases re with
      | none => simpa [RefCtx.first] using coversId_many (some x)
      | some b =>
        refine ⟨fun id s e h => ?_, fun h => ?_⟩
        · simp [RefCtx.first] at h; rw [h.1]
        · simp [RefCtx.first] at h

/-- `update` keeps covering what was covered and covers the new reference id -/
theorem update_covers (c : RefCtx) (rid rs re : Option Nat) :
    (∀ old, CoversId c old → CoversId (c.update rid rs re) old) ∧ CoversId (c.update rid rs re) rid := by
  cases c with
  | many => exact ⟨fun old _ => by simpa [RefCtx.update] using coversId_many old, by simpa [RefCtx.update] using coversId_many rid⟩
  | none =>
    cases rid with
    | none => exact ⟨fun old h => by simpa [RefCtx.update] using h, ⟨fun _ _ _ h => (by simp [RefCtx.update] at h), fun _ => rfl⟩⟩
    | some x => exact ⟨fun old _ => by simpa [RefCtx.update] using coversId_many old, by simpa [RefCtx.update] using coversId_many (some x)⟩
  | some id s e =>
    cases rid with
    | none => exact ⟨fun old _ => by simpa [RefCtx.update] using coversId_many old, by simpa [RefCtx.update] using coversId_many none⟩
    | some x =>
      cases rs with
      | none => exact ⟨fun old _ => by simpa [RefCtx.update] using coversId_many old, by simpa [RefCtx.update] using coversId_many (some x)⟩
      | some a =>
        cases re with
        | none => exact ⟨fun old _ => by simpa [RefCtx.update] using coversId_many old, by simpa [RefCtx.update] using coversId_many (some x)⟩
        | some b =>
          by_cases hx : x = id
          · subst hx
            refine ⟨fun old h => ?_, ?_⟩
            · simp only [RefCtx.update, if_true]
              exact ⟨fun id' s' e' h' => (by cases h'; exact h.1 _ _ _ rfl), fun h' => (by cases h')⟩
            · simp only [RefCtx.update, if_true]
              exact ⟨fun id' s' e' h' => (by cases h'; rfl), fun h' => (by cases h')⟩
          · exact ⟨fun old _ => by simpa [RefCtx.update, hx] using coversId_many old, by simpa [RefCtx.update, hx] using coversId_many (some x)⟩

theorem getRefCtxGo_covers (rs : List CRec) (c : RefCtx) (seen : List CRec) (h : ∀ r ∈ seen, CoversId c r.refId)
    (ctx : RefCtx) (hg : getRefCtxGo c rs = .ok ctx) : ∀ r, r ∈ seen ∨ r ∈ rs → CoversId ctx r.refId := by
  induction rs generalizing c seen with
  | nil =>
    simp only [getRefCtxGo] at hg
    cases hg
    intro r hr
    rcases hr with hr | hr
    · exact h r hr
    · cases hr
  | cons x xs ih =>
    simp only [getRefCtxGo] at hg
    cases he : x.alignmentEnd with
    | error e => rw [he] at hg; cases hg
    | ok e =>
      rw [he] at hg
      obtain ⟨h1, h2⟩ := update_covers c x.refId x.alignmentStart e
      have hseen : ∀ r ∈ seen ++ [x], CoversId (c.update x.refId x.alignmentStart e) r.refId := by
        intro r hr
        rcases List.mem_append.mp hr with hr | hr
        · exact h1 _ (h r hr)
        · simp at hr; subst hr; exact h2
      intro r hr
      apply ih _ (seen ++ [x]) hseen hg
      rcases hr with hr | hr
      · exact Or.inl (List.mem_append_left _ hr)
      · rcases List.mem_cons.mp hr with rfl | hr
        · exact Or.inl (by simp)
        · exact Or.inr hr

theorem getRefCtx_covers (recs : List CRec) (ctx : RefCtx) (h : getRefCtx recs = .ok ctx) :
    ∀ r ∈ recs, CoversId ctx r.refId := by
  cases recs with
  | nil => simp [getRefCtx] at h
  | cons x xs =>
    simp only [getRefCtx] at h
    cases he : x.alignmentEnd with
    | error e => rw [he] at h; cases h
    | ok e =>
      rw [he] at h
      have h0 : ∀ r ∈ [x], CoversId (RefCtx.first x.refId x.alignmentStart e) r.refId := by
        intro r hr
        simp at hr; subst hr
        exact first_covers _ _ _
      intro r hr
      apply getRefCtxGo_covers xs _ [x] h0 ctx h
      rcases List.mem_cons.mp hr with rfl | hr
      · exact Or.inl (by simp)
      · exact Or.inr hr

end Noodles.Cram.Enc
