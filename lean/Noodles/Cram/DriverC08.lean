import Noodles.Basic.Wire
import Noodles.Basic.Crc32
import Noodles.Cram.Num
import Noodles.Cram.Rans4x8
import Noodles.Cram.Nx16
import Noodles.Cram.DriverC08Tok
import Noodles.Cram.DriverC08Order1
import Noodles.Cram.DriverC08Aac
import Noodles.Cram.DriverC08Fqz
/-! Line-protocol handler for the CRAM integer codings and rANS 4x8 order 0 (`c08 …`). -/
namespace Noodles.Cram.DriverC08
open Noodles.Wire Noodles.Cram.Num Noodles.Cram

def toNats (b : List UInt8) : List Nat := b.map (·.toNat)
def ofNats (l : List Nat) : List UInt8 := l.map UInt8.ofNat

def hexN (l : List Nat) : String := hex (ofNats l)

/-- short byte strings in full, long ones as `length:crc32` -/
def fmtBytes (l : List Nat) : String :=
  if l.length ≤ 64 then hexN l else s!"{l.length}:{Noodles.Crc32.crc32 (ofNats l)}"

def errStr : Err → String
  | .eof => "err:eof"
  | .invalidData => "err:invalid-data"

def fmtRead {α : Type} [ToString α] : Except Err (α × List Nat) → String
  | .ok (v, r) => s!"{v} {hexN r}"
  | .error e => errStr e

def handle : List String → String
  | ["itf8w", n] => match n.toInt? with
    | some n => hexN (writeItf8 n)
    | none => "bad-op"
  | ["itf8r", h] => match unhex h with
    | some b => fmtRead (readItf8 (toNats b))
    | none => "bad-op"
  | ["ltf8w", n] => match n.toInt? with
    | some n => hexN (writeLtf8 n)
    | none => "bad-op"
  | ["ltf8r", h] => match unhex h with
    | some b => fmtRead (readLtf8 (toNats b))
    | none => "bad-op"
  | ["u7w", n] => match n.toNat? with
    | some n => match writeUint7 n with
      | some b => hexN b
      | none => "panic"
    | none => "bad-op"
  | ["u7r", h] => match unhex h with
    | some b => fmtRead (readUint7 (toNats b))
    | none => "bad-op"
  | ["r4enc0", h] => match unhex h with
    | some b => match R4.encode0 (toNats b) with
      | .ok e => fmtBytes e
      | .error .invalidInput => "err:invalid-input"
      | .error .zeroFreq => "hang"
    | none => "bad-op"
  | ["r4dec", h] => match unhex h with
    | some b => match R4.decode (toNats b) with
      | .ok d => fmtBytes d
      | .error .eof => "err:eof"
      | .error .invalidData => "err:invalid-data"
      | .error .order1 => "unsupported-order-1"
    | none => "bad-op"
  | ["nxenc", fl, h] => match (unhex fl).map toNats, unhex h with
    | some [fl], some b => match Nx.encode (Nx.Flags.ofByte fl) (toNats b) with
      | .ok e => fmtBytes e
      | .error .invalidInput => "err:invalid-input"
      | .error .zeroFreq => "hang"
      | .error .order1 => "unsupported-order-1"
    | _, _ => "bad-op"
  | ["nxdec", n, h] => match n.toNat?, unhex h with
    | some n, some b => match Nx.decode (toNats b) n with
      | .ok d => fmtBytes d
      | .error .eof => "err:eof"
      | .error .invalidData => "err:invalid-data"
      | .error .order1 => "unsupported-order-1"
      | .error .nested => "unsupported-nested"
    | _, _ => "bad-op"
  | ws => ((DriverC08Tok.handle? ws) <|> (DriverC08Order1.handle? ws) <|> (DriverC08Aac.handle? ws) <|> (DriverC08Fqz.handle? ws)).getD "bad-op"

end Noodles.Cram.DriverC08
