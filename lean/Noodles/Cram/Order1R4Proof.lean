import Noodles.Cram.Order1R4
import Noodles.Cram.Order1Proof
/-! Helper lemmas for `Noodles/Props/C08Order1.lean`: rANS 4x8 order 1. -/
namespace Noodles.Cram.O1
open Noodles.Cram.Num Noodles.Cram.R4

/-! ## the renormalisation pair of rANS 4x8 -/

theorem kit4_ok : KitOK kit4 R4.L := by
  constructor
  intro s f c rest hs1 hs2 hf hc
  have hlow : 2 ^ 11 * f ≤ s := by unfold R4.L at hs1; omega
  have hdone := renormEnc_done s f hf (by omega)
  have hlower := renormEnc_lower 4 s f hlow
  obtain ⟨r1, r2⟩ := R4.encStep_range (renormEnc 4 s f).1 f c hf hc hlower hdone
  refine ⟨r1, r2, ?_⟩
  simp only [kit4, renormDec_renormEnc 4 s f rest hs1 hs2]

theorem kit4_len (s f : Nat) : (kit4.renE s f).2.length ≤ 4 := by
  simp only [kit4, List.length_reverse]
  exact renormEnc_length 4 s f

/-! ## the order-1 frequency table -/

theorem present_false (r : List Nat) (h : present r = false) : r = List.replicate r.length 0 := by
  unfold present at h
  apply List.ext_getElem
  · simp
  · intro i h1 h2
    simp only [List.getElem_replicate]
    have := List.any_eq_false.mp h r[i] (List.getElem_mem h1)
    simpa using this

theorem present_true (r : List Nat) (h : present r = true) : ∃ f ∈ r, f ≠ 0 := by
  unfold present at h
  obtain ⟨f, hf, hne⟩ := List.any_eq_true.mp h
  exact ⟨f, hf, by simpa using hne⟩

/-- a row the reader accepts and reads back exactly -/
def RowOK (r : List Nat) : Prop :=
  r.length = 256 ∧ (∀ f ∈ r, f ≤ 65535) ∧ (∃ f ∈ r, f ≠ 0) ∧ r.sum ≤ 4096

theorem entryOK4 : EntryOK R4.writeFreqs readRow4 RowOK := by
  intro r rest ⟨h1, h2, h3, h4⟩
  simp only [readRow4, readFreqs_writeFreqs r rest h1 h2 h3]
  rw [if_neg (by omega)]

/-- `o1_freq_table_roundtrip` -/
theorem readFreqs1_writeFreqs1 (T : Table) (rest : List Nat) (hlen : T.length = 256)
    (hrow : ∀ r ∈ T, r.length = 256 ∧ (∀ f ∈ r, f ≤ 65535) ∧ r.sum ≤ 4096)
    (hex : ∃ r ∈ T, ∃ f ∈ r, f ≠ 0) :
    readFreqs1 (writeFreqs1 T ++ rest) = some (T, rest) := by
  unfold readFreqs1 writeFreqs1
  apply readRuns_writeRuns present R4.writeFreqs readRow4 (List.replicate 256 0) RowOK entryOK4 T rest hlen
  · intro r hr hp
    obtain ⟨a, b, c⟩ := hrow r hr
    exact ⟨a, b, present_true r hp, c⟩
  · intro r hr hp
    have := present_false r hp
    rw [(hrow r hr).1] at this
    exact this
  · obtain ⟨r, hr, f, hf, hne⟩ := hex
    refine ⟨r, hr, ?_⟩
    unfold present
    exact List.any_eq_true.mpr ⟨f, hf, by simpa using hne⟩

/-! ## the codec -/

/-- the table of `encode1` satisfies what the reader checks -/
theorem freqTable4_rows (src : List Nat) :
    ∀ r ∈ freqTable 4095 4 src, r.length = 256 ∧ (∀ f ∈ r, f ≤ 65535) ∧ r.sum ≤ 4096 := by
  intro r hr
  obtain ⟨a, b, c⟩ := freqTable_row 4095 (by decide) 4 src r hr
  refine ⟨a, fun f hf => by have := c f hf; omega, ?_⟩
  rcases b with b | b
  · rw [b, sum_replicate_zero]; omega
  · omega

theorem freqTable4_ex (src : List Nat) (hsym : ∀ x ∈ src, x < 256) :
    ∃ r ∈ freqTable 4095 4 src, ∃ f ∈ r, f ≠ 0 := by
  have h0 := freqTable_row0 4095 (by decide) 4 (by decide) src hsym
  have hmem : row (freqTable 4095 4 src) 0 ∈ freqTable 4095 4 src := by
    unfold row
    rw [List.getD_eq_getElem?_getD, List.getElem?_eq_getElem (by rw [freqTable_length]; decide)]
    exact List.getElem_mem _
  refine ⟨_, hmem, ?_⟩
  apply Classical.byContradiction
  intro hno
  have : (row (freqTable 4095 4 src) 0).sum = 0 := by
    apply sum_eq_zero
    intro s
    apply Classical.byContradiction
    intro hs
    apply hno
    by_cases hl : s < (row (freqTable 4095 4 src) 0).length
    · exact ⟨_, getF_mem _ s hl, hs⟩
    · exact absurd (getF_of_ge _ s (by omega)) hs
  omega

/-- `rans4x8_o1_roundtrip` -/
theorem decode1_encode1 (src bs : List Nat) (hsym : ∀ x ∈ src, x < 256)
    (h : encode1 src = .ok bs) : decode1 bs = some src := by
  unfold encode1 at h
  split at h
  · exact absurd h (by simp)
  · rename_i hlen4
    simp only [] at h
    obtain ⟨st, out, e1, e2, e3, e4⟩ := decLanes_encLanes kit4 R4.L kit4_ok (by unfold R4.L; decide)
      (freqTable 4095 4 src) 4 (by decide) src
      (tableOK_freqTable 4095 (by decide) (by decide) 4 src hsym)
    rw [e1] at h
    simp only [] at h
    split at h
    · exact absurd h (by simp)
    · rename_i hsz
      simp only [Except.ok.injEq] at h
      subst h
      have hb : (writeFreqs1 (freqTable 4095 4 src) ++ (st.map le4).flatten ++ out).length < 2 ^ 32 := by
        omega
      have hs : src.length < 2 ^ 32 := by omega
      have hne : src.length ≠ 0 := by omega
      simp only [decode1, List.cons_append, List.append_assoc]
      rw [if_neg (by decide), if_neg (by decide)]
      rw [readU32le_le4 _ (by simpa using hb)]
      simp only []
      rw [readU32le_le4 _ hs]
      simp only [hne, ↓reduceIte, decodeBody1]
      rw [readFreqs1_writeFreqs1 _ _ (freqTable_length 4095 4 src) (freqTable4_rows src)
        (freqTable4_ex src hsym)]
      simp only []
      have := rdStates_write st out e3
      rw [e2] at this
      rw [this]
      simp only []
      have := e4 []
      rw [List.append_nil] at this
      exact this

/-- the table has at most 1795 bytes per context -/
theorem writeFreqs1_length (T : Table) (hlen : T.length = 256) (hrow : ∀ r ∈ T, r.length = 256) :
    (writeFreqs1 T).length ≤ 459521 := by
  have := writeRunsGo_length present R4.writeFreqs 1793 256 T 0 none hlen
    (fun r hr => by
      have := writeFreqsGo_length r.length r 0 none rfl
      rw [hrow r hr] at this
      exact this)
  unfold writeFreqs1
  rw [hlen] at this
  omega

/-- `rans4x8_o1_encode_total_or_refuses` -/
theorem encode1_total (src : List Nat) (hsym : ∀ x ∈ src, x < 256) :
    (src.length < 4 → encode1 src = .error .invalidInput) ∧
    (4 ≤ src.length → src.length < 2 ^ 29 → ∃ bs, encode1 src = .ok bs) := by
  constructor
  · intro h
    simp [encode1, h]
  · intro h4 hbig
    obtain ⟨st, out, e1, e2, e3, e4⟩ := decLanes_encLanes kit4 R4.L kit4_ok (by unfold R4.L; decide)
      (freqTable 4095 4 src) 4 (by decide) src
      (tableOK_freqTable 4095 (by decide) (by decide) 4 src hsym)
    have hout := encLanes_length kit4 4 kit4_len _ _ R4.L 4 (by decide) src st out e1
    have hT := writeFreqs1_length (freqTable 4095 4 src) (freqTable_length 4095 4 src)
      (fun r hr => (freqTable4_rows src r hr).1)
    have hS : ((st.map le4).flatten).length = 16 := by
      match st, e2 with
      | [a, b, c, d], _ => simp [le4]
    unfold encode1
    rw [if_neg (by omega)]
    simp only [e1]
    rw [if_neg]
    · exact ⟨_, rfl⟩
    · simp only [List.length_append]
      omega

end Noodles.Cram.O1
