import Noodles.Cram.Aac
/-!
Helper lemmas for `Noodles/Props/C08Aac.lean`: the range coder (`range_coder.rs`).

The encoder's registers and the bytes it has written stand for ONE natural number `N e`: the bytes
written, the cached byte, `ff_num` bytes `0xff`, the four bytes of `low`, plus `2^32` when `carry`
is set. `range_shift_low` multiplies it by 256 whatever branch it takes (`shiftLow_spec`: this is
the carry propagation), narrowing adds `sym_low * range` to it (`narrow_spec`), and the five closing
shifts write it out (`finish_spec`). The decoder's `code` is the difference between a prefix of
the final number and `N e` (`norm_sync`), which is what makes `code / range` fall into the
interval the encoder chose.
-/
namespace Noodles.Cram.Aac

/-! ## numbers and their digits -/

/-- value of a byte list whose NEWEST (least significant) byte comes first -/
def numR : List Nat → Nat
  | [] => 0
  | b :: r => numR r * 256 + b

/-- big-endian value of a byte list in stream order -/
def num (bs : List Nat) : Nat := bs.foldl (fun a b => a * 256 + b) 0

theorem num_append_one (l : List Nat) (b : Nat) : num (l ++ [b]) = num l * 256 + b := by
  simp [num, List.foldl_append]

theorem num_reverse (l : List Nat) : num l.reverse = numR l := by
  induction l with
  | nil => rfl
  | cons b r ih => rw [List.reverse_cons, num_append_one, ih]; rfl

theorem num_take_succ (B : List Nat) (k : Nat) (h : k < B.length) :
    num (B.take (k + 1)) = num (B.take k) * 256 + B[k] := by
  rw [List.take_succ_eq_append_getElem h, num_append_one]

theorem pow256_pos (n : Nat) : 1 ≤ 256 ^ n := Nat.pow_pos (by decide)

theorem numR_replicate_ff (n : Nat) (l : List Nat) :
    numR (List.replicate n 255 ++ l) = numR l * 256 ^ n + (256 ^ n - 1) := by
  induction n with
  | zero => simp
  | succ n ih =>
    have hp := pow256_pos n
    rw [List.replicate_succ, List.cons_append, numR, ih, Nat.pow_succ, ← Nat.mul_assoc]
    generalize numR l * 256 ^ n = a at *
    generalize 256 ^ n = p at *
    omega

theorem numR_replicate_zero (n : Nat) (l : List Nat) :
    numR (List.replicate n 0 ++ l) = numR l * 256 ^ n := by
  induction n with
  | zero => simp
  | succ n ih =>
    rw [List.replicate_succ, List.cons_append, numR, ih, Nat.pow_succ, ← Nat.mul_assoc]
    omega

/-! ## the number an encoder state stands for -/

/-- `low` with the pending carry: a 33-bit value -/
def T (e : Enc) : Nat := e.low + (if e.carry then 2 ^ 32 else 0)

/-- the part that is not written yet: cached byte, `ff_num` × `0xff`, `low` (and the carry) -/
def P (e : Enc) : Nat := (e.cache * 256 ^ e.ffnum + (256 ^ e.ffnum - 1)) * 2 ^ 32 + T e

/-- everything: the bytes written, then the pending part -/
def N (e : Enc) : Nat := numR e.out * 256 ^ e.ffnum * 2 ^ 40 + P e

/-- the number of base-256 digits of `N e` -/
def D (e : Enc) : Nat := e.out.length + e.ffnum + 5

/-- what `range_shift_low` needs and keeps -/
structure Inv0 (e : Enc) : Prop where
  low : e.low < 2 ^ 32
  cache : e.cache < 256
  pend : P e < 256 ^ (e.ffnum + 1) * 2 ^ 32
  bytes : ∀ b ∈ e.out, b < 256

theorem shiftLow_D (e : Enc) : D (shiftLow e) = D e + 1 := by
  unfold shiftLow D
  split
  · split <;> simp <;> omega
  · simp; omega

theorem shiftLow_range (e : Enc) : (shiftLow e).range = e.range := by
  unfold shiftLow
  split <;> rfl

theorem shiftLow_low (e : Enc) : (shiftLow e).low = e.low * 256 % 2 ^ 32 := by
  unfold shiftLow
  split <;> rfl

theorem mul_key (a c p : Nat) : (a * 256 + c) * p = 256 * (a * p) + c * p := by
  rw [Nat.add_mul, Nat.mul_right_comm, Nat.mul_comm (a * p) 256]

theorem mem_out (v c : Nat) (n : Nat) (out : List Nat) (hv : v < 256) (hc : c < 256)
    (h : ∀ b ∈ out, b < 256) : ∀ b ∈ List.replicate n v ++ (c :: out), b < 256 := by
  intro b hb
  simp only [List.mem_append, List.mem_replicate, List.mem_cons] at hb
  rcases hb with ⟨_, rfl⟩ | rfl | hb
  · exact hv
  · exact hc
  · exact h b hb

/-- **Carry propagation.** Whatever branch `range_shift_low` takes — write the cached byte and the
pending `0xff`s, write them incremented because a carry arrived (the cached byte is then below
255: the `& 0xff` never cuts anything), or count one more `0xff` — the number the state stands for
is multiplied by 256, it gets one digit longer, and every byte written is a byte. -/
theorem shiftLow_spec (e : Enc) (h : Inv0 e) :
    N (shiftLow e) = 256 * N e ∧ Inv0 (shiftLow e) ∧
    P (shiftLow e) = 256 * (if e.low < 0xff000000 ∨ e.carry = true then T e % 2 ^ 32 else P e) := by
  obtain ⟨hlow, hcache, hpend, hbytes⟩ := h
  have hp := pow256_pos e.ffnum
  have hps : 256 ^ (e.ffnum + 1) = 256 ^ e.ffnum * 256 := Nat.pow_succ 256 e.ffnum
  unfold P T at hpend
  rw [hps] at hpend
  by_cases hA : e.low < 0xff000000 ∨ e.carry = true
  · rw [if_pos hA]
    cases hc : e.carry with
    | false =>
      have hl : e.low < 0xff000000 := hA.resolve_right (by simp [hc])
      have hs : shiftLow e = ⟨e.low * 256 % 2 ^ 32, e.range, false, e.low / 2 ^ 24, 0,
          List.replicate e.ffnum 255 ++ (e.cache % 256 :: e.out)⟩ := by
        unfold shiftLow; simp [hl, hc]
      have hout := numR_replicate_ff e.ffnum (e.cache % 256 :: e.out)
      rw [numR, Nat.mod_eq_of_lt hcache, mul_key] at hout
      rw [hs]
      simp only [hc, Bool.false_eq_true, if_false, Nat.add_zero] at hpend
      have h13 : N ⟨e.low * 256 % 2 ^ 32, e.range, false, e.low / 2 ^ 24, 0,
            List.replicate e.ffnum 255 ++ (e.cache % 256 :: e.out)⟩ = 256 * N e ∧
          P ⟨e.low * 256 % 2 ^ 32, e.range, false, e.low / 2 ^ 24, 0,
            List.replicate e.ffnum 255 ++ (e.cache % 256 :: e.out)⟩ = 256 * (T e % 2 ^ 32) := by
        show numR (List.replicate e.ffnum 255 ++ (e.cache % 256 :: e.out)) * 256 ^ 0 * 2 ^ 40 +
            ((e.low / 2 ^ 24 * 256 ^ 0 + (256 ^ 0 - 1)) * 2 ^ 32 + (e.low * 256 % 2 ^ 32 + 0))
            = 256 * (numR e.out * 256 ^ e.ffnum * 2 ^ 40 +
              ((e.cache * 256 ^ e.ffnum + (256 ^ e.ffnum - 1)) * 2 ^ 32 + (e.low + if e.carry = true then 2 ^ 32 else 0))) ∧
            ((e.low / 2 ^ 24 * 256 ^ 0 + (256 ^ 0 - 1)) * 2 ^ 32 + (e.low * 256 % 2 ^ 32 + 0))
            = 256 * ((e.low + if e.carry = true then 2 ^ 32 else 0) % 2 ^ 32)
        rw [Nat.mod_eq_of_lt hcache, hout]
        simp only [hc, Bool.false_eq_true, if_false]
        generalize numR e.out * 256 ^ e.ffnum = ap at *
        generalize e.cache * 256 ^ e.ffnum = cp at *
        generalize 256 ^ e.ffnum = p at *
        exact ⟨by omega, by omega⟩
      refine ⟨h13.1, ⟨by show e.low * 256 % 2 ^ 32 < 2 ^ 32; omega, by show e.low / 2 ^ 24 < 256; omega, ?_,
        mem_out 255 _ _ _ (by decide) (Nat.mod_lt _ (by decide)) hbytes⟩, h13.2⟩
      rw [h13.2]
      simp only [Nat.zero_add, Nat.pow_one]
      omega
    | true =>
      have hs : shiftLow e = ⟨e.low * 256 % 2 ^ 32, e.range, false, e.low / 2 ^ 24, 0,
          List.replicate e.ffnum 0 ++ ((e.cache + 1) % 256 :: e.out)⟩ := by
        unfold shiftLow; simp [hc]
      simp only [hc, if_true] at hpend
      -- the cached byte is below 255: the pending part with its carry fits its digits
      have hc1 : e.cache + 1 < 256 := by
        have h1 : (e.cache + 1) * 256 ^ e.ffnum < 256 * 256 ^ e.ffnum := by
          rw [Nat.add_mul, Nat.one_mul]
          generalize e.cache * 256 ^ e.ffnum = cp at *
          generalize 256 ^ e.ffnum = p at *
          omega
        exact Nat.lt_of_mul_lt_mul_right h1
      have hout := numR_replicate_zero e.ffnum ((e.cache + 1) % 256 :: e.out)
      rw [numR, Nat.mod_eq_of_lt hc1, mul_key, Nat.add_mul, Nat.one_mul] at hout
      rw [hs]
      have h13 : N ⟨e.low * 256 % 2 ^ 32, e.range, false, e.low / 2 ^ 24, 0,
            List.replicate e.ffnum 0 ++ ((e.cache + 1) % 256 :: e.out)⟩ = 256 * N e ∧
          P ⟨e.low * 256 % 2 ^ 32, e.range, false, e.low / 2 ^ 24, 0,
            List.replicate e.ffnum 0 ++ ((e.cache + 1) % 256 :: e.out)⟩ = 256 * (T e % 2 ^ 32) := by
        show numR (List.replicate e.ffnum 0 ++ ((e.cache + 1) % 256 :: e.out)) * 256 ^ 0 * 2 ^ 40 +
            ((e.low / 2 ^ 24 * 256 ^ 0 + (256 ^ 0 - 1)) * 2 ^ 32 + (e.low * 256 % 2 ^ 32 + 0))
            = 256 * (numR e.out * 256 ^ e.ffnum * 2 ^ 40 +
              ((e.cache * 256 ^ e.ffnum + (256 ^ e.ffnum - 1)) * 2 ^ 32 + (e.low + if e.carry = true then 2 ^ 32 else 0))) ∧
            ((e.low / 2 ^ 24 * 256 ^ 0 + (256 ^ 0 - 1)) * 2 ^ 32 + (e.low * 256 % 2 ^ 32 + 0))
            = 256 * ((e.low + if e.carry = true then 2 ^ 32 else 0) % 2 ^ 32)
        rw [Nat.mod_eq_of_lt hc1, hout]
        simp only [hc, if_true]
        generalize numR e.out * 256 ^ e.ffnum = ap at *
        generalize e.cache * 256 ^ e.ffnum = cp at *
        generalize 256 ^ e.ffnum = p at *
        exact ⟨by omega, by omega⟩
      refine ⟨h13.1, ⟨by show e.low * 256 % 2 ^ 32 < 2 ^ 32; omega, by show e.low / 2 ^ 24 < 256; omega, ?_,
        mem_out 0 _ _ _ (by decide) (Nat.mod_lt _ (by decide)) hbytes⟩, h13.2⟩
      rw [h13.2]
      simp only [Nat.zero_add, Nat.pow_one]
      omega
  · rw [if_neg hA]
    have hl : ¬ e.low < 0xff000000 := fun h => hA (Or.inl h)
    have hc : e.carry = false := by
      cases h : e.carry with
      | false => rfl
      | true => exact absurd (Or.inr h) hA
    have hs : shiftLow e = ⟨e.low * 256 % 2 ^ 32, e.range, e.carry, e.cache, e.ffnum + 1, e.out⟩ := by
      unfold shiftLow; simp [hA]
    rw [hs]
    simp only [hc, Bool.false_eq_true, if_false, Nat.add_zero] at hpend
    have h13 : N ⟨e.low * 256 % 2 ^ 32, e.range, e.carry, e.cache, e.ffnum + 1, e.out⟩ = 256 * N e ∧
        P ⟨e.low * 256 % 2 ^ 32, e.range, e.carry, e.cache, e.ffnum + 1, e.out⟩ = 256 * P e := by
      show numR e.out * 256 ^ (e.ffnum + 1) * 2 ^ 40 +
            ((e.cache * 256 ^ (e.ffnum + 1) + (256 ^ (e.ffnum + 1) - 1)) * 2 ^ 32 + (e.low * 256 % 2 ^ 32 + if e.carry = true then 2 ^ 32 else 0))
            = 256 * (numR e.out * 256 ^ e.ffnum * 2 ^ 40 +
              ((e.cache * 256 ^ e.ffnum + (256 ^ e.ffnum - 1)) * 2 ^ 32 + (e.low + if e.carry = true then 2 ^ 32 else 0))) ∧
            ((e.cache * 256 ^ (e.ffnum + 1) + (256 ^ (e.ffnum + 1) - 1)) * 2 ^ 32 + (e.low * 256 % 2 ^ 32 + if e.carry = true then 2 ^ 32 else 0))
            = 256 * ((e.cache * 256 ^ e.ffnum + (256 ^ e.ffnum - 1)) * 2 ^ 32 + (e.low + if e.carry = true then 2 ^ 32 else 0))
      rw [hps, ← Nat.mul_assoc, ← Nat.mul_assoc]
      simp only [hc, Bool.false_eq_true, if_false]
      generalize numR e.out * 256 ^ e.ffnum = ap at *
      generalize e.cache * 256 ^ e.ffnum = cp at *
      generalize 256 ^ e.ffnum = p at *
      exact ⟨by omega, by omega⟩
    refine ⟨h13.1, ⟨by show e.low * 256 % 2 ^ 32 < 2 ^ 32; omega, hcache, ?_, hbytes⟩, h13.2⟩
    rw [h13.2]
    show 256 * P e < 256 ^ (e.ffnum + 1 + 1) * 2 ^ 32
    rw [Nat.pow_succ 256 (e.ffnum + 1), hps]
    unfold P T
    simp only [hc, Bool.false_eq_true, if_false, Nat.add_zero]
    generalize e.cache * 256 ^ e.ffnum = cp at *
    generalize 256 ^ e.ffnum = p at *
    omega
/-! ## the invariant of the encoder -/

/-- The state invariant of the encoder between and inside coding steps: `low` and `range` are
`u32` values, `low + carry·2^32 + range ≤ 2^33` (a second carry cannot arrive while one is
pending), the pending part plus the range fits its digits (a carry never reaches a byte that was
already written), and the whole number plus the range fits one digit less than it has (the first
byte written is 0). -/
structure Inv (e : Enc) : Prop where
  low : e.low < 2 ^ 32
  cache : e.cache < 256
  bytes : ∀ b ∈ e.out, b < 256
  rpos : 1 ≤ e.range
  rlt : e.range < 2 ^ 32
  top : T e + e.range ≤ 2 ^ 33
  pend : P e + e.range ≤ 256 ^ (e.ffnum + 1) * 2 ^ 32
  glob : N e + e.range ≤ 256 ^ (D e - 1)

theorem Inv.inv0 {e : Enc} (h : Inv e) : Inv0 e :=
  ⟨h.low, h.cache, by have := h.pend; have := h.rpos; omega, h.bytes⟩

theorem init_inv : Inv Enc.init := by
  refine ⟨by decide, by decide, by simp [Enc.init], by decide, by decide, by decide, by decide, by decide⟩

theorem shiftLow_carry (e : Enc) : (shiftLow e).carry = false := by
  unfold shiftLow
  split
  · rfl
  · next hA =>
    cases h : e.carry with
    | false => simp
    | true => exact absurd (Or.inr h) hA

/-- one round of the normalisation loop: `range <<= 8; range_shift_low()` -/
theorem shiftNorm_spec (e : Enc) (h : Inv e) (hr : e.range < 2 ^ 24) :
    Inv (shiftLow { e with range := e.range * 256 }) ∧
    N (shiftLow { e with range := e.range * 256 }) = 256 * N e := by
  have h0 : Inv0 { e with range := e.range * 256 } := ⟨h.low, h.cache, h.inv0.pend, h.bytes⟩
  obtain ⟨hN, hI, hP⟩ := shiftLow_spec _ h0
  have hD := shiftLow_D { e with range := e.range * 256 }
  have hR := shiftLow_range { e with range := e.range * 256 }
  obtain ⟨hlow, hcache, hbytes, hrpos, hrlt, htop, hpend, hglob⟩ := h
  generalize hs : shiftLow { e with range := e.range * 256 } = s at *
  have hN' : N s = 256 * N e := hN
  have hD' : D s = D e + 1 := hD
  have hR' : s.range = e.range * 256 := hR
  have hP' : P s = 256 * (if e.low < 0xff000000 ∨ e.carry = true then T e % 2 ^ 32 else P e) := hP
  clear hN hD hR hP
  have hT : T s ≤ P s := by unfold P; omega
  refine ⟨⟨hI.low, hI.cache, hI.bytes, by omega, by omega, ?_, ?_, ?_⟩, hN'⟩
  · -- top: both summands are below 2^32
    have h1 : T s < 2 ^ 32 := by
      have hc : s.carry = false := by rw [← hs]; exact shiftLow_carry _
      have := hI.low
      unfold T; simp [hc]; omega
    omega
  · -- pend
    rw [hR', hP']
    by_cases hA : e.low < 0xff000000 ∨ e.carry = true
    · have hf : s.ffnum = 0 := by
        rw [← hs]; unfold shiftLow; simp [hA]
      rw [hf, if_pos hA]
      unfold T at *
      cases hc : e.carry with
      | false =>
        have hl : e.low < 0xff000000 := hA.resolve_right (by simp [hc])
        simp [hc] at htop ⊢; omega
      | true => simp [hc] at htop ⊢; omega
    · have hf : s.ffnum = e.ffnum + 1 := by
        rw [← hs]; unfold shiftLow; simp [hA]
      rw [hf, if_neg hA, Nat.pow_succ 256 (e.ffnum + 1)]
      generalize 256 ^ (e.ffnum + 1) = q at *
      omega
  · rw [hR', hN', hD']
    have hd : D e + 1 - 1 = (D e - 1) + 1 := by unfold D; omega
    rw [hd, Nat.pow_succ]
    generalize 256 ^ (D e - 1) = q at *
    omega

/-- narrowing: `range /= tot; low += sym_low * range (mod 2^32, remembering the carry);
range *= sym_freq` adds `sym_low * (range / tot)` to the number; no product leaves `u32` -/
theorem narrow_spec (e : Enc) (lo f tot : Nat) (h : Inv e) (hf : 1 ≤ f) (hlf : lo + f ≤ tot)
    (htot : tot ≤ 2 ^ 16) (hr : 2 ^ 24 ≤ e.range) :
    let r := e.range / tot
    let low' := (e.low + lo * r) % 2 ^ 32
    let e1 : Enc := { e with range := r * f, low := low', carry := e.carry || decide (low' < e.low) }
    Inv e1 ∧ N e1 = N e + lo * r ∧ D e1 = D e ∧ 256 ≤ r * f ∧ lo * r + r * f ≤ e.range := by
  intro r low' e1
  obtain ⟨hlow, hcache, hbytes, hrpos, hrlt, htop, hpend, hglob⟩ := h
  -- the interval lies inside the range
  have hin : lo * r + r * f ≤ e.range := by
    have h1 : (lo + f) * r ≤ tot * r := Nat.mul_le_mul_right r hlf
    have h2 : tot * r ≤ e.range := by
      rw [Nat.mul_comm]; exact Nat.div_mul_le_self e.range tot
    rw [Nat.add_mul, Nat.mul_comm f r] at h1
    omega
  have hrge : 256 ≤ r := by
    show 256 ≤ e.range / tot
    rw [Nat.le_div_iff_mul_le (by omega)]
    calc 256 * tot ≤ 256 * 2 ^ 16 := Nat.mul_le_mul_left _ htot
      _ ≤ e.range := by omega
  have hrf : 256 ≤ r * f := by
    calc 256 ≤ r := hrge
      _ = r * 1 := (Nat.mul_one r).symm
      _ ≤ r * f := Nat.mul_le_mul_left r hf
  -- the 33-bit value grows by exactly `lo * r`
  have hT : T e1 = T e + lo * r := by
    unfold T at htop ⊢
    show ((e.low + lo * r) % 2 ^ 32 + if (e.carry || decide ((e.low + lo * r) % 2 ^ 32 < e.low)) = true then 2 ^ 32 else 0) = _
    generalize lo * r = d at *
    generalize r * f = w at *
    cases hc : e.carry with
    | true =>
      simp only [hc, if_true, Bool.true_or] at htop ⊢
      omega
    | false =>
      simp only [hc, Bool.false_eq_true, if_false, Bool.false_or, decide_eq_true_eq, Nat.add_zero] at htop ⊢
      by_cases hw : e.low + d < 2 ^ 32
      · have : ¬ ((e.low + d) % 2 ^ 32 < e.low) := by omega
        simp only [this, if_false]; omega
      · have : (e.low + d) % 2 ^ 32 < e.low := by omega
        simp only [this, if_true]; omega
  have hP : P e1 = P e + lo * r := by
    show (e.cache * 256 ^ e.ffnum + (256 ^ e.ffnum - 1)) * 2 ^ 32 + T e1 = _
    rw [hT]; unfold P; omega
  have hN : N e1 = N e + lo * r := by
    show numR e.out * 256 ^ e.ffnum * 2 ^ 40 + P e1 = _
    rw [hP]; unfold N; omega
  have hD : D e1 = D e := rfl
  have hR : e1.range = r * f := rfl
  have hF : e1.ffnum = e.ffnum := rfl
  refine ⟨⟨Nat.mod_lt _ (by decide), hcache, hbytes, by rw [hR]; omega,
    by rw [hR]; omega, by rw [hT, hR]; omega,
    by rw [hP, hR, hF]; omega, by rw [hN, hD, hR]; omega⟩, hN, hD, hrf, hin⟩

theorem normEnc_D_ge (fuel : Nat) (e : Enc) : D e ≤ D (normEnc fuel e) := by
  induction fuel generalizing e with
  | zero => exact Nat.le_refl _
  | succ fuel ih =>
    unfold normEnc
    split
    · have := ih (shiftLow { e with range := e.range * 256 })
      have h2 := shiftLow_D { e with range := e.range * 256 }
      have h3 : D { e with range := e.range * 256 } = D e := rfl
      omega
    · exact Nat.le_refl _

/-- the normalisation loop keeps the invariant -/
theorem normEnc_inv (fuel : Nat) (e : Enc) (h : Inv e) : Inv (normEnc fuel e) := by
  induction fuel generalizing e with
  | zero => exact h
  | succ fuel ih =>
    unfold normEnc
    split
    · next hr => exact ih _ (shiftNorm_spec e h hr).1
    · exact h

/-- … and ends with `range ≥ 2^24` when it has fuel for it -/
theorem normEnc_range (fuel : Nat) (e : Enc) (h : 2 ^ 24 ≤ e.range * 256 ^ fuel) :
    2 ^ 24 ≤ (normEnc fuel e).range := by
  induction fuel generalizing e with
  | zero => unfold normEnc; omega
  | succ fuel ih =>
    unfold normEnc
    split
    · apply ih
      rw [shiftLow_range]
      show 2 ^ 24 ≤ e.range * 256 * 256 ^ fuel
      have : e.range * 256 * 256 ^ fuel = e.range * 256 ^ (fuel + 1) := by
        rw [Nat.pow_succ, Nat.mul_assoc, Nat.mul_comm 256]
      omega
    · omega

/-- `range_encode` keeps the invariant and ends normalised -/
theorem encode_inv (e : Enc) (lo f tot : Nat) (h : Inv e) (hf : 1 ≤ f) (hlf : lo + f ≤ tot)
    (htot : tot ≤ 2 ^ 16) (hr : 2 ^ 24 ≤ e.range) :
    Inv (e.encode lo f tot) ∧ 2 ^ 24 ≤ (e.encode lo f tot).range := by
  obtain ⟨h1, _, _, h4, _⟩ := narrow_spec e lo f tot h hf hlf htot hr
  unfold Enc.encode
  refine ⟨normEnc_inv 4 _ h1, normEnc_range 4 _ ?_⟩
  show 2 ^ 24 ≤ e.range / tot * f * 256 ^ 4
  omega

/-! ## the closing bytes -/

/-- `range_encode_end` writes the number out: the stream is the big-endian form of `N e`, one byte
per digit -/
theorem finish_spec (e : Enc) (h : Inv0 e) :
    num e.finish = N e ∧ e.finish.length = D e ∧ ∀ b ∈ e.finish, b < 256 := by
  unfold Enc.finish
  obtain ⟨n1, i1, _⟩ := shiftLow_spec e h
  obtain ⟨n2, i2, _⟩ := shiftLow_spec _ i1
  obtain ⟨n3, i3, _⟩ := shiftLow_spec _ i2
  obtain ⟨n4, i4, _⟩ := shiftLow_spec _ i3
  obtain ⟨n5, i5, _⟩ := shiftLow_spec _ i4
  have d1 := shiftLow_D e
  have d2 := shiftLow_D (shiftLow e)
  have d3 := shiftLow_D (shiftLow (shiftLow e))
  have d4 := shiftLow_D (shiftLow (shiftLow (shiftLow e)))
  have d5 := shiftLow_D (shiftLow (shiftLow (shiftLow (shiftLow e))))
  have l1 := shiftLow_low e
  have l2 := shiftLow_low (shiftLow e)
  have l3 := shiftLow_low (shiftLow (shiftLow e))
  have l4 := shiftLow_low (shiftLow (shiftLow (shiftLow e)))
  -- after four shifts `low` is 0, so the fifth writes everything that is pending
  have hl4 : (shiftLow (shiftLow (shiftLow (shiftLow e)))).low = 0 := by
    rw [l4, l3, l2, l1]; have := h.low; omega
  generalize shiftLow (shiftLow (shiftLow (shiftLow e))) = e4 at *
  have hf5 : (shiftLow e4).ffnum = 0 ∧ (shiftLow e4).cache = 0 ∧ (shiftLow e4).low = 0 := by
    unfold shiftLow
    simp [hl4]
  have hc5 := shiftLow_carry e4
  have hN5 : N (shiftLow e4) = numR (shiftLow e4).out * 2 ^ 40 := by
    unfold N P T
    rw [hf5.1, hf5.2.1, hf5.2.2, hc5]; simp
  have hD5 : D (shiftLow e4) = (shiftLow e4).out.length + 5 := by
    unfold D; rw [hf5.1]
  refine ⟨?_, ?_, ?_⟩
  · rw [num_reverse]; omega
  · rw [List.length_reverse]; omega
  · intro b hb
    exact i5.bytes b (List.mem_reverse.mp hb)

/-! ## the decoder follows the encoder -/

/-- the final stream `B` still names a number inside the interval of the state `e`, read at `e`'s
number of digits -/
structure Sand (B : List Nat) (e : Enc) : Prop where
  lo : N e ≤ num (B.take (D e))
  hi : num (B.take (D e)) < N e + e.range
  len : D e ≤ B.length

/-- what ties a decoder state to an encoder state: same range, `code` = (prefix of the final
stream) − (the encoder's number), below the range; the decoder has read exactly the encoder's
digits -/
structure Rel (B : List Nat) (e : Enc) (d : Dec) : Prop where
  range : d.range = e.range
  code : d.code + N e = num (B.take (D e))
  lt : d.code < e.range
  src : d.src = B.drop (D e)

theorem sand_shift_back (B : List Nat) (hB : ∀ b ∈ B, b < 256) (e : Enc) (h : Inv e)
    (hr : e.range < 2 ^ 24) (hs : Sand B (shiftLow { e with range := e.range * 256 })) : Sand B e := by
  obtain ⟨_, hN⟩ := shiftNorm_spec e h hr
  have hD : D (shiftLow { e with range := e.range * 256 }) = D e + 1 := shiftLow_D _
  have hR : (shiftLow { e with range := e.range * 256 }).range = e.range * 256 := shiftLow_range _
  obtain ⟨h1, h2, h3⟩ := hs
  rw [hN, hD] at h1
  rw [hN, hD, hR] at h2
  rw [hD] at h3
  have hk : D e < B.length := by omega
  rw [num_take_succ B (D e) hk] at h1 h2
  have hb := hB B[D e] (List.getElem_mem hk)
  exact ⟨by omega, by omega, by omega⟩

theorem sand_norm_back (B : List Nat) (hB : ∀ b ∈ B, b < 256) (fuel : Nat) (e : Enc) (h : Inv e)
    (hs : Sand B (normEnc fuel e)) : Sand B e := by
  induction fuel generalizing e with
  | zero => exact hs
  | succ fuel ih =>
    unfold normEnc at hs
    split at hs
    · next hr => exact sand_shift_back B hB e h hr (ih _ (shiftNorm_spec e h hr).1 hs)
    · exact hs

/-- the decoder's normalisation loop reads exactly the bytes the encoder's loop made final, and
`code << 8` never loses a bit -/
theorem norm_sync (B : List Nat) (hB : ∀ b ∈ B, b < 256) (fuel : Nat) (e : Enc) (d : Dec)
    (h : Inv e) (hrel : Rel B e d) (hD : D (normEnc fuel e) ≤ B.length) :
    ∃ d', normDec fuel d = .ok d' ∧ Rel B (normEnc fuel e) d' := by
  induction fuel generalizing e d with
  | zero => exact ⟨d, rfl, hrel⟩
  | succ fuel ih =>
    obtain ⟨hr, hc, hlt, hs⟩ := hrel
    unfold normEnc normDec
    rw [hr]
    by_cases hlow : e.range < 2 ^ 24
    · simp only [hlow, if_true]
      unfold normEnc at hD
      simp only [hlow, if_true] at hD
      obtain ⟨hI, hN⟩ := shiftNorm_spec e h hlow
      have hDs : D (shiftLow { e with range := e.range * 256 }) = D e + 1 := shiftLow_D _
      have hRs : (shiftLow { e with range := e.range * 256 }).range = e.range * 256 := shiftLow_range _
      have hge := normEnc_D_ge fuel (shiftLow { e with range := e.range * 256 })
      have hk : D e < B.length := by omega
      rw [hs, List.drop_eq_getElem_cons hk]
      simp only
      have hb := hB B[D e] (List.getElem_mem hk)
      apply ih _ _ hI _ hD
      refine ⟨by rw [hRs], ?_, ?_, by rw [hDs]⟩
      · rw [hN, hDs, num_take_succ B (D e) hk]
        show d.code * 256 % 2 ^ 32 + B[D e] + _ = _
        omega
      · rw [hRs]
        show d.code * 256 % 2 ^ 32 + B[D e] < e.range * 256
        omega
    · simp only [hlow, if_false]
      unfold normEnc at hD
      simp only [hlow, if_false] at hD
      exact ⟨d, rfl, ⟨hr, hc, hlt, hs⟩⟩

/-- the state `range_encode` reaches before its normalisation loop -/
def narrowed (e : Enc) (lo f tot : Nat) : Enc :=
  { e with range := e.range / tot * f, low := (e.low + lo * (e.range / tot)) % 2 ^ 32,
           carry := e.carry || decide ((e.low + lo * (e.range / tot)) % 2 ^ 32 < e.low) }

theorem encode_eq (e : Enc) (lo f tot : Nat) : e.encode lo f tot = normEnc 4 (narrowed e lo f tot) := rfl

theorem narrowed_spec (e : Enc) (lo f tot : Nat) (h : Inv e) (hf : 1 ≤ f) (hlf : lo + f ≤ tot)
    (htot : tot ≤ 2 ^ 16) (hr : 2 ^ 24 ≤ e.range) :
    Inv (narrowed e lo f tot) ∧ N (narrowed e lo f tot) = N e + lo * (e.range / tot) ∧
    D (narrowed e lo f tot) = D e ∧ (narrowed e lo f tot).range = e.range / tot * f ∧
    256 ≤ e.range / tot * f ∧ lo * (e.range / tot) + e.range / tot * f ≤ e.range := by
  obtain ⟨h1, h2, h3, h4, h5⟩ := narrow_spec e lo f tot h hf hlf htot hr
  exact ⟨h1, h2, h3, rfl, h4, h5⟩

/-- **One step of the range coder.** If the decoder is tied to the encoder's state and the final
stream lies in the interval of the encoder's NEXT state, then `range_get_freq` returns a value in
`[sym_low, sym_low + sym_freq)` — the interval the encoder narrowed to — and `range_decode` leaves
the decoder tied to the next state. -/
theorem step_sync (B : List Nat) (hB : ∀ b ∈ B, b < 256) (e : Enc) (d : Dec) (lo f tot : Nat)
    (h : Inv e) (hf : 1 ≤ f) (hlf : lo + f ≤ tot) (htot : tot ≤ 2 ^ 16) (hr : 2 ^ 24 ≤ e.range)
    (hrel : Rel B e d) (hs : Sand B (e.encode lo f tot)) :
    lo ≤ d.code / (d.range / tot) ∧ d.code / (d.range / tot) < lo + f ∧
    ∃ d', normDec 4 ⟨d.range / tot * f, d.code - lo * (d.range / tot), d.src⟩ = .ok d' ∧
      Rel B (e.encode lo f tot) d' := by
  obtain ⟨hI1, hN1, hD1, hrf, hin⟩ := narrow_spec e lo f tot h hf hlf htot hr
  obtain ⟨hrg, hc, hlt, hsrc⟩ := hrel
  rw [encode_eq] at hs ⊢
  have hI1' : Inv (narrowed e lo f tot) := hI1
  have hN1' : N (narrowed e lo f tot) = N e + lo * (e.range / tot) := hN1
  have hD1' : D (narrowed e lo f tot) = D e := hD1
  have hR1' : (narrowed e lo f tot).range = e.range / tot * f := rfl
  have hrf' : 256 ≤ e.range / tot * f := hrf
  have hin' : lo * (e.range / tot) + e.range / tot * f ≤ e.range := hin
  obtain ⟨s1, s2, s3⟩ := sand_norm_back B hB 4 _ hI1' hs
  rw [hN1', hD1'] at s1
  rw [hN1', hD1', hR1'] at s2
  rw [hrg]
  have hrpos : 0 < e.range / tot := by
    rcases Nat.eq_zero_or_pos (e.range / tot) with h0 | h0
    · rw [h0] at hrf'; omega
    · exact h0
  -- the window minus the encoder's number is the decoder's code
  have hcode1 : lo * (e.range / tot) ≤ d.code := by omega
  have hcode2 : d.code < (lo + f) * (e.range / tot) := by
    rw [Nat.add_mul, Nat.mul_comm f]
    omega
  refine ⟨(Nat.le_div_iff_mul_le hrpos).mpr hcode1, (Nat.div_lt_iff_lt_mul hrpos).mpr hcode2, ?_⟩
  apply norm_sync B hB 4 _ _ hI1' _ hs.len
  refine ⟨rfl, ?_, ?_, by rw [hD1']; exact hsrc⟩
  · rw [hN1', hD1']
    show d.code - lo * (e.range / tot) + _ = _
    omega
  · rw [hR1']
    show d.code - lo * (e.range / tot) < e.range / tot * f
    rw [Nat.add_mul, Nat.mul_comm f] at hcode2
    omega
end Noodles.Cram.Aac
