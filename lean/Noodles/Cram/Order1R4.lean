import Noodles.Cram.Order1
/-!
# rANS 4x8, order 1

**Encoder** — transcribed from noodles (`noodles-cram/src/codecs/rans_4x8/encode/order_1.rs`):
the refusal of inputs shorter than 4 bytes, `build_raw_frequencies`, `normalize_frequencies` and
`build_cumulative_frequencies` (row by row the order-0 functions of `Rans4x8.lean`, i.e. WITH the
C08 `fix:` commits), `split_chunks`, the three loops of `encode` (`Order1.lean`),
`write_frequencies` / `build_alphabet` (a context is listed when its row has a non-zero entry; the
list of contexts uses the same run-length rule as the order-0 symbol list; every listed context is
followed by its row as an order-0 table), `write_states`, `write_header`.

**Decoder** — the specification's `RansDecode1` / `ReadFrequencies1` (`rans_4x8/decode/order_1.rs`
is the same algorithm) together with the validity checks of noodles' reader: a run of contexts or
of symbols must not pass symbol 255 (`next_symbol`), a frequency must fit `u16`, and the
frequencies of a row must sum to at most 4096 (`validate_frequencies`; the encoder's rows sum to
4095). With these checks no fixed-width operation of the decoder can overflow.
-/
namespace Noodles.Cram.O1
open Noodles.Cram.Num Noodles.Cram.R4

/-- rANS 4x8: renormalisation byte by byte (`R4.renormEnc` returns the bytes in emission order; the
final buffer is reversed) -/
def kit4 : Kit where
  renE s f := ((R4.renormEnc 4 s f).1, (R4.renormEnc 4 s f).2.reverse)
  renD bs x := match R4.renormDec bs x with
    | .ok r => some r
    | .error _ => none

/-- `build_alphabet`: `fs.iter().any(|&g| g > 0)` -/
def present (r : List Nat) : Bool := r.any (· ≠ 0)

/-- order-1 `write_frequencies` -/
def writeFreqs1 (F : Table) : List Nat := writeRunsGo present R4.writeFreqs 0 F none

/-- one row: `ReadFrequencies0`, then `validate_frequencies` (total at most 4096) -/
def readRow4 (bs : List Nat) : Option (List Nat × List Nat) :=
  match R4.readFreqs bs with
  | .error _ => none
  | .ok (r, bs) => if r.sum > 4096 then none else some (r, bs)

/-- `ReadFrequencies1` -/
def readFreqs1 : List Nat → Option (Table × List Nat) :=
  readRuns readRow4 (List.replicate 256 0)

/-- `rans_4x8::encode(Order::One, src)` -/
def encode1 (src : List Nat) : Except R4.EncErr (List Nat) :=
  if src.length < 4 then .error .invalidInput
  else
    let F := freqTable 4095 4 src
    match encLanes kit4 F (cumTable F) R4.L 4 src with
    | none => .error .zeroFreq
    | some (st, out) =>
      let body := writeFreqs1 F ++ (st.map le4).flatten ++ out
      if body.length ≥ 2 ^ 32 ∨ src.length ≥ 2 ^ 32 then .error .invalidInput
      else .ok (1 :: le4 body.length ++ le4 src.length ++ body)

/-- the order-1 part of `rans_4x8::decode`: everything behind the 9-byte header, `n > 0` symbols -/
def decodeBody1 (n : Nat) (bs : List Nat) : Option (List Nat) :=
  match readFreqs1 bs with
  | none => none
  | some (F, bs) =>
    match rdStates 4 bs with
    | none => none
    | some (st, bs) => decLanes kit4 12 F (cumTable F) 4 n st bs

/-- `rans_4x8::decode`; an order-0 stream is handed to the order-0 model -/
def decode1 : List Nat → Option (List Nat)
  | [] => none
  | order :: bs =>
    if order = 0 then
      match R4.decode (order :: bs) with
      | .ok d => some d
      | .error _ => none
    else if order ≥ 2 then none
    else
      match readU32le bs with
      | .error _ => none
      | .ok (_, bs) =>
        match readU32le bs with
        | .error _ => none
        | .ok (n, bs) => if n = 0 then some [] else decodeBody1 n bs

end Noodles.Cram.O1
