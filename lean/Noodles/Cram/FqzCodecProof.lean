import Noodles.Cram.FqzParamProof
import Noodles.Cram.FqzEncProof
/-!
Helper lemmas for `Noodles/Props/C08Fqz.lean`: the parameter set `build_parameters` builds, the
context update both sides compute for it, and the decoder's main loop in step with the encoder's
events (on top of `Aac.Sync`).
-/
namespace Noodles.Cram.Fqz
open Noodles.Cram.Aac Noodles.Cram.Num

/-! ## the built parameters -/

/-- the one parameter set of `build_parameters`: `fixed` = all records have one length, `nsym` =
largest quality + 1, `pshift` = 1 when the first record is longer than 128 -/
def builtParam (fixed : Bool) (nsym pshift : Nat) : EParam :=
  ⟨0, 32 + (if fixed then 4 else 0), nsym, 9, 5, 7, 15, 0, 15, List.range 256, buildPtab pshift⟩

def builtParams (fixed : Bool) (nsym pshift : Nat) : EParams :=
  ⟨0, 0, List.replicate 256 0, [builtParam fixed nsym pshift], nsym⟩

theorem buildParameters_eq (lens src : List Nat) (l0 : Nat) (h : lens.head? = some l0) :
    buildParameters lens src = .ok (builtParams (allEqual lens) (src.foldl max 0 + 1) (if l0 > 128 then 1 else 0)) := by
  simp only [buildParameters, h, builtParams, builtParam]

/-- the bits of the flag byte `HAVE_PTAB [| DO_LEN]` -/
theorem builtFlags (f : Bool) :
    bit (32 + (if f then 4 else 0)) 1 = false ∧ bit (32 + (if f then 4 else 0)) 2 = f ∧
    bit (32 + (if f then 4 else 0)) 3 = false ∧ bit (32 + (if f then 4 else 0)) 4 = false ∧
    bit (32 + (if f then 4 else 0)) 5 = true ∧ bit (32 + (if f then 4 else 0)) 6 = false ∧
    bit (32 + (if f then 4 else 0)) 7 = false ∧ 32 + (if f then 4 else 0) < 256 := by
  cases f <;> decide

theorem builtParam_writable (fixed : Bool) (nsym pshift : Nat) (h1 : 1 ≤ nsym) (h2 : nsym ≤ 256)
    (hs : pshift = 0 ∨ pshift = 1) : (builtParam fixed nsym pshift).Writable := by
  have hp := buildPtab_ok pshift hs
  obtain ⟨_, _, _, b4, _, b6, b7, blt⟩ := builtFlags fixed
  constructor
  all_goals simp only [builtParam]
  all_goals first
    | omega
    | assumption
    | exact fun _ => hp.2
    | exact fun _ => hp.1

theorem builtParams_writable (fixed : Bool) (nsym pshift : Nat) (h1 : 1 ≤ nsym) (h2 : nsym ≤ 256)
    (hs : pshift = 0 ∨ pshift = 1) : (builtParams fixed nsym pshift).Writable := by
  have hg0 : bit 0 0 = false := by decide
  have hg1 : bit 0 1 = false := by decide
  refine ⟨by show (0 : Nat) < 8; omega, ?_, ?_, ?_, ?_, ?_⟩
  · show (if bit 0 0 = true then _ else _)
    rw [hg0]; rfl
  · intro h; exact absurd (hg1.symm.trans h) (by decide)
  · intro h; exact absurd (hg1.symm.trans h) (by decide)
  · intro h; exact absurd (hg1.symm.trans h) (by decide)
  intro p hp
  simp only [builtParams, List.mem_singleton] at hp
  subst hp
  exact builtParam_writable fixed nsym pshift h1 h2 hs

/-! ## the context update -/

/-- THE context update for the built parameter set, as a function of the history: `p` qualities of
the record are left (this one included), `qlast` is the quality history, `q` the quality just
coded → (the context of the next quality, the new history). Both `encUpdate` (encoder) and
`updateCtx` (decoder) compute it. -/
def nextCtx (pshift p qlast q : Nat) : Nat × Nat :=
  (((qlast * 32 % 4294967296 + q) % 4294967296 % 512 * 128 + min 127 (min p 1023 / 2 ^ pshift)) % 65536,
    (qlast * 32 % 4294967296 + q) % 4294967296)

theorem buildPtab_get (pshift p : Nat) :
    (buildPtab pshift)[min p 1023]? = some (min 127 (min p 1023 / 2 ^ pshift)) := by
  have h : min p 1023 < 1024 := by omega
  simp [buildPtab, List.getElem?_map, List.getElem?_range h]

theorem range_get (q : Nat) (h : q < 256) : (List.range 256)[q]? = some q := List.getElem?_range h

theorem encUpdate_built (fixed : Bool) (nsym pshift p qlast q : Nat) (hq : q < 256) :
    encUpdate (builtParam fixed nsym pshift) p qlast q = .ok (nextCtx pshift p qlast q) := by
  have hv : min 127 (min p 1023 / 2 ^ pshift) ≤ 127 := Nat.min_le_left _ _
  generalize hvv : min 127 (min p 1023 / 2 ^ pshift) = v at hv
  obtain ⟨_, _, hb3, _, hb5, hb6, _, _⟩ := builtFlags fixed
  simp only [encUpdate, builtParam, range_get q hq, buildPtab_get, hvv, hb5, hb6, hb3, nextCtx]
  have g1 : ¬ (5 ≥ 32 ∨ 9 ≥ 32 ∨ 7 ≥ 32) := by omega
  have g2 : ¬ (0 ≥ 8) := by omega
  simp only [Nat.reducePow, g1, g2, if_false, Nat.zero_add, Nat.mul_one, Bool.false_eq_true, if_true]
  have e1 : (qlast * 32 % 4294967296 + q) % 4294967296 % 512 * 128 % 4294967296
      = (qlast * 32 % 4294967296 + q) % 4294967296 % 512 * 128 := by omega
  have e2 : v % 256 = v := by omega
  rw [e1, e2]
  have c1 : ¬ (qlast * 32 % 4294967296 + q) % 4294967296 % 512 * 128 ≥ 4294967296 := by omega
  have c2 : ¬ (qlast * 32 % 4294967296 + q) % 4294967296 % 512 * 128 + v ≥ 4294967296 := by omega
  simp only [c1, c2, if_false]

theorem updateCtx_built (fixed : Bool) (nsym pshift q : Nat) (r : Rec) (hq : q < 256) :
    updateCtx (builtParam fixed nsym pshift).toDec q r
      = .ok ((nextCtx pshift r.pos r.qctx q).1, { r with qctx := (nextCtx pshift r.pos r.qctx q).2 }) := by
  obtain ⟨_, _, hb3, _, hb5, _, _, _⟩ := builtFlags fixed
  simp only [updateCtx, EParam.toDec, builtParam, hb5, if_true, List.getElem?_toArray, range_get q hq,
    buildPtab_get, Param.hasSel, hb3, nextCtx]
  simp only [Nat.reducePow, Nat.zero_add, Nat.mul_one, Nat.add_zero, Bool.false_eq_true, if_false]

/-! ## the events of the built parameters -/

theorem builtParams_stab0 (fixed : Bool) (nsym pshift : Nat) :
    (builtParams fixed nsym pshift).stab[0]? = some 0 := by
  show (List.replicate 256 0)[0]? = some 0
  rw [List.getElem?_replicate]; simp

theorem builtParams_param0 (fixed : Bool) (nsym pshift : Nat) :
    (builtParams fixed nsym pshift).params[0]? = some (builtParam fixed nsym pshift) := rfl

theorem builtParams_g1 (fixed : Bool) (nsym pshift : Nat) :
    bit (builtParams fixed nsym pshift).gflags 1 = false := by
  show bit 0 1 = false; decide

theorem encNewRecordEv_built (fixed : Bool) (nsym pshift : Nat) (st : ESt) (len : Nat) (rest : List Nat)
    (hl : st.lensRest = len :: rest) (h32 : len < 2 ^ 32) :
    encNewRecordEv (builtParams fixed nsym pshift) st
      = .ok ((if !fixed || st.recNum == 0 then lenEvents len else []), ⟨len, st.recNum + 1, rest, 0, 0, 0⟩) := by
  obtain ⟨hb1, hb2, _⟩ := builtFlags fixed
  have hf : (builtParam fixed nsym pshift).flags = 32 + (if fixed then 4 else 0) := rfl
  have hc : (builtParam fixed nsym pshift).context = 0 := rfl
  simp only [encNewRecordEv, builtParams_g1, builtParams_stab0, builtParams_param0, hl, hf, hb1, hb2, hc,
    Bool.false_eq_true, if_false, h32, not_true_eq_false]
  cases (!fixed || st.recNum == 0) <;> rfl

theorem encEvents_new (fixed : Bool) (nsym pshift : Nat) (st : ESt) (q len : Nat) (rest src : List Nat)
    (hp : st.p = 0) (hl : st.lensRest = len :: rest) (h0 : 0 < len) (h32 : len < 2 ^ 32) (hq : q < 256) :
    encEvents (builtParams fixed nsym pshift) st (q :: src)
      = match encEvents (builtParams fixed nsym pshift)
          ⟨len - 1, st.recNum + 1, rest, 0, (nextCtx pshift len 0 q).1, (nextCtx pshift len 0 q).2⟩ src with
        | .error err => .error err
        | .ok evs => .ok ((if !fixed || st.recNum == 0 then lenEvents len else []) ++ (0, q) :: evs) := by
  have hne : ¬ len = 0 := by omega
  rw [encEvents]
  simp only [hp, if_true, encNewRecordEv_built fixed nsym pshift st len rest hl h32, ne_eq,
    not_true_eq_false, if_false, builtParams_param0, encUpdate_built fixed nsym pshift len 0 q hq, hne,
    Nat.zero_mod]
  rfl

theorem encEvents_next (fixed : Bool) (nsym pshift : Nat) (st : ESt) (q : Nat) (src : List Nat)
    (hp : 0 < st.p) (hx : st.x = 0) (hq : q < 256) :
    encEvents (builtParams fixed nsym pshift) st (q :: src)
      = match encEvents (builtParams fixed nsym pshift)
          { st with p := st.p - 1, last := (nextCtx pshift st.p st.qlast q).1,
                    qlast := (nextCtx pshift st.p st.qlast q).2 } src with
        | .error err => .error err
        | .ok evs => .ok ((st.last % 65536, q) :: evs) := by
  have hne : ¬ st.p = 0 := by omega
  rw [encEvents]
  simp only [hne, if_false, hx, ne_eq, not_true_eq_false, builtParams_param0,
    encUpdate_built fixed nsym pshift st.p st.qlast q hq, List.nil_append]
  rfl

/-! ## decoder steps in sync -/

theorem decAt_sync (B : List Nat) (ms : Array Model) (e : Enc) (d : Dec) (c s : Nat)
    (evs : List (Nat × Nat)) (h : Sync B ms.toList e d ((c, s) :: evs)) :
    ∃ ms' d' e', decAt ms d c = .ok (s, ms', d') ∧ Sync B ms'.toList e' d' evs := by
  obtain ⟨m, m', d', e', hm, hdec, hs⟩ := sync_step B ms.toList e d c s evs h
  rw [Array.getElem?_toList] at hm
  refine ⟨ms.setIfInBounds c m', d', e', by simp only [decAt, hm, hdec], ?_⟩
  rw [Array.toList_setIfInBounds]
  exact hs

theorem readLength_sync (B : List Nat) (ms : Array Model) (e : Enc) (d : Dec) (len : Nat)
    (evs : List (Nat × Nat)) (h32 : len < 2 ^ 32) (h : Sync B ms.toList e d (lenEvents len ++ evs)) :
    ∃ ms' d' e', readLength ms d = .ok (len, ms', d') ∧ Sync B ms'.toList e' d' evs := by
  simp only [lenEvents, List.cons_append, List.nil_append] at h
  obtain ⟨ms0, d0, e0, h0, s0⟩ := decAt_sync B ms e d _ _ _ h
  obtain ⟨ms1, d1, e1, h1, s1⟩ := decAt_sync B ms0 e0 d0 _ _ _ s0
  obtain ⟨ms2, d2, e2, h2, s2⟩ := decAt_sync B ms1 e1 d1 _ _ _ s1
  obtain ⟨ms3, d3, e3, h3, s3⟩ := decAt_sync B ms2 e2 d2 _ _ _ s2
  refine ⟨ms3, d3, e3, ?_, s3⟩
  simp only [readLength, h0, h1, h2, h3]
  have : len % 256 + 256 * (len / 256 % 256) + 65536 * (len / 65536 % 256)
      + 16777216 * (len / 16777216 % 256) = len := by omega
  rw [this]

/-- the decoder's view of the built parameters -/
def builtDec (fixed : Bool) (nsym pshift : Nat) : Params := (builtParams fixed nsym pshift).toDec

theorem builtDec_param0 (fixed : Bool) (nsym pshift : Nat) :
    (builtDec fixed nsym pshift).params[0]? = some (builtParam fixed nsym pshift).toDec := rfl

theorem builtDec_sel (fixed : Bool) (nsym pshift : Nat) : (builtDec fixed nsym pshift).selectorCount = none := by
  have hg0 : bit 0 0 = false := by decide
  have hg1 : bit 0 1 = false := by decide
  simp only [builtDec, EParams.toDec]
  show (if bit 0 1 = true then _ else if bit 0 0 = true then _ else none) = none
  rw [hg0, hg1]; rfl

theorem builtDec_rev (fixed : Bool) (nsym pshift : Nat) : (builtDec fixed nsym pshift).doRev = false := by
  show bit 0 2 = false; decide

theorem newRecord_built (fixed : Bool) (nsym pshift : Nat) (B : List Nat) (ms : Array Model) (e : Enc)
    (d : Dec) (r : Rec) (lastLen len : Nat) (revLen : List (Bool × Nat)) (evs : List (Nat × Nat))
    (h32 : len < 2 ^ 32) (hdup : r.isDup = false)
    (hfix : (!fixed || r.recNo == 0) = false → lastLen = len)
    (h : Sync B ms.toList e d ((if !fixed || r.recNo == 0 then lenEvents len else []) ++ evs)) :
    ∃ ms' d' e', newRecord (builtDec fixed nsym pshift) ms d r lastLen revLen
        = .ok (0, ms', d', ⟨r.recNo + 1, r.selector, len, len, false, 0, 0, 0⟩, revLen) ∧
      Sync B ms'.toList e' d' evs := by
  obtain ⟨hb1, hb2, _⟩ := builtFlags fixed
  have hfl : ((builtParam fixed nsym pshift).toDec).fixedLen = fixed := hb2
  have hdp : ((builtParam fixed nsym pshift).toDec).hasDup = false := hb1
  unfold newRecord decSelector
  simp only [builtDec_sel, builtDec_param0, hfl, builtDec_rev, hdp, Bool.false_eq_true, if_false, hdup]
  by_cases hc : (!fixed || r.recNo == 0) = true
  · simp only [hc, if_true] at h ⊢
    obtain ⟨ms', d', e', hr, hs⟩ := readLength_sync B ms e d len evs h32 h
    exact ⟨ms', d', e', by simp only [hr], hs⟩
  · have hc' : (!fixed || r.recNo == 0) = false := by simpa using hc
    simp only [hc', Bool.false_eq_true, if_false, List.nil_append] at h ⊢
    exact ⟨ms, d, e, by rw [hfix hc'], h⟩

theorem decQual_built (fixed : Bool) (nsym pshift : Nat) (B : List Nat) (ms : Array Model) (e : Enc)
    (d : Dec) (r : Rec) (ctx lastLen i q : Nat) (revLen : List (Bool × Nat)) (out : List Nat)
    (evs : List (Nat × Nat)) (hq : q < 256) (hpos : 0 < r.pos)
    (h : Sync B ms.toList e d ((ctx, q) :: evs)) :
    ∃ ms' d' e', decQual (builtDec fixed nsym pshift) ms d r 0 ctx lastLen i revLen out
        = .ok ⟨ms', d', { r with qctx := (nextCtx pshift r.pos r.qctx q).2, pos := r.pos - 1 }, 0,
            (nextCtx pshift r.pos r.qctx q).1, lastLen, i + 1, revLen, q :: out⟩ ∧
      Sync B ms'.toList e' d' evs := by
  obtain ⟨ms', d', e', hd, hs⟩ := decAt_sync B ms e d ctx q evs h
  refine ⟨ms', d', e', ?_, hs⟩
  have hne : ¬ r.pos = 0 := by omega
  have hqm : ((builtParam fixed nsym pshift).toDec).qmap = none := rfl
  simp only [decQual, builtDec_param0, hd, hqm, updateCtx_built fixed nsym pshift q r hq, hne, if_false]

/-! ## the main loop -/

theorem allEqual_spec : ∀ (l : List Nat), allEqual l = true → ∀ a ∈ l, ∀ b ∈ l, a = b
  | [], _ => fun a ha => by simp at ha
  | [x], _ => fun a ha b hb => by
    simp only [List.mem_singleton] at ha hb; rw [ha, hb]
  | x :: y :: r, h => by
    simp only [allEqual, Bool.and_eq_true, beq_iff_eq] at h
    have ih := allEqual_spec (y :: r) h.2
    have hx : ∀ b ∈ y :: r, b = x := fun b hb => (ih b hb y (by simp)).trans h.1.symm
    intro a ha b hb
    rcases List.mem_cons.mp ha with ha | ha <;> rcases List.mem_cons.mp hb with hb | hb
    · rw [ha, hb]
    · rw [ha]; exact (hx b hb).symm
    · rw [hb]; exact hx a ha
    · exact ih a ha b hb

theorem nextCtx_lt (pshift p qlast q : Nat) : (nextCtx pshift p qlast q).1 < 65536 := by
  simp only [nextCtx]; omega

theorem decStep_new (P : Params) (n : Nat) (ms : Array Model) (d : Dec) (r : Rec)
    (x0 ctx lastLen i : Nat) (revLen : List (Bool × Nat)) (out : List Nat) (x : Nat) (ms1 : Array Model)
    (d1 : Dec) (rnew : Rec) (revLen1 : List (Bool × Nat)) (param : Param) (hr0 : r.pos = 0)
    (hnr : newRecord P ms d r lastLen revLen = .ok (x, ms1, d1, rnew, revLen1))
    (hv : validRecord rnew P.doRev i (n - i) = true) (hnd : rnew.isDup = false)
    (hpar : P.params[x]? = some param) :
    decStep P n ⟨ms, d, r, x0, ctx, lastLen, i, revLen, out⟩
      = decQual P ms1 d1 rnew x param.context rnew.len i revLen1 out := by
  simp only [decStep, hr0, if_true, hnr, hv, Bool.not_true, Bool.false_eq_true, if_false, hnd, hpar]

theorem decStep_next (P : Params) (n : Nat) (ms : Array Model) (d : Dec) (r : Rec)
    (x ctx lastLen i : Nat) (revLen : List (Bool × Nat)) (out : List Nat) (hr0 : ¬ r.pos = 0) :
    decStep P n ⟨ms, d, r, x, ctx, lastLen, i, revLen, out⟩ = decQual P ms d r x ctx lastLen i revLen out := by
  simp only [decStep, hr0, if_false]

/-- **The decoder's main loop, in step with the encoder's events.** `st` are the encoder's loop
variables before the qualities `src`, the decoder's record state agrees with them (position,
quality history, context, record number, last length), and the coders are in step (`Aac.Sync`) for
the events the encoder codes for `src`: then the loop decodes exactly `src`. -/
theorem decLoop_sync (fixed : Bool) (nsym pshift n : Nat) (B : List Nat) (src : List Nat) :
    ∀ (st : ESt) (evs : List (Nat × Nat)) (ms : Array Model) (e : Enc) (d : Dec) (r : Rec)
      (ctx lastLen i : Nat) (revLen : List (Bool × Nat)) (out : List Nat) (fuel : Nat),
    encEvents (builtParams fixed nsym pshift) st src = .ok evs → Sync B ms.toList e d evs →
    (∀ q ∈ src, q < 256) → r.pos = st.p → r.qctx = st.qlast → r.isDup = false → r.recNo = st.recNum →
    st.x = 0 → (0 < st.p → ctx = st.last ∧ st.last < 65536) →
    (∀ l ∈ st.lensRest, 0 < l ∧ l < 2 ^ 32) →
    (fixed = true → ∃ c, (∀ l ∈ st.lensRest, l = c) ∧ (0 < st.recNum → lastLen = c)) →
    st.p + st.lensRest.sum = src.length → i + src.length = n → src.length ≤ fuel →
    ∃ st', decLoop (builtDec fixed nsym pshift) n fuel ⟨ms, d, r, 0, ctx, lastLen, i, revLen, out⟩ = .ok st' ∧
      st'.out = src.reverse ++ out := by
  induction src with
  | nil =>
    intro st evs ms e d r ctx lastLen i revLen out fuel _ _ _ _ _ _ _ _ _ _ _ _ hi _
    simp only [List.length_nil, Nat.add_zero] at hi
    have hlt : ¬ i < n := by omega
    refine ⟨⟨ms, d, r, 0, ctx, lastLen, i, revLen, out⟩, ?_, rfl⟩
    cases fuel <;> simp only [decLoop, hlt, if_false]
  | cons q src ih =>
    intro st evs ms e d r ctx lastLen i revLen out fuel hev hsync hq hpos hqctx hdup hrec hx hctx hlens hfix hsum hi hfuel
    simp only [List.length_cons] at hsum hi hfuel
    have hq0 : q < 256 := hq q (by simp)
    have hqs : ∀ x ∈ src, x < 256 := fun x hx => hq x (List.mem_cons_of_mem _ hx)
    cases fuel with
    | zero => omega
    | succ fuel =>
    have hlt : i < n := by omega
    simp only [decLoop, hlt, if_true]
    by_cases hp : st.p = 0
    · -- a new record
      have hr0 : r.pos = 0 := by omega
      cases hl : st.lensRest with
      | nil => rw [hl] at hsum; simp at hsum; omega
      | cons len rest =>
        rw [hl] at hsum hlens hfix
        simp only [List.sum_cons] at hsum
        obtain ⟨hlen0, hlen32⟩ := hlens len (by simp)
        rw [encEvents_new fixed nsym pshift st q len rest src hp hl hlen0 hlen32 hq0] at hev
        split at hev
        · simp at hev
        · next evs' hev' =>
          simp only [Except.ok.injEq] at hev
          subst hev
          rw [← hrec] at hsync
          obtain ⟨ms1, d1, e1, hnr, hs1⟩ := newRecord_built fixed nsym pshift B ms e d r lastLen len revLen
            ((0, q) :: evs') hlen32 hdup (by
              intro hc
              simp only [Bool.or_eq_false_iff, Bool.not_eq_false', beq_eq_false_iff_ne, ne_eq] at hc
              obtain ⟨c, hc1, hc2⟩ := hfix hc.1
              rw [hc2 (by omega), hc1 len (by simp)]) hsync
          have hv : validRecord ⟨r.recNo + 1, r.selector, len, len, false, 0, 0, 0⟩
              (builtDec fixed nsym pshift).doRev i (n - i) = true := by
            simp [validRecord, builtDec_rev, hlen0]
          rw [decStep_new _ n ms d r 0 ctx lastLen i revLen out 0 ms1 d1 _ revLen _ hr0 hnr hv rfl
            (builtDec_param0 fixed nsym pshift)]
          obtain ⟨ms2, d2, e2, hdq, hs2⟩ := decQual_built fixed nsym pshift B ms1 e1 d1
            ⟨r.recNo + 1, r.selector, len, len, false, 0, 0, 0⟩ 0 len i q revLen out evs' hq0 hlen0 hs1
          have hc0 : ((builtParam fixed nsym pshift).toDec).context = 0 := rfl
          rw [hc0]
          simp only [hdq]
          obtain ⟨st', hst', hout⟩ := ih ⟨len - 1, st.recNum + 1, rest, 0, (nextCtx pshift len 0 q).1,
              (nextCtx pshift len 0 q).2⟩ evs' ms2 e2 d2
              ⟨r.recNo + 1, r.selector, len, len - 1, false, (nextCtx pshift len 0 q).2, 0, 0⟩
              (nextCtx pshift len 0 q).1 len (i + 1) revLen (q :: out) fuel hev' hs2 hqs
            rfl rfl rfl (by simp only [hrec]) rfl (fun _ => ⟨rfl, nextCtx_lt _ _ _ _⟩)
            (fun l hl => hlens l (List.mem_cons_of_mem _ hl))
            (fun hf => by
              obtain ⟨c, hc1, _⟩ := hfix hf
              exact ⟨c, fun l hl => hc1 l (List.mem_cons_of_mem _ hl), fun _ => hc1 len (by simp)⟩)
            (by simp only; omega) (by omega) (by omega)
          refine ⟨st', hst', ?_⟩
          rw [hout, List.reverse_cons, List.append_assoc]; rfl
    · -- inside a record
      have hr0 : ¬ r.pos = 0 := by omega
      obtain ⟨hc1, hc2⟩ := hctx (by omega)
      rw [encEvents_next fixed nsym pshift st q src (by omega) hx hq0] at hev
      split at hev
      · simp at hev
      · next evs' hev' =>
        simp only [Except.ok.injEq] at hev
        subst hev
        rw [Nat.mod_eq_of_lt hc2, ← hc1] at hsync
        rw [decStep_next _ n ms d r 0 ctx lastLen i revLen out hr0]
        obtain ⟨ms2, d2, e2, hdq, hs2⟩ := decQual_built fixed nsym pshift B ms e d r ctx lastLen i q revLen out
          evs' hq0 (by omega) hsync
        simp only [hdq]
        rw [hpos, hqctx] at *
        obtain ⟨st', hst', hout⟩ := ih ⟨st.p - 1, st.recNum, st.lensRest, st.x, (nextCtx pshift st.p st.qlast q).1,
              (nextCtx pshift st.p st.qlast q).2⟩ evs' ms2 e2 d2
              ⟨r.recNo, r.selector, r.len, st.p - 1, r.isDup, (nextCtx pshift st.p st.qlast q).2, r.delta, r.prevQ⟩
              (nextCtx pshift st.p st.qlast q).1 lastLen (i + 1) revLen (q :: out)
            fuel hev' hs2 hqs rfl rfl hdup hrec hx (fun _ => ⟨rfl, nextCtx_lt _ _ _ _⟩) hlens hfix
            (by simp only; omega) (by omega) (by omega)
        refine ⟨st', hst', ?_⟩
        rw [hout, List.reverse_cons, List.append_assoc]; rfl

end Noodles.Cram.Fqz
