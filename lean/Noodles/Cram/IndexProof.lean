import Noodles.Cram.IndexModel
/-! Helper lemmas for C19 (`Noodles/Props/C19.lean`): the slice-context fold, the span folds,
the key list, decomposition of the indexer's walk, and the query walk. -/
namespace Noodles.Cram.Index

/-! ### the slice context fold -/

theorem foldl_update_many (rs : List Rec) : rs.foldl Ctx.update .many = .many := by
  induction rs with
  | nil => rfl
  | cons r rs ih => simpa [List.foldl, Ctx.update] using ih

theorem foldl_update_none (rs : List Rec) :
    (rs.foldl Ctx.update .none = .none ∧ ∀ r ∈ rs, r.ref = none) ∨ rs.foldl Ctx.update .none = .many := by
  induction rs with
  | nil => left; simp
  | cons r rs ih =>
    cases hr : r.ref with
    | none =>
      have : Ctx.update .none r = .none := by simp [Ctx.update, hr]
      simp only [List.foldl, this]
      rcases ih with ⟨h1, h2⟩ | h
      · left; refine ⟨h1, ?_⟩
        intro x hx; simp at hx; rcases hx with rfl | hx
        · exact hr
        · exact h2 x hx
      · right; exact h
    | some k =>
      have : Ctx.update .none r = .many := by simp [Ctx.update, hr]
      simp only [List.foldl, this]
      right; exact foldl_update_many rs

/-- the fold started in `Some(k, a, b)`: either it ends in `Many`, or in `Some(k, a', b')` where
every folded record is on `k` inside `[a', b']`, and the bounds are attained -/
theorem foldl_update_some (rs : List Rec) (k a b : Nat) :
    rs.foldl Ctx.update (.some k a b) = .many ∨
    ∃ a' b', rs.foldl Ctx.update (.some k a b) = .some k a' b' ∧
      (∀ r ∈ rs, r.ref = some k ∧ a' ≤ r.s ∧ r.e ≤ b') ∧ a' ≤ a ∧ b ≤ b' ∧
      (a' = a ∨ ∃ r ∈ rs, r.s = a') ∧ (b' = b ∨ ∃ r ∈ rs, r.e = b') := by
  induction rs generalizing a b with
  | nil => right; exact ⟨a, b, rfl, by simp, Nat.le_refl _, Nat.le_refl _, Or.inl rfl, Or.inl rfl⟩
  | cons r rs ih =>
    cases hr : r.ref with
    | none =>
      have : Ctx.update (.some k a b) r = .many := by simp [Ctx.update, hr]
      left; simp only [List.foldl, this]; exact foldl_update_many rs
    | some k' =>
      by_cases hk : k' = k
      · subst hk
        have : Ctx.update (.some k' a b) r = .some k' (min r.s a) (max r.e b) := by simp [Ctx.update, hr]
        simp only [List.foldl, this]
        rcases ih (min r.s a) (max r.e b) with h | ⟨a', b', h1, h2, h3, h4, h5, h6⟩
        · left; exact h
        · right
          refine ⟨a', b', h1, ?_, Nat.le_trans h3 (Nat.min_le_right _ _),
            Nat.le_trans (Nat.le_max_right _ _) h4, ?_, ?_⟩
          · intro x hx; simp at hx; rcases hx with rfl | hx
            · exact ⟨hr, Nat.le_trans h3 (Nat.min_le_left _ _), Nat.le_trans (Nat.le_max_left _ _) h4⟩
            · exact h2 x hx
          · rcases h5 with h5 | ⟨x, hx, hxs⟩
            · by_cases hle : r.s ≤ a
              · right; exact ⟨r, by simp, by rw [h5, Nat.min_eq_left hle]⟩
              · left; rw [h5, Nat.min_eq_right (Nat.le_of_not_le hle)]
            · right; exact ⟨x, by simp [hx], hxs⟩
          · rcases h6 with h6 | ⟨x, hx, hxe⟩
            · by_cases hle : b ≤ r.e
              · right; exact ⟨r, by simp, by rw [h6, Nat.max_eq_left hle]⟩
              · left; rw [h6, Nat.max_eq_right (Nat.le_of_not_le hle)]
            · right; exact ⟨x, by simp [hx], hxe⟩
      · have : Ctx.update (.some k a b) r = .many := by simp [Ctx.update, hr, hk]
        left; simp only [List.foldl, this]; exact foldl_update_many rs

theorem sliceCtx_none {recs : List Rec} (h : sliceCtx recs = .none) : ∀ r ∈ recs, r.ref = none := by
  cases recs with
  | nil => simp
  | cons r rs =>
    simp only [sliceCtx] at h
    cases hr : r.ref with
    | some k =>
      simp only [Ctx.first, hr] at h
      rcases foldl_update_some rs k r.s r.e with h' | ⟨a', b', h', _⟩ <;> rw [h'] at h <;> cases h
    | none =>
      simp only [Ctx.first, hr] at h
      rcases foldl_update_none rs with ⟨_, h2⟩ | h'
      · intro x hx; simp at hx; rcases hx with rfl | hx
        · exact hr
        · exact h2 x hx
      · rw [h'] at h; cases h

/-- a slice labelled `Some(k, a, b)` holds only records on `k`, all inside `[a, b]`, and both bounds
are attained -/
theorem sliceCtx_some {recs : List Rec} {k a b : Nat} (h : sliceCtx recs = .some k a b) :
    (∀ r ∈ recs, r.ref = some k ∧ a ≤ r.s ∧ r.e ≤ b) ∧ (∃ r ∈ recs, r.s = a) ∧ (∃ r ∈ recs, r.e = b) := by
  cases recs with
  | nil => simp [sliceCtx] at h
  | cons r rs =>
    simp only [sliceCtx] at h
    cases hr : r.ref with
    | none =>
      simp only [Ctx.first, hr] at h
      rcases foldl_update_none rs with ⟨h', _⟩ | h' <;> rw [h'] at h <;> cases h
    | some k' =>
      simp only [Ctx.first, hr] at h
      rcases foldl_update_some rs k' r.s r.e with h' | ⟨a', b', h', h2, h3, h4, h5, h6⟩
      · rw [h'] at h; cases h
      · rw [h'] at h; cases h
        refine ⟨?_, ?_, ?_⟩
        · intro x hx; simp at hx; rcases hx with rfl | hx
          · exact ⟨hr, h3, h4⟩
          · exact h2 x hx
        · rcases h5 with h5 | ⟨x, hx, hxs⟩
          · exact ⟨r, by simp, h5.symm⟩
          · exact ⟨x, by simp [hx], hxs⟩
        · rcases h6 with h6 | ⟨x, hx, hxe⟩
          · exact ⟨r, by simp, h6.symm⟩
          · exact ⟨x, by simp [hx], hxe⟩

/-! ### the span folds of the multi-reference path -/

theorem foldl_span (rs : List Rec) (a b : Nat) :
    (∀ r ∈ rs, (rs.foldl (fun acc x => (min acc.1 x.s, max acc.2 x.e)) (a, b)).1 ≤ r.s ∧
               r.e ≤ (rs.foldl (fun acc x => (min acc.1 x.s, max acc.2 x.e)) (a, b)).2) ∧
    (rs.foldl (fun acc x => (min acc.1 x.s, max acc.2 x.e)) (a, b)).1 ≤ a ∧
    b ≤ (rs.foldl (fun acc x => (min acc.1 x.s, max acc.2 x.e)) (a, b)).2 ∧
    ((rs.foldl (fun acc x => (min acc.1 x.s, max acc.2 x.e)) (a, b)).1 = a ∨
      ∃ r ∈ rs, r.s = (rs.foldl (fun acc x => (min acc.1 x.s, max acc.2 x.e)) (a, b)).1) ∧
    ((rs.foldl (fun acc x => (min acc.1 x.s, max acc.2 x.e)) (a, b)).2 = b ∨
      ∃ r ∈ rs, r.e = (rs.foldl (fun acc x => (min acc.1 x.s, max acc.2 x.e)) (a, b)).2) := by
  induction rs generalizing a b with
  | nil => simp
  | cons r rs ih =>
    simp only [List.foldl]
    obtain ⟨h2, h3, h4, h5, h6⟩ := ih (min a r.s) (max b r.e)
    refine ⟨?_, Nat.le_trans h3 (Nat.min_le_left _ _), Nat.le_trans (Nat.le_max_left _ _) h4, ?_, ?_⟩
    · intro x hx; simp at hx; rcases hx with rfl | hx
      · exact ⟨Nat.le_trans h3 (Nat.min_le_right _ _), Nat.le_trans (Nat.le_max_right _ _) h4⟩
      · exact h2 x hx
    · rcases h5 with h5 | ⟨x, hx, hxs⟩
      · by_cases hle : a ≤ r.s
        · left; rw [h5, Nat.min_eq_left hle]
        · right; exact ⟨r, by simp, by rw [h5, Nat.min_eq_right (Nat.le_of_not_le hle)]⟩
      · right; exact ⟨x, by simp [hx], hxs⟩
    · rcases h6 with h6 | ⟨x, hx, hxe⟩
      · by_cases hle : r.e ≤ b
        · left; rw [h6, Nat.max_eq_left hle]
        · right; exact ⟨r, by simp, by rw [h6, Nat.max_eq_right (Nat.le_of_not_le hle)]⟩
      · right; exact ⟨x, by simp [hx], hxe⟩

theorem spanOf_some {l : List Rec} {a b : Nat} (h : spanOf l = some (a, b)) :
    (∀ r ∈ l, a ≤ r.s ∧ r.e ≤ b) ∧ (∃ r ∈ l, r.s = a) ∧ (∃ r ∈ l, r.e = b) := by
  cases l with
  | nil => simp [spanOf] at h
  | cons r rs =>
    simp only [spanOf, Option.some.injEq] at h
    obtain ⟨h2, h3, h4, h5, h6⟩ := foldl_span rs r.s r.e
    rw [h] at h2 h3 h4 h5 h6
    refine ⟨?_, ?_, ?_⟩
    · intro x hx; simp at hx; rcases hx with rfl | hx
      · exact ⟨h3, h4⟩
      · exact h2 x hx
    · rcases h5 with h5 | ⟨x, hx, hxs⟩
      · exact ⟨r, by simp, h5.symm⟩
      · exact ⟨x, by simp [hx], hxs⟩
    · rcases h6 with h6 | ⟨x, hx, hxe⟩
      · exact ⟨r, by simp, h6.symm⟩
      · exact ⟨x, by simp [hx], hxe⟩

theorem spanOf_none {l : List Rec} (h : spanOf l = none) : l = [] := by
  cases l with
  | nil => rfl
  | cons r rs => simp [spanOf] at h

/-! ### the sorted key list -/

theorem le_foldl_max (l : List Nat) (init : Nat) :
    init ≤ l.foldl max init ∧ ∀ x ∈ l, x ≤ l.foldl max init := by
  induction l generalizing init with
  | nil => simp
  | cons y ys ih =>
    simp only [List.foldl]
    obtain ⟨h1, h2⟩ := ih (max init y)
    refine ⟨Nat.le_trans (Nat.le_max_left _ _) h1, ?_⟩
    intro x hx; simp at hx; rcases hx with rfl | hx
    · exact Nat.le_trans (Nat.le_max_right _ _) h1
    · exact h2 x hx

theorem lt_refBound {recs : List Rec} {r : Rec} {k : Nat} (hr : r ∈ recs) (hk : r.ref = some k) :
    k < refBound recs := by
  have := (le_foldl_max (recs.map fun r => match r.ref with | some k => k + 1 | none => 0) 0).2 (k + 1)
    (List.mem_map.mpr ⟨r, hr, by simp [hk]⟩)
  exact this

theorem mem_refKeys {recs : List Rec} {key : Option Nat} :
    key ∈ refKeys recs ↔ ∃ r ∈ recs, r.ref = key := by
  unfold refKeys
  rw [List.mem_append]
  constructor
  · rintro (h | h)
    · split at h
      · rename_i hany
        simp only [List.mem_singleton] at h
        obtain ⟨r, hr, hn⟩ := List.any_eq_true.mp hany
        exact ⟨r, hr, by rw [h]; exact Option.isNone_iff_eq_none.mp hn⟩
      · simp at h
    · obtain ⟨k, hk, rfl⟩ := List.mem_map.mp h
      obtain ⟨_, hany⟩ := List.mem_filter.mp hk
      obtain ⟨r, hr, hd⟩ := List.any_eq_true.mp hany
      exact ⟨r, hr, of_decide_eq_true hd⟩
  · rintro ⟨r, hr, hkey⟩
    cases key with
    | none =>
      left
      have : recs.any (fun r => r.ref.isNone) = true :=
        List.any_eq_true.mpr ⟨r, hr, by simp [hkey]⟩
      simp [this]
    | some k =>
      right
      refine List.mem_map.mpr ⟨k, List.mem_filter.mpr ⟨List.mem_range.mpr (lt_refBound hr hkey), ?_⟩, rfl⟩
      exact List.any_eq_true.mpr ⟨r, hr, decide_eq_true hkey⟩

theorem nodup_refKeys (recs : List Rec) : (refKeys recs).Nodup := by
  unfold refKeys
  rw [List.nodup_append]
  refine ⟨?_, ?_, ?_⟩
  · split <;> simp
  · exact List.Pairwise.map _ (fun a b hab h => hab (Option.some.inj h))
      (List.Pairwise.filter _ List.nodup_range)
  · intro a ha b hb
    split at ha
    · simp only [List.mem_singleton] at ha
      obtain ⟨k, _, rfl⟩ := List.mem_map.mp hb
      rw [ha]; simp
    · simp at ha

/-! ### the entries of one slice -/

theorem keyEntry_ref (off lm len : Nat) (recs : List Rec) (key : Option Nat) :
    (keyEntry off lm len recs key).ref = key := by
  cases key with
  | none => rfl
  | some k => simp only [keyEntry]; split <;> rfl

theorem keyEntry_pos (off lm len : Nat) (recs : List Rec) (key : Option Nat) :
    (keyEntry off lm len recs key).offset = off ∧ (keyEntry off lm len recs key).landmark = lm ∧
    (keyEntry off lm len recs key).size = len := by
  cases key with
  | none => simp [keyEntry]
  | some k => simp only [keyEntry]; split <;> simp

/-- every entry of a slice carries the slice's position and length -/
theorem sliceEntries_pos {off lm len : Nat} {recs : List Rec} {en : Entry}
    (h : en ∈ sliceEntries off lm len recs) : en.offset = off ∧ en.landmark = lm ∧ en.size = len := by
  unfold sliceEntries at h
  split at h
  · obtain ⟨key, _, rfl⟩ := List.mem_map.mp h
    exact keyEntry_pos off lm len recs key
  · simp only [List.mem_singleton] at h; subst h; simp
  · simp only [List.mem_singleton] at h; subst h; simp

/-- the references listed for a slice are exactly the references of its records
(for a non-empty slice) -/
theorem sliceEntries_refs {off lm len : Nat} {recs : List Rec} (hne : recs ≠ []) (key : Option Nat) :
    (∃ en ∈ sliceEntries off lm len recs, en.ref = key) ↔ ∃ r ∈ recs, r.ref = key := by
  unfold sliceEntries
  split
  · -- many
    rw [← mem_refKeys]
    constructor
    · rintro ⟨en, hen, rfl⟩
      obtain ⟨k, hk, rfl⟩ := List.mem_map.mp hen
      rw [keyEntry_ref]; exact hk
    · intro hk
      exact ⟨_, List.mem_map.mpr ⟨key, hk, rfl⟩, keyEntry_ref off lm len recs key⟩
  · rename_i k a b hctx
    obtain ⟨hall, _, _⟩ := sliceCtx_some hctx
    constructor
    · rintro ⟨en, hen, rfl⟩
      simp only [List.mem_singleton] at hen; subst hen
      cases recs with
      | nil => exact absurd rfl hne
      | cons r rs => exact ⟨r, by simp, (hall r (by simp)).1⟩
    · rintro ⟨r, hr, rfl⟩
      exact ⟨_, List.mem_singleton.mpr rfl, ((hall r hr).1).symm⟩
  · rename_i hctx
    have hall := sliceCtx_none hctx
    constructor
    · rintro ⟨en, hen, rfl⟩
      simp only [List.mem_singleton] at hen; subst hen
      cases recs with
      | nil => exact absurd rfl hne
      | cons r rs => exact ⟨r, by simp, hall r (by simp)⟩
    · rintro ⟨r, hr, rfl⟩
      exact ⟨_, List.mem_singleton.mpr rfl, (hall r hr).symm⟩

/-- one entry per reference: the references of a slice's entries are pairwise distinct -/
theorem sliceEntries_nodup (off lm len : Nat) (recs : List Rec) :
    ((sliceEntries off lm len recs).map (·.ref)).Nodup := by
  unfold sliceEntries
  split
  · have : ((refKeys recs).map (keyEntry off lm len recs)).map (·.ref) = refKeys recs := by
      rw [List.map_map]
      conv => rhs; rw [← List.map_id (refKeys recs)]
      apply List.map_congr_left
      intro key _
      simp [Function.comp, keyEntry_ref]
    rw [this]; exact nodup_refKeys recs
  · simp
  · simp

/-- the span of every entry is exactly what the slice's records on that reference cover -/
theorem sliceEntries_covers {off lm len : Nat} {recs : List Rec} (hvalid : ∀ r ∈ recs, r.s ≤ r.e)
    {en : Entry} (h : en ∈ sliceEntries off lm len recs) : Covers en recs := by
  unfold sliceEntries at h
  split at h
  · obtain ⟨key, hkey, rfl⟩ := List.mem_map.mp h
    cases key with
    | none => simp [Covers, keyEntry]
    | some k =>
      obtain ⟨r0, hr0, hk0⟩ := mem_refKeys.mp hkey
      simp only [keyEntry]
      split
      · rename_i a b hspan
        obtain ⟨hall, ⟨ra, hra, hsa⟩, ⟨rb, hrb, heb⟩⟩ := spanOf_some hspan
        have hra' := List.mem_filter.mp hra
        have hrb' := List.mem_filter.mp hrb
        have hab : a ≤ b := by
          have h1 := hall ra hra
          have h2 := hvalid ra hra'.1
          omega
        simp only [Covers]
        refine ⟨?_, ⟨ra, hra'.1, of_decide_eq_true hra'.2, hsa⟩, ⟨rb, hrb'.1, of_decide_eq_true hrb'.2, by omega⟩⟩
        intro r hr hk
        have := hall r (List.mem_filter.mpr ⟨hr, decide_eq_true hk⟩)
        omega
      · rename_i hspan
        have := spanOf_none hspan
        have hmem : r0 ∈ recs.filter fun r => decide (r.ref = some k) :=
          List.mem_filter.mpr ⟨hr0, decide_eq_true hk0⟩
        rw [this] at hmem; simp at hmem
  · rename_i k a b hctx
    simp only [List.mem_singleton] at h; subst h
    obtain ⟨hall, ⟨ra, hra, hsa⟩, ⟨rb, hrb, heb⟩⟩ := sliceCtx_some hctx
    have hab : a ≤ b := by
      have h1 := hall ra hra
      have h2 := hvalid ra hra
      omega
    simp only [Covers]
    refine ⟨?_, ⟨ra, hra, (hall ra hra).1, hsa⟩, ⟨rb, hrb, (hall rb hrb).1, by omega⟩⟩
    intro r hr _
    have := hall r hr
    omega
  · simp only [List.mem_singleton] at h; subst h
    simp [Covers]

/-! ### decomposition of the indexer's walk -/

@[simp] theorem sizes_nil : sizes [] = 0 := rfl
@[simp] theorem sizes_cons (s : SliceL) (ss : List SliceL) : sizes (s :: ss) = s.size + sizes ss := by
  simp [sizes]
@[simp] theorem sizes_append (a b : List SliceL) : sizes (a ++ b) = sizes a + sizes b := by
  simp [sizes, List.sum_append]
@[simp] theorem lenSum_nil : lenSum [] = 0 := rfl
@[simp] theorem lenSum_cons (c : ContainerL) (cs : List ContainerL) :
    lenSum (c :: cs) = c.hdrLen + c.bodyLen + lenSum cs := by
  simp [lenSum]
@[simp] theorem lenSum_append (a b : List ContainerL) : lenSum (a ++ b) = lenSum a + lenSum b := by
  simp [lenSum, List.sum_append]

/-- the indexer's `slice_length` (a difference of landmarks, or container length minus the last
landmark) is the slice's byte size when the landmarks are the writer's -/
theorem containerEntries_cons (off clen q : Nat) (s : SliceL) (ss : List SliceL)
    (hclen : clen = q + sizes (s :: ss)) :
    containerEntries off clen (landmarksFrom q (s :: ss)) (s :: ss) =
      sliceEntries off q s.size s.recs ++ containerEntries off clen (landmarksFrom (q + s.size) ss) ss := by
  cases ss with
  | nil =>
    simp only [landmarksFrom, containerEntries]
    have : clen - q = s.size := by simp at hclen; omega
    rw [this]
  | cons s2 ss2 =>
    simp only [landmarksFrom, containerEntries]
    have : q + s.size - q = s.size := by omega
    rw [this]

theorem mem_containerEntries {off clen q : Nat} {ss : List SliceL} (hclen : clen = q + sizes ss)
    {en : Entry} :
    en ∈ containerEntries off clen (landmarksFrom q ss) ss ↔
      ∃ pre s post, ss = pre ++ s :: post ∧ en ∈ sliceEntries off (q + sizes pre) s.size s.recs := by
  induction ss generalizing q with
  | nil => simp [landmarksFrom, containerEntries]
  | cons s ss ih =>
    rw [containerEntries_cons off clen q s ss hclen, List.mem_append]
    have hclen' : clen = (q + s.size) + sizes ss := by simp at hclen; omega
    constructor
    · rintro (h | h)
      · exact ⟨[], s, ss, rfl, by simpa using h⟩
      · obtain ⟨pre, s2, post, hss, hen⟩ := (ih hclen').mp h
        refine ⟨s :: pre, s2, post, by simp [hss], ?_⟩
        have : q + sizes (s :: pre) = q + s.size + sizes pre := by simp; omega
        rw [this]; exact hen
    · rintro ⟨pre, s2, post, hss, hen⟩
      cases pre with
      | nil =>
        simp only [List.nil_append, List.cons.injEq] at hss
        obtain ⟨rfl, rfl⟩ := hss
        left; simpa using hen
      | cons p pre' =>
        simp only [List.cons_append, List.cons.injEq] at hss
        obtain ⟨rfl, rfl⟩ := hss
        right
        refine (ih hclen').mpr ⟨pre', s2, post, rfl, ?_⟩
        have : q + sizes (s :: pre') = q + s.size + sizes pre' := by simp; omega
        rw [← this]; exact hen

theorem mem_craiGo {pos : Nat} {cs : List ContainerL} {en : Entry} :
    en ∈ craiGo pos cs ↔
      ∃ pre c post, cs = pre ++ c :: post ∧
        en ∈ containerEntries (pos + lenSum pre) c.bodyLen c.landmarks c.slices := by
  induction cs generalizing pos with
  | nil => simp [craiGo]
  | cons c cs ih =>
    simp only [craiGo, List.mem_append]
    constructor
    · rintro (h | h)
      · exact ⟨[], c, cs, rfl, by simpa using h⟩
      · obtain ⟨pre, c2, post, hcs, hen⟩ := ih.mp h
        refine ⟨c :: pre, c2, post, by simp [hcs], ?_⟩
        have : pos + lenSum (c :: pre) = pos + c.hdrLen + c.bodyLen + lenSum pre := by simp; omega
        rw [this]; exact hen
    · rintro ⟨pre, c2, post, hcs, hen⟩
      cases pre with
      | nil =>
        simp only [List.nil_append, List.cons.injEq] at hcs
        obtain ⟨rfl, rfl⟩ := hcs
        left; simpa using hen
      | cons p pre' =>
        simp only [List.cons_append, List.cons.injEq] at hcs
        obtain ⟨rfl, rfl⟩ := hcs
        right
        refine ih.mpr ⟨pre', c2, post, rfl, ?_⟩
        have : pos + lenSum (c :: pre') = pos + c.hdrLen + c.bodyLen + lenSum pre' := by simp; omega
        rw [← this]; exact hen

/-- the entries of the index are exactly the entries of the slices, each at its true position -/
theorem mem_craiOf {f : FileL} {en : Entry} :
    en ∈ craiOf f ↔
      ∃ pre c post pre' s post', f.cs = pre ++ c :: post ∧ c.slices = pre' ++ s :: post' ∧
        en ∈ sliceEntries (f.start + lenSum pre) (c.chLen + sizes pre') s.size s.recs := by
  unfold craiOf
  rw [mem_craiGo]
  constructor
  · rintro ⟨pre, c, post, hcs, hen⟩
    obtain ⟨pre', s, post', hss, hen'⟩ :=
      (mem_containerEntries (q := c.chLen) (ss := c.slices) (clen := c.bodyLen) rfl).mp hen
    exact ⟨pre, c, post, pre', s, post', hcs, hss, hen'⟩
  · rintro ⟨pre, c, post, pre', s, post', hcs, hss, hen⟩
    exact ⟨pre, c, post, hcs,
      (mem_containerEntries (q := c.chLen) (ss := c.slices) (clen := c.bodyLen) rfl).mpr
        ⟨pre', s, post', hss, hen⟩⟩

/-! ### positions by index ↔ positions by decomposition -/

theorem split_of_getElem? {α : Type} {l : List α} {i : Nat} {a : α} (h : l[i]? = some a) :
    l = l.take i ++ a :: l.drop (i + 1) := by
  obtain ⟨hi, ha⟩ := List.getElem?_eq_some_iff.mp h
  have := List.take_append_drop i l
  rw [List.drop_eq_getElem_cons hi, ha] at this
  exact this.symm

theorem getElem?_of_split {α : Type} {l pre post : List α} {a : α} (h : l = pre ++ a :: post) :
    l[pre.length]? = some a ∧ l.take pre.length = pre := by
  subst h
  constructor
  · rw [List.getElem?_append_right (Nat.le_refl _)]; simp
  · exact List.take_left' rfl

/-! ### the query walk -/

theorem queryGo_append {look : Nat → Option ContainerL} {k qs qe : Nat} {a b : List Entry}
    {x y : List Rec} (ha : queryGo look k qs qe a = some x) (hb : queryGo look k qs qe b = some y) :
    queryGo look k qs qe (a ++ b) = some (x ++ y) := by
  induction a generalizing x with
  | nil => simp only [queryGo, Option.some.injEq] at ha; subst ha; simpa using hb
  | cons e a ih =>
    simp only [List.cons_append, queryGo] at ha ⊢
    cases hs : serve look k qs qe e with
    | none => rw [hs] at ha; cases ha
    | some rs =>
      rw [hs] at ha
      cases hq : queryGo look k qs qe a with
      | none => rw [hq] at ha; cases ha
      | some more =>
        rw [hq] at ha
        simp only [Option.some.injEq] at ha; subst ha
        simp [ih hq]

/-- a walk in which every entry of reference `k` yields `X` and the others nothing -/
theorem queryGo_uniform {look : Nat → Option ContainerL} {k qs qe : Nat} {X : List Rec}
    (es : List Entry)
    (hserve : ∀ en ∈ es, serve look k qs qe en = some (if en.ref = some k then X else []))
    (hnd : (es.map (·.ref)).Nodup) :
    ((∃ en ∈ es, en.ref = some k) → queryGo look k qs qe es = some X) ∧
    ((¬ ∃ en ∈ es, en.ref = some k) → queryGo look k qs qe es = some []) := by
  induction es with
  | nil => simp [queryGo]
  | cons e es ih =>
    have hnd' : e.ref ∉ es.map (·.ref) ∧ (es.map (·.ref)).Nodup := by
      rw [List.map_cons] at hnd; exact List.nodup_cons.mp hnd
    obtain ⟨ih1, ih2⟩ := ih (fun en hen => hserve en (by simp [hen])) hnd'.2
    have he := hserve e (by simp)
    by_cases hek : e.ref = some k
    · have hno : ¬ ∃ en ∈ es, en.ref = some k := by
        rintro ⟨en, hen, henk⟩
        exact hnd'.1 (List.mem_map.mpr ⟨en, hen, by rw [henk, hek]⟩)
      constructor
      · intro _
        simp only [queryGo, he, ih2 hno, hek, if_true, List.append_nil]
      · intro h; exact absurd ⟨e, by simp, hek⟩ h
    · constructor
      · rintro ⟨en, hen, henk⟩
        simp only [List.mem_cons] at hen
        rcases hen with rfl | hen
        · exact absurd henk hek
        · simp only [queryGo, he, ih1 ⟨en, hen, henk⟩, hek, if_false, List.nil_append]
      · intro h
        have hno : ¬ ∃ en ∈ es, en.ref = some k := by
          rintro ⟨en, hen, henk⟩; exact h ⟨en, by simp [hen], henk⟩
        simp only [queryGo, he, ih2 hno, hek, if_false, List.nil_append]

theorem le_of_mem_zip_landmarks {q : Nat} {ss : List SliceL} {p : SliceL × Nat}
    (h : p ∈ ss.zip (landmarksFrom q ss)) : q ≤ p.2 := by
  induction ss generalizing q with
  | nil => simp [landmarksFrom] at h
  | cons s ss ih =>
    simp only [landmarksFrom, List.zip_cons_cons, List.mem_cons] at h
    rcases h with rfl | h
    · exact Nat.le_refl _
    · exact Nat.le_trans (Nat.le_add_right _ _) (ih h)

/-- landmarks are distinct when slices have positive size: a landmark selects its slice -/
theorem filter_zip_landmark {q t : Nat} {ss pre post : List SliceL} {s : SliceL}
    (hpos : ∀ x ∈ ss, 0 < x.size) (hss : ss = pre ++ s :: post) (ht : t = q + sizes pre) :
    (ss.zip (landmarksFrom q ss)).filter (fun p => decide (p.2 = t)) = [(s, t)] := by
  induction pre generalizing q ss with
  | nil =>
    have htq : t = q := by simpa using ht
    subst htq
    subst hss
    simp only [List.nil_append, landmarksFrom, List.zip_cons_cons]
    rw [List.filter_cons, if_pos (by simp)]
    congr 1
    rw [List.filter_eq_nil_iff]
    intro p hp
    have := le_of_mem_zip_landmarks hp
    have hs := hpos s (by simp)
    simp only [decide_eq_true_eq]; omega
  | cons a pre ih =>
    subst hss
    have ha := hpos a (by simp)
    simp only [List.cons_append, landmarksFrom, List.zip_cons_cons]
    rw [List.filter_cons, if_neg (by simp at ht ⊢; omega)]
    exact ih (q := q + a.size) (ss := pre ++ s :: post)
      (fun x hx => hpos x (by simp [hx])) rfl (by simp at ht; omega)

theorem sliceAt_landmark {c : ContainerL} {pre post : List SliceL} {s : SliceL}
    (hpos : ∀ x ∈ c.slices, 0 < x.size) (hss : c.slices = pre ++ s :: post) :
    sliceAt c (c.chLen + sizes pre) = s.recs := by
  unfold sliceAt ContainerL.landmarks
  rw [filter_zip_landmark hpos hss rfl]
  simp

/-- the entries of one slice, served: exactly the slice's records that the query keeps -/
theorem queryGo_slice {look : Nat → Option ContainerL} {k qs qe off len : Nat} {c : ContainerL}
    {pre post : List SliceL} {s : SliceL}
    (hlook : look off = some c) (hpos : ∀ x ∈ c.slices, 0 < x.size)
    (hss : c.slices = pre ++ s :: post) :
    queryGo look k qs qe (sliceEntries off (c.chLen + sizes pre) len s.recs) =
      some (s.recs.filter (keep k qs qe)) := by
  have hserve : ∀ en ∈ sliceEntries off (c.chLen + sizes pre) len s.recs,
      serve look k qs qe en =
        some (if en.ref = some k then s.recs.filter (keep k qs qe) else []) := by
    intro en hen
    obtain ⟨h1, h2, _⟩ := sliceEntries_pos hen
    unfold serve
    by_cases hek : en.ref = some k
    · simp only [hek, if_true, h1, hlook, h2, sliceAt_landmark hpos hss]
    · simp only [hek, if_false]
  obtain ⟨h1, h2⟩ := queryGo_uniform _ hserve (sliceEntries_nodup off _ len s.recs)
  by_cases hex : ∃ en ∈ sliceEntries off (c.chLen + sizes pre) len s.recs, en.ref = some k
  · exact h1 hex
  · rw [h2 hex]
    congr 1
    symm
    rw [List.filter_eq_nil_iff]
    intro r hr hkeep
    by_cases hne : s.recs = []
    · rw [hne] at hr; simp at hr
    · apply hex
      apply (sliceEntries_refs hne (some k)).mpr
      refine ⟨r, hr, ?_⟩
      simp only [keep, Bool.and_eq_true, decide_eq_true_eq] at hkeep
      exact hkeep.1

theorem queryGo_container {look : Nat → Option ContainerL} {k qs qe off : Nat} {c : ContainerL}
    (hlook : look off = some c) (hpos : ∀ x ∈ c.slices, 0 < x.size)
    (pre rest : List SliceL) (hss : c.slices = pre ++ rest) :
    queryGo look k qs qe
        (containerEntries off c.bodyLen (landmarksFrom (c.chLen + sizes pre) rest) rest) =
      some ((rest.flatMap (·.recs)).filter (keep k qs qe)) := by
  induction rest generalizing pre with
  | nil => simp [landmarksFrom, containerEntries, queryGo]
  | cons s rest ih =>
    have hclen : c.bodyLen = (c.chLen + sizes pre) + sizes (s :: rest) := by
      unfold ContainerL.bodyLen; rw [hss]; simp; omega
    rw [containerEntries_cons off c.bodyLen _ s rest hclen]
    have h1 := queryGo_slice (k := k) (qs := qs) (qe := qe) (len := s.size) hlook hpos hss
    have h2 := ih (pre ++ [s]) (by simp [hss])
    have heq : c.chLen + sizes (pre ++ [s]) = c.chLen + sizes pre + s.size := by simp; omega
    rw [heq] at h2
    rw [queryGo_append h1 h2]
    simp [List.flatMap_cons, List.filter_append]

theorem containerAt_skip (pre cs : List ContainerL) (pos off : Nat)
    (hpos : ∀ c ∈ pre, 0 < c.hdrLen) (hoff : pos + lenSum pre ≤ off) :
    containerAt pos (pre ++ cs) off = containerAt (pos + lenSum pre) cs off := by
  induction pre generalizing pos with
  | nil => simp
  | cons p pre ih =>
    have hp := hpos p (by simp)
    simp only [lenSum_cons] at hoff
    simp only [List.cons_append, containerAt]
    have hne : ¬ off = pos := by omega
    simp only [hne, if_false]
    rw [ih (pos + p.hdrLen + p.bodyLen) (fun c hc => hpos c (by simp [hc])) (by omega)]
    simp only [lenSum_cons]
    congr 1; omega

theorem queryGo_file (f : FileL) (hwf : f.WF) (k qs qe : Nat) (pre cs : List ContainerL)
    (hcs : f.cs = pre ++ cs) :
    queryGo (containerAt f.start f.cs) k qs qe (craiGo (f.start + lenSum pre) cs) =
      some ((cs.flatMap (·.recs)).filter (keep k qs qe)) := by
  induction cs generalizing pre with
  | nil => simp [craiGo, queryGo]
  | cons c cs ih =>
    have hcmem : c ∈ f.cs := by rw [hcs]; simp
    have hlook : containerAt f.start f.cs (f.start + lenSum pre) = some c := by
      rw [hcs, containerAt_skip pre (c :: cs) f.start _
        (fun x hx => (hwf x (by rw [hcs]; simp [hx])).1) (Nat.le_refl _)]
      simp [containerAt]
    simp only [craiGo]
    have h1 := queryGo_container (k := k) (qs := qs) (qe := qe) hlook (hwf c hcmem).2 [] c.slices rfl
    simp only [sizes_nil, Nat.add_zero] at h1
    have h2 := ih (pre ++ [c]) (by simp [hcs])
    have heq : f.start + lenSum (pre ++ [c]) = f.start + lenSum pre + c.hdrLen + c.bodyLen := by
      simp; omega
    rw [heq] at h2
    have : c.landmarks = landmarksFrom c.chLen c.slices := rfl
    rw [this, queryGo_append h1 h2]
    simp [List.flatMap_cons, List.filter_append, ContainerL.recs]

/-! ### the writer's chunking -/

theorem chunksAux_flatten {α : Type} (n : Nat) (hn : 0 < n) (fuel : Nat) (l : List α)
    (hl : l.length ≤ fuel) : (chunksAux n fuel l).flatten = l := by
  induction fuel generalizing l with
  | zero =>
    have : l = [] := List.eq_nil_of_length_eq_zero (by omega)
    subst this; simp [chunksAux]
  | succ fuel ih =>
    simp only [chunksAux]
    split
    · rename_i he
      have : l = [] := by simpa using he
      subst this; simp
    · rw [List.flatten_cons, ih (l.drop n) (by rw [List.length_drop]; omega), List.take_append_drop]

theorem chunks_flatten {α : Type} (n : Nat) (hn : 0 < n) (l : List α) : (chunks n l).flatten = l :=
  chunksAux_flatten n hn l.length l (Nat.le_refl _)

/-! ### every (slice, reference) is listed once -/

theorem offset_ge_of_mem_craiGo {pos : Nat} {cs : List ContainerL} {en : Entry}
    (h : en ∈ craiGo pos cs) : pos ≤ en.offset := by
  obtain ⟨pre, c, post, _, hen⟩ := mem_craiGo.mp h
  obtain ⟨pre', s, post', _, hen'⟩ :=
    (mem_containerEntries (q := c.chLen) (ss := c.slices) (clen := c.bodyLen) rfl).mp hen
  have := (sliceEntries_pos hen').1
  omega

theorem pos_of_mem_containerEntries {off clen q : Nat} {ss : List SliceL}
    (hclen : clen = q + sizes ss) {en : Entry}
    (h : en ∈ containerEntries off clen (landmarksFrom q ss) ss) : en.offset = off ∧ q ≤ en.landmark := by
  obtain ⟨pre, s, post, _, hen⟩ := (mem_containerEntries hclen).mp h
  obtain ⟨h1, h2, _⟩ := sliceEntries_pos hen
  exact ⟨h1, by omega⟩

def Entry.key (en : Entry) : Nat × Nat × Option Nat := (en.offset, en.landmark, en.ref)

theorem sliceEntries_key_nodup (off lm len : Nat) (recs : List Rec) :
    ((sliceEntries off lm len recs).map Entry.key).Nodup := by
  have h := sliceEntries_nodup off lm len recs
  have : (sliceEntries off lm len recs).map (·.ref) =
      ((sliceEntries off lm len recs).map Entry.key).map (fun k => k.2.2) := by
    rw [List.map_map]; rfl
  rw [this] at h
  exact List.Pairwise.of_map (fun k : Nat × Nat × Option Nat => k.2.2)
    (fun a b hne hab => hne (by rw [hab])) h

theorem containerEntries_key_nodup (off clen q : Nat) (ss : List SliceL)
    (hclen : clen = q + sizes ss) (hpos : ∀ s ∈ ss, 0 < s.size) :
    ((containerEntries off clen (landmarksFrom q ss) ss).map Entry.key).Nodup := by
  induction ss generalizing q with
  | nil => simp [landmarksFrom, containerEntries]
  | cons s ss ih =>
    rw [containerEntries_cons off clen q s ss hclen, List.map_append, List.nodup_append]
    have hclen' : clen = (q + s.size) + sizes ss := by simp at hclen; omega
    refine ⟨sliceEntries_key_nodup _ _ _ _, ih (q + s.size) hclen' (fun x hx => hpos x (by simp [hx])), ?_⟩
    intro a ha b hb hab
    obtain ⟨ea, hea, rfl⟩ := List.mem_map.mp ha
    obtain ⟨eb, heb, rfl⟩ := List.mem_map.mp hb
    have h1 := (sliceEntries_pos hea).2.1
    have h2 := (pos_of_mem_containerEntries hclen' heb).2
    have hs := hpos s (by simp)
    simp only [Entry.key, Prod.mk.injEq] at hab
    omega

theorem craiGo_key_nodup (pos : Nat) (cs : List ContainerL)
    (hwf : ∀ c ∈ cs, 0 < c.hdrLen ∧ ∀ s ∈ c.slices, 0 < s.size) :
    ((craiGo pos cs).map Entry.key).Nodup := by
  induction cs generalizing pos with
  | nil => simp [craiGo]
  | cons c cs ih =>
    simp only [craiGo, List.map_append]
    rw [List.nodup_append]
    refine ⟨containerEntries_key_nodup pos c.bodyLen c.chLen c.slices rfl (hwf c (by simp)).2,
      ih _ (fun x hx => hwf x (by simp [hx])), ?_⟩
    intro a ha b hb hab
    obtain ⟨ea, hea, rfl⟩ := List.mem_map.mp ha
    obtain ⟨eb, heb, rfl⟩ := List.mem_map.mp hb
    have h1 := (pos_of_mem_containerEntries (q := c.chLen) (ss := c.slices) (clen := c.bodyLen) rfl hea).1
    have h2 := offset_ge_of_mem_craiGo heb
    have hc := (hwf c (by simp)).1
    simp only [Entry.key, Prod.mk.injEq] at hab
    omega

end Noodles.Cram.Index
