namespace Noodles.Rans
def encStep (x f c : Nat) : Nat := (x / f) * 4096 + x % f + c
theorem enc_mod (x f c : Nat) (hf : 0 < f) (hc : c + f ≤ 4096) : encStep x f c % 4096 = x % f + c := by
  unfold encStep
  have : x % f < f := Nat.mod_lt _ hf
  omega
theorem enc_div (x f c : Nat) (hf : 0 < f) (hc : c + f ≤ 4096) : encStep x f c / 4096 = x / f := by
  unfold encStep
  have : x % f < f := Nat.mod_lt _ hf
  omega
theorem dec_enc (x f c : Nat) (hf : 0 < f) (hc : c + f ≤ 4096) :
    f * (encStep x f c / 4096) + encStep x f c % 4096 - c = x := by
  rw [enc_div x f c hf hc, enc_mod x f c hf hc]
  have := Nat.div_add_mod x f
  omega
-- ITF8 style: 5-byte form
theorem itf8_5 (n : Nat) (h : n < 2^32) :
    let b0 := 240 + n / 2^28
    let b14 := ((n / 16) % 2^24) * 256 + n % 16   -- next 32 bits: n[27:4] <<8 | n[3:0]
    (b0 % 16) * 2^28 + ((b14 / 256) % 2^24) * 16 + b14 % 16 = n := by
  intro b0 b14; omega
#print axioms dec_enc
end Noodles.Rans
