import Noodles.Basic.Wire
import Noodles.Basic.Crc32
import Noodles.Cram.Fqz
/-! Line-protocol handler for the fqzcomp quality codec (`c08 fqz…`), a fall-through of
`DriverC08.handle`.

* `fqzenc <lens> <input>` — `fqzcomp::encode(lens, input)`: the bytes (or the error class; a
  `todo!()` / index panic of the encoder would be `panic`); `<lens>` is a comma-separated list of
  record lengths, `-` for none;
* `fqzdec <stream>` — `fqzcomp::decode(stream)` on a stream the real encoder produced, answered
  exactly (bytes, or the error class);
* `fqzdecx <stream>` — `fqzcomp::decode` on a hand-made or damaged stream, answered as
  `acc <bytes>` / `rej` (an error of any kind and a panic are both `rej`).
-/
namespace Noodles.Cram.DriverC08Fqz
open Noodles.Wire Noodles.Cram

/-- hex → bytes as `Nat`s, tail-recursive (inputs above 64 kB) -/
def unhexGo : List Char → Array Nat → Option (List Nat)
  | [], acc => some acc.toList
  | a :: b :: rest, acc =>
    match hexDigit a, hexDigit b with
    | some x, some y => unhexGo rest (acc.push (x * 16 + y))
    | _, _ => none
  | _, _ => none

def unhexN (s : String) : Option (List Nat) :=
  if s = "-" then some [] else unhexGo s.toList #[]

def ofNats (l : List Nat) : List UInt8 := l.map UInt8.ofNat

/-- short byte strings in full, long ones as `length:crc32` -/
def fmtBytes (l : List Nat) : String :=
  if l.length ≤ 64 then hex (ofNats l) else s!"{l.length}:{Noodles.Crc32.crc32 (ofNats l)}"

def encErr : Fqz.EncErr → String
  | .invalidInput => "err:invalid-input"
  | .invalidData => "err:invalid-data"
  | .todo => "panic"
  | .trap => "panic"
  | .hang => "hang"

def decErr : Aac.DecErr → String
  | .eof => "err:eof"
  | .invalidData => "err:invalid-data"
  | .invalidInput => "err:invalid-input"
  | .trap => "panic"
  | .fuel => "model-fuel"

/-- `none` when the request words are not this handler's (so that handlers can be chained) -/
def handle? : List String → Option String
  | ["fqzenc", lens, h] => some <| match nats lens, unhexN h with
    | some lens, some b => match Fqz.encode lens b with
      | .ok e => fmtBytes e
      | .error e => encErr e
    | _, _ => "bad-op"
  | ["fqzdec", h] => some <| match unhexN h with
    | some b => match Fqz.decode b with
      | .ok d => fmtBytes d
      | .error e => decErr e
    | none => "bad-op"
  | ["fqzdecx", h] => some <| match unhexN h with
    | some b => match Fqz.decode b with
      | .ok d => s!"acc {fmtBytes d}"
      | .error .fuel => "model-fuel"
      | .error _ => "rej"
    | none => "bad-op"
  | _ => none

end Noodles.Cram.DriverC08Fqz
