import Noodles.Cram.Nx16
import Noodles.Cram.Rans4x8Proof
/-! Helper lemmas for `Noodles/Props/C08.lean`: rANS Nx16 order 0 and its transforms. -/
namespace Noodles.Cram.Nx
open Noodles.Cram.Num Noodles.Cram.R4

/-! ## A. one state: 16-bit renormalisation -/

theorem renormEnc_two (s f : Nat) (hs : s < 2 ^ 31) (hf : 0 < f) :
    renormEnc 2 s f = if s ≥ 2 ^ 19 * f then (s / 65536, [s / 256 % 256, s % 256]) else (s, []) := by
  simp only [renormEnc]
  split
  · have : ¬ (s / 65536 ≥ 2 ^ 19 * f) := by omega
    simp [this]
  · rfl

/-- `rans_renorm_inverse` for Nx16: the 16-bit word the encoder emits, read back little-endian,
restores a state in `[2^15, 2^31)` -/
theorem renormDec_renormEnc (s f : Nat) (rest : List Nat) (h1 : L ≤ s) (h2 : s < 2 ^ 31)
    (hf : 0 < f) :
    renormDec ((renormEnc 2 s f).2.reverse ++ rest) (renormEnc 2 s f).1 = .ok (s, rest) := by
  rw [renormEnc_two s f h2 hf]
  split
  · have : ¬ (s / 65536 ≥ L) := by unfold L; omega
    simp only [List.reverse_cons, List.reverse_nil, List.nil_append, List.cons_append, renormDec,
      this, ↓reduceIte]
    congr 2
    omega
  · simp [renormDec, h1]

theorem renormEnc_range (s f : Nat) (h1 : L ≤ s) (h2 : s < 2 ^ 31) (hf : 0 < f) (hf2 : f ≤ 4096) :
    2 ^ 3 * f ≤ (renormEnc 2 s f).1 ∧ (renormEnc 2 s f).1 < 2 ^ 19 * f := by
  rw [renormEnc_two s f h2 hf]
  unfold L at h1
  split <;> simp only [] <;> omega

theorem encStep_range (s f c : Nat) (hf : 0 < f) (hc : c + f ≤ 4096)
    (h1 : 2 ^ 3 * f ≤ s) (h2 : s < 2 ^ 19 * f) :
    L ≤ encStep s f c ∧ encStep s f c < 2 ^ 31 := by
  have hd := encStep_div s f c hf hc
  have hm := encStep_mod s f c hf hc
  have a1 : 2 ^ 3 ≤ s / f := (Nat.le_div_iff_mul_le hf).mpr h1
  have a2 : s / f < 2 ^ 19 := (Nat.div_lt_iff_lt_mul hf).mpr h2
  have : s % f < f := Nat.mod_lt _ hf
  unfold L
  omega

/-! ## B. the interleaved loops, `n` states -/

def StOK (n : Nat) (st : List Nat) : Prop :=
  st.length = n ∧ ∀ j, j < n → L ≤ st.getD j 0 ∧ st.getD j 0 < 2 ^ 31

theorem initStates_ok (n : Nat) : StOK n (List.replicate n L) := by
  refine ⟨List.length_replicate, ?_⟩
  intro j hj
  simp [List.getD_eq_getElem?_getD, hj, L]

theorem dec_one (F : List Nat) (n : Nat) (hn : 0 < n) (st out rest acc : List Nat) (k i x : Nat)
    (hst : StOK n st) (hx : SymOK F x) :
    StOK n (st.set (i % n) (encStep (renormEnc 2 (st.getD (i % n) 0) (getF F x)).1 (getF F x)
      (getF (cumL F) x))) ∧
    decSyms F (cumL F) n (k + 1) i
      (st.set (i % n) (encStep (renormEnc 2 (st.getD (i % n) 0) (getF F x)).1 (getF F x)
        (getF (cumL F) x)))
      (((renormEnc 2 (st.getD (i % n) 0) (getF F x)).2.reverse ++ out) ++ rest) acc
      = decSyms F (cumL F) n k (i + 1) st (out ++ rest) (x :: acc) := by
  obtain ⟨hlen, hrange⟩ := hst
  have hj : i % n < n := Nat.mod_lt _ hn
  have hjl : i % n < st.length := by omega
  obtain ⟨hs1, hs2⟩ := hrange (i % n) hj
  generalize hs : st.getD (i % n) 0 = s at *
  generalize hf : getF F x = f at *
  have hfpos : 0 < f := hf ▸ hx.pos
  have hC : getF (cumL F) x = cum F x := getF_cumL F x hx.lt
  rw [hC]
  have hcf : cum F x + f ≤ 4096 := by
    have := cum_succ F x
    have := hx.tot
    omega
  have hf4 : f ≤ 4096 := by omega
  obtain ⟨hlow, hdone⟩ := renormEnc_range s f hs1 hs2 hfpos hf4
  have hinv := renormDec_renormEnc s f (out ++ rest) hs1 hs2 hfpos
  generalize hr : renormEnc 2 s f = r at *
  have hrange' := encStep_range r.1 f (cum F x) hfpos hcf hlow hdone
  refine ⟨⟨by simp [hlen], ?_⟩, ?_⟩
  · intro k hk
    by_cases hkj : i % n = k
    · subst hkj
      rw [getD_set_self _ _ _ hjl]
      exact hrange'
    · rw [getD_set_ne _ _ _ _ hkj]
      exact hrange k hk
  · rw [decSyms]
    rw [getD_set_self _ _ _ hjl]
    have hslot : encStep r.1 f (cum F x) % 4096 = r.1 % f + cum F x := encStep_mod _ _ _ hfpos hcf
    have hlook : lookup (cumL F) (encStep r.1 f (cum F x) % 4096) = x := by
      rw [hslot]
      apply lookup_cumL F x _ hx.lt (by omega)
      rw [cum_succ, hf]
      have : r.1 % f < f := Nat.mod_lt _ hfpos
      omega
    rw [hlook, hf, hC, decStep_encStep _ _ _ hfpos hcf, List.append_assoc, hinv]
    simp only []
    rw [List.set_set, ← hs, set_getD_self _ _ hjl]

theorem encLoop_spec (F : List Nat) (n : Nat) (hn : 0 < n) (rev : List Nat) :
    ∀ (i : Nat) (st out st_f out_f : List Nat), i = rev.length → StOK n st →
      (∀ x ∈ rev, SymOK F x) → encLoop F (cumL F) n rev i st out = .ok (st_f, out_f) →
      StOK n st_f ∧ ∀ (k : Nat) (rest acc : List Nat),
        decSyms F (cumL F) n (rev.length + k) 0 st_f (out_f ++ rest) acc
          = decSyms F (cumL F) n k rev.length st (out ++ rest) (rev ++ acc) := by
  induction rev with
  | nil =>
    intro i st out st_f out_f _ hst _ h
    simp only [encLoop, Except.ok.injEq, Prod.mk.injEq] at h
    obtain ⟨rfl, rfl⟩ := h
    exact ⟨hst, fun k rest acc => by simp⟩
  | cons x rev ih =>
    intro i st out st_f out_f hi hst hsym h
    have hx : SymOK F x := hsym x (by simp)
    have hf : getF F x ≠ 0 := Nat.pos_iff_ne_zero.mp hx.pos
    simp only [encLoop, hf, ↓reduceIte] at h
    have hi' : i - 1 = rev.length := by simp at hi; omega
    rw [hi'] at h
    obtain ⟨hst', _⟩ := dec_one F n hn st out [] [] 0 rev.length x hst hx
    obtain ⟨hstf, hall⟩ := ih rev.length _ _ st_f out_f rfl hst'
      (fun y hy => hsym y (List.mem_cons_of_mem _ hy)) h
    refine ⟨hstf, ?_⟩
    intro k rest acc
    have := hall (k + 1) rest acc
    rw [show (x :: rev).length + k = rev.length + (k + 1) by simp; omega, this]
    rw [(dec_one F n hn st out rest (rev ++ acc) k rev.length x hst hx).2]
    simp

open Noodles.Cram.Num Noodles.Cram.R4

/-! ## C. the alphabet -/

def partB (pre : List Bool) (n : Nat) : List Bool := pre ++ List.replicate n false

theorem partB_set (pre : List Bool) (n : Nat) :
    (partB pre (n + 1)).set pre.length true = partB (pre ++ [true]) n := by
  unfold partB
  simp [List.replicate_succ]

theorem partB_false (pre : List Bool) (n : Nat) : partB pre (n + 1) = partB (pre ++ [false]) n := by
  unfold partB
  simp [List.replicate_succ]

def nzB : List Bool → Nat
  | [] => 0
  | a :: r => (if a then 1 else 0) + nzB r

theorem nzB_le_length (l : List Bool) : nzB l ≤ l.length := by
  induction l with
  | nil => simp [nzB]
  | cons f l ih => simp only [nzB, List.length_cons]; split <;> omega

theorem nzB_append (a b : List Bool) : nzB (a ++ b) = nzB a + nzB b := by
  induction a with
  | nil => simp [nzB]
  | cons x a ih => simp [nzB, ih]; omega

theorem leadT_le (l : List Bool) : leadT l ≤ l.length := by
  induction l with
  | nil => simp [leadT]
  | cons f l ih => simp only [leadT]; split <;> simp <;> omega

theorem take_leadT (l : List Bool) : l.take (leadT l) = List.replicate (leadT l) true := by
  induction l with
  | nil => simp [leadT]
  | cons f l ih =>
    simp only [leadT]
    split
    · rename_i h
      simp [List.replicate_succ, ih, h]
    · simp

theorem nzB_replicate (n : Nat) : nzB (List.replicate n true) = n := by
  induction n with
  | zero => simp [nzB]
  | succ n ih => simp [List.replicate_succ, nzB, ih]; omega

theorem nzB_split (l : List Bool) : nzB l = leadT l + nzB (l.drop (leadT l)) := by
  conv => lhs; rw [← List.take_append_drop (leadT l) l]
  rw [nzB_append, take_leadT, nzB_replicate]

/-- the reader over a run of `m + 1` consecutive symbols (no bytes are consumed) -/
theorem alphaRun (m : Nat) :
    ∀ (pre : List Bool) (n3 fuel : Nat) (bs : List Nat), pre.length + m + 1 ≤ 256 → m + 1 ≤ fuel →
      alphaLoop fuel (partB pre (m + 1 + n3)) pre.length m bs
        = alphaNext (fun A s r bs => alphaLoop (fuel - (m + 1)) A s r bs)
            (partB (pre ++ List.replicate (m + 1) true) n3) (pre.length + m) bs := by
  induction m with
  | zero =>
    intro pre n3 fuel bs hlen hfuel
    obtain ⟨fuel', rfl⟩ : ∃ k, fuel = k + 1 := ⟨fuel - 1, by omega⟩
    rw [alphaLoop]
    have h1 : ¬ (pre.length ≥ 256) := by omega
    simp only [h1, ↓reduceIte, Nat.lt_irrefl]
    rw [show 0 + 1 + n3 = n3 + 1 by omega, partB_set]
    simp
  | succ m ih =>
    intro pre n3 fuel bs hlen hfuel
    obtain ⟨fuel', rfl⟩ : ∃ k, fuel = k + 1 := ⟨fuel - 1, by omega⟩
    rw [alphaLoop]
    have h1 : ¬ (pre.length ≥ 256) := by omega
    have h2 : m + 1 > 0 := by omega
    simp only [h1, h2, ↓reduceIte]
    rw [show m + 1 + 1 + n3 = (m + 1 + n3) + 1 by omega, partB_set]
    have := ih (pre ++ [true]) n3 fuel' bs (by simp; omega) (by omega)
    simp only [List.length_append, List.length_cons, List.length_nil, Nat.zero_add] at this
    rw [show m + 1 - 1 = m by omega, this]
    rw [show fuel' + 1 - (m + 1 + 1) = fuel' - (m + 1) by omega,
      show pre.length + 1 + m = pre.length + (m + 1) by omega]
    congr 2
    simp [List.replicate_succ]

theorem alpha_spec (n : Nat) :
    ∀ (T' pre : List Bool) (last fuel : Nat) (rest : List Nat), T'.length = n →
      pre.length + T'.length = 256 → last < pre.length → nzB T' ≤ fuel →
      alphaNext (fun A s r bs => alphaLoop fuel A s r bs) (partB pre T'.length) last
        (writeAlphaGo pre.length T' (some last) ++ rest) = .ok (pre ++ T', rest) := by
  induction n using Nat.strongRecOn with
  | _ n ih =>
    intro T' pre last fuel rest hn hlen hlast hfuel
    cases T' with
    | nil => simp [writeAlphaGo, alphaNext, partB]
    | cons a T'' =>
      have ha : pre.length ≠ 0 := by omega
      rw [writeAlphaGo]
      cases a with
      | false =>
        simp only [Bool.not_false, ↓reduceIte]
        have := ih T''.length (by simp at hn; omega) T'' (pre ++ [false]) last fuel rest rfl
          (by simp at hlen ⊢; omega) (by simp; omega) (by simp [nzB] at hfuel; omega)
        simp only [List.length_append, List.length_cons, List.length_nil, Nat.zero_add] at this
        rw [List.length_cons, partB_false, this]
        simp
      | true =>
        simp only [Bool.not_true, Bool.false_eq_true, ↓reduceIte]
        have hml := leadT_le T''
        have hnz := nzB_split T''
        split
        · rename_i hrun
          obtain ⟨_, hprev⟩ := hrun
          have hl : pre.length = last + 1 := by
            simp only [Option.some.injEq] at hprev; omega
          simp only [List.cons_append, List.nil_append, alphaNext]
          rw [if_neg ha, if_pos hl]
          have hr := alphaRun (leadT T'') pre (T''.drop (leadT T'')).length fuel
            (writeAlphaGo (pre.length + 1 + leadT T'') (T''.drop (leadT T''))
              (some (pre.length + leadT T'')) ++ rest)
            (by simp at hlen; omega) (by simp [nzB] at hfuel; omega)
          simp only [List.length_drop] at hr
          rw [show leadT T'' + 1 + (T''.length - leadT T'') = (true :: T'').length by simp; omega] at hr
          rw [hr]
          have := ih (T''.drop (leadT T'')).length (by simp at hn ⊢; omega) (T''.drop (leadT T''))
            (pre ++ List.replicate (leadT T'' + 1) true) (pre.length + leadT T'')
            (fuel - (leadT T'' + 1)) rest rfl
            (by simp at hlen ⊢; omega) (by simp)
            (by simp [nzB] at hfuel; omega)
          simp only [List.length_append, List.length_replicate, List.length_drop] at this
          rw [show pre.length + 1 + leadT T'' = pre.length + (leadT T'' + 1) by omega, this]
          have e : List.replicate (leadT T'' + 1) true = true :: T''.take (leadT T'') := by
            rw [take_leadT, List.replicate_succ]
          rw [e]
          simp
        · rename_i hrun
          have hl : pre.length ≠ last + 1 := by
            intro h
            apply hrun
            exact ⟨by omega, by simp; omega⟩
          simp only [List.cons_append, List.nil_append, alphaNext]
          rw [if_neg ha, if_neg hl]
          have hr := alphaRun 0 pre T''.length fuel
            (writeAlphaGo (pre.length + 1) T'' (some pre.length) ++ rest)
            (by simp at hlen; omega) (by simp [nzB] at hfuel; omega)
          rw [show 0 + 1 + T''.length = (true :: T'').length by simp; omega] at hr
          rw [hr]
          have := ih T''.length (by simp at hn; omega) T'' (pre ++ [true]) pre.length (fuel - 1) rest
            rfl (by simp at hlen ⊢; omega) (by simp) (by simp [nzB] at hfuel; omega)
          simp only [List.length_append, List.length_cons, List.length_nil, Nat.zero_add] at this
          simp only [List.replicate_succ, List.replicate_zero, Nat.add_zero, Nat.zero_add]
          rw [this]
          simp

theorem alpha_top (T' : List Bool) :
    ∀ (a : Nat) (rest : List Nat), a + T'.length = 256 → (∃ f ∈ T', f = true) →
      readAlpha (writeAlphaGo a T' none ++ rest) = .ok (List.replicate a false ++ T', rest) := by
  induction T' with
  | nil => intro _ _ _ h; obtain ⟨f, hf, _⟩ := h; simp at hf
  | cons f T'' ih =>
    intro a rest hlen hex
    rw [writeAlphaGo]
    cases f with
    | false =>
      simp only [Bool.not_false, ↓reduceIte]
      have := ih (a + 1) rest (by simp at hlen ⊢; omega)
        (by
          obtain ⟨g, hg, hg0⟩ := hex
          simp only [List.mem_cons] at hg
          rcases hg with rfl | hg
          · exact absurd hg0 (by simp)
          · exact ⟨g, hg, hg0⟩)
      rw [this, List.replicate_succ']
      simp
    | true =>
      simp only [Bool.not_true, Bool.false_eq_true, ↓reduceIte]
      have hno : ¬ (a > 0 ∧ (none : Option Nat) = some (a - 1)) := by simp
      rw [if_neg hno]
      simp only [List.cons_append, List.nil_append, readAlpha]
      have hpre : (List.replicate a false).length = a := by simp
      have hzero : List.replicate 256 false = partB (List.replicate a false) (0 + 1 + T''.length) := by
        unfold partB
        rw [List.replicate_append_replicate]
        congr 1
        simp at hlen; omega
      have hr := alphaRun 0 (List.replicate a false) T''.length
        ((writeAlphaGo (a + 1) T'' (some a) ++ rest).length + 513)
        (writeAlphaGo (a + 1) T'' (some a) ++ rest)
        (by simp at hlen ⊢; omega) (by omega)
      simp only [hpre] at hr
      rw [hzero, hr]
      have := alpha_spec T''.length T'' (List.replicate a false ++ [true]) a
        ((writeAlphaGo (a + 1) T'' (some a) ++ rest).length + 513 - (0 + 1)) rest rfl
        (by simp at hlen ⊢; omega) (by simp)
        (by have := nzB_le_length T''; simp at hlen; omega)
      simp only [List.length_append, List.length_replicate, List.length_cons, List.length_nil,
        Nat.zero_add] at this
      simp only [List.replicate_succ, List.replicate_zero, Nat.add_zero, Nat.zero_add,
        List.length_append]
      rw [this]
      simp

/-- the alphabet written by `write_alphabet` is read back exactly by `ReadAlphabet` -/
theorem readAlpha_writeAlpha (A : List Bool) (rest : List Nat) (hlen : A.length = 256)
    (hex : ∃ f ∈ A, f = true) : readAlpha (writeAlpha A ++ rest) = .ok (A, rest) := by
  have := alpha_top A 0 rest (by omega) hex
  simpa [writeAlpha] using this

open Noodles.Cram.Num Noodles.Cram.R4

/-! ## D. frequencies, states, the order-0 stream -/

theorem rdU7_write (f : Nat) (hf : f < 2 ^ 32) (rest : List Nat) :
    rdU7 ((writeUint7 f).getD [] ++ rest) = .ok (f, rest) := by
  obtain ⟨bs, h1, _, _, h2⟩ := uint7_roundtrip' f hf
  simp [rdU7, h1, h2 rest]

theorem readFreqs16_write (F : List Nat) (rest : List Nat) (hv : ∀ f ∈ F, f < 2 ^ 32) :
    readFreqs16 (F.map (· ≠ 0)) (writeFreqs16 F ++ rest) = .ok (F, rest) := by
  induction F with
  | nil => simp [readFreqs16, writeFreqs16]
  | cons f F ih =>
    have ih' := ih (fun x hx => hv x (List.mem_cons_of_mem _ hx))
    by_cases hf : f = 0
    · subst hf
      simp only [List.map_cons, ne_eq, not_true_eq_false, decide_false, readFreqs16,
        Bool.false_eq_true, ↓reduceIte]
      have : writeFreqs16 (0 :: F) = writeFreqs16 F := by simp [writeFreqs16]
      rw [this]
      simp only [ne_eq] at ih'
      rw [ih']
    · have hd : decide (f ≠ 0) = true := by simp [hf]
      simp only [List.map_cons, hd, readFreqs16, ↓reduceIte]
      have : writeFreqs16 (f :: F) = (writeUint7 f).getD [] ++ writeFreqs16 F := by
        simp [writeFreqs16, hf]
      rw [this, List.append_assoc, rdU7_write f (hv f (by simp))]
      simp only []
      rw [ih']

theorem readStates_write (st : List Nat) (out : List Nat) (hv : ∀ x ∈ st, x < 2 ^ 32) :
    readStates st.length ((st.map le4).flatten ++ out) = .ok (st, out) := by
  induction st with
  | nil => simp [readStates]
  | cons x st ih =>
    simp only [List.length_cons, List.map_cons, List.flatten_cons, List.append_assoc, readStates]
    rw [readU32le_le4 x (hv x (by simp))]
    simp only []
    rw [ih (fun y hy => hv y (List.mem_cons_of_mem _ hy))]

theorem normaliseDec_id (F : List Nat) (h : F.sum = 4096) : normaliseDec F = F := by
  simp [normaliseDec, h]

theorem symOK16_of_mem (src : List Nat) (hsym : ∀ x ∈ src, x < 256) (x : Nat) (hx : x ∈ src) :
    SymOK (normalizeTo 4096 (hist src)) x := by
  have hn := normalizeTo_spec 4096 (hist src) (by rw [hist_length]; decide)
    (hist_sum_ne src x hx (hsym x hx))
  refine ⟨hsym x hx, hn.pos x (hist_pos src x hx (hsym x hx)), ?_⟩
  have := cum_le_sum (normalizeTo 4096 (hist src)) (x + 1)
  have := hn.sum
  omega

/-- Order-0 entropy stage: alphabet, frequencies, states and payload written by noodles decode
to the input under the specification's `RansDecodeNx16_0`, for any number of states. -/
theorem decodeO0_encodeO0 (n : Nat) (hn : 0 < n) (src e : List Nat) (hsym : ∀ x ∈ src, x < 256)
    (hne : src ≠ []) (h : encodeO0 n src = .ok e) (rest : List Nat) :
    decodeO0 n src.length (e ++ rest) = .ok src := by
  unfold encodeO0 at h
  simp only [] at h
  split at h
  · exact absurd h (by simp)
  · rename_i st out henc
    simp only [Except.ok.injEq] at h
    subst h
    obtain ⟨x0, hx0⟩ := List.exists_mem_of_ne_nil src hne
    have hnorm := normalizeTo_spec 4096 (hist src) (by rw [hist_length]; decide)
      (hist_sum_ne src x0 hx0 (hsym x0 hx0))
    generalize hF : normalizeTo 4096 (hist src) = F at *
    have hFlen : F.length = 256 := by rw [hnorm.len, hist_length]
    have hFv : ∀ f ∈ F, f < 2 ^ 32 := fun f hf => by
      have := mem_le_sum F f hf
      have := hnorm.sum
      omega
    have hp := hnorm.pos x0 (hist_pos src x0 hx0 (hsym x0 hx0))
    have hAex : ∃ a ∈ (F.map (fun f => decide (f ≠ 0)) : List Bool), a = true := by
      refine ⟨decide (getF F x0 ≠ 0), ?_, by simp; omega⟩
      exact List.mem_map.mpr ⟨getF F x0, getF_mem F x0 (by rw [hFlen]; exact hsym x0 hx0), rfl⟩
    unfold decodeO0
    simp only [List.append_assoc]
    rw [readAlpha_writeAlpha _ _ (by simp [hFlen]) hAex]
    simp only []
    rw [readFreqs16_write F _ hFv]
    simp only []
    rw [normaliseDec_id F hnorm.sum]
    have hspec := encLoop_spec F n hn src.reverse src.length (List.replicate n L) [] st out
      (by simp) (initStates_ok n)
      (fun x hx => by
        have := symOK16_of_mem src hsym x (List.mem_reverse.mp hx)
        rwa [hF] at this)
      henc
    obtain ⟨⟨hstlen, hstr⟩, hdec⟩ := hspec
    have hstv : ∀ x ∈ st, x < 2 ^ 32 := by
      intro x hx
      obtain ⟨j, hj, rfl⟩ := List.getElem_of_mem hx
      have := (hstr j (by omega)).2
      simp only [List.getD_eq_getElem?_getD, List.getElem?_eq_getElem hj, Option.getD_some] at this
      omega
    rw [← hstlen, readStates_write st _ hstv]
    simp only []
    have := hdec 0 rest []
    simp only [List.length_reverse, Nat.add_zero, List.append_nil, decSyms,
      List.reverse_reverse] at this
    rw [hstlen, this]

open Noodles.Cram.Num Noodles.Cram.R4

/-! ## E. run lengths -/

theorem runOf_le (s : Nat) (l : List Nat) : runOf s l ≤ l.length := by
  induction l with
  | nil => simp [runOf]
  | cons a l ih => simp only [runOf]; split <;> simp <;> omega

theorem take_runOf (s : Nat) (l : List Nat) : l.take (runOf s l) = List.replicate (runOf s l) s := by
  induction l with
  | nil => simp [runOf]
  | cons a l ih =>
    simp only [runOf]
    split
    · rename_i h
      simp [List.replicate_succ, ih, h]
    · simp

/-- `rle_inverse`: the literals and run lengths written by `rle::encode` expand to the input under
`DecodeRLE`, whatever set of symbols was chosen for run-length coding -/
theorem rleDec_rleEnc (rs : List Nat) (fuel : Nat) :
    ∀ (src lits mt rest : List Nat), src.length ≤ fuel → rleEnc rs fuel src = some (lits, mt) →
      rleDec (fun s => rs.contains s) lits (mt ++ rest) = .ok src := by
  induction fuel with
  | zero =>
    intro src lits mt rest hlen h
    have : src = [] := List.length_eq_zero_iff.mp (by omega)
    subst this
    simp only [rleEnc, Option.some.injEq, Prod.mk.injEq] at h
    obtain ⟨rfl, rfl⟩ := h
    simp [rleDec]
  | succ fuel ih =>
    intro src lits mt rest hlen h
    cases src with
    | nil =>
      simp only [rleEnc, Option.some.injEq, Prod.mk.injEq] at h
      obtain ⟨rfl, rfl⟩ := h
      simp [rleDec]
    | cons s tl =>
      rw [rleEnc] at h
      split at h
      · rename_i hin
        simp only [] at h
        split at h
        · rename_i u lits' mt' hu hrec
          split at h
          · rename_i hn
            simp only [Option.some.injEq, Prod.mk.injEq] at h
            obtain ⟨rfl, rfl⟩ := h
            have hrl := runOf_le s tl
            have := ih (tl.drop (runOf s tl)) lits' mt' rest
              (by simp at hlen ⊢; omega) hrec
            obtain ⟨bs, h1, _, _, h2⟩ := uint7_roundtrip' (runOf s tl) hn
            rw [hu] at h1
            cases h1
            simp only [rleDec, hin, ↓reduceIte, List.append_assoc, h2, this]
            congr 1
            rw [List.replicate_succ, ← take_runOf, List.cons_append, List.take_append_drop]
          · exact absurd h (by simp)
        · exact absurd h (by simp)
      · rename_i hin
        split at h
        · rename_i lits' mt' hrec
          simp only [Option.some.injEq, Prod.mk.injEq] at h
          obtain ⟨rfl, rfl⟩ := h
          have := ih tl lits' mt' rest (by simp at hlen; omega) hrec
          simp only [rleDec, hin, Bool.false_eq_true, ↓reduceIte, this]
        · exact absurd h (by simp)

open Noodles.Cram.Num Noodles.Cram.R4

/-! ## F. bit packing -/

theorem mem_symbols (src : List Nat) (x : Nat) (hx : x ∈ src) (h : x < 256) : x ∈ symbols src := by
  simp [symbols, List.mem_filter, h, hx]

theorem getD_rank (syms : List Nat) (s : Nat) (h : s ∈ syms) : syms.getD (rank syms s) 0 = s := by
  have hi : syms.idxOf s < syms.length := List.idxOf_lt_length_iff.mpr h
  simp [rank, List.getD_eq_getElem?_getD, hi]

theorem rank_lt (syms : List Nat) (s : Nat) (h : s ∈ syms) : rank syms s < syms.length :=
  List.idxOf_lt_length_iff.mpr h

theorem unpackByte_zero (map : List Nat) (b k : Nat) :
    unpackByte map b k 0 = List.replicate k (map.getD 0 0) := by
  induction k with
  | zero => rfl
  | succ k ih => simp [unpackByte, ih, List.replicate_succ]

/-- one byte: the fields come back in order, a short last chunk is padded with symbol 0 of the map -/
theorem unpackByte_packByte (syms : List Nat) (b : Nat) (hb : syms.length ≤ 2 ^ b) (c : List Nat) :
    ∀ k, c.length ≤ k → (∀ s ∈ c, s ∈ syms) →
      unpackByte syms b k (packByte syms b c) = c ++ List.replicate (k - c.length) (syms.getD 0 0) := by
  induction c with
  | nil => intro k _ _; simp [packByte, unpackByte_zero]
  | cons s r ih =>
    intro k hk hin
    obtain ⟨k', rfl⟩ : ∃ k', k = k' + 1 := ⟨k - 1, by simp at hk; omega⟩
    have hs : s ∈ syms := hin s (by simp)
    have hr : rank syms s < 2 ^ b := Nat.lt_of_lt_of_le (rank_lt syms s hs) hb
    simp only [packByte, unpackByte]
    rw [Nat.add_mul_mod_self_left, Nat.mod_eq_of_lt hr, getD_rank syms s hs,
      Nat.add_mul_div_left _ _ (Nat.two_pow_pos b), Nat.div_eq_of_lt hr, Nat.zero_add,
      ih k' (by simp at hk; omega) (fun x hx => hin x (List.mem_cons_of_mem _ hx))]
    simp

/-- all the bytes: taking the input's length off the unpacked stream gives the input back -/
theorem unpack_chunks (syms : List Nat) (b per : Nat) (hb : syms.length ≤ 2 ^ b) (hper : 0 < per)
    (fuel : Nat) :
    ∀ l : List Nat, l.length ≤ fuel → (∀ s ∈ l, s ∈ syms) →
      (((chunks per fuel l).map fun c => packByte syms b c).map
        fun v => unpackByte syms b per v).flatten.take l.length = l := by
  induction fuel with
  | zero =>
    intro l hl _
    have : l = [] := List.length_eq_zero_iff.mp (by omega)
    subst this
    simp [chunks]
  | succ fuel ih =>
    intro l hl hin
    cases l with
    | nil => simp [chunks]
    | cons a t =>
      simp only [chunks, List.isEmpty_cons, Bool.false_eq_true, ↓reduceIte, List.map_cons,
        List.flatten_cons]
      have hin' : ∀ s ∈ (a :: t).take per, s ∈ syms := fun s hs => hin s (List.mem_of_mem_take hs)
      rw [unpackByte_packByte syms b hb _ per (List.length_take_le _ _) hin']
      by_cases hge : per ≤ (a :: t).length
      · have hlt : ((a :: t).take per).length = per := by
          rw [List.length_take]; omega
        rw [hlt, Nat.sub_self, List.replicate_zero, List.append_nil]
        have hd := ih ((a :: t).drop per) (by simp [List.length_drop] at hl ⊢; omega)
          (fun s hs => hin s (List.mem_of_mem_drop hs))
        rw [List.take_append, hlt]
        simp only [List.length_drop] at hd
        rw [hd]
        rw [List.take_of_length_le (by rw [hlt]; omega), List.take_append_drop]
      · have hlt : (a :: t).take per = a :: t := List.take_of_length_le (by omega)
        have hdr : (a :: t).drop per = [] := List.drop_of_length_le (by omega)
        rw [hlt, hdr]
        have : chunks per fuel [] = [] := by cases fuel <;> simp [chunks]
        rw [this]
        simp

theorem perByte_bits (n : Nat) (_h2 : 2 ≤ n) (h16 : n ≤ 16) :
    0 < perByte n ∧ n ≤ 2 ^ (8 / perByte n) := by
  unfold perByte
  split
  · exact ⟨by decide, by omega⟩
  · split
    · exact ⟨by decide, by simp; omega⟩
    · exact ⟨by decide, by simp; omega⟩

/-- `pack_inverse`: for an input with 1..16 distinct symbols, `DecodePack` undoes `pack` -/
theorem unpack_packEnc (src : List Nat) (hsym : ∀ x ∈ src, x < 256)
    (h1 : 1 ≤ (symbols src).length) (h16 : (symbols src).length ≤ 16) :
    unpack (symbols src) src.length (packEnc (symbols src) src) = .ok src := by
  have hin : ∀ s ∈ src, s ∈ symbols src := fun s hs => mem_symbols src s hs (hsym s hs)
  unfold unpack packEnc
  rw [if_neg (by omega)]
  by_cases hone : (symbols src).length = 1
  · simp only [hone, ↓reduceIte]
    congr 1
    obtain ⟨z, hz⟩ := List.length_eq_one_iff.mp hone
    rw [hz]
    apply List.ext_getElem (by simp)
    intro i h1 _
    have := hin src[i] (List.getElem_mem _)
    rw [hz] at this
    simp at this
    simp [this]
  · simp only [hone, ↓reduceIte]
    obtain ⟨hper, hbits⟩ := perByte_bits (symbols src).length (by omega) h16
    have h := unpack_chunks (symbols src) (8 / perByte (symbols src).length)
      (perByte (symbols src).length) hbits hper src.length src (Nat.le_refl _) hin
    unfold pack
    have hlen : ¬ ((((chunks (perByte (symbols src).length) src.length src).map
        fun c => packByte (symbols src) (8 / perByte (symbols src).length) c).map
        fun b => unpackByte (symbols src) (8 / perByte (symbols src).length)
          (perByte (symbols src).length) b).flatten.length < src.length) := by
      intro hc
      have := congrArg List.length h
      rw [List.length_take] at this
      omega
    rw [if_neg hlen, h]

open Noodles.Cram.Num Noodles.Cram.R4

/-! ## G. stripes -/

/-- the four sub-streams of a list of chunks -/
def parts4 (cs : List (List Nat)) : List (List Nat) :=
  [cs.filterMap (·[0]?), cs.filterMap (·[1]?), cs.filterMap (·[2]?), cs.filterMap (·[3]?)]

theorem chunks_nil (n fuel : Nat) : chunks n fuel [] = [] := by
  cases fuel <;> simp [chunks]

theorem interleave_nil4 (g : Nat) : interleave g [[], [], [], []] = [] := by
  cases g <;> simp [interleave]

theorem interleave_parts4 (fuel : Nat) :
    ∀ (l : List Nat) (g : Nat), l.length ≤ fuel → l.length ≤ g →
      interleave g (parts4 (chunks 4 fuel l)) = l := by
  induction fuel with
  | zero =>
    intro l g hl _
    have : l = [] := List.length_eq_zero_iff.mp (by omega)
    subst this
    simp [chunks, parts4, interleave_nil4]
  | succ fuel ih =>
    intro l g hl hg
    match l, hl, hg with
    | [], _, _ => simp [chunks, parts4, interleave_nil4]
    | [a], _, hg =>
      obtain ⟨g', rfl⟩ : ∃ k, g = k + 1 := ⟨g - 1, by simp at hg; omega⟩
      simp [chunks, chunks_nil, parts4, interleave, interleave_nil4]
    | [a, b], _, hg =>
      obtain ⟨g', rfl⟩ : ∃ k, g = k + 1 := ⟨g - 1, by simp at hg; omega⟩
      simp [chunks, chunks_nil, parts4, interleave, interleave_nil4]
    | [a, b, c], _, hg =>
      obtain ⟨g', rfl⟩ : ∃ k, g = k + 1 := ⟨g - 1, by simp at hg; omega⟩
      simp [chunks, chunks_nil, parts4, interleave, interleave_nil4]
    | a :: b :: c :: d :: t, hl, hg =>
      obtain ⟨g', rfl⟩ : ∃ k, g = k + 1 := ⟨g - 1, by simp at hg; omega⟩
      have := ih t g' (by simp at hl; omega) (by simp at hg; omega)
      simp only [parts4] at this
      simp [chunks, parts4, interleave, this]

/-- `stripe_inverse`: interleaving the four transposed sub-streams gives the input back -/
theorem interleave_transpose (src : List Nat) :
    (interleave src.length ((List.range 4).map fun j => transpose 4 src j)).take src.length = src := by
  have h := interleave_parts4 src.length src src.length (Nat.le_refl _) (Nat.le_refl _)
  have e : (List.range 4).map (fun j => transpose 4 src j) = parts4 (chunks 4 src.length src) := by
    simp [List.range, List.range.loop, transpose, parts4]
  rw [e, h]
  simp

theorem transpose_sym (src : List Nat) (hsym : ∀ x ∈ src, x < 256) (j : Nat) :
    ∀ x ∈ transpose 4 src j, x < 256 := by
  intro x hx
  simp only [transpose, List.mem_filterMap] at hx
  obtain ⟨c, hc, hcx⟩ := hx
  have hmem : x ∈ c := List.mem_of_getElem? hcx
  have : ∀ fuel (l : List Nat), (∀ y ∈ l, y < 256) → ∀ c ∈ chunks 4 fuel l, ∀ y ∈ c, y < 256 := by
    intro fuel
    induction fuel with
    | zero => intro l _ c hc; simp [chunks] at hc
    | succ fuel ih =>
      intro l hl c hc y hy
      simp only [chunks] at hc
      split at hc
      · simp at hc
      · simp only [List.mem_cons] at hc
        rcases hc with rfl | hc
        · exact hl y (List.mem_of_mem_take hy)
        · exact ih (l.drop 4) (fun z hz => hl z (List.mem_of_mem_drop hz)) c hc y hy
  exact this src.length src hsym c hc x hmem

open Noodles.Cram.Num Noodles.Cram.R4

/-! ## H. glue -/

theorem takeN_append (a b : List Nat) : takeN a.length (a ++ b) = .ok (a, b) := by
  simp [takeN]

theorem rdU7_u7 (n : Nat) (a r : List Nat) (h : u7 n = .ok a) : rdU7 (a ++ r) = .ok (n, r) := by
  unfold u7 at h
  split at h
  · rename_i hn
    simp only [Except.ok.injEq] at h
    subst h
    exact rdU7_write n hn r
  · exact absurd h (by simp)

theorem ofByte_toByte (f : Flags) : Flags.ofByte f.toByte = f := by
  obtain ⟨a, b, c, d, e, g, h, i⟩ := f
  cases a <;> cases b <;> cases c <;> cases d <;> cases e <;> cases g <;> cases h <;> cases i <;> rfl

theorem chunks_mem (per fuel : Nat) :
    ∀ (l c : List Nat), c ∈ chunks per fuel l → c.length ≤ per ∧ ∀ x ∈ c, x ∈ l := by
  induction fuel with
  | zero => intro l c hc; simp [chunks] at hc
  | succ fuel ih =>
    intro l c hc
    simp only [chunks] at hc
    split at hc
    · simp at hc
    · simp only [List.mem_cons] at hc
      rcases hc with rfl | hc
      · exact ⟨List.length_take_le _ _, fun x hx => List.mem_of_mem_take hx⟩
      · obtain ⟨h1, h2⟩ := ih (l.drop per) c hc
        exact ⟨h1, fun x hx => List.mem_of_mem_drop (h2 x hx)⟩

theorem packByte_lt (syms : List Nat) (b : Nat) (hb : syms.length ≤ 2 ^ b) (c : List Nat)
    (hin : ∀ s ∈ c, s ∈ syms) : packByte syms b c < 2 ^ (b * c.length) := by
  induction c with
  | nil => simp [packByte]
  | cons s r ih =>
    have hr := ih (fun x hx => hin x (List.mem_cons_of_mem _ hx))
    have hs : rank syms s < 2 ^ b := Nat.lt_of_lt_of_le (rank_lt syms s (hin s (by simp))) hb
    simp only [packByte, List.length_cons]
    rw [Nat.mul_succ, Nat.pow_add, Nat.mul_comm (2 ^ (b * r.length)) (2 ^ b)]
    have h1 : 2 ^ b * (packByte syms b r + 1) ≤ 2 ^ b * 2 ^ (b * r.length) :=
      Nat.mul_le_mul_left _ (by omega)
    rw [Nat.mul_succ] at h1
    omega

theorem packEnc_bytes (src : List Nat) (hsym : ∀ x ∈ src, x < 256)
    (h16 : (symbols src).length ≤ 16) : ∀ y ∈ packEnc (symbols src) src, y < 256 := by
  intro y hy
  unfold packEnc at hy
  split at hy
  · simp at hy
  · rename_i hone
    by_cases h0 : (symbols src).length = 0
    · have : src = [] := by
        cases src with
        | nil => rfl
        | cons a t =>
          have := mem_symbols (a :: t) a (by simp) (hsym a (by simp))
          rw [List.length_eq_zero_iff.mp h0] at this
          simp at this
      subst this
      simp [pack, chunks] at hy
    · obtain ⟨hper, hbits⟩ := perByte_bits (symbols src).length (by omega) h16
      simp only [pack, List.mem_map] at hy
      obtain ⟨c, hc, rfl⟩ := hy
      obtain ⟨hlen, hsub⟩ := chunks_mem _ _ _ _ hc
      have := packByte_lt (symbols src) (8 / perByte (symbols src).length) hbits c
        (fun s hs => mem_symbols src s (hsub s hs) (hsym s (hsub s hs)))
      have h8 : 8 / perByte (symbols src).length * c.length ≤ 8 := by
        have : 8 / perByte (symbols src).length * c.length
            ≤ 8 / perByte (symbols src).length * perByte (symbols src).length :=
          Nat.mul_le_mul_left _ hlen
        have h2 : 8 / perByte (symbols src).length * perByte (symbols src).length ≤ 8 :=
          Nat.div_mul_le_self 8 _
        omega
      have : 2 ^ (8 / perByte (symbols src).length * c.length) ≤ 2 ^ 8 :=
        Nat.pow_le_pow_right (by decide) h8
      omega

theorem rleEnc_lits_sub (rs : List Nat) (fuel : Nat) :
    ∀ (src lits mt : List Nat), rleEnc rs fuel src = some (lits, mt) → ∀ x ∈ lits, x ∈ src := by
  induction fuel with
  | zero =>
    intro src lits mt h
    simp only [rleEnc, Option.some.injEq, Prod.mk.injEq] at h
    obtain ⟨rfl, _⟩ := h
    simp
  | succ fuel ih =>
    intro src lits mt h
    cases src with
    | nil =>
      simp only [rleEnc, Option.some.injEq, Prod.mk.injEq] at h
      obtain ⟨rfl, _⟩ := h
      simp
    | cons s tl =>
      rw [rleEnc] at h
      split at h
      · simp only [] at h
        split at h
        · rename_i u lits' mt' hu hrec
          split at h
          · simp only [Option.some.injEq, Prod.mk.injEq] at h
            obtain ⟨rfl, _⟩ := h
            intro x hx
            simp only [List.mem_cons] at hx ⊢
            rcases hx with rfl | hx
            · exact Or.inl rfl
            · exact Or.inr (List.mem_of_mem_drop (ih _ _ _ hrec x hx))
          · exact absurd h (by simp)
        · exact absurd h (by simp)
      · split at h
        · rename_i lits' mt' hrec
          simp only [Option.some.injEq, Prod.mk.injEq] at h
          obtain ⟨rfl, _⟩ := h
          intro x hx
          simp only [List.mem_cons] at hx ⊢
          rcases hx with rfl | hx
          · exact Or.inl rfl
          · exact Or.inr (ih _ _ _ hrec x hx)
        · exact absurd h (by simp)

theorem rleSyms_length (src : List Nat) : (rleSyms src).length ≤ 256 := by
  unfold rleSyms
  have := List.length_filter_le (fun s => decide (rleScore s src > 0)) (List.range 256)
  simpa using this

open Noodles.Cram.Num Noodles.Cram.R4

/-! ## I. the stages -/

/-- the flags a later stage does not touch -/
def SameBut (f g : Flags) : Prop :=
  g.order = f.order ∧ g.n32 = f.n32 ∧ g.stripe = f.stripe ∧ g.nosz = f.nosz

theorem stagePack_spec (f f1 : Flags) (src s1 m1 : List Nat) (hsym : ∀ x ∈ src, x < 256)
    (h : stagePack f src = .ok (f1, s1, m1)) :
    SameBut f f1 ∧ f1.rle = f.rle ∧ f1.cat = f.cat ∧ (∀ x ∈ s1, x < 256) ∧
    ∀ (g : Flags) (tail : List Nat), g.pack = f1.pack →
      ∃ pm, readPack g src.length (m1 ++ tail) = .ok (pm, s1.length, tail) ∧
        undoPack pm src.length s1 = .ok src := by
  unfold stagePack at h
  split at h
  · rename_i hp
    split at h
    · simp only [Except.ok.injEq, Prod.mk.injEq] at h
      obtain ⟨rfl, rfl, rfl⟩ := h
      refine ⟨⟨rfl, rfl, rfl, rfl⟩, rfl, rfl, hsym, ?_⟩
      intro g tail hg
      exact ⟨none, by simp [readPack, hg], rfl⟩
    · rename_i hn
      split at h
      · exact absurd h (by simp)
      · rename_i n hu
        simp only [Except.ok.injEq, Prod.mk.injEq] at h
        obtain ⟨rfl, rfl, rfl⟩ := h
        have h1 : 1 ≤ (symbols src).length := by omega
        have h16 : (symbols src).length ≤ 16 := by omega
        refine ⟨⟨rfl, rfl, rfl, rfl⟩, rfl, rfl, packEnc_bytes src hsym h16, ?_⟩
        intro g tail hg
        refine ⟨some (symbols src), ?_, unpack_packEnc src hsym h1 h16⟩
        simp only [readPack, hg, hp, ↓reduceIte, List.cons_append, List.nil_append, rdU8,
          List.append_assoc, takeN_append, rdU7_u7 _ _ _ hu]
  · rename_i hp
    simp only [Except.ok.injEq, Prod.mk.injEq] at h
    obtain ⟨rfl, rfl, rfl⟩ := h
    refine ⟨⟨rfl, rfl, rfl, rfl⟩, rfl, rfl, hsym, ?_⟩
    intro g tail hg
    exact ⟨none, by simp [readPack, hg, hp], rfl⟩

theorem stageRle_spec (f f2 : Flags) (src s2 m2 : List Nat) (hsym : ∀ x ∈ src, x < 256)
    (h : stageRle f src = .ok (f2, s2, m2)) :
    SameBut f f2 ∧ f2.pack = f.pack ∧ f2.cat = f.cat ∧ (∀ x ∈ s2, x < 256) ∧
    ∀ (g : Flags) (tail : List Nat), g.rle = f2.rle →
      ∃ rm, readRle g src.length (m2 ++ tail) = .ok (rm, s2.length, tail) ∧
        undoRle rm src.length s2 = .ok src := by
  unfold stageRle at h
  split at h
  · rename_i hp
    split at h
    · simp only [Except.ok.injEq, Prod.mk.injEq] at h
      obtain ⟨rfl, rfl, rfl⟩ := h
      refine ⟨⟨rfl, rfl, rfl, rfl⟩, rfl, rfl, hsym, ?_⟩
      intro g tail hg
      exact ⟨none, by simp [readRle, hg], rfl⟩
    · rename_i hn
      split at h
      · exact absurd h (by simp)
      · rename_i lits runs henc
        split at h
        · rename_i a b ha hb
          simp only [Except.ok.injEq, Prod.mk.injEq] at h
          obtain ⟨rfl, rfl, rfl⟩ := h
          refine ⟨⟨rfl, rfl, rfl, rfl⟩, rfl, rfl,
            fun x hx => hsym x (rleEnc_lits_sub _ _ _ _ _ henc x hx), ?_⟩
          intro g tail hg
          refine ⟨some ([(rleSyms src).length % 256] ++ rleSyms src ++ runs), ?_, ?_⟩
          · simp only [readRle, hg, hp, ↓reduceIte, List.append_assoc, rdU7_u7 _ _ _ ha,
              rdU7_u7 _ _ _ hb]
            have hodd : (([(rleSyms src).length % 256] ++ (rleSyms src ++ runs)).length * 2 + 1) % 2 = 1 := by
              omega
            have hhalf : (([(rleSyms src).length % 256] ++ (rleSyms src ++ runs)).length * 2 + 1) / 2
                = ([(rleSyms src).length % 256] ++ (rleSyms src ++ runs)).length := by omega
            rw [if_pos hodd, hhalf]
            have := takeN_append ([(rleSyms src).length % 256] ++ (rleSyms src ++ runs)) tail
            simp only [List.append_assoc] at this
            rw [this]
          · have hl := rleSyms_length src
            have hk : (if (rleSyms src).length % 256 = 0 then 256 else (rleSyms src).length % 256)
                = (rleSyms src).length := by
              split <;> omega
            simp only [undoRle, List.cons_append, List.nil_append, rdU8, hk, takeN_append]
            have := rleDec_rleEnc (rleSyms src) src.length src lits runs [] (Nat.le_refl _) henc
            rw [List.append_nil] at this
            rw [this]
            simp
        · exact absurd h (by simp)
  · rename_i hp
    simp only [Except.ok.injEq, Prod.mk.injEq] at h
    obtain ⟨rfl, rfl, rfl⟩ := h
    refine ⟨⟨rfl, rfl, rfl, rfl⟩, rfl, rfl, hsym, ?_⟩
    intro g tail hg
    exact ⟨none, by simp [readRle, hg, hp], rfl⟩

theorem stageEntropy_spec (f f3 : Flags) (src e : List Nat) (hsym : ∀ x ∈ src, x < 256)
    (hord : f.order = false) (h : stageEntropy f src = .ok (f3, e)) :
    f3.order = false ∧ f3.n32 = f.n32 ∧ f3.stripe = f.stripe ∧ f3.nosz = f.nosz ∧
    f3.pack = f.pack ∧ f3.rle = f.rle ∧ decEntropy f3 src.length e = .ok src := by
  have hfc : (forceCat f src).order = false ∧ (forceCat f src).n32 = f.n32 ∧
      (forceCat f src).stripe = f.stripe ∧ (forceCat f src).nosz = f.nosz ∧
      (forceCat f src).pack = f.pack ∧ (forceCat f src).rle = f.rle := by
    unfold forceCat
    split <;> simp [hord]
  unfold stageEntropy at h
  split at h
  · rename_i hcat
    simp only [Except.ok.injEq, Prod.mk.injEq] at h
    obtain ⟨rfl, rfl⟩ := h
    refine ⟨hfc.1, hfc.2.1, hfc.2.2.1, hfc.2.2.2.1, hfc.2.2.2.2.1, hfc.2.2.2.2.2, ?_⟩
    have := takeN_append src []
    rw [List.append_nil] at this
    simp [decEntropy, hcat, this]
  · rename_i hcat
    rw [if_neg (by simp [hfc.1])] at h
    split at h
    · exact absurd h (by simp)
    · rename_i e' henc
      simp only [Except.ok.injEq, Prod.mk.injEq] at h
      obtain ⟨rfl, rfl⟩ := h
      refine ⟨hfc.1, hfc.2.1, hfc.2.2.1, hfc.2.2.2.1, hfc.2.2.2.2.1, hfc.2.2.2.2.2, ?_⟩
      have hlen : ¬ (src.length < stateCount f) := by
        intro hc
        apply hcat
        simp [forceCat, hc]
      have hn : 0 < stateCount (forceCat f src) := by unfold stateCount; split <;> decide
      have hne : src ≠ [] := by
        intro h0
        subst h0
        apply hlen
        unfold stateCount
        split <;> simp
      have := decodeO0_encodeO0 (stateCount (forceCat f src)) hn src e' hsym hne henc []
      rw [List.append_nil] at this
      simp only [decEntropy, hcat, Bool.false_eq_true, ↓reduceIte, hfc.1, this]

/-- Non-striped streams: for every flag byte without ORDER, what `encode` writes behind the flag
byte and the size decodes to the input under the specification decoder run with the flag byte the
encoder finally wrote. -/
theorem decodeBody_encodeBody (f f3 : Flags) (src body : List Nat) (hsym : ∀ x ∈ src, x < 256)
    (hord : f.order = false) (h : encodeBody f src = .ok (f3, body)) :
    f3.order = false ∧ f3.stripe = f.stripe ∧ f3.nosz = f.nosz ∧
    decodeBody f3 src.length body = .ok src := by
  unfold encodeBody at h
  split at h
  · exact absurd h (by simp)
  · rename_i f1 s1 m1 h1
    split at h
    · exact absurd h (by simp)
    · rename_i f2 s2 m2 h2
      split at h
      · exact absurd h (by simp)
      · rename_i f3' e h3
        simp only [Except.ok.injEq, Prod.mk.injEq] at h
        obtain ⟨rfl, rfl⟩ := h
        obtain ⟨⟨a1, a2, a3, a4⟩, a5, a6, hs1, hP⟩ := stagePack_spec f f1 src s1 m1 hsym h1
        obtain ⟨⟨b1, b2, b3, b4⟩, b5, b6, hs2, hR⟩ := stageRle_spec f1 f2 s1 s2 m2 hs1 h2
        obtain ⟨c1, c2, c3, c4, c5, c6, hE⟩ :=
          stageEntropy_spec f2 f3' s2 e hs2 (by rw [b1, a1, hord]) h3
        refine ⟨c1, by rw [c3, b3, a3], by rw [c4, b4, a4], ?_⟩
        obtain ⟨pm, hp1, hp2⟩ := hP f3' (m2 ++ e) (by rw [c5, b5])
        obtain ⟨rm, hr1, hr2⟩ := hR f3' e (by rw [c6])
        unfold decodeBody
        rw [List.append_assoc, hp1]
        simp only []
        rw [hr1]
        simp only []
        rw [hE]
        simp only []
        rw [hr2]
        simp only []
        exact hp2

open Noodles.Cram.Num Noodles.Cram.R4

/-! ## J. striped streams and the whole codec -/

/-- the sub-stream lengths are the ones the decoder computes from the total length -/
theorem parts4_length (fuel : Nat) :
    ∀ (l : List Nat), l.length ≤ fuel →
      (parts4 (chunks 4 fuel l)).map List.length
        = [l.length / 4 + (if l.length % 4 > 0 then 1 else 0),
           l.length / 4 + (if l.length % 4 > 1 then 1 else 0),
           l.length / 4 + (if l.length % 4 > 2 then 1 else 0),
           l.length / 4 + (if l.length % 4 > 3 then 1 else 0)] := by
  induction fuel with
  | zero =>
    intro l hl
    have : l = [] := List.length_eq_zero_iff.mp (by omega)
    subst this
    simp [chunks, parts4]
  | succ fuel ih =>
    intro l hl
    match l, hl with
    | [], _ => simp [chunks, parts4]
    | [a], _ => simp [chunks, chunks_nil, parts4]
    | [a, b], _ => simp [chunks, chunks_nil, parts4]
    | [a, b, c], _ => simp [chunks, chunks_nil, parts4]
    | a :: b :: c :: d :: t, hl =>
      have := ih t (by simp at hl; omega)
      simp only [parts4, List.map_cons, List.map_nil, List.cons.injEq, and_true] at this
      obtain ⟨h0, h1, h2, h3⟩ := this
      simp only [chunks, List.isEmpty_cons, Bool.false_eq_true, ↓reduceIte, parts4, List.take,
        List.drop, List.filterMap_cons, List.getElem?_cons_zero, List.getElem?_cons_succ,
        List.map_cons, List.map_nil, List.length_cons, h0, h1, h2, h3, List.cons.injEq, and_true]
      refine ⟨?_, ?_, ?_, ?_⟩ <;> (repeat' split) <;> omega

theorem transpose_length (src : List Nat) (j : Nat) (hj : j < 4) :
    (transpose 4 src j).length = src.length / 4 + (if src.length % 4 > j then 1 else 0) := by
  have h := parts4_length src.length src (Nat.le_refl _)
  simp only [parts4, List.map_cons, List.map_nil, List.cons.injEq, and_true] at h
  obtain ⟨h0, h1, h2, h3⟩ := h
  have : j = 0 ∨ j = 1 ∨ j = 2 ∨ j = 3 := by omega
  rcases this with rfl | rfl | rfl | rfl
  · exact h0
  · exact h1
  · exact h2
  · exact h3

/-- one sub-stream of a striped stream decodes to its transposed slice -/
theorem decodePart_encPart (src p : List Nat) (hsym : ∀ x ∈ src, x < 256) (j : Nat) (hj : j < 4)
    (h : encPart src j = .ok p) :
    decodePart (src.length / 4 + (if src.length % 4 > j then 1 else 0)) p = .ok (transpose 4 src j) := by
  unfold encPart at h
  split at h
  · exact absurd h (by simp)
  · rename_i f body henc
    simp only [Except.ok.injEq] at h
    subst h
    obtain ⟨_, h2, h3, h4⟩ := decodeBody_encodeBody Flags.noSize f (transpose 4 src j) body
      (transpose_sym src hsym j) rfl henc
    have hs : f.stripe = false := by rw [h2]; rfl
    have hn : f.nosz = true := by rw [h3]; rfl
    simp only [decodePart, ofByte_toByte, hs, hn, Bool.false_eq_true, ↓reduceIte]
    rw [← transpose_length src j hj]
    exact h4

/-- `rans_nx16_roundtrip`: for every flag byte without the ORDER bit and every byte string, what
noodles' encoder returns is decoded back to the input by the decoder written from the
specification (given the input length, which the container supplies under NO_SIZE). -/
theorem decode_encode (f : Flags) (src bs : List Nat) (hsym : ∀ x ∈ src, x < 256)
    (hord : f.order = false) (h : encode f src = .ok bs) : decode bs src.length = .ok src := by
  unfold encode at h
  split at h
  · exact absurd h (by simp)
  · rename_i size hsize
    have hrd' : ∀ tail : List Nat, (if f.nosz then (.ok (src.length, size ++ tail) : Except DecErr _)
        else rdU7 (size ++ tail)) = .ok (src.length, tail) := by
      intro tail
      split at hsize
      · rename_i hn
        simp only [Except.ok.injEq] at hsize
        subst hsize
        simp [hn]
      · rename_i hn
        simp only [hn, Bool.false_eq_true, ↓reduceIte]
        exact rdU7_u7 _ _ _ hsize
    split at h
    · rename_i hstripe
      split at h
      · exact absurd h (by simp)
      · rename_i s hs
        simp only [Except.ok.injEq] at h
        subst h
        unfold encodeStripe at hs
        split at hs
        · exact absurd hs (by simp)
        rename_i p0 hp0
        split at hs
        · exact absurd hs (by simp)
        rename_i p1 hp1
        split at hs
        · exact absurd hs (by simp)
        rename_i p2 hp2
        split at hs
        · exact absurd hs (by simp)
        rename_i p3 hp3
        split at hs
        · rename_i a0 a1 a2 a3 ha0 ha1 ha2 ha3
          simp only [Except.ok.injEq] at hs
          subst hs
          simp only [decode, List.cons_append, List.nil_append, List.append_assoc, ofByte_toByte,
            hrd', hstripe, ↓reduceIte, rdU8]
          have h4 : ¬ ((4 : Nat) = 0) := by decide
          rw [if_neg h4]
          simp only [readSizes, rdU7_u7 _ _ _ ha0, rdU7_u7 _ _ _ ha1, rdU7_u7 _ _ _ ha2,
            rdU7_u7 _ _ _ ha3]
          simp only [decodeParts, takeN_append]
          have e0 := decodePart_encPart src p0 hsym 0 (by decide) hp0
          have e1 := decodePart_encPart src p1 hsym 1 (by decide) hp1
          have e2 := decodePart_encPart src p2 hsym 2 (by decide) hp2
          have e3 := decodePart_encPart src p3 hsym 3 (by decide) hp3
          simp only [Nat.zero_add] at e0 e1 e2 e3 ⊢
          have t3 := takeN_append p3 []
          rw [List.append_nil] at t3
          rw [e0]
          simp only []
          rw [e1]
          simp only []
          rw [e2]
          simp only [t3]
          rw [e3]
          simp only []
          have := interleave_transpose src
          simp only [List.range, List.range.loop, List.map_cons, List.map_nil] at this
          rw [this]
        · exact absurd hs (by simp)
    · rename_i hstripe
      split at h
      · exact absurd h (by simp)
      · rename_i f' body hb
        simp only [Except.ok.injEq] at h
        subst h
        obtain ⟨_, h2, h3, h4⟩ := decodeBody_encodeBody f f' src body hsym hord hb
        simp only [decode, List.cons_append, List.nil_append, ofByte_toByte, h2, h3, hrd', hstripe,
          Bool.false_eq_true, ↓reduceIte]
        exact h4

/-- with a positive frequency for every symbol the loop runs to the end -/
theorem encLoop_ok (F C : List Nat) (n : Nat) (rev : List Nat) :
    ∀ (i : Nat) (st out : List Nat), (∀ x ∈ rev, getF F x ≠ 0) →
      ∃ st' out', encLoop F C n rev i st out = .ok (st', out') := by
  induction rev with
  | nil => intro i st out _; exact ⟨st, out, rfl⟩
  | cons x rev ih =>
    intro i st out h
    have hx : getF F x ≠ 0 := h x (by simp)
    simp only [encLoop, hx, ↓reduceIte]
    exact ih _ _ _ (fun y hy => h y (List.mem_cons_of_mem _ hy))

/-- the order-0 stage never meets a zero frequency (the endless `state_renormalize` loop) -/
theorem encodeO0_ok (n : Nat) (src : List Nat) (hsym : ∀ x ∈ src, x < 256) :
    ∃ e, encodeO0 n src = .ok e := by
  unfold encodeO0
  simp only []
  obtain ⟨st, out, h⟩ := encLoop_ok (normalizeTo 4096 (hist src)) (cumL (normalizeTo 4096 (hist src)))
    n src.reverse src.length (List.replicate n L) []
    (fun x hx => by
      have := (symOK16_of_mem src hsym x (List.mem_reverse.mp hx)).pos
      omega)
  rw [h]
  exact ⟨_, rfl⟩

end Noodles.Cram.Nx
