import Noodles.Cram.Mates
/-! Helper lemmas for `Noodles.Props.C07` (mate-link core): `resolve_mates` over a slice whose links
form pairs, and `set_mates` characterised pointwise. -/
namespace Noodles.Cram.Mates

/-! ### `resolve_mates` on one pair -/

/-- the signed template length `resolve_mates` gives the first record `a` of the pair (`a`, `b`) -/
def pairT (a b : Rec) : Int :=
  let first := setMate a b
  let last := setMate b first
  let t : Int := calcTlen last first
  if posLe first.pos last.pos then t else -t

/-- the first record of a pair after `resolve_mates` -/
def resFirst (a b : Rec) : Rec := { setMate a b with tlen := pairT a b }
/-- the second (last) record of a pair after `resolve_mates` -/
def resLast (a b : Rec) : Rec := { setMate b (setMate a b) with tlen := -pairT a b }

theorem getD_set_ne {α : Type} (l : List α) (i j : Nat) (a d : α) (h : i ≠ j) :
    (l.set i a).getD j d = l.getD j d := by
  simp [List.getD_eq_getElem?_getD, List.getElem?_set_ne h]

theorem walk1_pair (fuel : Nat) (hf : 2 ≤ fuel) (rs : List Rec) (mi : List (Option Nat)) (i j : Nat) (b : Rec)
    (hi : mi.getD i none = some j) (hj : mi.getD j none = none) (hb : rs[j]? = some b) :
    walk1 fuel rs mi i = (rs.modify i fun r => setMate r b, j) := by
  obtain ⟨f, rfl⟩ : ∃ f, fuel = f + 2 := ⟨fuel - 2, by omega⟩
  simp only [walk1, hi, hb, hj]

theorem walk2_pair (fuel : Nat) (hf : 2 ≤ fuel) (rs : List Rec) (mi : List (Option Nat)) (i j : Nat) (t : Int)
    (hij : i ≠ j) (hi : mi.getD i none = some j) (hj : mi.getD j none = none) :
    walk2 fuel rs mi i t = (rs.modify j fun r => { r with tlen := -t }, mi.set i none) := by
  obtain ⟨f, rfl⟩ : ∃ f, fuel = f + 2 := ⟨fuel - 2, by omega⟩
  simp only [walk2, hi, getD_set_ne mi i j none none hij, hj]

theorem resolveAt_pair (rs : List Rec) (mi : List (Option Nat)) (i j : Nat) (a b : Rec)
    (hij : i < j) (hi : mi.getD i none = some j) (hj : mi.getD j none = none)
    (ha : rs[i]? = some a) (hb : rs[j]? = some b) :
    resolveAt (rs, mi) i = ((rs.set i (resFirst a b)).set j (resLast a b), mi.set i none) := by
  have hjl : j < rs.length := by
    rcases Nat.lt_or_ge j rs.length with h | h
    · exact h
    · rw [List.getElem?_eq_none h] at hb; cases hb
  have hne : i ≠ j := by omega
  have h1 := walk1_pair rs.length (by omega) rs mi i j b hi hj hb
  have e1 : (rs.modify i fun r => setMate r b)[i]? = some (setMate a b) := by
    simp [ha]
  have e2 : (rs.modify i fun r => setMate r b)[j]? = some b := by
    simp [hb, hne]
  simp only [resolveAt, hi, h1, e1, e2]
  rw [walk2_pair rs.length (by omega) _ mi i j _ hne hi hj]
  refine Prod.ext ?_ rfl
  apply List.ext_getElem?
  intro k
  simp only [List.getElem?_modify, List.getElem?_set, List.length_modify, List.length_set]
  by_cases hk1 : j = k
  · subst hk1
    have : ¬ i = j := hne
    simp [this, hjl, resLast, pairT]
  · by_cases hk2 : i = k
    · subst hk2
      have hil : i < rs.length := by omega
      have hia : rs[i] = a := by
        rw [List.getElem?_eq_getElem hil] at ha; exact Option.some.inj ha
      simp [hk1, hil, hia, resFirst, pairT]
    · simp [hk1, hk2]

/-! ### `resolve_mates` over a slice whose links form disjoint pairs -/

/-- the links of a slice form pairs: a link goes forward and stays inside the slice, its target has
no link of its own, and two links never share a target -/
structure PairLinks (mi : List (Option Nat)) (n : Nat) : Prop where
  fwd : ∀ i j, mi.getD i none = some j → i < j ∧ j < n
  last : ∀ i j, mi.getD i none = some j → mi.getD j none = none
  inj : ∀ i i' j, mi.getD i none = some j → mi.getD i' none = some j → i = i'

/-- neither a processed first record nor the target of one -/
def Untouched (mi : List (Option Nat)) (k p : Nat) : Prop :=
  (∀ j, mi.getD p none = some j → k ≤ p) ∧ (∀ i, mi.getD i none = some p → k ≤ i)

structure Inv (ws : List Rec) (mi0 : List (Option Nat)) (k : Nat) (st : List Rec × List (Option Nat)) : Prop where
  len : st.1.length = ws.length
  links : ∀ p, k ≤ p → st.2.getD p none = mi0.getD p none
  same : ∀ p, Untouched mi0 k p → st.1[p]? = ws[p]?
  done : ∀ i j a b, mi0.getD i none = some j → i < k → ws[i]? = some a → ws[j]? = some b →
    st.1[i]? = some (resFirst a b) ∧ st.1[j]? = some (resLast a b)

theorem Inv.step (ws : List Rec) (mi0 : List (Option Nat)) (hp : PairLinks mi0 ws.length) (k : Nat)
    (st : List Rec × List (Option Nat)) (h : Inv ws mi0 k st) : Inv ws mi0 (k + 1) (resolveAt st k) := by
  obtain ⟨rs, mi⟩ := st
  have hk := h.links k (Nat.le_refl _)
  cases hm : mi0.getD k none with
  | none =>
    -- nothing to do at `k`
    have : resolveAt (rs, mi) k = (rs, mi) := by
      simp only [resolveAt]; simp only [] at hk; rw [hk, hm]
    rw [this]
    refine ⟨h.len, fun p hp' => h.links p (by omega), ?_, ?_⟩
    · intro p hu
      refine h.same p ⟨fun j hj => ?_, fun i hi => ?_⟩
      · have := hu.1 j hj; omega
      · have := hu.2 i hi; omega
    · intro i j a b hij hik ha hb
      have : i ≠ k := by intro e; subst e; rw [hm] at hij; cases hij
      exact h.done i j a b hij (by omega) ha hb
  | some j =>
    obtain ⟨hkj, hjn⟩ := hp.fwd k j hm
    have hjnone := hp.last k j hm
    -- both records of the pair are still as written
    have hku : Untouched mi0 k k := ⟨fun _ _ => Nat.le_refl _, fun i hi => (by
      have := hp.last i k hi; rw [hm] at this; cases this)⟩
    have hju : Untouched mi0 k j := ⟨fun j' hj' => (by rw [hjnone] at hj'; cases hj'), fun i hi => (by
      have := hp.inj i k j hi hm; omega)⟩
    have hkn : k < ws.length := by omega
    obtain ⟨a, ha⟩ : ∃ a, ws[k]? = some a := ⟨ws[k], List.getElem?_eq_getElem hkn⟩
    obtain ⟨b, hb⟩ : ∃ b, ws[j]? = some b := ⟨ws[j], List.getElem?_eq_getElem hjn⟩
    have ha' : rs[k]? = some a := by rw [← ha]; exact h.same k hku
    have hb' : rs[j]? = some b := by rw [← hb]; exact h.same j hju
    have hmk : mi.getD k none = some j := by simp only [] at hk; rw [hk, hm]
    have hmj : mi.getD j none = none := by
      have := h.links j (by omega); simp only [] at this; rw [this, hjnone]
    rw [resolveAt_pair rs mi k j a b hkj hmk hmj ha' hb']
    refine ⟨by simpa using h.len, ?_, ?_, ?_⟩
    · intro p hp'
      have : k ≠ p := by omega
      simp only []
      rw [getD_set_ne mi k p none none this]
      exact h.links p (by omega)
    · intro p hu
      have hpk : k ≠ p := by
        intro e; subst e; have := hu.1 j hm; omega
      have hpj : j ≠ p := by
        intro e; subst e; have := hu.2 k hm; omega
      simp only []
      rw [List.getElem?_set_ne hpj, List.getElem?_set_ne hpk]
      refine h.same p ⟨fun j' hj' => ?_, fun i hi => ?_⟩
      · have := hu.1 j' hj'; omega
      · have := hu.2 i hi; omega
    · intro i j' a' b' hij hik ha2 hb2
      by_cases hik' : i = k
      · subst hik'
        rw [hm] at hij; cases hij
        rw [ha] at ha2; cases ha2
        rw [hb] at hb2; cases hb2
        have hil : i < rs.length := by rw [h.len]; exact hkn
        have hjl : j < rs.length := by rw [h.len]; exact hjn
        simp only []
        refine ⟨?_, ?_⟩
        · rw [List.getElem?_set_ne (by omega), List.getElem?_set]; simp [hil]
        · rw [List.getElem?_set]; simp [hjl]
      · have hlt : i < k := by omega
        obtain ⟨d1, d2⟩ := h.done i j' a' b' hij hlt ha2 hb2
        have n1 : k ≠ i := fun e => hik' e.symm
        have n2 : j ≠ i := by
          intro e; subst e; rw [hjnone] at hij; cases hij
        have n3 : k ≠ j' := by
          intro e; subst e; have := hp.last i k hij; rw [hm] at this; cases this
        have n4 : j ≠ j' := by
          intro e; subst e; exact hik' (hp.inj i k j hij hm)
        simp only []
        refine ⟨?_, ?_⟩
        · rw [List.getElem?_set_ne n2, List.getElem?_set_ne n1]; exact d1
        · rw [List.getElem?_set_ne n4, List.getElem?_set_ne n3]; exact d2

theorem Inv.fold (ws : List Rec) (mi0 : List (Option Nat)) (hp : PairLinks mi0 ws.length) :
    ∀ k, Inv ws mi0 k ((List.range k).foldl resolveAt (ws, mi0)) := by
  intro k
  induction k with
  | zero =>
    refine ⟨rfl, fun _ _ => rfl, fun _ _ => rfl, ?_⟩
    intro i j a b _ h; omega
  | succ k ih =>
    rw [List.range_succ, List.foldl_append]
    exact Inv.step ws mi0 hp k _ ih

/-- **`resolve_mates` on pairs**: every linked pair is resolved from the two records as written, every
other record is returned unchanged -/
theorem resolveMates_pairs (ws : List Rec) (hp : PairLinks (mateIndices ws) ws.length) :
    (∀ i j a b, (mateIndices ws).getD i none = some j → ws[i]? = some a → ws[j]? = some b →
      (resolveMates ws)[i]? = some (resFirst a b) ∧ (resolveMates ws)[j]? = some (resLast a b)) ∧
    (∀ p, (mateIndices ws).getD p none = none → (∀ i, (mateIndices ws).getD i none ≠ some p) →
      (resolveMates ws)[p]? = ws[p]?) := by
  have h := Inv.fold ws (mateIndices ws) hp ws.length
  refine ⟨?_, ?_⟩
  · intro i j a b hij ha hb
    exact h.done i j a b hij (by have := hp.fwd i j hij; omega) ha hb
  · intro p h1 h2
    exact h.same p ⟨fun j hj => (by rw [h1] at hj; cases hj), fun i hi => absurd hi (h2 i)⟩

/-! ### `set_mates`, characterised without the hash map -/

/-- relative index of the first attachable record named `nm` -/
def nextAtt (nm : Option Nat) : List Rec → Option Nat
  | [] => none
  | r :: rest => if attachable r && r.name == nm then some 0 else (nextAtt nm rest).map (· + 1)

/-- `set_mates` as a right-to-left pass without indices -/
def setSpec : List Rec → List Rec
  | [] => []
  | r :: rest =>
    if attachable r then
      match nextAtt r.name rest with
      | some d =>
        { r with mateDist := some d, downstream := true }
          :: (setSpec rest).modify d fun mate => { mate with detached := false }
      | none => { r with detached := true } :: setSpec rest
    else { r with detached := true } :: setSpec rest

theorem nextAtt_cons (nm : Option Nat) (r : Rec) (rest : List Rec) :
    nextAtt nm (r :: rest) = if attachable r && r.name == nm then some 0 else (nextAtt nm rest).map (· + 1) := rfl

theorem lookup_cons (m : Indices) (k : Option Nat) (v : Nat) (nm : Option Nat) :
    lookup ((k, v) :: m) nm = if k == nm then some v else lookup m nm := by
  unfold lookup
  simp only [List.find?_cons]
  by_cases h : (k == nm) = true
  · simp [h]
  · simp [h]

theorem setGo_spec : ∀ (l : List Rec) (i : Nat),
    (setGo i l).1 = setSpec l ∧ ∀ nm, lookup (setGo i l).2 nm = (nextAtt nm l).map (· + i) := by
  intro l
  induction l with
  | nil => intro i; exact ⟨rfl, fun nm => rfl⟩
  | cons r rest ih =>
    intro i
    obtain ⟨ih1, ih2⟩ := ih (i + 1)
    unfold setGo setSpec
    simp only []
    by_cases ha : attachable r = true
    · simp only [ha, if_true]
      rw [ih2 r.name]
      cases hn : nextAtt r.name rest with
      | none =>
        simp only [Option.map_none]
        refine ⟨by rw [ih1], fun nm => ?_⟩
        rw [lookup_cons, ih2 nm]
        rw [nextAtt_cons]
        simp only [ha, Bool.true_and]
        by_cases hnm : (r.name == nm) = true
        · simp [hnm]
        · simp only [hnm, Bool.false_eq_true, if_false, Option.map_map]
          congr 1; funext x; simp; omega
      | some d =>
        simp only [Option.map_some]
        have e1 : d + (i + 1) - i - 1 = d := by omega
        have e2 : d + (i + 1) - (i + 1) = d := by omega
        refine ⟨by rw [e1, e2, ih1], fun nm => ?_⟩
        rw [lookup_cons, ih2 nm]
        rw [nextAtt_cons]
        simp only [ha, Bool.true_and]
        by_cases hnm : (r.name == nm) = true
        · simp [hnm]
        · simp only [hnm, Bool.false_eq_true, if_false, Option.map_map]
          congr 1; funext x; simp; omega
    · simp only [ha, Bool.false_eq_true, if_false]
      refine ⟨by rw [ih1], fun nm => ?_⟩
      rw [ih2 nm]
      rw [nextAtt_cons]
      simp only [ha, Bool.false_and, Bool.false_eq_true, if_false, Option.map_map]
      congr 1; funext x; simp; omega

theorem setMates_eq_setSpec (rs : List Rec) : setMates rs = setSpec rs := (setGo_spec rs 0).1

/-! ### pointwise description of `set_mates` -/

/-- the link `set_mates` gives the record at `p`: the distance to the next attachable record of the
same name -/
def md (l : List Rec) (p : Nat) : Option Nat :=
  match l[p]? with
  | some r => if attachable r then nextAtt r.name (l.drop (p + 1)) else none
  | none => none

/-- some earlier record links to `p` -/
def hasPred (l : List Rec) (p : Nat) : Prop := ∃ p' d, p' + d + 1 = p ∧ md l p' = some d

/-- CRAM-side fields as `Record::try_from_alignment_record` leaves them -/
def Fresh (l : List Rec) : Prop := ∀ r ∈ l, r.detached = false ∧ r.downstream = false ∧ r.mateDist = none

theorem md_zero (r : Rec) (rest : List Rec) :
    md (r :: rest) 0 = if attachable r then nextAtt r.name rest else none := by
  simp [md]

theorem md_succ (r : Rec) (rest : List Rec) (p : Nat) : md (r :: rest) (p + 1) = md rest p := by
  simp [md]

theorem hasPred_zero (l : List Rec) : ¬ hasPred l 0 := by
  rintro ⟨p', d, h, _⟩; omega

theorem hasPred_succ (r : Rec) (rest : List Rec) (p : Nat) :
    hasPred (r :: rest) (p + 1) ↔ md (r :: rest) 0 = some p ∨ hasPred rest p := by
  constructor
  · rintro ⟨p', d, h, hm⟩
    cases p' with
    | zero => left; have : d = p := by omega
              subst this; exact hm
    | succ q => right; rw [md_succ] at hm; exact ⟨q, d, by omega, hm⟩
  · rintro (h | ⟨q, d, h, hm⟩)
    · exact ⟨0, p, by omega, h⟩
    · exact ⟨q + 1, d, by omega, by rw [md_succ]; exact hm⟩

theorem setSpec_length : ∀ l : List Rec, (setSpec l).length = l.length := by
  intro l
  induction l with
  | nil => rfl
  | cons r rest ih =>
    unfold setSpec
    split
    · split <;> simp [ih]
    · simp [ih]

/-- what `set_mates` leaves at position `p` -/
theorem setSpec_get : ∀ (l : List Rec), Fresh l → ∀ p r, l[p]? = some r →
    ∃ dt, (setSpec l)[p]? = some { r with mateDist := md l p, downstream := (md l p).isSome, detached := dt } ∧
      (dt = false ↔ ((md l p).isSome = true ∨ hasPred l p)) := by
  intro l
  induction l with
  | nil => intro _ p r h; simp at h
  | cons x rest ih =>
    intro hf p r hp
    have hfx := hf x (by simp)
    have hfr : Fresh rest := fun y hy => hf y (by simp [hy])
    cases p with
    | zero =>
      simp only [List.getElem?_cons_zero, Option.some.injEq] at hp
      subst hp
      rw [md_zero]
      unfold setSpec
      by_cases ha : attachable x = true
      · simp only [ha, if_true]
        cases hn : nextAtt x.name rest with
        | none =>
          refine ⟨true, by simp [hfx.2.1, hfx.2.2], ?_⟩
          simp [hasPred_zero]
        | some d =>
          refine ⟨false, by simp [hfx.1], ?_⟩
          simp
      · simp only [ha, Bool.false_eq_true, if_false]
        refine ⟨true, by simp [hfx.2.1, hfx.2.2], ?_⟩
        simp [hasPred_zero]
    | succ q =>
      simp only [List.getElem?_cons_succ] at hp
      obtain ⟨dt, h1, h2⟩ := ih hfr q r hp
      rw [md_succ, hasPred_succ, md_zero]
      unfold setSpec
      by_cases ha : attachable x = true
      · simp only [ha, if_true]
        cases hn : nextAtt x.name rest with
        | none =>
          refine ⟨dt, by simpa using h1, ?_⟩
          simp [h2]
        | some d =>
          simp only [List.getElem?_cons_succ, List.getElem?_modify, h1]
          by_cases hdq : d = q
          · subst hdq
            refine ⟨false, by simp, ?_⟩
            simp
          · refine ⟨dt, by simp [hdq], ?_⟩
            rw [h2]
            constructor
            · intro h; rcases h with h | h
              · left; exact h
              · right; right; exact h
            · intro h; rcases h with h | h | h
              · left; exact h
              · exfalso; simp at h; exact hdq h
              · right; exact h
      · simp only [ha, Bool.false_eq_true, if_false]
        refine ⟨dt, by simpa using h1, ?_⟩
        simp [h2]

/-! ### links of a slice in which every template has at most two attachable records -/

theorem nextAtt_some (nm : Option Nat) : ∀ (l : List Rec) (d : Nat), nextAtt nm l = some d →
    ∃ r, l[d]? = some r ∧ attachable r = true ∧ r.name = nm := by
  intro l
  induction l with
  | nil => intro d h; simp [nextAtt] at h
  | cons x rest ih =>
    intro d h
    rw [nextAtt_cons] at h
    by_cases hx : (attachable x && x.name == nm) = true
    · simp only [hx, if_true, Option.some.injEq] at h
      subst h
      simp only [Bool.and_eq_true, beq_iff_eq] at hx
      exact ⟨x, rfl, hx.1, hx.2⟩
    · simp only [hx, Bool.false_eq_true, if_false] at h
      cases hn : nextAtt nm rest with
      | none => rw [hn] at h; simp at h
      | some d' =>
        rw [hn] at h; simp at h; subst h
        obtain ⟨r, h1, h2, h3⟩ := ih d' hn
        exact ⟨r, by simpa using h1, h2, h3⟩

/-- a link at `p`: `p` is attachable and so is its target, under the same name -/
theorem md_some (l : List Rec) (p d : Nat) (h : md l p = some d) :
    ∃ a b, l[p]? = some a ∧ l[p + d + 1]? = some b ∧ attachable a = true ∧ attachable b = true ∧ b.name = a.name := by
  unfold md at h
  cases ha : l[p]? with
  | none => rw [ha] at h; simp at h
  | some a =>
    rw [ha] at h
    simp only [] at h
    by_cases hat : attachable a = true
    · simp only [hat, if_true] at h
      obtain ⟨b, h1, h2, h3⟩ := nextAtt_some a.name _ d h
      rw [List.getElem?_drop] at h1
      have e : p + 1 + d = p + d + 1 := by omega
      rw [e] at h1
      exact ⟨a, b, rfl, h1, hat, h2, h3⟩
    · simp [hat] at h

/-- at most two attachable records share a name -/
def PairsOnly (l : List Rec) : Prop :=
  ∀ (i j k : Nat) (a b c : Rec), i < j → j < k → l[i]? = some a → l[j]? = some b → l[k]? = some c →
    attachable a = true → attachable b = true → attachable c = true → a.name = b.name → b.name = c.name → False

/-- the records as they come out of the file -/
def written (rs : List Rec) : List Rec := (setMates rs).map wire

theorem written_get (rs : List Rec) (hf : Fresh rs) (p : Nat) (r : Rec) (hp : rs[p]? = some r) :
    ∃ dt, (written rs)[p]? = some (wire { r with mateDist := md rs p, downstream := (md rs p).isSome, detached := dt }) ∧
      (dt = false ↔ ((md rs p).isSome = true ∨ hasPred rs p)) := by
  obtain ⟨dt, h1, h2⟩ := setSpec_get rs hf p r hp
  refine ⟨dt, ?_, h2⟩
  simp [written, setMates_eq_setSpec, h1]

theorem written_length (rs : List Rec) : (written rs).length = rs.length := by
  simp [written, setMates_eq_setSpec, setSpec_length]

/-- the link survives the file: `mate_distance` is written and read back exactly for linked records -/
theorem wire_mateDist (r : Rec) (m : Option Nat) (dt : Bool) (h : dt = false ↔ (m.isSome = true ∨ q)) :
    (wire { r with mateDist := m, downstream := m.isSome, detached := dt }).mateDist = m := by
  unfold wire
  cases dt with
  | true =>
    cases hm : m with
    | none => simp
    | some d => exfalso; have := h.mpr (Or.inl (by simp [hm])); cases this
  | false =>
    cases hm : m <;> simp

theorem mi_written (rs : List Rec) (hf : Fresh rs) (p : Nat) :
    (mateIndices (written rs)).getD p none = (md rs p).map fun d => p + d + 1 := by
  unfold mateIndices
  rw [List.getD_eq_getElem?_getD, List.getElem?_zipWith]
  cases hp : rs[p]? with
  | none =>
    have hlen : (written rs).length ≤ p := by
      rw [written_length]; rcases Nat.lt_or_ge p rs.length with h | h
      · rw [List.getElem?_eq_getElem h] at hp; cases hp
      · exact h
    have : (written rs)[p]? = none := List.getElem?_eq_none hlen
    have hm : md rs p = none := by simp [md, hp]
    simp [this, hm]
  | some r =>
    obtain ⟨dt, h1, h2⟩ := written_get rs hf p r hp
    have hlt : p < (written rs).length := by
      rcases Nat.lt_or_ge p (written rs).length with h | h
      · exact h
      · rw [List.getElem?_eq_none h] at h1; cases h1
    rw [List.getElem?_range hlt, h1]
    simp only [Option.getD_some]
    rw [wire_mateDist r (md rs p) dt h2]

theorem pairLinks_written (rs : List Rec) (hf : Fresh rs) (hp : PairsOnly rs) :
    PairLinks (mateIndices (written rs)) (written rs).length := by
  rw [written_length]
  refine ⟨?_, ?_, ?_⟩
  · intro i j h
    rw [mi_written rs hf] at h
    cases hm : md rs i with
    | none => rw [hm] at h; simp at h
    | some d =>
      rw [hm] at h; simp at h; subst h
      obtain ⟨a, b, _, hb, _⟩ := md_some rs i d hm
      refine ⟨by omega, ?_⟩
      rcases Nat.lt_or_ge (i + d + 1) rs.length with h | h
      · exact h
      · rw [List.getElem?_eq_none h] at hb; cases hb
  · intro i j h
    rw [mi_written rs hf] at h ⊢
    cases hm : md rs i with
    | none => rw [hm] at h; simp at h
    | some d =>
      rw [hm] at h; simp at h; subst h
      cases hm2 : md rs (i + d + 1) with
      | none => rfl
      | some d2 =>
        exfalso
        obtain ⟨a, b, ha, hb, haa, hab, hn⟩ := md_some rs i d hm
        obtain ⟨b', c, hb', hc, _, hac, hn2⟩ := md_some rs (i + d + 1) d2 hm2
        rw [hb] at hb'; cases hb'
        exact hp i (i + d + 1) (i + d + 1 + d2 + 1) a b c (by omega) (by omega) ha hb hc haa hab hac hn.symm hn2.symm
  · intro i i' j h h'
    rw [mi_written rs hf] at h h'
    cases hm : md rs i with
    | none => rw [hm] at h; simp at h
    | some d =>
      cases hm' : md rs i' with
      | none => rw [hm'] at h'; simp at h'
      | some d' =>
        rw [hm] at h; rw [hm'] at h'; simp at h h'
        obtain ⟨a, b, ha, hb, haa, hab, hn⟩ := md_some rs i d hm
        obtain ⟨a', b', ha', hb', haa', hab', hn'⟩ := md_some rs i' d' hm'
        rw [h] at hb; rw [h'] at hb'; rw [hb] at hb'; cases hb'
        rcases Nat.lt_trichotomy i i' with hlt | heq | hgt
        · exfalso
          exact hp i i' j a a' b hlt (by omega) ha ha' hb haa haa' hab (hn.symm.trans hn') hn'.symm
        · exact heq
        · exfalso
          exact hp i' i j a' a b hgt (by omega) ha' ha hb haa' haa hab (hn'.symm.trans hn) hn.symm

/-! ### fields of a resolved pair -/

/-- SAM §1.4.9 TLEN of `a`, the earlier record of a pair in the file, with mate `b`: 0 across references;
otherwise rightmost end − leftmost start + 1 (an end is `start + span − 1`), positive when `a` is the
leftmost (ties: the earlier record) -/
def samTlen (a b : Rec) : Int :=
  if a.rid ≠ b.rid then 0 else
  match a.pos, b.pos with
  | some sa, some sb =>
    let len : Int := ((max (sa + a.span) (sb + b.span) : Nat) : Int) - ((min sa sb : Nat) : Int)
    if sa ≤ sb then len else -len
  | _, _ => 0

theorem pairT_eq (A B a b : Rec) (hA : A.rid = a.rid ∧ A.pos = a.pos ∧ A.span = a.span)
    (hB : B.rid = b.rid ∧ B.pos = b.pos ∧ B.span = b.span) (ha : 1 ≤ a.span) (hb : 1 ≤ b.span) :
    pairT A B = samTlen a b := by
  obtain ⟨a1, a2, a3⟩ := hA
  obtain ⟨b1, b2, b3⟩ := hB
  simp only [pairT, setMate, calcTlen, alnEnd, samTlen, a1, a2, a3, b1, b2, b3]
  by_cases hr : a.rid = b.rid
  · have hr' : ¬ b.rid ≠ a.rid := by simp [hr]
    have hr'' : ¬ a.rid ≠ b.rid := by simp [hr]
    simp only [hr', hr'', if_false]
    cases hpa : a.pos with
    | none => cases hpb : b.pos <;> simp [posLe]
    | some sa =>
      cases hpb : b.pos with
      | none => simp [posLe]
      | some sb =>
        simp only [posLe, decide_eq_true_eq]
        by_cases hle : sa ≤ sb
        · simp only [hle, if_true]
          split <;> omega
        · simp only [hle, if_false]
          split <;> omega
  · have hr' : b.rid ≠ a.rid := fun e => hr e.symm
    simp [hr, hr']

theorem wire_flags (r : Rec) : (wire r).flags = r.flags := by unfold wire; split <;> rfl
theorem wire_rid (r : Rec) : (wire r).rid = r.rid := by unfold wire; split <;> rfl
theorem wire_pos (r : Rec) : (wire r).pos = r.pos := by unfold wire; split <;> rfl
theorem wire_span (r : Rec) : (wire r).span = r.span := by unfold wire; split <;> rfl
theorem wire_name (r : Rec) : (wire r).name = r.name := by unfold wire; split <;> rfl
theorem setMate_rid (a b : Rec) : (setMate a b).rid = a.rid := rfl
theorem setMate_pos (a b : Rec) : (setMate a b).pos = a.pos := rfl
theorem setMate_span (a b : Rec) : (setMate a b).span = a.span := rfl
theorem setMate_name (a b : Rec) : (setMate a b).name = a.name := rfl
theorem setMate_mrid (a b : Rec) : (setMate a b).mrid = b.rid := rfl
theorem setMate_mpos (a b : Rec) : (setMate a b).mpos = b.pos := rfl

/-- the record at `p` as it comes out of the file, abstractly -/
theorem written_get' (rs : List Rec) (hf : Fresh rs) (p : Nat) (r : Rec) (hp : rs[p]? = some r) :
    ∃ w, (written rs)[p]? = some w ∧ w.flags = r.flags ∧ w.rid = r.rid ∧ w.pos = r.pos ∧ w.span = r.span ∧
      w.name = r.name ∧
      (((md rs p).isSome = true ∨ hasPred rs p) ∨ (w.mrid = r.mrid ∧ w.mpos = r.mpos ∧ w.tlen = r.tlen)) := by
  obtain ⟨dt, h1, h2⟩ := written_get rs hf p r hp
  refine ⟨_, h1, wire_flags _, wire_rid _, wire_pos _, wire_span _, wire_name _, ?_⟩
  cases dt with
  | false => left; exact h2.mp rfl
  | true => right; simp [wire]

theorem setBit_of_bit (f k : Nat) (h : bit f k = true) : setBit f k = f := by simp [setBit, h]

theorem attachable_mapped (r : Rec) (h : attachable r = true) : isUnmapped r.flags = false := by
  simp only [attachable, Bool.and_eq_true, Bool.not_eq_true'] at h
  exact h.1.1.2

theorem setMate_flags (a b : Rec) (hrev : isReverse b.flags = true → isMateReverse a.flags = true)
    (hun : isUnmapped b.flags = false) : (setMate a b).flags = a.flags := by
  simp only [setMate, hun, Bool.false_eq_true, if_false]
  by_cases h : isReverse b.flags = true
  · simp only [h, if_true]
    exact setBit_of_bit _ _ (hrev h)
  · simp [h]

end Noodles.Cram.Mates
