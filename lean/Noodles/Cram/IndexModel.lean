/-!
# CRAM container layout, the CRAI indexer and the index-driven region query (model for C19)

Transcribed from `noodles-cram`:

* `io/writer.rs` (`add_record`/`flush`: a container is flushed when
  `records_per_slice * slices_per_container` records are buffered),
  `io/writer/container.rs` (`build_container`: `records.chunks_mut(records_per_slice)`, the
  landmarks, `get_container_reference_sequence_context`),
  `io/writer/container/slice.rs` (`get_reference_sequence_context`) and
  `container/reference_sequence_context.rs` (`ReferenceSequenceContext::update`);
* `fs/index.rs` (`index`, `push_index_records`, the single- and multi-reference paths);
* `io/reader.rs` (`Reader::query`) and `io/reader/query.rs` (`Query::read_next_container`,
  `intersects`).

The model describes the code **with the two repairs of F10 and F15** (DESIGN.md §5):

* F15 — the multi-reference path of the indexer decodes the records of the slice without asking
  a reference repository (the unrepaired code panics there, `slice.rs: expect("invalid reference
  sequence name")`); the values it computes from the records are the ones below.
* F10 — `read_next_container` serves, for one index entry, only the slice at the entry's
  landmark (the unrepaired code serves every slice of the container once per index entry, so
  records are repeated), and `intersects` also compares the record's reference sequence id (the
  unrepaired code does not, so a multi-reference slice yields records of other references).

A record is what indexing and querying look at: read-name serial `id`, reference sequence id
(`none` = unmapped and unplaced), 1-based inclusive alignment span `[s, e]` (meaningful when `ref`
is `some`). A file is its list of data containers; byte lengths are parameters (they come from the
real file through the harness's independent container walker).
-/
namespace Noodles.Cram.Index

structure Rec where
  id : Nat
  ref : Option Nat
  s : Nat
  e : Nat
deriving DecidableEq, Repr

/-- `container::ReferenceSequenceContext` (`Some(id, start, end)`, `None`, `Many`) -/
inductive Ctx where
  | some (ref s e : Nat)
  | none
  | many
deriving DecidableEq, Repr

/-- `ReferenceSequenceContext::update` with the record's `(reference_sequence_id, alignment_start,
alignment_end)`; a record with a reference id always has both positions here. -/
def Ctx.update (c : Ctx) (r : Rec) : Ctx :=
  match c, r.ref with
  | .some k a b, Option.some k' => if k' = k then .some k (min r.s a) (max r.e b) else .many
  | .some _ _ _, Option.none => .many
  | .none, Option.some _ => .many
  | .none, Option.none => .none
  | .many, _ => .many

/-- the context of the first record of a slice -/
def Ctx.first (r : Rec) : Ctx :=
  match r.ref with
  | Option.some k => .some k r.s r.e
  | Option.none => .none

/-- `get_reference_sequence_context` (writer, per slice) -/
def sliceCtx : List Rec → Ctx
  | [] => .none
  | r :: rs => rs.foldl Ctx.update (Ctx.first r)

/-- merge step of `get_container_reference_sequence_context`; `none` = the writer's
`InvalidInput` ("invalid slice reference sequence context") -/
def mergeCtx (acc x : Ctx) : Option Ctx :=
  match acc, x with
  | .some k a b, .some k' a' b' => if k = k' then Option.some (.some k (min a a') (max b b')) else Option.none
  | .none, .none => Option.some .none
  | .many, .many => Option.some .many
  | _, _ => Option.none

def mergeAll (acc : Ctx) : List Ctx → Option Ctx
  | [] => Option.some acc
  | x :: xs => match mergeCtx acc x with
    | Option.some acc' => mergeAll acc' xs
    | Option.none => Option.none

/-- `get_container_reference_sequence_context` -/
def containerCtx : List Ctx → Option Ctx
  | [] => Option.some .none
  | c :: cs => mergeAll c cs

/-- `slice::chunks(n)` (fuel = length of the list) -/
def chunksAux {α : Type} (n : Nat) : Nat → List α → List (List α)
  | 0, _ => []
  | fuel + 1, l => if l.isEmpty then [] else l.take n :: chunksAux n fuel (l.drop n)

def chunks {α : Type} (n : Nat) (l : List α) : List (List α) := chunksAux n l.length l

/-- the writer's layout of a record stream: containers of `rps * spc` records
(`Writer::add_record` flushes when the buffer is full, `try_finish` flushes the rest), each cut
into slices of `rps` records (`build_container`) -/
def layoutOf (rps spc : Nat) (recs : List Rec) : List (List (List Rec)) :=
  (chunks (rps * spc) recs).map (chunks rps)

/-! ## byte layout -/

structure SliceL where
  /-- bytes of the slice header block and the slice's data blocks -/
  size : Nat
  recs : List Rec
deriving Repr

structure ContainerL where
  /-- bytes of the container header -/
  hdrLen : Nat
  /-- bytes of the compression header block -/
  chLen : Nat
  slices : List SliceL
deriving Repr

structure FileL where
  /-- offset of the first data container (after the file definition and the header container) -/
  start : Nat
  cs : List ContainerL
deriving Repr

def sizes (ss : List SliceL) : Nat := (ss.map (·.size)).sum

/-- `build_container`: `landmarks = [container_size after the compression header]`, then the running
`container_size` before every further slice -/
def landmarksFrom (pos : Nat) : List SliceL → List Nat
  | [] => []
  | s :: ss => pos :: landmarksFrom (pos + s.size) ss

def ContainerL.landmarks (c : ContainerL) : List Nat := landmarksFrom c.chLen c.slices

/-- the container length written to its header (`container_size`) -/
def ContainerL.bodyLen (c : ContainerL) : Nat := c.chLen + sizes c.slices

def lenSum (cs : List ContainerL) : Nat := (cs.map fun c => c.hdrLen + c.bodyLen).sum

/-- the TRUE byte offset of the `i`-th data container -/
def FileL.containerOffset (f : FileL) (i : Nat) : Nat := f.start + lenSum (f.cs.take i)

/-- the TRUE landmark of the `j`-th slice: offset of its header block from the end of the container header -/
def ContainerL.sliceLandmark (c : ContainerL) (j : Nat) : Nat := c.chLen + sizes (c.slices.take j)

/-- all records of the file in file order (what `Reader::records` delivers) -/
def ContainerL.recs (c : ContainerL) : List Rec := c.slices.flatMap (·.recs)
def FileL.recs (f : FileL) : List Rec := f.cs.flatMap (·.recs)

/-! ## `cram::fs::index` -/

/-- `crai::Record`; `ref = none` is written `-1`, and then `start = 0` (absent), `span = 0` -/
structure Entry where
  ref : Option Nat
  start : Nat
  span : Nat
  offset : Nat
  landmark : Nat
  size : Nat
deriving DecidableEq, Repr

/-- `(min alignment_start, max alignment_end)` over a list of placed records
(the `cmp::min` / `cmp::max` folds of `push_index_records_for_multi_reference_slice`) -/
def spanOf : List Rec → Option (Nat × Nat)
  | [] => Option.none
  | r :: rs => Option.some (rs.foldl (fun acc x => (min acc.1 x.s, max acc.2 x.e)) (r.s, r.e))

def refBound (recs : List Rec) : Nat :=
  (recs.map fun r => match r.ref with | Option.some k => k + 1 | Option.none => 0).foldl max 0

/-- the keys of the `HashMap<Option<usize>, _>` after `sort_unstable`: distinct, ascending,
`None` first -/
def refKeys (recs : List Rec) : List (Option Nat) :=
  (if recs.any (fun r => r.ref.isNone) then [Option.none] else []) ++
  ((List.range (refBound recs)).filter fun k => recs.any fun r => decide (r.ref = Option.some k)).map Option.some

/-- the entry of one key of the multi-reference path -/
def keyEntry (off lm len : Nat) (recs : List Rec) : Option Nat → Entry
  | Option.none => ⟨Option.none, 0, 0, off, lm, len⟩
  | Option.some k =>
    match spanOf (recs.filter fun r => decide (r.ref = Option.some k)) with
    | Option.some (a, b) => ⟨Option.some k, a, b - a + 1, off, lm, len⟩
    | Option.none => ⟨Option.some k, 0, 0, off, lm, len⟩   -- `todo!()` in the code; unreachable

/-- `push_index_records` for one slice at `(offset, landmark)` with computed `slice_length` -/
def sliceEntries (off lm len : Nat) (recs : List Rec) : List Entry :=
  match sliceCtx recs with
  | .many => (refKeys recs).map (keyEntry off lm len recs)
  | .some k a b => [⟨Option.some k, a, b - a + 1, off, lm, len⟩]
  | .none => [⟨Option.none, 0, 0, off, lm, len⟩]

/-- the `for (i, result) in container.slices().enumerate()` loop of `index`; the first argument
holds `landmarks[i..]`: `slice_length = landmarks[i+1] - landmarks[i]`, or
`container_len - landmarks[i]` for the last slice -/
def containerEntries (off clen : Nat) : List Nat → List SliceL → List Entry
  | lm :: lms, s :: ss =>
    let len := match lms with
      | lm' :: _ => lm' - lm
      | [] => clen - lm
    sliceEntries off lm len s.recs ++ containerEntries off clen lms ss
  | _, _ => []

/-- the `loop` of `index`: `container_position` is `reader.position()` before each container -/
def craiGo (pos : Nat) : List ContainerL → List Entry
  | [] => []
  | c :: cs => containerEntries pos c.bodyLen c.landmarks c.slices ++ craiGo (pos + c.hdrLen + c.bodyLen) cs

/-- `cram::fs::index` -/
def craiOf (f : FileL) : List Entry := craiGo f.start f.cs

/-! ## `Reader::query` -/

/-- `reader.seek(SeekFrom::Start(offset))` + `read_container`: the container that starts at `off`
(`none`: no container starts there — the real reader then decodes garbage or stops) -/
def containerAt (pos : Nat) : List ContainerL → Nat → Option ContainerL
  | [], _ => Option.none
  | c :: cs, off => if off = pos then Option.some c else containerAt (pos + c.hdrLen + c.bodyLen) cs off

/-- `Interval::intersects` with the record's `[alignment_start, alignment_end]` -/
def intersects (r : Rec) (qs qe : Nat) : Bool := decide (qs ≤ r.e ∧ r.s ≤ qe)

/-- `intersects` of `query.rs` as repaired: right reference and overlapping span -/
def keep (k qs qe : Nat) (r : Rec) : Bool := decide (r.ref = Option.some k) && intersects r qs qe

/-- the records decoded for one index entry (as repaired: only the slice at the entry's landmark) -/
def sliceAt (c : ContainerL) (lm : Nat) : List Rec :=
  ((c.slices.zip c.landmarks).filter fun p => decide (p.2 = lm)).flatMap fun p => p.1.recs

/-- `Query::read_next_container` + the filter of `read_record_buf` for one index entry -/
def serve (look : Nat → Option ContainerL) (k qs qe : Nat) (en : Entry) : Option (List Rec) :=
  if en.ref = Option.some k then
    match look en.offset with
    | Option.none => Option.none
    | Option.some c => Option.some ((sliceAt c en.landmark).filter (keep k qs qe))
  else Option.some []

def queryGo (look : Nat → Option ContainerL) (k qs qe : Nat) : List Entry → Option (List Rec)
  | [] => Option.some []
  | en :: rest =>
    match serve look k qs qe en with
    | Option.none => Option.none
    | Option.some rs =>
      match queryGo look k qs qe rest with
      | Option.none => Option.none
      | Option.some more => Option.some (rs ++ more)

/-- `Reader::query(header, index, region).records()` for reference `k` and interval `[qs, qe]`
(`none`: an index entry names an offset where no container starts) -/
def cramQuery (f : FileL) (idx : List Entry) (k qs qe : Nat) : Option (List Rec) :=
  queryGo (containerAt f.start f.cs) k qs qe idx

/-- `Reader::query` as the code stood BEFORE the F10 repair: every slice of the container is
served for every index entry of the reference, and only the interval is compared. Kept for the
negation witness in `Props/C19.lean`; nothing else uses it. -/
def cramQueryUnrepaired (f : FileL) (idx : List Entry) (k qs qe : Nat) : Option (List Rec) :=
  let serve0 (en : Entry) : Option (List Rec) :=
    if en.ref = Option.some k then
      match containerAt f.start f.cs en.offset with
      | Option.none => Option.none
      | Option.some c => Option.some (c.recs.filter fun r => intersects r qs qe)
    else Option.some []
  idx.foldr (fun en acc => match serve0 en, acc with
    | Option.some rs, Option.some more => Option.some (rs ++ more)
    | _, _ => Option.none) (Option.some [])

/-- the full scan: records on reference `k` that intersect `[qs, qe]`, in file order -/
def scan (f : FileL) (k qs qe : Nat) : List Rec := f.recs.filter (keep k qs qe)

/-! ## what the index must say about a slice -/

/-- the entry's span is exactly the span covered by the slice's records on the entry's reference -/
def Covers (en : Entry) (recs : List Rec) : Prop :=
  match en.ref with
  | Option.none => en.start = 0 ∧ en.span = 0
  | Option.some k =>
    (∀ r ∈ recs, r.ref = Option.some k → en.start ≤ r.s ∧ r.e ≤ en.start + en.span - 1) ∧
    (∃ r ∈ recs, r.ref = Option.some k ∧ r.s = en.start) ∧
    (∃ r ∈ recs, r.ref = Option.some k ∧ r.e = en.start + en.span - 1)

/-- byte lengths are positive (so containers and slices start at distinct offsets) -/
def FileL.WF (f : FileL) : Prop :=
  ∀ c ∈ f.cs, 0 < c.hdrLen ∧ ∀ s ∈ c.slices, 0 < s.size

end Noodles.Cram.Index
