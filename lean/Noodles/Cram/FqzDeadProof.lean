import Noodles.Cram.Fqz
import Noodles.Cram.AacDeadProof
/-!
Helper lemmas for `Noodles/Props/C08Fqz.lean`: on ANY byte string — corrupt streams included — the
model's fqzcomp decoder never reaches its two artificial outcomes: `DecErr.trap` (an index /
slice / underflow panic of the real decoder) and `DecErr.fuel` (the model's recursion budget).
-/
namespace Noodles.Cram.Fqz
open Noodles.Cram.Aac Noodles.Cram.Num

/-- every byte of `r` is a byte of `src` (readers return a part of their input) -/
def Sub (r src : List Nat) : Prop := ∀ b ∈ r, b ∈ src

theorem Sub.refl (l : List Nat) : Sub l l := fun _ h => h
theorem Sub.trans {a b c : List Nat} (h1 : Sub a b) (h2 : Sub b c) : Sub a c := fun x hx => h2 x (h1 x hx)
theorem Sub.tail {a : Nat} {l r : List Nat} (h : Sub r l) : Sub r (a :: l) :=
  fun x hx => List.mem_cons_of_mem _ (h x hx)
theorem Sub.bytes {r src : List Nat} (h : Sub r src) (hb : Bytes src) : Bytes r := fun b hb' => hb b (h b hb')

/-! ## the tables -/

theorem readRuns_spec (n mp : Nat) (k : Nat) : ∀ (src : List Nat), src.length ≤ k → ∀ (z last cnt : Nat),
    Clean (readRuns n mp z last cnt src) ∧
      ∀ runs rest, readRuns n mp z last cnt src = .ok (runs, rest) → Sub rest src := by
  induction k with
  | zero =>
    intro src hlen z last cnt
    have : src = [] := List.length_eq_zero_iff.mp (by omega)
    subst this
    unfold readRuns
    split
    · exact ⟨clean_ok _, fun _ _ h => by simp only [Except.ok.injEq, Prod.mk.injEq] at h; rw [← h.2]; exact Sub.refl _⟩
    · exact ⟨clean_eof, fun _ _ h => by simp at h⟩
  | succ k ih =>
    intro src hlen z last cnt
    unfold readRuns
    split
    · exact ⟨clean_ok _, fun _ _ h => by simp only [Except.ok.injEq, Prod.mk.injEq] at h; rw [← h.2]; exact Sub.refl _⟩
    · cases src with
      | nil => exact ⟨clean_eof, fun _ _ h => by simp at h⟩
      | cons run src1 =>
        simp only
        split
        · cases src1 with
          | nil => exact ⟨clean_eof, fun _ _ h => by simp at h⟩
          | cons copy src2 =>
            simp only
            split
            · exact ⟨clean_invalidData, fun _ _ h => by simp at h⟩
            · obtain ⟨hc, hs⟩ := ih src2 (by simp only [List.length_cons] at hlen; omega)
                (z + run + run * copy) run (cnt + 1 + copy)
              split
              · next e he => rw [he] at hc; exact ⟨hc.cast, fun _ _ h => by simp at h⟩
              · next runs rest he =>
                refine ⟨clean_ok _, fun _ _ h => ?_⟩
                simp only [Except.ok.injEq, Prod.mk.injEq] at h
                rw [← h.2]
                exact (hs runs rest he).tail.tail
        · split
          · exact ⟨clean_invalidData, fun _ _ h => by simp at h⟩
          · obtain ⟨hc, hs⟩ := ih src1 (by simp only [List.length_cons] at hlen; omega) (z + run) run (cnt + 1)
            split
            · next e he => rw [he] at hc; exact ⟨hc.cast, fun _ _ h => by simp at h⟩
            · next runs rest he =>
              refine ⟨clean_ok _, fun _ _ h => ?_⟩
              simp only [Except.ok.injEq, Prod.mk.injEq] at h
              rw [← h.2]
              exact (hs runs rest he).tail

theorem expand_spec (fuel : Nat) : ∀ (v : Nat) (parts : List Nat) (rem : Nat),
    Clean (expand fuel v parts rem) ∧ ∀ a, expand fuel v parts rem = .ok a → a.length = rem := by
  induction fuel with
  | zero =>
    intro v parts rem
    cases rem with
    | zero => exact ⟨clean_ok _, fun a h => by simp only [expand, Except.ok.injEq] at h; subst h; rfl⟩
    | succ rem => exact ⟨clean_invalidData, fun a h => by simp [expand] at h⟩
  | succ fuel ih =>
    intro v parts rem
    cases rem with
    | zero => exact ⟨clean_ok _, fun a h => by simp only [expand, Except.ok.injEq] at h; subst h; rfl⟩
    | succ rem =>
      simp only [expand]
      split
      · exact ⟨clean_invalidData, fun a h => by simp at h⟩
      · next len parts' _ =>
        obtain ⟨hc, hl⟩ := ih (v + 1) parts' (rem + 1 - min len (rem + 1))
        split
        · next e he => rw [he] at hc; exact ⟨hc.cast, fun a h => by simp at h⟩
        · next t he =>
          refine ⟨clean_ok _, fun a h => ?_⟩
          simp only [Except.ok.injEq] at h
          subst h
          rw [List.length_append, List.length_replicate, hl t he]
          omega

/-- `read_array` on ANY input: never a trap; an answer has exactly `n` entries -/
theorem readArray_spec (n : Nat) (src : List Nat) :
    Clean (readArray n src) ∧ ∀ a rest, readArray n src = .ok (a, rest) → a.length = n ∧ Sub rest src := by
  unfold readArray
  obtain ⟨hc, hs⟩ := readRuns_spec n (256 + n / 255 + 1) src.length src (Nat.le_refl _) 0 0 0
  split
  · next e he => rw [he] at hc; exact ⟨hc.cast, fun _ _ h => by simp at h⟩
  · next runs rest he =>
    obtain ⟨hc2, hl⟩ := expand_spec 256 0 runs n
    split
    · next e he2 => rw [he2] at hc2; exact ⟨hc2.cast, fun _ _ h => by simp at h⟩
    · next a he2 =>
      refine ⟨clean_ok _, fun a' rest' h => ?_⟩
      simp only [Except.ok.injEq, Prod.mk.injEq] at h
      rw [← h.1, ← h.2]
      exact ⟨hl a he2, hs runs rest he⟩

theorem readTable_spec (present : Bool) (n : Nat) (src : List Nat) :
    Clean (readTable present n src) ∧
      ∀ t rest, readTable present n src = .ok (t, rest) → (∀ a, t = some a → a.size = n) ∧ Sub rest src := by
  unfold readTable
  cases present with
  | false =>
    refine ⟨clean_ok _, fun t rest h => ?_⟩
    simp only [Bool.false_eq_true, if_false, Except.ok.injEq, Prod.mk.injEq] at h
    rw [← h.1, ← h.2]
    exact ⟨fun a ha => by simp at ha, Sub.refl _⟩
  | true =>
    simp only [if_true]
    obtain ⟨hc, hs⟩ := readArray_spec n src
    split
    · next e he => rw [he] at hc; exact ⟨hc.cast, fun _ _ h => by simp at h⟩
    · next a r he =>
      refine ⟨clean_ok _, fun t rest h => ?_⟩
      simp only [Except.ok.injEq, Prod.mk.injEq] at h
      rw [← h.1, ← h.2]
      obtain ⟨h1, h2⟩ := hs a r he
      exact ⟨fun a' ha => by simp only [Option.some.injEq] at ha; rw [← ha]; simpa using h1, h2⟩

/-! ## the parameters -/

/-- a parameter set as `fqz_decode_single_param` returns it for bytes: the tables have their sizes -/
structure Param.WF (p : Param) : Prop where
  context : p.context < 65536
  maxSym : p.maxSym < 256
  qtab : p.qtab.size = 256
  ptab : ∀ t, p.ptab = some t → t.size = 1024
  dtab : ∀ t, p.dtab = some t → t.size = 256

theorem takeN_sub (k : Nat) (bs a r : List Nat) (h : takeN k bs = .ok (a, r)) : Sub r bs := by
  unfold takeN at h
  split at h
  · simp only [Except.ok.injEq, Prod.mk.injEq] at h
    rw [← h.2]
    exact fun b hb => List.mem_of_mem_drop hb
  · simp at h

theorem takeN_clean (k : Nat) (bs : List Nat) : Clean (takeN k bs) := by
  unfold takeN
  split
  · exact clean_ok _
  · exact clean_eof

theorem readParam_spec (bs : List Nat) (hb : Bytes bs) :
    Clean (readParam bs) ∧ ∀ p rest, readParam bs = .ok (p, rest) → p.WF ∧ Sub rest bs := by
  unfold readParam
  split
  · next c0 c1 fl ms b1 b2 b3 r =>
    have hms : ms < 256 := hb ms (by simp)
    have hc0 : c0 < 256 := hb c0 (by simp)
    have hc1 : c1 < 256 := hb c1 (by simp)
    have hr : Sub r (c0 :: c1 :: fl :: ms :: b1 :: b2 :: b3 :: r) :=
      (Sub.refl r).tail.tail.tail.tail.tail.tail.tail
    split
    · next e he =>
      refine ⟨?_, fun _ _ h => by simp at h⟩
      split at he
      · split at he
        · next e' htk =>
          simp only [Except.error.injEq] at he
          have := takeN_clean ms r
          rw [htk, he] at this
          exact this.cast
        · simp at he
      · simp at he
    · next qmap r1 he =>
      have hr1 : Sub r1 r := by
        split at he
        · split at he
          · simp at he
          · next m r' htk =>
            simp only [Except.ok.injEq, Prod.mk.injEq] at he
            rw [← he.2]
            exact takeN_sub ms r m r' htk
        · simp only [Except.ok.injEq, Prod.mk.injEq] at he
          rw [← he.2]; exact Sub.refl _
      split
      · next e he2 =>
        refine ⟨?_, fun _ _ h => by simp at h⟩
        split at he2
        · have := (readArray_spec 256 r1).1
          rw [he2] at this
          exact this.cast
        · simp at he2
      · next qtabL r2 he2 =>
        have hq : qtabL.length = 256 ∧ Sub r2 r1 := by
          split at he2
          · exact (readArray_spec 256 r1).2 qtabL r2 he2
          · simp only [Except.ok.injEq, Prod.mk.injEq] at he2
            rw [← he2.1, ← he2.2]
            exact ⟨List.length_range, Sub.refl _⟩
        obtain ⟨hc3, hs3⟩ := readTable_spec (bit fl 5) 1024 r2
        split
        · next e he3 => rw [he3] at hc3; exact ⟨hc3.cast, fun _ _ h => by simp at h⟩
        · next ptab r3 he3 =>
          obtain ⟨hp1, hp2⟩ := hs3 ptab r3 he3
          obtain ⟨hc4, hs4⟩ := readTable_spec (bit fl 6) 256 r3
          split
          · next e he4 => rw [he4] at hc4; exact ⟨hc4.cast, fun _ _ h => by simp at h⟩
          · next dtab r4 he4 =>
            obtain ⟨hd1, hd2⟩ := hs4 dtab r4 he4
            refine ⟨clean_ok _, fun p rest h => ?_⟩
            simp only [Except.ok.injEq, Prod.mk.injEq] at h
            rw [← h.1, ← h.2]
            exact ⟨⟨by simp only; omega, hms, by simpa using hq.1, hp1, hd1⟩,
              hd2.trans (hp2.trans (hq.2.trans (hr1.trans hr)))⟩
  · exact ⟨clean_eof, fun _ _ h => by simp at h⟩

theorem readParamN_spec (k : Nat) : ∀ (bs : List Nat), Bytes bs →
    Clean (readParamN k bs) ∧
      ∀ ps rest, readParamN k bs = .ok (ps, rest) → (∀ p ∈ ps, p.WF) ∧ Sub rest bs := by
  induction k with
  | zero =>
    intro bs _
    refine ⟨clean_ok _, fun ps rest h => ?_⟩
    simp only [readParamN, Except.ok.injEq, Prod.mk.injEq] at h
    rw [← h.1, ← h.2]
    exact ⟨fun p hp => by simp at hp, Sub.refl _⟩
  | succ k ih =>
    intro bs hb
    simp only [readParamN]
    obtain ⟨hc, hs⟩ := readParam_spec bs hb
    split
    · next e he => rw [he] at hc; exact ⟨hc.cast, fun _ _ h => by simp at h⟩
    · next p bs1 he =>
      obtain ⟨hp, hsub⟩ := hs p bs1 he
      obtain ⟨hc2, hs2⟩ := ih bs1 (hsub.bytes hb)
      split
      · next e he2 => rw [he2] at hc2; exact ⟨hc2.cast, fun _ _ h => by simp at h⟩
      · next ps bs2 he2 =>
        obtain ⟨hps, hsub2⟩ := hs2 ps bs2 he2
        refine ⟨clean_ok _, fun ps' rest h => ?_⟩
        simp only [Except.ok.injEq, Prod.mk.injEq] at h
        rw [← h.1, ← h.2]
        refine ⟨fun q hq => ?_, hsub2.trans hsub⟩
        rcases List.mem_cons.mp hq with rfl | hq
        · exact hp
        · exact hps q hq

/-- `Parameters` as `fqz_decode_params` returns them for bytes -/
structure Params.WF (P : Params) : Prop where
  nsym : P.maxSymbolCount ≤ 256
  sel : ∀ k, P.selectorCount = some k → k ≤ 256
  stab : ∀ t, P.stab = some t → t.size = 256
  params : ∀ p ∈ P.params, p.WF

theorem foldl_max_le (l : List Nat) (a b : Nat) (ha : a ≤ b) (h : ∀ x ∈ l, x ≤ b) : l.foldl max a ≤ b := by
  induction l generalizing a with
  | nil => exact ha
  | cons x l ih =>
    simp only [List.foldl_cons]
    exact ih _ (Nat.max_le.mpr ⟨ha, h x (by simp)⟩) (fun y hy => h y (List.mem_cons_of_mem _ hy))

theorem readParams_spec (bs : List Nat) (hb : Bytes bs) :
    Clean (readParams bs) ∧ ∀ P rest, readParams bs = .ok (P, rest) → P.WF := by
  unfold readParams
  cases bs with
  | nil => exact ⟨clean_eof, fun _ _ h => by simp at h⟩
  | cons v bs =>
    simp only
    split
    · exact ⟨clean_invalidData, fun _ _ h => by simp at h⟩
    · have hb1 : Bytes bs := hb.tail
      cases bs with
      | nil => exact ⟨clean_eof, fun _ _ h => by simp at h⟩
      | cons gf bs =>
        simp only
        have hb2 : Bytes bs := hb1.tail
        split
        · next e he =>
          refine ⟨?_, fun _ _ h => by simp at h⟩
          split at he
          · cases bs with
            | nil => simp only [Except.error.injEq] at he; rw [← he]; exact clean_eof
            | cons n bs' =>
              simp only at he
              split at he
              · simp only [Except.error.injEq] at he; rw [← he]; exact clean_invalidData
              · simp at he
          · simp at he
        · next count selc bs3 he =>
          have h3 : Bytes bs3 ∧ ∀ k, selc = some k → k ≤ 256 := by
            split at he
            · cases bs with
              | nil => simp at he
              | cons n bs' =>
                simp only at he
                split at he
                · simp at he
                · simp only [Except.ok.injEq, Prod.mk.injEq] at he
                  rw [← he.2.1, ← he.2.2]
                  have := hb2 n (by simp)
                  exact ⟨hb2.tail, fun k hk => by simp only [Option.some.injEq] at hk; omega⟩
            · simp only [Except.ok.injEq, Prod.mk.injEq] at he
              rw [← he.2.1, ← he.2.2]
              exact ⟨hb2, fun k hk => by simp at hk⟩
          split
          · next e he2 =>
            refine ⟨?_, fun _ _ h => by simp at h⟩
            split at he2
            · cases bs3 with
              | nil => simp only [Except.error.injEq] at he2; rw [← he2]; exact clean_eof
              | cons m bs' =>
                simp only at he2
                split at he2
                · simp only [Except.error.injEq] at he2; rw [← he2]; exact clean_invalidData
                · split at he2
                  · next e' he' =>
                    simp only [Except.error.injEq] at he2
                    have := (readArray_spec 256 bs').1
                    rw [he', he2] at this
                    exact this.cast
                  · simp at he2
            · simp at he2
          · next selc2 stab bs4 he2 =>
            have h4 : Bytes bs4 ∧ (∀ k, selc2 = some k → k ≤ 256) ∧ (∀ t, stab = some t → t.size = 256) := by
              split at he2
              · cases bs3 with
                | nil => simp at he2
                | cons m bs' =>
                  simp only at he2
                  split at he2
                  · simp at he2
                  · split at he2
                    · simp at he2
                    · next t bs'' ht =>
                      simp only [Except.ok.injEq, Prod.mk.injEq] at he2
                      rw [← he2.1, ← he2.2.1, ← he2.2.2]
                      obtain ⟨hl, hsub⟩ := (readArray_spec 256 bs').2 t bs'' ht
                      have := h3.1 m (by simp)
                      exact ⟨hsub.bytes h3.1.tail, fun k hk => by simp only [Option.some.injEq] at hk; omega,
                        fun t' ht' => by simp only [Option.some.injEq] at ht'; rw [← ht']; simpa using hl⟩
              · simp only [Except.ok.injEq, Prod.mk.injEq] at he2
                rw [← he2.1, ← he2.2.1, ← he2.2.2]
                exact ⟨h3.1, h3.2, fun t ht => by simp at ht⟩
            obtain ⟨hc5, hs5⟩ := readParamN_spec count bs4 h4.1
            split
            · next e he5 => rw [he5] at hc5; exact ⟨hc5.cast, fun _ _ h => by simp at h⟩
            · next ps bs5 he5 =>
              obtain ⟨hps, _⟩ := hs5 ps bs5 he5
              refine ⟨clean_ok _, fun P rest h => ?_⟩
              simp only [Except.ok.injEq, Prod.mk.injEq] at h
              rw [← h.1]
              refine ⟨?_, h4.2.1, h4.2.2, hps⟩
              apply foldl_max_le _ _ _ (by omega)
              intro x hx
              simp only [List.mem_map] at hx
              obtain ⟨p, hp, rfl⟩ := hx
              have := (hps p hp).maxSym
              omega

/-! ## the models -/

/-- the alphabet sizes of `Models::new(max_symbol_count, selector_count)` -/
def modelSizes (P : Params) : List Nat :=
  List.replicate 65536 P.maxSymbolCount ++ (List.replicate 4 256 ++ ([2, 2] ++ P.selectorCount.toList))

theorem decModels_sized (P : Params) (h : P.WF) :
    Sized (modelSizes P) (Models.new P.maxSymbolCount P.selectorCount).toList := by
  have hmap : (Models.new P.maxSymbolCount P.selectorCount).toList = (modelSizes P).map Model.new := by
    simp [-List.reduceReplicate, Models.new, modelSizes]
  rw [hmap]
  refine ⟨by rw [List.length_map], ?_⟩
  intro c n m hn hm
  rw [List.getElem?_map, hn] at hm
  simp only [Option.map_some, Option.some.injEq] at hm
  subst hm
  refine Model.new_full n ?_
  have hmem : n ∈ modelSizes P := List.mem_of_getElem? hn
  simp only [modelSizes, List.mem_append, List.mem_replicate, List.mem_cons, List.not_mem_nil, or_false,
    Option.mem_toList] at hmem
  have h1 := h.nsym
  rcases hmem with ⟨_, rfl⟩ | ⟨_, rfl⟩ | (rfl | rfl) | hsel
  · exact h1
  · omega
  · omega
  · omega
  · exact h.sel n hsel

theorem rep_get {α : Type} (k : Nat) (a : α) (c : Nat) (h : c < k) : (List.replicate k a)[c]? = some a := by
  rw [List.getElem?_replicate]; simp [h]

theorem sizes_qual (P : Params) (c : Nat) (h : c < 65536) : (modelSizes P)[c]? = some P.maxSymbolCount := by
  unfold modelSizes
  rw [List.getElem?_append_left (by rw [List.length_replicate]; exact h)]
  exact rep_get _ _ _ h

theorem sizes_len (P : Params) (k : Nat) (h : k < 4) : (modelSizes P)[LEN + k]? = some 256 := by
  unfold modelSizes LEN
  rw [List.getElem?_append_right (by rw [List.length_replicate]; omega), List.length_replicate,
    List.getElem?_append_left (by rw [List.length_replicate]; omega)]
  exact rep_get _ _ _ (by omega)

theorem sizes_rev (P : Params) : (modelSizes P)[REV]? = some 2 := by
  unfold modelSizes REV
  rw [List.getElem?_append_right (by rw [List.length_replicate]; omega), List.length_replicate,
    List.getElem?_append_right (by rw [List.length_replicate]; omega), List.length_replicate]
  rfl

theorem sizes_dup (P : Params) : (modelSizes P)[DUP]? = some 2 := by
  unfold modelSizes DUP
  rw [List.getElem?_append_right (by rw [List.length_replicate]; omega), List.length_replicate,
    List.getElem?_append_right (by rw [List.length_replicate]; omega), List.length_replicate]
  rfl

theorem sizes_sel (P : Params) (k : Nat) (h : P.selectorCount = some k) : (modelSizes P)[SEL]? = some k := by
  unfold modelSizes SEL
  rw [List.getElem?_append_right (by rw [List.length_replicate]; omega), List.length_replicate,
    List.getElem?_append_right (by rw [List.length_replicate]; omega), List.length_replicate, h]
  rfl

/-- `models.…[c].decode(…)` on any state: never a trap (the model exists), an answer is a symbol of
the model's alphabet, and the models keep their alphabets -/
theorem decAt_spec (ns : List Nat) (ms : Array Model) (d : Dec) (c k : Nat) (hs : Sized ns ms.toList)
    (hk : ns[c]? = some k) :
    Clean (decAt ms d c) ∧
      ∀ s ms' d', decAt ms d c = .ok (s, ms', d') → s < k ∧ Sized ns ms'.toList := by
  obtain ⟨m, hm, hfull⟩ := sized_get hs c k hk
  rw [Array.getElem?_toList] at hm
  obtain ⟨hc, hres⟩ := Model.decode_full k m d hfull
  unfold decAt
  simp only [hm]
  split
  · next e he => rw [he] at hc; exact ⟨hc.cast, fun _ _ _ h => by simp at h⟩
  · next s m' d' he =>
    obtain ⟨h1, h2⟩ := hres s m' d' he
    refine ⟨clean_ok _, fun s' ms' d'' h => ?_⟩
    simp only [Except.ok.injEq, Prod.mk.injEq] at h
    rw [← h.1, ← h.2.1, Array.toList_setIfInBounds]
    exact ⟨h1, hs.set c k m' hk h2⟩

theorem readLength_spec (P : Params) (ms : Array Model) (d : Dec) (hs : Sized (modelSizes P) ms.toList) :
    Clean (readLength ms d) ∧
      ∀ len ms' d', readLength ms d = .ok (len, ms', d') → Sized (modelSizes P) ms'.toList := by
  unfold readLength
  obtain ⟨c0, r0⟩ := decAt_spec _ ms d LEN 256 hs (sizes_len P 0 (by omega))
  split
  · next e he => rw [he] at c0; exact ⟨c0.cast, fun _ _ _ h => by simp at h⟩
  · next b0 ms0 d0 he0 =>
    obtain ⟨_, s0⟩ := r0 b0 ms0 d0 he0
    obtain ⟨c1, r1⟩ := decAt_spec _ ms0 d0 (LEN + 1) 256 s0 (sizes_len P 1 (by omega))
    split
    · next e he => rw [he] at c1; exact ⟨c1.cast, fun _ _ _ h => by simp at h⟩
    · next b1 ms1 d1 he1 =>
      obtain ⟨_, s1⟩ := r1 b1 ms1 d1 he1
      obtain ⟨c2, r2⟩ := decAt_spec _ ms1 d1 (LEN + 2) 256 s1 (sizes_len P 2 (by omega))
      split
      · next e he => rw [he] at c2; exact ⟨c2.cast, fun _ _ _ h => by simp at h⟩
      · next b2 ms2 d2 he2 =>
        obtain ⟨_, s2⟩ := r2 b2 ms2 d2 he2
        obtain ⟨c3, r3⟩ := decAt_spec _ ms2 d2 (LEN + 3) 256 s2 (sizes_len P 3 (by omega))
        split
        · next e he => rw [he] at c3; exact ⟨c3.cast, fun _ _ _ h => by simp at h⟩
        · next b3 ms3 d3 he3 =>
          obtain ⟨_, s3⟩ := r3 b3 ms3 d3 he3
          refine ⟨clean_ok _, fun len ms' d' h => ?_⟩
          simp only [Except.ok.injEq, Prod.mk.injEq] at h
          rw [← h.2.1]
          exact s3

theorem decSelector_spec (P : Params) (hP : P.WF) (ms : Array Model) (d : Dec) (r : Rec)
    (hs : Sized (modelSizes P) ms.toList) :
    Clean (decSelector P ms d r) ∧
      ∀ x sel ms' d', decSelector P ms d r = .ok (x, sel, ms', d') → Sized (modelSizes P) ms'.toList := by
  unfold decSelector
  split
  · exact ⟨clean_ok _, fun x sel ms' d' h => by
      simp only [Except.ok.injEq, Prod.mk.injEq] at h; rw [← h.2.2.1]; exact hs⟩
  · next k hk =>
    obtain ⟨c0, r0⟩ := decAt_spec _ ms d SEL k hs (sizes_sel P k hk)
    split
    · next e he => rw [he] at c0; exact ⟨c0.cast, fun _ _ _ _ h => by simp at h⟩
    · next s ms0 d0 he0 =>
      obtain ⟨hsk, s0⟩ := r0 s ms0 d0 he0
      split
      · exact ⟨clean_ok _, fun x sel ms' d' h => by
          simp only [Except.ok.injEq, Prod.mk.injEq] at h; rw [← h.2.2.1]; exact s0⟩
      · next tab htab =>
        have hsz := hP.stab tab htab
        have hk256 := hP.sel k hk
        have hlt : s < tab.size := by omega
        rw [Array.getElem?_eq_getElem hlt]
        exact ⟨clean_ok _, fun x sel ms' d' h => by
          simp only [Except.ok.injEq, Prod.mk.injEq] at h; rw [← h.2.2.1]; exact s0⟩

/-- `fqz_new_record` on any state: never a trap; the parameter index it returns is one of the
list, the record starts at its full length, and every entry it adds to `rev_len` is the record's
length -/
theorem newRecord_spec (P : Params) (hP : P.WF) (ms : Array Model) (d : Dec) (r : Rec) (lastLen : Nat)
    (revLen : List (Bool × Nat)) (hs : Sized (modelSizes P) ms.toList) :
    Clean (newRecord P ms d r lastLen revLen) ∧
      ∀ x ms' d' r' revLen', newRecord P ms d r lastLen revLen = .ok (x, ms', d', r', revLen') →
        Sized (modelSizes P) ms'.toList ∧ x < P.params.length ∧ r'.pos = r'.len ∧
        (if P.doRev then ∃ b, revLen' = (b, r'.len) :: revLen else revLen' = revLen) := by
  unfold newRecord
  obtain ⟨c0, r0⟩ := decSelector_spec P hP ms d r hs
  split
  · next e he => rw [he] at c0; exact ⟨c0.cast, fun _ _ _ _ _ h => by simp at h⟩
  · next x sel ms0 d0 he0 =>
    have s0 := r0 x sel ms0 d0 he0
    split
    · exact ⟨clean_invalidData, fun _ _ _ _ _ h => by simp at h⟩
    · next param hpar =>
      have hx : x < P.params.length := by
        rcases Nat.lt_or_ge x P.params.length with h | h
        · exact h
        · rw [List.getElem?_eq_none h] at hpar; simp at hpar
      split
      · next e he =>
        refine ⟨?_, fun _ _ _ _ _ h => by simp at h⟩
        split at he
        · have := (readLength_spec P ms0 d0 s0).1
          rw [he] at this; exact this.cast
        · simp at he
      · next len ms1 d1 he1 =>
        have s1 : Sized (modelSizes P) ms1.toList := by
          split at he1
          · exact (readLength_spec P ms0 d0 s0).2 len ms1 d1 he1
          · simp only [Except.ok.injEq, Prod.mk.injEq] at he1; rw [← he1.2.1]; exact s0
        split
        · next e he =>
          refine ⟨?_, fun _ _ _ _ _ h => by simp at h⟩
          split at he
          · obtain ⟨c2, _⟩ := decAt_spec _ ms1 d1 REV 2 s1 (sizes_rev P)
            split at he
            · next e' he' => simp only [Except.error.injEq] at he; rw [he', he] at c2; exact c2.cast
            · simp at he
          · simp at he
        · next revLen2 ms2 d2 he2 =>
          have s2 : Sized (modelSizes P) ms2.toList ∧
              (if P.doRev then ∃ b, revLen2 = (b, len) :: revLen else revLen2 = revLen) := by
            split at he2
            · next hrev =>
              obtain ⟨_, r2⟩ := decAt_spec _ ms1 d1 REV 2 s1 (sizes_rev P)
              split at he2
              · simp at he2
              · next b ms' d' hb =>
                simp only [Except.ok.injEq, Prod.mk.injEq] at he2
                rw [← he2.1, ← he2.2.1]
                exact ⟨(r2 b ms' d' hb).2, by simp only [hrev, if_true]; exact ⟨_, rfl⟩⟩
            · next hrev =>
              simp only [Except.ok.injEq, Prod.mk.injEq] at he2
              rw [← he2.1, ← he2.2.1]
              exact ⟨s1, by simp [hrev]⟩
          split
          · next e he =>
            refine ⟨?_, fun _ _ _ _ _ h => by simp at h⟩
            split at he
            · obtain ⟨c3, _⟩ := decAt_spec _ ms2 d2 DUP 2 s2.1 (sizes_dup P)
              split at he
              · next e' he' => simp only [Except.error.injEq] at he; rw [he', he] at c3; exact c3.cast
              · simp at he
            · simp at he
          · next dup ms3 d3 he3 =>
            have s3 : Sized (modelSizes P) ms3.toList := by
              split at he3
              · obtain ⟨_, r3⟩ := decAt_spec _ ms2 d2 DUP 2 s2.1 (sizes_dup P)
                split at he3
                · simp at he3
                · next b ms' d' hb =>
                  simp only [Except.ok.injEq, Prod.mk.injEq] at he3
                  rw [← he3.2.1]
                  exact (r3 b ms' d' hb).2
              · simp only [Except.ok.injEq, Prod.mk.injEq] at he3
                rw [← he3.2.1]; exact s2.1
            refine ⟨clean_ok _, fun x' ms' d' r' revLen' h => ?_⟩
            simp only [Except.ok.injEq, Prod.mk.injEq] at h
            rw [← h.1, ← h.2.1, ← h.2.2.2.1, ← h.2.2.2.2]
            exact ⟨s3, hx, rfl, s2.2⟩

/-! ## one quality -/

/-- `fqz_update_context` on any record state: the tables have their sizes, so every index is
inside; the context is a `u16` and the position is untouched -/
theorem updateCtx_spec (p : Param) (hp : p.WF) (q : Nat) (hq : q < 256) (r : Rec) :
    ∃ c r', updateCtx p q r = .ok (c, r') ∧ c < 65536 ∧ r'.pos = r.pos := by
  unfold updateCtx
  have hqt : q < p.qtab.size := by rw [hp.qtab]; exact hq
  rw [Array.getElem?_eq_getElem hqt]
  simp only
  have hfin : ∀ (c1 c2 dl pq : Nat), ∃ c r', (Except.ok
      ((p.context + (r.qctx * 2 ^ p.qshift % 2 ^ 32 + p.qtab[q]) % 2 ^ 32 % 2 ^ p.qbits * 2 ^ p.qloc + c1 + c2
          + if p.hasSel = true then r.selector * 2 ^ p.sloc else 0) % 65536,
        ({ r with qctx := (r.qctx * 2 ^ p.qshift % 2 ^ 32 + p.qtab[q]) % 2 ^ 32, delta := dl, prevQ := pq } : Rec))
        : Except DecErr (Nat × Rec)) = .ok (c, r') ∧ c < 65536 ∧ r'.pos = r.pos :=
    fun _ _ _ _ => ⟨_, _, rfl, Nat.mod_lt _ (by decide), rfl⟩
  cases hpt : p.ptab with
  | none =>
    simp only
    cases hdt : p.dtab with
    | none => exact hfin _ _ _ _
    | some tab =>
      have hlt : min r.delta 255 < tab.size := by rw [hp.dtab tab hdt]; omega
      simp only [Array.getElem?_eq_getElem hlt]
      exact hfin _ _ _ _
  | some ptab =>
    have hlt1 : min r.pos 1023 < ptab.size := by rw [hp.ptab ptab hpt]; omega
    simp only [Array.getElem?_eq_getElem hlt1]
    cases hdt : p.dtab with
    | none => exact hfin _ _ _ _
    | some tab =>
      have hlt : min r.delta 255 < tab.size := by rw [hp.dtab tab hdt]; omega
      simp only [Array.getElem?_eq_getElem hlt]
      exact hfin _ _ _ _

theorem decQual_spec (P : Params) (hP : P.WF) (ms : Array Model) (d : Dec) (r : Rec)
    (x ctx lastLen i : Nat) (revLen : List (Bool × Nat)) (out : List Nat)
    (hs : Sized (modelSizes P) ms.toList) (hx : x < P.params.length) (hctx : ctx < 65536)
    (hpos : r.pos ≠ 0) :
    Clean (decQual P ms d r x ctx lastLen i revLen out) ∧
      ∀ st', decQual P ms d r x ctx lastLen i revLen out = .ok st' →
        Sized (modelSizes P) st'.ms.toList ∧ st'.x = x ∧ st'.ctx < 65536 ∧ st'.i = i + 1 ∧
        st'.r.pos = r.pos - 1 ∧ st'.revLen = revLen ∧ st'.out.length = out.length + 1 := by
  unfold decQual
  have hpar : P.params[x]? = some P.params[x] := List.getElem?_eq_getElem hx
  rw [hpar]
  simp only
  have hpwf : (P.params[x]).WF := hP.params _ (List.getElem_mem hx)
  obtain ⟨c0, r0⟩ := decAt_spec _ ms d ctx P.maxSymbolCount hs (sizes_qual P ctx hctx)
  split
  · next e he => rw [he] at c0; exact ⟨c0.cast, fun _ h => by simp at h⟩
  · next q ms0 d0 he0 =>
    obtain ⟨hq, s0⟩ := r0 q ms0 d0 he0
    have hq256 : q < 256 := by have := hP.nsym; omega
    split
    · next e he =>
      refine ⟨?_, fun _ h => by simp at h⟩
      split at he
      · simp at he
      · split at he
        · simp only [Except.error.injEq] at he; rw [← he]; exact clean_invalidData
        · simp at he
    · next b _ =>
      obtain ⟨c, r', hu, hc, hp'⟩ := updateCtx_spec _ hpwf q hq256 r
      rw [hu]
      simp only
      have hne : ¬ r'.pos = 0 := by rw [hp']; exact hpos
      simp only [hne, if_false]
      refine ⟨clean_ok _, fun st' h => ?_⟩
      simp only [Except.ok.injEq] at h
      subst h
      exact ⟨s0, rfl, hc, rfl, by simp only [hp'], rfl, by simp⟩

/-! ## the main loop -/

/-- what holds of the loop state at the top of every iteration -/
structure DInv (P : Params) (n : Nat) (st : DSt) : Prop where
  sized : Sized (modelSizes P) st.ms.toList
  cur : st.r.pos ≠ 0 → st.x < P.params.length ∧ st.ctx < 65536
  outLen : st.out.length = st.i
  rev : P.doRev = true →
    (st.revLen.map (·.2)).sum = st.i + st.r.pos ∧ (∀ e ∈ st.revLen, 0 < e.2) ∧ st.i + st.r.pos ≤ n

theorem validRecord_spec (r : Rec) (rev : Bool) (decoded remaining : Nat)
    (h : validRecord r rev decoded remaining = true) :
    0 < r.len ∧ (r.isDup = true → r.len ≤ decoded ∧ r.len ≤ remaining) ∧
      (rev = true → r.len ≤ remaining) := by
  simp only [validRecord, Bool.and_eq_true, decide_eq_true_eq, Bool.or_eq_true, Bool.not_eq_true'] at h
  obtain ⟨⟨h1, h2⟩, h3⟩ := h
  refine ⟨h1, fun hd => ?_, fun hr => ?_⟩
  · rcases h2 with h2 | h2
    · rw [hd] at h2; simp at h2
    · exact h2
  · rcases h3 with h3 | h3
    · rw [hr] at h3; simp at h3
    · exact h3

/-- one iteration on ANY state that satisfies the invariant: never a trap, the invariant is kept,
and `i` advances -/
theorem decStep_spec (P : Params) (hP : P.WF) (n : Nat) (st : DSt) (hinv : DInv P n st) (hlt : st.i < n) :
    Clean (decStep P n st) ∧ ∀ st', decStep P n st = .ok st' → DInv P n st' ∧ st.i < st'.i := by
  obtain ⟨ms, d, r, x, ctx, lastLen, i, revLen, out⟩ := st
  obtain ⟨hs, hcur, hout, hrev⟩ := hinv
  simp only at hs hcur hout hrev hlt
  unfold decStep
  simp only
  split
  · next hr0 =>
    obtain ⟨c0, r0⟩ := newRecord_spec P hP ms d r lastLen revLen hs
    split
    · next e he => rw [he] at c0; exact ⟨c0.cast, fun _ h => by simp at h⟩
    · next x1 ms1 d1 r1 revLen1 he1 =>
      obtain ⟨s1, hx1, hpos1, hrl⟩ := r0 x1 ms1 d1 r1 revLen1 he1
      split
      · exact ⟨clean_invalidData, fun _ h => by simp at h⟩
      · next hv =>
        have hv' : validRecord r1 P.doRev i (n - i) = true := by simpa using hv
        obtain ⟨hlen0, hvd, hvr⟩ := validRecord_spec r1 P.doRev i (n - i) hv'
        -- the `rev_len` bookkeeping after the record start
        have hrev1 : P.doRev = true →
            (revLen1.map (·.2)).sum = i + r1.len ∧ (∀ e ∈ revLen1, 0 < e.2) ∧ i + r1.len ≤ n := by
          intro hd
          obtain ⟨h1, h2, h3⟩ := hrev hd
          simp only [hd, if_true] at hrl
          obtain ⟨b, rfl⟩ := hrl
          have := hvr hd
          refine ⟨by simp only [List.map_cons, List.sum_cons, h1, hr0]; omega, ?_, by omega⟩
          intro e he
          rcases List.mem_cons.mp he with rfl | he
          · exact hlen0
          · exact h2 e he
        split
        · next hdup =>
          obtain ⟨hd1, hd2⟩ := hvd hdup
          have hc : r1.len ≤ i ∧ r1.len ≤ n - i := ⟨hd1, hd2⟩
          simp only [hc, and_self, if_true]
          refine ⟨clean_ok _, fun st' h => ?_⟩
          simp only [Except.ok.injEq] at h
          subst h
          refine ⟨⟨s1, fun h => absurd rfl h, ?_, ?_⟩, by simp only; omega⟩
          · simp only [List.length_append, List.length_take, hout]; omega
          · intro hd
            obtain ⟨h1, h2, h3⟩ := hrev1 hd
            exact ⟨by simp only [h1]; omega, h2, by simp only; omega⟩
        · have hpar : P.params[x1]? = some P.params[x1] := List.getElem?_eq_getElem hx1
          rw [hpar]
          simp only
          -- the context of a record start is the parameter's `u16` context
          have hc16 : (P.params[x1]).context < 65536 := (hP.params _ (List.getElem_mem hx1)).context
          · obtain ⟨c2, r2⟩ := decQual_spec P hP ms1 d1 r1 x1 _ r1.len i revLen1 out s1 hx1 hc16
              (by rw [hpos1]; omega)
            refine ⟨c2, fun st' h => ?_⟩
            obtain ⟨q1, q2, q3, q4, q5, q6, q7⟩ := r2 st' h
            refine ⟨⟨q1, fun _ => ⟨by rw [q2]; exact hx1, q3⟩, by rw [q7, q4, hout], ?_⟩, by rw [q4]; omega⟩
            intro hd
            obtain ⟨h1, h2, h3⟩ := hrev1 hd
            rw [q6, q4, q5, hpos1]
            exact ⟨by omega, h2, by omega⟩
  · next hr0 =>
    obtain ⟨hx, hctx⟩ := hcur hr0
    obtain ⟨c2, r2⟩ := decQual_spec P hP ms d r x ctx lastLen i revLen out hs hx hctx hr0
    refine ⟨c2, fun st' h => ?_⟩
    obtain ⟨q1, q2, q3, q4, q5, q6, q7⟩ := r2 st' h
    refine ⟨⟨q1, fun _ => ⟨by rw [q2]; exact hx, q3⟩, by rw [q7, q4, hout], ?_⟩, by rw [q4]; omega⟩
    intro hd
    obtain ⟨h1, h2, h3⟩ := hrev hd
    rw [q6, q4, q5]
    exact ⟨by omega, h2, by omega⟩

/-- the loop on ANY state that satisfies the invariant: never a trap, and the budget `n - i` is
never used up (every iteration advances `i`) -/
theorem decLoop_spec (P : Params) (hP : P.WF) (n : Nat) (fuel : Nat) : ∀ (st : DSt), DInv P n st →
    n - st.i ≤ fuel →
    Clean (decLoop P n fuel st) ∧ ∀ st', decLoop P n fuel st = .ok st' → DInv P n st' ∧ ¬ st'.i < n := by
  induction fuel with
  | zero =>
    intro st hinv hf
    have hlt : ¬ st.i < n := by omega
    simp only [decLoop, hlt, if_false]
    exact ⟨clean_ok _, fun st' h => by simp only [Except.ok.injEq] at h; subst h; exact ⟨hinv, hlt⟩⟩
  | succ fuel ih =>
    intro st hinv hf
    simp only [decLoop]
    split
    · next hlt =>
      obtain ⟨c0, r0⟩ := decStep_spec P hP n st hinv hlt
      split
      · next e he => rw [he] at c0; exact ⟨c0.cast, fun _ h => by simp at h⟩
      · next st1 he1 =>
        obtain ⟨hinv1, hadv⟩ := r0 st1 he1
        exact ih st1 hinv1 (by omega)
    · next hlt =>
      exact ⟨clean_ok _, fun st' h => by simp only [Except.ok.injEq] at h; subst h; exact ⟨hinv, hlt⟩⟩

/-- `reverse_qualities` when the recorded lengths are positive and add up to the output: every
index is inside -/
theorem reverseQualities_spec (L : List (Bool × Nat)) : ∀ (quals : List Nat),
    (L.map (·.2)).sum = quals.length → (∀ e ∈ L, 0 < e.2) → Clean (reverseQualities L quals) := by
  induction L with
  | nil =>
    intro quals hsum _
    cases quals with
    | nil => exact clean_ok _
    | cons q qs => simp at hsum
  | cons e rs ih =>
    intro quals hsum hpos
    obtain ⟨rev, len⟩ := e
    cases quals with
    | nil => exact clean_ok _
    | cons q qs =>
      have hlen0 : 0 < len := hpos (rev, len) (by simp)
      simp only [List.map_cons, List.sum_cons] at hsum
      have hrec := ih ((q :: qs).drop len) (by rw [List.length_drop]; omega)
        (fun e he => hpos e (List.mem_cons_of_mem _ he))
      simp only [reverseQualities]
      split
      · have h1 : ¬ len = 0 := by omega
        have h2 : ¬ (len ≥ 2 ∧ len > (q :: qs).length) := by omega
        simp only [h1, h2, if_false]
        split
        · next e' he' => rw [he'] at hrec; exact hrec.cast
        · exact clean_ok _
      · split
        · next e' he' => rw [he'] at hrec; exact hrec.cast
        · exact clean_ok _

theorem rdU7_clean (bs : List Nat) : Clean (rdU7 bs) := by
  unfold rdU7
  split
  · exact clean_ok _
  · exact clean_eof
  · exact clean_invalidData

theorem rdU7_sub (bs : List Nat) (n : Nat) (r : List Nat) (h : rdU7 bs = .ok (n, r)) : Sub r bs := by
  unfold rdU7 at h
  split at h
  · next res hres =>
    simp only [Except.ok.injEq] at h
    subst h
    unfold readUint7 at hres
    obtain ⟨k, hk⟩ := readUint7Go_rest bs 0 0 n r hres
    rw [hk]
    exact fun b hb => List.mem_of_mem_drop hb
  · simp at h
  · simp at h

/-- **The decoder on arbitrary bytes.** -/
theorem decode_clean (bs : List Nat) (hb : Bytes bs) : Clean (decode bs) := by
  unfold decode
  have c0 := rdU7_clean bs
  split
  · next e he => rw [he] at c0; exact c0.cast
  · next n bs1 he1 =>
    have hb1 : Bytes bs1 := (rdU7_sub bs n bs1 he1).bytes hb
    obtain ⟨c1, r1⟩ := readParams_spec bs1 hb1
    split
    · next e he => rw [he] at c1; exact c1.cast
    · next P bs2 he2 =>
      have hP := r1 P bs2 he2
      have c2 := Dec.init_clean bs2
      split
      · next e he => rw [he] at c2; exact c2.cast
      · next d _ =>
        have hinv : DInv P n ⟨Models.new P.maxSymbolCount P.selectorCount, d, Rec.init, 0, 0, 0, 0, [], []⟩ :=
          ⟨decModels_sized P hP, fun h => absurd rfl h, rfl, fun _ => ⟨rfl, fun e he => by simp at he, Nat.zero_le _⟩⟩
        obtain ⟨c3, r3⟩ := decLoop_spec P hP n n _ hinv (by simp only; omega)
        split
        · next e he => rw [he] at c3; exact c3.cast
        · next st he3 =>
          obtain ⟨hinv3, hend⟩ := r3 st he3
          split
          · next hrev =>
            obtain ⟨h1, h2, h3⟩ := hinv3.rev hrev
            apply reverseQualities_spec
            · rw [List.map_reverse, List.sum_reverse, List.length_reverse, h1, hinv3.outLen]
              omega
            · intro e he
              exact h2 e (List.mem_reverse.mp he)
          · exact clean_ok _

end Noodles.Cram.Fqz
