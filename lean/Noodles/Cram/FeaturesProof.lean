import Noodles.Cram.Features
/-! Helper lemmas for `Noodles.Props.C07` (edit-script core): the reader's base iterator and CIGAR
iterator invert `cigar_to_features`. -/
namespace Noodles.Cram

/-! ### small facts about bytes and bases -/

theorem upper_idem (b : Nat) : upper (upper b) = upper b := by
  unfold upper isLower
  by_cases h : 97 ≤ b ∧ b ≤ 122
  · have h2 : ¬ (97 ≤ b - 32 ∧ b - 32 ≤ 122) := by omega
    simp [h]
    intro _ _; omega
  · simp [h]

theorem eqIC_iff (a b : Nat) : eqIC a b = true ↔ upper a = upper b := by
  unfold eqIC; simp

theorem Base.ofByte_upper (b : Nat) : Base.ofByte (upper b) = Base.ofByte b := by
  unfold Base.ofByte; rw [upper_idem]

/-- a byte that is a base upper-cases to that base's letter -/
theorem Base.upper_of_ofByte {b : Nat} {x : Base} (h : Base.ofByte b = some x) : upper b = x.toByte := by
  unfold Base.ofByte at h
  split at h <;> simp at h <;> subst h <;> simp [Base.toByte, *]

theorem Base.upper_toByte (x : Base) : upper x.toByte = x.toByte := by
  cases x <;> decide

theorem Base.upper_lower_toByte (x : Base) : upper (lower x.toByte) = x.toByte := by
  cases x <;> decide

theorem Base.ofByte_toByte (x : Base) : Base.ofByte x.toByte = some x := by
  cases x <;> decide

theorem Matrix.get_find (m : Matrix) (hm : m.OK) (r b : Base) (h : r ≠ b) : m.get r (m.find r b) = b := by
  obtain ⟨c, hc, hcb⟩ := hm r b h
  unfold Matrix.find
  by_cases h0 : m.get r 0 = b
  · simp [h0]
  by_cases h1 : m.get r 1 = b
  · simp [h0, h1]
  by_cases h2 : m.get r 2 = b
  · simp [h0, h1, h2]
  by_cases h3 : m.get r 3 = b
  · simp [h0, h1, h2, h3]
  · exfalso
    have : c = 0 ∨ c = 1 ∨ c = 2 ∨ c = 3 := by omega
    rcases this with rfl | rfl | rfl | rfl
    · exact h0 hcb
    · exact h1 hcb
    · exact h2 hcb
    · exact h3 hcb

/-! ### list slicing -/

theorem slice_zero {α : Type} (l : List α) (i : Nat) : slice l i 0 = [] := by simp [slice]

theorem slice_length {α : Type} (l : List α) (i n : Nat) (h : i + n ≤ l.length) : (slice l i n).length = n := by
  simp [slice]; omega

theorem drop_eq_slice_append {α : Type} (l : List α) (a b : Nat) (h : a ≤ b) :
    l.drop a = slice l a (b - a) ++ l.drop b := by
  unfold slice
  have : l.drop b = (l.drop a).drop (b - a) := by
    rw [List.drop_drop]; congr 1; omega
  rw [this, List.take_append_drop]

theorem slice_succ {α : Type} (l : List α) (i n : Nat) (d : α) (h : i + n < l.length) :
    slice l i (n + 1) = slice l i n ++ [l.getD (i + n) d] := by
  unfold slice
  rw [List.take_add_one]
  congr 1
  have h1 : (l.drop i)[n]? = some (l.getD (i + n) d) := by
    rw [List.getElem?_drop]
    simp [List.getD, List.getElem?_eq_getElem h]
  simp [h1]

theorem drop_eq_cons {α : Type} (l : List α) (i : Nat) (d : α) (h : i < l.length) :
    l.drop i = l.getD i d :: l.drop (i + 1) := by
  rw [List.drop_eq_getElem_cons h]
  simp [List.getD, List.getElem?_eq_getElem h]

theorem slice_one {α : Type} (l : List α) (i : Nat) (d : α) (h : i < l.length) :
    slice l i 1 = [l.getD i d] := by
  have := slice_succ l i 0 d (by omega)
  simpa [slice_zero] using this

/-! ### bases: the reader lags behind the writer by a stretch of matching bases -/

section bases
variable (ref seq : List Nat) (m : Matrix) (L : Nat)

/-- the reader at (`r'`,`q'`) is behind the writer at (`r`,`q`) by `q - q'` bases that match the
reference case-insensitively -/
def Lag (r q r' q' : Nat) : Prop :=
  q' ≤ q ∧ r = r' + (q - q') ∧ (slice ref r' (q - q')).map upper = (slice seq q' (q - q')).map upper

/-- from any lagging reader state, reading `rest` yields the remaining read bases -/
def Good (rest : List Feature) (r q : Nat) : Prop :=
  ∀ r' q', Lag ref seq r q r' q' → (seqGo ref m L r' q' rest).map upper = (seq.drop q').map upper

theorem Lag.refl (r q : Nat) : Lag ref seq r q r q := by
  refine ⟨Nat.le_refl _, by omega, ?_⟩
  simp [slice_zero]

theorem Lag.extend {r q r' q' : Nat} (h : Lag ref seq r q r' q') (hr : r < ref.length) (hq : q < seq.length)
    (he : upper (ref.getD r 0) = upper (seq.getD q 0)) : Lag ref seq (r + 1) (q + 1) r' q' := by
  obtain ⟨h1, h2, h3⟩ := h
  refine ⟨by omega, by omega, ?_⟩
  have e : q + 1 - q' = (q - q') + 1 := by omega
  rw [e, slice_succ ref r' (q - q') 0 (by omega), slice_succ seq q' (q - q') 0 (by omega)]
  simp only [List.map_append, h3, List.map_cons, List.map_nil]
  have a : r' + (q - q') = r := by omega
  have b : q' + (q - q') = q := by omega
  rw [a, b, he]

/-- one feature: reference stretch, then the feature's bases, then the rest -/
theorem Good.step (f : Feature) (rest : List Feature) (r q dr dq : Nat)
    (hd : f.delta = some (dr, dq)) (hp : f.pos = q + 1)
    (he : (f.emit ref m r).map upper = (slice seq q dq).map upper)
    (hrest : Good ref seq m L rest (r + dr) (q + dq)) :
    Good ref seq m L (f :: rest) r q := by
  intro r' q' ⟨h1, h2, h3⟩
  have hk : f.pos - (q' + 1) = q - q' := by omega
  have a : r' + (q - q') = r := by omega
  have b : q' + (q - q') = q := by omega
  simp only [seqGo, hd, hk, a, b, List.map_append]
  rw [hrest (r + dr) (q + dq) (Lag.refl ref seq _ _)]
  simp only [h3, he]
  rw [drop_eq_slice_append seq q' q h1, drop_eq_slice_append seq q (q + dq) (by omega),
    Nat.add_sub_cancel_left]
  simp only [List.map_append, List.append_assoc]

/-- a feature the base iterator skips -/
theorem Good.skip (f : Feature) (rest : List Feature) (r q : Nat) (hd : f.delta = none)
    (hrest : Good ref seq m L rest r q) : Good ref seq m L (f :: rest) r q := by
  intro r' q' h
  simp only [seqGo, hd]
  exact hrest r' q' h

theorem emit_mismatch (hm : m.OK) (r q qOp : Nat)
    (hne : eqIC (ref.getD r 0) (seq.getD q 0) = false) (hq : q < seq.length) :
    let f := mismatchFeature m (q + 1) (ref.getD r 0) (seq.getD q 0) qOp
    f.delta = some (1, 1) ∧ f.pos = q + 1 ∧ (f.emit ref m r).map upper = (slice seq q 1).map upper := by
  have hne' : upper (ref.getD r 0) ≠ upper (seq.getD q 0) := by
    intro h; rw [(eqIC_iff _ _).mpr h] at hne; exact Bool.noConfusion hne
  rw [slice_one seq q 0 hq]
  unfold mismatchFeature
  cases hr : Base.ofByte (ref.getD r 0) with
  | none => simp [Feature.delta, Feature.pos, Feature.emit]
  | some x =>
    cases hb : Base.ofByte (seq.getD q 0) with
    | none => simp [Feature.delta, Feature.pos, Feature.emit]
    | some y =>
      have hxy : x ≠ y := by
        intro e; subst e
        exact hne' ((Base.upper_of_ofByte hr).trans (Base.upper_of_ofByte hb).symm)
      simp only [Feature.delta, Feature.pos, Feature.emit, substBase, hr, Option.getD_some,
        Matrix.get_find m hm x y hxy, List.map_cons, List.map_nil, true_and]
      rw [Base.upper_of_ofByte hb]
      split
      · rw [Base.upper_lower_toByte]
      · rw [Base.upper_toByte]

/-- Lemma A: the features of a match-like operation -/
theorem Good.matchGo (hm : m.OK) (qOp : Nat) (rest : List Feature) :
    ∀ (n r q : Nat), r + n ≤ ref.length → q + n ≤ seq.length →
      Good ref seq m L rest (r + n) (q + n) →
      Good ref seq m L (matchGo ref seq m qOp r q n ++ rest) r q := by
  intro n
  induction n with
  | zero => intro r q _ _ h; simpa [Noodles.Cram.matchGo] using h
  | succ n ih =>
    intro r q hr hq h
    have ih' := ih (r + 1) (q + 1) (by omega) (by omega) (by
      have e1 : r + 1 + n = r + (n + 1) := by omega
      have e2 : q + 1 + n = q + (n + 1) := by omega
      rw [e1, e2]; exact h)
    unfold Noodles.Cram.matchGo
    cases he : eqIC (ref.getD r 0) (seq.getD q 0) with
    | true =>
      simp only [if_true, List.nil_append]
      intro r' q' hl
      exact ih' r' q' (hl.extend ref seq (by omega) (by omega) ((eqIC_iff _ _).mp he))
    | false =>
      simp only [Bool.false_eq_true, if_false, List.cons_append, List.nil_append]
      obtain ⟨h1, h2, h3⟩ := emit_mismatch ref seq m hm r q qOp he (by omega)
      exact Good.step ref seq m L _ _ r q 1 1 h1 h2 h3 ih'

/-- Lemma B: the features of a whole CIGAR -/
theorem Good.featGo (hm : m.OK) (quals : List Nat) (hL : L = seq.length) :
    ∀ (c : Cigar) (r q : Nat), r + refLen c ≤ ref.length → q + readLen c = seq.length →
      Good ref seq m L (featGo ref seq quals m r q c) r q := by
  intro c
  induction c with
  | nil =>
    intro r q _ hq r' q' ⟨h1, h2, h3⟩
    simp only [readLen, List.map_nil, List.sum_nil, Nat.add_zero] at hq
    simp only [Noodles.Cram.featGo, seqGo]
    rw [hL, ← hq, h3, drop_eq_slice_append seq q' q h1]
    have : seq.drop q = [] := by simp [hq]
    simp [this]
  | cons op ops ih =>
    intro r q hr hq
    have hrl : readLen (op :: ops) = (if op.kind.consumesRead then op.len else 0) + readLen ops := by
      simp [readLen]
    have hfl : refLen (op :: ops) = (if op.kind.consumesRef then op.len else 0) + refLen ops := by
      simp [refLen]
    rw [hrl] at hq
    rw [hfl] at hr
    unfold Noodles.Cram.featGo
    cases hk : op.kind <;> simp only [hk, Kind.consumesRead, Kind.consumesRef, if_true, Bool.false_eq_true, if_false] at hq hr ⊢
    case M | Eq | X =>
      all_goals exact Good.matchGo ref seq m L hm _ _ op.len r q (by omega) (by omega) (ih _ _ (by omega) (by omega))
    case I =>
      split
      · next h1 =>
        refine Good.step ref seq m L _ _ r q 0 1 rfl rfl ?_ (by rw [h1] at hq ⊢; exact ih _ _ (by omega) (by omega))
        simp only [Feature.emit]
        rw [slice_one seq q 0 (by omega)]
      · refine Good.step ref seq m L _ _ r q 0 op.len ?_ rfl ?_ (ih _ _ (by omega) (by omega))
        · simp only [Feature.delta]; rw [slice_length seq q op.len (by omega)]
        · simp only [Feature.emit]
    case D =>
      refine Good.step ref seq m L _ _ r q op.len 0 rfl rfl ?_ (ih _ _ (by omega) (by omega))
      simp [Feature.emit, slice_zero]
    case N =>
      refine Good.step ref seq m L _ _ r q op.len 0 rfl rfl ?_ (ih _ _ (by omega) (by omega))
      simp [Feature.emit, slice_zero]
    case S =>
      refine Good.step ref seq m L _ _ r q 0 op.len ?_ rfl ?_ (ih _ _ (by omega) (by omega))
      · simp only [Feature.delta]; rw [slice_length seq q op.len (by omega)]
      · simp only [Feature.emit]
    case H =>
      refine Good.step ref seq m L _ _ r q 0 0 rfl rfl ?_ (ih _ _ (by omega) (by omega))
      simp [Feature.emit, slice_zero]
    case P =>
      refine Good.step ref seq m L _ _ r q 0 0 rfl rfl ?_ (ih _ _ (by omega) (by omega))
      simp [Feature.emit, slice_zero]

end bases

/-! ### CIGAR: `TrySimplify` computes the run-length encoding of the expansion -/

def Pos (c : Cigar) : Prop := ∀ op ∈ c, 0 < op.len

theorem rle_cons_head (k : Kind) (ks : List Kind) : ∃ n rest, rle (k :: ks) = ⟨k, n⟩ :: rest := by
  unfold rle
  cases h : rle ks with
  | nil => exact ⟨1, [], rfl⟩
  | cons op rest =>
    by_cases hk : k = op.kind
    · exact ⟨op.len + 1, rest, by simp [hk]⟩
    · exact ⟨1, op :: rest, by simp [hk]⟩

/-- a run in front of a string that starts with another symbol (or is empty) -/
theorem rle_replicate_append (k : Kind) (n : Nat) (hn : 0 < n) (y : List Kind)
    (hy : ∀ k' y', y = k' :: y' → k ≠ k') : rle (List.replicate n k ++ y) = ⟨k, n⟩ :: rle y := by
  induction n with
  | zero => omega
  | succ n ih =>
    cases n with
    | zero =>
      simp only [List.replicate, List.nil_append, List.cons_append]
      cases y with
      | nil => simp [rle]
      | cons k' y' =>
        obtain ⟨n', rest, h⟩ := rle_cons_head k' y'
        have hne := hy k' y' rfl
        rw [rle, h]
        simp [hne]
    | succ n =>
      have := ih (by omega)
      rw [List.replicate_succ, List.cons_append, rle, this]
      simp

theorem expand_cons (op : Op) (ops : Cigar) : expand (op :: ops) = List.replicate op.len op.kind ++ expand ops := rfl

theorem expand_append (a b : Cigar) : expand (a ++ b) = expand a ++ expand b := by
  induction a with
  | nil => rfl
  | cons op ops ih => simp [expand_cons, ih]

theorem simpGo_eq_rle : ∀ (ops : Cigar) (p : Op), 0 < p.len → Pos ops →
    simpGo (some p) ops = rle (List.replicate p.len p.kind ++ expand ops) := by
  intro ops
  induction ops with
  | nil =>
    intro p hp _
    have := rle_replicate_append p.kind p.len hp [] (by intro k' y' h; cases h)
    simpa [simpGo, expand, rle] using this.symm
  | cons op ops ih =>
    intro p hp hpos
    have hop : 0 < op.len := hpos op (by simp)
    have hpos' : Pos ops := fun o ho => hpos o (by simp [ho])
    unfold simpGo
    by_cases hk : p.kind = op.kind
    · simp only [hk, if_true]
      have := ih ⟨op.kind, p.len + op.len⟩ (by simp; omega) hpos'
      rw [this, expand_cons, ← List.append_assoc, List.replicate_append_replicate]
    · simp only [hk, if_false]
      rw [ih op hop hpos', expand_cons]
      have hhead : ∀ k' y', List.replicate op.len op.kind ++ expand ops = k' :: y' → p.kind ≠ k' := by
        intro k' y' h
        cases hl : op.len with
        | zero => omega
        | succ l =>
          rw [hl, List.replicate_succ, List.cons_append] at h
          injection h with h1 _
          rw [← h1]; exact hk
      rw [rle_replicate_append p.kind p.len hp _ hhead]

theorem simplify_eq_rle (c : Cigar) (h : Pos c) : simplify c = rle (expand c) := by
  unfold simplify
  cases c with
  | nil => rfl
  | cons op ops =>
    rw [simpGo, simpGo_eq_rle ops op (h op (by simp)) (fun o ho => h o (by simp [ho])), expand_cons]

theorem Kind.toM_M : Kind.toM .M = .M := rfl
theorem Kind.toM_I : Kind.toM .I = .I := rfl
theorem Kind.toM_D : Kind.toM .D = .D := rfl
theorem Kind.toM_N : Kind.toM .N = .N := rfl
theorem Kind.toM_S : Kind.toM .S = .S := rfl
theorem Kind.toM_H : Kind.toM .H = .H := rfl
theorem Kind.toM_P : Kind.toM .P = .P := rfl
theorem Kind.toM_Eq : Kind.toM .Eq = .M := rfl
theorem Kind.toM_X : Kind.toM .X = .M := rfl

/-! ### CIGAR: the reader's operation stream expands to the writer's CIGAR with `=`/`X` as `M` -/

section cigar
variable (ref seq : List Nat) (m : Matrix) (L : Nat)

/-- from any reader position `q' ≤ q`, `rest` yields the lag as matches and then `tail` -/
def CGood (rest : List Feature) (q : Nat) (tail : List Kind) : Prop :=
  ∀ q', q' ≤ q → expand (cigGo L q' rest) = List.replicate (q - q') Kind.M ++ tail

theorem CGood.step (f : Feature) (rest : List Feature) (q : Nat) (op : Op) (tail : List Kind)
    (hc : f.cigarOp = some op) (hp : f.pos = q + 1)
    (hrest : CGood L rest (if op.kind.consumesRead then q + op.len else q) tail) :
    CGood L (f :: rest) q (List.replicate op.len op.kind ++ tail) := by
  intro q' hq
  have h0 := hrest _ (Nat.le_refl _)
  simp only [Nat.sub_self, List.replicate_zero, List.nil_append] at h0
  unfold cigGo
  simp only [hc, hp]
  by_cases hlt : q + 1 > q' + 1
  · have e1 : q + 1 - 1 = q := by omega
    simp only [hlt, if_true, e1, expand_append, expand, List.append_nil, h0]
    have : q + 1 - (q' + 1) = q - q' := by omega
    rw [this]
  · have : q' = q := by omega
    subst this
    simp only [hlt, if_false, List.nil_append, expand_cons, h0, Nat.sub_self, List.replicate_zero]

/-- `ReadBase` (and `Bases`) produce no operation and do not advance the CIGAR iterator -/
theorem CGood.skip (f : Feature) (rest : List Feature) (q : Nat) (tail : List Kind)
    (hc : f.cigarOp = none) (hp : f.pos = q + 1) (hrest : CGood L rest (q + 1) tail) :
    CGood L (f :: rest) q (Kind.M :: tail) := by
  intro q' hq
  have h0 := hrest q (by omega)
  have e0 : q + 1 - q = 1 := by omega
  simp only [e0, List.replicate_one, List.singleton_append] at h0
  unfold cigGo
  simp only [hc, hp]
  by_cases hlt : q + 1 > q' + 1
  · have e1 : q + 1 - 1 = q := by omega
    simp only [hlt, if_true, e1, expand_append, expand, List.append_nil, h0]
    have : q + 1 - (q' + 1) = q - q' := by omega
    rw [this]
  · have : q' = q := by omega
    subst this
    simp only [hlt, if_false, List.nil_append, h0, Nat.sub_self, List.replicate_zero]

/-- a base that matches the reference: no feature, the lag grows by one -/
theorem CGood.grow (rest : List Feature) (q : Nat) (tail : List Kind)
    (hrest : CGood L rest (q + 1) tail) : CGood L rest q (Kind.M :: tail) := by
  intro q' hq
  rw [hrest q' (by omega)]
  have : q + 1 - q' = (q - q') + 1 := by omega
  rw [this, List.replicate_succ', List.append_assoc]
  rfl

theorem CGood.matchGo (qOp : Nat) (rest : List Feature) (tail : List Kind) :
    ∀ (n r q : Nat), CGood L rest (q + n) tail →
      CGood L (matchGo ref seq m qOp r q n ++ rest) q (List.replicate n Kind.M ++ tail) := by
  intro n
  induction n with
  | zero => intro r q h; simpa [Noodles.Cram.matchGo] using h
  | succ n ih =>
    intro r q h
    have ih' := ih (r + 1) (q + 1) (by
      have e : q + 1 + n = q + (n + 1) := by omega
      rw [e]; exact h)
    unfold Noodles.Cram.matchGo
    rw [List.replicate_succ, List.cons_append]
    cases he : eqIC (ref.getD r 0) (seq.getD q 0) with
    | true =>
      simp only [if_true, List.nil_append]
      exact CGood.grow L _ q _ ih'
    | false =>
      simp only [Bool.false_eq_true, if_false, List.cons_append, List.nil_append]
      unfold mismatchFeature
      split
      · next rb bb _ _ =>
        have := CGood.step L (Feature.subst (q + 1) (m.find rb bb)) _ q ⟨.M, 1⟩ _ rfl rfl
          (by simpa [Kind.consumesRead] using ih')
        simpa using this
      · exact CGood.skip L _ _ q _ rfl rfl ih'

theorem CGood.featGo (quals : List Nat) (hL : L = seq.length) :
    ∀ (c : Cigar) (r q : Nat), q + readLen c = seq.length →
      CGood L (featGo ref seq quals m r q c) q (expand (c.map fun op => ⟨op.kind.toM, op.len⟩)) := by
  intro c
  induction c with
  | nil =>
    intro r q hq q' hle
    simp only [readLen, List.map_nil, List.sum_nil, Nat.add_zero] at hq
    simp only [Noodles.Cram.featGo, cigGo, List.map_nil, expand, List.append_nil]
    by_cases h : q' + 1 ≤ L
    · have : L - (q' + 1) + 1 = q - q' := by omega
      simp [h, expand, this]
    · have : q - q' = 0 := by omega
      simp [h, expand, this]
  | cons op ops ih =>
    intro r q hq
    have hrl : readLen (op :: ops) = (if op.kind.consumesRead then op.len else 0) + readLen ops := by
      simp [readLen]
    rw [hrl] at hq
    unfold Noodles.Cram.featGo
    rw [List.map_cons, expand_cons]
    cases hk : op.kind <;> simp only [hk, Kind.consumesRead, if_true, Bool.false_eq_true, if_false, Kind.toM_M, Kind.toM_I, Kind.toM_D, Kind.toM_N, Kind.toM_S, Kind.toM_H, Kind.toM_P, Kind.toM_Eq, Kind.toM_X] at hq ⊢
    case M | Eq | X =>
      all_goals exact CGood.matchGo ref seq m L _ _ _ op.len r q (ih _ _ (by omega))
    case I =>
      split
      · next h1 =>
        have := CGood.step L (Feature.insertBase (q + 1) (seq.getD q 0)) _ q ⟨.I, 1⟩ _ rfl rfl
          (by simpa [Kind.consumesRead, h1] using ih r (q + op.len) (by omega))
        simpa [h1] using this
      · have hl : (slice seq q op.len).length = op.len := slice_length seq q op.len (by omega)
        have := CGood.step L (Feature.insertion (q + 1) (slice seq q op.len)) _ q ⟨.I, op.len⟩ _
          (by simp [Feature.cigarOp, hl]) rfl
          (by simpa [Kind.consumesRead] using ih r (q + op.len) (by omega))
        simpa using this
    case D =>
      have := CGood.step L (Feature.deletion (q + 1) op.len) _ q ⟨.D, op.len⟩ _ rfl rfl
        (by simpa [Kind.consumesRead] using ih (r + op.len) q (by omega))
      simpa using this
    case N =>
      have := CGood.step L (Feature.refSkip (q + 1) op.len) _ q ⟨.N, op.len⟩ _ rfl rfl
        (by simpa [Kind.consumesRead] using ih (r + op.len) q (by omega))
      simpa using this
    case S =>
      have hl : (slice seq q op.len).length = op.len := slice_length seq q op.len (by omega)
      have := CGood.step L (Feature.softClip (q + 1) (slice seq q op.len)) _ q ⟨.S, op.len⟩ _
        (by simp [Feature.cigarOp, hl]) rfl
        (by simpa [Kind.consumesRead] using ih r (q + op.len) (by omega))
      simpa using this
    case H =>
      have := CGood.step L (Feature.hardClip (q + 1) op.len) _ q ⟨.H, op.len⟩ _ rfl rfl
        (by simpa [Kind.consumesRead] using ih r q (by omega))
      simpa using this
    case P =>
      have := CGood.step L (Feature.padding (q + 1) op.len) _ q ⟨.P, op.len⟩ _ rfl rfl
        (by simpa [Kind.consumesRead] using ih r q (by omega))
      simpa using this

/-! ### every operation the reader emits has positive length -/

def FPos (fs : List Feature) : Prop := ∀ f ∈ fs, ∀ op, f.cigarOp = some op → 0 < op.len

theorem Pos.cigGo : ∀ (fs : List Feature) (q : Nat), FPos fs → Pos (cigGo L q fs) := by
  intro fs
  induction fs with
  | nil =>
    intro q _ op hop
    unfold Noodles.Cram.cigGo at hop
    split at hop
    · simp at hop; subst hop; simp
    · simp at hop
  | cons f fs ih =>
    intro q hf op hop
    have hf' : FPos fs := fun g hg => hf g (by simp [hg])
    unfold Noodles.Cram.cigGo at hop
    have hpre : ∀ o ∈ (if f.pos > q + 1 then [(⟨.M, f.pos - (q + 1)⟩ : Op)] else []), 0 < o.len := by
      intro o ho
      split at ho
      · simp at ho; subst ho; simp; omega
      · simp at ho
    cases hc : f.cigarOp with
    | none =>
      simp only [hc, List.mem_append] at hop
      rcases hop with h | h
      · exact hpre op h
      · exact ih _ hf' op h
    | some o =>
      simp only [hc, List.mem_append, List.mem_cons] at hop
      rcases hop with h | h | h
      · exact hpre op h
      · subst h; exact hf f (by simp) _ hc
      · exact ih _ hf' op h

theorem FPos.append {a b : List Feature} (ha : FPos a) (hb : FPos b) : FPos (a ++ b) := by
  intro f hf
  rcases List.mem_append.mp hf with h | h
  · exact ha f h
  · exact hb f h

theorem FPos.matchGo (qOp : Nat) : ∀ (n r q : Nat), FPos (matchGo ref seq m qOp r q n) := by
  intro n
  induction n with
  | zero => intro r q f hf; simp [Noodles.Cram.matchGo] at hf
  | succ n ih =>
    intro r q
    unfold Noodles.Cram.matchGo
    refine FPos.append ?_ (ih _ _)
    intro f hf op hop
    split at hf
    · simp at hf
    · simp at hf; subst hf
      unfold mismatchFeature at hop
      split at hop <;> simp [Feature.cigarOp] at hop
      subst hop; simp

theorem FPos.cons {f : Feature} {fs : List Feature} (hf : ∀ op, f.cigarOp = some op → 0 < op.len)
    (hfs : FPos fs) : FPos (f :: fs) := by
  intro g hg
  rcases List.mem_cons.mp hg with h | h
  · subst h; exact hf
  · exact hfs g h

theorem FPos.featGo (quals : List Nat) :
    ∀ (c : Cigar) (r q : Nat), Pos c → q + readLen c ≤ seq.length → FPos (featGo ref seq quals m r q c) := by
  intro c
  induction c with
  | nil => intro r q _ _ f hf; simp [Noodles.Cram.featGo] at hf
  | cons op ops ih =>
    intro r q hpos hq
    have hop : 0 < op.len := hpos op (by simp)
    have hpos' : Pos ops := fun o ho => hpos o (by simp [ho])
    have hrl : readLen (op :: ops) = (if op.kind.consumesRead then op.len else 0) + readLen ops := by
      simp [readLen]
    rw [hrl] at hq
    unfold Noodles.Cram.featGo
    cases hk : op.kind <;> simp only [hk, Kind.consumesRead, if_true, Bool.false_eq_true, if_false] at hq ⊢
    case M | Eq | X =>
      all_goals exact FPos.append (FPos.matchGo ref seq m _ _ _ _) (ih _ _ hpos' (by omega))
    case I =>
      refine FPos.cons ?_ (ih _ _ hpos' (by omega))
      intro o ho
      split at ho
      · simp [Feature.cigarOp] at ho; subst ho; simp
      · simp [Feature.cigarOp] at ho; subst ho
        simp [slice_length seq q op.len (by omega)]; exact hop
    case D | N | H | P =>
      all_goals
        refine FPos.cons ?_ (ih _ _ hpos' (by omega))
        intro o ho; simp [Feature.cigarOp] at ho; subst ho; exact hop
    case S =>
      refine FPos.cons ?_ (ih _ _ hpos' (by omega))
      intro o ho
      simp [Feature.cigarOp] at ho; subst ho
      simp [slice_length seq q op.len (by omega)]; exact hop

end cigar

end Noodles.Cram
