import Noodles.Cram.BitsProof
import Noodles.Cram.NumProof
/-! helper lemmas (see Props/C07Enc.lean): Beta, Gamma and the canonical Huffman code -/
namespace Noodles.Cram.Enc
open Noodles.Cram.Num (toU ofU)

/-! ## small arithmetic facts -/

theorem toU32_of_nonneg (x : Int) (h0 : 0 ≤ x) (h1 : x < 2 ^ 32) : toU 32 x = x.toNat := by
  unfold toU; omega

theorem toU32_natCast (n : Nat) (h : n < 2 ^ 32) : toU 32 (n : Int) = n := by
  unfold toU; omega

theorem ofU32_small (n : Nat) (h : n < 2 ^ 31) : ofU 32 n = (n : Int) := by
  unfold ofU; simp; omega

theorem sub32_ok (x y v : Int) (hv : isI32 v) (h : x - y = v) : sub32 x y = .ok v := by
  unfold sub32; unfold isI32 at hv
  rw [if_pos (by omega), h]

/-! ## Beta -/

theorem beta_decode (offset : Int) (len : Nat) (v : Int) (hl : len ≤ 31) (hv : isI32 v)
    (h0 : 0 ≤ v + offset) (h1 : v + offset < 2 ^ len) (st : RS) (hr : st.core.OK) (t : List Bool)
    (hrem : st.core.rem = betaBits offset len v ++ t) :
    ∃ r', r'.rem = t ∧ r'.OK ∧ (IntEnc.beta offset len).decode st = .ok (v, { st with core := r' }) := by
  obtain ⟨r', h2, h3, h4⟩ := readU32_rem st.core hr len (v + offset).toNat hl t hrem
  refine ⟨r', h3, h4, ?_⟩
  have hlt : (v + offset).toNat < 2 ^ len := by
    have : ((v + offset).toNat : Int) < ((2 ^ len : Nat) : Int) := by
      rw [Int.toNat_of_nonneg h0]; simpa using h1
    exact Int.ofNat_lt.mp this
  rw [Nat.mod_eq_of_lt hlt] at h2
  simp only [IntEnc.decode, h2]
  rw [sub32_ok _ _ v hv (by rw [Int.toNat_of_nonneg h0]; omega)]

/-! ## log2 -/

theorem log2Go_spec : ∀ (f x : Nat), 1 ≤ x → x ≤ f → 2 ^ log2Go f x ≤ x ∧ x < 2 ^ (log2Go f x + 1)
  | 0, x, h1, h2 => by omega
  | f + 1, x, h1, h2 => by
    unfold log2Go
    by_cases hx : x ≤ 1
    · rw [if_pos hx]; have : x = 1 := by omega
      subst this; simp
    · rw [if_neg hx]
      have ih := log2Go_spec f (x / 2) (by omega) (by omega)
      rw [Nat.add_comm 1, Nat.pow_succ, Nat.pow_succ]
      omega

theorem log2_spec (x : Nat) (h : 1 ≤ x) : 2 ^ log2 x ≤ x ∧ x < 2 ^ (log2 x + 1) :=
  log2Go_spec x x h (Nat.le_refl x)

theorem log2_le (x k : Nat) (h : 1 ≤ x) (hk : x < 2 ^ (k + 1)) : log2 x ≤ k := by
  have h1 := (log2_spec x h).1
  apply Classical.byContradiction
  intro hn
  have : 2 ^ (k + 1) ≤ 2 ^ log2 x := Nat.pow_le_pow_right (by decide) (by omega)
  omega

/-! ## Gamma -/

theorem rem_length_le (r : BitReader) (_h : r.OK) : r.rem.length ≤ 8 * r.src.length + 8 := by
  unfold BitReader.rem
  rw [List.length_append, codeBits_length]
  have : ∀ l : List Nat, (bytesBits l).length = 8 * l.length := by
    intro l
    induction l with
    | nil => rfl
    | cons a l ih =>
      simp only [bytesBits, List.flatMap_cons, List.length_append, List.length_cons] at ih ⊢
      rw [ih]; simp only [byteBits, codeBits_length]; omega
  rw [this]; omega

theorem gammaZeros_spec : ∀ (n f k : Nat) (r : BitReader) (t : List Bool), r.OK →
    r.rem = List.replicate n false ++ true :: t → n < f →
    ∃ r', gammaZeros f k r = .ok (k + n, r') ∧ r'.rem = t ∧ r'.OK
  | 0, f, k, r, t, hr, hrem, hf => by
    obtain ⟨f, rfl⟩ : ∃ f', f = f' + 1 := ⟨f - 1, by omega⟩
    have := readBit_rem r hr
    rw [hrem] at this
    simp only [List.replicate_zero, List.nil_append] at this
    obtain ⟨r', h1, h2, h3⟩ := this
    refine ⟨r', ?_, h2, h3⟩
    simp [gammaZeros, h1]
  | n + 1, f, k, r, t, hr, hrem, hf => by
    obtain ⟨f, rfl⟩ : ∃ f', f = f' + 1 := ⟨f - 1, by omega⟩
    have := readBit_rem r hr
    rw [hrem] at this
    simp only [List.replicate_succ, List.cons_append] at this
    obtain ⟨r', h1, h2, h3⟩ := this
    obtain ⟨r'', h4, h5, h6⟩ := gammaZeros_spec n f (k + 1) r' t h3 h2 (by omega)
    refine ⟨r'', ?_, h5, h6⟩
    simp only [gammaZeros, h1, Bool.toNat_false, if_pos]
    rw [h4]; congr 2; omega

theorem gamma_decode (offset : Int) (v : Int) (hv : isI32 v)
    (h0 : 1 ≤ v + offset) (h1 : v + offset < 2 ^ 31) (st : RS) (hr : st.core.OK) (t : List Bool)
    (hrem : st.core.rem = gammaBits offset v ++ t) :
    ∃ r', r'.rem = t ∧ r'.OK ∧ (IntEnc.gamma offset).decode st = .ok (v, { st with core := r' }) := by
  have hx1 : 1 ≤ (v + offset).toNat := by omega
  have hx2 : (v + offset).toNat < 2 ^ 31 := by omega
  generalize hx : (v + offset).toNat = x at *
  have hxi : (x : Int) = v + offset := by omega
  have hn := log2_spec x hx1
  have hn30 := log2_le x 30 hx1 hx2
  generalize hnn : log2 x = n at *
  have hrem' : st.core.rem = List.replicate n false ++ true :: (codeBits x n ++ t) := by
    rw [hrem]; simp [gammaBits, hx, hnn]
  have hlen := rem_length_le st.core hr
  have hfuel : n < gammaFuel st.core := by
    unfold gammaFuel
    have : st.core.rem.length = n + 1 + (codeBits x n ++ t).length := by
      rw [hrem']; simp; omega
    omega
  obtain ⟨r1, g1, g2, g3⟩ := gammaZeros_spec n _ 0 st.core _ hr hrem' hfuel
  obtain ⟨r2, g4, g5, g6⟩ := readU32_rem r1 g3 n x (by omega) t g2
  refine ⟨r2, g5, g6, ?_⟩
  simp only [IntEnc.decode, g1, Nat.zero_add, g4]
  have hsum : 2 ^ n + x % 2 ^ n = x := by
    have hd : x / 2 ^ n = 1 := by
      apply Nat.div_eq_of_lt_le
      · omega
      · rw [Nat.pow_succ] at hn; omega
    have := Nat.div_add_mod x (2 ^ n)
    rw [hd] at this; omega
  rw [hsum, ofU32_small x hx2, sub32_ok _ _ v hv (by omega)]

/-! ## insertion sort -/

theorem insertBy_perm {α : Type} (le : α → α → Bool) (x : α) : ∀ l : List α, (insertBy le x l).Perm (x :: l)
  | [] => List.Perm.refl _
  | y :: ys => by
    unfold insertBy
    split
    · exact List.Perm.refl _
    · exact ((insertBy_perm le x ys).cons y).trans (List.Perm.swap x y ys)

theorem isort_perm {α : Type} (le : α → α → Bool) : ∀ l : List α, (isort le l).Perm l
  | [] => List.Perm.refl _
  | x :: l => by
    have : isort le (x :: l) = insertBy le x (isort le l) := rfl
    rw [this]
    exact (insertBy_perm le x _).trans ((isort_perm le l).cons x)

theorem insertBy_sorted {α : Type} (le : α → α → Bool) (R : α → α → Prop)
    (hle : ∀ a b, le a b = true → R a b) (hnle : ∀ a b, le a b = false → R b a)
    (htr : ∀ a b c, R a b → R b c → R a c) (x : α) :
    ∀ l : List α, l.Pairwise R → (insertBy le x l).Pairwise R
  | [], _ => by simp [insertBy]
  | y :: ys, h => by
    unfold insertBy
    rw [List.pairwise_cons] at h
    split
    · next hxy =>
      have hxy := hle _ _ hxy
      refine List.pairwise_cons.mpr ⟨?_, List.pairwise_cons.mpr h⟩
      intro a ha
      rcases List.mem_cons.mp ha with rfl | ha
      · exact hxy
      · exact htr _ _ _ hxy (h.1 a ha)
    · next hxy =>
      have hxy := hnle _ _ (by simpa using hxy)
      refine List.pairwise_cons.mpr ⟨?_, insertBy_sorted le R hle hnle htr x ys h.2⟩
      intro a ha
      rcases List.mem_cons.mp ((insertBy_perm le x ys).mem_iff.mp ha) with rfl | ha
      · exact hxy
      · exact h.1 a ha

theorem isort_sorted {α : Type} (le : α → α → Bool) (R : α → α → Prop)
    (hle : ∀ a b, le a b = true → R a b) (hnle : ∀ a b, le a b = false → R b a)
    (htr : ∀ a b c, R a b → R b c → R a c) : ∀ l : List α, (isort le l).Pairwise R
  | [] => List.Pairwise.nil
  | x :: l => by
    have : isort le (x :: l) = insertBy le x (isort le l) := rfl
    rw [this]
    exact insertBy_sorted le R hle hnle htr x _ (isort_sorted le R hle hnle htr l)

/-- sorting by `(bit_len, symbol)` makes the lengths non-decreasing -/
theorem isort_keyLe_sorted (l : List (Int × Nat)) : (isort keyLe l).Pairwise (fun a b => a.2 ≤ b.2) := by
  apply isort_sorted keyLe
  · intro a b h; simp [keyLe] at h; omega
  · intro a b h; simp [keyLe] at h; omega
  · intro a b c h1 h2; omega

theorem isort_nat_sorted (l : List Nat) :
    (isort (fun a b => decide (a ≤ b)) l).Pairwise (fun a b => a ≤ b) := by
  apply isort_sorted
  · intro a b h; simpa using h
  · intro a b h; simp at h; omega
  · intro a b c h1 h2; omega

/-! ## `eraseDups` of a sorted list -/

theorem eraseDups_sorted : ∀ (k : Nat) (l : List Nat), l.length ≤ k → l.Pairwise (fun a b => a ≤ b) →
    l.eraseDups.Pairwise (fun a b => a < b)
  | _, [], _, _ => by simp
  | 0, a :: l, h, _ => by simp at h
  | k + 1, a :: l, h, hp => by
    rw [List.eraseDups_cons]
    rw [List.pairwise_cons] at hp
    refine List.pairwise_cons.mpr ⟨?_, ?_⟩
    · intro b hb
      rw [List.mem_eraseDups, List.mem_filter] at hb
      have := hp.1 b hb.1
      have hne : b ≠ a := by simpa using hb.2
      omega
    · apply eraseDups_sorted k
      · have := List.length_filter_le (fun b => !b == a) l
        simp only [List.length_cons] at h; omega
      · exact hp.2.filter _

theorem distinctLens_sorted (book : List Entry) : (distinctLens book).Pairwise (fun a b => a < b) :=
  eraseDups_sorted _ _ (Nat.le_refl _) (isort_nat_sorted _)

theorem mem_distinctLens (book : List Entry) (l : Nat) : l ∈ distinctLens book ↔ ∃ e ∈ book, e.len = l := by
  unfold distinctLens
  rw [List.mem_eraseDups, (isort_perm _ _).mem_iff, List.mem_map]

/-! ## code words -/

theorem codeBits_append (c d : Nat) : ∀ m : Nat, codeBits c (m + d) = codeBits (c / 2 ^ d) m ++ codeBits c d
  | 0 => by simp [codeBits]
  | m + 1 => by
    have : m + 1 + d = (m + d) + 1 := by omega
    rw [this, codeBits, codeBits, codeBits_append c d m, Nat.div_div_eq_div_mul, ← Nat.pow_add,
      Nat.add_comm d m]
    rfl

/-- the number a bit string (most significant first) stands for -/
def bitsVal : List Bool → Nat
  | [] => 0
  | b :: l => b.toNat * 2 ^ l.length + bitsVal l

theorem bitsVal_codeBits (c : Nat) : ∀ n : Nat, bitsVal (codeBits c n) = c % 2 ^ n
  | 0 => by simp [codeBits, bitsVal, Nat.mod_one]
  | n + 1 => by
    rw [codeBits, bitsVal, bitsVal_codeBits c n, codeBits_length, Nat.mod_pow_succ]
    have : c / 2 ^ n % 2 = 0 ∨ c / 2 ^ n % 2 = 1 := by omega
    rcases this with h | h <;> simp [h] <;> omega

theorem codeBits_inj (n a b : Nat) (ha : a < 2 ^ n) (hb : b < 2 ^ n) (h : codeBits a n = codeBits b n) :
    a = b := by
  have h1 := bitsVal_codeBits a n
  have h2 := bitsVal_codeBits b n
  rw [h, h2, Nat.mod_eq_of_lt ha, Nat.mod_eq_of_lt hb] at h1
  exact h1.symm


/-! ## `assignCodes` -/

theorem kraftSum_cons (L l : Nat) (ls : List Nat) : kraftSum L (l :: ls) = 2 ^ (L - l) + kraftSum L ls := by
  simp [kraftSum]

theorem shift_ok (c prev len : Nat) (hp : prev ≤ len) (hl : len ≤ 31) (h : c * 2 ^ (len - prev) < 2 ^ 31) :
    (if len > prev then shl32 (c : Int) (len - prev) else .ok (c : Int)) =
      .ok ((c * 2 ^ (len - prev) : Nat) : Int) := by
  have hc : c ≤ c * 2 ^ (len - prev) := Nat.le_mul_of_pos_right c (Nat.pow_pos (by decide))
  by_cases hlt : len > prev
  · rw [if_pos hlt]
    unfold shl32
    rw [if_neg (by omega), toU32_natCast c (by omega), Nat.mod_eq_of_lt (by omega), ofU32_small _ h]
  · rw [if_neg hlt]
    have : len - prev = 0 := by omega
    rw [this]; simp

theorem add32_one (c : Nat) (h : c + 1 < 2 ^ 31) : add32 (c : Int) 1 = .ok ((c : Int) + 1) := by
  unfold add32
  exact if_pos (by omega)

theorem assignCodes_cons_ok (code code1 code2 : Int) (prev : Nat) (sym : Int) (len : Nat)
    (rest : List (Int × Nat)) (tl : List Entry)
    (h1 : (if len > prev then shl32 code (len - prev) else .ok code) = .ok code1)
    (h2 : add32 code1 1 = .ok code2) (h3 : assignCodes code2 len rest = .ok tl) :
    assignCodes code prev ((sym, len) :: rest) = .ok (⟨sym, code1, len⟩ :: tl) := by
  simp only [assignCodes, h1, h2, h3]

theorem assignCodes_spec (L : Nat) (hL : L ≤ 31) : ∀ (ps : List (Int × Nat)) (c prev : Nat),
    ps.Pairwise (fun a b => a.2 ≤ b.2) → (∀ p ∈ ps, prev ≤ p.2 ∧ p.2 ≤ L) →
    c * 2 ^ (L - prev) + kraftSum L (ps.map (·.2)) ≤ 2 ^ L →
    c * 2 ^ (L - prev) + kraftSum L (ps.map (·.2)) < 2 ^ 31 →
    ∃ cs, assignCodes c prev ps = .ok cs ∧ cs.map (fun e => (e.sym, e.len)) = ps ∧
      (∀ e ∈ cs, 0 ≤ e.code ∧ prev ≤ e.len ∧ e.len ≤ L ∧ c * 2 ^ (e.len - prev) ≤ e.code.toNat ∧
        (e.code.toNat + 1) * 2 ^ (L - e.len) ≤ 2 ^ L) ∧
      cs.Pairwise (fun e e' => e.len ≤ e'.len ∧ (e.code.toNat + 1) * 2 ^ (e'.len - e.len) ≤ e'.code.toNat)
  := by
  intro ps
  induction ps with
  | nil => intro c prev _ _ _ _; exact ⟨[], rfl, rfl, by simp, List.Pairwise.nil⟩
  | cons p rest ihr =>
    obtain ⟨sym, len⟩ := p
    intro c prev hs hb hk hk31
    rw [List.pairwise_cons] at hs
    obtain ⟨hp, hlL⟩ := hb (sym, len) (List.mem_cons_self ..)
    simp only at hp hlL
    simp only [List.map_cons, kraftSum_cons] at hk hk31
    have hpow : 2 ^ (L - prev) = 2 ^ (len - prev) * 2 ^ (L - len) := by
      rw [← Nat.pow_add]; congr 1; omega
    have hA : 1 ≤ 2 ^ (L - len) := Nat.pow_pos (by decide)
    generalize hAe : 2 ^ (L - len) = A at *
    generalize hc1 : c * 2 ^ (len - prev) = c1 at *
    rw [hpow, ← Nat.mul_assoc, hc1] at hk hk31
    have hc1A : c1 + 1 ≤ (c1 + 1) * A := Nat.le_mul_of_pos_right _ hA
    have hmul : (c1 + 1) * A = c1 * A + A := by rw [Nat.add_mul, Nat.one_mul]
    have ih := ihr (c1 + 1) len hs.2
      (fun p hp' => ⟨hs.1 p hp', (hb p (List.mem_cons_of_mem _ hp')).2⟩)
      (by rw [hAe, hmul]; omega) (by rw [hAe, hmul]; omega)
    obtain ⟨tl, i1, i2, i3, i4⟩ := ih
    refine ⟨⟨sym, c1, len⟩ :: tl, ?_, ?_, ?_, ?_⟩
    · have i1' : assignCodes ((c1 : Int) + 1) len rest = .ok tl := by simpa using i1
      have hsh := shift_ok c prev len hp (by omega) (by rw [hc1]; omega)
      rw [hc1] at hsh
      exact assignCodes_cons_ok _ _ _ _ _ _ _ _ hsh (add32_one c1 (by omega)) i1'
    · simp [i2]
    · intro e he
      rcases List.mem_cons.mp he with rfl | he
      · refine ⟨by simp, hp, hlL, ?_, ?_⟩
        · simp [hc1]
        · simp only [Int.toNat_natCast, hAe]; omega
      · obtain ⟨j1, j2, j3, j4, j5⟩ := i3 e he
        refine ⟨j1, by omega, j3, ?_, j5⟩
        have : e.len - prev = (len - prev) + (e.len - len) := by omega
        rw [this, Nat.pow_add, ← Nat.mul_assoc, hc1]
        exact Nat.le_trans (Nat.mul_le_mul_right _ (Nat.le_succ c1)) j4
    · refine List.pairwise_cons.mpr ⟨?_, i4⟩
      intro e he
      obtain ⟨j1, j2, j3, j4, j5⟩ := i3 e he
      exact ⟨j2, by simpa using j4⟩

/-! ## the code book -/

theorem nodup_map_inj {α β : Type} (f : α → β) : ∀ (l : List α), (l.map f).Nodup →
    ∀ a ∈ l, ∀ b ∈ l, f a = f b → a = b
  | [], _, a, ha, _, _, _ => by simp at ha
  | x :: xs, h, a, ha, b, hb, hab => by
    rw [List.map_cons, List.nodup_cons] at h
    rcases List.mem_cons.mp ha with rfl | ha' <;> rcases List.mem_cons.mp hb with rfl | hb'
    · rfl
    · exact absurd (hab ▸ List.mem_map_of_mem hb') h.1
    · exact absurd (hab ▸ List.mem_map_of_mem ha') h.1
    · exact nodup_map_inj f xs h.2 a ha' b hb' hab

theorem pairwise_mem {α : Type} (R : α → α → Prop) : ∀ (l : List α), l.Pairwise R →
    ∀ a ∈ l, ∀ b ∈ l, a = b ∨ R a b ∨ R b a
  | [], _, a, ha, _, _ => by simp at ha
  | x :: xs, h, a, ha, b, hb => by
    rw [List.pairwise_cons] at h
    rcases List.mem_cons.mp ha with rfl | ha' <;> rcases List.mem_cons.mp hb with rfl | hb'
    · exact Or.inl rfl
    · exact Or.inr (Or.inl (h.1 b hb'))
    · exact Or.inr (Or.inr (h.1 a ha'))
    · exact pairwise_mem R xs h.2 a ha' b hb'

theorem foldl_insertBook : ∀ (cs acc : List Entry), ((acc ++ cs).map (·.sym)).Nodup →
    cs.foldl insertBook acc = acc ++ cs
  | [], acc, _ => by simp
  | e :: cs, acc, h => by
    have hany : acc.any (·.sym == e.sym) = false := by
      rw [List.any_eq_false]
      intro x hx
      rw [List.map_append, List.nodup_append] at h
      have := h.2.2 x.sym (List.mem_map_of_mem hx) e.sym (List.mem_map_of_mem (List.mem_cons_self ..))
      simpa using this
    rw [List.foldl_cons, insertBook, hany]
    simp only [Bool.false_eq_true, if_false]
    rw [foldl_insertBook cs (acc ++ [e]) (by simpa using h)]
    simp

/-- what the proofs need to know about a canonical code book -/
structure BookOK (alphabet : List Int) (lens : List Nat) (L : Nat) (book : List Entry) : Prop where
  pairs : (book.map fun e => (e.sym, e.len)).Perm (alphabet.zip lens)
  nodup : (book.map (·.sym)).Nodup
  code : ∀ e ∈ book, 0 ≤ e.code ∧ e.len ≤ L ∧ e.code.toNat < 2 ^ e.len
  pf : ∀ e ∈ book, ∀ e' ∈ book, e'.len ≤ e.len →
    e'.code.toNat = e.code.toNat / 2 ^ (e.len - e'.len) → e' = e

theorem kraftSum_perm (L : Nat) {l₁ l₂ : List Nat} (h : l₁.Perm l₂) : kraftSum L l₁ = kraftSum L l₂ :=
  (h.map _).sum_nat

theorem buildCodeBook_ok (alphabet : List Int) (lens : List Nat) (L : Nat) (h : HuffOK alphabet lens L)
    (hne : alphabet ≠ []) : ∃ book, buildCodeBook alphabet lens = .ok book ∧ BookOK alphabet lens L book := by
  have hperm := isort_perm keyLe (alphabet.zip lens)
  have hsorted := isort_keyLe_sorted (alphabet.zip lens)
  unfold buildCodeBook
  generalize isort keyLe (alphabet.zip lens) = ps at *
  have hfst : (ps.map Prod.fst).Perm alphabet := by
    have := hperm.map Prod.fst
    rwa [List.map_fst_zip (by rw [h.same]; exact Nat.le_refl _)] at this
  have hsnd : (ps.map Prod.snd).Perm lens := by
    have := hperm.map Prod.snd
    rwa [List.map_snd_zip (by rw [h.same]; exact Nat.le_refl _)] at this
  cases ps with
  | nil =>
    have := hfst.length_eq
    simp at this
    exact absurd (List.eq_nil_of_length_eq_zero this.symm) hne
  | cons p rest =>
    obtain ⟨s, l⟩ := p
    simp only
    have hk : kraftSum L (((s, l) :: rest).map (·.2)) = kraftSum L lens := kraftSum_perm L hsnd
    obtain ⟨cs, c1, c2, c3, c4⟩ := assignCodes_spec L h.hL ((s, l) :: rest) 0 l hsorted
      (by
        intro p hp
        refine ⟨?_, h.le _ (hsnd.mem_iff.mp (List.mem_map_of_mem hp))⟩
        rcases List.mem_cons.mp hp with rfl | hp
        · exact Nat.le_refl _
        · exact (List.pairwise_cons.mp hsorted).1 p hp)
      (by rw [hk]; simpa using h.kraft) (by rw [hk]; simpa using h.small)
    have c1' : assignCodes 0 l ((s, l) :: rest) = .ok cs := by simpa using c1
    rw [c1']
    simp only
    have hsym : cs.map (·.sym) = ((s, l) :: rest).map Prod.fst := by
      rw [← c2, List.map_map]; rfl
    have hnd : (cs.map (·.sym)).Nodup := by
      rw [hsym]; exact hfst.nodup_iff.mpr h.nodup
    rw [foldl_insertBook cs [] (by simpa using hnd)]
    refine ⟨cs, by simp, ?_, hnd, ?_, ?_⟩
    · rw [c2]; exact hperm
    · intro e he
      obtain ⟨j1, _, j3, _, j5⟩ := c3 e he
      refine ⟨j1, j3, ?_⟩
      have : 2 ^ L = 2 ^ e.len * 2 ^ (L - e.len) := by rw [← Nat.pow_add]; congr 1; omega
      rw [this] at j5
      exact Nat.le_of_mul_le_mul_right j5 (Nat.pow_pos (by decide))
    · intro e he e' he' hle hcode
      rcases pairwise_mem _ cs c4 e he e' he' with rfl | ⟨k1, k2⟩ | ⟨k1, k2⟩
      · rfl
      · have : e'.len - e.len = 0 := by omega
        have h0 : e.len - e'.len = 0 := by omega
        rw [this] at k2; rw [h0] at hcode
        simp at k2 hcode; omega
      · exfalso
        have hD : 0 < 2 ^ (e.len - e'.len) := Nat.pow_pos (by decide)
        generalize 2 ^ (e.len - e'.len) = D at *
        have e1 := Nat.div_add_mod e.code.toNat D
        have e2 := Nat.mod_lt e.code.toNat hD
        rw [← hcode] at e1
        rw [Nat.add_mul, Nat.one_mul, Nat.mul_comm] at k2
        generalize D * e'.code.toNat = P at *
        omega

/-! ## the decoder -/

theorem huffDecodeGo_cons (book : List Entry) (len : Nat) (rest : List Nat) (prev : Nat) (input : Int)
    (r : BitReader) (input1 : Int) (b : Nat) (r1 : BitReader)
    (h1 : shl32 input (len - prev) = .ok input1) (h2 : r.readU32 (len - prev) = .ok (b, r1)) :
    huffDecodeGo book (len :: rest) prev input r =
      match book.find? (fun e => e.len == len && e.code == ofU 32 (toU 32 input1 + b)) with
      | some e => .ok (e.sym, r1)
      | none => huffDecodeGo book rest len (ofU 32 (toU 32 input1 + b)) r1 := by
  simp only [huffDecodeGo, h1, h2]
  cases List.find? (fun e => e.len == len && e.code == ofU 32 (toU 32 input1 + b)) book <;> rfl

theorem shl32_nat (x d : Nat) (hd : d ≤ 31) (h : x * 2 ^ d < 2 ^ 31) :
    shl32 (x : Int) d = .ok ((x * 2 ^ d : Nat) : Int) := by
  have hc : x ≤ x * 2 ^ d := Nat.le_mul_of_pos_right x (Nat.pow_pos (by decide))
  unfold shl32
  rw [if_neg (by omega), toU32_natCast x (by omega), Nat.mod_eq_of_lt (by omega), ofU32_small _ h]

theorem huffDecodeGo_spec (book : List Entry) (e : Entry) (he : e ∈ book)
    (hlen : e.len ≤ 31) (hn : e.code.toNat < 2 ^ e.len)
    (hpf : ∀ e' ∈ book, e'.len ≤ e.len → e'.code.toNat = e.code.toNat / 2 ^ (e.len - e'.len) → e' = e)
    (hnn : ∀ e' ∈ book, 0 ≤ e'.code) (t : List Bool) :
    ∀ (rest : List Nat) (prev : Nat) (r : BitReader), rest.Pairwise (fun a b => a < b) →
      (∀ l ∈ rest, prev ≤ l) → e.len ∈ rest → r.OK →
      r.rem = codeBits e.code.toNat (e.len - prev) ++ t →
      ∃ r', huffDecodeGo book rest prev ((e.code.toNat / 2 ^ (e.len - prev) : Nat) : Int) r = .ok (e.sym, r') ∧
        r'.rem = t ∧ r'.OK := by
  intro rest
  induction rest with
  | nil => intro _ _ _ _ hm; simp at hm
  | cons l rest ih =>
    intro prev r hpw hge hmem hr hrem
    rw [List.pairwise_cons] at hpw
    have hpl : prev ≤ l := hge l (List.mem_cons_self ..)
    have hle : l ≤ e.len := by
      rcases List.mem_cons.mp hmem with h | h
      · omega
      · exact Nat.le_of_lt (hpw.1 _ h)
    generalize hnE : e.code.toNat = n at *
    have hxy : n / 2 ^ (e.len - prev) = n / 2 ^ (e.len - l) / 2 ^ (l - prev) := by
      rw [Nat.div_div_eq_div_mul, ← Nat.pow_add]; congr 2; omega
    have hy : n / 2 ^ (e.len - l) < 2 ^ l := by
      apply Nat.div_lt_of_lt_mul
      rw [← Nat.pow_add]
      have : e.len - l + l = e.len := by omega
      rw [this]; exact hn
    have hl31 : 2 ^ l ≤ 2 ^ 31 := Nat.pow_le_pow_right (by decide) (by omega)
    generalize hyE : n / 2 ^ (e.len - l) = y at *
    rw [hxy]
    have hmul : y / 2 ^ (l - prev) * 2 ^ (l - prev) ≤ y := Nat.div_mul_le_self _ _
    have hsum : y / 2 ^ (l - prev) * 2 ^ (l - prev) + y % 2 ^ (l - prev) = y := Nat.div_add_mod' _ _
    have hrem' : r.rem = codeBits y (l - prev) ++ (codeBits n (e.len - l) ++ t) := by
      rw [hrem, ← List.append_assoc, ← hyE, ← codeBits_append]
      congr 2; omega
    obtain ⟨r1, g1, g2, g3⟩ := readU32_rem r hr (l - prev) y (by omega) _ hrem'
    rw [huffDecodeGo_cons book l rest prev _ r _ _ r1 (shl32_nat _ _ (by omega) (by omega)) g1,
      toU32_natCast _ (by omega), hsum, ofU32_small y (by omega)]
    rcases Nat.lt_or_ge l e.len with hlt | hge'
    · have hnone : book.find? (fun e' => e'.len == l && e'.code == (y : Int)) = none := by
        rw [List.find?_eq_none]
        intro e' he' hp
        simp only [Bool.and_eq_true, beq_iff_eq] at hp
        have : e' = e := hpf e' he' (by omega) (by rw [hp.1, hyE, hp.2]; simp)
        rw [this] at hp; omega
      rw [hnone]
      have hmem' : e.len ∈ rest := by
        rcases List.mem_cons.mp hmem with h | h
        · omega
        · exact h
      have := ih l r1 hpw.2 (fun l' hl' => Nat.le_of_lt (hpw.1 l' hl')) hmem' g3 g2
      rw [hyE] at this
      exact this
    · have hel : e.len = l := by omega
      have hyn : y = n := by rw [← hyE, hel]; simp
      cases hf : book.find? (fun e' => e'.len == l && e'.code == (y : Int)) with
      | none =>
        rw [List.find?_eq_none] at hf
        exfalso
        apply hf e he
        simp only [Bool.and_eq_true, beq_iff_eq]
        refine ⟨hel, ?_⟩
        rw [hyn, ← hnE]; have := hnn e he; omega
      | some e' =>
        have hp := List.find?_some hf
        have he' := List.mem_of_find?_eq_some hf
        simp only [Bool.and_eq_true, beq_iff_eq] at hp
        have : e' = e := hpf e' he' (by omega) (by rw [hp.1, hyE, hp.2]; simp)
        rw [this]
        refine ⟨r1, rfl, ?_, g3⟩
        rw [g2, hel]; simp [codeBits]

/-! ## the theorems -/

theorem BookOK.code31 {alphabet lens L book} (hb : BookOK alphabet lens L book) (hL : L ≤ 31)
    (e : Entry) (he : e ∈ book) : e.len ≤ 31 ∧ e.code.toNat < 2 ^ 31 := by
  obtain ⟨h1, h2, h3⟩ := hb.code e he
  have : 2 ^ e.len ≤ 2 ^ 31 := Nat.pow_le_pow_right (by decide) (by omega)
  omega

theorem BookOK.encode_mem {alphabet lens L book} (hb : BookOK alphabet lens L book) (hL : L ≤ 31)
    (e : Entry) (he : e ∈ book) : huffEncode book e.sym = some (codeBits e.code.toNat e.len) := by
  unfold huffEncode
  cases hf : book.find? (fun x => x.sym == e.sym) with
  | none =>
    rw [List.find?_eq_none] at hf
    exact absurd (by simp) (hf e he)
  | some e' =>
    have hp := List.find?_some hf
    have he' := List.mem_of_find?_eq_some hf
    have : e' = e := nodup_map_inj (·.sym) book hb.nodup e' he' e he (by simpa using hp)
    subst this
    have := hb.code31 hL e' he'
    simp only [Option.map_some]
    rw [toU32_of_nonneg _ (hb.code e' he').1 (by omega)]

theorem BookOK.encode_some {alphabet lens L book} (hb : BookOK alphabet lens L book) (hL : L ≤ 31)
    (s : Int) (w : List Bool) (h : huffEncode book s = some w) :
    ∃ e ∈ book, e.sym = s ∧ w = codeBits e.code.toNat e.len := by
  have h' := h
  unfold huffEncode at h'
  cases hf : book.find? (fun x => x.sym == s) with
  | none => rw [hf] at h'; simp at h'
  | some e =>
    have hp := List.find?_some hf
    have he := List.mem_of_find?_eq_some hf
    have hs : e.sym = s := by simpa using hp
    refine ⟨e, he, hs, ?_⟩
    have := hb.encode_mem hL e he
    rw [hs, h] at this
    exact Option.some.inj this

theorem BookOK.entry_of_pair {alphabet lens L book} (hb : BookOK alphabet lens L book)
    (s : Int) (l : Nat) (h : (s, l) ∈ alphabet.zip lens) : ∃ e ∈ book, e.sym = s ∧ e.len = l := by
  have := hb.pairs.mem_iff.mpr h
  rw [List.mem_map] at this
  obtain ⟨e, he, heq⟩ := this
  simp only [Prod.mk.injEq] at heq
  exact ⟨e, he, heq.1, heq.2⟩

theorem BookOK.entry_of_sym {alphabet lens L book} (hb : BookOK alphabet lens L book)
    (hsame : alphabet.length = lens.length) (s : Int) (h : s ∈ alphabet) : ∃ e ∈ book, e.sym = s := by
  obtain ⟨i, hi⟩ := List.mem_iff_getElem?.mp h
  have hlt : i < alphabet.length := by
    rcases Nat.lt_or_ge i alphabet.length with h | h
    · exact h
    · rw [List.getElem?_eq_none h] at hi; simp at hi
  have hl : lens[i]? = some (lens[i]'(by omega)) := List.getElem?_eq_getElem (by omega)
  have hz : (alphabet.zip lens)[i]? = some (s, lens[i]'(by omega)) :=
    List.getElem?_zip_eq_some.mpr ⟨hi, hl⟩
  obtain ⟨e, he, h1, _⟩ := hb.entry_of_pair s _ (List.mem_iff_getElem?.mpr ⟨i, hz⟩)
  exact ⟨e, he, h1⟩

theorem huffman_prefix_free' (alphabet : List Int) (lens : List Nat) (L : Nat) (h : HuffOK alphabet lens L)
    (hne : alphabet ≠ []) :
    ∃ book, buildCodeBook alphabet lens = .ok book ∧
      (∀ (i : Nat) (s : Int) (l : Nat), alphabet[i]? = some s → lens[i]? = some l →
        ∃ w, huffEncode book s = some w ∧ w.length = l) ∧
      (∀ s₁ s₂ w₁ w₂, huffEncode book s₁ = some w₁ → huffEncode book s₂ = some w₂ → s₁ ≠ s₂ → ¬ w₁ <+: w₂) := by
  obtain ⟨book, hbk, hb⟩ := buildCodeBook_ok alphabet lens L h hne
  refine ⟨book, hbk, ?_, ?_⟩
  · intro i s l hs hl
    have hz : (alphabet.zip lens)[i]? = some (s, l) := List.getElem?_zip_eq_some.mpr ⟨hs, hl⟩
    obtain ⟨e, he, h1, h2⟩ := hb.entry_of_pair s l (List.mem_iff_getElem?.mpr ⟨i, hz⟩)
    refine ⟨_, h1 ▸ hb.encode_mem h.hL e he, ?_⟩
    rw [codeBits_length, h2]
  · intro s₁ s₂ w₁ w₂ h1 h2 hne' hpre
    obtain ⟨e₁, he₁, hs₁, rfl⟩ := hb.encode_some h.hL s₁ w₁ h1
    obtain ⟨e₂, he₂, hs₂, rfl⟩ := hb.encode_some h.hL s₂ w₂ h2
    obtain ⟨t, ht⟩ := hpre
    have hlen : e₁.len ≤ e₂.len := by
      have := congrArg List.length ht
      rw [List.length_append, codeBits_length, codeBits_length] at this
      omega
    have hsplit : e₂.len = e₁.len + (e₂.len - e₁.len) := by omega
    rw [hsplit, codeBits_append] at ht
    have heq := List.append_inj_left ht (by rw [codeBits_length, codeBits_length])
    have hc₁ := (hb.code e₁ he₁).2.2
    have hc₂ := (hb.code e₂ he₂).2.2
    have hdiv : e₂.code.toNat / 2 ^ (e₂.len - e₁.len) < 2 ^ e₁.len := by
      apply Nat.div_lt_of_lt_mul
      rw [← Nat.pow_add]
      have : e₂.len - e₁.len + e₁.len = e₂.len := by omega
      rw [this]; exact hc₂
    have := codeBits_inj _ _ _ hc₁ hdiv heq
    have := hb.pf e₂ he₂ e₁ he₁ hlen this
    apply hne'
    rw [← hs₁, ← hs₂, this]

theorem huffman_roundtrip' (alphabet : List Int) (lens : List Nat) (L : Nat) (h : HuffOK alphabet lens L)
    (s : Int) (hs : s ∈ alphabet) (r : BitReader) (hr : r.OK) (t : List Bool) :
    ∃ book w, buildCodeBook alphabet lens = .ok book ∧ huffEncode book s = some w ∧
      (r.rem = w ++ t → ∃ r', huffDecode alphabet lens r = .ok (s, r') ∧ r'.rem = t ∧ r'.OK) := by
  obtain ⟨book, hbk, hb⟩ := buildCodeBook_ok alphabet lens L h (List.ne_nil_of_mem hs)
  obtain ⟨e, he, rfl⟩ := hb.entry_of_sym h.same s hs
  refine ⟨book, _, hbk, hb.encode_mem h.hL e he, ?_⟩
  intro hrem
  unfold huffDecode
  rw [hbk]
  simp only
  have hc := hb.code e he
  have h31 := hb.code31 h.hL e he
  have := huffDecodeGo_spec book e he h31.1 hc.2.2 (fun e' he' => hb.pf e he e' he')
    (fun e' he' => (hb.code e' he').1) t (distinctLens book) 0 r (distinctLens_sorted book)
    (fun _ _ => Nat.zero_le _) ((mem_distinctLens book e.len).mpr ⟨e, he, rfl⟩) hr (by simpa using hrem)
  rw [Nat.sub_zero, Nat.div_eq_of_lt hc.2.2] at this
  exact this

theorem huffman_encoding_roundtrip' (alphabet : List Int) (lens : List Nat) (L : Nat)
    (h : HuffOK alphabet lens L) (h1 : alphabet.length = 1 → lens = [0])
    (s : Int) (hs : s ∈ alphabet) (st : RS) (hr : st.core.OK) (t : List Bool) :
    ∃ book w, buildCodeBook alphabet lens = .ok book ∧ huffEncode book s = some w ∧
      (st.core.rem = w ++ t → ∃ r', r'.rem = t ∧ r'.OK ∧
        (IntEnc.huffman alphabet lens).decode st = .ok (s, { st with core := r' }) ∧
        (ByteEnc.huffman alphabet lens).decode st = .ok (toU 8 s, { st with core := r' })) := by
  obtain ⟨book, w, hbk, hw, hdec⟩ := huffman_roundtrip' alphabet lens L h s hs st.core hr t
  refine ⟨book, w, hbk, hw, ?_⟩
  intro hrem
  match alphabet, hs, h, h1, hbk, hdec with
  | [], hs, _, _, _, _ => simp at hs
  | [a], hs, h, h1, hbk, _ =>
    have hl := h1 rfl
    subst hl
    have hsa : s = a := by simpa using hs
    subst hsa
    obtain ⟨book', hbk', hlen, _⟩ := huffman_prefix_free' [s] [0] L h (by simp)
    rw [hbk] at hbk'
    have hbb : book = book' := by injection hbk'
    subst hbb
    obtain ⟨w', hw', hwl⟩ := hlen 0 s 0 rfl rfl
    rw [hw] at hw'
    have hww : w = w' := Option.some.inj hw'
    subst hww
    have hnil : w = [] := List.eq_nil_of_length_eq_zero hwl
    subst hnil
    refine ⟨st.core, by simpa using hrem, hr, ?_, ?_⟩
    · simp [IntEnc.decode]
    · simp [ByteEnc.decode]
  | a :: b :: rest, _, _, _, _, hdec =>
    obtain ⟨r', d1, d2, d3⟩ := hdec hrem
    refine ⟨r', d2, d3, ?_, ?_⟩
    · simp [IntEnc.decode, d1]
    · simp [ByteEnc.decode, d1]

end Noodles.Cram.Enc
