import Noodles.Cram.IndexMore
import Noodles.Cram.IndexProof
/-! Helper lemmas for `Noodles/Props/C19More.lean`. -/
namespace Noodles.Cram.Index
open Noodles.Cram

/-! ## reference length of a CIGAR -/

theorem refLen_nil : refLen [] = 0 := rfl

theorem refLen_cons (op : Op) (c : Cigar) :
    refLen (op :: c) = (if op.kind.consumesRef then op.len else 0) + refLen c := by
  simp [refLen]

theorem refLen_append (a b : Cigar) : refLen (a ++ b) = refLen a + refLen b := by
  simp [refLen]

theorem refLen_simpGo : ∀ (ops : Cigar) (p : Op),
    refLen (simpGo (some p) ops) = (if p.kind.consumesRef then p.len else 0) + refLen ops
  | [], p => by simp [simpGo, refLen_cons, refLen_nil]
  | op :: ops, p => by
    unfold simpGo
    split
    · rename_i h
      rw [refLen_simpGo ops, refLen_cons]
      simp only []
      rw [← h]
      split <;> omega
    · rw [refLen_cons, refLen_simpGo ops, refLen_cons]

theorem refLen_simplify (c : Cigar) : refLen (simplify c) = refLen c := by
  unfold simplify
  cases c with
  | nil => simp [simpGo]
  | cons op ops => simp only [simpGo]; rw [refLen_simpGo, refLen_cons]

/-! ## the read position of the CIGAR iterator -/

theorem upTo_ge (q p : Nat) : q ≤ upTo q p := by unfold upTo; split <;> omega

theorem upTo_pre (q p : Nat) :
    refLen (if p > q + 1 then [⟨.M, p - (q + 1)⟩] else []) = upTo q p - q := by
  unfold upTo; split <;> simp [refLen, Kind.consumesRef] <;> omega

theorem advance_ge (q : Nat) (f : Feature) : q ≤ advance q f := by
  have := upTo_ge q f.pos
  cases f <;> simp only [advance, Feature.cigarOp, Kind.consumesRead] <;> simp <;> omega

theorem readEnd_ge : ∀ (fs : List Feature) (q : Nat), q ≤ readEnd q fs
  | [], _ => Nat.le_refl _
  | f :: fs, q => by
    unfold readEnd
    exact Nat.le_trans (advance_ge q f) (readEnd_ge fs _)

/-- the raw operation stream of one feature, then of the rest from the advanced position -/
theorem cigGo_cons (L q : Nat) (f : Feature) (fs : List Feature) :
    cigGo L q (f :: fs) =
      (if f.pos > q + 1 then [⟨.M, f.pos - (q + 1)⟩] else []) ++
      (match f.cigarOp with | none => [] | some op => [op]) ++ cigGo L (advance q f) fs := by
  cases f <;> simp [cigGo, advance, upTo, Feature.cigarOp, Feature.pos, Kind.consumesRead]

set_option linter.unusedSimpArgs false in
/-- the invariant that ties the fold of `calculate_alignment_span` to the CIGAR iterator: with `q`
read bases consumed and reference length `R` emitted so far, the accumulator is `L - q + R` -/
theorem span_inv (L : Nat) : ∀ (fs : List Feature) (q acc : Nat),
    readEnd q fs ≤ L → L ≤ acc + q →
    spanSafeGo acc fs = true ∧ featSpanGo acc fs + L = acc + q + refLen (cigGo L q fs)
  | [], q, acc, h, _ => by
    simp only [readEnd] at h
    refine ⟨rfl, ?_⟩
    simp only [featSpanGo, cigGo]
    split
    · simp [refLen, Kind.consumesRef]; omega
    · simp [refLen]; omega
  | f :: fs, q, acc, h, hacc => by
    rw [cigGo_cons, refLen_append, refLen_append, upTo_pre]
    unfold readEnd at h
    have hge := readEnd_ge fs (advance q f)
    have hup := upTo_ge q f.pos
    have ih := span_inv L fs (advance q f) (spanStep acc f) h
    cases f <;>
      simp only [advance, Feature.cigarOp, Feature.pos, Kind.consumesRead, Kind.consumesRef, spanStep, spanNeed,
        spanSafeGo, featSpanGo, refLen_cons, refLen_nil, Bool.and_eq_true, decide_eq_true_eq, if_true, if_false,
        Bool.false_eq_true] at h ih hge hup ⊢ <;>
      (obtain ⟨ih1, ih2⟩ := ih (by omega); exact ⟨⟨decide_eq_true (by omega), ih1⟩, by omega⟩)

/-- the span the fold computes is the reference length of the rebuilt CIGAR, and no step underflows -/
theorem featSpan_eq_refLen {L : Nat} {fs : List Feature} (h : FeatWF L fs) :
    spanSafe L fs = true ∧ featSpan L fs = refLen (rebuildCigar L fs) := by
  obtain ⟨h1, h2⟩ := span_inv L fs 0 L h (by omega)
  refine ⟨h1, ?_⟩
  unfold featSpan rebuildCigar
  rw [refLen_simplify]
  omega

/-- a feature with a base count, at or after the validator's read position, leaves the CIGAR
iterator at or before the validator's next read position -/
theorem advance_le_of_baseCount {f : Feature} {n q rp : Nat} (hb : baseCount f = some n)
    (hq : q + 1 ≤ rp) (hp : rp ≤ f.pos) : advance q f + 1 ≤ f.pos + n := by
  have hup : ∀ p, rp ≤ p → upTo q p = p - 1 := by intro p hp; unfold upTo; split <;> omega
  cases f <;> simp only [baseCount, Option.some.injEq, reduceCtorEq, Feature.pos] at hb hp <;>
    simp only [advance, Feature.cigarOp, Kind.consumesRead, Feature.pos, hup _ hp, if_true, if_false,
      Bool.false_eq_true] <;> omega

theorem validateGo_readEnd : ∀ (fs : List Feature) (rp qp q rp' qp' : Nat),
    (∀ f ∈ fs, baseCount f ≠ none) → q + 1 ≤ rp → validateGo rp qp fs = some (rp', qp') →
    readEnd q fs + 1 ≤ rp'
  | [], rp, qp, q, rp', qp', _, hq, hv => by
    simp only [validateGo, Option.some.injEq, Prod.mk.injEq] at hv
    simp only [readEnd]; omega
  | f :: fs, rp, qp, q, rp', qp', hb, hq, hv => by
    unfold validateGo at hv
    simp only [] at hv
    have hf := hb f (List.mem_cons_self ..)
    cases hbc : baseCount f with
    | none => exact absurd hbc hf
    | some n =>
      rw [hbc] at hv
      simp only [] at hv
      split at hv
      · cases hv
      · rename_i hlt
        unfold readEnd
        exact validateGo_readEnd fs _ _ _ _ _ (fun g hg => hb g (List.mem_cons_of_mem _ hg))
          (advance_le_of_baseCount hbc hq (by omega)) hv

theorem featWF_of_valid {L : Nat} {fs : List Feature} (hv : featuresValid L fs = true)
    (hb : ∀ f ∈ fs, baseCount f ≠ none) : FeatWF L fs := by
  unfold featuresValid at hv
  split at hv
  · cases hv
  · rename_i rp qp heq
    have := validateGo_readEnd fs 1 1 0 rp qp hb (by omega) heq
    simp only [decide_eq_true_eq] at hv
    unfold FeatWF
    omega
/-! ## the end of a record -/

theorem posNew_pos {n : Nat} (h : 0 < n) : posNew n = some n := by
  unfold posNew; split <;> first | omega | rfl

/-- the end the indexer computes from the features is the end a scan computes from the CIGAR -/
theorem aend_eq_bufEnd (r : CRec) (hwf : FeatWF r.readLength r.feats)
    (hs : ∀ p, r.start = some p → 0 < p) : r.aend = bufEnd r.start r.cigar := by
  unfold CRec.aend bufEnd
  cases hst : r.start with
  | none => rfl
  | some s =>
    have hp := hs s hst
    simp only []
    unfold CRec.cigar
    by_cases hu : r.unmapped = true
    · simp only [hu, if_true]
      have : bufSpan [] = none := rfl
      rw [this]
      simp only []
      rw [show s + 1 - 1 = s by omega]; exact posNew_pos hp
    · simp only [hu, Bool.false_eq_true, if_false]
      have hspan := (featSpan_eq_refLen hwf).2
      unfold CRec.span
      rw [hspan]
      unfold bufSpan
      cases hn : refLen (rebuildCigar r.readLength r.feats) with
      | zero => simp only []; rw [show s + max 0 1 - 1 = s by omega]; exact posNew_pos hp
      | succ n => simp only []; rw [show max (n + 1) 1 = n + 1 by omega]

/-- a placed record ends at or after its start -/
theorem aend_ge_start (r : CRec) {s : Nat} (hst : r.start = some s) (hp : 0 < s) :
    ∃ e, r.aend = some e ∧ s ≤ e := by
  unfold CRec.aend
  rw [hst]
  simp only []
  split
  · exact ⟨s + 1 - 1, posNew_pos (by omega), by omega⟩
  · exact ⟨s + max r.span 1 - 1, posNew_pos (by omega), by omega⟩

/-! ## the AP data series -/

theorem posToI32_ok {s : Option Nat} (h : PosOK s) :
    posToI32 s = .ok ((s.getD 0 : Nat) : Int) ∧ ((s.getD 0 : Nat) : Int) ≤ i32Max := by
  cases s with
  | none => simp [posToI32, i32Max]
  | some p =>
    have := (h p rfl).2
    simp [posToI32, this]

theorem posNew_getD {s : Option Nat} (h : PosOK s) : posNew (s.getD 0) = s := by
  cases s with
  | none => rfl
  | some p => have := (h p rfl).1; simp [posNew]; omega

theorem ap1_roundtrip (d : Bool) {prev s : Option Nat} (hp : PosOK prev) (hs : PosOK s) :
    ∃ v, apEncode1 d prev s = .ok v ∧ i32Min ≤ v ∧ v ≤ i32Max ∧ apDecode1 d prev v = .ok s := by
  obtain ⟨e1, b1⟩ := posToI32_ok hp
  obtain ⟨e2, b2⟩ := posToI32_ok hs
  have n1 : (0 : Int) ≤ ((prev.getD 0 : Nat) : Int) := Int.natCast_nonneg _
  have n2 : (0 : Int) ≤ ((s.getD 0 : Nat) : Int) := Int.natCast_nonneg _
  have hback := posNew_getD hs
  cases d with
  | true =>
    refine ⟨((s.getD 0 : Nat) : Int) - ((prev.getD 0 : Nat) : Int), ?_, ?_, ?_, ?_⟩
    · simp [apEncode1, e1, e2]
    · unfold i32Min; unfold i32Max at b1 b2; omega
    · unfold i32Max at b1 b2 ⊢; omega
    · unfold apDecode1
      simp only [if_true]
      have h1 : ¬ (((prev.getD 0 : Nat) : Int) > i32Max) := by omega
      have h2 : ¬ (((prev.getD 0 : Nat) : Int) + (((s.getD 0 : Nat) : Int) - ((prev.getD 0 : Nat) : Int)) > i32Max ∨
          ((prev.getD 0 : Nat) : Int) + (((s.getD 0 : Nat) : Int) - ((prev.getD 0 : Nat) : Int)) < i32Min) := by
        unfold i32Min; unfold i32Max at b1 b2 ⊢; omega
      rw [if_neg h1, if_neg h2]
      simp only []
      have h3 : ¬ (((prev.getD 0 : Nat) : Int) + (((s.getD 0 : Nat) : Int) - ((prev.getD 0 : Nat) : Int)) < 0) := by omega
      rw [if_neg h3]
      have : (((prev.getD 0 : Nat) : Int) + (((s.getD 0 : Nat) : Int) - ((prev.getD 0 : Nat) : Int))).toNat = s.getD 0 := by omega
      rw [this, hback]
  | false =>
    refine ⟨((s.getD 0 : Nat) : Int), ?_, ?_, b2, ?_⟩
    · simp [apEncode1, e2]
    · unfold i32Min; omega
    · unfold apDecode1
      simp only [Bool.false_eq_true, if_false]
      have h3 : ¬ (((s.getD 0 : Nat) : Int) < 0) := by omega
      rw [if_neg h3]
      simp [hback]

theorem ap_roundtrip (d : Bool) : ∀ (starts : List (Option Nat)) (init : Option Nat),
    PosOK init → (∀ s ∈ starts, PosOK s) →
    ∃ vs, apEncode d init starts = .ok vs ∧ (∀ v ∈ vs, i32Min ≤ v ∧ v ≤ i32Max) ∧
      vs.length = starts.length ∧ apDecode d init vs = .ok starts
  | [], _, _, _ => ⟨[], rfl, by simp, rfl, rfl⟩
  | s :: rest, init, hi, hs => by
    obtain ⟨v, e1, lo, hi', d1⟩ := ap1_roundtrip d hi (hs s (List.mem_cons_self ..))
    obtain ⟨vs, e2, hb, hl, d2⟩ := ap_roundtrip d rest s (hs s (List.mem_cons_self ..))
      (fun x hx => hs x (List.mem_cons_of_mem _ hx))
    refine ⟨v :: vs, ?_, ?_, ?_, ?_⟩
    · simp [apEncode, e1, e2]
    · intro x hx
      rcases List.mem_cons.mp hx with h | h
      · subst h; exact ⟨lo, hi'⟩
      · exact hb x h
    · simp [hl]
    · simp [apDecode, d1, d2]

/-! ## `query_unmapped` -/

theorem unmappedOffset_append (a b : List Entry) :
    unmappedOffset (a ++ b) = match unmappedOffset a with
      | some o => some o
      | none => unmappedOffset b := by
  unfold unmappedOffset
  rw [List.find?_append]
  cases a.find? (fun en => en.ref.isNone) <;> simp

theorem unmappedOffset_some {a : List Entry} {pos : Nat} (hpos : ∀ en ∈ a, en.offset = pos)
    (hex : ∃ en ∈ a, en.ref = none) : unmappedOffset a = some pos := by
  unfold unmappedOffset
  obtain ⟨en, hen, href⟩ := hex
  cases hf : a.find? (fun en => en.ref.isNone) with
  | none =>
    have := List.find?_eq_none.mp hf en hen
    simp [href] at this
  | some e =>
    have := List.mem_of_find?_eq_some hf
    simp [hpos e this]

theorem unmappedOffset_none {a : List Entry} (h : ∀ en ∈ a, en.ref ≠ none) : unmappedOffset a = none := by
  unfold unmappedOffset
  have : a.find? (fun en => en.ref.isNone) = none := by
    apply List.find?_eq_none.mpr
    intro en hen
    have := h en hen
    cases hr : en.ref with
    | none => exact absurd hr this
    | some _ => simp
  rw [this]; rfl

/-- the entries of one container name an unplaced slice exactly when the container holds an unplaced record -/
theorem containerEntries_unplaced {off : Nat} {c : ContainerL} (hne : ∀ s ∈ c.slices, s.recs ≠ []) :
    (∃ en ∈ containerEntries off c.bodyLen c.landmarks c.slices, en.ref = none) ↔
      c.recs.any (fun r => r.ref.isNone) = true := by
  have hm := fun en => mem_containerEntries (off := off) (q := c.chLen) (ss := c.slices) (clen := c.bodyLen) rfl (en := en)
  unfold ContainerL.landmarks
  constructor
  · rintro ⟨en, hen, href⟩
    obtain ⟨pre, s, post, hss, hen'⟩ := (hm en).mp hen
    have hs : s ∈ c.slices := by rw [hss]; simp
    obtain ⟨r, hr, hrr⟩ := (sliceEntries_refs (hne s hs) none).mp ⟨en, hen', href⟩
    rw [List.any_eq_true]
    refine ⟨r, ?_, by simp [hrr]⟩
    unfold ContainerL.recs
    exact List.mem_flatMap.mpr ⟨s, hs, hr⟩
  · intro h
    rw [List.any_eq_true] at h
    obtain ⟨r, hr, hrr⟩ := h
    unfold ContainerL.recs at hr
    obtain ⟨s, hs, hrs⟩ := List.mem_flatMap.mp hr
    obtain ⟨pre, post, hss⟩ := List.append_of_mem hs
    have href : r.ref = none := by cases h : r.ref <;> simp [h] at hrr ⊢
    obtain ⟨en, hen, henr⟩ := (sliceEntries_refs (off := off) (lm := c.chLen + sizes pre) (len := s.size)
      (hne s hs) none).mpr ⟨r, hrs, href⟩
    exact ⟨en, (hm en).mpr ⟨pre, s, post, hss, hen⟩, henr⟩

theorem recsFrom_here (pos : Nat) (cs : List ContainerL) :
    recsFrom pos cs pos = some (cs.flatMap (·.recs)) := by
  cases cs <;> simp [recsFrom]

/-- through the file's own index `query_unmapped` seeks to the first container that holds an unplaced record -/
theorem unmapped_seek : ∀ (cs : List ContainerL) (pos : Nat),
    (∀ c ∈ cs, 0 < c.hdrLen) → (∀ c ∈ cs, ∀ s ∈ c.slices, s.recs ≠ []) →
    match unmappedOffset (craiGo pos cs) with
    | none => tailContainers cs = []
    | some off => pos ≤ off ∧ recsFrom pos cs off = some ((tailContainers cs).flatMap (·.recs))
  | [], pos, _, _ => by simp [craiGo, unmappedOffset, tailContainers]
  | c :: cs, pos, hwf, hne => by
    have hne_c := hne c (List.mem_cons_self ..)
    have hposE : ∀ en ∈ containerEntries pos c.bodyLen c.landmarks c.slices, en.offset = pos :=
      fun en hen => (pos_of_mem_containerEntries (q := c.chLen) (ss := c.slices) (clen := c.bodyLen) rfl hen).1
    simp only [craiGo]
    rw [unmappedOffset_append]
    by_cases hc : c.recs.any (fun r => r.ref.isNone) = true
    · rw [unmappedOffset_some hposE ((containerEntries_unplaced hne_c).mpr hc)]
      simp only [tailContainers, hc, if_true]
      exact ⟨Nat.le_refl _, recsFrom_here pos (c :: cs)⟩
    · have hnone : ∀ en ∈ containerEntries pos c.bodyLen c.landmarks c.slices, en.ref ≠ none := by
        intro en hen href
        exact hc ((containerEntries_unplaced hne_c).mp ⟨en, hen, href⟩)
      rw [unmappedOffset_none hnone]
      simp only [tailContainers, hc, Bool.false_eq_true, if_false]
      have ih := unmapped_seek cs (pos + c.hdrLen + c.bodyLen) (fun x hx => hwf x (List.mem_cons_of_mem _ hx))
        (fun x hx => hne x (List.mem_cons_of_mem _ hx))
      have hh := hwf c (List.mem_cons_self ..)
      cases hu : unmappedOffset (craiGo (pos + c.hdrLen + c.bodyLen) cs) with
      | none => rw [hu] at ih; simpa using ih
      | some off =>
        rw [hu] at ih
        simp only [] at ih ⊢
        obtain ⟨hle, hr⟩ := ih
        refine ⟨by omega, ?_⟩
        have : off ≠ pos := by omega
        simp only [recsFrom, this, if_false]
        exact hr

/-- the tail containers are a suffix of the file -/
theorem tailContainers_suffix : ∀ cs : List ContainerL, ∃ pre, cs = pre ++ tailContainers cs
  | [] => ⟨[], rfl⟩
  | c :: cs => by
    unfold tailContainers
    split
    · exact ⟨[], rfl⟩
    · obtain ⟨pre, h⟩ := tailContainers_suffix cs
      exact ⟨c :: pre, by rw [List.cons_append, ← h]⟩

/-- every unplaced record of the file lies in the tail containers -/
theorem tail_filter_unplaced : ∀ cs : List ContainerL,
    ((tailContainers cs).flatMap (·.recs)).filter (fun r => r.ref.isNone) =
      (cs.flatMap (·.recs)).filter (fun r => r.ref.isNone)
  | [] => rfl
  | c :: cs => by
    unfold tailContainers
    split
    · rfl
    · rename_i hc
      rw [tail_filter_unplaced cs, List.flatMap_cons, List.filter_append]
      have : c.recs.filter (fun r => r.ref.isNone) = [] := by
        apply List.filter_eq_nil_iff.mpr
        intro r hr hrr
        exact hc (List.any_eq_true.mpr ⟨r, hr, hrr⟩)
      rw [this, List.nil_append]

/-- without unplaced records there are no tail containers -/
theorem tailContainers_nil : ∀ cs : List ContainerL,
    (∀ r ∈ cs.flatMap (·.recs), r.ref ≠ none) → tailContainers cs = []
  | [], _ => rfl
  | c :: cs, h => by
    unfold tailContainers
    split
    · rename_i hc
      obtain ⟨r, hr, hrr⟩ := List.any_eq_true.mp hc
      have := h r (by rw [List.flatMap_cons]; exact List.mem_append_left _ hr)
      cases hx : r.ref with
      | none => exact absurd hx this
      | some _ => simp [hx] at hrr
    · exact tailContainers_nil cs (fun r hr => h r (by rw [List.flatMap_cons]; exact List.mem_append_right _ hr))

/-! ## the features the writer derives from a CIGAR -/

theorem upTo_eq (q p : Nat) : upTo q p = max q (p - 1) := by unfold upTo; split <;> omega

theorem advance_mono {q q' : Nat} (h : q ≤ q') (f : Feature) : advance q f ≤ advance q' f := by
  have := upTo_eq q f.pos
  have := upTo_eq q' f.pos
  cases f <;> simp only [advance, Feature.cigarOp, Kind.consumesRead, Feature.pos, if_true, if_false,
    Bool.false_eq_true] at * <;> omega

theorem readEnd_mono : ∀ (fs : List Feature) {q q' : Nat}, q ≤ q' → readEnd q fs ≤ readEnd q' fs
  | [], _, _, h => h
  | f :: fs, _, _, h => by unfold readEnd; exact readEnd_mono fs (advance_mono h f)

theorem readEnd_append : ∀ (a b : List Feature) (q : Nat), readEnd q (a ++ b) = readEnd (readEnd q a) b
  | [], _, _ => rfl
  | f :: a, b, q => by simp only [List.cons_append, readEnd]; exact readEnd_append a b _

theorem slice_length_le {α : Type} (l : List α) (i n : Nat) : (slice l i n).length ≤ n := by
  unfold slice; simp [List.length_take]; omega

theorem readEnd_matchGo (ref seq : List Nat) (m : Matrix) (qOp : Nat) : ∀ (n r q q0 : Nat), q0 ≤ q →
    readEnd q0 (matchGo ref seq m qOp r q n) ≤ q + n
  | 0, _, _, _, h => by simp only [matchGo, readEnd]; omega
  | n + 1, r, q, q0, h => by
    unfold matchGo
    rw [readEnd_append]
    have ih := fun q0' (h' : q0' ≤ q + 1) => readEnd_matchGo ref seq m qOp n (r + 1) (q + 1) q0' h'
    split
    · have := ih q0 (by omega)
      simp only [readEnd]; omega
    · have hup := upTo_eq q0 (q + 1)
      have : readEnd q0 [mismatchFeature m (q + 1) (ref.getD r 0) (seq.getD q 0) qOp] ≤ q + 1 := by
        unfold mismatchFeature
        split <;> simp only [readEnd, advance, Feature.cigarOp, Kind.consumesRead, Feature.pos, if_true] <;> omega
      have := ih _ this
      omega

theorem readLen_cons (op : Op) (c : Cigar) :
    readLen (op :: c) = (if op.kind.consumesRead then op.len else 0) + readLen c := by
  simp [readLen]

theorem readEnd_featGo (ref seq quals : List Nat) (m : Matrix) : ∀ (ops : Cigar) (r q q0 : Nat), q0 ≤ q →
    readEnd q0 (featGo ref seq quals m r q ops) ≤ q + readLen ops
  | [], _, _, _, h => by simp only [featGo, readEnd, readLen, List.map_nil, List.sum_nil]; omega
  | op :: ops, r, q, q0, h => by
    have hup := upTo_eq q0 (q + 1)
    rw [readLen_cons]
    unfold featGo
    cases hk : op.kind <;> simp only [Kind.consumesRead, if_true, if_false, Bool.false_eq_true]
    case M | Eq | X =>
      rw [readEnd_append]
      have h1 := readEnd_matchGo ref seq m (quals.getD q 255) op.len r q q0 h
      have h2 := readEnd_mono (featGo ref seq quals m (r + op.len) (q + op.len) ops) h1
      have h3 := readEnd_featGo ref seq quals m ops (r + op.len) (q + op.len) (q + op.len) (Nat.le_refl _)
      omega
    case I =>
      have hs := slice_length_le seq q op.len
      simp only [readEnd]
      split
      · rename_i h1
        have h3 := readEnd_featGo ref seq quals m ops r (q + op.len)
          (advance q0 (Feature.insertBase (q + 1) (seq.getD q 0)))
          (by simp only [advance, Feature.cigarOp, Kind.consumesRead, Feature.pos, if_true]; omega)
        omega
      · have h3 := readEnd_featGo ref seq quals m ops r (q + op.len)
          (advance q0 (Feature.insertion (q + 1) (slice seq q op.len)))
          (by simp only [advance, Feature.cigarOp, Kind.consumesRead, Feature.pos, if_true]; omega)
        omega
    case S =>
      have hs := slice_length_le seq q op.len
      simp only [readEnd]
      have h3 := readEnd_featGo ref seq quals m ops r (q + op.len)
        (advance q0 (Feature.softClip (q + 1) (slice seq q op.len)))
        (by simp only [advance, Feature.cigarOp, Kind.consumesRead, Feature.pos, if_true]; omega)
      omega
    case D =>
      simp only [readEnd]
      have h3 := readEnd_featGo ref seq quals m ops (r + op.len) q
        (advance q0 (Feature.deletion (q + 1) op.len))
        (by simp only [advance, Feature.cigarOp, Kind.consumesRead, Feature.pos, if_false, Bool.false_eq_true]; omega)
      omega
    case N =>
      simp only [readEnd]
      have h3 := readEnd_featGo ref seq quals m ops (r + op.len) q
        (advance q0 (Feature.refSkip (q + 1) op.len))
        (by simp only [advance, Feature.cigarOp, Kind.consumesRead, Feature.pos, if_false, Bool.false_eq_true]; omega)
      omega
    case H =>
      simp only [readEnd]
      have h3 := readEnd_featGo ref seq quals m ops r q
        (advance q0 (Feature.hardClip (q + 1) op.len))
        (by simp only [advance, Feature.cigarOp, Kind.consumesRead, Feature.pos, if_false, Bool.false_eq_true]; omega)
      omega
    case P =>
      simp only [readEnd]
      have h3 := readEnd_featGo ref seq quals m ops r q
        (advance q0 (Feature.padding (q + 1) op.len))
        (by simp only [advance, Feature.cigarOp, Kind.consumesRead, Feature.pos, if_false, Bool.false_eq_true]; omega)
      omega

/-! ## the normal form of a CIGAR keeps its reference length -/

/-- number of reference-consuming symbols of an expanded CIGAR -/
def refCount (ks : List Kind) : Nat := (ks.filter (·.consumesRef)).length

theorem refCount_cons (k : Kind) (ks : List Kind) :
    refCount (k :: ks) = (if k.consumesRef then 1 else 0) + refCount ks := by
  unfold refCount; rw [List.filter_cons]; split <;> simp <;> omega

theorem refCount_append (a b : List Kind) : refCount (a ++ b) = refCount a + refCount b := by
  unfold refCount; simp

theorem refCount_replicate (n : Nat) (k : Kind) :
    refCount (List.replicate n k) = if k.consumesRef then n else 0 := by
  induction n with
  | zero => simp [refCount]
  | succ n ih => rw [List.replicate_succ, refCount_cons, ih]; split <;> omega

theorem refLen_rle : ∀ ks : List Kind, refLen (rle ks) = refCount ks
  | [] => rfl
  | k :: ks => by
    have ih := refLen_rle ks
    rw [refCount_cons]
    unfold rle
    split
    · rename_i h; rw [h] at ih; simp only [refLen_nil] at ih
      rw [refLen_cons, refLen_nil]; simp only []; omega
    · rename_i op rest h
      rw [h, refLen_cons] at ih
      split
      · rename_i hk
        rw [refLen_cons]; simp only []; rw [hk]
        by_cases hc : op.kind.consumesRef = true
        · simp only [hc, if_true] at ih ⊢; omega
        · simp only [hc, Bool.false_eq_true, if_false] at ih ⊢; omega
      · rw [refLen_cons, refLen_cons]; simp only []; omega

theorem refCount_expand : ∀ c : Cigar, refCount (expand c) = refLen c
  | [] => rfl
  | op :: ops => by
    rw [expand, refCount_append, refCount_replicate, refCount_expand ops, refLen_cons]

theorem consumesRef_toM (k : Kind) : k.toM.consumesRef = k.consumesRef := by cases k <;> rfl

theorem refLen_map_toM : ∀ c : Cigar, refLen (c.map fun op => ⟨op.kind.toM, op.len⟩) = refLen c
  | [] => rfl
  | op :: ops => by
    rw [List.map_cons, refLen_cons, refLen_cons, refLen_map_toM ops]; simp only [consumesRef_toM]

/-- the normal form of a CIGAR consumes as many reference bases as the CIGAR -/
theorem refLen_normCigar (c : Cigar) : refLen (normCigar c) = refLen c := by
  unfold normCigar; rw [refLen_rle, refCount_expand, refLen_map_toM]

end Noodles.Cram.Index
