import Noodles.Cram.Num
import Noodles.Cram.Nx16
/-!
# The adaptive arithmetic coder (`noodles-cram/src/codecs/aac`)

Everything here is **transcribed from noodles** — encoder AND decoder (the property asks for the
codec's self round trip; there is no second, specification decoder as for rANS):

* `model.rs`        → `Model` (`new`, the symbol search of `encode` / `decode`, the shared update:
                       `+= 16`, halving renormalisation above `(1 << 16) - 17`, swap with the
                       predecessor),
* `range_coder.rs`  → `Enc` (`range_encode`, `range_shift_low` with `carry` / `cache` / `ff_num`,
                       `range_encode_end`) and `Dec` (`new`, `range_get_freq`, `range_decode`),
* `encode/order_0.rs`, `encode/order_1.rs`, `encode/rle/order_{0,1}.rs`, `rle.rs`
                     → `encode0`, `encode1`, `encodeRle` (as lists of (context, symbol) events fed
                       to one loop `encSyms`: the Rust loops call `Model::encode` on exactly these
                       pairs in this order),
* `decode/order_0.rs`, `decode/order_1.rs`, `decode/rle/order_{0,1}.rs`
                     → `decode0`, `decode1`, `decodeRle`,
* `encode.rs`, `encode/stripe.rs`, `decode.rs`, `decode/stripe.rs`, `flags.rs`
                     → `encode`, `decode` for EVERY flag byte (ORDER, EXT, STRIPE, NO_SIZE, CAT, RLE,
                       PACK and the reserved bit),
* the bit packing is `rans_nx16`'s (`Nx.symbols`, `Nx.packEnc` are reused); its DECODER here is
  noodles' `rans_nx16::decode::bit_pack` (`unpackN`: index past the map traps, a short input leaves
  zeros), not the specification's `DecodePack` of `Nx16.lean`.

bzip2 (flag EXT) is a parameter: `bz` (compress) and `unbz` (decompress `n` bytes); the assumed law
is `BzLawful` in `AacTopProof.lean`.

Bytes and symbols are natural numbers `< 256`. The range coder's `u32` registers are held in `Nat`
with the wrap-around of `overflowing_add`, `<<= 8` and `<< 8` written out (`% 2^32`); products that
the debug profile would trap on (`sym_low * range`, `range *= sym_freq`) never leave `u32`
(`AacRcProof.lean`: `Inv`, `narrow_spec`). `ff_num` (`u32`) is unbounded here: it can overflow only after 4 GiB
of `0xff` output bytes.

The model describes the tree WITH the commit `fix: cram adaptive arithmetic coder refused every
input containing the byte 0xff` (`write_symbol_count` writes a full alphabet as 0) and WITH the
decoder hardening commits (`fix: cram adaptive arithmetic
decoder panicked on corrupt sizes, range codes and stripes`, `… overflowed the stack on deeply
nested stripes`): a frequency ≥ the total and a packed value outside the bit-pack map are
`InvalidData`, CAT data is split off the input, a stripe chunk must have the size of its stripe,
stripes nest at most 8 deep, and the run-length decoders stop reading the parts of a run length
once the run covers the rest of the output. Allocation failure (`alloc_zeroed`) is not modelled.
-/
namespace Noodles.Cram.Aac
open Noodles.Cram.Num

inductive EncErr
  /-- `io::ErrorKind::InvalidInput`: a size that does not fit `u32` (or — `write_symbol_count` — a
      symbol count above 256, which no byte string has) -/
  | invalidInput
  /-- `Model::encode` walked past the end of its symbol table (index panic). Dead:
      `AacTotalProof.lean`, `encSyms_total` / `Props.C08.aac_entropy_encode_total`. -/
  | trap
  deriving Repr, DecidableEq

inductive DecErr
  | eof
  | invalidData
  | invalidInput
  /-- an index panic of the real decoder: `models[prev_sym]`, `rle_models[sym]` out of range.
      Dead: a decoded symbol is below the symbol count (`AacDeadProof.lean`,
      `Props.C08.aac_decoder_never_traps`). -/
  | trap
  /-- the model's recursion budget ran out. Dead: `decParts` is given more fuel than it has
      rounds (same theorem). -/
  | fuel
  deriving Repr, DecidableEq

/-! ## flags (`flags.rs`) -/

/-- `aac::Flags`: all eight bits are defined, so `Flags::from(u8)` (`from_bits_truncate`) keeps
them all -/
structure Flags where
  order : Bool
  reserved : Bool
  ext : Bool
  stripe : Bool
  nosz : Bool
  cat : Bool
  rle : Bool
  pack : Bool
  deriving DecidableEq, Repr

def Flags.toByte (f : Flags) : Nat :=
  (if f.order then 1 else 0) + (if f.reserved then 2 else 0) + (if f.ext then 4 else 0)
    + (if f.stripe then 8 else 0) + (if f.nosz then 16 else 0) + (if f.cat then 32 else 0)
    + (if f.rle then 64 else 0) + (if f.pack then 128 else 0)

def Flags.ofByte (b : Nat) : Flags :=
  ⟨b % 2 = 1, b / 2 % 2 = 1, b / 4 % 2 = 1, b / 8 % 2 = 1, b / 16 % 2 = 1, b / 32 % 2 = 1,
    b / 64 % 2 = 1, b / 128 % 2 = 1⟩

/-- `Flags::NO_SIZE` -/
def Flags.noSize : Flags := ⟨false, false, false, false, true, false, false, false⟩

/-! ## the adaptive model (`model.rs`) -/

/-- the increment of a coded symbol's frequency -/
def STEP : Nat := 16

/-- `(1 << 16) - 17`: the total above which the frequencies are halved -/
def MAXTOT : Nat := 65519

/-- `Model { symbols, frequencies, total_freq }` -/
structure Model where
  syms : List Nat
  freqs : List Nat
  total : Nat
  deriving Repr, DecidableEq

/-- `Model::new(symbol_count)`: symbols `0..n`, every frequency 1 -/
def Model.new (n : Nat) : Model := ⟨List.range n, List.replicate n 1, n⟩

/-- `self.frequencies[x] += 16` -/
def bumpAt : Nat → List Nat → List Nat
  | _, [] => []
  | 0, f :: fs => (f + STEP) :: fs
  | x + 1, f :: fs => f :: bumpAt x fs

/-- `renormalize`: `*freq -= *freq / 2` -/
def halve (fs : List Nat) : List Nat := fs.map fun f => f - f / 2

/-- `swap(i + 1, i)` -/
def swapAt : Nat → List Nat → List Nat
  | 0, a :: b :: r => b :: a :: r
  | i + 1, a :: r => a :: swapAt i r
  | _, l => l

/-- The part of `Model::encode` / `Model::decode` after the range coder call, identical in both:
`frequencies[x] += 16; total_freq += 16; if total_freq > (1 << 16) - 17 { renormalize() };
if x > 0 && frequencies[x] > frequencies[x - 1] { swap both arrays at x, x - 1 }`. -/
def Model.update (m : Model) (x : Nat) : Model :=
  let fs := bumpAt x m.freqs
  let tot := m.total + STEP
  let fs' := if tot > MAXTOT then halve fs else fs
  let tot' := if tot > MAXTOT then (halve fs).sum else tot
  if x > 0 ∧ fs'.getD x 0 > fs'.getD (x - 1) 0 then
    ⟨swapAt (x - 1) m.syms, swapAt (x - 1) fs', tot'⟩
  else ⟨m.syms, fs', tot'⟩

/-- the search of `Model::encode`: `while self.symbols[x] != sym { acc += self.frequencies[x];
x += 1 }` → `(x, acc, frequencies[x])`; `none` is the index panic at the end of the table -/
def findGo (s : Nat) : List Nat → List Nat → Nat → Nat → Option (Nat × Nat × Nat)
  | a :: ss, f :: fs, x, acc => if a = s then some (x, acc, f) else findGo s ss fs (x + 1) (acc + f)
  | _, _, _, _ => none

/-- the search of `Model::decode`: `loop { let f = self.frequencies.get(x)…?; if acc + f > freq {
break }; acc += f; x += 1 }` → `(x, acc, frequencies[x])`; `none` is `freq ≥ total_freq`
(`InvalidData`) -/
def locateGo (fr : Nat) : List Nat → Nat → Nat → Option (Nat × Nat × Nat)
  | f :: fs, x, acc => if acc + f ≤ fr then locateGo fr fs (x + 1) (acc + f) else some (x, acc, f)
  | [], _, _ => none

/-! ## the range coder, encoder side (`range_coder.rs`) -/

/-- `RangeCoder` as the encoder uses it; `out` is the writer, newest byte FIRST -/
structure Enc where
  low : Nat
  range : Nat
  carry : Bool
  cache : Nat
  ffnum : Nat
  out : List Nat
  deriving Repr, DecidableEq

/-- `RangeCoder::default()` -/
def Enc.init : Enc := ⟨0, 2 ^ 32 - 1, false, 0, 0, []⟩

/-- `range_shift_low` -/
def shiftLow (e : Enc) : Enc :=
  if e.low < 0xff000000 ∨ e.carry = true then
    { e with
      out := if e.carry then List.replicate e.ffnum 0 ++ ((e.cache + 1) % 256 :: e.out)
             else List.replicate e.ffnum 255 ++ (e.cache % 256 :: e.out)
      ffnum := 0
      cache := e.low / 2 ^ 24
      carry := false
      low := e.low * 256 % 2 ^ 32 }
  else { e with ffnum := e.ffnum + 1, low := e.low * 256 % 2 ^ 32 }

/-- `while self.range < (1 << 24) { self.range <<= 8; self.range_shift_low(writer)?; }` — the range
is never 0, so three rounds always suffice (`fuel` = 4 at the call) -/
def normEnc : Nat → Enc → Enc
  | 0, e => e
  | fuel + 1, e =>
    if e.range < 2 ^ 24 then normEnc fuel (shiftLow { e with range := e.range * 256 }) else e

/-- `range_encode(sym_low, sym_freq, tot_freq)` -/
def Enc.encode (e : Enc) (lo f tot : Nat) : Enc :=
  let r := e.range / tot
  let low' := (e.low + lo * r) % 2 ^ 32
  normEnc 4 { e with range := r * f, low := low', carry := e.carry || decide (low' < e.low) }

/-- `range_encode_end`: five `range_shift_low`; the bytes written, oldest first -/
def Enc.finish (e : Enc) : List Nat :=
  (shiftLow (shiftLow (shiftLow (shiftLow (shiftLow e))))).out.reverse

/-- `Model::encode(range_coder, sym)`; `none` = index panic (the symbol is not in the table) -/
def Model.encode (m : Model) (e : Enc) (s : Nat) : Option (Model × Enc) :=
  match findGo s m.syms m.freqs 0 0 with
  | none => none
  | some (x, acc, f) => some (m.update x, e.encode acc f m.total)

/-! ## the range coder, decoder side -/

/-- `RangeCoder` as the decoder uses it, with the rest of the input -/
structure Dec where
  range : Nat
  code : Nat
  src : List Nat
  deriving Repr, DecidableEq

/-- `RangeCoder::new`: discard one byte, `code` = the next four, big-endian -/
def Dec.init : List Nat → Except DecErr Dec
  | _ :: b0 :: b1 :: b2 :: b3 :: r => .ok ⟨2 ^ 32 - 1, ((b0 * 256 + b1) * 256 + b2) * 256 + b3, r⟩
  | _ => .error .eof

/-- the loop of `range_decode`: `while self.range < (1 << 24) { self.range <<= 8;
self.code = (self.code << 8) | read_u8(src)? }` -/
def normDec : Nat → Dec → Except DecErr Dec
  | 0, d => .ok d
  | fuel + 1, d =>
    if d.range < 2 ^ 24 then
      match d.src with
      | [] => .error .eof
      | b :: r => normDec fuel ⟨d.range * 256, d.code * 256 % 2 ^ 32 + b, r⟩
    else .ok d

/-- `Model::decode(src, range_coder)`: `range_get_freq(total_freq)` (which divides the range), the
symbol search, `range_decode(acc, frequencies[x])`, the update; returns `symbols[x]` as read
BEFORE the swap -/
def Model.decode (m : Model) (d : Dec) : Except DecErr (Nat × Model × Dec) :=
  let r := d.range / m.total
  match locateGo (d.code / r) m.freqs 0 0 with
  | none => .error .invalidData
  | some (x, acc, f) =>
    match normDec 4 ⟨r * f, d.code - acc * r, d.src⟩ with
    | .error e => .error e
    | .ok d' => .ok (m.syms.getD x 0, m.update x, d')

/-! ## order 0 / order 1 / run lengths: encoders -/

/-- The loop all four encoders share: `models[ctx].encode(dst, &mut coder, sym)?` for each
(context, symbol) pair in order. `none` = an index panic. -/
def encSyms : List Model → Enc → List (Nat × Nat) → Option (List Model × Enc)
  | ms, e, [] => some (ms, e)
  | ms, e, (c, s) :: evs =>
    match ms[c]? with
    | none => none
    | some m =>
      match m.encode e s with
      | none => none
      | some (m', e') => encSyms (ms.set c m') e' evs

/-- `count_symbols`: largest byte + 1 (1 for an empty input) -/
def countSymbols (src : List Nat) : Nat := src.foldl max 0 + 1

/-- `write_symbol_count`: a full alphabet (256) is written as 0, anything else `u8::try_from(n)` -/
def symbolCountByte (n : Nat) : Except EncErr (List Nat) :=
  if n = 256 then .ok [0] else if n < 256 then .ok [n] else .error .invalidInput

/-- `encode/order_0.rs`: every symbol in the one model -/
def events0 (src : List Nat) : List (Nat × Nat) := src.map fun s => (0, s)

/-- `encode/order_1.rs`: the first symbol in `models[NUL]`, then `src.windows(2)`: each symbol in
the model of its predecessor -/
def events1 : Nat → List Nat → List (Nat × Nat)
  | _, [] => []
  | prev, s :: rest => (prev, s) :: events1 s rest

/-- `rle.rs`: `INITIAL_CONTEXT = 256`, `CONTINUE_CONTEXT = 257`: the context of the part of a run
length that follows a part coded in context `c` -/
def nextRunCtx (c : Nat) : Nat := if c < 256 then 256 else 257

/-- the parts of one run length: `n = len.min(3)` in the context of the symbol, then — `while n ==
3` — the next `len.min(3)` in context 256, then 257, 257, …; `base` is where the run-length models
start in the model list; `fuel` ≥ number of parts -/
def runParts (base : Nat) : Nat → Nat → Nat → List (Nat × Nat)
  | 0, _, _ => []
  | fuel + 1, c, len =>
    (base + c, min len 3) :: (if min len 3 = 3 then runParts base fuel (nextRunCtx c) (len - 3) else [])

/-- `encode/rle/order_{0,1}.rs`: per run — the symbol (order 0: model 0; order 1: model of the
previous run's symbol, `NUL` first), then the parts of (run length − 1). The main models are
`models[0 .. base)`, the 258 run-length models `models[base ..)`. `fuel` ≥ number of runs. -/
def eventsRle (o1 : Bool) (base : Nat) : Nat → Nat → List Nat → List (Nat × Nat)
  | 0, _, _ => []
  | _ + 1, _, [] => []
  | fuel + 1, prev, s :: rest =>
    let len := Nx.runOf s rest
    ((if o1 then prev else 0), s) :: (runParts base (len / 3 + 1) s len
      ++ eventsRle o1 base fuel s (rest.drop len))

/-- `MODEL_COUNT` models of `MODEL_SYMBOL_COUNT` symbols -/
def rleModels : List Model := List.replicate 258 (Model.new 4)

/-- symbol count byte, the coded symbols, the five closing bytes -/
def encodeWith (ms : List Model) (evs : List (Nat × Nat)) (n : Nat) : Except EncErr (List Nat) :=
  match symbolCountByte n with
  | .error e => .error e
  | .ok hd =>
    match encSyms ms Enc.init evs with
    | none => .error .trap
    | some (_, e) => .ok (hd ++ e.finish)

/-- `encode/order_0.rs` -/
def encode0 (src : List Nat) : Except EncErr (List Nat) :=
  encodeWith [Model.new (countSymbols src)] (events0 src) (countSymbols src)

/-- `encode/order_1.rs` -/
def encode1 (src : List Nat) : Except EncErr (List Nat) :=
  encodeWith (List.replicate (countSymbols src) (Model.new (countSymbols src))) (events1 0 src)
    (countSymbols src)

/-- `encode/rle.rs` -/
def encodeRle (o1 : Bool) (src : List Nat) : Except EncErr (List Nat) :=
  let n := countSymbols src
  let base := if o1 then n else 1
  encodeWith (List.replicate base (Model.new n) ++ rleModels) (eventsRle o1 base src.length 0 src) n

/-! ## order 0 / order 1 / run lengths: decoders -/

/-- `read_symbol_count`: 0 stands for 256 -/
def readSymbolCount : List Nat → Except DecErr (Nat × List Nat)
  | [] => .error .eof
  | b :: r => .ok (if b = 0 then 256 else b, r)

/-- the loop of `decode/order_0.rs` (`o1 = false`) and `decode/order_1.rs` (`o1 = true`):
`n` symbols, each from `models[prev]` (order 0: `models[0]`) -/
def decSyms (o1 : Bool) : Nat → Nat → List Model → Dec → Except DecErr (List Nat)
  | 0, _, _, _ => .ok []
  | n + 1, prev, ms, d =>
    let c := if o1 then prev else 0
    match ms[c]? with
    | none => .error .trap
    | some m =>
      match m.decode d with
      | .error e => .error e
      | .ok (s, m', d') =>
        match decSyms o1 n s (ms.set c m') d' with
        | .error e => .error e
        | .ok out => .ok (s :: out)

/-- the parts of a run length: `n = decode(ctx); len = n; while n == 3 && len < iter.len() { n =
decode(next ctx); len += n }` — `rem` is `iter.len()` (the output bytes after the run's first),
`acc` the length so far. Every further round needs `acc + 3 < rem`, so `fuel = rem + 1` is never
used up. -/
def decParts (base rem : Nat) : Nat → Nat → Nat → List Model → Dec → Except DecErr (Nat × List Model × Dec)
  | 0, _, _, _, _ => .error .fuel
  | fuel + 1, c, acc, ms, d =>
    match ms[base + c]? with
    | none => .error .trap
    | some m =>
      match m.decode d with
      | .error e => .error e
      | .ok (n, m', d') =>
        if n = 3 ∧ acc + n < rem then decParts base rem fuel (nextRunCtx c) (acc + n) (ms.set (base + c) m') d'
        else .ok (acc + n, ms.set (base + c) m', d')

/-- the loop of `decode/rle/order_{0,1}.rs`: `rem` output bytes are still to be written; a symbol,
its run length, then `sym` is written `1 + min(len, rem - 1)` times (`iter.by_ref().take(len)`: a
run that is longer than the rest of the output is cut, silently) -/
def decRuns (o1 : Bool) (base : Nat) : Nat → Nat → Nat → List Model → Dec → Except DecErr (List Nat)
  | 0, _, _, _, _ => .ok []
  | _ + 1, 0, _, _, _ => .ok []
  | fuel + 1, rem + 1, prev, ms, d =>
    let c := if o1 then prev else 0
    match ms[c]? with
    | none => .error .trap
    | some m =>
      match m.decode d with
      | .error e => .error e
      | .ok (s, m', d') =>
        match decParts base rem (rem + 1) s 0 (ms.set c m') d' with
        | .error e => .error e
        | .ok (len, ms', d'') =>
          match decRuns o1 base fuel (rem - min len rem) s ms' d'' with
          | .error e => .error e
          | .ok out => .ok (List.replicate (1 + min len rem) s ++ out)

/-- `decode/order_0.rs`, `decode/order_1.rs`: symbol count, models, `RangeCoder::new`, the loop -/
def decodeOrd (o1 : Bool) (n : Nat) (bs : List Nat) : Except DecErr (List Nat) :=
  match readSymbolCount bs with
  | .error e => .error e
  | .ok (k, bs) =>
    match Dec.init bs with
    | .error e => .error e
    | .ok d => decSyms o1 n 0 (List.replicate (if o1 then k else 1) (Model.new k)) d

/-- `decode/rle/order_{0,1}.rs` -/
def decodeRle (o1 : Bool) (n : Nat) (bs : List Nat) : Except DecErr (List Nat) :=
  match readSymbolCount bs with
  | .error e => .error e
  | .ok (k, bs) =>
    match Dec.init bs with
    | .error e => .error e
    | .ok d =>
      let base := if o1 then k else 1
      decRuns o1 base n n 0 (List.replicate base (Model.new k) ++ rleModels) d

/-! ## bit packing, decoder side (`rans_nx16/decode/bit_pack.rs`, used by `aac::decode`) -/

/-- one input byte of `unpack`: `k` symbols, low bits first; a value that is not an index of the
map is `InvalidData` -/
def unpackByteN (map : List Nat) (bits : Nat) : Nat → Nat → Except DecErr (List Nat)
  | 0, _ => .ok []
  | k + 1, v =>
    match map[v % 2 ^ bits]? with
    | none => .error .invalidData
    | some s =>
      match unpackByteN map bits k (v / 2 ^ bits) with
      | .error e => .error e
      | .ok out => .ok (s :: out)

/-- `unpack`: `src.iter().zip(dst.chunks_mut(chunk_size))` — `rem` output bytes are left; when the
input ends first the rest of `dst` keeps its zeros -/
def unpackGo (map : List Nat) (per : Nat) : List Nat → Nat → Except DecErr (List Nat)
  | _, 0 => .ok []
  | [], rem + 1 => .ok (List.replicate (rem + 1) 0)
  | b :: data, rem + 1 =>
    match unpackByteN map (8 / per) (min per (rem + 1)) b with
    | .error e => .error e
    | .ok syms =>
      match unpackGo map per data (rem + 1 - min per (rem + 1)) with
      | .error e => .error e
      | .ok out => .ok (syms ++ out)

/-- `bit_pack::decode(src, ctx)` -/
def unpackN (map : List Nat) (ulen : Nat) (data : List Nat) : Except DecErr (List Nat) :=
  if map.length = 1 then .ok (List.replicate ulen (map.getD 0 0))
  else if map.length = 2 then unpackGo map 8 data ulen
  else if map.length ≤ 4 then unpackGo map 4 data ulen
  else if map.length ≤ 16 then unpackGo map 2 data ulen
  else .error .invalidInput

/-! ## `encode` (`encode.rs`, `encode/stripe.rs`) -/

/-- the bit-packing stage: (flags, data, meta data); PACK is dropped for an empty input or more
than 16 distinct symbols -/
def stagePack (f : Flags) (src : List Nat) : Except EncErr (Flags × List Nat × List Nat) :=
  if f.pack then
    if (Nx.symbols src).length = 0 ∨ (Nx.symbols src).length > 16 then
      .ok ({ f with pack := false }, src, [])
    else
      let p := Nx.packEnc (Nx.symbols src) src
      if p.length < 2 ^ 32 then
        .ok (f, p, [(Nx.symbols src).length] ++ Nx.symbols src ++ (writeUint7 p.length).getD [])
      else .error .invalidInput
  else .ok (f, src, [])

/-- the entropy stage: `if CAT … else if EXT … else if RLE … else if order 0 … else …` -/
def stageEntropy (bz : List Nat → List Nat) (f : Flags) (data : List Nat) : Except EncErr (List Nat) :=
  if f.cat then .ok data
  else if f.ext then .ok (bz data)
  else if f.rle then encodeRle f.order data
  else if f.order then encode1 data
  else encode0 data

/-- `write_uncompressed_size` -/
def sizeBytes (f : Flags) (n : Nat) : Except EncErr (List Nat) :=
  if f.nosz then .ok []
  else if n < 2 ^ 32 then .ok ((writeUint7 n).getD []) else .error .invalidInput

/-- `encode` for a flag set without STRIPE -/
def encodeFlat (bz : List Nat → List Nat) (f : Flags) (src : List Nat) : Except EncErr (List Nat) :=
  match sizeBytes f src.length with
  | .error e => .error e
  | .ok size =>
    match stagePack f src with
    | .error e => .error e
    | .ok (f1, data, m) =>
      match stageEntropy bz f1 data with
      | .error e => .error e
      | .ok body => .ok ([f1.toByte] ++ size ++ m ++ body)

/-- `stripe::encode`: four transposed sub-streams (`chunk_i[j] = src[j * 4 + i]`), each
`super::encode(Flags::NO_SIZE, &chunk)`; chunk count, the compressed sizes, the chunks -/
def encodeStripe (bz : List Nat → List Nat) (src : List Nat) : Except EncErr (List Nat) :=
  match encodeFlat bz Flags.noSize (Nx.transpose 4 src 0) with
  | .error e => .error e
  | .ok p0 =>
  match encodeFlat bz Flags.noSize (Nx.transpose 4 src 1) with
  | .error e => .error e
  | .ok p1 =>
  match encodeFlat bz Flags.noSize (Nx.transpose 4 src 2) with
  | .error e => .error e
  | .ok p2 =>
  match encodeFlat bz Flags.noSize (Nx.transpose 4 src 3) with
  | .error e => .error e
  | .ok p3 =>
    if p0.length < 2 ^ 32 ∧ p1.length < 2 ^ 32 ∧ p2.length < 2 ^ 32 ∧ p3.length < 2 ^ 32 then
      .ok ([4] ++ ((writeUint7 p0.length).getD [] ++ (writeUint7 p1.length).getD []
        ++ (writeUint7 p2.length).getD [] ++ (writeUint7 p3.length).getD []) ++ (p0 ++ p1 ++ p2 ++ p3))
    else .error .invalidInput

/-- `aac::encode(flags, src)` -/
def encode (bz : List Nat → List Nat) (f : Flags) (src : List Nat) : Except EncErr (List Nat) :=
  if f.stripe then
    match sizeBytes f src.length with
    | .error e => .error e
    | .ok size =>
      match encodeStripe bz src with
      | .error e => .error e
      | .ok s => .ok ([f.toByte] ++ size ++ s)
  else encodeFlat bz f src

/-! ## `decode` (`decode.rs`, `decode/stripe.rs`) -/

def liftErr : Err → DecErr
  | .eof => .eof
  | .invalidData => .invalidData

def rdU7 (bs : List Nat) : Except DecErr (Nat × List Nat) :=
  match readUint7 bs with
  | .ok r => .ok r
  | .error e => .error (liftErr e)

def takeN (k : Nat) (bs : List Nat) : Except DecErr (List Nat × List Nat) :=
  if k ≤ bs.length then .ok (bs.take k, bs.drop k) else .error .eof

/-- `bit_pack::read_context`: symbol count (0 is `InvalidData`), the map, the packed length -/
def readPack (bs : List Nat) : Except DecErr (List Nat × Nat × List Nat) :=
  match bs with
  | [] => .error .eof
  | nsym :: bs =>
    if nsym = 0 then .error .invalidData
    else
      match takeN nsym bs with
      | .error e => .error e
      | .ok (map, bs) =>
        match rdU7 bs with
        | .error e => .error e
        | .ok (len, bs) => .ok (map, len, bs)

/-- the entropy stage of `decode`: `len` bytes; CAT is `src.split_off(..len)` (what follows is
ignored, as it is after every other stage) -/
def decEntropy (unbz : List Nat → Nat → Except DecErr (List Nat)) (f : Flags) (len : Nat)
    (bs : List Nat) : Except DecErr (List Nat) :=
  if f.cat then (if len ≤ bs.length then .ok (bs.take len) else .error .eof)
  else if f.ext then unbz bs len
  else if f.rle then decodeRle f.order len bs
  else decodeOrd f.order len bs

/-- `read_compressed_sizes` -/
def readSizes : Nat → List Nat → Except DecErr (List Nat × List Nat)
  | 0, bs => .ok ([], bs)
  | n + 1, bs =>
    match rdU7 bs with
    | .error e => .error e
    | .ok (c, bs) =>
      match readSizes n bs with
      | .error e => .error e
      | .ok (cs, bs) => .ok (c :: cs, bs)

/-- the `map` over `compressed_sizes.zip(uncompressed_sizes)` of `stripe::decode`: split a chunk
off, decode it (`dec` is `decode_chunk` one level deeper) with the size `len / x + (len % x > i)`,
`validate_chunk_size` -/
def decodeChunks (dec : List Nat → Nat → Except DecErr (List Nat)) (len x : Nat) :
    Nat → List Nat → List Nat → Except DecErr (List (List Nat))
  | _, [], _ => .ok []
  | i, c :: cs, bs =>
    match takeN c bs with
    | .error e => .error e
    | .ok (part, bs) =>
      match dec part (len / x + (if len % x > i then 1 else 0)) with
      | .error e => .error e
      | .ok out =>
        if out.length ≠ len / x + (if len % x > i then 1 else 0) then .error .invalidData
        else
          match decodeChunks dec len x (i + 1) cs bs with
          | .error e => .error e
          | .ok rest => .ok (out :: rest)

/-- `transpose(chunks, len)` of `decode/stripe.rs`: `dst[j * n + i] = chunk_i[j]`, zeros elsewhere
(every chunk has the size of its stripe, so every index is inside `dst`) -/
def transposeDec (chunks : List (List Nat)) (len : Nat) : List Nat :=
  (List.range len).map fun k => (chunks.getD (k % chunks.length) []).getD (k / chunks.length) 0

/-- `decode_chunk(src, uncompressed_size, depth)`; `deeper` is `decode_chunk` at `depth + 1`, or
`none` at `depth = MAX_STRIPE_DEPTH` (`stripe::decode` refuses: `InvalidData`) -/
def decodeWith (unbz : List Nat → Nat → Except DecErr (List Nat))
    (deeper : Option (List Nat → Nat → Except DecErr (List Nat))) :
    List Nat → Nat → Except DecErr (List Nat)
  | [], _ => .error .eof
  | b :: bs, outer =>
    let f := Flags.ofByte b
    match (if f.nosz then .ok (outer, bs) else rdU7 bs) with
    | .error e => .error e
    | .ok (ulen, bs) =>
      if f.stripe then
        match deeper with
        | none => .error .invalidData
        | some dec =>
          match bs with
          | [] => .error .eof
          | x :: bs =>
            if x = 0 then .error .invalidData
            else
              match readSizes x bs with
              | .error e => .error e
              | .ok (sizes, bs) =>
                match decodeChunks dec ulen x 0 sizes bs with
                | .error e => .error e
                | .ok chunks => .ok (transposeDec chunks ulen)
      else if f.pack then
        match readPack bs with
        | .error e => .error e
        | .ok (map, len, bs) =>
          match decEntropy unbz f len bs with
          | .error e => .error e
          | .ok data => unpackN map ulen data
      else decEntropy unbz f ulen bs

/-- `decode_chunk` with `budget` more stripe levels allowed below this one -/
def decodeD (unbz : List Nat → Nat → Except DecErr (List Nat)) :
    Nat → List Nat → Nat → Except DecErr (List Nat)
  | 0 => decodeWith unbz none
  | budget + 1 => decodeWith unbz (some (decodeD unbz budget))

/-- `aac::decode(src, uncompressed_size)`: `decode_chunk(src, uncompressed_size, 0)` with
`MAX_STRIPE_DEPTH = 8` -/
def decode (unbz : List Nat → Nat → Except DecErr (List Nat)) (bs : List Nat) (outer : Nat) :
    Except DecErr (List Nat) :=
  decodeD unbz 8 bs outer

end Noodles.Cram.Aac
