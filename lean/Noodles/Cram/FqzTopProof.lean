import Noodles.Cram.FqzCodecProof
import Noodles.Cram.NumProof
/-!
Helper lemmas for `Noodles/Props/C08Fqz.lean`: `decode (encode lens src) = src`, and `encode`
answers exactly for the valid record layouts.
-/
namespace Noodles.Cram.Fqz
open Noodles.Cram.Aac Noodles.Cram.Num

/-! ## the events are valid -/

/-- every event of the main loop is a quality of the input in one of the 65536 quality models, or
a byte in one of the four length models -/
def EvOk (src : List Nat) (ev : Nat × Nat) : Prop :=
  (ev.1 < 65536 ∧ ev.2 ∈ src) ∨ (65536 ≤ ev.1 ∧ ev.1 < 65540 ∧ ev.2 < 256)

theorem lenEvents_ok (src : List Nat) (len : Nat) : ∀ ev ∈ lenEvents len, EvOk src ev := by
  intro ev hev
  simp only [lenEvents, LEN, List.mem_cons, List.not_mem_nil, or_false] at hev
  rcases hev with rfl | rfl | rfl | rfl <;> exact Or.inr ⟨by simp, by simp, Nat.mod_lt _ (by decide)⟩

theorem encNewRecordEv_ok (P : EParams) (st st1 : ESt) (ev0 : List (Nat × Nat)) (src : List Nat)
    (h : encNewRecordEv P st = .ok (ev0, st1)) : ∀ ev ∈ ev0, EvOk src ev := by
  unfold encNewRecordEv at h
  split at h
  · simp at h
  · split at h
    · simp at h
    · split at h
      · simp at h
      · split at h
        · simp at h
        · next len rest _ =>
          split at h
          · simp at h
          · next evs hevs =>
            split at h
            · simp at h
            · simp only [Except.ok.injEq, Prod.mk.injEq] at h
              obtain ⟨rfl, _⟩ := h
              split at hevs
              · split at hevs
                · simp at hevs
                · simp only [Except.ok.injEq] at hevs
                  subst hevs
                  exact lenEvents_ok src len
              · simp only [Except.ok.injEq] at hevs
                subst hevs
                intro ev hev; simp at hev

theorem encEvents_ok (P : EParams) (src : List Nat) : ∀ (all : List Nat) (st : ESt) (evs : List (Nat × Nat)),
    (∀ q ∈ src, q ∈ all) → encEvents P st src = .ok evs → ∀ ev ∈ evs, EvOk all ev := by
  induction src with
  | nil =>
    intro all st evs _ h
    simp only [encEvents, Except.ok.injEq] at h
    subst h
    intro ev hev; simp at hev
  | cons q src ih =>
    intro all st evs hall h
    unfold encEvents at h
    split at h
    · simp at h
    · next ev0 st1 hnr =>
      split at h
      · simp at h
      · split at h
        · simp at h
        · split at h
          · simp at h
          · split at h
            · simp at h
            · split at h
              · simp at h
              · next evs' hrec =>
                simp only [Except.ok.injEq] at h
                subst h
                have h0 : ∀ ev ∈ ev0, EvOk all ev := by
                  split at hnr
                  · exact encNewRecordEv_ok P st st1 ev0 all hnr
                  · simp only [Except.ok.injEq, Prod.mk.injEq] at hnr
                    obtain ⟨rfl, _⟩ := hnr
                    intro ev hev; simp at hev
                have h1 := ih all _ evs' (fun x hx => hall x (List.mem_cons_of_mem _ hx)) hrec
                intro ev hev
                rcases List.mem_append.mp hev with hev | hev
                · exact h0 ev hev
                · rcases List.mem_cons.mp hev with rfl | hev
                  · exact Or.inl ⟨Nat.mod_lt _ (by decide), hall q (by simp)⟩
                  · exact h1 ev hev

/-! ## the events exist for a valid layout -/

theorem encEvents_total (fixed : Bool) (nsym pshift : Nat) (src : List Nat) : ∀ (st : ESt),
    (∀ q ∈ src, q < 256) → st.x = 0 → (∀ l ∈ st.lensRest, 0 < l ∧ l < 2 ^ 32) →
    st.p + st.lensRest.sum = src.length → ∃ evs, encEvents (builtParams fixed nsym pshift) st src = .ok evs := by
  induction src with
  | nil => intro st _ _ _ _; exact ⟨[], rfl⟩
  | cons q src ih =>
    intro st hq hx hlens hsum
    simp only [List.length_cons] at hsum
    have hq0 : q < 256 := hq q (by simp)
    have hqs : ∀ x ∈ src, x < 256 := fun x hx => hq x (List.mem_cons_of_mem _ hx)
    by_cases hp : st.p = 0
    · cases hl : st.lensRest with
      | nil => rw [hl] at hsum; simp at hsum; omega
      | cons len rest =>
        rw [hl] at hsum hlens
        simp only [List.sum_cons] at hsum
        obtain ⟨hlen0, hlen32⟩ := hlens len (by simp)
        rw [encEvents_new fixed nsym pshift st q len rest src hp hl hlen0 hlen32 hq0]
        obtain ⟨evs, hevs⟩ := ih ⟨len - 1, st.recNum + 1, rest, 0, (nextCtx pshift len 0 q).1,
          (nextCtx pshift len 0 q).2⟩ hqs rfl (fun l hl => hlens l (List.mem_cons_of_mem _ hl))
          (by simp only; omega)
        exact ⟨_, by rw [hevs]⟩
    · rw [encEvents_next fixed nsym pshift st q src (by omega) hx hq0]
      obtain ⟨evs, hevs⟩ := ih ⟨st.p - 1, st.recNum, st.lensRest, st.x, (nextCtx pshift st.p st.qlast q).1,
        (nextCtx pshift st.p st.qlast q).2⟩ hqs hx hlens (by simp only; omega)
      exact ⟨_, by rw [hevs]⟩

/-! ## the models -/

/-- the decoder's models for the built parameters (no selector model) -/
def decModels (nsym : Nat) : List Model :=
  List.replicate 65536 (Model.new nsym) ++ List.replicate 4 (Model.new 256) ++ [Model.new 2, Model.new 2]

theorem models_dec (nsym : Nat) : (Models.new nsym none).toList = decModels nsym := by
  simp [-List.reduceReplicate, Models.new, decModels]

theorem models_enc (nsym : Nat) : (Models.new nsym (some 1)).toList = decModels nsym ++ [Model.new 1] := by
  simp [-List.reduceReplicate, Models.new, decModels]

theorem decModels_length (nsym : Nat) : (decModels nsym).length = 65542 := by
  simp [-List.reduceReplicate, decModels]

theorem decModels_wf (nsym : Nat) (h : nsym ≤ 256) : AllWF (decModels nsym) := by
  intro m hm
  simp only [decModels, List.mem_append, List.mem_replicate, List.mem_cons, List.not_mem_nil, or_false] at hm
  rcases hm with (⟨_, rfl⟩ | ⟨_, rfl⟩) | rfl | rfl
  · exact Model.new_wf nsym h
  · exact Model.new_wf 256 (by omega)
  · exact Model.new_wf 2 (by omega)
  · exact Model.new_wf 2 (by omega)

/-- a model the events never touch (the encoder's unused selector model) can be left out -/
theorem encSyms_prefix (evs : List (Nat × Nat)) : ∀ (ms ex : List Model) (e : Enc),
    (∀ ev ∈ evs, ev.1 < ms.length) →
    encSyms (ms ++ ex) e evs = match encSyms ms e evs with
      | none => none
      | some (ms', e') => some (ms' ++ ex, e') := by
  induction evs with
  | nil => intro ms ex e _; rfl
  | cons ev evs ih =>
    intro ms ex e h
    obtain ⟨c, s⟩ := ev
    have hc : c < ms.length := h (c, s) (by simp)
    simp only [encSyms, List.getElem?_append_left hc]
    cases hm : ms[c]? with
    | none => rfl
    | some m =>
      simp only
      cases m.encode e s with
      | none => rfl
      | some r =>
        simp only
        rw [List.set_append_left _ _ hc]
        exact ih _ ex _ (fun ev hev => by rw [List.length_set]; exact h ev (List.mem_cons_of_mem _ hev))

/-- the alphabet sizes of the encoder's models -/
def encSizes (nsym : Nat) : List Nat := List.replicate 65536 nsym ++ List.replicate 4 256 ++ [2, 2, 1]

theorem getElem?_replicate_lt {α : Type} (k : Nat) (a : α) (c : Nat) (h : c < k) :
    (List.replicate k a)[c]? = some a := by
  rw [List.getElem?_replicate]; simp [h]

theorem models_sized (nsym : Nat) (h : nsym ≤ 256) : Sized (encSizes nsym) (Models.new nsym (some 1)).toList := by
  have hmap : (Models.new nsym (some 1)).toList = (encSizes nsym).map Model.new := by
    simp [-List.reduceReplicate, Models.new, encSizes]
  rw [hmap]
  refine ⟨by rw [List.length_map], ?_⟩
  intro c n m hn hm
  rw [List.getElem?_map, hn] at hm
  simp only [Option.map_some, Option.some.injEq] at hm
  subst hm
  refine Model.new_full n ?_
  have : n ∈ encSizes nsym := List.mem_of_getElem? hn
  simp only [encSizes, List.mem_append, List.mem_replicate, List.mem_cons, List.not_mem_nil, or_false] at this
  omega

theorem evOk_sized (nsym : Nat) (src : List Nat) (hs : ∀ q ∈ src, q < nsym) (ev : Nat × Nat)
    (h : EvOk src ev) : ∃ n, (encSizes nsym)[ev.1]? = some n ∧ ev.2 < n := by
  rcases h with ⟨h1, h2⟩ | ⟨h1, h2, h3⟩
  · refine ⟨nsym, ?_, hs _ h2⟩
    simp only [encSizes, List.append_assoc]
    rw [List.getElem?_append_left (by rw [List.length_replicate]; exact h1)]
    exact getElem?_replicate_lt _ _ _ h1
  · refine ⟨256, ?_, h3⟩
    simp only [encSizes, List.append_assoc]
    rw [List.getElem?_append_right (by rw [List.length_replicate]; exact h1), List.length_replicate,
      List.getElem?_append_left (by rw [List.length_replicate]; omega)]
    exact getElem?_replicate_lt _ _ _ (by omega)

/-! ## `encode` -/

theorem validLayout_spec (lens src : List Nat) (h : validLayout lens src = true) :
    lens ≠ [] ∧ (∀ l ∈ lens, 0 < l) ∧ lens.sum = src.length := by
  simp only [validLayout, Bool.and_eq_true, Bool.not_eq_true', List.isEmpty_eq_false_iff,
    List.all_eq_true, decide_eq_true_eq] at h
  exact ⟨h.1.1, h.1.2, h.2⟩

theorem le_sum_of_mem (l : List Nat) (x : Nat) (h : x ∈ l) : x ≤ l.sum := by
  induction l with
  | nil => simp at h
  | cons a l ih =>
    simp only [List.sum_cons]
    rcases List.mem_cons.mp h with rfl | h
    · omega
    · have := ih h; omega

/-- what `encode` does for a valid layout: the built parameters, written; the events, coded -/
theorem encode_valid (lens src : List Nat) (hb : ∀ q ∈ src, q < 256) (hv : validLayout lens src = true)
    (h32 : src.length < 2 ^ 32) :
    ∃ l0 pb evs, lens.head? = some l0 ∧
      writeParams (builtParams (allEqual lens) (countSymbols src) (if l0 > 128 then 1 else 0)) = .ok pb ∧
      encEvents (builtParams (allEqual lens) (countSymbols src) (if l0 > 128 then 1 else 0)) ⟨0, 0, lens, 0, 0, 0⟩ src
        = .ok evs ∧
      (∀ ev ∈ evs, EvOk src ev) ∧
      encode lens src = match codeEvents (Models.new (countSymbols src) (some 1)) Enc.init evs with
        | .error err => .error err
        | .ok (_, e) => .ok ((writeUint7 src.length).getD [] ++ pb ++ e.finish) := by
  obtain ⟨hne, hpos, hsum⟩ := validLayout_spec lens src hv
  obtain ⟨l0, hl0⟩ : ∃ l0, lens.head? = some l0 := by
    cases lens with
    | nil => exact absurd rfl hne
    | cons a r => exact ⟨a, rfl⟩
  have hn1 : 1 ≤ countSymbols src := by unfold countSymbols; omega
  have hn2 : countSymbols src ≤ 256 := countSymbols_le src hb
  have hps : (if l0 > 128 then 1 else 0) = 0 ∨ (if l0 > 128 then 1 else 0) = 1 := by
    split <;> simp
  obtain ⟨pb, hpb, _⟩ := readParams_writeParams _ [] (builtParams_writable (allEqual lens) (countSymbols src)
    (if l0 > 128 then 1 else 0) hn1 hn2 hps)
  obtain ⟨evs, hevs⟩ := encEvents_total (allEqual lens) (countSymbols src) (if l0 > 128 then 1 else 0) src
    ⟨0, 0, lens, 0, 0, 0⟩ hb rfl
    (fun l hl => ⟨hpos l hl, by have := le_sum_of_mem lens l hl; omega⟩) (by simp only; omega)
  refine ⟨l0, pb, evs, hl0, hpb, hevs, encEvents_ok _ src src _ evs (fun _ h => h) hevs, ?_⟩
  have hbp := buildParameters_eq lens src l0 hl0
  have hcs : src.foldl max 0 + 1 = countSymbols src := rfl
  rw [hcs] at hbp
  have hsc : (builtParams (allEqual lens) (countSymbols src) (if l0 > 128 then 1 else 0)).symbolCount
      = countSymbols src := rfl
  simp only [encode, hv, Bool.not_true, Bool.false_eq_true, if_false, h32, not_true_eq_false, hbp, hpb, hsc,
    encLoop_eq _ src _ _ _ evs hevs]
  cases codeEvents (Models.new (countSymbols src) (some 1)) Enc.init evs with
  | error err => rfl
  | ok r => rfl

/-- `encode` answers for every valid layout -/
theorem encode_total (lens src : List Nat) (hb : ∀ q ∈ src, q < 256) (hv : validLayout lens src = true)
    (h32 : src.length < 2 ^ 32) : ∃ enc, encode lens src = .ok enc := by
  obtain ⟨l0, pb, evs, _, _, _, hok, henc⟩ := encode_valid lens src hb hv h32
  have hn2 : countSymbols src ≤ 256 := countSymbols_le src hb
  obtain ⟨r, hr⟩ := encSyms_total (encSizes (countSymbols src)) evs _ Enc.init (models_sized _ hn2)
    (fun ev hev => evOk_sized _ src (fun q hq => lt_countSymbols src q hq) ev (hok ev hev))
  rw [henc]
  simp only [codeEvents, hr]
  exact ⟨_, rfl⟩

/-! ## `decode ∘ encode` -/

theorem decode_encode (lens src enc : List Nat) (hb : ∀ q ∈ src, q < 256) (h : encode lens src = .ok enc) :
    decode enc = .ok src := by
  have hv : validLayout lens src = true := by
    cases hvv : validLayout lens src with
    | true => rfl
    | false => simp [encode, hvv] at h
  have h32 : src.length < 2 ^ 32 := by
    rcases Nat.lt_or_ge src.length (2 ^ 32) with h1 | h1
    · exact h1
    · have : ¬ src.length < 2 ^ 32 := by omega
      simp [encode, hv, this] at h
  obtain ⟨hne, hpos, hsum⟩ := validLayout_spec lens src hv
  obtain ⟨l0, pb, evs, hl0, hpb, hevs, hok, henc⟩ := encode_valid lens src hb hv h32
  have hn1 : 1 ≤ countSymbols src := by unfold countSymbols; omega
  have hn2 : countSymbols src ≤ 256 := countSymbols_le src hb
  have hps : (if l0 > 128 then 1 else 0) = 0 ∨ (if l0 > 128 then 1 else 0) = 1 := by
    split <;> simp
  generalize hfx : allEqual lens = fixed at *
  generalize hns : countSymbols src = nsym at *
  generalize hsh : (if l0 > 128 then 1 else 0) = pshift at *
  rw [henc] at h
  -- the encoder coded the events
  unfold codeEvents at h
  rw [models_enc] at h
  have hidx : ∀ ev ∈ evs, ev.1 < (decModels nsym).length := by
    intro ev hev
    rw [decModels_length]
    rcases hok ev hev with ⟨h1, _⟩ | ⟨_, h1, _⟩ <;> omega
  rw [encSyms_prefix evs _ _ _ hidx] at h
  cases hsy : encSyms (decModels nsym) Enc.init evs with
  | none => simp [hsy] at h
  | some r =>
    obtain ⟨msF, eF⟩ := r
    simp only [hsy, Except.ok.injEq] at h
    subst h
    -- the header is read back
    obtain ⟨u7, hu7, _, _, hru7⟩ := uint7_roundtrip' src.length h32
    obtain ⟨pb', hpb', hrpb⟩ := readParams_writeParams _ eF.finish
      (builtParams_writable fixed nsym pshift hn1 hn2 hps)
    rw [hpb] at hpb'
    simp only [Except.ok.injEq] at hpb'
    subst hpb'
    -- the coders start in step
    obtain ⟨d, hd, hsync⟩ := sync_init (decModels nsym) msF eF evs (decModels_wf nsym hn2) hsy
    rw [← models_dec] at hsync
    have hmax : (builtDec fixed nsym pshift).maxSymbolCount = nsym := by
      show List.foldl max 0 [nsym] = nsym
      simp
    obtain ⟨st', hst', hout⟩ := decLoop_sync fixed nsym pshift src.length eF.finish src ⟨0, 0, lens, 0, 0, 0⟩ evs
      (Models.new nsym none) Enc.init d Rec.init 0 0 0 [] [] src.length hevs hsync hb rfl rfl rfl rfl rfl
      (fun h => absurd h (by simp))
      (fun l hl => ⟨hpos l hl, by have := le_sum_of_mem lens l hl; omega⟩)
      (fun hf => by
        subst hf
        refine ⟨l0, fun l hl => ?_, fun h => absurd h (by simp)⟩
        have hmem : l0 ∈ lens := by
          cases lens with
          | nil => simp at hl0
          | cons a r => simp only [List.head?_cons, Option.some.injEq] at hl0; subst hl0; simp
        exact allEqual_spec lens hfx l hl l0 hmem)
      (by simp only; omega) (by omega) (Nat.le_refl _)
    unfold decode
    simp only [hu7, Option.getD_some, List.append_assoc, rdU7, hru7, hrpb, hd]
    have hsel := builtDec_sel fixed nsym pshift
    have hrev := builtDec_rev fixed nsym pshift
    simp only [builtDec] at hsel hrev hmax hst'
    simp only [hsel, hrev, hmax, hst', Bool.false_eq_true, if_false, hout, List.append_nil, List.reverse_reverse]

end Noodles.Cram.Fqz
