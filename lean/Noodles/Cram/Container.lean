/-!
# CRAM container bookkeeping (model core 3 of C07)

Transcribed from noodles-cram `io/writer/num/itf8.rs::write_itf8`,
`io/writer/container/block.rs` (`Block::size`, `itf8_size_of`, `write_block`),
`io/writer/container.rs::build_container` (container size, landmarks, block count, slice record
counters, base count), `io/writer.rs` (`add_record` / `flush`: which records form a container, the
running `record_counter`) and the EOF container constant.

Bytes are `Nat`s. CRC32 is a parameter of `writeBlock` (any function returning four bytes); the
EOF container is checked against the model's own bitwise CRC-32.
-/
namespace Noodles.Cram.Container

/-! ## ITF8 -/

/-- `itf8_size_of(n: i32)`: `n >> (8k - k) == 0` with an arithmetic shift holds iff `0 ≤ n < 2^(7k)` -/
def itf8SizeOf (n : Int) : Nat :=
  if 0 ≤ n ∧ n < 2 ^ 7 then 1
  else if 0 ≤ n ∧ n < 2 ^ 14 then 2
  else if 0 ≤ n ∧ n < 2 ^ 21 then 3
  else if 0 ≤ n ∧ n < 2 ^ 28 then 4
  else 5

/-- `write_itf8(n: i32)`; `u` is `n as u32` -/
def writeItf8 (n : Int) : List Nat :=
  let u := (n % 2 ^ 32).toNat
  if 0 ≤ n ∧ n < 2 ^ 7 then [u]
  else if 0 ≤ n ∧ n < 2 ^ 14 then [128 + u / 256, u % 256]
  else if 0 ≤ n ∧ n < 2 ^ 21 then [192 + u / 65536, u / 256 % 256, u % 256]
  else if 0 ≤ n ∧ n < 2 ^ 28 then [224 + u / 16777216, u / 65536 % 256, u / 256 % 256, u % 256]
  else [240 + u / 268435456, u / 1048576 % 256, u / 4096 % 256, u / 16 % 256, u % 16]

/-! ## blocks -/

structure Block where
  method : Nat
  ctype : Nat
  cid : Int
  rawSize : Nat
  /-- the stored (compressed) bytes -/
  data : List Nat
  deriving Repr

/-- `Block::size` -/
def Block.size (b : Block) : Nat :=
  1 + 1 + itf8SizeOf b.cid + itf8SizeOf b.data.length + itf8SizeOf b.rawSize + b.data.length + 4

/-- `write_block`: header fields, data, CRC32 of everything before it -/
def writeBlock (crc : List Nat → List Nat) (b : Block) : List Nat :=
  let body := [b.method, b.ctype] ++ writeItf8 b.cid ++ writeItf8 b.data.length ++ writeItf8 b.rawSize ++ b.data
  body ++ crc body

/-! ## one container (`build_container`) -/

structure Slice where
  header : Block
  core : Block
  ext : List Block
  /-- records / bases in the slice -/
  nrec : Nat
  deriving Repr

def Slice.blocks (s : Slice) : List Block := s.header :: s.core :: s.ext

/-- `slice_size`: header block + core block + external blocks -/
def Slice.size (s : Slice) : Nat := s.header.size + (s.core.size + (s.ext.map Block.size).sum)

/-- the `for (i, slice) in slices.into_iter().enumerate()` loop: running container size; a landmark is
pushed after every slice but the last -/
def layoutGo : Nat → List Slice → Nat × List Nat
  | size, [] => (size, [])
  | size, [s] => (size + s.size, [])
  | size, s :: s' :: rest =>
    let (sz, lm) := layoutGo (size + s.size) (s' :: rest)
    (sz, (size + s.size) :: lm)

/-- (container length, landmarks) for a compression header block and the slices -/
def layout (ch : Block) (slices : List Slice) : Nat × List Nat :=
  let (sz, lm) := layoutGo ch.size slices
  (sz, ch.size :: lm)

/-- the blocks in the order they are written -/
def allBlocks (ch : Block) (slices : List Slice) : List Block := ch :: slices.flatMap Slice.blocks

/-- `Header::block_count` -/
def blockCount (ch : Block) (slices : List Slice) : Nat := (allBlocks ch slices).length

/-- the container body as written by `write_container` after the header -/
def serialize (crc : List Nat → List Nat) (ch : Block) (slices : List Slice) : List Nat :=
  ((allBlocks ch slices).map (writeBlock crc)).flatten

/-- `slice_record_counter`: starts at the container's counter, advances by each chunk's length -/
def sliceCounters : Nat → List Nat → List Nat
  | _, [] => []
  | c, n :: ns => c :: sliceCounters (c + n) ns

/-! ## the writer: which records form a container, a slice (`add_record`, `flush`, `chunks_mut`) -/

/-- `slice::chunks(k)` over a list of read lengths -/
def chunks (k : Nat) : (fuel : Nat) → List Nat → List (List Nat)
  | 0, _ => []
  | fuel+1, l => if l.isEmpty then [] else l.take k :: chunks k fuel (l.drop k)

/-- one container: (record counter, record count, base count, per slice (counter, record count)) -/
structure ContainerInfo where
  counter : Nat
  nrec : Nat
  bases : Nat
  slices : List (Nat × Nat)
  deriving Repr, DecidableEq

/-- `Writer`: records (given by their read lengths) are buffered; a container is flushed whenever
`records_per_slice * slices_per_container` are buffered, and at `try_finish`. -/
def containers (rps spc : Nat) (readLens : List Nat) : List ContainerInfo :=
  let go := fun (acc : Nat × List ContainerInfo) (recs : List Nat) =>
    let sl := (chunks rps recs.length recs).map List.length
    (acc.1 + recs.length, acc.2 ++ [⟨acc.1, recs.length, recs.sum, (sliceCounters acc.1 sl).zip sl⟩])
  ((chunks (rps * spc) readLens.length readLens).foldl go (0, [])).2

/-! ## EOF container -/

/-- § 9 "End of file container" as written by `write_eof_container` -/
def eof : List Nat :=
  [0x0f, 0x00, 0x00, 0x00, 0xff, 0xff, 0xff, 0xff, 0x0f, 0xe0, 0x45, 0x4f, 0x46, 0x00, 0x00, 0x00,
   0x00, 0x01, 0x00, 0x05, 0xbd, 0xd9, 0x4f, 0x00, 0x01, 0x00, 0x06, 0x06, 0x01, 0x00, 0x01, 0x00,
   0x01, 0x00, 0xee, 0x63, 0x01, 0x4b]

/-- bitwise CRC-32 (IEEE 802.3, reflected) over `Nat` -/
def crcStep (c : Nat) : Nat := if c % 2 = 1 then (c / 2) ^^^ 0xEDB88320 else c / 2
def crcByte (c b : Nat) : Nat :=
  crcStep (crcStep (crcStep (crcStep (crcStep (crcStep (crcStep (crcStep (c ^^^ b))))))))
def crc32 (bs : List Nat) : Nat := (bs.foldl crcByte 0xFFFFFFFF) ^^^ 0xFFFFFFFF
/-- four little-endian bytes -/
def le32 (n : Nat) : List Nat := [n % 256, n / 256 % 256, n / 65536 % 256, n / 16777216 % 256]
def crcBytes (bs : List Nat) : List Nat := le32 (crc32 bs)

end Noodles.Cram.Container
