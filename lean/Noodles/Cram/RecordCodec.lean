import Noodles.Cram.Encoding
import Noodles.Cram.Features
/-!
# The CRAM record codec: which data series a record is written to / read from, in which order

Transcribed from noodles-cram

* `io/writer/container/slice/records.rs` (`Writer::write_record` and everything it calls),
* `io/reader/container/slice/records.rs` (`Records::read_record` and everything it calls),
* `io/reader/container/slice/records/data.rs::read_value` (the shape checks on a tag value),
* `io/writer/container/slice.rs::{write_records, build_blocks}` (the set of external streams a slice
  starts with; empty streams are not written as blocks) and
  `io/reader/container/slice.rs::read_records`,
* `io/writer/record.rs::calculate_alignment_span`, `Record::alignment_end`,
  `io/writer/container/slice.rs::get_reference_sequence_context`,
  `container/reference_sequence_context.rs::update`.

A record is the crate-private `io::writer::Record` / `cram::Record` reduced to the fields the codec
touches. Features are `Noodles.Cram.Feature` (model core 1 of C07): a substitution carries its
*code* (`write_base_substitution_code` = `SubstitutionMatrix::find`, already part of that model). A
tag value is its BAM encoding (what `noodles_bam … write_value` produced; the typed view is C05's).

Series are named by their two-letter keys. `usize → i32` conversions are `InvalidInput` in the writer
(`InvalidData` for the read length, as in the code); `i32 → usize/u8/u16` conversions are
`InvalidData` in the reader. `usize::from(feature.position()) - prev_position` is a `usize`
subtraction: a feature list that is not sorted by position panics (overflow checks).
-/
namespace Noodles.Cram.Enc
open Noodles.Cram (Feature)

/-! ## compression header, as far as the record codec reads it -/

/-- `DataSeriesEncodings`, fields named by their series keys -/
structure DSE where
  bf : Option IntEnc := none
  cf : Option IntEnc := none
  ri : Option IntEnc := none
  rl : Option IntEnc := none
  ap : Option IntEnc := none
  rg : Option IntEnc := none
  rn : Option ByteArrayEnc := none
  mf : Option IntEnc := none
  ns : Option IntEnc := none
  np : Option IntEnc := none
  ts : Option IntEnc := none
  nf : Option IntEnc := none
  tl : Option IntEnc := none
  fn : Option IntEnc := none
  fc : Option ByteEnc := none
  fp : Option IntEnc := none
  dl : Option IntEnc := none
  bb : Option ByteArrayEnc := none
  qq : Option ByteArrayEnc := none
  bs : Option ByteEnc := none
  in_ : Option ByteArrayEnc := none
  rs : Option IntEnc := none
  pd : Option IntEnc := none
  hc : Option IntEnc := none
  sc : Option ByteArrayEnc := none
  mq : Option IntEnc := none
  ba : Option ByteEnc := none
  qs : Option ByteEnc := none
  deriving DecidableEq, Repr

/-- `tag_sets::Key`: two tag bytes and the BAM type byte -/
structure Key where
  t0 : Nat
  t1 : Nat
  ty : Nat
  deriving DecidableEq, Repr

/-- `block::ContentId::from(key)` -/
def Key.id (k : Key) : Int := ((k.t0 * 65536 + k.t1 * 256 + k.ty : Nat) : Int)

structure CH where
  /-- preservation map `RN` -/
  recordsHaveNames : Bool := true
  /-- preservation map `AP` -/
  apDelta : Bool := true
  /-- preservation map `TD` -/
  tagSets : List (List Key) := []
  dse : DSE := {}
  /-- `TagEncodings` (a hash map) -/
  tagEnc : Int → Option ByteArrayEnc := fun _ => none

/-- `ReferenceSequenceContext` -/
inductive RefCtx
  | some (id start end_ : Nat)
  | none
  | many
  deriving DecidableEq, Repr

structure CRec where
  bamFlags : Nat := 4
  cramFlags : Nat := 0
  refId : Option Nat := none
  readLength : Nat := 0
  alignmentStart : Option Nat := none
  readGroupId : Option Nat := none
  name : Option (List Nat) := none
  mateFlags : Nat := 0
  mateRefId : Option Nat := none
  mateStart : Option Nat := none
  templateLength : Int := 0
  mateDistance : Option Nat := none
  data : List (Key × List Nat) := []
  features : List Feature := []
  mappingQuality : Option Nat := none
  sequence : List Nat := []
  qualityScores : List Nat := []
  deriving DecidableEq, Repr

def bitSet (f k : Nat) : Bool := f / 2 ^ k % 2 == 1
/-- `flags |= 1 << k` -/
def orBit (f k : Nat) : Nat := if bitSet f k then f else f + 2 ^ k

def CRec.unmapped (r : CRec) : Bool := bitSet r.bamFlags 2
def CRec.qsArray (r : CRec) : Bool := bitSet r.cramFlags 0
def CRec.detached (r : CRec) : Bool := bitSet r.cramFlags 1
def CRec.downstream (r : CRec) : Bool := bitSet r.cramFlags 2

/-- `.ok_or_else(|| missing_data_series_encoding_error(..))` -/
def need {α : Type} : Option α → Res α
  | some a => .ok a
  | none => .error .invalidData

/-- `i32::try_from(usize)` -/
def toI32 (n : Nat) (e : Err) : Res Int := if n < 2 ^ 31 then .ok (n : Int) else .error e

/-- `Option<usize>` written as an `i32` with a sentinel for `None` -/
def optToI32 (o : Option Nat) (missing : Int) : Res Int :=
  match o with
  | some n => toI32 n .invalidInput
  | none => .ok missing

/-! ## writer -/

def putInt (e : Option IntEnc) (s : WS) (v : Int) : Res WS := do (← need e).encode s v
def putByte (e : Option ByteEnc) (s : WS) (v : Nat) : Res WS := do (← need e).encode s v
def putBytes (e : Option ByteArrayEnc) (s : WS) (v : List Nat) : Res WS := do (← need e).encode s v
def putExtend (e : Option ByteEnc) (s : WS) (v : List Nat) : Res WS := do (← need e).encodeExtend s v

/-- `write_name`: a missing name is `*` -/
def writeName (ch : CH) (s : WS) (name : Option (List Nat)) : Res WS :=
  putBytes ch.dse.rn s (name.getD [42])

/-- `write_positions` (+ `write_reference_sequence_id`, `write_read_length`, `write_alignment_start`,
`write_read_group_id`); `prev` is `prev_alignment_start` -/
def writePositions (ch : CH) (ctx : RefCtx) (prev : Option Nat) (s : WS) (r : CRec) : Res WS := do
  let s ← if ctx = .many then do
      let n ← optToI32 r.refId (-1)
      putInt ch.dse.ri s n
    else pure s
  let n ← toI32 r.readLength .invalidData
  let s ← putInt ch.dse.rl s n
  let v ← if ch.apDelta then do
      let start ← optToI32 r.alignmentStart 0
      let prevStart ← optToI32 prev 0
      pure (start - prevStart)
    else optToI32 r.alignmentStart 0
  let s ← putInt ch.dse.ap s v
  let g ← optToI32 r.readGroupId (-1)
  putInt ch.dse.rg s g

/-- `write_mate` -/
def writeMate (ch : CH) (s : WS) (r : CRec) : Res WS :=
  if r.detached then do
    let s ← putInt ch.dse.mf s r.mateFlags
    let s ← if ch.recordsHaveNames then pure s else writeName ch s r.name
    let n ← optToI32 r.mateRefId (-1)
    let s ← putInt ch.dse.ns s n
    let p ← optToI32 r.mateStart 0
    let s ← putInt ch.dse.np s p
    putInt ch.dse.ts s r.templateLength
  else
    match r.mateDistance with
    | some d => do
      let n ← toI32 d .invalidInput
      putInt ch.dse.nf s n
    | none => pure s

/-- `tag_sets.iter().position(|set| **set == tag_set)` -/
def findTagSet (sets : List (List Key)) (set : List Key) : Option Nat :=
  let i := sets.findIdx (· == set)
  if i < sets.length then some i else none

/-- the `for (key, (_, value)) in tag_set.into_iter().zip(&record.data)` loop -/
def writeTagValues (ch : CH) : WS → List (Key × List Nat) → Res WS
  | s, [] => .ok s
  | s, (k, v) :: rest =>
    match ch.tagEnc k.id with
    | none => .error .invalidInput
    | some e =>
      match e.encode s v with
      | .error e => .error e
      | .ok s => writeTagValues ch s rest

/-- `write_data` -/
def writeData (ch : CH) (s : WS) (r : CRec) : Res WS :=
  match findTagSet ch.tagSets (r.data.map (·.1)) with
  | none => .error .invalidInput
  | some i => do
    let n ← toI32 i .invalidInput
    let s ← putInt ch.dse.tl s n
    writeTagValues ch s r.data

/-- `Feature::code` -/
def featureCode : Feature → Nat
  | .bases .. => 98 | .scores .. => 113 | .readBase .. => 66 | .subst .. => 88
  | .insertion .. => 73 | .deletion .. => 68 | .insertBase .. => 105 | .qualityScore .. => 81
  | .refSkip .. => 78 | .softClip .. => 83 | .padding .. => 80 | .hardClip .. => 72

/-- `write_feature`: code, position delta, then the feature's own series -/
def writeFeature (ch : CH) (s : WS) (f : Feature) (delta : Nat) : Res WS := do
  let s ← putByte ch.dse.fc s (featureCode f)
  let d ← toI32 delta .invalidInput
  let s ← putInt ch.dse.fp s d
  match f with
  | .bases _ bs => putBytes ch.dse.bb s bs
  | .scores _ qs => putBytes ch.dse.qq s qs
  | .readBase _ b q => do
    let s ← putByte ch.dse.ba s b
    putByte ch.dse.qs s q
  | .subst _ code => putByte ch.dse.bs s code
  | .insertion _ bs => putBytes ch.dse.in_ s bs
  | .deletion _ n => do putInt ch.dse.dl s (← toI32 n .invalidInput)
  | .insertBase _ b => putByte ch.dse.ba s b
  | .qualityScore _ q => putByte ch.dse.qs s q
  | .refSkip _ n => do putInt ch.dse.rs s (← toI32 n .invalidInput)
  | .softClip _ bs => putBytes ch.dse.sc s bs
  | .padding _ n => do putInt ch.dse.pd s (← toI32 n .invalidInput)
  | .hardClip _ n => do putInt ch.dse.hc s (← toI32 n .invalidInput)

/-- the `for feature in &record.features` loop with its register `prev_position` -/
def writeFeatures (ch : CH) : WS → Nat → List Feature → Res WS
  | s, _, [] => .ok s
  | s, prev, f :: fs =>
    if f.pos < prev then .error .panic else
    match writeFeature ch s f (f.pos - prev) with
    | .error e => .error e
    | .ok s => writeFeatures ch s f.pos fs

/-- `write_mapped_read` -/
def writeMapped (ch : CH) (s : WS) (r : CRec) : Res WS := do
  let n ← toI32 r.features.length .invalidInput
  let s ← putInt ch.dse.fn s n
  let s ← writeFeatures ch s 0 r.features
  let s ← putInt ch.dse.mq s (r.mappingQuality.getD 255 : Nat)
  if r.qsArray then putExtend ch.dse.qs s r.qualityScores else pure s

/-- `write_unmapped_read` -/
def writeUnmapped (ch : CH) (s : WS) (r : CRec) : Res WS := do
  let s ← putExtend ch.dse.ba s r.sequence
  if r.qsArray then putExtend ch.dse.qs s r.qualityScores else pure s

/-- `Writer::write_record`; the state is the streams and `prev_alignment_start` -/
def writeRecord (ch : CH) (ctx : RefCtx) (st : WS × Option Nat) (r : CRec) : Res (WS × Option Nat) := do
  let s ← putInt ch.dse.bf st.1 r.bamFlags
  let s ← putInt ch.dse.cf s r.cramFlags
  let s ← writePositions ch ctx st.2 s r
  let s ← if ch.recordsHaveNames then writeName ch s r.name else pure s
  let s ← writeMate ch s r
  let s ← writeData ch s r
  let s ← if r.unmapped then writeUnmapped ch s r else writeMapped ch s r
  pure (s, r.alignmentStart)

/-- `initial_alignment_start` of `Writer::new` / `Records::new` -/
def RefCtx.initialStart : RefCtx → Option Nat
  | .some _ start _ => Option.some start
  | _ => Option.none

def writeRecordsGo (ch : CH) (ctx : RefCtx) : WS × Option Nat → List CRec → Res (WS × Option Nat)
  | st, [] => .ok st
  | st, r :: rs =>
    match writeRecord ch ctx st r with
    | .error e => .error e
    | .ok st => writeRecordsGo ch ctx st rs

/-- content ids of `STANDARD_DATA_SERIES` -/
def standardIds : List Int := (List.range 28).map fun i => ((i + 1 : Nat) : Int)

/-- the `ExternalDataWriters` a slice starts with: one empty buffer per standard data series and per
tag encoding -/
def initialWS (ch : CH) : WS :=
  ⟨{}, fun id => if id ∈ standardIds ∨ (ch.tagEnc id).isSome then some [] else none⟩

/-- `write_records`: the core data and the external buffers after the last record -/
def writeRecords (ch : CH) (ctx : RefCtx) (recs : List CRec) : Res (List Nat × (Int → Option (List Nat))) :=
  match writeRecordsGo ch ctx (initialWS ch, ctx.initialStart) recs with
  | .error e => .error e
  | .ok (s, _) =>
    match s.core.finish with
    | .error e => .error e
    | .ok core => .ok (core, s.ext)

/-- `build_blocks`: `.filter(|(_, buf)| !buf.is_empty())` — what the reader finds as external blocks -/
def blocksOf (ext : Int → Option (List Nat)) : Int → Option (List Nat) :=
  fun id => match ext id with
    | some (b :: l) => some (b :: l)
    | _ => none

/-! ## reader -/

def getInt (e : Option IntEnc) (s : RS) : Res (Int × RS) := do (← need e).decode s
def getByte (e : Option ByteEnc) (s : RS) : Res (Nat × RS) := do (← need e).decode s
def getBytes (e : Option ByteArrayEnc) (s : RS) : Res (List Nat × RS) := do (← need e).decode s
def getTake (e : Option ByteEnc) (s : RS) (n : Nat) : Res (List Nat × RS) := do (← need e).decodeTake s n

/-- `usize::try_from(i32)` and friends: a value outside `[0, bound)` is `InvalidData` -/
def toNatBelow (n : Int) (bound : Nat) : Res Nat :=
  if 0 ≤ n ∧ n < bound then .ok n.toNat else .error .invalidData

/-- `-1 → None`, otherwise `usize::try_from` -/
def optOfI32 (n : Int) : Res (Option Nat) :=
  if n = -1 then .ok none else if n < 0 then .error .invalidData else .ok (some n.toNat)

/-- `Position::new`: 0 is `None` -/
def posOf (n : Nat) : Option Nat := if n = 0 then none else some n

/-- `read_name`: `*` is `None` -/
def readName (ch : CH) (s : RS) : Res (Option (List Nat) × RS) := do
  let (buf, s) ← getBytes ch.dse.rn s
  pure (if buf = [42] then none else some buf, s)

/-- `read_alignment_start` -/
def readAlignmentStart (ch : CH) (prev : Option Nat) (s : RS) : Res (Option Nat × RS) := do
  let (v, s) ← getInt ch.dse.ap s
  let start ← if ch.apDelta then do
      let p ← toI32 (prev.getD 0) .invalidData
      if p + v < 2 ^ 31 ∧ -2 ^ 31 ≤ p + v then pure (p + v) else .error .invalidData
    else pure v
  let n ← toNatBelow start (2 ^ 31)
  pure (posOf n, s)

/-- `read_positions` -/
def readPositions (ch : CH) (ctx : RefCtx) (prev : Option Nat) (s : RS) (r : CRec) : Res (CRec × RS) := do
  let (refId, s) ← match ctx with
    | .some id _ _ => pure (some id, s)
    | .none => pure (none, s)
    | .many => do
      let (n, s) ← getInt ch.dse.ri s
      pure (← optOfI32 n, s)
  let (n, s) ← getInt ch.dse.rl s
  let readLength ← toNatBelow n (2 ^ 31)
  let (start, s) ← readAlignmentStart ch prev s
  let (g, s) ← getInt ch.dse.rg s
  let rg ← optOfI32 g
  pure ({ r with refId := refId, readLength := readLength, alignmentStart := start, readGroupId := rg }, s)

/-- `read_mate` -/
def readMate (ch : CH) (s : RS) (r : CRec) : Res (CRec × RS) :=
  if r.detached then do
    let (n, s) ← getInt ch.dse.mf s
    let mf := (← toNatBelow n 256) % 4
    let flags := if bitSet mf 0 then orBit r.bamFlags 5 else r.bamFlags
    let flags := if bitSet mf 1 then orBit flags 3 else flags
    let (name, s) ← if ch.recordsHaveNames then pure (r.name, s) else readName ch s
    let (n, s) ← getInt ch.dse.ns s
    let mrid ← optOfI32 n
    let (n, s) ← getInt ch.dse.np s
    let mpos ← toNatBelow n (2 ^ 31)
    let (t, s) ← getInt ch.dse.ts s
    pure ({ r with bamFlags := flags, mateFlags := mf, name := name, mateRefId := mrid, mateStart := posOf mpos,
                   templateLength := t }, s)
  else if r.downstream then do
    let (n, s) ← getInt ch.dse.nf s
    let d ← toNatBelow n (2 ^ 31)
    pure ({ r with mateDistance := some d }, s)
  else pure (r, s)

/-- element size of a `B` array subtype; `none`: invalid subtype -/
def subtypeSize (t : Nat) : Option Nat :=
  if t = 99 ∨ t = 67 then some 1 else if t = 115 ∨ t = 83 then some 2
  else if t = 105 ∨ t = 73 ∨ t = 102 then some 4 else none

/-- `data::read_value(src, ty)`: the shape checks, and the bytes of `src` the typed value is made of
(a scalar looks at a prefix; an array at the whole elements after its 5-byte head) -/
def readValue (ty : Nat) (src : List Nat) : Res (List Nat) :=
  if ty = 65 ∨ ty = 99 ∨ ty = 67 then (if 1 ≤ src.length then .ok (src.take 1) else .error .eof)
  else if ty = 115 ∨ ty = 83 then (if 2 ≤ src.length then .ok (src.take 2) else .error .eof)
  else if ty = 105 ∨ ty = 73 ∨ ty = 102 then (if 4 ≤ src.length then .ok (src.take 4) else .error .eof)
  else if ty = 90 ∨ ty = 72 then (if src.getLast? = some 0 then .ok src else .error .invalidData)
  else if ty = 66 then
    if src.length < 5 then .error .eof
    else match subtypeSize (src.headD 0) with
      | none => .error .invalidData
      | some k => .ok (src.take 5 ++ (src.drop 5).take ((src.length - 5) / k * k))
  else .error .invalidData

/-- the `for &key in tag_set` loop of `read_data` -/
def readTagValues (ch : CH) : RS → List Key → Res (List (Key × List Nat) × RS)
  | s, [] => .ok ([], s)
  | s, k :: ks =>
    match ch.tagEnc k.id with
    | none => .error .invalidData
    | some e =>
      match e.decode s with
      | .error e => .error e
      | .ok (src, s) =>
        match readValue k.ty src with
        | .error e => .error e
        | .ok v =>
          match readTagValues ch s ks with
          | .error e => .error e
          | .ok (vs, s) => .ok ((k, v) :: vs, s)

/-- `read_data` -/
def readData (ch : CH) (s : RS) (r : CRec) : Res (CRec × RS) := do
  let (n, s) ← getInt ch.dse.tl s
  let i ← toNatBelow n (2 ^ 31)
  match ch.tagSets[i]? with
  | none => .error .invalidData
  | some keys => do
    let (d, s) ← readTagValues ch s keys
    pure ({ r with data := d }, s)

/-- `read_feature`: code, position delta, position check, then the feature's own series -/
def readFeature (ch : CH) (s : RS) (prev : Nat) : Res (Feature × RS) := do
  let (code, s) ← getByte ch.dse.fc s
  if ¬ (code = 98 ∨ code = 113 ∨ code = 66 ∨ code = 88 ∨ code = 73 ∨ code = 68 ∨ code = 105 ∨ code = 81
        ∨ code = 78 ∨ code = 83 ∨ code = 80 ∨ code = 72) then .error .invalidData else
  let (n, s) ← getInt ch.dse.fp s
  let delta ← toNatBelow n (2 ^ 31)
  let pos := prev + delta
  if pos = 0 then .error .invalidData else
  if code = 98 then do let (bs, s) ← getBytes ch.dse.bb s; pure (.bases pos bs, s)
  else if code = 113 then do let (qs, s) ← getBytes ch.dse.qq s; pure (.scores pos qs, s)
  else if code = 66 then do
    let (b, s) ← getByte ch.dse.ba s
    let (q, s) ← getByte ch.dse.qs s
    pure (.readBase pos b q, s)
  else if code = 88 then do let (c, s) ← getByte ch.dse.bs s; pure (.subst pos c, s)
  else if code = 73 then do let (bs, s) ← getBytes ch.dse.in_ s; pure (.insertion pos bs, s)
  else if code = 68 then do
    let (n, s) ← getInt ch.dse.dl s
    pure (.deletion pos (← toNatBelow n (2 ^ 31)), s)
  else if code = 105 then do let (b, s) ← getByte ch.dse.ba s; pure (.insertBase pos b, s)
  else if code = 81 then do let (q, s) ← getByte ch.dse.qs s; pure (.qualityScore pos q, s)
  else if code = 78 then do
    let (n, s) ← getInt ch.dse.rs s
    pure (.refSkip pos (← toNatBelow n (2 ^ 31)), s)
  else if code = 83 then do let (bs, s) ← getBytes ch.dse.sc s; pure (.softClip pos bs, s)
  else if code = 80 then do
    let (n, s) ← getInt ch.dse.pd s
    pure (.padding pos (← toNatBelow n (2 ^ 31)), s)
  else do
    let (n, s) ← getInt ch.dse.hc s
    pure (.hardClip pos (← toNatBelow n (2 ^ 31)), s)

/-- the `for _ in 0..feature_count` loop with its register `prev_position` -/
def readFeatures (ch : CH) : Nat → Nat → RS → Res (List Feature × RS)
  | 0, _, s => .ok ([], s)
  | k + 1, prev, s =>
    match readFeature ch s prev with
    | .error e => .error e
    | .ok (f, s) =>
      match readFeatures ch k f.pos s with
      | .error e => .error e
      | .ok (fs, s) => .ok (f :: fs, s)

/-- the loop of `validate_features` with its registers `read_position` and `quality_score_position`
(the first positions not covered by the features so far); `saturating_add` never saturates on
values that come from `i32`s -/
def validateGo : Nat → Nat → List Feature → Res (Nat × Nat)
  | rp, qp, [] => .ok (rp, qp)
  | rp, qp, f :: fs =>
    let baseCount : Option Nat := match f with
      | .bases _ bs | .insertion _ bs | .softClip _ bs => some bs.length
      | .readBase .. | .subst .. | .insertBase .. => some 1
      | .deletion .. | .refSkip .. | .padding .. | .hardClip .. => some 0
      | .scores .. | .qualityScore .. => none
    let qCount : Nat := match f with
      | .scores _ qs => qs.length
      | .readBase .. | .qualityScore .. => 1
      | _ => 0
    let qp' := if qCount > 0 then max qp f.pos + qCount else qp
    match baseCount with
    | some n => if f.pos < rp then .error .invalidData else validateGo (f.pos + n) qp' fs
    | none => validateGo rp qp' fs

/-- `validate_features(read_length, features)`: ordered, not overlapping, inside the read -/
def validateFeatures (readLength : Nat) (fs : List Feature) : Res Unit :=
  match validateGo 1 1 fs with
  | .error e => .error e
  | .ok (rp, qp) => if max rp qp - 1 ≤ readLength then .ok () else .error .invalidData

/-- `read_quality_scores`: an all-`0xff` array is "missing" -/
def readQualityScores (ch : CH) (s : RS) (n : Nat) : Res (List Nat × RS) := do
  let (src, s) ← getTake ch.dse.qs s n
  pure (if src.all (· == 255) then [] else src, s)

/-- `read_mapped_read` -/
def readMapped (ch : CH) (s : RS) (r : CRec) : Res (CRec × RS) := do
  let (n, s) ← getInt ch.dse.fn s
  let count ← toNatBelow n (2 ^ 31)
  let (fs, s) ← readFeatures ch count 0 s
  validateFeatures r.readLength fs
  let (n, s) ← getInt ch.dse.mq s
  let q ← toNatBelow n 256
  let mq := if q = 255 then none else some q
  if r.qsArray then do
    let (qs, s) ← readQualityScores ch s r.readLength
    pure ({ r with features := fs, mappingQuality := mq, qualityScores := qs }, s)
  else pure ({ r with features := fs, mappingQuality := mq }, s)

/-- `read_unmapped_read` -/
def readUnmapped (ch : CH) (s : RS) (r : CRec) : Res (CRec × RS) := do
  let (bases, s) ← getTake ch.dse.ba s r.readLength
  if r.qsArray then do
    let (qs, s) ← readQualityScores ch s r.readLength
    pure ({ r with sequence := bases, qualityScores := qs }, s)
  else pure ({ r with sequence := bases }, s)

/-- `Records::read_record` into a `Record::default()`; the state is the streams and
`prev_alignment_start` -/
def readRecord (ch : CH) (ctx : RefCtx) (st : RS × Option Nat) : Res (CRec × (RS × Option Nat)) := do
  let (n, s) ← getInt ch.dse.bf st.1
  let bf := (← toNatBelow n 65536) % 4096
  let (n, s) ← getInt ch.dse.cf s
  let cf := (← toNatBelow n 256) % 16
  let r : CRec := { bamFlags := bf, cramFlags := cf }
  let (r, s) ← readPositions ch ctx st.2 s r
  let (r, s) ← if ch.recordsHaveNames then do
      let (name, s) ← readName ch s
      pure ({ r with name := name }, s)
    else pure (r, s)
  let (r, s) ← readMate ch s r
  let (r, s) ← readData ch s r
  let (r, s) ← if r.unmapped then readUnmapped ch s r else readMapped ch s r
  pure (r, (s, r.alignmentStart))

def readRecordsGo (ch : CH) (ctx : RefCtx) : Nat → RS × Option Nat → Res (List CRec)
  | 0, _ => .ok []
  | k + 1, st =>
    match readRecord ch ctx st with
    | .error e => .error e
    | .ok (r, st) =>
      match readRecordsGo ch ctx k st with
      | .error e => .error e
      | .ok rs => .ok (r :: rs)

/-- `Slice::read_records`: `count` records from the core data and the external blocks -/
def readRecords (ch : CH) (ctx : RefCtx) (count : Nat) (core : List Nat) (ext : Int → Option (List Nat)) :
    Res (List CRec) :=
  readRecordsGo ch ctx count (⟨BitReader.new core, ext⟩, ctx.initialStart)

/-! ## the slice's reference context (`get_reference_sequence_context`) -/

/-- `calculate_alignment_span`; a `usize` subtraction: more inserted / clipped bases than the read has
is a panic (overflow checks) — `none`; impossible for features made from a CIGAR -/
def alignmentSpan (readLength : Nat) (fs : List Feature) : Option Nat :=
  fs.foldl (fun acc f => acc.bind fun span => match f with
    | .insertion _ bs => if bs.length ≤ span then some (span - bs.length) else none
    | .insertBase _ _ => if 1 ≤ span then some (span - 1) else none
    | .deletion _ n => some (span + n)
    | .refSkip _ n => some (span + n)
    | .softClip _ bs => if bs.length ≤ span then some (span - bs.length) else none
    | _ => some span) (some readLength)

/-- `io::writer::Record::alignment_end` -/
def CRec.alignmentEnd (r : CRec) : Res (Option Nat) :=
  match r.alignmentStart with
  | none => .ok none
  | some start =>
    if r.unmapped then .ok (some start) else
    match alignmentSpan r.readLength r.features with
    | none => .error .panic
    | some span => .ok (some (start + max span 1 - 1))

/-- `ReferenceSequenceContext::update` -/
def RefCtx.update (c : RefCtx) (rid rstart rend : Option Nat) : RefCtx :=
  match c, rid, rstart, rend with
  | .some id s e, Option.some rid, Option.some rs, Option.some re =>
    if rid = id then .some id (min rs s) (max re e) else .many
  | .some .., _, _, _ => .many
  | .none, Option.some _, _, _ => .many
  | .none, Option.none, _, _ => .none
  | .many, _, _, _ => .many

def getRefCtxGo : RefCtx → List CRec → Res RefCtx
  | c, [] => .ok c
  | c, r :: rs =>
    match r.alignmentEnd with
    | .error e => .error e
    | .ok e => getRefCtxGo (c.update r.refId r.alignmentStart e) rs

/-- the context of the first record (`let mut reference_sequence_context = match (…)`), after the fix
described at `getRefCtx` -/
def RefCtx.first (rid rstart rend : Option Nat) : RefCtx :=
  match rid, rstart, rend with
  | Option.some id, Option.some s, Option.some e => RefCtx.some id s e
  | Option.none, _, _ => .none
  | Option.some _, _, _ => .many

/-- `get_reference_sequence_context` (the slice is not empty: `assert!`).

The model describes the code AFTER the fix "cram writer dropped the reference sequence of a record
without an alignment start" (fixes/cram-slice-context-reference-without-position.diff): a first
record with a reference id but no alignment start makes the context `Many` (before the fix: `None`,
so that its reference id was neither written nor implied by the slice header). -/
def getRefCtx : List CRec → Res RefCtx
  | [] => .error .panic
  | r :: rs =>
    match r.alignmentEnd with
    | .error e => .error e
    | .ok e => getRefCtxGo (RefCtx.first r.refId r.alignmentStart e) rs

end Noodles.Cram.Enc
