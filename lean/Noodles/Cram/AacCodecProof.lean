import Noodles.Cram.AacModelProof
import Noodles.Cram.AacRcProof
import Noodles.Cram.Nx16Proof
/-!
Helper lemmas for `Noodles/Props/C08Aac.lean`: the model and the range coder together (`Sync`),
the order-0 / order-1 / run-length codecs, and `encode` / `decode` for every flag byte.
-/
namespace Noodles.Cram.Aac
open Noodles.Cram.Num

/-! ## one coded symbol -/

def AllWF (ms : List Model) : Prop := ∀ m ∈ ms, m.WF

theorem AllWF.set {ms : List Model} (h : AllWF ms) (c : Nat) (m : Model) (hm : m.WF) :
    AllWF (ms.set c m) := by
  intro x hx
  rcases List.mem_or_eq_of_mem_set hx with h1 | h1
  · exact h x h1
  · exact h1 ▸ hm

theorem AllWF.get {ms : List Model} (h : AllWF ms) {c : Nat} {m : Model} (hm : ms[c]? = some m) :
    m.WF := h m (List.mem_of_getElem? hm)

/-- what `Model::encode` does when it answers: the interval it hands to the range coder is a valid
one (inside the total, not empty, total below `2^16`) -/
theorem Model.encode_spec (m : Model) (e : Enc) (s : Nat) (m1 : Model) (e1 : Enc) (hwf : m.WF)
    (h : m.encode e s = some (m1, e1)) :
    ∃ x acc f, findGo s m.syms m.freqs 0 0 = some (x, acc, f) ∧ m1 = m.update x ∧
      e1 = e.encode acc f m.total ∧ 1 ≤ f ∧ acc + f ≤ m.total ∧ m.total ≤ 2 ^ 16 ∧
      x < m.freqs.length ∧ m.syms.getD x 0 = s := by
  unfold Model.encode at h
  split at h
  · simp at h
  · next x acc f hfind =>
    simp only [Option.some.injEq, Prod.mk.injEq] at h
    obtain ⟨h1, h2, h3, h4, h5⟩ := findGo_spec s m.syms m.freqs 0 0 x acc f hfind
    simp only [Nat.sub_zero, Nat.zero_add] at h2 h3 h4 h5
    refine ⟨x, acc, f, hfind, h.1.symm, h.2.symm, ?_, by rw [hwf.total]; exact h5, ?_, h2, ?_⟩
    · exact hwf.pos f (List.mem_of_getElem? h4)
    · have := hwf.bound; unfold MAXTOT at this; omega
    · rw [List.getD_eq_getElem?_getD, h3]; rfl

/-- the encoder side alone: invariants are kept along any event list -/
theorem encSyms_inv (evs : List (Nat × Nat)) : ∀ (ms : List Model) (e : Enc) (ms' : List Model) (e' : Enc),
    AllWF ms → Inv e → 2 ^ 24 ≤ e.range → encSyms ms e evs = some (ms', e') →
    AllWF ms' ∧ Inv e' ∧ 2 ^ 24 ≤ e'.range := by
  induction evs with
  | nil =>
    intro ms e ms' e' hwf hinv hr h
    simp only [encSyms, Option.some.injEq, Prod.mk.injEq] at h
    exact h.1 ▸ h.2 ▸ ⟨hwf, hinv, hr⟩
  | cons ev evs ih =>
    intro ms e ms' e' hwf hinv hr h
    obtain ⟨c, s⟩ := ev
    simp only [encSyms] at h
    split at h
    · simp at h
    · next m hm =>
      split at h
      · simp at h
      · next m1 e1 henc =>
        obtain ⟨x, acc, f, _, rfl, rfl, hf, hlf, htot, hx, _⟩ :=
          Model.encode_spec m e s m1 e1 (hwf.get hm) henc
        obtain ⟨hi1, hr1⟩ := encode_inv e acc f m.total hinv hf hlf htot hr
        exact ih _ _ ms' e' (hwf.set c _ (Model.update_wf m x (hwf.get hm) hx)) hi1 hr1 h

/-- the final stream lies in the interval of every state the encoder passes through -/
theorem sand_of_encSyms (evs : List (Nat × Nat)) : ∀ (ms : List Model) (e : Enc) (ms' : List Model) (e' : Enc),
    AllWF ms → Inv e → 2 ^ 24 ≤ e.range → encSyms ms e evs = some (ms', e') → Sand e'.finish e := by
  induction evs with
  | nil =>
    intro ms e ms' e' hwf hinv hr h
    simp only [encSyms, Option.some.injEq, Prod.mk.injEq] at h
    obtain ⟨_, rfl⟩ := h
    obtain ⟨h1, h2, _⟩ := finish_spec e hinv.inv0
    have ht : e.finish.take (D e) = e.finish := by rw [← h2]; exact List.take_length
    have := hinv.rpos
    exact ⟨by rw [ht, h1]; exact Nat.le_refl _, by rw [ht, h1]; omega, by omega⟩
  | cons ev evs ih =>
    intro ms e ms' e' hwf hinv hr h
    obtain ⟨c, s⟩ := ev
    have hall := encSyms_inv _ ms e ms' e' hwf hinv hr h
    simp only [encSyms] at h
    split at h
    · simp at h
    · next m hm =>
      split at h
      · simp at h
      · next m1 e1 henc =>
        obtain ⟨x, acc, f, _, rfl, rfl, hf, hlf, htot, hx, _⟩ :=
          Model.encode_spec m e s m1 e1 (hwf.get hm) henc
        obtain ⟨hi1, hr1⟩ := encode_inv e acc f m.total hinv hf hlf htot hr
        have hs := ih _ _ ms' e' (hwf.set c _ (Model.update_wf m x (hwf.get hm) hx)) hi1 hr1 h
        have hB := (finish_spec e' hall.2.1.inv0).2.2
        obtain ⟨hI1, hN1, hD1, hR1, _, hin⟩ := narrowed_spec e acc f m.total hinv hf hlf htot hr
        rw [encode_eq] at hs
        obtain ⟨s1, s2, s3⟩ := sand_norm_back _ hB 4 _ hI1 hs
        rw [hN1, hD1] at s1
        rw [hN1, hD1, hR1] at s2
        rw [hD1] at s3
        exact ⟨by omega, by omega, s3⟩

/-- Encoder and decoder in step: the models are well formed (and THE SAME on both sides — there is
one list `ms`), the encoder state satisfies its invariant, the decoder is tied to it, and `B` is
the stream the encoder ends with after the events `evs` still to come. -/
structure Sync (B : List Nat) (ms : List Model) (e : Enc) (d : Dec) (evs : List (Nat × Nat)) : Prop where
  wf : AllWF ms
  inv : Inv e
  rng : 2 ^ 24 ≤ e.range
  rel : Rel B e d
  run : ∃ ms' e', encSyms ms e evs = some (ms', e') ∧ e'.finish = B

/-- **One coded symbol.** The decoder's `Model::decode`, run on the same model the encoder used
for the next event, returns that event's symbol, leaves THE SAME updated model, and stays in step
for the remaining events. -/
theorem sync_step (B : List Nat) (ms : List Model) (e : Enc) (d : Dec) (c s : Nat)
    (evs : List (Nat × Nat)) (h : Sync B ms e d ((c, s) :: evs)) :
    ∃ m m' d' e', ms[c]? = some m ∧ m.decode d = .ok (s, m', d') ∧ Sync B (ms.set c m') e' d' evs := by
  obtain ⟨hwf, hinv, hr, hrel, ms', e', hrun, rfl⟩ := h
  have hall := encSyms_inv _ ms e ms' e' hwf hinv hr hrun
  have hB := (finish_spec e' hall.2.1.inv0).2.2
  simp only [encSyms] at hrun
  split at hrun
  · simp at hrun
  · next m hm =>
    split at hrun
    · simp at hrun
    · next m1 e1 henc =>
      obtain ⟨x, acc, f, hfind, rfl, rfl, hf, hlf, htot, hx, hsym⟩ :=
        Model.encode_spec m e s m1 e1 (hwf.get hm) henc
      obtain ⟨hi1, hr1⟩ := encode_inv e acc f m.total hinv hf hlf htot hr
      have hwf1 := hwf.set c _ (Model.update_wf m x (hwf.get hm) hx)
      have hs := sand_of_encSyms _ _ _ ms' e' hwf1 hi1 hr1 hrun
      obtain ⟨g1, g2, d', hd', hrel'⟩ := step_sync _ hB e d acc f m.total hinv hf hlf htot hr hrel hs
      refine ⟨m, m.update x, d', e.encode acc f m.total, hm, ?_, ⟨hwf1, hi1, hr1, hrel', ms', e', hrun, rfl⟩⟩
      unfold Model.decode
      simp only [locateGo_findGo s m.syms m.freqs 0 0 x acc f _ hfind g1 g2]
      simp only [hd', hsym]

theorem N_init : N Enc.init = 0 := by decide
theorem D_init : D Enc.init = 5 := by decide

/-- `RangeCoder::new` on the stream the encoder produced: in step from the start (the first byte
of the stream is 0, so discarding it loses nothing) -/
theorem sync_init (ms ms' : List Model) (e' : Enc) (evs : List (Nat × Nat)) (hwf : AllWF ms)
    (h : encSyms ms Enc.init evs = some (ms', e')) :
    ∃ d, Dec.init e'.finish = .ok d ∧ Sync e'.finish ms Enc.init d evs := by
  have hr : 2 ^ 24 ≤ Enc.init.range := by decide
  have hall := encSyms_inv _ ms _ ms' e' hwf init_inv hr h
  have hB := (finish_spec e' hall.2.1.inv0).2.2
  obtain ⟨s1, s2, s3⟩ := sand_of_encSyms _ ms _ ms' e' hwf init_inv hr h
  rw [N_init, D_init] at s1 s2
  rw [D_init] at s3
  generalize hBe : e'.finish = B at *
  match B, s3 with
  | b0 :: b1 :: b2 :: b3 :: b4 :: r, _ =>
    have h0 := hB b0 (by simp)
    have h1 := hB b1 (by simp)
    have h2 := hB b2 (by simp)
    have h3 := hB b3 (by simp)
    have h4 := hB b4 (by simp)
    have hr' : Enc.init.range = 4294967295 := rfl
    have hnum : num (List.take 5 (b0 :: b1 :: b2 :: b3 :: b4 :: r))
        = ((((0 * 256 + b0) * 256 + b1) * 256 + b2) * 256 + b3) * 256 + b4 := rfl
    rw [hr', hnum] at s2
    have hb0 : b0 = 0 := by clear hr hr' hall; omega
    subst hb0
    refine ⟨⟨4294967295, ((b1 * 256 + b2) * 256 + b3) * 256 + b4, r⟩, rfl,
      ⟨hwf, init_inv, hr, ⟨rfl, ?_, ?_, ?_⟩, ms', e', h, hBe⟩⟩
    · rw [N_init, D_init, hnum]
      show ((b1 * 256 + b2) * 256 + b3) * 256 + b4 + 0 = _
      simp
    · rw [hr']
      show ((b1 * 256 + b2) * 256 + b3) * 256 + b4 < 4294967295
      simpa using s2
    · rw [D_init]; rfl

/-! ## order 0 and order 1 -/

/-- the events of both orders as one recursion: the context is the previous symbol (order 1) or 0 -/
def eventsO (o1 : Bool) : Nat → List Nat → List (Nat × Nat)
  | _, [] => []
  | prev, s :: rest => ((if o1 then prev else 0), s) :: eventsO o1 s rest

theorem events0_eq (prev : Nat) (src : List Nat) : events0 src = eventsO false prev src := by
  induction src generalizing prev with
  | nil => rfl
  | cons s rest ih => simp only [events0, List.map_cons, eventsO] at *; rw [ih s]; rfl

theorem events1_eq (prev : Nat) (src : List Nat) : events1 prev src = eventsO true prev src := by
  induction src generalizing prev with
  | nil => rfl
  | cons s rest ih => simp only [events1, eventsO, ih s]; rfl

/-- the decoder loop of order 0 / order 1 returns the symbols that were coded -/
theorem decSyms_sync (B : List Nat) (o1 : Bool) (src : List Nat) :
    ∀ (prev : Nat) (ms : List Model) (e : Enc) (d : Dec), Sync B ms e d (eventsO o1 prev src) →
      decSyms o1 src.length prev ms d = .ok src := by
  induction src with
  | nil => intro prev ms e d _; rfl
  | cons s rest ih =>
    intro prev ms e d h
    obtain ⟨m, m', d', e', hm, hdec, hsync⟩ := sync_step B ms e d _ s _ h
    simp only [List.length_cons, decSyms, hm, hdec, ih s _ e' d' hsync]

/-! ## run lengths -/

theorem runParts_sync (B : List Nat) (base rem : Nat) (tail : List (Nat × Nat)) (k : Nat) :
    ∀ (c len acc fuel : Nat) (ms : List Model) (e : Enc) (d : Dec),
      Sync B ms e d (runParts base k c len ++ tail) → len / 3 + 1 ≤ k → len / 3 + 1 ≤ fuel →
      acc + len ≤ rem →
      ∃ ms' d', decParts base rem fuel c acc ms d = .ok (acc + len, ms', d') ∧
        ((∃ e', Sync B ms' e' d' tail) ∨ acc + len = rem) := by
  induction k with
  | zero => intro c len acc fuel ms e d _ hk; omega
  | succ k ih =>
    intro c len acc fuel ms e d h hk hfuel hrem
    cases fuel with
    | zero => omega
    | succ fuel =>
      simp only [runParts, List.cons_append] at h
      obtain ⟨m, m', d', e', hm, hdec, hsync⟩ := sync_step B ms e d _ _ _ h
      simp only [decParts, hm, hdec]
      by_cases h3 : min len 3 = 3
      · simp only [h3, if_true] at hsync
        have hlen : 3 ≤ len := by omega
        by_cases hlt : acc + 3 < rem
        · simp only [h3, hlt, and_self, if_true]
          obtain ⟨ms'', d'', hd, hor⟩ := ih (nextRunCtx c) (len - 3) (acc + 3) fuel _ e' d' hsync
            (by omega) (by omega) (by omega)
          have hadd : acc + 3 + (len - 3) = acc + len := by omega
          rw [hadd] at hd hor
          refine ⟨ms'', d'', hd, ?_⟩
          exact hor
        · simp only [h3, hlt, and_false, if_false]
          have hadd : acc + 3 = acc + len := by omega
          rw [hadd]
          exact ⟨_, _, rfl, Or.inr (by omega)⟩
      · simp only [h3, if_false, List.nil_append] at hsync
        have hlen : min len 3 = len := by omega
        have hne : ¬ len = 3 := by omega
        simp only [hlen, hne, false_and, if_false]
        exact ⟨_, _, rfl, Or.inl ⟨e', hsync⟩⟩

theorem decRuns_zero (o1 : Bool) (base fuel prev : Nat) (ms : List Model) (d : Dec) :
    decRuns o1 base fuel 0 prev ms d = .ok [] := by
  cases fuel <;> rfl

/-- the decoder loop of the run-length codecs returns the input -/
theorem decRuns_sync (B : List Nat) (o1 : Bool) (base : Nat) (fuelD : Nat) :
    ∀ (fuelE : Nat) (src : List Nat) (prev : Nat) (ms : List Model) (e : Enc) (d : Dec),
      src.length ≤ fuelE → src.length ≤ fuelD → Sync B ms e d (eventsRle o1 base fuelE prev src) →
      decRuns o1 base fuelD src.length prev ms d = .ok src := by
  induction fuelD with
  | zero =>
    intro fuelE src prev ms e d _ h2 _
    have : src = [] := List.eq_nil_of_length_eq_zero (by omega)
    subst this; rfl
  | succ fuelD ih =>
    intro fuelE src prev ms e d h1 h2 h
    cases src with
    | nil => rfl
    | cons s rest =>
      cases fuelE with
      | zero => simp at h1
      | succ fuelE =>
        simp only [List.length_cons] at h1 h2
        simp only [eventsRle] at h
        obtain ⟨m, m', d', e', hm, hdec, hsync⟩ := sync_step B ms e d _ s _ h
        have hlen := Nx.runOf_le s rest
        obtain ⟨ms'', d'', hd, hor⟩ := runParts_sync B base rest.length _ _ s (Nx.runOf s rest) 0
          (rest.length + 1) _ e' d' hsync (Nat.le_refl _) (by omega) (by omega)
        simp only [Nat.zero_add] at hd
        have hsplit : s :: rest = List.replicate (1 + min (Nx.runOf s rest) rest.length) s
            ++ rest.drop (Nx.runOf s rest) := by
          rw [Nat.min_eq_left hlen, Nat.add_comm, List.replicate_succ, List.cons_append,
            ← Nx.take_runOf s rest, List.take_append_drop]
        have hrem : rest.length - min (Nx.runOf s rest) rest.length = (rest.drop (Nx.runOf s rest)).length := by
          rw [Nat.min_eq_left hlen, List.length_drop]
        simp only [List.length_cons, decRuns, hm, hdec, hd]
        rw [hrem]
        rcases hor with ⟨e'', hs''⟩ | hfull
        · rw [ih fuelE _ s ms'' e'' d'' (by rw [List.length_drop]; omega) (by rw [List.length_drop]; omega) hs'']
          simp only
          rw [← hsplit]
        · have hnil : rest.drop (Nx.runOf s rest) = [] := by
            apply List.eq_nil_of_length_eq_zero; rw [List.length_drop]; omega
          rw [hnil, List.length_nil, decRuns_zero]
          simp only
          rw [hsplit, hnil]

end Noodles.Cram.Aac
