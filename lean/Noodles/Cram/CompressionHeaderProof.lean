import Noodles.Cram.EncSpec
import Noodles.Cram.EncodingProof
import Noodles.Cram.CompressionHeader
/-! helper lemmas: compression header round trip (see Props/C07Enc.lean) -/
namespace Noodles.Cram.Enc
open Noodles.Cram (Base)
open Noodles.Cram.Num (writeItf8)

/-! ## arrays and maps -/

theorem writeArray_ok {buf out : List Nat} (h : writeArray buf = .ok out) :
    buf.length < 2 ^ 31 ∧ out = writeItf8 (buf.length : Int) ++ buf := by
  unfold writeArray at h
  split at h
  · injection h with h; exact ⟨‹_›, h.symm⟩
  · cases h

theorem readMap_write (n : Nat) (hn : n < 2 ^ 31) (body out rest : List Nat)
    (h : writeArray (writeItf8 (n : Int) ++ body) = .ok out) :
    readMap (out ++ rest) = .ok (body, n, rest) := by
  obtain ⟨hl, rfl⟩ := writeArray_ok h
  unfold readMap
  rw [List.append_assoc, readArray_write _ _ hl]
  simp only [readItf8Nat_write n hn]

theorem catRes_cons {x : Res (List Nat)} {xs : List (Res (List Nat))} {b : List Nat}
    (h : catRes (x :: xs) = .ok b) : ∃ a b', x = .ok a ∧ catRes xs = .ok b' ∧ b = a ++ b' := by
  unfold catRes at h
  split at h
  · cases h
  · split at h
    · cases h
    · injection h with h; exact ⟨_, _, rfl, ‹_›, h.symm⟩

theorem catRes_nil {b : List Nat} (h : catRes [] = .ok b) : b = [] := by
  unfold catRes at h; injection h with h; exact h.symm

/-! ## substitution matrix -/

def allBases : List Base := [.A, .C, .G, .T, .N]

def rowCheck (dflt : List Base) : Bool :=
  allBases.all fun x => allBases.all fun y => allBases.all fun z => allBases.all fun w =>
    !(decide ([x, y, z, w].Perm dflt)) || decide (decodeRow dflt (encodeRow [x, y, z, w]) = [x, y, z, w])

theorem mem_allBases (x : Base) : x ∈ allBases := by cases x <;> decide

theorem row_of_check (dflt : List Base) (hd : dflt.length = 4) (hc : rowCheck dflt = true) (row : List Base)
    (hp : row.Perm dflt) : decodeRow dflt (encodeRow row) = row := by
  have hl := hp.length_eq
  rw [hd] at hl
  match row, hl with
  | [x, y, z, w], _ =>
    simp only [rowCheck, List.all_eq_true] at hc
    have := hc x (mem_allBases x) y (mem_allBases y) z (mem_allBases z) w (mem_allBases w)
    simpa [hp] using this

set_option maxRecDepth 100000 in
theorem rowCheck_readBases : ∀ dflt ∈ readBases, rowCheck dflt = true := by decide

theorem decodeRow_encodeRow (i : Nat) (dflt row : List Base) (hd : readBases[i]? = some dflt)
    (hp : row.Perm dflt) : decodeRow dflt (encodeRow row) = row := by
  have hm : dflt ∈ readBases := List.mem_of_getElem? hd
  have h4' : ∀ d ∈ readBases, d.length = 4 := by decide
  have h4 := h4' dflt hm
  exact row_of_check dflt h4 (rowCheck_readBases dflt hm) row hp

/-! ## tag sets -/

def keyBytes (keys : List Key) : List Nat := (keys.map fun k => [k.t0, k.t1, k.ty]).flatten

theorem readKeys_keyBytes (keys : List Key) (h : ∀ k ∈ keys, validType k.ty = true) :
    readKeys (keyBytes keys) = .ok keys := by
  induction keys with
  | nil => simp [keyBytes, readKeys]
  | cons k ks ih =>
    have hk := h k (by simp)
    have ih := ih (fun k' hk' => h k' (by simp [hk']))
    unfold keyBytes at ih ⊢
    simp only [List.map_cons, List.flatten_cons, List.cons_append, List.nil_append, readKeys, hk,
      ↓reduceIte, ih]

theorem zero_not_mem_keyBytes (keys : List Key)
    (h : ∀ k ∈ keys, k.t0 ≠ 0 ∧ k.t1 ≠ 0 ∧ validType k.ty = true) : 0 ∉ keyBytes keys := by
  intro hm
  simp only [keyBytes, List.mem_flatten, List.mem_map] at hm
  obtain ⟨l, ⟨k, hk, rfl⟩, h0⟩ := hm
  obtain ⟨h1, h2, h3⟩ := h k hk
  simp only [List.mem_cons, List.not_mem_nil, or_false] at h0
  rcases h0 with h0 | h0 | h0
  · exact h1 h0.symm
  · exact h2 h0.symm
  · rw [← h0] at h3; revert h3; decide

theorem encodeTagSets_cons (keys : List Key) (sets : List (List Key)) :
    encodeTagSets (keys :: sets) = keyBytes keys ++ [0] ++ encodeTagSets sets := by
  simp [encodeTagSets, keyBytes]

theorem readTagSetsGo_encode (sets : List (List Key))
    (h : ∀ keys ∈ sets, ∀ k ∈ keys, k.t0 ≠ 0 ∧ k.t1 ≠ 0 ∧ validType k.ty = true) :
    ∀ f, sets.length < f → readTagSetsGo f (encodeTagSets sets) = .ok sets := by
  induction sets with
  | nil =>
    intro f hf
    match f, hf with
    | f + 1, _ => simp [encodeTagSets, readTagSetsGo, splitStop]
  | cons keys sets ih =>
    intro f hf
    have hk := h keys (by simp)
    have ih := ih (fun k' hk' => h k' (by simp [hk']))
    match f, hf with
    | f + 1, hf =>
      have ih := ih f (by simp only [List.length_cons] at hf; omega)
      rw [encodeTagSets_cons]
      simp only [readTagSetsGo, splitStop_append 0 _ (zero_not_mem_keyBytes keys hk),
        readKeys_keyBytes keys (fun k hk' => (hk k hk').2.2), ih]

theorem length_le_encodeTagSets (sets : List (List Key)) : sets.length ≤ (encodeTagSets sets).length := by
  induction sets with
  | nil => simp
  | cons keys sets ih =>
    rw [encodeTagSets_cons]
    simp only [List.length_cons, List.length_append, List.length_nil]
    omega

theorem readTagSets_write (sets : List (List Key))
    (h : ∀ keys ∈ sets, ∀ k ∈ keys, k.t0 ≠ 0 ∧ k.t1 ≠ 0 ∧ validType k.ty = true)
    (out : List Nat) (hw : writeArray (encodeTagSets sets) = .ok out) (rest : List Nat) :
    readTagSets (out ++ rest) = .ok (sets, rest) := by
  obtain ⟨hl, rfl⟩ := writeArray_ok hw
  unfold readTagSets
  rw [List.append_assoc, readArray_write _ _ hl]
  have := length_le_encodeTagSets sets
  simp only [readTagSetsGo_encode sets h _ (Nat.lt_succ_of_le this)]

/-! ## preservation map -/

theorem readBool_write (x : Bool) (r : List Nat) : readBool ((if x then 1 else 0) :: r) = .ok (x, r) := by
  cases x <;> rfl

theorem readSMatrix_write (sm : SMatrix)
    (hsm : sm.length = 5 ∧ ∀ (i : Nat) (row : List Base), sm[i]? = some row →
      ∃ dflt, readBases[i]? = some dflt ∧ List.Perm row dflt) (rest : List Nat) :
    readSMatrix (sm.map encodeRow ++ rest) = .ok (sm, rest) := by
  obtain ⟨hl, hp⟩ := hsm
  match sm, hl with
  | [r0, r1, r2, r3, r4], _ =>
    obtain ⟨d0, e0, p0⟩ := hp 0 r0 rfl
    obtain ⟨d1, e1, p1⟩ := hp 1 r1 rfl
    obtain ⟨d2, e2, p2⟩ := hp 2 r2 rfl
    obtain ⟨d3, e3, p3⟩ := hp 3 r3 rfl
    obtain ⟨d4, e4, p4⟩ := hp 4 r4 rfl
    have q0 := decodeRow_encodeRow 0 d0 r0 e0 p0
    have q1 := decodeRow_encodeRow 1 d1 r1 e1 p1
    have q2 := decodeRow_encodeRow 2 d2 r2 e2 p2
    have q3 := decodeRow_encodeRow 3 d3 r3 e3 p3
    have q4 := decodeRow_encodeRow 4 d4 r4 e4 p4
    injection e0 with e0; injection e1 with e1; injection e2 with e2; injection e3 with e3
    injection e4 with e4
    subst e0 e1 e2 e3 e4
    simp only [readSMatrix, List.map_cons, List.map_nil, List.cons_append, List.nil_append,
      List.length_cons, Nat.le_add_left, ↓reduceIte, List.take_succ_cons, List.take_zero,
      List.drop_succ_cons, List.drop_zero, readBases, List.zipWith_cons_cons, List.zipWith_nil_right]
    rw [q0, q1, q2, q3, q4]

theorem pmap_rn (n : Nat) (acc : PMapAcc) (x : Bool) (r : List Nat) :
    readPMapGo (n + 1) acc (82 :: 78 :: (if x then 1 else 0) :: r) = readPMapGo n { acc with rn := x } r := by
  rw [readPMapGo]
  simp only [readBool_write, and_self, ↓reduceIte]

theorem pmap_ap (n : Nat) (acc : PMapAcc) (x : Bool) (r : List Nat) :
    readPMapGo (n + 1) acc (65 :: 80 :: (if x then 1 else 0) :: r) = readPMapGo n { acc with ap := x } r := by
  rw [readPMapGo]
  simp [readBool_write]

theorem pmap_rr (n : Nat) (acc : PMapAcc) (x : Bool) (r : List Nat) :
    readPMapGo (n + 1) acc (82 :: 82 :: (if x then 1 else 0) :: r) = readPMapGo n { acc with rr := x } r := by
  rw [readPMapGo]
  simp [readBool_write]

theorem pmap_sm (n : Nat) (acc : PMapAcc) (src : List Nat) (m : SMatrix) (r : List Nat)
    (h : readSMatrix src = .ok (m, r)) :
    readPMapGo (n + 1) acc (83 :: 77 :: src) = readPMapGo n { acc with sm := some m } r := by
  rw [readPMapGo]
  simp [h]

theorem pmap_td (n : Nat) (acc : PMapAcc) (src : List Nat) (t : List (List Key)) (r : List Nat)
    (h : readTagSets src = .ok (t, r)) :
    readPMapGo (n + 1) acc (84 :: 68 :: src) = readPMapGo n { acc with td := some t } r := by
  rw [readPMapGo]
  simp [h]

theorem readPMap_write (h : CHdr) (hok : h.OK) (a : List Nat) (hw : writePMap h = .ok a) (rest : List Nat) :
    readPMap (a ++ rest) = .ok (⟨h.rn, h.ap, h.rr, some h.sm, some h.td⟩, rest) := by
  unfold writePMap at hw
  split at hw
  · cases hw
  · rename_i td htd
    simp only [List.append_assoc] at hw
    have hm := readMap_write 5 (by omega) _ a rest hw
    have ht := readTagSets_write h.td hok.td td htd []
    rw [List.append_nil] at ht
    unfold readPMap
    rw [hm]
    simp only [List.cons_append, List.nil_append]
    rw [pmap_rn, pmap_ap, pmap_rr, pmap_sm _ _ _ _ _ (readSMatrix_write h.sm hok.sm _), pmap_td _ _ _ _ _ ht]
    simp [readPMapGo]
/-! ## tag encodings -/

theorem ByteArrayEnc.read_write (e : ByteArrayEnc) (h : e.ParamsOK) (bs : List Nat) (hw : e.write = .ok bs)
    (rest : List Nat) : ByteArrayEnc.read (bs ++ rest) = .ok (e, rest) := by
  obtain ⟨bs', h1, h2⟩ := ByteArrayEnc.params_ok e h
  rw [hw] at h1; injection h1 with h1; subst h1
  exact h2 rest

theorem IntEnc.read_write (e : IntEnc) (h : e.ParamsOK) (bs : List Nat) (hw : e.write = .ok bs)
    (rest : List Nat) : IntEnc.read (bs ++ rest) = .ok (e, rest) := by
  obtain ⟨bs', h1, _, h2⟩ := IntEnc.params_ok e h
  rw [hw] at h1; injection h1 with h1; subst h1
  exact h2 rest

theorem ByteEnc.read_write (e : ByteEnc) (h : e.ParamsOK) (bs : List Nat) (hw : e.write = .ok bs)
    (rest : List Nat) : ByteEnc.read (bs ++ rest) = .ok (e, rest) := by
  obtain ⟨bs', h1, _, h2⟩ := ByteEnc.params_ok e h
  rw [hw] at h1; injection h1 with h1; subst h1
  exact h2 rest

theorem readTagEncGo_write (te : List (Int × ByteArrayEnc)) (hok : ∀ p ∈ te, isI32 p.1 ∧ p.2.ParamsOK)
    (body : List Nat)
    (hb : catRes (te.map fun p => match p.2.write with
      | .error e => .error e
      | .ok bs => .ok (writeItf8 p.1 ++ bs)) = .ok body) (rest : List Nat) :
    readTagEncGo te.length (body ++ rest) = .ok te := by
  induction te generalizing body with
  | nil => simp [readTagEncGo]
  | cons p te ih =>
    obtain ⟨hp1, hp2⟩ := hok p (by simp)
    rw [List.map_cons] at hb
    obtain ⟨a, b', ha, hb', rfl⟩ := catRes_cons hb
    have ih := ih (fun q hq => hok q (by simp [hq])) b' hb'
    split at ha
    · cases ha
    · rename_i bs hbs
      injection ha with ha
      subst ha
      simp only [List.length_cons, readTagEncGo, List.append_assoc, readItf8'_write p.1 hp1,
        ByteArrayEnc.read_write p.2 hp2 bs hbs, ih]

theorem readTagEnc_write (te : List (Int × ByteArrayEnc)) (hok : ∀ p ∈ te, isI32 p.1 ∧ p.2.ParamsOK)
    (c : List Nat) (hw : writeTagEnc te = .ok c) (rest : List Nat) :
    readTagEnc (c ++ rest) = .ok (te, rest) := by
  unfold writeTagEnc at hw
  split at hw
  · cases hw
  · rename_i hl
    have hl : te.length < 2 ^ 31 := by simpa using hl
    split at hw
    · cases hw
    · rename_i body hbody
      unfold readTagEnc
      rw [readMap_write te.length hl body c rest hw]
      have := readTagEncGo_write te hok body hbody []
      rw [List.append_nil] at this
      simp only [this]

/-! ## data series encodings -/

theorem dse_step {α : Type} (k0 k1 : Nat) (w : α → Res (List Nat)) (rd : List Nat → Res (α × List Nat))
    (P : α → Prop)
    (hrt : ∀ e, P e → ∀ bs, w e = .ok bs → ∀ rest, rd (bs ++ rest) = .ok (e, rest))
    (set : DSE → α → DSE)
    (hrs : ∀ acc src e r, rd src = .ok (e, r) → readSeries acc (k0 :: k1 :: src) = .ok (set acc e, r))
    (o : Option α) (ho : optOK P o) (a : List Nat) (ha : optW k0 k1 w o = .ok a)
    (l : List Bool) (acc acc' : DSE) (hacc : acc' = match o with | none => acc | some e => set acc e)
    (rest : List Nat) :
    readDSEGo ((o.isSome :: l).count true) acc (a ++ rest) = readDSEGo (l.count true) acc' rest := by
  cases o with
  | none =>
    simp only [optW] at ha
    injection ha with ha
    subst ha; subst hacc
    simp
  | some e =>
    simp only [optW] at ha
    split at ha
    · cases ha
    · rename_i bs hbs
      injection ha with ha
      subst ha; subst hacc
      simp only [Option.isSome_some, List.count_cons_self, readDSEGo, List.cons_append,
        hrs acc _ e rest (hrt e ho bs hbs rest)]

theorem readDSEGo_write (d : DSE) (hok : d.ParamsOK) (body : List Nat) (hb : catRes d.entries = .ok body) :
    readDSEGo d.count {} body = .ok d := by
  obtain ⟨bf, cf, ri, rl, ap, rg, rn, mf, ns, np, ts, nf, tl, fn, fc, fp, dl, bb, qq, bs, in_, rs, pd, hc, sc, mq, ba, qs⟩ := d
  obtain ⟨h1, h2, h3, h4, h5, h6, h7, h8, h9, h10, h11, h12, h13, h14, h15, h16, h17, h18, h19, h20, h21, h22, h23, h24, h25, h26, h27, h28⟩ := hok
  unfold DSE.entries at hb
  obtain ⟨a1, b1, e1, hb1, rfl⟩ := catRes_cons hb
  obtain ⟨a2, b2, e2, hb2, rfl⟩ := catRes_cons hb1
  obtain ⟨a3, b3, e3, hb3, rfl⟩ := catRes_cons hb2
  obtain ⟨a4, b4, e4, hb4, rfl⟩ := catRes_cons hb3
  obtain ⟨a5, b5, e5, hb5, rfl⟩ := catRes_cons hb4
  obtain ⟨a6, b6, e6, hb6, rfl⟩ := catRes_cons hb5
  obtain ⟨a7, b7, e7, hb7, rfl⟩ := catRes_cons hb6
  obtain ⟨a8, b8, e8, hb8, rfl⟩ := catRes_cons hb7
  obtain ⟨a9, b9, e9, hb9, rfl⟩ := catRes_cons hb8
  obtain ⟨a10, b10, e10, hb10, rfl⟩ := catRes_cons hb9
  obtain ⟨a11, b11, e11, hb11, rfl⟩ := catRes_cons hb10
  obtain ⟨a12, b12, e12, hb12, rfl⟩ := catRes_cons hb11
  obtain ⟨a13, b13, e13, hb13, rfl⟩ := catRes_cons hb12
  obtain ⟨a14, b14, e14, hb14, rfl⟩ := catRes_cons hb13
  obtain ⟨a15, b15, e15, hb15, rfl⟩ := catRes_cons hb14
  obtain ⟨a16, b16, e16, hb16, rfl⟩ := catRes_cons hb15
  obtain ⟨a17, b17, e17, hb17, rfl⟩ := catRes_cons hb16
  obtain ⟨a18, b18, e18, hb18, rfl⟩ := catRes_cons hb17
  obtain ⟨a19, b19, e19, hb19, rfl⟩ := catRes_cons hb18
  obtain ⟨a20, b20, e20, hb20, rfl⟩ := catRes_cons hb19
  obtain ⟨a21, b21, e21, hb21, rfl⟩ := catRes_cons hb20
  obtain ⟨a22, b22, e22, hb22, rfl⟩ := catRes_cons hb21
  obtain ⟨a23, b23, e23, hb23, rfl⟩ := catRes_cons hb22
  obtain ⟨a24, b24, e24, hb24, rfl⟩ := catRes_cons hb23
  obtain ⟨a25, b25, e25, hb25, rfl⟩ := catRes_cons hb24
  obtain ⟨a26, b26, e26, hb26, rfl⟩ := catRes_cons hb25
  obtain ⟨a27, b27, e27, hb27, rfl⟩ := catRes_cons hb26
  obtain ⟨a28, b28, e28, hb28, rfl⟩ := catRes_cons hb27
  have hnil := catRes_nil hb28
  subst hnil
  show readDSEGo ([bf.isSome, cf.isSome, ri.isSome, rl.isSome, ap.isSome, rg.isSome, rn.isSome, mf.isSome, ns.isSome, np.isSome, ts.isSome, nf.isSome, tl.isSome, fn.isSome, fc.isSome, fp.isSome, dl.isSome, bb.isSome, qq.isSome, bs.isSome, in_.isSome, rs.isSome, pd.isSome, hc.isSome, sc.isSome, mq.isSome, ba.isSome, qs.isSome].count true) {} _ = _
  refine (dse_step 66 70 IntEnc.write IntEnc.read IntEnc.ParamsOK IntEnc.read_write (fun acc e => { acc with bf := some e })
    (by intro acc src e r h; simp [readSeries, h]) bf h1 a1 e1 _ _ { bf := bf } (by cases bf <;> rfl) _).trans ?_
  refine (dse_step 67 70 IntEnc.write IntEnc.read IntEnc.ParamsOK IntEnc.read_write (fun acc e => { acc with cf := some e })
    (by intro acc src e r h; simp [readSeries, h]) cf h2 a2 e2 _ _ { bf := bf, cf := cf } (by cases cf <;> rfl) _).trans ?_
  refine (dse_step 82 73 IntEnc.write IntEnc.read IntEnc.ParamsOK IntEnc.read_write (fun acc e => { acc with ri := some e })
    (by intro acc src e r h; simp [readSeries, h]) ri h3 a3 e3 _ _ { bf := bf, cf := cf, ri := ri } (by cases ri <;> rfl) _).trans ?_
  refine (dse_step 82 76 IntEnc.write IntEnc.read IntEnc.ParamsOK IntEnc.read_write (fun acc e => { acc with rl := some e })
    (by intro acc src e r h; simp [readSeries, h]) rl h4 a4 e4 _ _ { bf := bf, cf := cf, ri := ri, rl := rl } (by cases rl <;> rfl) _).trans ?_
  refine (dse_step 65 80 IntEnc.write IntEnc.read IntEnc.ParamsOK IntEnc.read_write (fun acc e => { acc with ap := some e })
    (by intro acc src e r h; simp [readSeries, h]) ap h5 a5 e5 _ _ { bf := bf, cf := cf, ri := ri, rl := rl, ap := ap } (by cases ap <;> rfl) _).trans ?_
  refine (dse_step 82 71 IntEnc.write IntEnc.read IntEnc.ParamsOK IntEnc.read_write (fun acc e => { acc with rg := some e })
    (by intro acc src e r h; simp [readSeries, h]) rg h6 a6 e6 _ _ { bf := bf, cf := cf, ri := ri, rl := rl, ap := ap, rg := rg } (by cases rg <;> rfl) _).trans ?_
  refine (dse_step 82 78 ByteArrayEnc.write ByteArrayEnc.read ByteArrayEnc.ParamsOK ByteArrayEnc.read_write (fun acc e => { acc with rn := some e })
    (by intro acc src e r h; simp [readSeries, h]) rn h7 a7 e7 _ _ { bf := bf, cf := cf, ri := ri, rl := rl, ap := ap, rg := rg, rn := rn } (by cases rn <;> rfl) _).trans ?_
  refine (dse_step 77 70 IntEnc.write IntEnc.read IntEnc.ParamsOK IntEnc.read_write (fun acc e => { acc with mf := some e })
    (by intro acc src e r h; simp [readSeries, h]) mf h8 a8 e8 _ _ { bf := bf, cf := cf, ri := ri, rl := rl, ap := ap, rg := rg, rn := rn, mf := mf } (by cases mf <;> rfl) _).trans ?_
  refine (dse_step 78 83 IntEnc.write IntEnc.read IntEnc.ParamsOK IntEnc.read_write (fun acc e => { acc with ns := some e })
    (by intro acc src e r h; simp [readSeries, h]) ns h9 a9 e9 _ _ { bf := bf, cf := cf, ri := ri, rl := rl, ap := ap, rg := rg, rn := rn, mf := mf, ns := ns } (by cases ns <;> rfl) _).trans ?_
  refine (dse_step 78 80 IntEnc.write IntEnc.read IntEnc.ParamsOK IntEnc.read_write (fun acc e => { acc with np := some e })
    (by intro acc src e r h; simp [readSeries, h]) np h10 a10 e10 _ _ { bf := bf, cf := cf, ri := ri, rl := rl, ap := ap, rg := rg, rn := rn, mf := mf, ns := ns, np := np } (by cases np <;> rfl) _).trans ?_
  refine (dse_step 84 83 IntEnc.write IntEnc.read IntEnc.ParamsOK IntEnc.read_write (fun acc e => { acc with ts := some e })
    (by intro acc src e r h; simp [readSeries, h]) ts h11 a11 e11 _ _ { bf := bf, cf := cf, ri := ri, rl := rl, ap := ap, rg := rg, rn := rn, mf := mf, ns := ns, np := np, ts := ts } (by cases ts <;> rfl) _).trans ?_
  refine (dse_step 78 70 IntEnc.write IntEnc.read IntEnc.ParamsOK IntEnc.read_write (fun acc e => { acc with nf := some e })
    (by intro acc src e r h; simp [readSeries, h]) nf h12 a12 e12 _ _ { bf := bf, cf := cf, ri := ri, rl := rl, ap := ap, rg := rg, rn := rn, mf := mf, ns := ns, np := np, ts := ts, nf := nf } (by cases nf <;> rfl) _).trans ?_
  refine (dse_step 84 76 IntEnc.write IntEnc.read IntEnc.ParamsOK IntEnc.read_write (fun acc e => { acc with tl := some e })
    (by intro acc src e r h; simp [readSeries, h]) tl h13 a13 e13 _ _ { bf := bf, cf := cf, ri := ri, rl := rl, ap := ap, rg := rg, rn := rn, mf := mf, ns := ns, np := np, ts := ts, nf := nf, tl := tl } (by cases tl <;> rfl) _).trans ?_
  refine (dse_step 70 78 IntEnc.write IntEnc.read IntEnc.ParamsOK IntEnc.read_write (fun acc e => { acc with fn := some e })
    (by intro acc src e r h; simp [readSeries, h]) fn h14 a14 e14 _ _ { bf := bf, cf := cf, ri := ri, rl := rl, ap := ap, rg := rg, rn := rn, mf := mf, ns := ns, np := np, ts := ts, nf := nf, tl := tl, fn := fn } (by cases fn <;> rfl) _).trans ?_
  refine (dse_step 70 67 ByteEnc.write ByteEnc.read ByteEnc.ParamsOK ByteEnc.read_write (fun acc e => { acc with fc := some e })
    (by intro acc src e r h; simp [readSeries, h]) fc h15 a15 e15 _ _ { bf := bf, cf := cf, ri := ri, rl := rl, ap := ap, rg := rg, rn := rn, mf := mf, ns := ns, np := np, ts := ts, nf := nf, tl := tl, fn := fn, fc := fc } (by cases fc <;> rfl) _).trans ?_
  refine (dse_step 70 80 IntEnc.write IntEnc.read IntEnc.ParamsOK IntEnc.read_write (fun acc e => { acc with fp := some e })
    (by intro acc src e r h; simp [readSeries, h]) fp h16 a16 e16 _ _ { bf := bf, cf := cf, ri := ri, rl := rl, ap := ap, rg := rg, rn := rn, mf := mf, ns := ns, np := np, ts := ts, nf := nf, tl := tl, fn := fn, fc := fc, fp := fp } (by cases fp <;> rfl) _).trans ?_
  refine (dse_step 68 76 IntEnc.write IntEnc.read IntEnc.ParamsOK IntEnc.read_write (fun acc e => { acc with dl := some e })
    (by intro acc src e r h; simp [readSeries, h]) dl h17 a17 e17 _ _ { bf := bf, cf := cf, ri := ri, rl := rl, ap := ap, rg := rg, rn := rn, mf := mf, ns := ns, np := np, ts := ts, nf := nf, tl := tl, fn := fn, fc := fc, fp := fp, dl := dl } (by cases dl <;> rfl) _).trans ?_
  refine (dse_step 66 66 ByteArrayEnc.write ByteArrayEnc.read ByteArrayEnc.ParamsOK ByteArrayEnc.read_write (fun acc e => { acc with bb := some e })
    (by intro acc src e r h; simp [readSeries, h]) bb h18 a18 e18 _ _ { bf := bf, cf := cf, ri := ri, rl := rl, ap := ap, rg := rg, rn := rn, mf := mf, ns := ns, np := np, ts := ts, nf := nf, tl := tl, fn := fn, fc := fc, fp := fp, dl := dl, bb := bb } (by cases bb <;> rfl) _).trans ?_
  refine (dse_step 81 81 ByteArrayEnc.write ByteArrayEnc.read ByteArrayEnc.ParamsOK ByteArrayEnc.read_write (fun acc e => { acc with qq := some e })
    (by intro acc src e r h; simp [readSeries, h]) qq h19 a19 e19 _ _ { bf := bf, cf := cf, ri := ri, rl := rl, ap := ap, rg := rg, rn := rn, mf := mf, ns := ns, np := np, ts := ts, nf := nf, tl := tl, fn := fn, fc := fc, fp := fp, dl := dl, bb := bb, qq := qq } (by cases qq <;> rfl) _).trans ?_
  refine (dse_step 66 83 ByteEnc.write ByteEnc.read ByteEnc.ParamsOK ByteEnc.read_write (fun acc e => { acc with bs := some e })
    (by intro acc src e r h; simp [readSeries, h]) bs h20 a20 e20 _ _ { bf := bf, cf := cf, ri := ri, rl := rl, ap := ap, rg := rg, rn := rn, mf := mf, ns := ns, np := np, ts := ts, nf := nf, tl := tl, fn := fn, fc := fc, fp := fp, dl := dl, bb := bb, qq := qq, bs := bs } (by cases bs <;> rfl) _).trans ?_
  refine (dse_step 73 78 ByteArrayEnc.write ByteArrayEnc.read ByteArrayEnc.ParamsOK ByteArrayEnc.read_write (fun acc e => { acc with in_ := some e })
    (by intro acc src e r h; simp [readSeries, h]) in_ h21 a21 e21 _ _ { bf := bf, cf := cf, ri := ri, rl := rl, ap := ap, rg := rg, rn := rn, mf := mf, ns := ns, np := np, ts := ts, nf := nf, tl := tl, fn := fn, fc := fc, fp := fp, dl := dl, bb := bb, qq := qq, bs := bs, in_ := in_ } (by cases in_ <;> rfl) _).trans ?_
  refine (dse_step 82 83 IntEnc.write IntEnc.read IntEnc.ParamsOK IntEnc.read_write (fun acc e => { acc with rs := some e })
    (by intro acc src e r h; simp [readSeries, h]) rs h22 a22 e22 _ _ { bf := bf, cf := cf, ri := ri, rl := rl, ap := ap, rg := rg, rn := rn, mf := mf, ns := ns, np := np, ts := ts, nf := nf, tl := tl, fn := fn, fc := fc, fp := fp, dl := dl, bb := bb, qq := qq, bs := bs, in_ := in_, rs := rs } (by cases rs <;> rfl) _).trans ?_
  refine (dse_step 80 68 IntEnc.write IntEnc.read IntEnc.ParamsOK IntEnc.read_write (fun acc e => { acc with pd := some e })
    (by intro acc src e r h; simp [readSeries, h]) pd h23 a23 e23 _ _ { bf := bf, cf := cf, ri := ri, rl := rl, ap := ap, rg := rg, rn := rn, mf := mf, ns := ns, np := np, ts := ts, nf := nf, tl := tl, fn := fn, fc := fc, fp := fp, dl := dl, bb := bb, qq := qq, bs := bs, in_ := in_, rs := rs, pd := pd } (by cases pd <;> rfl) _).trans ?_
  refine (dse_step 72 67 IntEnc.write IntEnc.read IntEnc.ParamsOK IntEnc.read_write (fun acc e => { acc with hc := some e })
    (by intro acc src e r h; simp [readSeries, h]) hc h24 a24 e24 _ _ { bf := bf, cf := cf, ri := ri, rl := rl, ap := ap, rg := rg, rn := rn, mf := mf, ns := ns, np := np, ts := ts, nf := nf, tl := tl, fn := fn, fc := fc, fp := fp, dl := dl, bb := bb, qq := qq, bs := bs, in_ := in_, rs := rs, pd := pd, hc := hc } (by cases hc <;> rfl) _).trans ?_
  refine (dse_step 83 67 ByteArrayEnc.write ByteArrayEnc.read ByteArrayEnc.ParamsOK ByteArrayEnc.read_write (fun acc e => { acc with sc := some e })
    (by intro acc src e r h; simp [readSeries, h]) sc h25 a25 e25 _ _ { bf := bf, cf := cf, ri := ri, rl := rl, ap := ap, rg := rg, rn := rn, mf := mf, ns := ns, np := np, ts := ts, nf := nf, tl := tl, fn := fn, fc := fc, fp := fp, dl := dl, bb := bb, qq := qq, bs := bs, in_ := in_, rs := rs, pd := pd, hc := hc, sc := sc } (by cases sc <;> rfl) _).trans ?_
  refine (dse_step 77 81 IntEnc.write IntEnc.read IntEnc.ParamsOK IntEnc.read_write (fun acc e => { acc with mq := some e })
    (by intro acc src e r h; simp [readSeries, h]) mq h26 a26 e26 _ _ { bf := bf, cf := cf, ri := ri, rl := rl, ap := ap, rg := rg, rn := rn, mf := mf, ns := ns, np := np, ts := ts, nf := nf, tl := tl, fn := fn, fc := fc, fp := fp, dl := dl, bb := bb, qq := qq, bs := bs, in_ := in_, rs := rs, pd := pd, hc := hc, sc := sc, mq := mq } (by cases mq <;> rfl) _).trans ?_
  refine (dse_step 66 65 ByteEnc.write ByteEnc.read ByteEnc.ParamsOK ByteEnc.read_write (fun acc e => { acc with ba := some e })
    (by intro acc src e r h; simp [readSeries, h]) ba h27 a27 e27 _ _ { bf := bf, cf := cf, ri := ri, rl := rl, ap := ap, rg := rg, rn := rn, mf := mf, ns := ns, np := np, ts := ts, nf := nf, tl := tl, fn := fn, fc := fc, fp := fp, dl := dl, bb := bb, qq := qq, bs := bs, in_ := in_, rs := rs, pd := pd, hc := hc, sc := sc, mq := mq, ba := ba } (by cases ba <;> rfl) _).trans ?_
  refine (dse_step 81 83 ByteEnc.write ByteEnc.read ByteEnc.ParamsOK ByteEnc.read_write (fun acc e => { acc with qs := some e })
    (by intro acc src e r h; simp [readSeries, h]) qs h28 a28 e28 _ _ { bf := bf, cf := cf, ri := ri, rl := rl, ap := ap, rg := rg, rn := rn, mf := mf, ns := ns, np := np, ts := ts, nf := nf, tl := tl, fn := fn, fc := fc, fp := fp, dl := dl, bb := bb, qq := qq, bs := bs, in_ := in_, rs := rs, pd := pd, hc := hc, sc := sc, mq := mq, ba := ba, qs := qs } (by cases qs <;> rfl) _).trans ?_
  rfl

theorem DSE.count_le (d : DSE) : d.count ≤ 28 := by
  unfold DSE.count
  exact List.count_le_length

theorem readDSE_write (d : DSE) (hok : d.ParamsOK) (b : List Nat) (hw : writeDSE d = .ok b) (rest : List Nat) :
    readDSE (b ++ rest) = .ok (d, rest) := by
  unfold writeDSE at hw
  split at hw
  · cases hw
  · rename_i body hbody
    have hc := DSE.count_le d
    unfold readDSE
    rw [readMap_write d.count (by omega) body b rest hw]
    simp only [readDSEGo_write d hok body hbody]

theorem readCHdr_write (h : CHdr) (hok : h.OK) (bs : List Nat) (hw : writeCHdr h = .ok bs) (rest : List Nat) :
    readCHdr (bs ++ rest) = .ok (h, rest) := by
  unfold writeCHdr at hw
  split at hw
  · cases hw
  · rename_i a ha
    split at hw
    · cases hw
    · rename_i b hb
      split at hw
      · cases hw
      · rename_i c hc
        injection hw with hw
        subst hw
        unfold readCHdr
        simp only [List.append_assoc, readPMap_write h hok a ha, readDSE_write h.dse hok.dse b hb,
          readTagEnc_write h.te hok.te c hc, Option.getD_some]

end Noodles.Cram.Enc
