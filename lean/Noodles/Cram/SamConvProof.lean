import Noodles.Cram.SamSpec
import Noodles.Cram.SamNamesProof
import Noodles.Cram.FeaturesProof
import Noodles.Cram.ValidateProof
import Noodles.Cram.RecordCodecProof
import Noodles.Cram.RefCtxProof
/-! Helper lemmas for `Props/C07Sam.lean` (the SAM ⇄ CRAM slice theorem). -/
namespace Noodles.Cram.Sam
open Noodles.Cram Noodles.Cram.Enc Noodles.Cram.Mates

/-! ### the features `cigar_to_features` builds are sorted by read position -/

theorem mismatchFeature_pos (m : Matrix) (pos a b s : Nat) : (mismatchFeature m pos a b s).pos = pos := by
  unfold mismatchFeature
  split <;> rfl

theorem sorted_matchGo_append (ref seq : List Nat) (m : Matrix) (qOp : Nat) (rest : List Feature) :
    ∀ (n r q p : Nat), p ≤ q + 1 → (∀ p', p' ≤ q + n + 1 → featuresSorted p' rest) →
      featuresSorted p (matchGo ref seq m qOp r q n ++ rest) := by
  intro n
  induction n with
  | zero => intro r q p hp hrest; simpa [matchGo] using hrest p (by omega)
  | succ n ih =>
    intro r q p hp hrest
    unfold matchGo
    have hrest' : ∀ p', p' ≤ q + 1 + n + 1 → featuresSorted p' rest := fun p' h => hrest p' (by omega)
    split
    · simpa using ih (r + 1) (q + 1) p (by omega) hrest'
    · simp only [List.cons_append, List.nil_append, featuresSorted, mismatchFeature_pos]
      exact ⟨hp, by omega, ih (r + 1) (q + 1) (q + 1) (by omega) hrest'⟩

theorem sorted_featGo (ref seq quals : List Nat) (m : Matrix) :
    ∀ (c : Cigar) (r q p : Nat), p ≤ q + 1 → featuresSorted p (featGo ref seq quals m r q c) := by
  intro c
  induction c with
  | nil => intro r q p _; simp [featGo, featuresSorted]
  | cons op ops ih =>
    intro r q p hp
    unfold featGo
    split
    · exact sorted_matchGo_append ref seq m _ _ op.len r q p hp (fun p' h => ih _ _ p' h)
    · exact sorted_matchGo_append ref seq m _ _ op.len r q p hp (fun p' h => ih _ _ p' h)
    · exact sorted_matchGo_append ref seq m _ _ op.len r q p hp (fun p' h => ih _ _ p' h)
    · refine ⟨?_, ?_, ih _ _ _ ?_⟩ <;> (split <;> simp [Feature.pos] <;> omega)
    · exact ⟨by simpa [Feature.pos] using hp, by simp [Feature.pos], ih _ _ _ (by simp [Feature.pos])⟩
    · exact ⟨by simpa [Feature.pos] using hp, by simp [Feature.pos], ih _ _ _ (by simp [Feature.pos])⟩
    · exact ⟨by simpa [Feature.pos] using hp, by simp [Feature.pos], ih _ _ _ (by simp [Feature.pos])⟩
    · exact ⟨by simpa [Feature.pos] using hp, by simp [Feature.pos], ih _ _ _ (by simp [Feature.pos])⟩
    · exact ⟨by simpa [Feature.pos] using hp, by simp [Feature.pos], ih _ _ _ (by simp [Feature.pos])⟩

theorem sorted_features (ref : List Nat) (start : Nat) (c : Cigar) (seq quals : List Nat) (m : Matrix) :
    featuresSorted 0 (features ref start c seq quals m) :=
  sorted_featGo ref seq quals m c _ 0 0 (by omega)

/-! ### the byte arrays of the features are pieces of the read -/

theorem mem_slice {α : Type} {l : List α} {i n : Nat} {x : α} (h : x ∈ slice l i n) : x ∈ l :=
  List.mem_of_mem_drop (List.mem_of_mem_take h)

theorem carries_of_sub (e : Option ByteArrayEnc) (seq bs : List Nat) (hsub : ∀ x ∈ bs, x ∈ seq)
    (h : ∀ sb id, e = some (.stop sb id) → sb ∉ seq) : ByteArrayEnc.Carries e bs := by
  unfold ByteArrayEnc.Carries
  split
  · rename_i sb id
    exact fun hm => h sb id rfl (hsub _ hm)
  · trivial

theorem carried_matchGo (ch : CH) (ref seq : List Nat) (m : Matrix) (qOp : Nat) :
    ∀ (n r q : Nat), ∀ f ∈ matchGo ref seq m qOp r q n, featureCarried ch f := by
  intro n
  induction n with
  | zero => intro r q f hf; simp [matchGo] at hf
  | succ n ih =>
    intro r q f hf
    unfold matchGo at hf
    rcases List.mem_append.mp hf with hf | hf
    · split at hf
      · cases hf
      · simp only [List.mem_cons, List.not_mem_nil, or_false] at hf
        subst hf
        rcases mismatchFeature_cases m (q + 1) (ref.getD r 0) (seq.getD q 0) qOp with ⟨x, hx⟩ | hx <;>
          (rw [hx]; trivial)
    · exact ih _ _ f hf

theorem carried_featGo (ch : CH) (ref seq quals : List Nat) (m : Matrix)
    (h : ∀ sb id, (ch.dse.in_ = some (.stop sb id) ∨ ch.dse.sc = some (.stop sb id)) → sb ∉ seq) :
    ∀ (c : Cigar) (r q : Nat), ∀ f ∈ featGo ref seq quals m r q c, featureCarried ch f := by
  intro c
  induction c with
  | nil => intro r q f hf; simp [featGo] at hf
  | cons op ops ih =>
    intro r q f hf
    unfold featGo at hf
    split at hf
    · rcases List.mem_append.mp hf with hf | hf
      · exact carried_matchGo ch ref seq m _ _ _ _ f hf
      · exact ih _ _ f hf
    · rcases List.mem_append.mp hf with hf | hf
      · exact carried_matchGo ch ref seq m _ _ _ _ f hf
      · exact ih _ _ f hf
    · rcases List.mem_append.mp hf with hf | hf
      · exact carried_matchGo ch ref seq m _ _ _ _ f hf
      · exact ih _ _ f hf
    · rcases List.mem_cons.mp hf with hf | hf
      · subst hf
        split
        · trivial
        · exact carries_of_sub _ seq _ (fun x hx => mem_slice hx) (fun sb id e => h sb id (.inl e))
      · exact ih _ _ f hf
    · rcases List.mem_cons.mp hf with hf | hf
      · subst hf; trivial
      · exact ih _ _ f hf
    · rcases List.mem_cons.mp hf with hf | hf
      · subst hf; trivial
      · exact ih _ _ f hf
    · rcases List.mem_cons.mp hf with hf | hf
      · subst hf
        exact carries_of_sub _ seq _ (fun x hx => mem_slice hx) (fun sb id e => h sb id (.inr e))
      · exact ih _ _ f hf
    · rcases List.mem_cons.mp hf with hf | hf
      · subst hf; trivial
      · exact ih _ _ f hf
    · rcases List.mem_cons.mp hf with hf | hf
      · subst hf; trivial
      · exact ih _ _ f hf

theorem carried_featuresOf (refs : Refs) (ch : CH) (m : Matrix) (r : SamRec)
    (h : ∀ sb id, (ch.dse.in_ = some (.stop sb id) ∨ ch.dse.sc = some (.stop sb id)) → sb ∉ r.seq) :
    ∀ f ∈ featuresOf refs m r, featureCarried ch f := by
  intro f hf
  unfold featuresOf at hf
  split at hf
  · split at hf
    · exact carried_featGo ch _ r.seq _ m h _ _ _ f hf
    · cases hf
  · cases hf

/-! ### `try_from_alignment_record` -/

theorem toCram_ok (refs : Refs) (m : Matrix) (r : SamRec) (c : CRec) (h : toCram refs m r = .ok c) :
    c = cramOf refs m r ∧
    (∀ id start, r.rid = some id → r.pos = some start → readLen r.cigar ≤ r.seq.length) := by
  unfold toCram at h
  split at h
  · rename_i id start hid hstart
    split at h
    · cases h
    · split at h
      · cases h
      · rename_i hle
        cases h
        exact ⟨rfl, fun _ _ _ _ => by omega⟩
  · rename_i hno
    cases h
    refine ⟨rfl, fun id start h1 h2 => absurd h2 ?_⟩
    intro h2
    exact hno id start h1 h2

theorem toCramAll_ok (refs : Refs) (m : Matrix) : ∀ (rs : List SamRec) (cs : List CRec),
    toCramAll refs m rs = .ok cs → cs = rs.map (cramOf refs m) ∧
      ∀ r ∈ rs, ∀ id start, r.rid = some id → r.pos = some start → readLen r.cigar ≤ r.seq.length := by
  intro rs
  induction rs with
  | nil => intro cs h; simp [toCramAll] at h; subst h; simp
  | cons r rest ih =>
    intro cs h
    unfold toCramAll at h
    split at h
    · cases h
    · rename_i c hc
      split at h
      · cases h
      · rename_i cs' hcs
        cases h
        obtain ⟨e1, e2⟩ := toCram_ok refs m r c hc
        obtain ⟨i1, i2⟩ := ih cs' hcs
        refine ⟨by simp [e1, i1], ?_⟩
        intro x hx
        rcases List.mem_cons.mp hx with rfl | hx
        · exact e2
        · exact i2 x hx

theorem cramOf_cramFlags (refs : Refs) (m : Matrix) (r : SamRec) :
    (cramOf refs m r).cramFlags = 1 ∨ (cramOf refs m r).cramFlags = 9 := by
  simp only [cramOf, baseRec]
  split <;> simp

theorem fresh_views (refs : Refs) (m : Matrix) (rs : List SamRec) : Fresh (rs.map (mateView refs m)) := by
  intro v hv
  obtain ⟨r, _, rfl⟩ := List.mem_map.mp hv
  simp only [mateView, toM, CRec.detached, CRec.downstream, bitSet, cramOf, baseRec]
  split <;> simp

/-! ### `set_mates` on the writer's records -/

theorem views_eq (refs : Refs) (m : Matrix) (rs : List SamRec) :
    (rs.map (cramOf refs m)).map toM = rs.map (mateView refs m) := by
  rw [List.map_map]; rfl

/-- the record `set_mates` leaves at position `p` -/
theorem linked_get (refs : Refs) (m : Matrix) (rs : List SamRec) (p : Nat) (r : SamRec) (hp : rs[p]? = some r) :
    ∃ dt, (setMatesC (rs.map (cramOf refs m)))[p]? = some (applyLinks (cramOf refs m r)
        { mateView refs m r with mateDist := md (rs.map (mateView refs m)) p,
                                 downstream := (md (rs.map (mateView refs m)) p).isSome, detached := dt }) ∧
      (dt = false ↔ ((md (rs.map (mateView refs m)) p).isSome = true ∨ hasPred (rs.map (mateView refs m)) p)) := by
  obtain ⟨dt, h1, h2⟩ := setSpec_get (rs.map (mateView refs m)) (fresh_views refs m rs) p (mateView refs m r)
    (by simp [hp])
  refine ⟨dt, ?_, h2⟩
  unfold setMatesC
  rw [List.getElem?_zipWith, views_eq, setMates_eq_setSpec, h1]
  simp [hp]

theorem setMatesC_length (refs : Refs) (m : Matrix) (rs : List SamRec) :
    (setMatesC (rs.map (cramOf refs m))).length = rs.length := by
  unfold setMatesC
  rw [List.length_zipWith, views_eq, setMates_eq_setSpec, setSpec_length]
  simp

theorem linkBits (cf : Nat) (h : cf = 1 ∨ cf = 9) (d s : Bool) :
    bitSet (cf + (if d then 2 else 0) + (if s then 4 else 0)) 1 = d ∧
    bitSet (cf + (if d then 2 else 0) + (if s then 4 else 0)) 2 = s ∧
    bitSet (cf + (if d then 2 else 0) + (if s then 4 else 0)) 0 = true ∧
    bitSet (cf + (if d then 2 else 0) + (if s then 4 else 0)) 3 = bitSet cf 3 ∧
    cf + (if d then 2 else 0) + (if s then 4 else 0) < 16 := by
  rcases h with rfl | rfl <;> cases d <;> cases s <;> decide

/-- the record at a position after `set_mates`, by its detached bit and its link -/
def linkRec (refs : Refs) (m : Matrix) (r : SamRec) (dt : Bool) (d : Option Nat) : CRec :=
  applyLinks (cramOf refs m r) { mateView refs m r with mateDist := d, downstream := d.isSome, detached := dt }

theorem linkRec_flags (refs : Refs) (m : Matrix) (r : SamRec) (dt : Bool) (d : Option Nat) :
    (linkRec refs m r dt d).detached = dt ∧ (linkRec refs m r dt d).downstream = d.isSome ∧
    (linkRec refs m r dt d).qsArray = true ∧ (linkRec refs m r dt d).cramFlags < 16 ∧
    seqMissing (linkRec refs m r dt d) = r.seq.isEmpty := by
  obtain ⟨h1, h2, h3, h4, h5⟩ := linkBits _ (cramOf_cramFlags refs m r) dt d.isSome
  refine ⟨h1, h2, h3, h5, ?_⟩
  show bitSet _ 3 = _
  simp only [linkRec, applyLinks]
  rw [h4]
  simp only [cramOf, baseRec]
  split <;> simp_all [bitSet]

theorem encodeQuals_length (quals : List Nat) (n : Nat) (h : quals = [] ∨ quals.length = n) :
    (encodeQuals quals n).length = n := by
  unfold encodeQuals
  split
  · simp
  · rcases h with rfl | h
    · simp at *
    · exact h

theorem wf_linkRec (refs : Refs) (ch : CH) (m : Matrix) (r : SamRec) (h : SamWF refs ch m r)
    (hlen : ∀ id start, r.rid = some id → r.pos = some start → readLen r.cigar ≤ r.seq.length)
    (dt : Bool) (d : Option Nat) : WF ch .many (linkRec refs m r dt d) := by
  obtain ⟨f1, f2, f3, f4, _⟩ := linkRec_flags refs m r dt d
  refine
    { bam := h.flags, cram := f4, ctxSome := fun _ _ _ e => (by cases e), ctxNone := fun e => (by cases e),
      start := h.pos1, mstart := h.mpos1, name := h.name, nameFits := h.nameFits, mateFlags := (by show (0 : Nat) < 256; decide),
      tlen := h.tlen, link := fun _ => f2, data := fun kv hkv => (h.tags kv hkv).1,
      dataFits := fun kv hkv => (h.tags kv hkv).2, mq := h.mapq, sorted := fun _ => ?_,
      carried := fun _ => carried_featuresOf refs ch m r h.seqFits, valid := fun _ => ?_, seqLen := fun _ => rfl, qsLen := fun _ => ?_ }
  · show featuresSorted 0 (featuresOf refs m r)
    unfold featuresOf
    split
    · split
      · exact sorted_features ..
      · trivial
    · trivial
  · show validateFeatures r.seq.length (featuresOf refs m r) = .ok ()
    unfold featuresOf
    split
    · rename_i id start hid hstart
      split
      · exact validateFeatures_features _ _ _ _ _ _ (hlen id start hid hstart)
      · simp [validateFeatures, validateGo]
    · simp [validateFeatures, validateGo]
  · show (encodeQuals r.quals r.seq.length).length = r.seq.length
    exact encodeQuals_length _ _ (h.quals.imp id (·.1))

/-! ### what the reader gets back from the series -/

/-- the record `read_records` returns at a position: what `stored` keeps of `linkRec` -/
def readRec (refs : Refs) (m : Matrix) (pn : Bool) (r : SamRec) (dt : Bool) (d : Option Nat) : CRec :=
  { bamFlags := r.flags, cramFlags := (linkRec refs m r dt d).cramFlags, refId := r.rid,
    readLength := r.seq.length, alignmentStart := r.pos, readGroupId := r.rg,
    name := if pn || dt then r.name else none, mateFlags := 0,
    mateRefId := if dt then r.mrid else none, mateStart := if dt then r.mpos else none,
    templateLength := if dt then r.tlen else 0, mateDistance := if dt then none else d, data := r.tags,
    features := if bitSet r.flags 2 then [] else featuresOf refs m r,
    mappingQuality := if bitSet r.flags 2 then none else r.mapq,
    sequence := if bitSet r.flags 2 then r.seq else [],
    qualityScores := r.quals }

theorem decode_encodeQuals (quals : List Nat) (n : Nat) (h : quals = [] ∨ ∃ q ∈ quals, q ≠ 255) :
    (if (encodeQuals quals n).all (· == 255) then [] else encodeQuals quals n) = quals := by
  rcases h with rfl | ⟨q, hq, hne⟩
  · simp [encodeQuals]
  · have h1 : quals.isEmpty = false := by cases quals <;> simp_all
    have h2 : quals.all (· == 255) = false := by
      rw [Bool.eq_false_iff]; intro hall
      rw [List.all_eq_true] at hall
      exact hne (by simpa using hall q hq)
    simp [encodeQuals, h1, h2]

theorem stored_linkRec (refs : Refs) (ch : CH) (m : Matrix) (ctx : RefCtx) (r : SamRec) (h : SamWF refs ch m r)
    (hc : CoversId ctx r.rid) (dt : Bool) (d : Option Nat) :
    stored ch ctx (linkRec refs m r dt d) = readRec refs m ch.recordsHaveNames r dt d := by
  obtain ⟨f1, f2, f3, f4, f5⟩ := linkRec_flags refs m r dt d
  have hmf : (linkRec refs m r dt d).mateFlags = 0 := rfl
  have hun : (linkRec refs m r dt d).unmapped = bitSet r.flags 2 := rfl
  apply CRec.ext' <;> simp only [stored, hmf, f1, f2, f3, hun, readRec]
  case hbam => cases dt <;> simp [bitSet] <;> rfl
  case hrefId =>
    show _ = r.rid
    cases ctx with
    | some id s e => exact (hc.1 id s e rfl).symm
    | none => exact (hc.2 rfl).symm
    | many => rfl
  case hrl => rfl
  case hstart => rfl
  case hrg => rfl
  case hname => rfl
  case hmf => cases dt <;> simp
  case hmrid => rfl
  case hmstart => rfl
  case htlen => rfl
  case hmd => cases dt <;> cases d <;> simp <;> rfl
  case hdata => rfl
  case hfeat => rfl
  case hmq => rfl
  case hseq => rfl
  case hqs =>
    simp only [if_true]
    exact decode_encodeQuals r.quals r.seq.length (h.quals.imp id (·.2))

/-! ### `resolve_mates` on records that agree with the written ones on everything it reads

`Noodles.Props.C07.mates_roundtrip`, restated for a list that agrees with `written rs` on every field
`resolve_mates` reads (the names of attached records are not stored when names are not preserved, and
`resolve_mates` does not read names). The proof is that theorem's. -/

theorem mateIndices_congr (ws vs : List Rec) (hl : ws.length = vs.length)
    (h : ∀ (p : Nat) (w v : Rec), ws[p]? = some w → vs[p]? = some v → w.mateDist = v.mateDist) :
    mateIndices ws = mateIndices vs := by
  apply List.ext_getElem?
  intro p
  unfold mateIndices
  rw [List.getElem?_zipWith, List.getElem?_zipWith, hl]
  by_cases hp : p < vs.length
  · have hp' : p < ws.length := by omega
    have := h p ws[p] vs[p] (List.getElem?_eq_getElem hp') (List.getElem?_eq_getElem hp)
    simp [List.getElem?_eq_getElem hp', hp, this]
  · have hp' : ¬ p < ws.length := by omega
    simp [List.getElem?_eq_none (Nat.le_of_not_lt hp), List.getElem?_eq_none (Nat.le_of_not_lt hp')]

/-- agreement on what `resolve_mates` reads -/
def Agree (w v : Rec) : Prop :=
  w.flags = v.flags ∧ w.rid = v.rid ∧ w.pos = v.pos ∧ w.span = v.span ∧ w.mrid = v.mrid ∧ w.mpos = v.mpos ∧
  w.tlen = v.tlen ∧ w.mateDist = v.mateDist

theorem mates_rt_gen (rs : List Rec) (hf : Fresh rs) (h : MateOK rs) (ws : List Rec) (hlen : ws.length = rs.length)
    (hag : ∀ (p : Nat) (w v : Rec), ws[p]? = some w → (written rs)[p]? = some v → Agree w v)
    (p : Nat) (r : Rec) (hp : rs[p]? = some r) :
    ∃ r', (resolveMates ws)[p]? = some r' ∧ r'.flags = r.flags ∧ r'.mrid = r.mrid ∧ r'.mpos = r.mpos ∧
      r'.tlen = r.tlen := by
  have hcong : mateIndices ws = mateIndices (written rs) :=
    mateIndices_congr ws (written rs) (by rw [written_length, hlen])
      (fun p w v hw hv => (hag p w v hw hv).2.2.2.2.2.2.2)
  have PL : PairLinks (mateIndices ws) ws.length := by
    rw [hcong, hlen, ← written_length rs]
    exact pairLinks_written rs hf h.pairs
  obtain ⟨R1, R2⟩ := resolveMates_pairs ws PL
  have get_w : ∀ (q : Nat) (x : Rec), rs[q]? = some x → ∃ w, ws[q]? = some w ∧ w.flags = x.flags ∧ w.rid = x.rid ∧ w.pos = x.pos ∧
      w.span = x.span ∧ (((md rs q).isSome = true ∨ hasPred rs q) ∨ (w.mrid = x.mrid ∧ w.mpos = x.mpos ∧ w.tlen = x.tlen)) := by
    intro q x hq
    obtain ⟨v, hv, v1, v2, v3, v4, _, v6⟩ := written_get' rs hf q x hq
    have hql : q < ws.length := by
      rw [hlen]
      rcases Nat.lt_or_ge q rs.length with hh | hh
      · exact hh
      · rw [List.getElem?_eq_none hh] at hq; cases hq
    obtain ⟨a1, a2, a3, a4, a5, a6, a7, _⟩ := hag q ws[q] v (List.getElem?_eq_getElem hql) hv
    refine ⟨ws[q], List.getElem?_eq_getElem hql, a1.trans v1, a2.trans v2, a3.trans v3, a4.trans v4, ?_⟩
    rcases v6 with v6 | ⟨v7, v8, v9⟩
    · exact Or.inl v6
    · exact Or.inr ⟨a5.trans v7, a6.trans v8, a7.trans v9⟩
  have hmiw : ∀ q, (mateIndices ws).getD q none = (md rs q).map fun d => q + d + 1 := by
    intro q; rw [hcong]; exact mi_written rs hf q
  obtain ⟨w, hw, w1, w2, w3, w4, w6⟩ := get_w p r hp
  cases hm : md rs p with
  | some d =>
    obtain ⟨a, b, ha, hb, haa, hab, hn⟩ := md_some rs p d hm
    rw [hp] at ha; cases ha
    obtain ⟨wb, hwb, b1, b2, b3, b4, _⟩ := get_w (p + d + 1) b hb
    have hmi : (mateIndices ws).getD p none = some (p + d + 1) := by
      rw [hmiw, hm]; rfl
    obtain ⟨c1, c2, c3, c4, _, _, c7, _, c9, _⟩ := h.mates p (p + d + 1) r b (by omega) hp hb haa hab hn.symm
    obtain ⟨o1, _⟩ := R1 p (p + d + 1) w wb hmi hw hwb
    refine ⟨_, o1, ?_, ?_, ?_, ?_⟩
    · simp only [resFirst]
      rw [setMate_flags, w1]
      · rw [b1, w1]; exact c7
      · rw [b1]; exact attachable_mapped b hab
    · simp only [resFirst, setMate_mrid, b2, c3]
    · simp only [resFirst, setMate_mpos, b3, c4]
    · simp only [resFirst]
      rw [c9]
      exact pairT_eq _ _ r b ⟨w2, w3, w4⟩ ⟨b2, b3, b4⟩ c1 c2
  | none =>
    by_cases hpred : hasPred rs p
    · obtain ⟨p', d, hpd, hm'⟩ := hpred
      obtain ⟨a, b, ha, hb, haa, hab, hn⟩ := md_some rs p' d hm'
      rw [hpd, hp] at hb; cases hb
      obtain ⟨wa, hwa, a1, a2, a3, a4, _⟩ := get_w p' a ha
      have hmi : (mateIndices ws).getD p' none = some p := by
        rw [hmiw, hm', ← hpd]; rfl
      obtain ⟨c1, c2, c3, c4, c5, c6, c7, c8, c9, c10⟩ := h.mates p' p a r (by omega) ha hp haa hab hn.symm
      obtain ⟨_, o2⟩ := R1 p' p wa w hmi hwa hw
      have hfirst : (setMate wa w).flags = a.flags := by
        rw [setMate_flags, a1]
        · rw [w1, a1]; exact c7
        · rw [w1]; exact attachable_mapped r hab
      refine ⟨_, o2, ?_, ?_, ?_, ?_⟩
      · simp only [resLast]
        rw [setMate_flags, w1]
        · rw [hfirst, w1]; exact c8
        · rw [hfirst]; exact attachable_mapped a haa
      · simp only [resLast, setMate_mrid, setMate_rid, a2, c5]
      · simp only [resLast, setMate_mpos, setMate_pos, a3, c6]
      · simp only [resLast]
        rw [c10, c9]
        congr 1
        exact pairT_eq _ _ a r ⟨a2, a3, a4⟩ ⟨w2, w3, w4⟩ c1 c2
    · have hv : w.mrid = r.mrid ∧ w.mpos = r.mpos ∧ w.tlen = r.tlen := by
        rcases w6 with (h1 | h1) | h1
        · simp [hm] at h1
        · exact absurd h1 hpred
        · exact h1
      have hmi : (mateIndices ws).getD p none = none := by
        rw [hmiw, hm]; rfl
      have hno : ∀ i, (mateIndices ws).getD i none ≠ some p := by
        intro i hi
        rw [hmiw] at hi
        cases hmi' : md rs i with
        | none => rw [hmi'] at hi; simp at hi
        | some d => rw [hmi'] at hi; simp at hi; exact hpred ⟨i, d, hi, hmi'⟩
      exact ⟨w, (R2 p hmi hno).trans hw, w1, hv.1, hv.2.1, hv.2.2⟩

/-! ### names -/

theorem nameWalk_length : ∀ (fuel : Nat) (ns : List (Option (List Nat))) (mi : List (Option Nat)) (j : Nat),
    (nameWalk fuel ns mi j).length = ns.length := by
  intro fuel
  induction fuel with
  | zero => intro ns mi j; rfl
  | succ fuel ih =>
    intro ns mi j
    unfold nameWalk
    split
    · rfl
    · simp only [ih, List.length_modify]

theorem namesGo_length (gen : Bool) (counter : Nat) : ∀ (todo : List Nat) (ns : List (Option (List Nat)))
    (mi : List (Option Nat)), (namesGo gen counter todo ns mi).length = ns.length := by
  intro todo
  induction todo with
  | nil => intro ns mi; rfl
  | cons i rest ih =>
    intro ns mi
    unfold namesGo
    simp only
    split <;> split <;> simp [ih, nameWalk_length]

theorem modify_id_of_some (ns : List (Option (List Nat))) (k : Nat) (x : Option (List Nat))
    (h : ∀ n ∈ ns, n.isSome = true) : ns.modify k (fun n => if n.isNone then x else n) = ns := by
  apply List.ext_getElem?
  intro i
  rw [List.getElem?_modify]
  by_cases hik : k = i
  · subst hik
    cases hn : ns[k]? with
    | none => simp
    | some n =>
      have := h n (List.mem_of_getElem? hn)
      cases n with
      | none => simp at this
      | some v => simp
  · simp [hik]

theorem nameWalk_of_some : ∀ (fuel : Nat) (ns : List (Option (List Nat))) (mi : List (Option Nat)) (j : Nat),
    (∀ n ∈ ns, n.isSome = true) → nameWalk fuel ns mi j = ns := by
  intro fuel
  induction fuel with
  | zero => intro ns mi j _; rfl
  | succ fuel ih =>
    intro ns mi j h
    unfold nameWalk
    split
    · rfl
    · simp only [modify_id_of_some ns _ _ h, ih ns mi _ h]

/-- when every record has a name, `resolve_mates` changes no name (nothing is generated, nothing is
copied along a chain) -/
theorem namesGo_of_some (gen : Bool) (counter : Nat) : ∀ (todo : List Nat) (ns : List (Option (List Nat)))
    (mi : List (Option Nat)), (∀ n ∈ ns, n.isSome = true) → namesGo gen counter todo ns mi = ns := by
  intro todo
  induction todo with
  | nil => intro ns mi _; rfl
  | cons i rest ih =>
    intro ns mi h
    unfold namesGo
    have hset : (if (gen && (ns.getD i none).isNone) = true then ns.set i (some (idName (counter + i))) else ns) = ns := by
      split
      · rename_i hc
        rcases Nat.lt_or_ge i ns.length with hlt | hge
        · have := h ns[i] (List.getElem_mem hlt)
          rw [List.getD_eq_getElem?_getD, List.getElem?_eq_getElem hlt] at hc
          cases hx : ns[i] <;> simp_all
        · exact List.set_eq_of_length_le hge
      · rfl
    simp only [hset]
    split
    · exact ih ns _ h
    · rw [nameWalk_of_some _ ns mi i h]
      exact ih ns _ h

/-! ### references and the edit script -/

theorem attachRefs_get (refs : Refs) (ctx : RefCtx) : ∀ (cs : List CRec) (rfs : List (Option (List Nat))),
    attachRefs refs ctx cs = .ok rfs → rfs.length = cs.length ∧
      ∀ (p : Nat) (c : CRec), cs[p]? = some c → ∃ ref, rfs[p]? = some ref ∧
        (refBased c = true → recordRef refs ctx c = .ok ref) := by
  intro cs
  induction cs with
  | nil => intro rfs h; simp [attachRefs] at h; subst h; simp
  | cons x xs ih =>
    intro rfs h
    unfold attachRefs at h
    split at h
    · split at h
      · cases h
      · rename_i ref href
        split at h
        · cases h
        · split at h
          · cases h
          · rename_i l hl
            cases h
            obtain ⟨i1, i2⟩ := ih l hl
            refine ⟨by simp [i1], ?_⟩
            intro p c hp
            cases p with
            | zero => simp at hp; subst hp; exact ⟨ref, by simp, fun _ => href⟩
            | succ p => simpa using i2 p c (by simpa using hp)
    · rename_i hnb
      split at h
      · cases h
      · rename_i l hl
        cases h
        obtain ⟨i1, i2⟩ := ih l hl
        refine ⟨by simp [i1], ?_⟩
        intro p c hp
        cases p with
        | zero => simp at hp; subst hp; exact ⟨none, by simp, fun hb => absurd hb hnb⟩
        | succ p => simpa using i2 p c (by simpa using hp)

/-- `Noodles.Props.C07.features_rebuild` (the proof is that theorem's) -/
theorem rebuild_features (ref : List Nat) (start : Nat) (c : Cigar) (seq quals : List Nat) (m : Matrix)
    (hm : m.OK) (h : ConsistentRead ref start c seq) :
    (rebuildBases ref start seq.length (features ref start c seq quals m) m).map upper = seq.map upper ∧
    rebuildCigar seq.length (features ref start c seq quals m) = normCigar c := by
  obtain ⟨h1, h2, h3, h4⟩ := h
  refine ⟨?_, ?_⟩
  · have := Good.featGo ref seq m seq.length hm quals rfl c (start - 1) 0 h2 (by omega)
    have := this (start - 1) 0 (Lag.refl ref seq _ _)
    simpa [rebuildBases, features] using this
  · have hg := CGood.featGo ref seq m seq.length quals rfl c (start - 1) 0 (by omega)
    have he := hg 0 (Nat.le_refl _)
    simp only [Nat.sub_self, List.replicate_zero, List.nil_append] at he
    have hp : Pos (cigGo seq.length 0 (featGo ref seq quals m (start - 1) 0 c)) :=
      Pos.cigGo seq.length _ 0 (FPos.featGo ref seq m quals c (start - 1) 0 h4 (by omega))
    show simplify (cigGo seq.length 0 (featGo ref seq quals m (start - 1) 0 c)) = normCigar c
    rw [simplify_eq_rle _ hp, he]
    rfl

/-! ### assembly -/

theorem featuresOf_nil (refs : Refs) (m : Matrix) (r : SamRec) (h : r.cigar = []) : featuresOf refs m r = [] := by
  unfold featuresOf
  split
  · split
    · simp [features, featGo, h]
    · rfl
  · rfl

theorem agree_readRec (refs : Refs) (ch : CH) (m : Matrix) (r : SamRec) (h : SamWF refs ch m r) (pn dt : Bool)
    (d : Option Nat) :
    Agree (toM (readRec refs m pn r dt d))
      (wire { mateView refs m r with mateDist := d, downstream := d.isSome, detached := dt }) := by
  have hspan : (alignmentSpan r.seq.length (if bitSet r.flags 2 then [] else featuresOf refs m r)).getD 0 =
      (alignmentSpan r.seq.length (featuresOf refs m r)).getD 0 := by
    split
    · rename_i hu
      rw [featuresOf_nil refs m r (h.unmapped hu).1]
    · rfl
  cases dt <;> cases d <;>
    (refine ⟨?_, ?_, ?_, ?_, ?_, ?_, ?_, ?_⟩ <;> first | rfl | exact hspan)

theorem bool_eq_of_iff {a b : Bool} {P : Prop} (ha : a = false ↔ P) (hb : b = false ↔ P) : a = b := by
  cases a <;> cases b <;> simp_all

/-- the encoder side: what `encodeSlice` computed when it succeeded -/
theorem encodeSlice_ok (ch : CH) (refs : Refs) (m : Matrix) (rs : List SamRec) (ctx : RefCtx) (core : List Nat)
    (ext : Int → Option (List Nat)) (h : encodeSlice ch refs m rs = .ok (ctx, core, ext)) :
    getRefCtx (rs.map (cramOf refs m)) = .ok ctx ∧
    writeRecords ch ctx (setMatesC (rs.map (cramOf refs m))) = .ok (core, ext) ∧
    ∀ r ∈ rs, ∀ id start, r.rid = some id → r.pos = some start → readLen r.cigar ≤ r.seq.length := by
  unfold encodeSlice at h
  split at h
  · cases h
  · rename_i cs hcs
    obtain ⟨e, hl⟩ := toCramAll_ok refs m rs cs hcs
    subst e
    split at h
    · cases h
    · rename_i ctx' hctx
      split at h
      · cases h
      · rename_i core' ext' hw
        cases h
        exact ⟨hctx, hw, hl⟩

/-- the records the reader's `read_records` returns for the slice -/
theorem read_back (ch : CH) (refs : Refs) (m : Matrix) (rs : List SamRec) (ctx : RefCtx) (core : List Nat)
    (ext : Int → Option (List Nat)) (hwf : ∀ r ∈ rs, SamWF refs ch m r)
    (h : encodeSlice ch refs m rs = .ok (ctx, core, ext)) :
    readRecords ch ctx rs.length core (blocksOf ext) =
      .ok ((setMatesC (rs.map (cramOf refs m))).map (stored ch ctx)) ∧
    ∀ (p : Nat) (r : SamRec), rs[p]? = some r → ∃ dt,
      ((setMatesC (rs.map (cramOf refs m))).map (stored ch ctx))[p]? =
        some (readRec refs m ch.recordsHaveNames r dt (md (rs.map (mateView refs m)) p)) ∧
      (dt = false ↔ ((md (rs.map (mateView refs m)) p).isSome = true ∨ hasPred (rs.map (mateView refs m)) p)) ∧
      CoversId ctx r.rid := by
  obtain ⟨hctx, hw, hl⟩ := encodeSlice_ok ch refs m rs ctx core ext h
  have hcov : ∀ r ∈ rs, CoversId ctx r.rid := fun r hr =>
    getRefCtx_covers _ ctx hctx (cramOf refs m r) (List.mem_map_of_mem hr)
  have hWF : ∀ x ∈ setMatesC (rs.map (cramOf refs m)), WF ch ctx x := by
    intro x hx
    obtain ⟨p, hp⟩ := List.mem_iff_getElem?.mp hx
    have hpl : p < rs.length := by
      rw [← setMatesC_length refs m rs]
      rcases Nat.lt_or_ge p (setMatesC (rs.map (cramOf refs m))).length with hh | hh
      · exact hh
      · rw [List.getElem?_eq_none hh] at hp; cases hp
    obtain ⟨dt, h1, _⟩ := linked_get refs m rs p rs[p] (List.getElem?_eq_getElem hpl)
    rw [hp] at h1
    cases h1
    have hr : rs[p] ∈ rs := List.getElem_mem hpl
    have w := wf_linkRec refs ch m rs[p] (hwf _ hr) (hl _ hr) dt (md (rs.map (mateView refs m)) p)
    exact { w with ctxSome := (hcov _ hr).1, ctxNone := (hcov _ hr).2 }
  have hread := record_series_roundtrip' ch ctx _ hWF core ext hw
  rw [setMatesC_length] at hread
  refine ⟨hread, ?_⟩
  intro p r hp
  have hr : r ∈ rs := List.mem_of_getElem? hp
  obtain ⟨dt, h1, h2⟩ := linked_get refs m rs p r hp
  refine ⟨dt, ?_, h2, hcov r hr⟩
  rw [List.getElem?_map, h1]
  simp only [Option.map_some]
  congr 1
  exact stored_linkRec refs ch m ctx r (hwf r hr) (hcov r hr) dt _

theorem featuresOf_mapped (refs : Refs) (m : Matrix) (r : SamRec) (id start : Nat) (rf : List Nat)
    (hid : r.rid = some id) (hst : r.pos = some start) (hrf : refs id = some rf) :
    featuresOf refs m r = features rf start r.cigar r.seq (encodeQuals r.quals r.seq.length) m := by
  unfold featuresOf
  simp [hid, hst, hrf]

theorem recordRef_mapped (refs : Refs) (ctx : RefCtx) (c : CRec) (id : Nat) (rf : List Nat)
    (hid : c.refId = some id) (hrf : refs id = some rf) (hc : CoversId ctx c.refId) :
    recordRef refs ctx c = .ok (some rf) := by
  unfold recordRef
  cases ctx with
  | some id' s e =>
    have := hc.1 id' s e rfl
    rw [hid] at this; cases this
    simp [hrf]
  | none =>
    have := hc.2 rfl
    rw [hid] at this; cases this
  | many => simp [hid, hrf]

/-- the accessors on the resolved record give the input record back, in normal form -/
theorem back_toSam (refs : Refs) (ch : CH) (m : Matrix) (ctx : RefCtx) (r : SamRec) (hm : m.OK)
    (h : SamWF refs ch m r) (hc : CoversId ctx r.rid) (pn dt : Bool) (d : Option Nat) (v : Mates.Rec)
    (hv : v.flags = r.flags ∧ v.mrid = r.mrid ∧ v.mpos = r.mpos ∧ v.tlen = r.tlen)
    (nm : Option (List Nat)) (ref : Option (List Nat))
    (href : refBased (readRec refs m pn r dt d) = true → recordRef refs ctx (readRec refs m pn r dt d) = .ok ref)
    (ename : Option (List Nat)) (hname : nm = ename) :
    Back ename r (toSam m ref (applyMate (readRec refs m pn r dt d) v nm)) := by
  obtain ⟨v1, v2, v3, v4⟩ := hv
  obtain ⟨_, _, f3, _, f5⟩ := linkRec_flags refs m r dt d
  have hun : (applyMate (readRec refs m pn r dt d) v nm).unmapped = bitSet r.flags 2 := by
    show bitSet v.flags 2 = _
    rw [v1]
  have hqa : (applyMate (readRec refs m pn r dt d) v nm).qsArray = true := f3
  have hsm : seqMissing (applyMate (readRec refs m pn r dt d) v nm) = r.seq.isEmpty := f5
  have hsmR : seqMissing (readRec refs m pn r dt d) = r.seq.isEmpty := f5
  have hunR : (readRec refs m pn r dt d).unmapped = bitSet r.flags 2 := rfl
  cases hu : bitSet r.flags 2 with
  | true =>
    obtain ⟨hcig, hmq⟩ := h.unmapped hu
    refine { flags := v1, rid := rfl, pos := rfl, mapq := ?_, cigar := ?_, mrid := v2, mpos := v3, tlen := v4,
             seq := ?_, seqExact := fun _ => ?_, quals := ?_, rg := rfl, tags := rfl, name := hname }
    · show (if bitSet r.flags 2 then none else r.mapq) = r.mapq
      simp [hu, hmq]
    · simp only [toSam, hun, hu, if_true, hcig]
      rfl
    · simp only [toSam, refBased, hun, hu]
      show ((if bitSet r.flags 2 then r.seq else []) : List Nat).map upper = _
      simp [hu]
    · simp only [toSam, refBased, hun, hu]
      show ((if bitSet r.flags 2 then r.seq else []) : List Nat) = _
      simp [hu]
    · simp only [toSam, hun, hu]
      rfl
  | false =>
    obtain ⟨id, start, rf, hid, hst, hrf, hcr⟩ := h.mapped hu
    have hfe := featuresOf_mapped refs m r id start rf hid hst hrf
    obtain ⟨rb1, rb2⟩ := rebuild_features rf start r.cigar r.seq (encodeQuals r.quals r.seq.length) m hm hcr
    have hfeat : (applyMate (readRec refs m pn r dt d) v nm).features =
        features rf start r.cigar r.seq (encodeQuals r.quals r.seq.length) m := by
      show (if bitSet r.flags 2 then [] else featuresOf refs m r) = _
      simp [hu, hfe]
    refine { flags := v1, rid := rfl, pos := rfl, mapq := ?_, cigar := ?_, mrid := v2, mpos := v3, tlen := v4,
             seq := ?_, seqExact := fun hx => ?_, quals := ?_, rg := rfl, tags := rfl, name := hname }
    · show (if bitSet r.flags 2 then none else r.mapq) = r.mapq
      simp [hu]
    · simp only [toSam, hun, hu, hfeat]
      exact rb2
    · cases hs : r.seq.isEmpty with
      | true =>
        have he : r.seq = [] := by simpa using hs
        simp only [toSam, refBased, hun, hu, hsm, hs]
        show ((if bitSet r.flags 2 then r.seq else []) : List Nat).map upper = _
        simp [hu, he]
      | false =>
        have hb : refBased (readRec refs m pn r dt d) = true := by
          simp [refBased, hunR, hu, hsmR, hs]
        have hr := href hb
        rw [recordRef_mapped refs ctx _ id rf hid hrf hc] at hr
        cases hr
        simp only [toSam, refBased, hun, hu, hsm, hs, hfeat]
        show (match some rf, r.pos with
          | some s, some st => rebuildBases s st r.seq.length _ m
          | _, _ => rebuildBases [] 1 r.seq.length _ m).map upper = _
        rw [hst]
        exact rb1
    · exact absurd hx (by rw [show isUnmapped r.flags = bitSet r.flags 2 from rfl, hu]; simp)
    · simp only [toSam, hqa, Bool.or_true, if_true]
      rfl

/-- **SAM → CRAM → slice streams → CRAM → SAM.** -/
theorem slice_roundtrip' (ch : CH) (refs : Refs) (m : Matrix) (hm : m.OK) (rs : List SamRec)
    (hwf : SliceWF refs ch m rs) (ctx : RefCtx) (core : List Nat) (ext : Int → Option (List Nat))
    (henc : encodeSlice ch refs m rs = .ok (ctx, core, ext)) (hacc : ValidationAccepts ch refs m ctx rs)
    (counter : Nat) :
    ∃ out, decodeSlice ch refs m ctx rs.length counter core (blocksOf ext) = .ok out ∧ out.length = rs.length ∧
      ∀ (p : Nat) (r : SamRec), rs[p]? = some r →
        ∃ r', out[p]? = some r' ∧
          Back (expectedName ch.recordsHaveNames counter (rs.map (mateView refs m)) p r.name) r r' := by
  obtain ⟨hread, hrd⟩ := read_back ch refs m rs ctx core ext hwf.recs henc
  obtain ⟨rfs, hrfs⟩ := hacc
  obtain ⟨rl, rget⟩ := attachRefs_get refs ctx _ rfs hrfs
  -- abbreviations
  generalize hRD : (setMatesC (rs.map (cramOf refs m))).map (stored ch ctx) = rd at hread hrd hrfs rl rget
  have hrdlen : rd.length = rs.length := by rw [← hRD]; simp [setMatesC_length]
  have hfresh := fresh_views refs m rs
  have hag : ∀ (p : Nat) (w v : Mates.Rec), (rd.map toM)[p]? = some w →
      (written (rs.map (mateView refs m)))[p]? = some v → Agree w v := by
    intro p w v hw hv
    have hpl : p < rs.length := by
      rcases Nat.lt_or_ge p rs.length with hh | hh
      · exact hh
      · rw [List.getElem?_eq_none (by simp [hrdlen, hh])] at hw; cases hw
    obtain ⟨dt, g1, g2, _⟩ := hrd p rs[p] (List.getElem?_eq_getElem hpl)
    obtain ⟨dt', k1, k2⟩ := written_get (rs.map (mateView refs m)) hfresh p (mateView refs m rs[p])
      (by simp [List.getElem?_eq_getElem hpl])
    have e := bool_eq_of_iff g2 k2
    subst e
    rw [List.getElem?_map, g1] at hw
    cases hw
    rw [k1] at hv
    cases hv
    exact agree_readRec refs ch m rs[p] (hwf.recs _ (List.getElem_mem hpl)) _ dt _
  have hwl : (rd.map toM).length = (rs.map (mateView refs m)).length := by simp [hrdlen]
  have hcong : mateIndices (rd.map toM) = mateIndices (written (rs.map (mateView refs m))) :=
    mateIndices_congr _ _ (by rw [written_length, hwl]) (fun p w v hw hv => (hag p w v hw hv).2.2.2.2.2.2.2)
  have PL : PairLinks (mateIndices (rd.map toM)) rd.length := by
    have := pairLinks_written (rs.map (mateView refs m)) hfresh hwf.mates.pairs
    rw [← hcong, written_length, ← hwl] at this
    simpa using this
  have hany : (mateIndices (rd.map toM)).any (linkOutside rd.length) = false := by
    rw [List.any_eq_false]
    intro o ho
    cases o with
    | none => simp [linkOutside]
    | some k =>
      obtain ⟨i, hi⟩ := List.mem_iff_getElem?.mp ho
      have : (mateIndices (rd.map toM)).getD i none = some k := by
        rw [List.getD_eq_getElem?_getD, hi]; rfl
      have := (PL.fwd i k this).2
      simp [linkOutside]; omega
  generalize hnames : namesGo (!ch.recordsHaveNames) counter (List.range rd.length) (rd.map (·.name))
    (mateIndices (rd.map toM)) = names
  have hnl : names.length = rd.length := by rw [← hnames, namesGo_length]; simp
  have hres : resolveMatesC (!ch.recordsHaveNames) counter rd =
      .ok (List.zipWith (fun (p : CRec × Mates.Rec) n => applyMate p.1 p.2 n)
        (rd.zip (resolveMates (rd.map toM))) names) := by
    unfold resolveMatesC
    simp only [hany, Bool.false_eq_true, if_false, hnames]
  have hdec : decodeSlice ch refs m ctx rs.length counter core (blocksOf ext) =
      .ok (List.zipWith (fun c ref => toSam m ref c)
        (List.zipWith (fun (p : CRec × Mates.Rec) n => applyMate p.1 p.2 n)
          (rd.zip (resolveMates (rd.map toM))) names) rfs) := by
    unfold decodeSlice
    simp only [hread, hrfs, hres]
  have hpt : ∀ (p : Nat) (r : SamRec), rs[p]? = some r →
      ∃ r', (List.zipWith (fun c ref => toSam m ref c)
        (List.zipWith (fun (p : CRec × Mates.Rec) n => applyMate p.1 p.2 n)
          (rd.zip (resolveMates (rd.map toM))) names) rfs)[p]? = some r' ∧
        Back (expectedName ch.recordsHaveNames counter (rs.map (mateView refs m)) p r.name) r r' := by
    intro p r hp
    have hr : r ∈ rs := List.mem_of_getElem? hp
    obtain ⟨dt, g1, g2, gc⟩ := hrd p r hp
    obtain ⟨v, q1, q2, q3, q4, q5⟩ := mates_rt_gen (rs.map (mateView refs m)) hfresh hwf.mates (rd.map toM) hwl hag
      p (mateView refs m r) (by simp [hp])
    have hpl : p < names.length := by
      rw [hnl, hrdlen]
      rcases Nat.lt_or_ge p rs.length with hh | hh
      · exact hh
      · rw [List.getElem?_eq_none hh] at hp; cases hp
    obtain ⟨ref, hrf, href⟩ := rget p _ g1
    refine ⟨toSam m ref (applyMate (readRec refs m ch.recordsHaveNames r dt (md (rs.map (mateView refs m)) p)) v names[p]), ?_, ?_⟩
    · have hz : (rd.zip (resolveMates (rd.map toM)))[p]? =
          some (readRec refs m ch.recordsHaveNames r dt (md (rs.map (mateView refs m)) p), v) :=
        List.getElem?_zip_eq_some.mpr ⟨g1, q1⟩
      simp [List.getElem?_zipWith, hz, List.getElem?_eq_getElem hpl, hrf]
    · refine back_toSam refs ch m ctx r hm (hwf.recs r hr) gc _ dt _ v ⟨q2, q3, q4, q5⟩ _ ref href _ ?_
      -- the name rule
      have horig : ∀ (q : Nat) (rq : SamRec), rs[q]? = some rq → ∃ dtq : Bool,
          (rd.map (·.name)).getD q none = (if ch.recordsHaveNames || dtq then rq.name else none) ∧
          (dtq = false ↔ ((md (rs.map (mateView refs m)) q).isSome = true ∨ hasPred (rs.map (mateView refs m)) q)) := by
        intro q rq hq
        obtain ⟨dtq, j1, j2, _⟩ := hrd q rq hq
        refine ⟨dtq, ?_, j2⟩
        rw [List.getD_eq_getElem?_getD, List.getElem?_map, j1]
        rfl
      have hmiw : ∀ q, (mateIndices (rd.map toM)).getD q none =
          (md (rs.map (mateView refs m)) q).map fun d => q + d + 1 := by
        intro q; rw [hcong]; exact mi_written _ hfresh q
      have hPL' : PairLinks (mateIndices (rd.map toM)) (rd.map (·.name)).length := by simpa using PL
      have hsp := namesGo_spec (!ch.recordsHaveNames) counter (rd.map (·.name)) (mateIndices (rd.map toM)) hPL' p
        (by rw [List.length_map, ← hnl]; exact hpl)
      rw [List.length_map, hnames] at hsp
      have hne := names_expected ch.recordsHaveNames counter rs (rs.map (mateView refs m)) (mateView refs m) rfl
        (fun _ => rfl) (rd.map (·.name)) (mateIndices (rd.map toM)) hmiw horig p r hp
      rw [← hne, ← hsp, List.getD_eq_getElem?_getD, List.getElem?_eq_getElem hpl]
      rfl
  refine ⟨_, hdec, ?_, hpt⟩
  -- the length
  apply Nat.le_antisymm
  · rw [List.length_zipWith, rl, hrdlen]
    exact Nat.min_le_right _ _
  · apply Nat.le_of_not_lt
    intro hlt
    obtain ⟨r', hr', _⟩ := hpt _ _ (List.getElem?_eq_getElem hlt)
    rw [List.getElem?_eq_none (Nat.le_refl _)] at hr'
    cases hr'

end Noodles.Cram.Sam
