import Noodles.Cram.RecordCodec
import Noodles.Cram.Mates
/-!
# SAM record ⇄ CRAM record of a slice, end to end (C07 extension "sam")

Transcribed from noodles-cram

* writer — `io/writer/record/convert.rs::Record::try_from_alignment_record` (`toCram`),
  `io/writer/container/slice.rs::build_slice`: `get_reference_sequence_context`, `set_mates`,
  `write_records` (`encodeSlice`; the three functions are the models of `RecordCodec.lean` /
  `Mates.lean`);
* reader — `io/reader/container/slice.rs::Slice::records`: `read_records`, the per-record reference
  choice (`get_slice_reference_sequence` for a single-reference slice, `get_record_reference_sequence`
  in a multi-reference slice), `Record::validate_sequence` → `record/sequence/iter.rs::validate`,
  `resolve_mates_with` (name generation + the mate walk of `Mates.lean`), and the accessors of
  `impl sam::alignment::Record for cram::Record` in `record.rs` (`toSam`): name, flags, reference,
  position, mapping quality, `cigar()` (`record/cigar.rs`), mate fields, `sequence()`,
  `quality_scores()` (array, or `record/quality_scores/iter.rs` over the features), read group id,
  data.

A SAM record is the alignment record of the SAM data model: reference ids and the read group are
indices into the header (`reference_sequence_id(header)`, `get_read_group_id`); a tag value is its BAM
encoding (what `value.try_into()` + `write_value` store; the typed view is C05's). The reference
repository is a function from reference ids to sequences. Block compression, the slice header's
bytes and MD5, and embedded references (never written by noodles) are outside this file.

Out-of-range indexing panics in Rust (`reference_sequence[reference_position]`, `sequence[..]`); here
it truncates — the theorems assume `SamWF`, under which every access is in range.
-/
namespace Noodles.Cram.Sam
open Noodles.Cram Noodles.Cram.Enc

/-- `sam::alignment::Record` as `try_from_alignment_record` reads it -/
structure SamRec where
  name : Option (List Nat) := none
  flags : Nat := 4
  rid : Option Nat := none
  pos : Option Nat := none
  mapq : Option Nat := none
  cigar : Cigar := []
  mrid : Option Nat := none
  mpos : Option Nat := none
  tlen : Int := 0
  seq : List Nat := []
  quals : List Nat := []
  /-- index of the `RG` tag's value among the header's read groups -/
  rg : Option Nat := none
  tags : List (Key × List Nat) := []
  deriving DecidableEq, Repr

/-- `fasta::Repository` by reference sequence id; `none`: no such reference -/
abbrev Refs := Nat → Option (List Nat)

/-! ## writer -/

/-- `Record::try_from_alignment_record`. CRAM flags: `QUALITY_SCORES_ARE_STORED_AS_ARRAY` always,
`SEQUENCE_IS_MISSING` for an empty sequence. Features are built iff the record has a reference id and
an alignment start (whatever its flags say); a CIGAR that consumes more bases than the read has is
`InvalidInput`; a reference id the repository does not have is `expect(..)` — a panic. -/
def baseRec (r : SamRec) : CRec :=
  { bamFlags := r.flags, cramFlags := if r.seq.isEmpty then 9 else 1, refId := r.rid,
    readLength := r.seq.length, alignmentStart := r.pos, readGroupId := r.rg, name := r.name,
    mateFlags := 0, mateRefId := r.mrid, mateStart := r.mpos, templateLength := r.tlen,
    mateDistance := none, data := r.tags, features := [], mappingQuality := r.mapq,
    sequence := r.seq, qualityScores := encodeQuals r.quals r.seq.length }

/-- the `features` field: `cigar_to_features` against the record's reference when it has a reference
id and an alignment start, otherwise empty -/
def featuresOf (refs : Refs) (m : Matrix) (r : SamRec) : List Feature :=
  match r.rid, r.pos with
  | some id, some start =>
    match refs id with
    | some ref => features ref start r.cigar r.seq (encodeQuals r.quals r.seq.length) m
    | none => []
  | _, _ => []

/-- the record `try_from_alignment_record` returns when it succeeds -/
def cramOf (refs : Refs) (m : Matrix) (r : SamRec) : CRec := { baseRec r with features := featuresOf refs m r }

def toCram (refs : Refs) (m : Matrix) (r : SamRec) : Res CRec :=
  match r.rid, r.pos with
  | some id, some _ =>
    match refs id with
    | none => .error .panic
    | some _ =>
      if readLen r.cigar > r.seq.length then .error .invalidInput
      else .ok (cramOf refs m r)
  | _, _ => .ok (cramOf refs m r)

def toCramAll (refs : Refs) (m : Matrix) : List SamRec → Res (List CRec)
  | [] => .ok []
  | r :: rs =>
    match toCram refs m r with
    | .error e => .error e
    | .ok c =>
      match toCramAll refs m rs with
      | .error e => .error e
      | .ok cs => .ok (c :: cs)

/-- an injective code of read names (`Mates.Rec` compares names as identifiers) -/
def nameCode : List Nat → Nat
  | [] => 0
  | b :: bs => 2 ^ b * (2 * nameCode bs + 1)

/-- the view of a CRAM record `set_mates` / `resolve_mates` work on -/
def toM (c : CRec) : Mates.Rec :=
  { flags := c.bamFlags, name := c.name.map nameCode, rid := c.refId, pos := c.alignmentStart,
    span := (alignmentSpan c.readLength c.features).getD 0,
    mrid := c.mateRefId, mpos := c.mateStart, tlen := c.templateLength,
    detached := c.detached, downstream := c.downstream, mateDist := c.mateDistance }

/-- what `set_mates` (`set_downstream_mate` / `set_detached`) changes in a record: the two CRAM flag
bits — both clear in what `try_from_alignment_record` returns, so `insert` is an addition — and the
mate distance -/
def applyLinks (c : CRec) (l : Mates.Rec) : CRec :=
  { c with cramFlags := c.cramFlags + (if l.detached then 2 else 0) + (if l.downstream then 4 else 0),
           mateDistance := l.mateDist }

/-- `set_mates` on the writer's records (the walk itself is `Mates.setMates`) -/
def setMatesC (cs : List CRec) : List CRec := List.zipWith applyLinks cs (Mates.setMates (cs.map toM))

/-- `build_slice` up to the uncompressed streams: the slice's reference context, the linked records'
core data and external buffers. `records` is not empty (`assert!`: `getRefCtx`). -/
def encodeSlice (ch : CH) (refs : Refs) (m : Matrix) (rs : List SamRec) :
    Res (RefCtx × List Nat × (Int → Option (List Nat))) :=
  match toCramAll refs m rs with
  | .error e => .error e
  | .ok cs =>
    match getRefCtx cs with
    | .error e => .error e
    | .ok ctx =>
      match writeRecords ch ctx (setMatesC cs) with
      | .error e => .error e
      | .ok (core, ext) => .ok (ctx, core, ext)

/-! ## reader -/

/-- `SEQUENCE_IS_MISSING` -/
def seqMissing (c : CRec) : Bool := bitSet c.cramFlags 3

/-- `Record::has_reference_based_sequence` -/
def refBased (c : CRec) : Bool := !c.unmapped && !seqMissing c

/-- `validate_reference_bases` (0-based `r`) -/
def chkRef (ref : Option (List Nat)) (r len : Nat) : Res Unit :=
  if len = 0 then .ok () else
  match ref with
  | none => .error .invalidData
  | some s => if r + len ≤ s.length then .ok () else .error .invalidData

/-- the extra check of `validate` on a `Substitution`: its reference base exists -/
def chkSubst (ref : Option (List Nat)) (r : Nat) : Feature → Res Unit
  | .subst .. => chkRef ref r 1
  | _ => .ok ()

/-- `record/sequence/iter.rs::validate`: the reference stretches between features and the reference
base of every substitution are inside the reference; the features end inside the read -/
def validateSeqGo (ref : Option (List Nat)) (readLength : Nat) : (r q : Nat) → List Feature → Res Unit
  | r, q, [] => if readLength < q then .error .invalidData else chkRef ref r (readLength - q)
  | r, q, f :: fs =>
    match f.delta with
    | none => validateSeqGo ref readLength r q fs
    | some (dr, dq) =>
      let k := f.pos - (q + 1)
      match chkRef ref r k with
      | .error e => .error e
      | .ok () =>
        match chkSubst ref (r + k) f with
        | .error e => .error e
        | .ok () => validateSeqGo ref readLength (r + k + dr) (q + k + dq) fs

/-- the reference `Slice::records` attaches to a record with a reference based sequence: the slice's
(single-reference context, `get_slice_reference_sequence` with the preservation map's `RR` = true, which
is what the writer writes; a reference the repository lacks is `expect(..)`, a panic; none for the
unmapped context) or, in a multi-reference slice, the record's own (`get_record_reference_sequence`: no
reference id is `InvalidData`). The real code looks the slice's reference up, and checks its MD5, once
per slice even when no record needs it; the model per record that needs it. -/
def recordRef (refs : Refs) (ctx : RefCtx) (c : CRec) : Res (Option (List Nat)) :=
  match ctx with
  | .some id _ _ => match refs id with
    | some s => .ok (some s)
    | none => .error .panic
  | .none => .ok none
  | .many =>
    match c.refId with
    | none => .error .invalidData
    | some id => match refs id with
      | some s => .ok (some s)
      | none => .error .invalidData

/-- `Record::validate_sequence` (external reference: a missing alignment start is `InvalidData`) -/
def validateRec (ref : Option (List Nat)) (c : CRec) : Res Unit :=
  match ref with
  | some s =>
    match c.alignmentStart with
    | none => .error .invalidData
    | some st => validateSeqGo (some s) c.readLength (st - 1) 0 c.features
  | none => validateSeqGo none c.readLength 0 0 c.features

/-- the `for record in &mut records` loop of `Slice::records`: each record with a reference based
sequence gets its reference and is validated; the result is the reference per record -/
def attachRefs (refs : Refs) (ctx : RefCtx) : List CRec → Res (List (Option (List Nat)))
  | [] => .ok []
  | c :: cs =>
    if refBased c then
      match recordRef refs ctx c with
      | .error e => .error e
      | .ok ref =>
        match validateRec ref c with
        | .error e => .error e
        | .ok () =>
          match attachRefs refs ctx cs with
          | .error e => .error e
          | .ok l => .ok (ref :: l)
    else
      match attachRefs refs ctx cs with
      | .error e => .error e
      | .ok l => .ok (none :: l)

/-- `record.id.to_string().into_bytes()` -/
def idName (id : Nat) : List Nat := (toString id).toList.map Char.toNat

/-- the name part of the first `while let Some(mate_index) = mate_indices[j]` walk: every record of
the chain without a name takes its predecessor's -/
def nameWalk : (fuel : Nat) → List (Option (List Nat)) → List (Option Nat) → Nat → List (Option (List Nat))
  | 0, ns, _, _ => ns
  | fuel + 1, ns, mi, j =>
    match mi.getD j none with
    | none => ns
    | some k =>
      let nj := ns.getD j none
      nameWalk fuel (ns.modify k fun n => if n.isNone then nj else n) mi k

/-- names in `resolve_mates_with`: iteration `i` generates the missing name of record `i` (if asked
to), then walks the chain that starts at `i`; the second walk consumes the chain's links -/
def namesGo (gen : Bool) (counter : Nat) : (todo : List Nat) → List (Option (List Nat)) → List (Option Nat) →
    List (Option (List Nat))
  | [], ns, _ => ns
  | i :: rest, ns, mi =>
    let ns := if gen && (ns.getD i none).isNone then ns.set i (some (idName (counter + i))) else ns
    match mi.getD i none with
    | none => namesGo gen counter rest ns mi
    | some _ =>
      let ns' := nameWalk ns.length ns mi i
      namesGo gen counter rest ns' (Mates.walk2 ns.length [] mi i 0).2

/-- what `resolve_mates` changes in a record besides its name -/
def applyMate (c : CRec) (r : Mates.Rec) (name : Option (List Nat)) : CRec :=
  { c with bamFlags := r.flags, mateRefId := r.mrid, mateStart := r.mpos, templateLength := r.tlen, name := name }

/-- `mate_indices.iter().flatten().any(|&i| i >= records.len())`, per link -/
def linkOutside (n : Nat) : Option Nat → Bool
  | some k => decide (n ≤ k)
  | none => false

/-- `resolve_mates_with(records, generate_missing_names)`; a mate distance that points outside the
slice is `InvalidData` -/
def resolveMatesC (gen : Bool) (counter : Nat) (cs : List CRec) : Res (List CRec) :=
  let ms := cs.map toM
  let mi := Mates.mateIndices ms
  if mi.any (linkOutside cs.length) then .error .invalidData else
  let names := namesGo gen counter (List.range cs.length) (cs.map (·.name)) mi
  .ok (List.zipWith (fun (p : CRec × Mates.Rec) n => applyMate p.1 p.2 n) (cs.zip (Mates.resolveMates ms)) names)

/-- `record/quality_scores/iter.rs`: scores carried by features, `0` elsewhere; `p` is the 1-based
`read_position`. (After the last feature the iterator pads only while `read_position < read_length`
held when it ran out of features: a read whose last position alone is uncovered gets no padding.) -/
def qualGo (readLength : Nat) : (p : Nat) → List Feature → List Nat
  | p, [] => if p < readLength then List.replicate (readLength - p + 1) 0 else []
  | p, f :: fs =>
    let miss := List.replicate (f.pos - p) 0
    let p1 := max p f.pos
    match f with
    | .scores _ qs => miss ++ qs ++ qualGo readLength (p1 + qs.length) fs
    | .readBase _ _ q | .qualityScore _ q => miss ++ q :: qualGo readLength (p1 + 1) fs
    | _ => miss ++ qualGo readLength p1 fs

/-- the accessors of `impl sam::alignment::Record for cram::Record`; `ref` is the record's attached
`reference_sequence` -/
def toSam (m : Matrix) (ref : Option (List Nat)) (c : CRec) : SamRec :=
  { name := c.name, flags := c.bamFlags, rid := c.refId, pos := c.alignmentStart, mapq := c.mappingQuality,
    cigar := if c.unmapped then [] else rebuildCigar c.readLength c.features,
    mrid := c.mateRefId, mpos := c.mateStart, tlen := c.templateLength,
    seq := if refBased c then
        match ref, c.alignmentStart with
        | some s, some st => rebuildBases s st c.readLength c.features m
        | _, _ => rebuildBases [] 1 c.readLength c.features m
      else c.sequence,
    quals := if c.unmapped || c.qsArray then c.qualityScores else qualGo c.readLength 1 c.features,
    rg := c.readGroupId, tags := c.data }

/-- `Slice::records` followed by the accessors: `count`, `ctx` and `counter` are the slice header's
record count, reference context and record counter -/
def decodeSlice (ch : CH) (refs : Refs) (m : Matrix) (ctx : RefCtx) (count counter : Nat)
    (core : List Nat) (ext : Int → Option (List Nat)) : Res (List SamRec) :=
  match readRecords ch ctx count core ext with
  | .error e => .error e
  | .ok cs =>
    match attachRefs refs ctx cs with
    | .error e => .error e
    | .ok rfs =>
      match resolveMatesC (!ch.recordsHaveNames) counter cs with
      | .error e => .error e
      | .ok cs' => .ok (List.zipWith (fun c ref => toSam m ref c) cs' rfs)

end Noodles.Cram.Sam
