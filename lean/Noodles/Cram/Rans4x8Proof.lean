import Noodles.Cram.Rans4x8
import Noodles.Cram.NumProof
/-! Helper lemmas for `Noodles/Props/C08.lean`: rANS 4x8 order 0. -/
namespace Noodles.Cram.R4
open Noodles.Cram.Num

/-! ## A. one state: step and renormalisation -/

theorem encStep_mod (s f c : Nat) (hf : 0 < f) (hc : c + f ≤ 4096) :
    encStep s f c % 4096 = s % f + c := by
  unfold encStep
  have : s % f < f := Nat.mod_lt _ hf
  omega

theorem encStep_div (s f c : Nat) (hf : 0 < f) (hc : c + f ≤ 4096) :
    encStep s f c / 4096 = s / f := by
  unfold encStep
  have : s % f < f := Nat.mod_lt _ hf
  omega

theorem decStep_encStep (s f c : Nat) (hf : 0 < f) (hc : c + f ≤ 4096) :
    decStep (encStep s f c) f c = s := by
  unfold decStep
  rw [encStep_div s f c hf hc, encStep_mod s f c hf hc]
  have := Nat.div_add_mod s f
  omega

theorem renormDec_ge (bs : List Nat) (x : Nat) (h : L ≤ x) : renormDec bs x = .ok (x, bs) := by
  cases bs <;> simp [renormDec, h]

theorem renormDec_lt (b : Nat) (bs : List Nat) (x : Nat) (h : x < L) :
    renormDec (b :: bs) x = renormDec bs (x * 256 + b) := by
  have : ¬ (x ≥ L) := by omega
  simp [renormDec, this]

/-- below `L` the decoder keeps reading: it undoes whatever the encoder's loop emitted -/
theorem renormDec_renormEnc_lt (fuel s f : Nat) (rest : List Nat) (h : s < L) :
    renormDec ((renormEnc fuel s f).2.reverse ++ rest) (renormEnc fuel s f).1 = renormDec rest s := by
  induction fuel generalizing s rest with
  | zero => simp [renormEnc]
  | succ fuel ih =>
    unfold renormEnc
    split
    · simp only [List.reverse_cons, List.append_assoc, List.cons_append, List.nil_append]
      have h2 : s / 256 < L := by unfold L at *; omega
      rw [ih (s / 256) _ h2, renormDec_lt _ _ _ h2]
      congr 1
      omega
    · simp

/-- `rans_renorm_inverse`: for a state in `[L, 2^31)` the bytes emitted by the encoder's
renormalisation, read back in reverse order, restore the state exactly and leave the rest. -/
theorem renormDec_renormEnc (fuel s f : Nat) (rest : List Nat) (h1 : L ≤ s) (h2 : s < 2 ^ 31) :
    renormDec ((renormEnc fuel s f).2.reverse ++ rest) (renormEnc fuel s f).1 = .ok (s, rest) := by
  cases fuel with
  | zero => simpa [renormEnc] using renormDec_ge rest s h1
  | succ fuel =>
    unfold renormEnc
    split
    · simp only [List.reverse_cons, List.append_assoc, List.cons_append, List.nil_append]
      have h3 : s / 256 < L := by unfold L at *; omega
      rw [renormDec_renormEnc_lt fuel (s / 256) f _ h3, renormDec_lt _ _ _ h3]
      have : s / 256 * 256 + s % 256 = s := by omega
      rw [this]
      exact renormDec_ge rest s h1
    · simpa using renormDec_ge rest s h1

/-- the model's four rounds of fuel are never exhausted: on exit the loop condition is false -/
theorem renormEnc_done (s f : Nat) (hf : 0 < f) (hs : s < 2 ^ 32) :
    (renormEnc 4 s f).1 < 2 ^ 19 * f := by
  simp only [renormEnc]
  repeat' split
  all_goals omega

theorem renormEnc_lower (fuel s f : Nat) (h : 2 ^ 11 * f ≤ s) :
    2 ^ 11 * f ≤ (renormEnc fuel s f).1 := by
  induction fuel generalizing s with
  | zero => simpa [renormEnc]
  | succ fuel ih =>
    unfold renormEnc
    split
    · exact ih (s / 256) (by omega)
    · exact h

theorem renormEnc_bytes (fuel s f : Nat) : ∀ b ∈ (renormEnc fuel s f).2, b < 256 := by
  induction fuel generalizing s with
  | zero => simp [renormEnc]
  | succ fuel ih =>
    unfold renormEnc
    split
    · intro b hb
      simp only [List.mem_cons] at hb
      rcases hb with rfl | hb
      · omega
      · exact ih _ b hb
    · simp

/-- after renormalisation and a step the state is back in `[L, 2^31)` -/
theorem encStep_range (s f c : Nat) (hf : 0 < f) (hc : c + f ≤ 4096)
    (h1 : 2 ^ 11 * f ≤ s) (h2 : s < 2 ^ 19 * f) :
    L ≤ encStep s f c ∧ encStep s f c < 2 ^ 31 := by
  have hd := encStep_div s f c hf hc
  have hm := encStep_mod s f c hf hc
  have a1 : 2 ^ 11 ≤ s / f := (Nat.le_div_iff_mul_le hf).mpr h1
  have a2 : s / f < 2 ^ 19 := (Nat.div_lt_iff_lt_mul hf).mpr h2
  have : s % f < f := Nat.mod_lt _ hf
  unfold L
  omega

/-! ## B. cumulative table and symbol lookup -/

theorem cum_zero (F : List Nat) : cum F 0 = 0 := by simp [cum]

theorem cum_succ (F : List Nat) (s : Nat) : cum F (s + 1) = cum F s + getF F s := by
  unfold cum getF
  rw [List.take_add_one]
  cases h : F[s]? <;> simp [List.getD, h]

theorem cum_mono (F : List Nat) {s t : Nat} (h : s ≤ t) : cum F s ≤ cum F t := by
  induction t with
  | zero => have : s = 0 := by omega
            subst this; exact Nat.le_refl _
  | succ t ih =>
    by_cases hs : s = t + 1
    · subst hs; exact Nat.le_refl _
    · have := ih (by omega)
      rw [cum_succ]; omega

theorem cum_le_sum (F : List Nat) (s : Nat) : cum F s ≤ F.sum := by
  unfold cum
  calc (F.take s).sum ≤ (F.take s).sum + (F.drop s).sum := Nat.le_add_right _ _
    _ = (F.take s ++ F.drop s).sum := by rw [List.sum_append]
    _ = F.sum := by rw [List.take_append_drop]

theorem getF_cumL (F : List Nat) (s : Nat) (h : s < 256) : getF (cumL F) s = cum F s := by
  unfold getF cumL
  simp [List.getD, h]

theorem lookupL_spec (F : List Nat) (slot : Nat) (k s x : Nat) (h1 : s ≤ x) (h2 : x ≤ s + k)
    (h3 : ∀ t, s < t → t ≤ x → cum F t ≤ slot) (h4 : x < s + k → slot < cum F (x + 1)) :
    lookupL ((List.range' (s + 1) k).map (cum F)) slot s = x := by
  induction k generalizing s with
  | zero => simp [lookupL]; omega
  | succ k ih =>
    simp only [List.range'_succ, List.map_cons, lookupL]
    split
    · rename_i hge
      have hx : s + 1 ≤ x := by
        by_cases hxs : x = s
        · subst hxs
          have := h4 (by omega)
          omega
        · omega
      exact ih (s + 1) hx (by omega) (fun t a b => h3 t (by omega) b) (fun a => h4 (by omega))
    · rename_i hlt
      by_cases hxs : x = s
      · exact hxs.symm
      · have := h3 (s + 1) (by omega) (by omega)
        omega

/-- `RansGetSymbolFromFreq` finds the symbol whose slot interval contains `slot` -/
theorem lookup_cumL (F : List Nat) (x slot : Nat) (hx : x < 256)
    (h1 : cum F x ≤ slot) (h2 : slot < cum F (x + 1)) : lookup (cumL F) slot = x := by
  unfold lookup cumL
  have : (List.map (cum F) (List.range 256)).drop 1 = (List.range' (0 + 1) 255).map (cum F) := by
    rw [List.range_eq_range', show (256 : Nat) = 255 + 1 from rfl, List.range'_succ]
    simp
  rw [this]
  exact lookupL_spec F slot 255 0 x (by omega) (by omega)
    (fun t _ b => Nat.le_trans (cum_mono F b) h1) (fun _ => h2)

/-! ## C. the interleaved loops -/

/-- the four states are `u32` values in `[L, 2^31)` -/
def StOK (st : List Nat) : Prop :=
  st.length = 4 ∧ ∀ j, j < 4 → L ≤ st.getD j 0 ∧ st.getD j 0 < 2 ^ 31

/-- `x` is a symbol with a slot interval inside `[0, 4096)` -/
structure SymOK (F : List Nat) (x : Nat) : Prop where
  lt : x < 256
  pos : 0 < getF F x
  tot : cum F (x + 1) ≤ 4096

theorem initStates_ok : StOK initStates := by
  refine ⟨rfl, ?_⟩
  intro j hj
  have : j = 0 ∨ j = 1 ∨ j = 2 ∨ j = 3 := by omega
  rcases this with rfl | rfl | rfl | rfl <;> simp [initStates, L]

theorem getD_set_self (st : List Nat) (j v : Nat) (h : j < st.length) : (st.set j v).getD j 0 = v := by
  simp [List.getD_eq_getElem?_getD, h]

theorem getD_set_ne (st : List Nat) (j k v : Nat) (h : j ≠ k) :
    (st.set j v).getD k 0 = st.getD k 0 := by
  simp [List.getD_eq_getElem?_getD, h]

theorem set_getD_self (st : List Nat) (j : Nat) (h : j < st.length) : st.set j (st.getD j 0) = st := by
  simp [List.getD_eq_getElem?_getD, h]

/-- encoding one symbol, then decoding one symbol, is the identity on (states, stream) -/
theorem dec_one (F : List Nat) (st out rest acc : List Nat) (n i x : Nat)
    (hst : StOK st) (hx : SymOK F x) :
    StOK (st.set (i % 4) (encStep (renormEnc 4 (st.getD (i % 4) 0) (getF F x)).1 (getF F x)
      (getF (cumL F) x))) ∧
    decSyms F (cumL F) (n + 1) i
      (st.set (i % 4) (encStep (renormEnc 4 (st.getD (i % 4) 0) (getF F x)).1 (getF F x)
        (getF (cumL F) x)))
      (((renormEnc 4 (st.getD (i % 4) 0) (getF F x)).2.reverse ++ out) ++ rest) acc
      = decSyms F (cumL F) n (i + 1) st (out ++ rest) (x :: acc) := by
  obtain ⟨hlen, hrange⟩ := hst
  have hj : i % 4 < 4 := Nat.mod_lt _ (by decide)
  have hjl : i % 4 < st.length := by omega
  obtain ⟨hs1, hs2⟩ := hrange (i % 4) hj
  generalize hs : st.getD (i % 4) 0 = s at *
  generalize hf : getF F x = f at *
  have hfpos : 0 < f := hf ▸ hx.pos
  have hC : getF (cumL F) x = cum F x := getF_cumL F x hx.lt
  rw [hC]
  have hcf : cum F x + f ≤ 4096 := by
    have := cum_succ F x
    have := hx.tot
    omega
  have hf4 : f ≤ 4096 := by omega
  have hdone : (renormEnc 4 s f).1 < 2 ^ 19 * f := renormEnc_done s f hfpos (by omega)
  have hlow : 2 ^ 11 * f ≤ (renormEnc 4 s f).1 := renormEnc_lower 4 s f (by unfold L at hs1; omega)
  generalize hr : renormEnc 4 s f = r at *
  have hrange' := encStep_range r.1 f (cum F x) hfpos hcf hlow hdone
  refine ⟨⟨by simp [hlen], ?_⟩, ?_⟩
  · intro k hk
    by_cases hkj : i % 4 = k
    · subst hkj
      rw [getD_set_self _ _ _ hjl]
      exact hrange'
    · rw [getD_set_ne _ _ _ _ hkj]
      exact hrange k hk
  · rw [decSyms]
    rw [getD_set_self _ _ _ hjl]
    have hslot : encStep r.1 f (cum F x) % 4096 = r.1 % f + cum F x := encStep_mod _ _ _ hfpos hcf
    have hlook : lookup (cumL F) (encStep r.1 f (cum F x) % 4096) = x := by
      rw [hslot]
      apply lookup_cumL F x _ hx.lt (by omega)
      rw [cum_succ, hf]
      have : r.1 % f < f := Nat.mod_lt _ hfpos
      omega
    rw [hlook, hf, hC, decStep_encStep _ _ _ hfpos hcf, List.append_assoc]
    have := renormDec_renormEnc 4 s f (out ++ rest) hs1 hs2
    rw [hr] at this
    rw [this]
    simp only []
    rw [List.set_set, ← hs, set_getD_self _ _ hjl]

/-- The whole encoder loop against the whole decoder loop: whatever was already encoded behind the
prefix (`st`, `out`) decodes after it. -/
theorem encLoop_spec (F : List Nat) (rev : List Nat) :
    ∀ (i : Nat) (st out st_f out_f : List Nat), i = rev.length → StOK st → (∀ x ∈ rev, SymOK F x) →
      encLoop F (cumL F) rev i st out = .ok (st_f, out_f) →
      StOK st_f ∧ ∀ (n : Nat) (rest acc : List Nat),
        decSyms F (cumL F) (rev.length + n) 0 st_f (out_f ++ rest) acc
          = decSyms F (cumL F) n rev.length st (out ++ rest) (rev ++ acc) := by
  induction rev with
  | nil =>
    intro i st out st_f out_f _ hst _ h
    simp only [encLoop, Except.ok.injEq, Prod.mk.injEq] at h
    obtain ⟨rfl, rfl⟩ := h
    exact ⟨hst, fun n rest acc => by simp⟩
  | cons x rev ih =>
    intro i st out st_f out_f hi hst hsym h
    have hx : SymOK F x := hsym x (by simp)
    have hf : getF F x ≠ 0 := Nat.pos_iff_ne_zero.mp hx.pos
    simp only [encLoop, hf, ↓reduceIte] at h
    have hi' : i - 1 = rev.length := by simp at hi; omega
    rw [hi'] at h
    obtain ⟨hst', _⟩ := dec_one F st out [] [] 0 rev.length x hst hx
    obtain ⟨hstf, hall⟩ := ih rev.length _ _ st_f out_f rfl hst'
      (fun y hy => hsym y (List.mem_cons_of_mem _ hy)) h
    refine ⟨hstf, ?_⟩
    intro n rest acc
    have := hall (n + 1) rest acc
    rw [show (x :: rev).length + n = rev.length + (n + 1) by simp; omega, this]
    rw [(dec_one F st out rest (rev ++ acc) n rev.length x hst hx).2]
    simp

/-! ## E. frequency normalisation -/

theorem getF_nil (s : Nat) : getF [] s = 0 := by simp [getF]
theorem getF_cons_zero (a : Nat) (l : List Nat) : getF (a :: l) 0 = a := by simp [getF]
theorem getF_cons_succ (a : Nat) (l : List Nat) (s : Nat) : getF (a :: l) (s + 1) = getF l s := by
  simp [getF]

theorem getF_of_ge (l : List Nat) (s : Nat) (h : l.length ≤ s) : getF l s = 0 := by
  simp [getF, List.getD_eq_getElem?_getD, List.getElem?_eq_none h]

theorem getF_le_sum (l : List Nat) (s : Nat) : getF l s ≤ l.sum := by
  induction l generalizing s with
  | nil => simp [getF_nil]
  | cons a l ih =>
    cases s with
    | zero => simp [getF_cons_zero]
    | succ s => have := ih s; simp [getF_cons_succ]; omega

theorem getF_set_self (l : List Nat) (i v : Nat) (h : i < l.length) : getF (l.set i v) i = v :=
  getD_set_self l i v h

theorem getF_set_ne (l : List Nat) (i k v : Nat) (h : i ≠ k) : getF (l.set i v) k = getF l k :=
  getD_set_ne l i k v h

theorem sum_set (l : List Nat) (i v : Nat) (h : i < l.length) :
    (l.set i v).sum + getF l i = l.sum + v := by
  induction l generalizing i with
  | nil => simp at h
  | cons a l ih =>
    cases i with
    | zero => simp [getF_cons_zero]; omega
    | succ i =>
      have := ih i (by simpa using h)
      simp [getF_cons_succ]; omega

theorem getF_map (g : Nat → Nat) (hg : g 0 = 0) (l : List Nat) (s : Nat) :
    getF (l.map g) s = g (getF l s) := by
  induction l generalizing s with
  | nil => simp [getF_nil, hg]
  | cons a l ih =>
    cases s with
    | zero => simp [getF_cons_zero]
    | succ s => simp [getF_cons_succ, ih]

theorem sum_le_length (l : List Nat) (h : ∀ s, getF l s ≤ 1) : l.sum ≤ l.length := by
  induction l with
  | nil => simp
  | cons a l ih =>
    have h0 := h 0
    rw [getF_cons_zero] at h0
    have := ih (fun s => by have := h (s + 1); rwa [getF_cons_succ] at this)
    simp; omega

/-- invariant of the `describe_frequencies` scan -/
theorem argmaxLast_spec (pre fs : List Nat) (m mi : Nat)
    (h1 : ∀ t, t < pre.length → getF (pre ++ fs) t ≤ m)
    (h2 : pre.length = 0 → m = 0)
    (h3 : pre.length = 0 ∨ (mi < pre.length ∧ getF (pre ++ fs) mi = m))
    (hne : pre ++ fs ≠ []) :
    argmaxLast fs pre.length m mi < (pre ++ fs).length ∧
      ∀ t, getF (pre ++ fs) t ≤ getF (pre ++ fs) (argmaxLast fs pre.length m mi) := by
  induction fs generalizing pre m mi with
  | nil =>
    simp only [argmaxLast, List.append_nil] at *
    have hp : pre.length ≠ 0 := by
      intro h; exact hne (List.length_eq_zero_iff.mp h)
    rcases h3 with h3 | ⟨h3, h4⟩
    · exact absurd h3 hp
    · refine ⟨h3, fun t => ?_⟩
      by_cases ht : t < pre.length
      · rw [h4]; exact h1 t ht
      · rw [getF_of_ge pre t (by omega)]; exact Nat.zero_le _
  | cons f fs ih =>
    have hW : pre ++ f :: fs = (pre ++ [f]) ++ fs := by simp
    have hlen : (pre ++ [f]).length = pre.length + 1 := by simp
    have hf : getF (pre ++ f :: fs) pre.length = f := by
      simp [getF, List.getD_eq_getElem?_getD]
    unfold argmaxLast
    split
    · rename_i hge
      have := ih (pre ++ [f]) f pre.length
        (by
          intro t ht
          rw [← hW]
          by_cases htp : t < pre.length
          · exact Nat.le_trans (h1 t htp) hge
          · have : t = pre.length := by omega
            subst this; rw [hf]; exact Nat.le_refl _)
        (by intro h; omega)
        (Or.inr ⟨by omega, by rw [← hW]; exact hf⟩)
        (by simp)
      rw [hlen, ← hW] at this
      exact this
    · rename_i hlt
      have hp : pre.length ≠ 0 := by
        intro h; have := h2 h; omega
      rcases h3 with h3 | ⟨h3, h4⟩
      · exact absurd h3 hp
      · have := ih (pre ++ [f]) m mi
          (by
            intro t ht
            rw [← hW]
            by_cases htp : t < pre.length
            · exact h1 t htp
            · have : t = pre.length := by omega
              subst this; rw [hf]; omega)
          (by intro h; omega)
          (Or.inr ⟨by omega, by rw [← hW]; exact h4⟩)
          (by simp)
        rw [hlen, ← hW] at this
        exact this

theorem maxIndex_spec (l : List Nat) (hne : l ≠ []) :
    maxIndex l < l.length ∧ ∀ t, getF l t ≤ getF l (maxIndex l) := by
  have := argmaxLast_spec [] l 0 0 (by simp) (by simp) (Or.inl rfl) (by simpa using hne)
  simpa [maxIndex] using this

/-- what `normalize_frequencies` must deliver: same support as the raw counts, total `T` -/
structure NormalisedTo (T : Nat) (raw N : List Nat) : Prop where
  len : N.length = raw.length
  sum : N.sum = T
  pos : ∀ s, 0 < getF raw s → 0 < getF N s
  zero : ∀ s, getF raw s = 0 → getF N s = 0

abbrev Normalised (raw N : List Nat) : Prop := NormalisedTo 4095 raw N

theorem scale_pos (T sum f : Nat) (h : 0 < f) : 0 < scale T sum f := by
  unfold scale
  have : f ≠ 0 := by omega
  simp only [this, ↓reduceIte]
  omega

theorem scale_zero (T sum : Nat) : scale T sum 0 = 0 := by simp [scale]

theorem sum_eq_zero (l : List Nat) (h : ∀ s, getF l s = 0) : l.sum = 0 := by
  induction l with
  | nil => rfl
  | cons a l ih =>
    have h0 := h 0
    rw [getF_cons_zero] at h0
    have := ih (fun s => by have := h (s + 1); rwa [getF_cons_succ] at this)
    simp [h0, this]

/-- one round of "take 1 from the largest": the total drops by one, no entry reaches 0 -/
theorem decLargest_spec (l : List Nat) (h : l.length < l.sum) :
    (decLargest l).length = l.length ∧ (decLargest l).sum + 1 = l.sum ∧
    (∀ s, 0 < getF l s → 0 < getF (decLargest l) s) ∧
    (∀ s, getF l s = 0 → getF (decLargest l) s = 0) := by
  have hne : l ≠ [] := by
    intro h0; subst h0; simp at h
  obtain ⟨hi, hmax⟩ := maxIndex_spec l hne
  have h2 : 2 ≤ getF l (maxIndex l) := by
    apply Classical.byContradiction
    intro hc
    have : l.sum ≤ l.length := sum_le_length l (fun s => by have := hmax s; omega)
    omega
  unfold decLargest
  have hs := sum_set l (maxIndex l) (getF l (maxIndex l) - 1) hi
  refine ⟨by simp, by omega, ?_, ?_⟩
  · intro s hs
    by_cases e : maxIndex l = s
    · subst e; rw [getF_set_self _ _ _ hi]; omega
    · rw [getF_set_ne _ _ _ _ e]; exact hs
  · intro s hs
    by_cases e : maxIndex l = s
    · subst e; omega
    · rw [getF_set_ne _ _ _ _ e]; exact hs

theorem iter_decLargest_spec (T k : Nat) (l : List Nat) (hlen : l.length ≤ T)
    (hsum : l.sum = T + k) :
    (iter decLargest k l).length = l.length ∧ (iter decLargest k l).sum = T ∧
    (∀ s, 0 < getF l s → 0 < getF (iter decLargest k l) s) ∧
    (∀ s, getF l s = 0 → getF (iter decLargest k l) s = 0) := by
  induction k generalizing l with
  | zero => exact ⟨rfl, by simpa [iter] using hsum, fun _ h => h, fun _ h => h⟩
  | succ k ih =>
    obtain ⟨a, b, c, d⟩ := decLargest_spec l (by omega)
    obtain ⟨a', b', c', d'⟩ := ih (decLargest l) (by omega) (by omega)
    simp only [iter]
    exact ⟨by omega, b', fun s h => c' s (c s h), fun s h => d' s (d s h)⟩

/-- `freq_normalise_sum` for the fixed normalisation, any total `T ≥` the table length -/
theorem normalizeTo_spec (T : Nat) (raw : List Nat) (hlen : raw.length ≤ T) (hsum : raw.sum ≠ 0) :
    NormalisedTo T raw (normalizeTo T raw) := by
  have hne : raw ≠ [] := by
    intro h; subst h; simp at hsum
  obtain ⟨hmi, hmax⟩ := maxIndex_spec raw hne
  have hmpos : 0 < getF raw (maxIndex raw) := by
    apply Classical.byContradiction
    intro hc
    exact hsum (sum_eq_zero raw (fun s => by have := hmax s; omega))
  have hmap : ∀ s, getF (raw.map (scale T raw.sum)) s = scale T raw.sum (getF raw s) :=
    fun s => getF_map _ (scale_zero _ _) raw s
  unfold normalizeTo
  simp only [hsum, ↓reduceIte]
  split
  · rename_i hlt
    have hmi' : maxIndex raw < (raw.map (scale T raw.sum)).length := by simpa using hmi
    have hs := sum_set (raw.map (scale T raw.sum)) (maxIndex raw)
      (getF (raw.map (scale T raw.sum)) (maxIndex raw) + (T - (raw.map (scale T raw.sum)).sum)) hmi'
    refine ⟨by simp, by omega, ?_, ?_⟩
    · intro s hs
      by_cases e : maxIndex raw = s
      · subst e; rw [getF_set_self _ _ _ hmi', hmap]
        have := scale_pos T raw.sum _ hs; omega
      · rw [getF_set_ne _ _ _ _ e, hmap]; exact scale_pos _ _ _ hs
    · intro s hs
      by_cases e : maxIndex raw = s
      · subst e; omega
      · rw [getF_set_ne _ _ _ _ e, hmap, hs, scale_zero]
  · rename_i hge
    obtain ⟨a, b, c, d⟩ := iter_decLargest_spec T ((raw.map (scale T raw.sum)).sum - T)
      (raw.map (scale T raw.sum)) (by simpa using hlen) (by omega)
    refine ⟨by simpa using a, b, ?_, ?_⟩
    · intro s hs; exact c s (by rw [hmap]; exact scale_pos _ _ _ hs)
    · intro s hs; exact d s (by rw [hmap, hs, scale_zero])

theorem normalize_spec (raw : List Nat) (hlen : raw.length ≤ 4095) (hsum : raw.sum ≠ 0) :
    Normalised raw (normalize raw) := normalizeTo_spec 4095 raw hlen hsum

theorem normalizeTo_length (T : Nat) (raw : List Nat) (hraw : raw.length = 256) (hT : 256 ≤ T) :
    (normalizeTo T raw).length = 256 := by
  by_cases hs : raw.sum = 0
  · unfold normalizeTo
    simp only [hs, ↓reduceIte]
    exact List.length_replicate
  · rw [(normalizeTo_spec T raw (by omega) hs).len, hraw]

/-! ## D. the frequency table -/

/-- the table being filled by the reader: the part already read, zeros behind it -/
def part (pre : List Nat) (n : Nat) : List Nat := pre ++ List.replicate n 0

theorem part_set (pre : List Nat) (n f : Nat) :
    (part pre (n + 1)).set pre.length f = part (pre ++ [f]) n := by
  unfold part
  simp [List.replicate_succ]

theorem part_zero (pre : List Nat) (n : Nat) : part pre (n + 1) = part (pre ++ [0]) n := by
  unfold part
  simp [List.replicate_succ]

theorem readItf8_nat (f : Nat) (h : f < 2 ^ 31) (r : List Nat) :
    readItf8 (writeItf8 (f : Int) ++ r) = .ok ((f : Int), r) := by
  rw [readItf8_write, ofU_toU32 _ (by omega) (by omega)]

/-- number of non-zero entries -/
def nz : List Nat → Nat
  | [] => 0
  | f :: r => (if f = 0 then 0 else 1) + nz r

theorem nz_append (a b : List Nat) : nz (a ++ b) = nz a + nz b := by
  induction a with
  | nil => simp [nz]
  | cons x a ih => simp [nz, ih]; omega

theorem lead_le (l : List Nat) : lead l ≤ l.length := by
  induction l with
  | nil => simp [lead]
  | cons f l ih => simp only [lead]; split <;> simp <;> omega

theorem nz_take_lead (l : List Nat) : nz (l.take (lead l)) = lead l := by
  induction l with
  | nil => simp [lead, nz]
  | cons f l ih =>
    simp only [lead]
    split
    · simp [nz]
    · rename_i h
      simp [nz, h, ih]; omega

theorem nz_split (l : List Nat) : nz l = lead l + nz (l.drop (lead l)) := by
  conv => lhs; rw [← List.take_append_drop (lead l) l]
  rw [nz_append, nz_take_lead]

abbrev itf8s (run : List Nat) : List Nat := (run.map fun (g : Nat) => writeItf8 (g : Int)).flatten

/-- the reader over one run of consecutive symbols (a single symbol is a run of length 1) -/
theorem run_spec (run : List Nat) :
    ∀ (pre : List Nat) (n3 fuel : Nat) (more : List Nat), run ≠ [] → (∀ f ∈ run, f ≤ 65535) →
      pre.length + run.length ≤ 256 → run.length ≤ fuel →
      readFreqsLoop fuel (part pre (run.length + n3)) pre.length (run.length - 1) (itf8s run ++ more)
        = readNext (fun F s r bs => readFreqsLoop (fuel - run.length) F s r bs)
            (part (pre ++ run) n3) (pre.length + run.length - 1) more := by
  induction run with
  | nil => intro _ _ _ _ h; exact absurd rfl h
  | cons f run ih =>
    intro pre n3 fuel more _ hv hlen hfuel
    obtain ⟨fuel', rfl⟩ : ∃ k, fuel = k + 1 := ⟨fuel - 1, by simp at hfuel; omega⟩
    have hf : f ≤ 65535 := hv f (by simp)
    simp only [itf8s, List.map_cons, List.flatten_cons, List.append_assoc]
    rw [readFreqsLoop, readItf8_nat f (by omega)]
    have hc : ¬ ((f : Int) < 0 ∨ (f : Int) > 65535 ∨ pre.length ≥ 256) := by
      simp at hlen; omega
    simp only [hc, ↓reduceIte, Int.toNat_natCast]
    cases run with
    | nil =>
      simp only [List.length_cons, List.length_nil, Nat.zero_add, Nat.sub_self,
        Nat.lt_irrefl, ↓reduceIte, List.map_nil, List.flatten_nil, List.nil_append]
      rw [show 1 + n3 = n3 + 1 by omega, part_set]
      simp
    | cons g run =>
      have h1 : (f :: g :: run).length - 1 > 0 := by simp
      simp only [h1, ↓reduceIte]
      have := ih (pre ++ [f]) n3 fuel' more (by simp) (fun x hx => hv x (List.mem_cons_of_mem _ hx))
        (by simp at hlen ⊢; omega) (by simp at hfuel ⊢; omega)
      rw [show (f :: g :: run).length + n3 = ((g :: run).length + n3) + 1 by simp; omega, part_set]
      simp only [List.length_append, List.length_cons, List.length_nil, itf8s] at this ⊢
      rw [show run.length + 1 + 1 - 1 - 1 = run.length + 1 - 1 by omega]
      rw [this]
      simp only [List.append_assoc, List.cons_append, List.nil_append]
      rw [show fuel' + 1 - (run.length + 1 + 1) = fuel' - (run.length + 1) by omega,
        show pre.length + (run.length + 1 + 1) - 1 = pre.length + 1 + (run.length + 1) - 1 by omega]

open Noodles.Cram.Num

/-- The reader, resumed after a frequency with no run pending, against the writer's output for
the rest of the table. -/
theorem table_spec (n : Nat) :
    ∀ (T' pre : List Nat) (last fuel : Nat) (rest : List Nat), T'.length = n →
      (∀ f ∈ T', f ≤ 65535) → pre.length + T'.length = 256 → last < pre.length → nz T' ≤ fuel →
      readNext (fun F s r bs => readFreqsLoop fuel F s r bs) (part pre T'.length) last
        (writeFreqsGo pre.length T' (some last) ++ rest) = .ok (pre ++ T', rest) := by
  induction n using Nat.strongRecOn with
  | _ n ih =>
    intro T' pre last fuel rest hn hv hlen hlast hfuel
    cases T' with
    | nil =>
      simp [writeFreqsGo, readNext, part]
    | cons f T'' =>
      have ha : pre.length ≠ 0 := by omega
      rw [writeFreqsGo]
      split
      · -- frequency 0: the symbol is skipped
        rename_i hf0
        subst hf0
        have := ih T''.length (by simp at hn; omega) T'' (pre ++ [0]) last fuel rest rfl
          (fun x hx => hv x (List.mem_cons_of_mem _ hx)) (by simp at hlen ⊢; omega)
          (by simp; omega) (by simp [nz] at hfuel; omega)
        simp only [List.length_append, List.length_cons, List.length_nil, Nat.zero_add] at this
        rw [List.length_cons, part_zero, this]
        simp
      · rename_i hf0
        have hfv : f ≤ 65535 := hv f (by simp)
        have hml := lead_le T''
        have hnz := nz_split T''
        split
        · -- the symbol continues the previous one: a run
          rename_i hrun
          obtain ⟨_, hprev⟩ := hrun
          have hl : pre.length = last + 1 := by
            simp only [Option.some.injEq] at hprev; omega
          simp only [List.cons_append, List.nil_append, List.append_assoc, readNext]
          rw [if_neg ha, if_pos hl]
          have hr := run_spec (f :: T''.take (lead T'')) pre (T''.drop (lead T'')).length fuel
            (writeFreqsGo (pre.length + 1 + lead T'') (T''.drop (lead T'')) (some (pre.length + lead T''))
              ++ rest)
            (by simp)
            (by
              intro x hx
              simp only [List.mem_cons] at hx
              rcases hx with rfl | hx
              · exact hfv
              · exact hv x (List.mem_cons_of_mem _ (List.mem_of_mem_take hx)))
            (by simp at hlen ⊢; omega)
            (by simp [nz, hf0] at hfuel ⊢; omega)
          have e1 : (f :: T''.take (lead T'')).length = lead T'' + 1 := by
            simp; omega
          simp only [e1, List.length_drop, Nat.add_sub_cancel, itf8s, List.map_cons,
            List.flatten_cons, List.append_assoc] at hr
          rw [show lead T'' + 1 + (T''.length - lead T'') = (f :: T'').length by simp; omega] at hr
          rw [hr]
          have := ih (T''.drop (lead T'')).length (by simp at hn ⊢; omega) (T''.drop (lead T''))
            (pre ++ f :: T''.take (lead T'')) (pre.length + lead T'') (fuel - (lead T'' + 1)) rest rfl
            (fun x hx => hv x (List.mem_cons_of_mem _ (List.mem_of_mem_drop hx)))
            (by simp at hlen ⊢; omega) (by simp; omega)
            (by simp [nz, hf0] at hfuel; omega)
          simp only [List.length_append, List.length_cons, List.length_take, List.length_drop,
            Nat.min_eq_left hml] at this
          rw [show pre.length + (lead T'' + 1) - 1 = pre.length + lead T'' by omega,
            show pre.length + 1 + lead T'' = pre.length + (lead T'' + 1) by omega, this]
          simp
        · -- a symbol on its own
          rename_i hrun
          have hl : pre.length ≠ last + 1 := by
            intro h
            apply hrun
            exact ⟨by omega, by simp; omega⟩
          simp only [List.cons_append, List.nil_append, List.append_assoc, readNext]
          rw [if_neg ha, if_neg hl]
          have hr := run_spec [f] pre T''.length fuel
            (writeFreqsGo (pre.length + 1) T'' (some pre.length) ++ rest)
            (by simp) (by simpa using hfv) (by simp at hlen ⊢; omega)
            (by simp [nz, hf0] at hfuel ⊢; omega)
          simp only [List.length_cons, List.length_nil, Nat.zero_add, Nat.sub_self, itf8s,
            List.map_cons, List.map_nil, List.flatten_cons, List.flatten_nil, List.append_nil,
            Nat.add_sub_cancel] at hr
          rw [show (f :: T'').length = 1 + T''.length by simp; omega, hr]
          have := ih T''.length (by simp at hn; omega) T'' (pre ++ [f]) pre.length (fuel - 1) rest rfl
            (fun x hx => hv x (List.mem_cons_of_mem _ hx)) (by simp at hlen ⊢; omega)
            (by simp) (by simp [nz, hf0] at hfuel; omega)
          simp only [List.length_append, List.length_cons, List.length_nil, Nat.zero_add] at this
          rw [this]
          simp

open Noodles.Cram.Num

theorem nz_le_length (l : List Nat) : nz l ≤ l.length := by
  induction l with
  | nil => simp [nz]
  | cons f l ih => simp only [nz, List.length_cons]; split <;> omega

/-- the writer skips the symbols that do not occur, the reader starts at the first that does -/
theorem table_top (T' : List Nat) :
    ∀ (a : Nat) (rest : List Nat), (∀ f ∈ T', f ≤ 65535) → a + T'.length = 256 →
      (∃ f ∈ T', f ≠ 0) →
      readFreqs (writeFreqsGo a T' none ++ rest) = .ok (List.replicate a 0 ++ T', rest) := by
  induction T' with
  | nil => intro _ _ _ _ h; obtain ⟨f, hf, _⟩ := h; simp at hf
  | cons f T'' ih =>
    intro a rest hv hlen hex
    rw [writeFreqsGo]
    split
    · rename_i hf0
      subst hf0
      have := ih (a + 1) rest (fun x hx => hv x (List.mem_cons_of_mem _ hx))
        (by simp at hlen ⊢; omega)
        (by
          obtain ⟨g, hg, hg0⟩ := hex
          simp only [List.mem_cons] at hg
          rcases hg with rfl | hg
          · exact absurd rfl hg0
          · exact ⟨g, hg, hg0⟩)
      rw [this, List.replicate_succ']
      simp
    · rename_i hf0
      have hno : ¬ (a > 0 ∧ (none : Option Nat) = some (a - 1)) := by simp
      rw [if_neg hno]
      simp only [List.cons_append, List.nil_append, List.append_assoc, readFreqs]
      have hfv : f ≤ 65535 := hv f (by simp)
      have hpre : (List.replicate a 0).length = a := by simp
      have hzero : List.replicate 256 0 = part (List.replicate a 0) (1 + T''.length) := by
        unfold part
        rw [List.replicate_append_replicate]
        congr 1
        simp at hlen; omega
      have hr := run_spec [f] (List.replicate a 0) T''.length
        ((writeItf8 (f : Int) ++ (writeFreqsGo (a + 1) T'' (some a) ++ rest)).length + 257)
        (writeFreqsGo (a + 1) T'' (some a) ++ rest)
        (by simp) (by simpa using hfv) (by simp at hlen ⊢; omega) (by simp)
      simp only [List.length_cons, List.length_nil, Nat.zero_add, Nat.sub_self, itf8s,
        List.map_cons, List.map_nil, List.flatten_cons, List.flatten_nil, List.append_nil,
        Nat.add_sub_cancel, hpre] at hr
      rw [hzero, hr]
      have := table_spec T''.length T'' (List.replicate a 0 ++ [f]) a
        ((writeItf8 (f : Int) ++ (writeFreqsGo (a + 1) T'' (some a) ++ rest)).length + 257 - 1) rest rfl
        (fun x hx => hv x (List.mem_cons_of_mem _ hx)) (by simp at hlen ⊢; omega) (by simp)
        (by have := nz_le_length T''; simp at hlen; omega)
      simp only [List.length_append, List.length_replicate, List.length_cons, List.length_nil,
        Nat.zero_add] at this
      simp only [List.length_append] 
      rw [this]
      simp

/-- `freq_table_roundtrip`: a table with 256 entries that fit `u16`, not all zero, is read back
exactly, and the reader stops at the end of the table. -/
theorem readFreqs_writeFreqs (T rest : List Nat) (hlen : T.length = 256) (hv : ∀ f ∈ T, f ≤ 65535)
    (hex : ∃ f ∈ T, f ≠ 0) : readFreqs (writeFreqs T ++ rest) = .ok (T, rest) := by
  have := table_top T 0 rest hv (by omega) hex
  simpa [writeFreqs] using this

theorem hist_length (src : List Nat) : (hist src).length = 256 := by simp [hist]

theorem getF_hist (src : List Nat) (s : Nat) (h : s < 256) : getF (hist src) s = src.count s := by
  simp [getF, hist, List.getD_eq_getElem?_getD, h]

theorem hist_pos (src : List Nat) (x : Nat) (hx : x ∈ src) (h : x < 256) : 0 < getF (hist src) x := by
  rw [getF_hist src x h]
  exact List.count_pos_iff.mpr hx

theorem hist_sum_ne (src : List Nat) (x : Nat) (hx : x ∈ src) (h : x < 256) : (hist src).sum ≠ 0 := by
  have := getF_le_sum (hist src) x
  have := hist_pos src x hx h
  omega

/-- every symbol of the input gets a non-empty slot interval inside `[0, 4095)` -/
theorem symOK_of_mem (src : List Nat) (hsym : ∀ x ∈ src, x < 256) (x : Nat) (hx : x ∈ src) :
    SymOK (normalize (hist src)) x := by
  have hn := normalize_spec (hist src) (by rw [hist_length]; decide) (hist_sum_ne src x hx (hsym x hx))
  refine ⟨hsym x hx, hn.pos x (hist_pos src x hx (hsym x hx)), ?_⟩
  have := cum_le_sum (normalize (hist src)) (x + 1)
  have := hn.sum
  omega

open Noodles.Cram.Num

/-! ## F. the whole stream -/

theorem readU32le_le4 (n : Nat) (h : n < 2 ^ 32) (r : List Nat) :
    readU32le (le4 n ++ r) = .ok (n, r) := by
  simp only [le4, List.cons_append, List.nil_append, readU32le]
  congr 2
  omega

theorem mem_le_sum (l : List Nat) (f : Nat) (h : f ∈ l) : f ≤ l.sum := by
  induction l with
  | nil => simp at h
  | cons a l ih =>
    simp only [List.mem_cons] at h
    rcases h with rfl | h
    · simp
    · have := ih h; simp; omega

theorem getF_mem (l : List Nat) (s : Nat) (h : s < l.length) : getF l s ∈ l := by
  simp [getF, List.getD_eq_getElem?_getD, h]

/-- Order-0 round trip: whatever `encode` returns, the specification decoder turns back into the
input. -/
theorem decode_encode0 (src bs : List Nat) (hsym : ∀ x ∈ src, x < 256)
    (h : encode0 src = .ok bs) : decode bs = .ok src := by
  unfold encode0 at h
  simp only [] at h
  split at h
  · exact absurd h (by simp)
  · rename_i st out henc
    split at h
    · exact absurd h (by simp)
    · rename_i hsize
      simp only [Except.ok.injEq] at h
      subst h
      have hb : (writeFreqs (normalize (hist src)) ++ (st.map le4).flatten ++ out).length < 2 ^ 32 := by
        omega
      have hn : src.length < 2 ^ 32 := by omega
      rw [List.append_assoc] at hb
      simp only [decode, List.cons_append, List.append_assoc]
      rw [if_neg (by omega), readU32le_le4 _ hb]
      simp only []
      rw [readU32le_le4 _ hn]
      simp only []
      cases src with
      | nil => simp
      | cons x0 src' =>
        generalize hs : x0 :: src' = src at *
        have hx0 : x0 ∈ src := by rw [← hs]; simp
        have hne : src.length ≠ 0 := by rw [← hs]; simp
        rw [if_neg hne, if_neg (by decide)]
        have hnorm := normalize_spec (hist src) (by rw [hist_length]; decide)
          (hist_sum_ne src x0 hx0 (hsym x0 hx0))
        generalize hF : normalize (hist src) = F at *
        have hFlen : F.length = 256 := by rw [hnorm.len, hist_length]
        have hFv : ∀ f ∈ F, f ≤ 65535 := fun f hf => by
          have := mem_le_sum F f hf
          have := hnorm.sum
          omega
        have hFex : ∃ f ∈ F, f ≠ 0 := by
          have hp := hnorm.pos x0 (hist_pos src x0 hx0 (hsym x0 hx0))
          exact ⟨getF F x0, getF_mem F x0 (by rw [hFlen]; exact hsym x0 hx0), by omega⟩
        rw [readFreqs_writeFreqs F _ hFlen hFv hFex]
        simp only []
        have hspec := encLoop_spec F src.reverse src.length initStates [] st out (by simp)
          initStates_ok
          (fun x hx => by
            have := symOK_of_mem src hsym x (List.mem_reverse.mp hx)
            rwa [hF] at this)
          henc
        obtain ⟨⟨hstlen, hstr⟩, hdec⟩ := hspec
        match st, hstlen with
        | [a, b, c, d], _ =>
          have ha := (hstr 0 (by decide)).2
          have hb := (hstr 1 (by decide)).2
          have hc := (hstr 2 (by decide)).2
          have hd := (hstr 3 (by decide)).2
          simp only [List.getD_cons_zero, List.getD_cons_succ] at ha hb hc hd
          simp only [List.map_cons, List.map_nil, List.flatten_cons, List.flatten_nil,
            List.append_nil, List.append_assoc]
          rw [readU32le_le4 a (by omega)]
          simp only []
          rw [readU32le_le4 b (by omega)]
          simp only []
          rw [readU32le_le4 c (by omega)]
          simp only []
          rw [readU32le_le4 d (by omega)]
          simp only []
          have := hdec 0 [] []
          simp only [List.length_reverse, Nat.add_zero, List.append_nil, decSyms,
            List.reverse_reverse] at this
          rw [this]

open Noodles.Cram.Num

/-! ## G. the encoder always answers -/

theorem renormEnc_length (fuel s f : Nat) : (renormEnc fuel s f).2.length ≤ fuel := by
  induction fuel generalizing s with
  | zero => simp [renormEnc]
  | succ fuel ih =>
    unfold renormEnc
    split
    · have := ih (s / 256); simp; omega
    · simp

/-- with a positive frequency for every symbol the loop runs to the end (no `zeroFreq`), and it
emits at most 4 bytes per symbol -/
theorem encLoop_ok (F C : List Nat) (rev : List Nat) :
    ∀ (i : Nat) (st out : List Nat), (∀ x ∈ rev, getF F x ≠ 0) →
      ∃ st' out', encLoop F C rev i st out = .ok (st', out') ∧
        out'.length ≤ out.length + 4 * rev.length := by
  induction rev with
  | nil => intro i st out _; exact ⟨st, out, rfl, by simp⟩
  | cons x rev ih =>
    intro i st out h
    have hx : getF F x ≠ 0 := h x (by simp)
    simp only [encLoop, hx, ↓reduceIte]
    obtain ⟨st', out', h1, h2⟩ := ih (i - 1)
      (st.set ((i - 1) % 4) (encStep (renormEnc 4 (st.getD ((i - 1) % 4) 0) (getF F x)).1 (getF F x)
        (getF C x)))
      ((renormEnc 4 (st.getD ((i - 1) % 4) 0) (getF F x)).2.reverse ++ out)
      (fun y hy => h y (List.mem_cons_of_mem _ hy))
    refine ⟨st', out', h1, ?_⟩
    have := renormEnc_length 4 (st.getD ((i - 1) % 4) 0) (getF F x)
    simp only [List.length_append, List.length_reverse, List.length_cons] at h2 ⊢
    omega

theorem itf8s_length (l : List Nat) : (itf8s l).length ≤ 5 * l.length := by
  induction l with
  | nil => simp [itf8s]
  | cons f l ih =>
    have := (writeItf8_bytes (f : Int)).1
    simp only [itf8s, List.map_cons, List.flatten_cons, List.length_append, List.length_cons] at ih ⊢
    omega

/-- the serialised table has at most 7 bytes per symbol -/
theorem writeFreqsGo_length (n : Nat) :
    ∀ (T' : List Nat) (a : Nat) (prev : Option Nat), T'.length = n →
      (writeFreqsGo a T' prev).length ≤ 7 * T'.length + 1 := by
  induction n using Nat.strongRecOn with
  | _ n ih =>
    intro T' a prev hn
    cases T' with
    | nil => simp [writeFreqsGo]
    | cons f T'' =>
      rw [writeFreqsGo]
      have hf := (writeItf8_bytes (f : Int)).1
      split
      · have := ih T''.length (by simp at hn; omega) T'' (a + 1) prev rfl
        simp only [List.length_cons]; omega
      · split
        · have hml := lead_le T''
          have h1 := ih (T''.drop (lead T'')).length (by simp at hn ⊢; omega) (T''.drop (lead T''))
            (a + 1 + lead T'') (some (a + lead T'')) rfl
          have h2 := itf8s_length (T''.take (lead T''))
          simp only [List.length_drop, List.length_take, Nat.min_eq_left hml, itf8s] at h1 h2
          simp only [List.length_append, List.length_cons, List.length_nil]
          omega
        · have := ih T''.length (by simp at hn; omega) T'' (a + 1) (some a) rfl
          simp only [List.length_append, List.length_cons, List.length_nil]
          omega

/-- `rans_4x8::encode(Order::Zero, _)` answers for every input: it never divides by or waits on a
zero frequency, and it refuses only what does not fit the 32-bit size fields. -/
theorem encode0_ok (src : List Nat) (hsym : ∀ x ∈ src, x < 256) (hlen : src.length < 2 ^ 29) :
    ∃ bs, encode0 src = .ok bs := by
  unfold encode0
  simp only []
  obtain ⟨st, out, h1, h2⟩ := encLoop_ok (normalize (hist src)) (cumL (normalize (hist src)))
    src.reverse src.length initStates []
    (fun x hx => by
      have := (symOK_of_mem src hsym x (List.mem_reverse.mp hx)).pos
      omega)
  rw [h1]
  simp only []
  have hst : st.length = 4 := by
    have := encLoop_spec (normalize (hist src)) src.reverse src.length initStates [] st out (by simp)
      initStates_ok (fun x hx => symOK_of_mem src hsym x (List.mem_reverse.mp hx)) h1
    exact this.1.1
  have hT : (writeFreqs (normalize (hist src))).length ≤ 7 * (normalize (hist src)).length + 1 :=
    writeFreqsGo_length _ _ 0 none rfl
  have hN : (normalize (hist src)).length = 256 :=
    normalizeTo_length 4095 (hist src) (hist_length src) (by decide)
  have hS : ((st.map le4).flatten).length = 16 := by
    match st, hst with
    | [a, b, c, d], _ => simp [le4]
  rw [if_neg]
  · exact ⟨_, rfl⟩
  · simp only [List.length_append, List.length_reverse, List.length_nil] at h2 ⊢
    omega

end Noodles.Cram.R4
