import Noodles.Cram.Num
import Noodles.Cram.Nx16
import Noodles.Cram.Aac
/-!
# The fqzcomp quality codec (`noodles-cram/src/codecs/fqzcomp`)

Everything here is **transcribed from noodles** — encoder AND decoder:

* `parameters.rs` (`read_array`, `fqz_decode_params`), `parameters/parameter.rs`
  (`fqz_decode_single_param`), `parameters/flags.rs`, `parameters/parameter/flags.rs`
                     → `readArray`, `readParam`, `readParams`, `Param`, `Params`;
* `models.rs`        → `Models.new` (ONE array: the 65536 quality models, then the four length
                       models, `rev`, `dup`, and the selector model when there is one);
* `decode.rs`        → `decode` (`fqz_new_record`, `validate_record`, `copy_record`,
                       `fqz_update_context`, `read_length`, `reverse_qualities`) — EVERY feature
                       of the format: parameter selectors and the selector table, several
                       parameter sets, fixed-length records, duplicates, reversed records, quality
                       maps, the q / p / d tables;
* `encode.rs`        → `encode` (`build_parameters`, `fqz_encode_params`,
                       `fqz_encode_single_param`, `write_array`, `encode_length`, the main loop,
                       the record-layout validation of the `fix:` commit c3b9b4a). The main loop
                       and the parameter writer are transcribed GENERICALLY over the encoder's
                       `Parameters` value, with every `todo!()` of the Rust as the outcome
                       `EncErr.todo`; `build_parameters` only ever builds one fixed simple
                       parameter set (see `buildParameters`), so none of them is reached.

The adaptive `Model` and the `RangeCoder` are `Noodles/Cram/Aac.lean`'s (`Aac.Model`, `Aac.Enc`,
`Aac.Dec`): fqzcomp is one `Model::encode` / `Model::decode` per event, the model chosen by a
context computed from the history. The models live in an `Array` (in-place update in the compiled
driver); `encAt` / `decAt` are `models.…[i].encode(…)` / `.decode(…)`.

Bytes and symbols are natural numbers `< 256`; `u32` / `u16` / `u8` arithmetic is written out
(`% 2^32` where Rust wraps or drops bits, the outcome `trap` where the overflow-checking profile
panics). Allocation failure (`alloc_zeroed`) is not modelled.

The model describes the tree WITH the commits `fix: cram fqzcomp encoder panicked on an empty
record list, a zero-length record or lengths that do not add up to the input` (c3b9b4a) and `fix:
cram fqzcomp decoder panicked on corrupt parameter tables, selectors and record lengths` (a70dc96).
-/
namespace Noodles.Cram.Fqz
open Noodles.Cram.Num Noodles.Cram.Aac

/-- what the ENCODER can answer besides bytes -/
inductive EncErr
  /-- `io::ErrorKind::InvalidInput`: the record layout is invalid, or a size does not fit `u32` -/
  | invalidInput
  /-- `io::ErrorKind::InvalidData`: more than 255 parameter sets (`fqz_encode_params`) -/
  | invalidData
  /-- one of the `todo!()` of `encode.rs`: `have_s_tab`, `do_dedup`, `have_dtab`, `do_sel`,
      `have_qmap`, `have_qtab` — a panic. Dead for the parameters `build_parameters` builds. -/
  | todo
  /-- an index / arithmetic-overflow / shift-overflow panic. Dead (same reason). -/
  | trap
  /-- `write_array` on a table that is not nondecreasing: the Rust loop never terminates -/
  | hang
  deriving Repr, DecidableEq

/-- bit `k` of a flag byte -/
def bit (b k : Nat) : Bool := b / 2 ^ k % 2 = 1

/-! ## the run-length coded tables: `write_array` (`encode.rs`) -/

/-- `loop { let rle = len.min(255); rle1.push(rle); len -= rle; if rle != 255 { break } }` — the
parts of one run length; a run of exactly `255 k` elements ends with a part 0. `fuel` >
`len / 255`. -/
def lenParts : Nat → Nat → List Nat
  | 0, _ => []
  | fuel + 1, len => if len < 255 then [len] else 255 :: lenParts fuel (len - 255)

/-- the first loop of `write_array`: for `i = 0, 1, 2, …` while data is left, the parts of the
number of leading elements equal to `i`. A table with an element below the current `i` is never
used up: the Rust loop does not terminate (`none`; for a byte table 257 rounds decide). -/
def rle1 : Nat → Nat → List Nat → Option (List Nat)
  | _, _, [] => some []
  | 0, _, _ :: _ => none
  | fuel + 1, i, a :: rest =>
    let k := Nx.runOf i (a :: rest)
    match rle1 fuel (i + 1) ((a :: rest).drop k) with
    | none => none
    | some r => some (lenParts (k / 255 + 1) k ++ r)

/-- the second loop of `write_array` (`last` starts as −1 = `none`): a part equal to the last
"new" part is followed by the number (at most 255) of further copies -/
def rle2 : Nat → Option Nat → List Nat → List Nat
  | 0, _, _ => []
  | _ + 1, _, [] => []
  | fuel + 1, last, c :: r =>
    if last = some c then
      c :: min (Nx.runOf c r) 255 :: rle2 fuel last (r.drop (min (Nx.runOf c r) 255))
    else c :: rle2 fuel (some c) r

/-- `write_array(writer, data)` -/
def writeArray (data : List Nat) : Except EncErr (List Nat) :=
  match rle1 257 0 data with
  | none => .error .hang
  | some r => .ok (rle2 r.length none r)

/-! ## the run-length coded tables: `read_array` (`parameters.rs`) -/

/-- the first loop of `read_array` (`last` starts as **0**, not −1 as in `write_array`): read parts
until they cover `n` elements (`z` so far); `cnt` is `runs.len()`, more than `maxParts` parts are
`InvalidData` → (the parts read from here on, the rest of the input) -/
def readRuns (n maxParts : Nat) : Nat → Nat → Nat → List Nat → Except DecErr (List Nat × List Nat)
  | z, last, cnt, src =>
    if n ≤ z then .ok ([], src)
    else
      match src with
      | [] => .error .eof
      | run :: src1 =>
        if run = last then
          match src1 with
          | [] => .error .eof
          | copy :: src2 =>
            if cnt + 1 + copy > maxParts then .error .invalidData
            else
              match readRuns n maxParts (z + run + run * copy) run (cnt + 1 + copy) src2 with
              | .error e => .error e
              | .ok (runs, rest) => .ok (run :: (List.replicate copy run ++ runs), rest)
        else
          if cnt + 1 > maxParts then .error .invalidData
          else
            match readRuns n maxParts (z + run) run (cnt + 1) src1 with
            | .error e => .error e
            | .ok (runs, rest) => .ok (run :: runs, rest)

/-- `loop { let part = parts.next()?; run_len += part; if part != 255 { break } }` -/
def takeRun : List Nat → Nat → Option (Nat × List Nat)
  | [], _ => none
  | p :: ps, acc => if p = 255 then takeRun ps (acc + p) else some (acc + p, ps)

/-- the second loop of `read_array`: while `rem = n - a.len()` elements are missing, value `v`
(`fuel = 256 - v` values are left; none left is `InvalidData`) gets the next run (no parts left is
`InvalidData`), clamped to the size of the array → the elements from here on -/
def expand : Nat → Nat → List Nat → Nat → Except DecErr (List Nat)
  | _, _, _, 0 => .ok []
  | 0, _, _, _ + 1 => .error .invalidData
  | fuel + 1, v, parts, rem + 1 =>
    match takeRun parts 0 with
    | none => .error .invalidData
    | some (len, parts') =>
      match expand fuel (v + 1) parts' (rem + 1 - min len (rem + 1)) with
      | .error e => .error e
      | .ok t => .ok (List.replicate (min len (rem + 1)) v ++ t)

/-- `read_array(src, n)` → (the array, the rest of the input) -/
def readArray (n : Nat) (src : List Nat) : Except DecErr (List Nat × List Nat) :=
  match readRuns n (256 + n / 255 + 1) 0 0 0 src with
  | .error e => .error e
  | .ok (runs, rest) =>
    match expand 256 0 runs n with
    | .error e => .error e
    | .ok a => .ok (a, rest)

/-! ## parameters, decoder side (`parameters.rs`, `parameters/parameter.rs`) -/

/-- `parameter::Parameter`. All eight bits of the flag byte are defined (`from_bits_truncate` keeps
them): RESERVED 1, DO_DEDUP 2, DO_LEN 4, DO_SEL 8, HAVE_QMAP 16, HAVE_PTAB 32, HAVE_DTAB 64,
HAVE_QTAB 128. -/
structure Param where
  context : Nat
  flags : Nat
  maxSym : Nat
  qbits : Nat
  qshift : Nat
  qloc : Nat
  sloc : Nat
  ploc : Nat
  dloc : Nat
  qmap : Option (Array Nat)
  qtab : Array Nat
  ptab : Option (Array Nat)
  dtab : Option (Array Nat)
  deriving Repr, DecidableEq

def Param.hasDup (p : Param) : Bool := bit p.flags 1
def Param.fixedLen (p : Param) : Bool := bit p.flags 2
def Param.hasSel (p : Param) : Bool := bit p.flags 3

/-- `Parameters`; of the global flag byte only MULTI_PARAM 1, HAVE_S_TAB 2, DO_REV 4 are defined
(`from_bits_truncate` drops the rest) -/
structure Params where
  gflags : Nat
  stab : Option (Array Nat)
  params : List Param
  maxSymbolCount : Nat
  selectorCount : Option Nat
  deriving Repr, DecidableEq

def Params.doRev (P : Params) : Bool := bit P.gflags 2

/-- `split_at_checked(len)` -/
def takeN (k : Nat) (bs : List Nat) : Except DecErr (List Nat × List Nat) :=
  if k ≤ bs.length then .ok (bs.take k, bs.drop k) else .error .eof

/-- an optional table (held in an `Array`: the decoder indexes it once per quality) -/
def readTable (present : Bool) (n : Nat) (bs : List Nat) : Except DecErr (Option (Array Nat) × List Nat) :=
  if present then
    match readArray n bs with
    | .error e => .error e
    | .ok (a, r) => .ok (some a.toArray, r)
  else .ok (none, bs)

/-- `fqz_decode_single_param`: context (`u16` LE), flags, max symbol, three nibble pairs, then —
in this order — quality map (`max_symbol` bytes), q table (256, default: identity), p table (1024),
d table (256) -/
def readParam : List Nat → Except DecErr (Param × List Nat)
  | c0 :: c1 :: fl :: ms :: b1 :: b2 :: b3 :: r =>
    match (if bit fl 4 then
        match takeN ms r with
        | .error e => .error e
        | .ok (m, r) => .ok (some m.toArray, r)
      else .ok (none, r) : Except DecErr (Option (Array Nat) × List Nat)) with
    | .error e => .error e
    | .ok (qmap, r) =>
      match (if bit fl 7 then readArray 256 r else .ok (List.range 256, r)) with
      | .error e => .error e
      | .ok (qtabL, r) =>
        match readTable (bit fl 5) 1024 r with
        | .error e => .error e
        | .ok (ptab, r) =>
          match readTable (bit fl 6) 256 r with
          | .error e => .error e
          | .ok (dtab, r) =>
            .ok (⟨c0 + 256 * c1, fl, ms, b1 / 16, b1 % 16, b2 / 16, b2 % 16, b3 / 16, b3 % 16,
              qmap, qtabL.toArray, ptab, dtab⟩, r)
  | _ => .error .eof

/-- `(0..parameter_count).map(|_| fqz_decode_single_param(src)).collect()` -/
def readParamN : Nat → List Nat → Except DecErr (List Param × List Nat)
  | 0, bs => .ok ([], bs)
  | k + 1, bs =>
    match readParam bs with
    | .error e => .error e
    | .ok (p, bs) =>
      match readParamN k bs with
      | .error e => .error e
      | .ok (ps, bs) => .ok (p :: ps, bs)

/-- `fqz_decode_params`: version (must be 5), global flags, parameter count (MULTI_PARAM; 0 is
`InvalidData`; the selector count is the count + 1), max selector and selector table (HAVE_S_TAB;
0 is `InvalidData`; the selector count becomes max selector + 1), the parameter sets -/
def readParams : List Nat → Except DecErr (Params × List Nat)
  | [] => .error .eof
  | v :: bs =>
    if v ≠ 5 then .error .invalidData
    else
      match bs with
      | [] => .error .eof
      | gf :: bs =>
        match (if bit gf 0 then
            match bs with
            | [] => .error .eof
            | n :: bs => if n = 0 then .error .invalidData else .ok (n, some (n + 1), bs)
          else .ok (1, none, bs) : Except DecErr (Nat × Option Nat × List Nat)) with
        | .error e => .error e
        | .ok (count, selc, bs) =>
          match (if bit gf 1 then
              match bs with
              | [] => .error .eof
              | m :: bs =>
                if m = 0 then .error .invalidData
                else
                  match readArray 256 bs with
                  | .error e => .error e
                  | .ok (t, bs) => .ok (some (m + 1), some t.toArray, bs)
            else .ok (selc, none, bs) : Except DecErr (Option Nat × Option (Array Nat) × List Nat)) with
          | .error e => .error e
          | .ok (selc, stab, bs) =>
            match readParamN count bs with
            | .error e => .error e
            | .ok (ps, bs) =>
              .ok (⟨gf % 8, stab, ps, (ps.map fun p => p.maxSym + 1).foldl max 0, selc⟩, bs)

/-! ## the models (`models.rs`) -/

/-- index of the first length model -/
def LEN : Nat := 65536
/-- index of `models.rev` -/
def REV : Nat := 65540
/-- index of `models.dup` -/
def DUP : Nat := 65541
/-- index of `models.sel` -/
def SEL : Nat := 65542

/-- `Models::new(max_symbol_count, selector_count)` as ONE array: `qual` (65536 models), `len`
(4 models of 256 symbols), `rev`, `dup` (2 symbols), `sel` (when there is a selector count) -/
def Models.new (nsym : Nat) (sel : Option Nat) : Array Model :=
  Array.replicate 65536 (Model.new nsym) ++ Array.replicate 4 (Model.new 256)
    ++ #[Model.new 2, Model.new 2] ++ (sel.toList.map Model.new).toArray

/-- `models.…[c].encode(dst, range_coder, s)`; `none` = an index panic -/
def encAt (ms : Array Model) (e : Enc) (c s : Nat) : Option (Array Model × Enc) :=
  match ms[c]? with
  | none => none
  | some m =>
    match m.encode e s with
    | none => none
    | some (m', e') => some (ms.setIfInBounds c m', e')

/-- `models.…[c].decode(src, range_coder)` -/
def decAt (ms : Array Model) (d : Dec) (c : Nat) : Except DecErr (Nat × Array Model × Dec) :=
  match ms[c]? with
  | none => .error .trap
  | some m =>
    match m.decode d with
    | .error e => .error e
    | .ok (s, m', d') => .ok (s, ms.setIfInBounds c m', d')

/-! ## the decoder (`decode.rs`) -/

/-- `Record` -/
structure Rec where
  recNo : Nat
  selector : Nat
  len : Nat
  pos : Nat
  isDup : Bool
  qctx : Nat
  delta : Nat
  prevQ : Nat
  deriving Repr, DecidableEq

/-- `Record::default()` -/
def Rec.init : Rec := ⟨0, 0, 0, 0, false, 0, 0, 0⟩

/-- `fqz_update_context(param, q, record)` → (the next context, the record): the quality history
(`q_ctx`, a `u32` that loses its high bits), the position table at `min(pos, 1023)`, the delta
table at `min(delta, 255)` (the delta counts the changes of `q`), the selector. The sum stays below
`2^31` (`u32`), `& 0xffff`. `trap` = a table index out of range (dead: the tables have 256 / 1024 /
256 entries). -/
def updateCtx (p : Param) (q : Nat) (r : Rec) : Except DecErr (Nat × Rec) :=
  match p.qtab[q]? with
  | none => .error .trap
  | some t =>
    let qctx := (r.qctx * 2 ^ p.qshift % 2 ^ 32 + t) % 2 ^ 32
    let c0 := p.context + (qctx % 2 ^ p.qbits) * 2 ^ p.qloc
    match (match p.ptab with
        | none => .ok 0
        | some tab =>
          match tab[min r.pos 1023]? with
          | none => .error .trap
          | some v => .ok (v * 2 ^ p.ploc) : Except DecErr Nat) with
    | .error e => .error e
    | .ok c1 =>
      match (match p.dtab with
          | none => .ok (0, r.delta, r.prevQ)
          | some tab =>
            match tab[min r.delta 255]? with
            | none => .error .trap
            | some v => .ok (v * 2 ^ p.dloc, (if r.prevQ ≠ q then r.delta + 1 else r.delta), q)
          : Except DecErr (Nat × Nat × Nat)) with
      | .error e => .error e
      | .ok (c2, delta, prevQ) =>
        let c3 := if p.hasSel then r.selector * 2 ^ p.sloc else 0
        .ok ((c0 + c1 + c2 + c3) % 65536, { r with qctx := qctx, delta := delta, prevQ := prevQ })

/-- `read_length`: four bytes from the four length models, little-endian -/
def readLength (ms : Array Model) (d : Dec) : Except DecErr (Nat × Array Model × Dec) :=
  match decAt ms d LEN with
  | .error e => .error e
  | .ok (b0, ms, d) =>
    match decAt ms d (LEN + 1) with
    | .error e => .error e
    | .ok (b1, ms, d) =>
      match decAt ms d (LEN + 2) with
      | .error e => .error e
      | .ok (b2, ms, d) =>
        match decAt ms d (LEN + 3) with
        | .error e => .error e
        | .ok (b3, ms, d) => .ok (b0 + 256 * b1 + 65536 * b2 + 16777216 * b3, ms, d)

/-- the selector part of `fqz_new_record`: when there is a selector model, decode the selector;
the parameter index is the selector table's entry — and **0 when there is no table** →
(x, selector, models, coder) -/
def decSelector (P : Params) (ms : Array Model) (d : Dec) (r : Rec) :
    Except DecErr (Nat × Nat × Array Model × Dec) :=
  match P.selectorCount with
  | none => .ok (0, r.selector, ms, d)
  | some _ =>
    match decAt ms d SEL with
    | .error e => .error e
    | .ok (s, ms, d) =>
      match P.stab with
      | none => .ok (0, s, ms, d)
      | some tab =>
        match tab[s]? with
        | none => .error .trap
        | some x => .ok (x, s, ms, d)

/-- `fqz_new_record` → (x, models, coder, record, rev_len — newest first) -/
def newRecord (P : Params) (ms : Array Model) (d : Dec) (r : Rec) (lastLen : Nat)
    (revLen : List (Bool × Nat)) :
    Except DecErr (Nat × Array Model × Dec × Rec × List (Bool × Nat)) :=
  match decSelector P ms d r with
  | .error e => .error e
  | .ok (x, sel, ms, d) =>
    match P.params[x]? with
    | none => .error .invalidData
    | some param =>
      match (if !param.fixedLen || r.recNo == 0 then readLength ms d else .ok (lastLen, ms, d)) with
      | .error e => .error e
      | .ok (len, ms, d) =>
        match (if P.doRev then
            match decAt ms d REV with
            | .error e => .error e
            | .ok (b, ms, d) => .ok ((b != 0, len) :: revLen, ms, d)
          else .ok (revLen, ms, d) : Except DecErr (List (Bool × Nat) × Array Model × Dec)) with
        | .error e => .error e
        | .ok (revLen, ms, d) =>
          match (if param.hasDup then
              match decAt ms d DUP with
              | .error e => .error e
              | .ok (b, ms, d) => .ok (b != 0, ms, d)
            else .ok (r.isDup, ms, d) : Except DecErr (Bool × Array Model × Dec)) with
          | .error e => .error e
          | .ok (dup, ms, d) =>
            .ok (x, ms, d, ⟨r.recNo + 1, sel, len, len, dup, 0, 0, 0⟩, revLen)

/-- `validate_record(record, is_reversible, decoded_len, remaining_len)` -/
def validRecord (r : Rec) (rev : Bool) (decoded remaining : Nat) : Bool :=
  decide (r.len > 0) && (!r.isDup || (decide (r.len ≤ decoded) && decide (r.len ≤ remaining)))
    && (!rev || decide (r.len ≤ remaining))

/-- the state of the `while i < uncompressed_size` loop; `out` is `dst[..i]`, newest byte FIRST -/
structure DSt where
  ms : Array Model
  d : Dec
  r : Rec
  x : Nat
  ctx : Nat
  lastLen : Nat
  i : Nat
  revLen : List (Bool × Nat)
  out : List Nat

/-- the rest of an iteration, after the record start: one quality from `models.qual[ctx]`, mapped
through the quality map if there is one (`map.get(q)`: `InvalidData` outside), the context update,
`i += 1`, `record.pos -= 1` (`trap` = the underflow; dead: a record is not empty) -/
def decQual (P : Params) (ms : Array Model) (d : Dec) (r : Rec) (x ctx lastLen i : Nat)
    (revLen : List (Bool × Nat)) (out : List Nat) : Except DecErr DSt :=
  match P.params[x]? with
  | none => .error .trap
  | some param =>
    match decAt ms d ctx with
    | .error e => .error e
    | .ok (q, ms, d) =>
      match (match param.qmap with
          | none => .ok q
          | some map =>
            match map[q]? with
            | none => .error .invalidData
            | some b => .ok b : Except DecErr Nat) with
      | .error e => .error e
      | .ok b =>
        match updateCtx param q r with
        | .error e => .error e
        | .ok (ctx', r') =>
          if r'.pos = 0 then .error .trap
          else .ok ⟨ms, d, { r' with pos := r'.pos - 1 }, x, ctx', lastLen, i + 1, revLen, b :: out⟩

/-- one iteration of the main loop of `decode` (`n` = the uncompressed size): at `record.pos == 0`
a new record (`fqz_new_record`, `validate_record`; a duplicate is `copy_record` + `continue`; `trap`
there = the slice panics of `copy_record`, dead after the validation); then one quality -/
def decStep (P : Params) (n : Nat) : DSt → Except DecErr DSt
  | ⟨ms, d, r, x, ctx, lastLen, i, revLen, out⟩ =>
    if r.pos = 0 then
      match newRecord P ms d r lastLen revLen with
      | .error e => .error e
      | .ok (x, ms, d, r, revLen) =>
        if !validRecord r P.doRev i (n - i) then .error .invalidData
        else if r.isDup then
          if r.len ≤ i ∧ r.len ≤ n - i then
            .ok ⟨ms, d, { r with pos := 0 }, x, ctx, r.len, i + r.len, revLen, out.take r.len ++ out⟩
          else .error .trap
        else
          match P.params[x]? with
          | none => .error .trap
          | some param => decQual P ms d r x param.context r.len i revLen out
    else decQual P ms d r x ctx lastLen i revLen out

/-- `while i < uncompressed_size { … }`; every iteration advances `i`, so `fuel = n` is enough
(`fuel` = the model's budget ran out; dead) -/
def decLoop (P : Params) (n : Nat) : Nat → DSt → Except DecErr DSt
  | 0, st => if st.i < n then .error .fuel else .ok st
  | fuel + 1, st =>
    if st.i < n then
      match decStep P n st with
      | .error e => .error e
      | .ok st' => decLoop P n fuel st'
    else .ok st

/-- `reverse_qualities(qual, qual_len, rev_len)`, `qual` = the bytes from `i` on, `rev_len` from
`rec` on: while bytes are left, the next entry (`trap` = `rev_len[rec]` out of range); a reversed
record is swapped end for end (`trap` = `len - 1` underflow, or a swap index past the end — `len
≥ 2` and longer than what is left); `i += len` -/
def reverseQualities : List (Bool × Nat) → List Nat → Except DecErr (List Nat)
  | _, [] => .ok []
  | [], _ :: _ => .error .trap
  | (rev, len) :: rs, q :: qs =>
    if rev then
      if len = 0 then .error .trap
      else if len ≥ 2 ∧ len > (q :: qs).length then .error .trap
      else
        match reverseQualities rs ((q :: qs).drop len) with
        | .error e => .error e
        | .ok t => .ok (((q :: qs).take len).reverse ++ t)
    else
      match reverseQualities rs ((q :: qs).drop len) with
      | .error e => .error e
      | .ok t => .ok ((q :: qs).take len ++ t)

def rdU7 (bs : List Nat) : Except DecErr (Nat × List Nat) :=
  match readUint7 bs with
  | .ok r => .ok r
  | .error .eof => .error .eof
  | .error .invalidData => .error .invalidData

/-- `fqzcomp::decode(src)` -/
def decode (bs : List Nat) : Except DecErr (List Nat) :=
  match rdU7 bs with
  | .error e => .error e
  | .ok (n, bs) =>
    match readParams bs with
    | .error e => .error e
    | .ok (P, bs) =>
      match Dec.init bs with
      | .error e => .error e
      | .ok d =>
        match decLoop P n n ⟨Models.new P.maxSymbolCount P.selectorCount, d, Rec.init, 0, 0, 0, 0, [], []⟩ with
        | .error e => .error e
        | .ok st =>
          if P.doRev then reverseQualities st.revLen.reverse st.out.reverse
          else .ok st.out.reverse

/-! ## the encoder (`encode.rs`) -/

/-- the encoder's own `Parameter` (its `symbol_count`, `q_tab` and `p_tab` are always present) -/
structure EParam where
  context : Nat
  flags : Nat
  symbolCount : Nat
  qbits : Nat
  qshift : Nat
  qloc : Nat
  sloc : Nat
  ploc : Nat
  dloc : Nat
  qtab : List Nat
  ptab : List Nat
  deriving Repr, DecidableEq

/-- the encoder's own `Parameters` -/
structure EParams where
  gflags : Nat
  maxSel : Nat
  stab : List Nat
  params : List EParam
  symbolCount : Nat
  deriving Repr, DecidableEq

/-- `p_tab[i] = min((1 << 7) - 1, i >> p_shift)`, 1024 entries -/
def buildPtab (pshift : Nat) : List Nat := (List.range 1024).map fun i => min 127 (i / 2 ^ pshift)

/-- `lens.windows(2).all(|w| w[0] == w[1])` -/
def allEqual : List Nat → Bool
  | a :: b :: r => a == b && allEqual (b :: r)
  | _ => true

/-- `build_parameters(lens, src)` — the ONLY parameter set noodles' encoder emits: no global flag
(one parameter set, no selector table, no reversal), context 0, flags `HAVE_PTAB` plus `DO_LEN`
when all records have one length, `q_bits` 9, `q_shift` 5, `q_loc` 7, `s_loc` 15, `p_loc` 0,
`d_loc` 15, the identity quality table (not written), the position table `min(127, i >> (lens[0]
> 128))`, symbol count = largest quality + 1. `trap` = `lens[0]` on an empty list (dead: `encode`
validates first). -/
def buildParameters (lens src : List Nat) : Except EncErr EParams :=
  match lens.head? with
  | none => .error .trap
  | some l0 =>
    let nsym := src.foldl max 0 + 1
    let flags := 32 + (if allEqual lens then 4 else 0)
    .ok ⟨0, 0, List.replicate 256 0,
      [⟨0, flags, nsym, 9, 5, 7, 15, 0, 15, List.range 256, buildPtab (if l0 > 128 then 1 else 0)⟩], nsym⟩

/-- `fqz_encode_single_param`: the nibble pairs are `(a << 4) | b` in `u8` (high bits of `a` are
dropped); quality map, q table and d table are `todo!()` -/
def writeParam (p : EParam) : Except EncErr (List Nat) :=
  let hd := [p.context % 256, p.context / 256 % 256, p.flags, (p.symbolCount - 1) % 256,
    p.qbits * 16 % 256 ||| p.qshift, p.qloc * 16 % 256 ||| p.sloc, p.ploc * 16 % 256 ||| p.dloc]
  if bit p.flags 4 then .error .todo
  else if bit p.flags 7 then .error .todo
  else
    match (if bit p.flags 5 then writeArray p.ptab else .ok []) with
    | .error e => .error e
    | .ok t => if bit p.flags 6 then .error .todo else .ok (hd ++ t)

def writeParamList : List EParam → Except EncErr (List Nat)
  | [] => .ok []
  | p :: ps =>
    match writeParam p with
    | .error e => .error e
    | .ok a =>
      match writeParamList ps with
      | .error e => .error e
      | .ok b => .ok (a ++ b)

/-- `fqz_encode_params` -/
def writeParams (P : EParams) : Except EncErr (List Nat) :=
  match (if bit P.gflags 0 then
      (if P.params.length < 256 then .ok [P.params.length] else .error .invalidData)
    else .ok [] : Except EncErr (List Nat)) with
  | .error e => .error e
  | .ok np =>
    match (if bit P.gflags 1 then
        match writeArray P.stab with
        | .error e => .error e
        | .ok t => .ok (P.maxSel :: t)
      else .ok [] : Except EncErr (List Nat)) with
    | .error e => .error e
    | .ok st =>
      match writeParamList P.params with
      | .error e => .error e
      | .ok ps => .ok ([5, P.gflags] ++ np ++ st ++ ps)

/-- `encode_length`: `u32::try_from(len)`, then its four bytes in the four length models -/
def encodeLength (ms : Array Model) (e : Enc) (len : Nat) : Except EncErr (Array Model × Enc) :=
  if ¬ len < 2 ^ 32 then .error .invalidInput
  else
    match encAt ms e LEN (len % 256) with
    | none => .error .trap
    | some (ms, e) =>
      match encAt ms e (LEN + 1) (len / 256 % 256) with
      | none => .error .trap
      | some (ms, e) =>
        match encAt ms e (LEN + 2) (len / 65536 % 256) with
        | none => .error .trap
        | some (ms, e) =>
          match encAt ms e (LEN + 3) (len / 16777216 % 256) with
          | none => .error .trap
          | some (ms, e) => .ok (ms, e)

/-- the loop variables of `encode`: `p`, `rec_num` (with `lens[rec_num..]`), `x`, `last`, `qlast` -/
structure ESt where
  p : Nat
  recNum : Nat
  lensRest : List Nat
  x : Nat
  last : Nat
  qlast : Nat
  deriving Repr, DecidableEq

/-- the `if p == 0 { … }` block of the main loop: the parameter set is `s_tab[0]`, the record
length is coded unless the lengths are fixed and this is not the first record -/
def encNewRecord (P : EParams) (ms : Array Model) (e : Enc) (st : ESt) :
    Except EncErr (Array Model × Enc × ESt) :=
  if bit P.gflags 1 then .error .todo
  else
    match P.stab[0]? with
    | none => .error .trap
    | some x =>
      match P.params[x]? with
      | none => .error .trap
      | some param =>
        match st.lensRest with
        | [] => .error .trap
        | len :: rest =>
          match (if !bit param.flags 2 || st.recNum == 0 then encodeLength ms e len else .ok (ms, e)) with
          | .error err => .error err
          | .ok (ms, e) =>
            if bit param.flags 1 then .error .todo
            else .ok (ms, e, ⟨len, st.recNum + 1, rest, x, param.context, 0⟩)

/-- the context update of the encoder's main loop, after a quality `qq` was coded with `p`
qualities of the record left (this one included) → (`last`, `qlast`). `qlast` is a `u32` (`<<`
drops bits, `overflowing_add`); the position table entry is shifted AS A `u8`
(`p_tab[..] << p_loc`); `trap` = a shift by the type's width or more, a `u32` sum overflow, a table
index out of range; the delta table and the selector are `todo!()`. -/
def encUpdate (param : EParam) (p qlast qq : Nat) : Except EncErr (Nat × Nat) :=
  match param.qtab[qq]? with
  | none => .error .trap
  | some t =>
    if param.qshift ≥ 32 ∨ param.qbits ≥ 32 ∨ param.qloc ≥ 32 then .error .trap
    else
      let qlast' := (qlast * 2 ^ param.qshift % 2 ^ 32 + t) % 2 ^ 32
      let last0 := param.context + (qlast' % 2 ^ param.qbits) * 2 ^ param.qloc % 2 ^ 32
      if last0 ≥ 2 ^ 32 then .error .trap
      else
        match (if bit param.flags 5 then
            match param.ptab[min p 1023]? with
            | none => .error .trap
            | some v =>
              if param.ploc ≥ 8 then .error .trap
              else if last0 + v * 2 ^ param.ploc % 256 ≥ 2 ^ 32 then .error .trap
              else .ok (last0 + v * 2 ^ param.ploc % 256)
          else .ok last0 : Except EncErr Nat) with
        | .error err => .error err
        | .ok last1 =>
          if bit param.flags 6 then .error .todo
          else if bit param.flags 3 then .error .todo
          else .ok (last1 % 65536, qlast')

/-- the main loop of `encode`: `for &q in src { … }`. `q_hist` has ONE row (the identity), so a
parameter index other than 0 is an index panic. -/
def encLoop (P : EParams) : Array Model → Enc → ESt → List Nat → Except EncErr (Array Model × Enc)
  | ms, e, _, [] => .ok (ms, e)
  | ms, e, st, q :: src =>
    match (if st.p = 0 then encNewRecord P ms e st else .ok (ms, e, st)) with
    | .error err => .error err
    | .ok (ms, e, st) =>
      if st.x ≠ 0 then .error .trap
      else
        match encAt ms e (st.last % 65536) q with
        | none => .error .trap
        | some (ms, e) =>
          match P.params[st.x]? with
          | none => .error .trap
          | some param =>
            match encUpdate param st.p st.qlast q with
            | .error err => .error err
            | .ok (last, qlast) =>
              if st.p = 0 then .error .trap
              else encLoop P ms e { st with p := st.p - 1, last := last, qlast := qlast } src

/-- the record layout `encode` insists on (commit c3b9b4a): at least one record, no empty record,
the lengths add up to the input (`checked_add`: a sum that leaves `usize` is not the input's
length either) -/
def validLayout (lens src : List Nat) : Bool :=
  !lens.isEmpty && lens.all (fun len => decide (len > 0)) && decide (lens.sum = src.length)

/-- `fqzcomp::encode(lens, src)`: layout check, the size as `uint7` (`u32::try_from`), the
parameters, the coded events, `range_encode_end`. The selector model (`Some(NonZero::MIN)`, one
symbol) is created and never used. -/
def encode (lens src : List Nat) : Except EncErr (List Nat) :=
  if !validLayout lens src then .error .invalidInput
  else if ¬ src.length < 2 ^ 32 then .error .invalidInput
  else
    match buildParameters lens src with
    | .error e => .error e
    | .ok P =>
      match writeParams P with
      | .error e => .error e
      | .ok pb =>
        match encLoop P (Models.new P.symbolCount (some 1)) Enc.init ⟨0, 0, lens, 0, 0, 0⟩ src with
        | .error e => .error e
        | .ok (_, e) => .ok ((writeUint7 src.length).getD [] ++ pb ++ e.finish)

end Noodles.Cram.Fqz
