import Noodles.Basic.Wire
import Noodles.Basic.Crc32
import Noodles.Cram.Aac
/-! Line-protocol handler for the adaptive arithmetic coder (`c08 aac…`), the fall-through of
`DriverC08.handle`.

* `aacenc <flag byte> <input> <bzip2 table>` — `aac::encode(flags, input)`; the last word is what
  bzip2 answered for the data that reaches the EXT stage (`-` when that stage is not reached);
* `aacdec <n> <stream> <bzip2 table>` — `aac::decode(stream, n)` on a stream the real encoder
  produced, answered exactly (bytes, or the error class); the last word is what bzip2 decompresses
  the EXT payload to;
* `aacdecx <n> <stream>` — `aac::decode` on a damaged stream (or with a wrong `n`), answered as
  `acc <bytes>` / `rej` (an error of any kind and a panic are both `rej`).
-/
namespace Noodles.Cram.DriverC08Aac
open Noodles.Wire Noodles.Cram

def toNats (b : List UInt8) : List Nat := b.map (·.toNat)
def ofNats (l : List Nat) : List UInt8 := l.map UInt8.ofNat

def hexN (l : List Nat) : String := hex (ofNats l)

/-- short byte strings in full, long ones as `length:crc32` -/
def fmtBytes (l : List Nat) : String :=
  if l.length ≤ 64 then hexN l else s!"{l.length}:{Noodles.Crc32.crc32 (ofNats l)}"

def encErr : Aac.EncErr → String
  | .invalidInput => "err:invalid-input"
  | .trap => "panic"

def decErr : Aac.DecErr → String
  | .eof => "err:eof"
  | .invalidData => "err:invalid-data"
  | .invalidInput => "err:invalid-input"
  | .trap => "panic"
  | .fuel => "model-fuel"

/-- bzip2 decompression as a table: the harness supplies the decompressed payload -/
def unbzTable (t : List Nat) (_ : List Nat) (n : Nat) : Except Aac.DecErr (List Nat) :=
  if n ≤ t.length then .ok (t.take n) else .error .eof

/-- `none` when the request words are not this handler's (so that handlers can be chained) -/
def handle? : List String → Option String
  | ["aacenc", fl, h, bz] => some <| match (unhex fl).map toNats, unhex h, unhex bz with
    | some [fl], some b, some t => match Aac.encode (fun _ => toNats t) (Aac.Flags.ofByte fl) (toNats b) with
      | .ok e => fmtBytes e
      | .error e => encErr e
    | _, _, _ => "bad-op"
  | ["aacdec", n, h, bz] => some <| match n.toNat?, unhex h, unhex bz with
    | some n, some b, some t => match Aac.decode (unbzTable (toNats t)) (toNats b) n with
      | .ok d => fmtBytes d
      | .error e => decErr e
    | _, _, _ => "bad-op"
  | ["aacdecx", n, h] => some <| match n.toNat?, unhex h with
    | some n, some b => match Aac.decode (fun _ _ => .error .invalidData) (toNats b) n with
      | .ok d => s!"acc {fmtBytes d}"
      | .error .fuel => "model-fuel"
      | .error _ => "rej"
    | _, _ => "bad-op"
  | _ => none

def handle (ws : List String) : String := (handle? ws).getD "bad-op"

end Noodles.Cram.DriverC08Aac
