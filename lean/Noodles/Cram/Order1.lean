import Noodles.Cram.Num
import Noodles.Cram.Rans4x8
import Noodles.Cram.Nx16
/-!
# Order-1 rANS: the part shared by rANS 4x8 and rANS Nx16

Both order-1 coders of noodles (`noodles-cram/src/codecs/rans_4x8/{encode,decode}/order_1.rs`,
`noodles-cram/src/codecs/rans_nx16/{encode,decode}/order_1.rs`) have the same shape:

* the input of `len` bytes is cut into `n` chunks of `q = len / n` bytes (`n = 4` for 4x8, `4` or
  `32` for Nx16); the `len % n` bytes behind the last chunk belong to the LAST state
  (`split_chunks`: `chunk_4 = &chunk_3_4[chunk_size - 1..]`, resp. `remainder = &src[i - 1..]`,
  both starting one byte early "for context");
* state `j` codes chunk `j`, every symbol in the context of its predecessor in the chunk, the first
  symbol of a chunk in the context NUL (`0`);
* the decoder runs `q` rounds, one symbol per state and round in state order, then the remainder on
  the last state; the encoder does the same steps in exactly the reverse order (remainder windows
  reversed, then `windows(2).rev()` zipped over the chunks with `states.iter_mut().rev()`, then the
  NUL contexts) into a buffer that is reversed at the end.

The model keeps one **lane** per state: the state value and the symbols of its chunk that are
decoded so far (encoder: not yet encoded), newest first. The context of the next step is the head
of that list (NUL if it is empty), so the three loops of the encoder (remainder, lock-step windows,
NUL contexts) are the same step, and one decoder step pushes exactly what one encoder step pops.
What differs between the two codecs — lower bound, renormalisation unit (bytes / 16-bit words),
number of states, frequency total (4095 / 4096), table layout — is a parameter (`Kit`, `n`,
`total`) or lives in `Order1R4.lean` / `Order1Nx.lean`.

Decoders return `Option`: `none` stands for every way the real decoder refuses a stream (an
`io::Error` of any kind). The decoders validate every frequency table they read (total at most
`2^bits`); with such a table the `u32` expression `f * (s >> bits) + (s & mask)` of `state_step`
and the running sums of `build_cumulative_frequencies` cannot overflow
(`Props.C08.o1_decoder_arithmetic_fits`), so no wrap-around is modelled.
-/
namespace Noodles.Cram.O1
open Noodles.Cram.Num Noodles.Cram.R4

/-- 256 rows (contexts) of 256 frequencies -/
abbrev Table := List (List Nat)

/-- a state and the symbols of its chunk that are already decoded / still to be encoded, newest
first -/
abbrev Lane := Nat × List Nat

def row (T : Table) (c : Nat) : List Nat := T.getD c []

/-- `build_cumulative_frequencies`: `[a, a + f₀, a + f₀ + f₁, …]`, as many entries as frequencies
(the last frequency is not used) -/
def cums : Nat → List Nat → List Nat
  | _, [] => []
  | a, f :: fs => a :: cums (a + f) fs

def cumTable (F : Table) : Table := F.map (cums 0)

/-- What differs between the byte-wise renormalisation of rANS 4x8 and the 16-bit one of Nx16. -/
structure Kit where
  /-- encoder `state_renormalize`: state, frequency ↦ (state, emitted bytes in the order in which
      the DECODER reads them) -/
  renE : Nat → Nat → Nat × List Nat
  /-- decoder `state_renormalize`; `none`: the input ended -/
  renD : List Nat → Nat → Option (Nat × List Nat)

/-! ## frequencies (`build_raw_frequencies` / `build_frequencies`, `normalize_frequencies`) -/

/-- the symbols that follow an occurrence of `c` (`src.windows(2)` with `syms[0] == c`) -/
def succs (c : Nat) : List Nat → List Nat
  | a :: b :: rest => if a = c then b :: succs c (b :: rest) else succs c (b :: rest)
  | _ => []

/-- first symbols of the first `n` chunks: `src.chunks_exact(q).take(n)`, `chunk[0]` -/
def starts (n q : Nat) (src : List Nat) : List Nat := (List.range n).map fun j => src.getD (j * q) 0

/-- row `c` of the raw table: the histogram of the successors of `c`; the chunk starts count as
successors of NUL -/
def rawRow (n : Nat) (src : List Nat) (c : Nat) : List Nat :=
  hist ((if c = 0 then starts n (src.length / n) src else []) ++ succs c src)

/-- every row normalised on its own by the order-0 `normalize_frequencies` (as fixed, see
`Rans4x8.lean`) to `total` (4095 for 4x8, 4096 for Nx16); a context that never occurs keeps a row of
zeros -/
def freqTable (total n : Nat) (src : List Nat) : Table :=
  (List.range 256).map fun c => normalizeTo total (rawRow n src c)

/-! ## lanes -/

/-- the chunks as lanes with the initial state `lo` (`LOWER_BOUND`): `n - 1` chunks of `q` bytes
and the last chunk together with the remainder -/
def frontLanes (lo n q : Nat) (src : List Nat) : List Lane :=
  (List.range (n - 1)).map fun j => (lo, ((src.drop (j * q)).take q).reverse)

def lastLane (lo n q : Nat) (src : List Nat) : Lane := (lo, (src.drop ((n - 1) * q)).reverse)

/-- apply a step function to the last lane (`states.last_mut()`, `states[3]`) -/
def onLast (f : Lane → List Nat → Option (Lane × List Nat)) :
    List Lane → List Nat → Option (List Lane × List Nat)
  | [], bs => some ([], bs)
  | [ln], bs =>
    match f ln bs with
    | none => none
    | some (ln', bs') => some ([ln'], bs')
  | ln :: l2 :: lns, bs =>
    match onLast f (l2 :: lns) bs with
    | none => none
    | some (lns', bs') => some (ln :: lns', bs')

/-! ## encoder (noodles) -/

/-- One encoder step on a lane: the newest not yet encoded symbol `s`, in the context of its
predecessor (`frequencies[i][j]` with `(i, j) = (syms[0], syms[1])`, resp. `(NUL, chunk[0])`):
`state_renormalize`, then `state_step`. `none`: the frequency is 0 and the real
`state_renormalize` would never return (dead, see `Props.C08`). The bytes are returned in decoder
order. -/
def encOne (K : Kit) (F C : Table) (ln : Lane) : Option (Lane × List Nat) :=
  match ln.2 with
  | [] => some (ln, [])
  | s :: h =>
    let c := h.headD 0
    let f := getF (row F c) s
    if f = 0 then none
    else
      let r := K.renE ln.1 f
      some ((encStep r.1 f (getF (row C c) s), h), r.2)

/-- one step on every lane. The code walks the lanes last to first and reverses its whole buffer at
the end, so in the final stream the bytes of a round stand in lane order. -/
def encRound (K : Kit) (F C : Table) : List Lane → Option (List Lane × List Nat)
  | [] => some ([], [])
  | ln :: lns =>
    match encOne K F C ln, encRound K F C lns with
    | some (ln', b), some (lns', bs) => some (ln' :: lns', b ++ bs)
    | _, _ => none

/-- `q` rounds; `out` is everything emitted so far, in its final order -/
def encRounds (K : Kit) (F C : Table) : Nat → List Lane → List Nat → Option (List Lane × List Nat)
  | 0, lns, out => some (lns, out)
  | q + 1, lns, out =>
    match encRound K F C lns with
    | none => none
    | some (lns', b) => encRounds K F C q lns' (b ++ out)

/-- `r` steps on one lane (the remainder) -/
def encTail (K : Kit) (F C : Table) : Nat → Lane → List Nat → Option (Lane × List Nat)
  | 0, ln, out => some (ln, out)
  | r + 1, ln, out =>
    match encOne K F C ln with
    | none => none
    | some (ln', b) => encTail K F C r ln' (b ++ out)

/-- the three loops of `order_1::encode`: remainder on the last state, then every chunk back to
front in lock step; returns the final states and the payload -/
def encLanes (K : Kit) (F C : Table) (lo n : Nat) (src : List Nat) : Option (List Nat × List Nat) :=
  let q := src.length / n
  match encTail K F C (src.length % n) (lastLane lo n q src) [] with
  | none => none
  | some (last, out) =>
    match encRounds K F C q (frontLanes lo n q src ++ [last]) out with
    | none => none
    | some (lns, out) => some (lns.map (·.1), out)

/-! ## decoder (specification: `RansDecode1` / `RansDecodeNx16_1`) -/

/-- One decoder step on a lane: the slot `x & (2^bits - 1)` selects the symbol in the row of the
lane's last symbol (`RansGetSymbolFromFreq`), `RansAdvanceStep`, `RansRenorm`. `none`: the input
ends. (The subtraction of the cumulative frequency cannot underflow: the slot is at least the
cumulative frequency of the symbol found.) -/
def decOne (K : Kit) (bits : Nat) (F C : Table) (ln : Lane) (bs : List Nat) : Option (Lane × List Nat) :=
  let c := ln.2.headD 0
  let slot := ln.1 % 2 ^ bits
  let s := lookup (row C c) slot
  match K.renD bs (getF (row F c) s * (ln.1 / 2 ^ bits) + slot - getF (row C c) s) with
  | none => none
  | some (x', bs') => some ((x', s :: ln.2), bs')

def decRound (K : Kit) (bits : Nat) (F C : Table) : List Lane → List Nat → Option (List Lane × List Nat)
  | [], bs => some ([], bs)
  | ln :: lns, bs =>
    match decOne K bits F C ln bs with
    | none => none
    | some (ln', bs') =>
      match decRound K bits F C lns bs' with
      | none => none
      | some (lns', bs'') => some (ln' :: lns', bs'')

def decRounds (K : Kit) (bits : Nat) (F C : Table) :
    Nat → List Lane → List Nat → Option (List Lane × List Nat)
  | 0, lns, bs => some (lns, bs)
  | q + 1, lns, bs =>
    match decRound K bits F C lns bs with
    | none => none
    | some (lns', bs') => decRounds K bits F C q lns' bs'

def decTail (K : Kit) (bits : Nat) (F C : Table) : Nat → Lane → List Nat → Option (Lane × List Nat)
  | 0, ln, bs => some (ln, bs)
  | r + 1, ln, bs =>
    match decOne K bits F C ln bs with
    | none => none
    | some (ln', bs') => decTail K bits F C r ln' bs'

/-- `len / n` rounds over the states `st`, then `len % n` symbols on the last state; the output is
the chunks one after the other (`out[i + j * (len / n)]` for state `j` in round `i`) -/
def decLanes (K : Kit) (bits : Nat) (F C : Table) (n len : Nat) (st bs : List Nat) : Option (List Nat) :=
  match decRounds K bits F C (len / n) (st.map fun x => (x, [])) bs with
  | none => none
  | some (lns, bs) =>
    match onLast (decTail K bits F C (len % n)) lns bs with
    | none => none
    | some (lns, _) => some (lns.map fun ln => ln.2.reverse).flatten

/-- `read_states`: `n` little-endian `u32` -/
def rdStates : Nat → List Nat → Option (List Nat × List Nat)
  | 0, bs => some ([], bs)
  | n + 1, b0 :: b1 :: b2 :: b3 :: bs =>
    match rdStates n bs with
    | none => none
    | some (st, bs) => some ((b0 + b1 * 2 ^ 8 + b2 * 2 ^ 16 + b3 * 2 ^ 24) :: st, bs)
  | _ + 1, _ => none

/-! ## a symbol list with run lengths and one entry per symbol

The layout shared by the order-0 frequency table, the Nx16 alphabet and the list of contexts of the
order-1 table of rANS 4x8: the symbols that are present in ascending order, each followed by its
entry; a symbol that directly follows the previous one is followed by the number of FURTHER
consecutive symbols, whose entries then come without their symbols; a 0 byte ends the list. -/

/-- number of leading entries that are present -/
def leadP {α : Type} (p : α → Bool) : List α → Nat
  | [] => 0
  | e :: rest => if p e then leadP p rest + 1 else 0

/-- writer (noodles, as fixed by the C08 round: `prev_sym` starts as `None`, a run that reaches
symbol 255 has the length of the rest of the alphabet), at symbol `sym` with the entries of
`sym, sym + 1, …` still to be visited -/
def writeRunsGo {α : Type} (p : α → Bool) (we : α → List Nat) : Nat → List α → Option Nat → List Nat
  | _, [], _ => [0]
  | sym, e :: rest, prev =>
    if !p e then writeRunsGo p we (sym + 1) rest prev
    else if sym > 0 ∧ prev = some (sym - 1) then
      let len := leadP p rest
      [sym, len] ++ we e ++ ((rest.take len).map we).flatten
        ++ writeRunsGo p we (sym + 1 + len) (rest.drop len) (some (sym + len))
    else [sym] ++ we e ++ writeRunsGo p we (sym + 1) rest (some sym)
termination_by _ l => l.length
decreasing_by
  all_goals simp only [List.length_cons, List.length_drop]
  all_goals omega

/-- reader (specification, `ReadFrequencies1`), the part after an entry has been read with no run
pending: `sym ← ReadUint8()`; 0 ends the list; a symbol that continues the previous one
(`last_sym + 1`) is followed by a run length -/
def readRunsNext {α : Type} (k : List α → Nat → Nat → List Nat → Option (List α × List Nat))
    (T : List α) (last : Nat) : List Nat → Option (List α × List Nat)
  | [] => none
  | s :: bs =>
    if s = 0 then some (T, bs)
    else if s = last + 1 then
      match bs with
      | [] => none
      | r :: bs => k T s r bs
    else k T s 0 bs

/-- reader at "read the entry of `sym`" with `rle` more symbols of a run to come. `fuel` bounds the
iterations; every iteration reads an entry, which takes at least one byte. A run that would pass
symbol 255 is refused (`next_symbol`: `sym.checked_add(1)`). -/
def readRunsLoop {α : Type} (re : List Nat → Option (α × List Nat)) :
    Nat → List α → Nat → Nat → List Nat → Option (List α × List Nat)
  | 0, _, _, _, _ => none
  | fuel + 1, T, sym, rle, bs =>
    match re bs with
    | none => none
    | some (e, bs) =>
      if sym ≥ 256 then none
      else if rle > 0 then readRunsLoop re fuel (T.set sym e) (sym + 1) (rle - 1) bs
      else readRunsNext (fun T s r bs => readRunsLoop re fuel T s r bs) (T.set sym e) sym bs

def readRuns {α : Type} (re : List Nat → Option (α × List Nat)) (dflt : α) :
    List Nat → Option (List α × List Nat)
  | [] => none
  | s :: bs => readRunsLoop re (bs.length + 257) (List.replicate 256 dflt) s 0 bs

end Noodles.Cram.O1
