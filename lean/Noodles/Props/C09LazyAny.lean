import Noodles.Vcf.LazyAny
import Noodles.Vcf.LazyAnyProof
/-!
# C09 / LazyAny — the lazy `vcf::Record` equals the eager `RecordBuf` on EVERY line

For EVERY float library `F`, EVERY header context `h` and EVERY byte string: what the eager parser
(`parse_record_buf`, model `parseRecord`) accepts in a column, the lazy accessor of that column
(`Noodles/Vcf/Lazy.lean`) reads identically — unconditionally for CHROM POS ID REF ALT QUAL FILTER
and for genotypes, and for INFO / samples under the explicit decidable predicates `infoPlain` /
`samplesPlain` (`Noodles/Vcf/LazyAny.lean`), outside of which /repo really diverges (witnesses
below, replayed on the real code by harness/src/props/c09_lazyany.rs).
-/
namespace Noodles.Props.C09
open Noodles.Vcf
open Noodles.Text (splitOn join)

variable (F : FloatFmt) (h : Hdr)

/-- framing: the eager `next_field` and the lazy `read_field` cut the same column whenever
something follows it -/
theorem lazy_any_field_bounds (s : Bytes) (hr : (nextField s).2 ≠ []) :
    takeField s = ((nextField s).1, some (nextField s).2) := takeField_of_rest hr

/-- POS -/
theorem lazy_any_pos (f : Bytes) (v : Option Nat) (he : orErr .position (parsePos f) = .ok v) :
    lazyPos f = some v := pos_any he

/-- ID (no empty entry, no duplicate on the eager side ⇒ `IndexSet::from_iter` is the list) -/
theorem lazy_any_ids (f : Bytes) (v : List Bytes) (he : idsCol f = .ok v) :
    dedup [] (lazyList 59 (unDot f)) = v := ids_any he

/-- REF -/
theorem lazy_any_ref (f v : Bytes) (he : refCol f = .ok v) : f = v := ref_any he

/-- ALT -/
theorem lazy_any_alts (f : Bytes) (v : List Bytes) (he : altsCol f = .ok v) :
    lazyList 44 (unDot f) = v := alts_any he

/-- QUAL -/
theorem lazy_any_qual (f : Bytes) (v : Option Nat) (he : qualCol F f = .ok v) :
    lazyQual F f = some v := qual_any he

/-- FILTER -/
theorem lazy_any_filters (f : Bytes) (v : List Bytes) (he : filtersCol f = .ok v) :
    dedup [] (lazyList 59 (unDot f)) = v := filters_any he

/-- INFO, one field: header-directed typing of the lazy `parse_value` = the eager `parse_field` -/
theorem lazy_any_info_field (k : Bytes) (raw : Option Bytes) (v : Option Val)
    (he : infoFieldValue F h k raw = some v) (hp : infoValPlain h (k, raw) = true) :
    lazyInfoValue F h k raw = some v := infoValue_any he hp

/-- INFO column -/
theorem lazy_any_info (f : Bytes) (v : List (Bytes × Option Val))
    (he : infoCol F h f = .ok v) (hp : infoPlain h f = true) :
    lazyInfo F h (unDot f) = some v := info_any he hp

/-- genotypes: the lazy `Genotype::iter` and the eager `genotype::parser::parse` are the same
function on EVERY byte string (implied first phasing included) -/
theorem lazy_any_genotype (s : Bytes) : lazyGenotype s = parseGenotype s := lazyGenotype_eq s

/-- one sample value -/
theorem lazy_any_sample_value (k raw : Bytes) (hp : arrayEmpty (h.formatDef k).1.shape raw = false) :
    lazySampleValue F h k raw = parseSampleValue F h k raw := sampleValue_any F h k raw hp

/-- one sample column -/
theorem lazy_any_sample (keys : List Bytes) (f : Bytes) (v : List (Option Val))
    (he : parseValues F h keys f = some v) (hp : zipPlain h keys (splitOn 58 f) = true) :
    lazySample F h keys (if f = DOT then [] else f) = some v := sample_any he hp

/-- all sample columns: exactly `n` columns on both sides -/
theorem lazy_any_sample_columns (keys : List Bytes) (n : Nat) (s : Bytes) (vs : List (List (Option Val)))
    (he : parseSampleCols F h keys n s = some vs) (hp : colsPlain h keys n s = true) :
    mapM' (lazySample F h keys) (lazySampleTexts (s.length + 1) s) = some vs :=
  cols_any n s (s.length + 1) vs (by omega) he hp

/-! ### witnesses: the predicates cannot be dropped (replayed on the real code: corpus of
c09_lazyany.rs) -/

def laF : FloatFmt := ⟨fun _ => [48], fun _ => none⟩
def laH : Hdr := ⟨4, 3, [], [], 1, [], []⟩
def wExtraCol : Bytes := [115, 9, 49, 9, 46, 9, 65, 9, 46, 9, 46, 9, 46, 9, 46, 9, 71, 84, 9, 48, 9, 49]
def wFormatDot : Bytes := [115, 9, 49, 9, 46, 9, 65, 9, 46, 9, 46, 9, 46, 9, 46, 9, 46, 9, 46]
def wTrailColon : Bytes := [115, 9, 49, 9, 46, 9, 65, 9, 46, 9, 46, 9, 46, 9, 46, 9, 71, 84, 58, 9, 48]
def wEmptyKey : Bytes := [115, 9, 49, 9, 46, 9, 65, 9, 46, 9, 46, 9, 46, 9, 65, 59, 9, 71, 84, 9, 48]
def wDupId : Bytes := [115, 9, 49, 9, 97, 59, 97, 9, 65, 9, 46, 9, 46, 9, 46, 9, 46, 9, 71, 84, 9, 48]
def wPlain : Bytes := [115, 9, 49, 9, 97, 59, 98, 9, 65, 9, 67, 44, 71, 9, 46, 9, 80, 65, 83, 83, 9, 65, 59, 66, 9, 71, 84, 9, 48, 124, 49]

/-- non-vacuity: a line both accept with the same value, and it is plain -/
example : outcome laF laH wPlain = .same ∧ linePlain laH wPlain = true := by decide

/-- FULL STATEMENT IS FALSE for /repo:
`∀ line r, parseRecord F h line = .ok r → lazyParse F h line = some r`.
One sample in the header, two sample columns: the eager parser ignores the second, the lazy
`Samples::iter` yields it — both succeed with different values. -/
theorem lazy_eq_eager_any_line_false_extra_column :
    outcome laF laH wExtraCol = .differ ∧ linePlain laH wExtraCol = false := by decide

/-- FORMAT `.`: one empty sample (eager) vs no sample (lazy) -/
theorem lazy_eq_eager_any_line_false_format_dot :
    outcome laF laH wFormatDot = .differ ∧ linePlain laH wFormatDot = false := by decide

/-- FORMAT `GT:`: the eager parser has an empty second key -/
theorem lazy_eq_eager_any_line_false_trailing_colon :
    outcome laF laH wTrailColon = .differ ∧ linePlain laH wTrailColon = false := by decide

/-- INFO `A;`: accepted by the eager parser only (flag with an empty key) -/
theorem eager_only_witness_trailing_semicolon :
    outcome laF laH wEmptyKey = .eagerOnly ∧ linePlain laH wEmptyKey = false := by decide

/-- ID `a;a`: accepted by the lazy record only (the eager parser rejects duplicates) -/
theorem lazy_only_witness_duplicate_id : outcome laF laH wDupId = .lazyOnly := by decide

#print axioms lazy_any_info
#print axioms lazy_any_sample_columns
#print axioms lazy_any_genotype
#print axioms lazy_eq_eager_any_line_false_extra_column

end Noodles.Props.C09
