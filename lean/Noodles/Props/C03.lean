import Noodles.Props.C03Trunc
import Noodles.Bgzf.MtModel
import Noodles.Bgzf.MtProof
/-!
# C03 — multithreaded BGZF I/O equals single-threaded I/O under every schedule

The theorems quantify over ALL schedules (every interleaving of caller, worker tasks completing
in any order, and the writer/reader thread), every number of blocks, every channel capacity /
pool size ≥ 1 and every position of a sink failure or corrupt block.
Helper lemmas: `Noodles/Bgzf/MtProof.lean`.
-/
namespace Noodles.Props.C03
open Noodles.MtModel

/-- Safety (writer): whatever the completion order, a writer thread that returned Ok has emitted
the frames in submission order followed by the EOF marker — what the single-threaded writer emits. -/
theorem mtw_output_eq_sequential (total cap : Nat) (failAt : Option Nat) (s : W)
    (h : WReach total cap failAt s) (hfin : s.exited = true) : s.sink = frames total ++ [none] := by
  have inv := winv_reach total cap failAt s h
  have he := inv.ex hfin
  rw [inv.sk, hfin, he.2.1, he.2.2.2.2, inv.tot]; rfl

/-- At every moment the sink holds a prefix of the sequential output (never a frame out of order,
never a gap): exactly the first `written` frames, plus the EOF marker iff the thread exited. -/
theorem mtw_sink_prefix (total cap : Nat) (failAt : Option Nat) (s : W)
    (h : WReach total cap failAt s) :
    s.sink = frames s.written ++ (if s.exited then [none] else []) := by
  exact (winv_reach total cap failAt s h).sk

/-- Progress (writer): with capacity ≥ 1, every reachable state in which `finish()` has not yet
returned can take a step — no deadlock, for a healthy or a failing sink. -/
theorem mtw_no_deadlock (total cap : Nat) (hcap : 0 < cap) (failAt : Option Nat) (s : W)
    (h : WReach total cap failAt s) (hne : s.joined = false) : ∃ t, WStep s t := by
  have inv := winv_reach total cap failAt s h
  by_cases hpend : ∃ i, i < s.nsub ∧ i ∉ s.done
  · obtain ⟨i, h1, h2⟩ := hpend; exact ⟨_, WStep.complete s i h1 h2⟩
  · have hall : ∀ i, i < s.nsub → i ∈ s.done := by
      intro i hi; by_cases hm : i ∈ s.done; exact hm; exact absurd ⟨i, hi, hm⟩ hpend
    have htk := inv.tk
    have hwr := inv.wr
    have hsub := inv.sub
    cases hd : s.dead with
    | true =>
      cases hc : s.closed with
      | true => exact ⟨_, WStep.join s hc hne (Or.inr hd)⟩
      | false =>
        by_cases hlt : s.nsub < s.total
        · exact ⟨_, WStep.observe s hd hc hlt⟩
        · exact ⟨_, WStep.close s hc (by omega)⟩
    | false =>
      by_cases htw : s.taken = s.written + 1
      · have hmem : s.written ∈ s.done := hall _ (by omega)
        by_cases hf : s.failAt = some s.written
        · exact ⟨_, WStep.fail s htw hmem hf hd⟩
        · exact ⟨_, WStep.write s htw hmem hf hd⟩
      · have heq : s.taken = s.written := by omega
        cases he : s.exited with
        | true =>
          have hex := inv.ex he
          exact ⟨_, WStep.join s hex.1 hne (Or.inl he)⟩
        | false =>
          by_cases hlt : s.taken < s.nsub
          · exact ⟨_, WStep.take s heq hlt hd he⟩
          · cases hc : s.closed with
            | true => exact ⟨_, WStep.exit s hc he heq (by omega) hd⟩
            | false =>
              by_cases hs : s.nsub < s.total
              · exact ⟨_, WStep.submit s hc hs (by rw [inv.cp]; omega) hd⟩
              · exact ⟨_, WStep.close s hc (by omega)⟩

/-- Termination (writer): every schedule is finite — at most `4 * total + 4` steps. Together with
`mtw_no_deadlock`, `finish()` always returns. -/
theorem mtw_terminates (total cap : Nat) (failAt : Option Nat) (n : Nat) (t : W)
    (h : WPath (W.init total cap failAt) n t) : n ≤ 4 * total + 4 := by
  have := wpath_bound h (winv_init total cap failAt)
  rw [mu_init] at this
  exact this

/-- A failing sink is never hidden: when the sink rejects frame `k < total`, every run in which
`finish()` (or the failing `send`) has returned has handed the error to the caller, and the sink
holds exactly the frames before `k` and no EOF marker. -/
theorem mtw_error_surfaces (total cap k : Nat) (hk : k < total) (s : W)
    (h : WReach total cap (some k) s) (hj : s.joined = true) :
    s.observed = true ∧ s.sink = frames k := by
  have inv := winv_reach total cap (some k) s h
  have hj' := inv.jn hj
  have hw := inv.fw k inv.fa
  have hdead : s.dead = true := by
    rcases hj'.2 with he | hd
    · have hex := inv.ex he
      have := inv.tot
      omega
    · exact hd
  have hdd := inv.dd hdead
  have hex : s.exited = false := by
    cases he : s.exited with
    | false => rfl
    | true => have := (inv.ex he).2.2.2.1; simp [hdead] at this
  have hwk : s.written = k := by
    have := hdd.1; rw [inv.fa] at this; exact (Option.some.inj this).symm
  refine ⟨by rw [inv.jo hj]; exact hdead, ?_⟩
  rw [inv.sk, hex, hwk]; simp

/-- With a healthy sink, a returned `finish()` means the complete file was written and no error
was reported. -/
theorem mtw_ok_complete (total cap : Nat) (s : W)
    (h : WReach total cap none s) (hj : s.joined = true) :
    s.observed = false ∧ s.sink = frames total ++ [none] := by
  have inv := winv_reach total cap none s h
  have hdead : s.dead = false := by
    cases hd : s.dead with
    | false => rfl
    | true => have := (inv.dd hd).1; rw [inv.fa] at this; cases this
  have hj' := inv.jn hj
  have he : s.exited = true := by
    rcases hj'.2 with he | hd
    · exact he
    · rw [hdead] at hd; cases hd
  refine ⟨by rw [inv.jo hj]; exact hdead, ?_⟩
  exact mtw_output_eq_sequential total cap none s h he

/-- Safety (reader): blocks are handed to the caller in file order, with no gap and no
duplicate, whatever the inflate completion order. -/
theorem mtr_delivers_file_order (n nbuf : Nat) (corrupt : Option Nat) (s : R)
    (h : RReach n nbuf corrupt s) : s.out = List.range s.out.length ∧ s.out.length ≤ s.delivered := by
  have inv := rinv_reach n nbuf corrupt s h
  refine ⟨inv.ou, ?_⟩
  cases he : s.err with
  | false => exact Nat.le_of_eq (inv.e0 he)
  | true => have := (inv.e1 he).2; omega

/-- Buffers are conserved: free + in flight/queued + held by the consumer (+ the one the reader
thread consumed when it hit EOF, + the one lost with a block error) = nbuf + 1. -/
theorem mtr_tokens_conserved (n nbuf : Nat) (corrupt : Option Nat) (s : R)
    (h : RReach n nbuf corrupt s) :
    s.free + (s.issued - s.delivered) + s.held + (if s.eof then 1 else 0) + (if s.err then 1 else 0) = s.nbuf + 1 := by
  exact (rinv_reach n nbuf corrupt s h).tok

/-- Progress (reader): with at least one buffer, until everything has been delivered (or the
block error has been returned) some step is enabled — the recycle channel cannot starve. -/
theorem mtr_no_deadlock (n nbuf : Nat) (hb : 0 < nbuf) (corrupt : Option Nat) (s : R)
    (h : RReach n nbuf corrupt s) (hne : ¬ (s.eof = true ∧ s.delivered = s.n) ∧ s.err = false) :
    ∃ t, RStep s t := by
  have inv := rinv_reach n nbuf corrupt s h
  obtain ⟨hne1, herr⟩ := hne
  by_cases hpend : ∃ i, i < s.issued ∧ i ∉ s.done
  · obtain ⟨i, h1, h2⟩ := hpend; exact ⟨_, RStep.complete s i h1 h2⟩
  · have hall : ∀ i, i < s.issued → i ∈ s.done := by
      intro i hi; by_cases hm : i ∈ s.done; exact hm; exact absurd ⟨i, hi, hm⟩ hpend
    have hdl := inv.dl
    have his := inv.is
    by_cases hlt : s.delivered < s.issued
    · by_cases hc : s.corrupt = some s.delivered
      · exact ⟨_, RStep.deliverErr s hlt (hall _ hlt) hc herr⟩
      · exact ⟨_, RStep.deliver s hlt (hall _ hlt) hc herr⟩
    · have heq : s.delivered = s.issued := by omega
      cases he : s.eof with
      | true => exact absurd ⟨he, by rw [heq]; exact inv.ef he⟩ hne1
      | false =>
        have htok := inv.tok
        have hhd := inv.hd
        have hpb := inv.pb
        simp [he, herr] at htok
        have hfree : 0 < s.free := by omega
        by_cases hi : s.issued < s.n
        · exact ⟨_, RStep.issue s hfree hi he⟩
        · exact ⟨_, RStep.hitEof s hfree (by omega) he⟩

/-- A corrupt block surfaces as an error from the read that reaches it, after exactly the blocks
before it were delivered — it is never skipped. -/
theorem mtr_corrupt_block_surfaces (n nbuf j : Nat) (s : R)
    (h : RReach n nbuf (some j) s) :
    (s.err = true → s.out = List.range j) ∧ (s.err = false → s.out.length ≤ j) := by
  have inv := rinv_reach n nbuf (some j) s h
  constructor
  · intro he
    have h1 := (inv.e1 he).1
    rw [inv.pc] at h1
    have : j = s.out.length := Option.some.inj h1
    rw [this]; exact inv.ou
  · intro he
    have := inv.cj j inv.pc he
    have := inv.e0 he
    omega

/-- non-vacuity: a 3-block history with capacity 2 in which block 1 completes before block 0 -/
example : ∃ s, WReach 3 2 none s ∧ s.done = [0, 1] ∧ s.nsub = 2 := by
  refine ⟨_, WReach.step (WReach.step (WReach.step (WReach.step WReach.init
    (WStep.submit _ rfl (by decide) (by decide) rfl))
    (WStep.submit _ rfl (by decide) (by decide) rfl))
    (WStep.complete _ 1 (by decide) (by simp [W.init])))
    (WStep.complete _ 0 (by decide) (by simp [W.init])), rfl, rfl⟩

end Noodles.Props.C03
