import Noodles.Io.BgzfSourceProof
import Noodles.Props.C12More
/-!
# C12, part "comp": composition of layers

`bgzf::io::Reader` (model `Noodles.IO.Comp.BR`, `Noodles/Io/BgzfSource.lean`) is itself a byte source
whose answers do not depend on how the COMPRESSED bytes are delivered; every reader program (`Prog`)
run through it inherits that; the BAM header reader (magic, `l_text` + text with NUL padding,
reference sequences, @SQ consistency rule) is such a program.

`dec` (DEFLATE + CRC-32 of one member) is an arbitrary function throughout; `parse` (the SAM header
parser: lines ↦ @SQ dictionary or refusal) likewise.
-/
namespace Noodles.Props.C12
open Noodles.IO Noodles.IO.Comp

/-- **(1a) `read` does not depend on the inner schedule.**  Two readers with the same unread block
bytes over the same undelivered compressed bytes — delivered by ANY two schedules (short reads,
`Interrupted` anywhere) — return the same bytes / the same error from `read(buf of n bytes)`, and are
again such a pair (same unread block bytes, same compressed bytes left). -/
theorem bgzfRead_schedule_irrelevant (dec : Bytes → Except Err Bytes) (data buf : Bytes)
    (sc₁ sc₂ : List Delivery) (n : Nat) :
    (read dec ⟨⟨data, sc₁⟩, buf⟩ n).1 = (read dec ⟨⟨data, sc₂⟩, buf⟩ n).1 ∧
    (read dec ⟨⟨data, sc₁⟩, buf⟩ n).2.buf = (read dec ⟨⟨data, sc₂⟩, buf⟩ n).2.buf ∧
    (read dec ⟨⟨data, sc₁⟩, buf⟩ n).2.inner.data = (read dec ⟨⟨data, sc₂⟩, buf⟩ n).2.inner.data := by
  obtain ⟨a, b, c⟩ := read_irrel dec n ⟨⟨data, sc₁⟩, buf⟩ ⟨⟨data, sc₂⟩, buf⟩ ⟨rfl, rfl⟩
  exact ⟨a, b, c⟩

/-- **(1b) block-bounded, inside a block**: with unread bytes in the current block, `read` returns
their first `min n (unread)` bytes — at least one when `n > 0`, never past the end of the block — and
does not touch the inner reader. -/
theorem bgzfRead_buffered (dec : Bytes → Except Err Bytes) (r : BR) (n : Nat) (h : r.buf ≠ []) :
    read dec r n = (.ok (r.buf.take n), ⟨r.inner, r.buf.drop (r.buf.take n).length⟩) ∧
    (0 < n → 0 < (r.buf.take n).length) := by
  refine ⟨read_buffered dec r n h, fun hn => ?_⟩
  have : 0 < r.buf.length := List.length_pos_iff.mpr h
  rw [List.length_take]
  omega

/-- **(1c) block-bounded, at a block boundary**: with the current block used up, `read` is decided by
the next non-empty block `b` of the compressed bytes that are left (`nextBlock`, defined without any
schedule): it returns `b.take n` and keeps the rest of `b` (request below 64 KiB), or all of `b`
decoded straight into the caller's buffer (request of 64 KiB or more); the inner reader is left right
after that member; an error of the member that has to be read (framing, header, ISIZE, `dec`)
surfaces here — and only here: the bytes of the blocks before it were handed out by the earlier calls
(`bgzfRead_buffered`).  Under EVERY inner schedule. -/
theorem bgzfRead_exhausted (dec : Bytes → Except Err Bytes) (data : Bytes) (sched : List Delivery) (n : Nat) :
    match nextBlock dec data with
    | .error e => (read dec ⟨⟨data, sched⟩, []⟩ n).1 = .error e
    | .ok (b, rest) =>
      (read dec ⟨⟨data, sched⟩, []⟩ n).2.inner.data = rest ∧
      if BGZF_MAX_ISIZE ≤ n then
        (read dec ⟨⟨data, sched⟩, []⟩ n).1 = .ok b ∧ (read dec ⟨⟨data, sched⟩, []⟩ n).2.buf = []
      else
        (read dec ⟨⟨data, sched⟩, []⟩ n).1 = .ok (b.take n) ∧
        (read dec ⟨⟨data, sched⟩, []⟩ n).2.buf = b.drop (b.take n).length :=
  read_exhausted dec data sched n

/-- **(1d) a short read is never mistaken for the end**: if `read` with `n > 0` returns no bytes, the
block is used up and the compressed bytes that are left hold no further non-empty block
(`blocksOf … = ([], none)`: end of stream) — whatever the inner schedule did. -/
theorem bgzfRead_zero_only_at_end (dec : Bytes → Except Err Bytes) (data buf : Bytes) (sched : List Delivery)
    (n fuel : Nat) (hn : 0 < n) (h : (read dec ⟨⟨data, sched⟩, buf⟩ n).1 = .ok []) :
    buf = [] ∧ blocksOf dec (fuel + 1) data = ([], none) := by
  by_cases hb : buf = []
  · subst hb
    refine ⟨rfl, ?_⟩
    have key := read_exhausted dec data sched n
    unfold blocksOf
    cases hnb : nextBlock dec data with
    | error e => rw [hnb] at key; simp only at key; rw [key] at h; cases h
    | ok p =>
      obtain ⟨b, rest⟩ := p
      rw [hnb] at key
      simp only at key ⊢
      obtain ⟨_, k2⟩ := key
      have hbe : b = [] := by
        split at k2
        · rw [k2.1] at h; injection h
        · rw [k2.1] at h
          have h' : b.take n = [] := by injection h
          cases b with
          | nil => rfl
          | cons x t =>
            cases n with
            | zero => omega
            | succ m => simp at h'
      subst hbe
      rfl
  · exfalso
    have := (read_buffered dec ⟨⟨data, sched⟩, buf⟩ n hb)
    rw [this] at h
    have h' : buf.take n = [] := by injection h
    cases buf with
    | nil => exact hb rfl
    | cons x t =>
      cases n with
      | zero => omega
      | succ m => simp at h'

/-- **(1e) `Interrupted` never surfaces**: `read_frame_into` reads with the inner reader's
`read_exact`, which retries it; no other part of `read` can produce it (for a `dec` that does not). -/
theorem bgzfRead_never_interrupted (dec : Bytes → Except Err Bytes) (hd : ∀ f, dec f ≠ .error .interrupted)
    (r : BR) (n : Nat) : (read dec r n).1 ≠ .error .interrupted ∧ (fillBuf dec r).1 ≠ .error .interrupted :=
  ⟨read_not_intr dec hd r n, fillBuf_not_intr dec hd r⟩

/-- **(1f) `fill_buf` / `consume`**: the window and the state after it do not depend on the schedule;
`consume` does not touch the inner reader. -/
theorem bgzfFillBuf_schedule_irrelevant (dec : Bytes → Except Err Bytes) (data buf : Bytes)
    (sc₁ sc₂ : List Delivery) :
    (fillBuf dec ⟨⟨data, sc₁⟩, buf⟩).1 = (fillBuf dec ⟨⟨data, sc₂⟩, buf⟩).1 ∧
    (fillBuf dec ⟨⟨data, sc₁⟩, buf⟩).2.buf = (fillBuf dec ⟨⟨data, sc₂⟩, buf⟩).2.buf ∧
    (fillBuf dec ⟨⟨data, sc₁⟩, buf⟩).2.inner.data = (fillBuf dec ⟨⟨data, sc₂⟩, buf⟩).2.inner.data ∧
    ∀ (r : BR) (k : Nat), (consume k r).inner = r.inner ∧ (consume k r).buf = r.buf.drop k := by
  obtain ⟨a, b, c⟩ := fillBuf_irrel dec ⟨⟨data, sc₁⟩, buf⟩ ⟨⟨data, sc₂⟩, buf⟩ ⟨rfl, rfl⟩
  exact ⟨a, b, c, fun _ _ => ⟨rfl, rfl⟩⟩

/-- **(1g) a whole script of `read(n_i)` calls**: the sequence of byte strings returned, the error
that ends it (if any) and the reader's state afterwards are the same for any two inner schedules. -/
theorem bgzfReadScript_schedule_irrelevant (dec : Bytes → Except Err Bytes) (data : Bytes)
    (sc₁ sc₂ : List Delivery) (ns : List Nat) :
    (readScript dec ns (BR.init ⟨data, sc₁⟩) []).1 = (readScript dec ns (BR.init ⟨data, sc₂⟩) []).1 ∧
    (readScript dec ns (BR.init ⟨data, sc₁⟩) []).2.buf = (readScript dec ns (BR.init ⟨data, sc₂⟩) []).2.buf := by
  obtain ⟨a, b, _⟩ := readScript_irrel dec ns (BR.init ⟨data, sc₁⟩) (BR.init ⟨data, sc₂⟩) [] ⟨rfl, rfl⟩
  exact ⟨a, b⟩

/-- **(2) composition**: EVERY reader program `p` (BAM / BCF records, BAI / tabix / CSI / gzi payload
readers, the BAM header below, …) run over `bgzf::io::Reader` over a scheduled compressed source
computes the same result — value or error, the errors of the BGZF layer included — and leaves the
reader with the same unread bytes over the same compressed bytes, for any two inner schedules and any
two sequences of buffer sizes inside `read_to_end`… the latter with the same `sz` on both sides (the
sizes are std's choice, not the source's). -/
theorem prog_over_bgzf_schedule_irrelevant {β : Type} (dec : Bytes → Except Err Bytes) (sz : Nat → List Nat)
    (p : Prog β) (data : Bytes) (sc₁ sc₂ : List Delivery) :
    (runB dec sz p (BR.init ⟨data, sc₁⟩)).1 = (runB dec sz p (BR.init ⟨data, sc₂⟩)).1 ∧
    (runB dec sz p (BR.init ⟨data, sc₁⟩)).2.buf = (runB dec sz p (BR.init ⟨data, sc₂⟩)).2.buf ∧
    (runB dec sz p (BR.init ⟨data, sc₁⟩)).2.inner.data = (runB dec sz p (BR.init ⟨data, sc₂⟩)).2.inner.data := by
  obtain ⟨a, b, c⟩ := runBAt_irrel dec sz p 0 (BR.init ⟨data, sc₁⟩) (BR.init ⟨data, sc₂⟩) ⟨rfl, rfl⟩
  exact ⟨a, b, c⟩

/-- **(3a) the BAM header reader over a raw source** computes `Prog.runPure (bamReadHeader parse)` of
the bytes: the same header / error and the same bytes left for every schedule and all buffer sizes. -/
theorem bamHeader_refines (parse : List Bytes → Except Err (List (Bytes × Nat))) (sz : Nat → List Nat)
    (data : Bytes) (sched : List Delivery) :
    (Prog.run sz (bamReadHeader parse) ⟨data, sched⟩).1 = (Prog.runPure (bamReadHeader parse) data).1 ∧
    (Prog.run sz (bamReadHeader parse) ⟨data, sched⟩).2.data = (Prog.runPure (bamReadHeader parse) data).2 :=
  prog_refines (bamReadHeader parse) sz data sched

theorem bamHeader_schedule_irrelevant (parse : List Bytes → Except Err (List (Bytes × Nat)))
    (sz₁ sz₂ : Nat → List Nat) (data : Bytes) (sc₁ sc₂ : List Delivery) :
    (Prog.run sz₁ (bamReadHeader parse) ⟨data, sc₁⟩).1 = (Prog.run sz₂ (bamReadHeader parse) ⟨data, sc₂⟩).1 ∧
    (Prog.run sz₁ (bamReadHeader parse) ⟨data, sc₁⟩).2.data = (Prog.run sz₂ (bamReadHeader parse) ⟨data, sc₂⟩).2.data :=
  prog_schedule_irrelevant (bamReadHeader parse) sz₁ sz₂ data sc₁ sc₂

/-- **(3b) the BAM header reader through BGZF** (`bam::io::Reader::new(src).read_header()`): the same
header / error for any two schedules of the compressed source. -/
theorem bamHeader_over_bgzf_schedule_irrelevant (dec : Bytes → Except Err Bytes)
    (parse : List Bytes → Except Err (List (Bytes × Nat))) (sz : Nat → List Nat) (data : Bytes)
    (sc₁ sc₂ : List Delivery) :
    (runB dec sz (bamReadHeader parse) (BR.init ⟨data, sc₁⟩)).1 =
      (runB dec sz (bamReadHeader parse) (BR.init ⟨data, sc₂⟩)).1 :=
  (prog_over_bgzf_schedule_irrelevant dec sz (bamReadHeader parse) data sc₁ sc₂).1

/-! ### non-vacuity: a header with two reference sequences

`BAM\1`, `l_text` = 31, the text `@SQ SN:a LN:8` CRLF `@SQ SN:b LN:9` LF NUL NUL, `n_ref` = 2,
(`a\0`, 8), (`b\0`, 9), and two bytes that belong to whatever follows. -/

def hdr2 : Bytes := [66, 65, 77, 1, 31, 0, 0, 0, 64, 83, 81, 9, 83, 78, 58, 97, 9, 76, 78, 58, 56, 13, 10, 64, 83, 81, 9, 83, 78, 58, 98, 9, 76, 78, 58, 57, 10, 0, 0, 2, 0, 0, 0, 2, 0, 0, 0, 97, 0, 8, 0, 0, 0, 2, 0, 0, 0, 98, 0, 9, 0, 0, 0, 7, 7]

def line1 : Bytes := [64, 83, 81, 9, 83, 78, 58, 97, 9, 76, 78, 58, 56]
def line2 : Bytes := [64, 83, 81, 9, 83, 78, 58, 98, 9, 76, 78, 58, 57]

/-- the parser finds both @SQ lines: the dictionaries agree, the header is accepted, the CRLF / LF are
stripped, the NUL padding is not a line, exactly the two trailing bytes are left -/
example : Prog.runPure (bamReadHeader fun _ => .ok [([97], 8), ([98], 9)]) hdr2 =
    (.ok ⟨[line1, line2], [([97], 8), ([98], 9)]⟩, [7, 7]) := by decide

/-- no @SQ line in the text: the binary dictionary is taken -/
example : (Prog.runPure (bamReadHeader fun _ => .ok []) hdr2).1 =
    .ok ⟨[line1, line2], [([97], 8), ([98], 9)]⟩ := by decide

/-- the text says `b` has length 10, the binary section 9: refused -/
example : (Prog.runPure (bamReadHeader fun _ => .ok [([97], 8), ([98], 10)]) hdr2).1 = .error .invalidData := by
  decide

/-- one @SQ line, two binary entries: refused -/
example : (Prog.runPure (bamReadHeader fun _ => .ok [([97], 8)]) hdr2).1 = .error .invalidData := by decide

/-- the parser refuses a line: `InvalidData`; the input ends inside the reference section: `UnexpectedEof` -/
example : (Prog.runPure (bamReadHeader fun _ => .error .fuel) hdr2).1 = .error .invalidData := by decide
example : (Prog.runPure (bamReadHeader fun _ => .ok []) (hdr2.take 50)).1 = .error .eof := by decide

/-- a duplicated name in the binary dictionary keeps one entry with the last length (`IndexMap::insert`) -/
example : insertRef [97] 9 (insertRef [98] 5 (insertRef [97] 8 [])) = [([97], 9), ([98], 5)] := by decide

/-- the C string rule: exactly one NUL, at the end -/
example : cstr [97, 0] = .ok [97] ∧ cstr [97] = .error .invalidData ∧ cstr [] = .error .invalidData ∧
    cstr [97, 0, 98, 0] = .error .invalidData ∧ cstr [0] = .ok [] := by decide

/-- a NUL at the start of a line ends the text, a NUL inside a line does not; a last line without LF
keeps everything, a CR before the LF is stripped -/
example : hdrTextLines 20 [64, 0, 65, 13, 10, 0, 64, 10] [] = [[64, 0, 65]] ∧
    hdrTextLines 20 [64, 10, 65, 13, 0] [] = [[64], [65, 13, 0]] ∧ hdrTextLines 20 [0, 64, 10] [] = [] := by decide

/-! ### non-vacuity of the BGZF part: a two-member stream, a toy decoder, an adversarial schedule

`member2` = a 26-byte member (valid header, BSIZE = 25, ISIZE = 2); `emptyMember` = the same with
ISIZE = 0; the toy decoder inflates every member to ISIZE bytes `1, 2`. -/

def member2 : Bytes := [0x1f, 0x8b, 8, 4, 0, 0, 0, 0, 0, 0xff, 6, 0, 0x42, 0x43, 2, 0, 25, 0, 0, 0, 0, 0, 2, 0, 0, 0]
def emptyMember : Bytes := [0x1f, 0x8b, 8, 4, 0, 0, 0, 0, 0, 0xff, 6, 0, 0x42, 0x43, 2, 0, 25, 0, 0, 0, 0, 0, 0, 0, 0, 0]
def toyDec (f : Bytes) : Except Err Bytes := .ok (([1, 2] : Bytes).take (leNat (f.drop (f.length - 4))))
def nasty : List Delivery := [.interrupted, .chunk 1, .interrupted, .interrupted, .chunk 3, .chunk 1, .interrupted]

/-- the empty member is skipped, the block after it is found, the stream has two blocks and a clean end -/
example : nextBlock toyDec (emptyMember ++ member2 ++ member2) = .ok ([1, 2], member2) := by decide
set_option maxRecDepth 8000 in
example : blocksOf toyDec 5 (emptyMember ++ member2 ++ emptyMember ++ member2 ++ emptyMember) = ([[1, 2], [1, 2]], none) := by
  decide
/-- reads of 1, 5, 5, 5 bytes under the nasty schedule: 1 byte, the REST OF THE BLOCK (1 byte, not 5),
the next block (2 bytes), then 0 = the end; the same with no schedule at all -/
example : (readScript toyDec [1, 5, 5, 5] (BR.init ⟨emptyMember ++ member2 ++ member2, nasty⟩) []).1 =
    ([[1], [2], [1, 2], []], none) := by decide
example : (readScript toyDec [1, 5, 5, 5] (BR.init ⟨emptyMember ++ member2 ++ member2, []⟩) []).1 =
    ([[1], [2], [1, 2], []], none) := by decide
/-- a damaged second member (bad magic): the first block is still delivered, then `InvalidData`; cut
inside the second member's body: `UnexpectedEof`; cut inside its header: a clean end -/
example : (readScript toyDec [5, 5] (BR.init ⟨member2 ++ (0 :: member2.drop 1), nasty⟩) []).1 =
    ([[1, 2]], some .invalidData) := by decide
example : (readScript toyDec [5, 5] (BR.init ⟨member2 ++ member2.take 20, nasty⟩) []).1 = ([[1, 2]], some .eof) := by decide
example : (readScript toyDec [5, 5] (BR.init ⟨member2 ++ member2.take 17, nasty⟩) []).1 = ([[1, 2], []], none) := by decide
/-- the hypothesis of `bgzfRead_zero_only_at_end` is met at the end of a stream -/
example : (read toyDec ⟨⟨emptyMember, nasty⟩, []⟩ 1).1 = .ok [] := by decide
/-- a reader program through the BGZF reader: a `u32` that straddles the two blocks -/
example : (runB toyDec (fun _ => []) Prog.u32le (BR.init ⟨member2 ++ emptyMember ++ member2, nasty⟩)).1 = .ok 33620481 := by
  decide

#print axioms bgzfRead_schedule_irrelevant
#print axioms bgzfRead_buffered
#print axioms bgzfRead_exhausted
#print axioms bgzfRead_zero_only_at_end
#print axioms bgzfRead_never_interrupted
#print axioms bgzfFillBuf_schedule_irrelevant
#print axioms bgzfReadScript_schedule_irrelevant
#print axioms prog_over_bgzf_schedule_irrelevant
#print axioms bamHeader_refines
#print axioms bamHeader_schedule_irrelevant
#print axioms bamHeader_over_bgzf_schedule_irrelevant
end Noodles.Props.C12
