import Noodles.Cram.Aac
import Noodles.Cram.AacModelProof
import Noodles.Cram.AacRcProof
import Noodles.Cram.AacCodecProof
import Noodles.Cram.AacTopProof
import Noodles.Cram.AacTotalProof
import Noodles.Cram.AacDeadProof
/-!
# C08 (extension) — the adaptive arithmetic coder decodes exactly what it encoded

Model: `Noodles/Cram/Aac.lean` — `noodles-cram/src/codecs/aac` transcribed, encoder AND decoder:
the adaptive frequency model (`model.rs`), the range coder with its byte-wise carry propagation
(`range_coder.rs`), the order-0 / order-1 / run-length codecs, and `encode` / `decode` for every
flag byte (ORDER, EXT, STRIPE, NO_SIZE, CAT, RLE, PACK, reserved). Helper lemmas:
`AacModelProof.lean`, `AacRcProof.lean`, `AacCodecProof.lean`, `AacTopProof.lean`.

Everything below is proved OUTRIGHT — there is no `Lawful` hypothesis about the range coder; the
bit-exact carry argument is `aac_carry_propagation` / `aac_range_coder_step`. The only assumed
law is bzip2's (`BzLawful`, flag EXT), which the harness validates on every EXT payload.

The model describes the tree with the decoder hardening commits (frequency ≥ total, bit-pack
index, stripe chunk sizes and nesting depth are `InvalidData`; the run-length decoders stop
reading a run length once the run covers the rest of the output): `aac_roundtrip` shows that the
encoder's own output passes every one of these checks; and with the commit `fix: cram adaptive
arithmetic coder refused every input containing the byte 0xff` (`write_symbol_count` writes a full
alphabet as 0). Before that commit "the encoder answers for every byte string" was FALSE
(`u8::try_from(256)`: `encode(0x00, [0xff])` and, through bit packing, `encode(0x80, [9;8] ++
[4;8])` were `InvalidInput` — both are in the harness corpus, `has-ff` / `pack-to-ff`); it is now
the theorem `aac_encode_total`.
-/
namespace Noodles.Props.C08
open Noodles.Cram Noodles.Cram.Aac

/-! ## 1. the adaptive model -/

/-- `Model::new` establishes and the shared update keeps: both arrays have one length, the total is
the SUM of the frequencies, EVERY frequency is ≥ 1 (also after the halving renormalisation: no
symbol ever becomes uncodable) and the total stays ≤ `(1 << 16) - 17 = 65519` (so `range / total`
is never 0 and every interval has room). -/
theorem aac_model_invariant :
    (∀ n, n ≤ 256 → (Model.new n).WF) ∧
    (∀ (m : Model) (x : Nat), m.WF → x < m.freqs.length → (m.update x).WF) :=
  ⟨Model.new_wf, Model.update_wf⟩

/-- `encodeSymbol` / `decodeSymbol` pick the same cumulative interval: whatever position, `acc` and
frequency the encoder's search (`while symbols[x] != sym`) returns, the decoder's search (`while
acc + f[x] <= freq`) returns the same triple for EVERY frequency value inside `[acc, acc + f)`;
the interval lies inside the total and the symbol stored at that position is the coded one. -/
theorem aac_model_same_interval (m : Model) (s x acc f fr : Nat)
    (h : findGo s m.syms m.freqs 0 0 = some (x, acc, f)) (h1 : acc ≤ fr) (h2 : fr < acc + f) :
    locateGo fr m.freqs 0 0 = some (x, acc, f) ∧ acc + f ≤ m.freqs.sum ∧ m.syms[x]? = some s := by
  obtain ⟨_, _, h3, _, h5⟩ := findGo_spec s m.syms m.freqs 0 0 x acc f h
  exact ⟨locateGo_findGo s m.syms m.freqs 0 0 x acc f fr h h1 h2, by simpa using h5, by simpa using h3⟩

/-- The model update is THE SAME FUNCTION on both sides (`Model.update`, called by `Model.encode`
and `Model.decode` with the position their searches agree on): when the decoder's frequency value
falls into the interval the encoder used, it returns the coded symbol and the very model the
encoder is left with. Along any symbol sequence the two model states therefore stay equal. -/
theorem aac_model_step (m m1 : Model) (e e1 : Enc) (s : Nat) (hwf : m.WF)
    (h : m.encode e s = some (m1, e1)) :
    ∃ acc f, e1 = e.encode acc f m.total ∧ 1 ≤ f ∧ acc + f ≤ m.total ∧ m.total ≤ 65519 ∧ m1.WF ∧
      ∀ d d', acc ≤ d.code / (d.range / m.total) → d.code / (d.range / m.total) < acc + f →
        normDec 4 ⟨d.range / m.total * f, d.code - acc * (d.range / m.total), d.src⟩ = .ok d' →
        m.decode d = .ok (s, m1, d') := by
  obtain ⟨x, acc, f, hfind, rfl, rfl, hf, hlf, _, hx, hsym⟩ := Model.encode_spec m e s m1 e1 hwf h
  refine ⟨acc, f, rfl, hf, hlf, hwf.bound, Model.update_wf m x hwf hx, ?_⟩
  intro d d' g1 g2 hd
  unfold Model.decode
  simp only [locateGo_findGo s m.syms m.freqs 0 0 x acc f _ hfind g1 g2, hd, hsym]

/-! ## 2. the range coder -/

/-- **Carry propagation.** The registers and the bytes written stand for one number `N e` (bytes
written, cached byte, `ff_num` × `0xff`, the four bytes of `low`, `+ 2^32` for a pending carry).
Whichever branch `range_shift_low` takes — write the cache and the pending `0xff`s; write them
incremented (`cache + 1`, then `0x00`s) because a carry arrived; count one more `0xff` — that
number is multiplied by exactly 256, and only bytes are written. -/
theorem aac_carry_propagation (e : Enc) (h : Inv0 e) :
    N (shiftLow e) = 256 * N e ∧ D (shiftLow e) = D e + 1 ∧ Inv0 (shiftLow e) :=
  ⟨(shiftLow_spec e h).1, shiftLow_D e, (shiftLow_spec e h).2.1⟩

/-- The state invariant (`low < 2^32`, `1 ≤ range < 2^32`, `low + carry·2^32 + range ≤ 2^33`, the
pending bytes plus the range fit their digits, the whole number plus the range fits one digit less
than it has) holds initially and is kept by `range_encode` for every interval inside a total below
`2^16`; the coder is left normalised (`range ≥ 2^24`) and the number has grown by
`sym_low * (range / tot)` before the shifts. None of the `u32` products overflows. -/
theorem aac_range_coder_invariant :
    Inv Enc.init ∧
    ∀ (e : Enc) (lo f tot : Nat), Inv e → 1 ≤ f → lo + f ≤ tot → tot ≤ 2 ^ 16 → 2 ^ 24 ≤ e.range →
      Inv (e.encode lo f tot) ∧ 2 ^ 24 ≤ (e.encode lo f tot).range ∧
      N (narrowed e lo f tot) = N e + lo * (e.range / tot) ∧
      lo * (e.range / tot) + e.range / tot * f ≤ e.range := by
  refine ⟨init_inv, ?_⟩
  intro e lo f tot h hf hlf htot hr
  obtain ⟨h1, h2⟩ := encode_inv e lo f tot h hf hlf htot hr
  obtain ⟨_, h3, _, _, _, h4⟩ := narrowed_spec e lo f tot h hf hlf htot hr
  exact ⟨h1, h2, h3, h4⟩

/-- `range_encode_end` writes the number out: the stream is the big-endian form of `N e`, one byte
per digit, and every element is a byte. -/
theorem aac_range_coder_finish (e : Enc) (h : Inv e) :
    num e.finish = N e ∧ e.finish.length = D e ∧ ∀ b ∈ e.finish, b < 256 :=
  finish_spec e h.inv0

/-- **One step of the range coder.** `B` is the finished stream. If the decoder is tied to the
encoder state `e` (same range; `code` = the first `D e` digits of `B` minus `N e`; `code < range`;
exactly `D e` bytes read) and `B` lies in the interval of the state after the step, then
`range_get_freq` returns a value in `[sym_low, sym_low + sym_freq)` — decoding the interval the
encoder narrowed to returns that interval — and after `range_decode` the decoder is tied to the
next encoder state: `code - low` stays in range, `code << 8` never loses a bit, and exactly the
bytes the encoder's shifts made final are consumed. -/
theorem aac_range_coder_step (B : List Nat) (hB : ∀ b ∈ B, b < 256) (e : Enc) (d : Dec)
    (lo f tot : Nat) (h : Inv e) (hf : 1 ≤ f) (hlf : lo + f ≤ tot) (htot : tot ≤ 2 ^ 16)
    (hr : 2 ^ 24 ≤ e.range) (hrel : Rel B e d) (hs : Sand B (e.encode lo f tot)) :
    lo ≤ d.code / (d.range / tot) ∧ d.code / (d.range / tot) < lo + f ∧
    ∃ d', normDec 4 ⟨d.range / tot * f, d.code - lo * (d.range / tot), d.src⟩ = .ok d' ∧
      Rel B (e.encode lo f tot) d' :=
  step_sync B hB e d lo f tot h hf hlf htot hr hrel hs

/-- The hypothesis `Sand` of the step is what the encoder guarantees: the finished stream lies in
the interval of EVERY state the encoder passes through (read at that state's number of digits). -/
theorem aac_stream_in_every_interval (evs : List (Nat × Nat)) (ms ms' : List Model) (e e' : Enc)
    (hwf : AllWF ms) (hinv : Inv e) (hr : 2 ^ 24 ≤ e.range)
    (h : encSyms ms e evs = some (ms', e')) : Sand e'.finish e :=
  sand_of_encSyms evs ms e ms' e' hwf hinv hr h

/-- **One coded symbol, model and range coder together**, and the start: `RangeCoder::new` on the
finished stream is in step with `RangeCoder::default()` (the first byte written is 0, so
discarding it loses nothing); from a state in step, `Model::decode` on the model of the next event
returns that event's symbol, leaves the same updated model, and is in step for the rest. -/
theorem aac_symbol_sync :
    (∀ (ms ms' : List Model) (e' : Enc) (evs : List (Nat × Nat)), AllWF ms →
      encSyms ms Enc.init evs = some (ms', e') →
      ∃ d, Dec.init e'.finish = .ok d ∧ Sync e'.finish ms Enc.init d evs) ∧
    (∀ (B : List Nat) (ms : List Model) (e : Enc) (d : Dec) (c s : Nat) (evs : List (Nat × Nat)),
      Sync B ms e d ((c, s) :: evs) →
      ∃ m m' d' e', ms[c]? = some m ∧ m.decode d = .ok (s, m', d') ∧ Sync B (ms.set c m') e' d' evs) :=
  ⟨sync_init, sync_step⟩

/-! ## 3. the codecs -/

/-- order 0 (`o1 = false`) and order 1 (`o1 = true`): `decode(encode(src)) = src` for EVERY symbol
string the encoder answers for -/
theorem aac_order_roundtrip (o1 : Bool) (src enc : List Nat)
    (h : (if o1 then encode1 src else encode0 src) = .ok enc) :
    decodeOrd o1 src.length enc = .ok src :=
  decodeOrd_encode o1 src enc h

/-- the run-length codecs (order 0 and 1): the run-length parts in their 258 contexts, runs that
end the input (where the decoder stops reading parts early), everything -/
theorem aac_rle_roundtrip (o1 : Bool) (src enc : List Nat) (h : encodeRle o1 src = .ok enc) :
    decodeRle o1 src.length enc = .ok src :=
  decodeRle_encode o1 src enc h

/-- noodles' `bit_pack::decode` (the one `aac::decode` calls: a value outside the map is an
error, a short input leaves zeros) undoes `bit_pack::encode` for 1..16 distinct symbols -/
theorem aac_unpack_inverse (src : List Nat) (hsym : ∀ x ∈ src, x < 256)
    (h1 : 1 ≤ (Nx.symbols src).length) (h16 : (Nx.symbols src).length ≤ 16) :
    unpackN (Nx.symbols src) src.length (Nx.packEnc (Nx.symbols src) src) = .ok src :=
  unpackN_packEnc src hsym h1 h16

/-- `transpose` of `decode/stripe.rs` (`dst[j * 4 + i] = chunk_i[j]`) undoes the encoder's -/
theorem aac_stripe_inverse (src : List Nat) :
    transposeDec [Nx.transpose 4 src 0, Nx.transpose 4 src 1, Nx.transpose 4 src 2, Nx.transpose 4 src 3]
      src.length = src :=
  transposeDec_transpose src

/-- the flag byte survives: all eight bits are kept by `Flags::from(u8)` / `u8::from(Flags)` -/
theorem aac_flags_byte (f : Aac.Flags) : Aac.Flags.ofByte f.toByte = f := Aac.ofByte_toByte f

/-- **`aac_roundtrip`**: for EVERY flag byte — ORDER, EXT, STRIPE, NO_SIZE, CAT, RLE, PACK and the
reserved bit in any combination, including the encoder's own rewrite of its flag byte (PACK
dropped) — and EVERY byte string: whatever `aac::encode` returns, `aac::decode` (given the input
length, which the CRAM block header supplies under NO_SIZE) returns the input. The decoder's
checks (frequency below the total, bit-pack indices, stripe chunk sizes, nesting depth) all pass.
The only assumption is bzip2's round trip, needed for flag EXT. -/
theorem aac_roundtrip (bz : List Nat → List Nat) (unbz : List Nat → Nat → Except DecErr (List Nat))
    (hbz : BzLawful bz unbz) (f : Aac.Flags) (src enc : List Nat) (hsym : ∀ x ∈ src, x < 256)
    (h : Aac.encode bz f src = .ok enc) : Aac.decode unbz enc src.length = .ok src :=
  decode_encode bz unbz hbz f src enc hsym h

/-! ## 4. the encoder answers -/

/-- The symbol count byte: `write_symbol_count` answers for every count `1..256` (256 is written as
0) and `read_symbol_count` maps the byte back. -/
theorem aac_symbol_count_roundtrip (n : Nat) (h1 : 1 ≤ n) (h2 : n ≤ 256) (r : List Nat) :
    symbolCountByte n = .ok [countByte n] ∧ readSymbolCount ([countByte n] ++ r) = .ok (n, r) :=
  ⟨symbolCountByte_ok n h2, readSymbolCount_cons n r h1 h2⟩

/-- The entropy coders answer for EVERY byte string, and `Model::encode` never walks past its
symbol table (the `trap` outcome of the model is dead): every model stays a permutation of its
alphabet, every context index exists, every run-length part is below 4. -/
theorem aac_entropy_encode_total (data : List Nat) (hsym : ∀ x ∈ data, x < 256) :
    (∃ enc, encode0 data = .ok enc) ∧ (∃ enc, encode1 data = .ok enc) ∧
    ∀ o1, ∃ enc, encodeRle o1 data = .ok enc := by
  have hc : countSymbols data ≤ 256 := countSymbols_le data hsym
  exact ⟨encodeOrd_total false data hc, encodeOrd_total true data hc,
    fun o1 => encodeRle_total o1 data hsym hc⟩

/-- **`aac_encode_total`**: for EVERY flag byte and EVERY byte string below 4 GiB `aac::encode`
answers (the packed data is not longer than the input, a stripe chunk is at most `7 + 2·|chunk|`
bytes, so every size fits its `u32` field) — and (`aac_roundtrip`) the answer decodes to the
input. The round trip therefore holds unconditionally. -/
theorem aac_encode_total (bz : List Nat → List Nat)
    (unbz : List Nat → Nat → Except DecErr (List Nat)) (hbz : BzLawful bz unbz) (f : Aac.Flags)
    (src : List Nat) (hlen : src.length < 2 ^ 32) (hsym : ∀ x ∈ src, x < 256) :
    ∃ enc, Aac.encode bz f src = .ok enc ∧ Aac.decode unbz enc src.length = .ok src := by
  obtain ⟨enc, he⟩ := encode_total bz f src hlen hsym
  exact ⟨enc, he, decode_encode bz unbz hbz f src enc hsym he⟩

/-! ## 5. the decoder on arbitrary input -/

/-- On ANY byte string — corrupt streams included — and any outer size, the transcribed decoder
answers with data or with one of the real decoder's `io::Error`s (`UnexpectedEof`, `InvalidData`,
`InvalidInput`): the two artificial outcomes of the model are dead. `trap` stands for the index
panics `models[prev_sym]` / `rle_models[sym]` (a decoded symbol is always below the symbol count:
the models stay permutations of their alphabets on every input), `fuel` for the recursion budget
of the run-length parts (every further part needs three more bytes of output). bzip2 is assumed
to answer with data or an ordinary error. -/
theorem aac_decoder_never_traps (unbz : List Nat → Nat → Except DecErr (List Nat))
    (hu : UnbzClean unbz) (bs : List Nat) (n : Nat) (hb : ∀ b ∈ bs, b < 256) :
    Aac.decode unbz bs n ≠ .error .trap ∧ Aac.decode unbz bs n ≠ .error .fuel :=
  decode_clean unbz hu bs n hb

/-! ## non-vacuity -/

/-- equality of answers is decidable (for the concrete witnesses below, evaluated by the kernel) -/
@[instance_reducible] def exceptDecEq {ε α : Type} [DecidableEq ε] [DecidableEq α] : DecidableEq (Except ε α)
  | .ok a, .ok b => if h : a = b then isTrue (h ▸ rfl) else isFalse fun h' => h (Except.ok.inj h')
  | .error a, .error b => if h : a = b then isTrue (h ▸ rfl) else isFalse fun h' => h (Except.error.inj h')
  | .ok _, .error _ => isFalse fun h => nomatch h
  | .error _, .ok _ => isFalse fun h => nomatch h
attribute [local instance] exceptDecEq

-- the hypothesis `encode … = .ok enc` is satisfiable; these are noodles' own unit-test vectors
-- (`encode.rs`: `test_encode_order_0`, `_order_1`, `_rle_with_order_1`, `_stripe`, `_pack`)
example : Aac.encode (fun _ => []) (Aac.Flags.ofByte 0x00) [110, 111, 111, 100, 108, 101, 115]
    = .ok [0x00, 0x07, 0x74, 0x00, 0xf4, 0xe5, 0xb7, 0x4e, 0x50, 0x0f, 0x2e, 0x97, 0x00] := by rfl
example : Aac.encode (fun _ => []) (Aac.Flags.ofByte 0x01) [110, 111, 111, 100, 108, 101, 115]
    = .ok [0x01, 0x07, 0x74, 0x00, 0xf4, 0xe3, 0x83, 0x41, 0xe2, 0x9a, 0xef, 0x53, 0x50, 0x00] := by rfl
example : Aac.encode (fun _ => []) (Aac.Flags.ofByte 0x41)
      [110, 111, 111, 111, 111, 111, 111, 111, 111, 100, 108, 101, 115]
    = .ok [0x41, 0x0d, 0x74, 0x00, 0xf3, 0x4a, 0x89, 0x79, 0xc1, 0xe8, 0xc3, 0xc5, 0x62, 0x31, 0x00] := by
  decide +kernel
example : Aac.encode (fun _ => []) (Aac.Flags.ofByte 0x08) [110, 111, 111, 100, 108, 101, 115]
    = .ok [0x08, 0x07, 0x04, 0x08, 0x08, 0x08, 0x07,
      0x10, 0x6f, 0x00, 0xff, 0xa7, 0xab, 0x62, 0x00, 0x10, 0x70, 0x00, 0xff, 0x84, 0x92, 0x1b, 0x00,
      0x10, 0x74, 0x00, 0xf7, 0x27, 0xdb, 0x24, 0x00, 0x10, 0x65, 0x00, 0xfd, 0x77, 0x20, 0xb0] := by rfl
example : Aac.encode (fun _ => []) (Aac.Flags.ofByte 0xa0) [110, 111, 111, 100, 108, 101, 115]
    = .ok [0xa0, 0x07, 0x06, 0x64, 0x65, 0x6c, 0x6e, 0x6f, 0x73, 0x04, 0x43, 0x04, 0x12, 0x05] := by rfl
-- … and the decoder really runs on them
example : Aac.decode (fun _ _ => .error .eof)
    [0x01, 0x07, 0x74, 0x00, 0xf4, 0xe3, 0x83, 0x41, 0xe2, 0x9a, 0xef, 0x53, 0x50, 0x00] 0
    = .ok [110, 111, 111, 100, 108, 101, 115] := by rfl

-- a carry really propagates through `range_shift_low`: cache 0x12, two pending 0xff, carry set
example : (shiftLow ⟨0x00345678, 1, true, 0x12, 2, []⟩).out = [0, 0, 0x13] := by rfl
-- … and the state satisfies the hypothesis of `aac_carry_propagation`
example : Inv0 ⟨0x00345678, 1, true, 0x12, 2, []⟩ := ⟨by decide, by decide, by decide, by simp⟩

-- the hypotheses of `aac_model_same_interval` / `aac_model_step` are satisfiable
example : findGo 2 (Model.new 4).syms (Model.new 4).freqs 0 0 = some (2, 2, 1) := by rfl
example : ∃ m1 e1, (Model.new 4).encode Enc.init 2 = some (m1, e1) := ⟨_, _, rfl⟩

-- a lawful bzip2 exists (the identity): `BzLawful` is not contradictory
example : BzLawful (fun x => x) (fun y n => if n ≤ y.length then .ok (y.take n) else .error .eof) :=
  ⟨fun x => by simp⟩

-- inputs with the byte 0xff (refused before the `write_symbol_count` fix): the count byte is 0
example : Aac.encode (fun _ => []) (Aac.Flags.ofByte 0x00) [255]
    = .ok [0x00, 0x01, 0x00, 0x00, 0xfe, 0xff, 0xff, 0x01, 0x00] := by decide +kernel
example : Aac.decode (fun _ _ => .error .eof) [0x00, 0x01, 0x00, 0x00, 0xfe, 0xff, 0xff, 0x01, 0x00] 0
    = .ok [255] := by decide +kernel
-- … and a symbol that is not a byte is refused, as `u8::try_from` would
example : encode0 [256] = .error .invalidInput := by decide +kernel

end Noodles.Props.C08
