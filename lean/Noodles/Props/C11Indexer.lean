import Noodles.Fasta.IndexerSched
import Noodles.Fasta.IndexerSchedProof
import Noodles.Fasta.IndexerSchedProof2
import Noodles.Fasta.IndexerSchedProof3
import Noodles.Fasta.WriteReadProof
import Noodles.Fasta.RecordsSchedProof
import Noodles.Fasta.WfFastaCleanProof
import Noodles.Fasta.Proof
import Noodles.Props.C11More
/-!
# C11, the FASTA indexer under arbitrary `fill_buf` windows

Model: `Noodles/Fasta/IndexerSched.lean` — `Indexer::index_record`, `read_definition` (`read_line`,
std `read_until`), `consume_sequence_line` (`memchr`, `count_bases`, the `>` test on every window),
`is_last_sequence_line` and the record loop, call by call over a `BufRead` driven by a schedule with
one entry per `fill_buf` call (`Step.win k`: a window of `k + 1` bytes; `Step.intr`:
`ErrorKind::Interrupted`; afterwards whole-buffer windows). Helper lemmas:
`Noodles/Fasta/IndexerSchedProof.lean` (the window loops), `IndexerSchedProof2.lean` (records),
`IndexerSchedProof3.lean` (`LinesClean`), `RecordsSchedProof.lean` (C12's record iterator = naive parse).

The hypothesis `LinesClean f` is the alphabet assumption of C11 stated on the raw lines of the
file: a line that is not a definition line has no CR and no `>` among its bases (its terminator —
LF, CR LF, or a lone CR before the end of the file — taken off). It is exactly what is needed:
`idx_cr_edge_witness` / `idx_gt_edge_witness` show that with a lone CR or a `>` inside a sequence
line the answer of the indexer depends on where a window ends (known finding F33-C12; replayed on
the real indexer over `BufReader::with_capacity(1, ..)` by the harness corpus).
-/
namespace Noodles.Props.C11
open Noodles.Fasta

/-- **Schedule independence.** For every byte string whose sequence lines are clean and EVERY
schedule of `fill_buf` windows and interruptions — windows ending inside a line, between CR and LF,
just before a `>`, one byte at a time — the indexer returns the same index, or the same
`IndexError` with the same payload, as over one whole-buffer window. -/
theorem idx_schedule_independent (f : Bytes) (sc : List Step) (h : LinesClean f) :
    indexFileSched f sc = indexFileSched f [] :=
  indexFileSched_indep f sc h

/-- With whole-buffer windows the call-by-call transcription IS the indexer model of
`Noodles/Fasta/Model.lean` (the one all `fai_*` theorems are about), for every byte string;
`IdxErr.toErr` is `impl From<IndexError> for io::Error`. -/
theorem idx_whole_buffer_is_model (f : Bytes) :
    (indexFileSched f []).mapError IdxErr.toErr = indexFile f :=
  indexFileSched_nil f

/-- Under every schedule the indexer is the whole-buffer model on clean files. -/
theorem idx_any_schedule_is_model (f : Bytes) (sc : List Step) (h : LinesClean f) :
    (indexFileSched f sc).mapError IdxErr.toErr = indexFile f := by
  rw [idx_schedule_independent f sc h]; exact idx_whole_buffer_is_model f

/-- an index produced under any schedule is the index of the whole-buffer model -/
theorem idx_ok_is_model {f : Bytes} {sc : List Step} {ix : List FaiRec} (h : LinesClean f)
    (hix : indexFileSched f sc = .ok ix) : indexFile f = .ok ix := by
  rw [← idx_any_schedule_is_model f sc h, hix]; rfl

/-- **The index made under any schedule lists the naive records.** -/
theorem idx_sched_matches_naive (f : Bytes) (sc : List Step) (hc : LinesClean f) (ix : List FaiRec)
    (h : indexFileSched f sc = .ok ix) :
    ix.map (fun r => (r.name, r.length)) = (naive f).map (fun p => (p.1, p.2.length)) := by
  -- as `fai_index_matches_naive` (Props/C11.lean imports this file, so it is not in scope here)
  have hall := indexAll_spec f _ f 0 ix rfl (idx_ok_is_model hc h)
  unfold naive
  rw [List.map_map]
  exact forall₂_map _ _ hall (fun a b hab => by simp [Function.comp, hab.1, hab.2.1])

/-- **Ragged files are rejected under every schedule** (never mis-indexed because a window ended
at a lucky place). -/
theorem idx_sched_rejects_ragged (f : Bytes) (sc : List Step) (hc : LinesClean f)
    (g : Bytes × List Bytes) (hg : g ∈ groupRaw (splitLines f)) (hr : ¬ Uniform g.2) :
    ∃ e, indexFileSched f sc = .error e := by
  cases h : indexFileSched f sc with
  | error e => exact ⟨e, rfl⟩
  | ok ix =>
    -- as `fai_rejects_ragged`
    have hall := indexAll_spec f _ f 0 ix rfl (idx_ok_is_model hc h)
    exact absurd (forall₂_right hall (fun a b hab => hab.2.2.2.1) g hg) hr

/-! ### join with the query theorems: indexer under any schedule ⇒ query returns the naive bases -/

/-- `LinesClean` gives the alphabet hypothesis `Clean` of the query theorems for every record -/
theorem idx_clean_bases (f : Bytes) (hc : LinesClean f) (i : Nat) (name bases : Bytes)
    (hnv : (naive f)[i]? = some (name, bases)) : Clean bases :=
  naive_clean_of_linesClean f hc i name bases hnv

/-- **Indexer under any windows, then query through any buffer = slice of the naive parse.** The
index is made by the indexer over a reader with ANY `fill_buf` schedule `sc` (small buffer, bgzf
blocks, interruptions); the region query then runs over a `BufReader` of ANY capacity whose inner
reader follows ANY delivery schedule: it returns exactly the naive bases `start ..= min end length`
of that record. (The hypotheses of `fai_query_correct`, `fai_never_crosses_record`,
`fai_query_bgzf_correct` are obtained in the same way from `idx_ok_is_model` and
`idx_clean_bases`.) -/
theorem idx_sched_then_query_any_buffer (f : Bytes) (hc : LinesClean f) (sc : List Step)
    (ix : List FaiRec) (h : indexFileSched f sc = .ok ix)
    (i : Nat) (rec : FaiRec) (name bases : Bytes)
    (hrec : ix[i]? = some rec) (hnv : (naive f)[i]? = some (name, bases))
    (start end_ : Option Nat) (hs1 : 1 ≤ start.getD 1) (hs2 : start.getD 1 ≤ bases.length)
    (hse : start.getD 1 ≤ end_.getD usizeMax)
    (cap : Nat) (hcap : 0 < cap) (sched : List Noodles.IO.Delivery) :
    (queryBufR f sched cap rec start end_).1 =
      .ok (bases.extract (start.getD 1 - 1) (min (end_.getD usizeMax) bases.length)) :=
  fai_query_any_buffer_correct f ix (idx_ok_is_model hc h) i rec name bases hrec hnv
    (idx_clean_bases f hc i name bases hnv) start end_ hs1 hs2 hse cap hcap sched

open Noodles.Bgzf.RM (Layout WF flat gziOf runOps Op) in
/-- **Indexer through bgzf, then query through bgzf + gzi.** The text of a well-formed BGZF layout is
indexed under any window schedule (in particular the one the BGZF reader produces: the rest of
the current block at every call), and queried through `seek_by_uncompressed_position` with the
layout's gzi from any reader state: exactly the naive bases. -/
theorem idx_sched_then_query_bgzf (L : Layout UInt8) (hL : WF L) (hc : LinesClean (flat L))
    (sc : List Step) (ix : List FaiRec) (h : indexFileSched (flat L) sc = .ok ix)
    (i : Nat) (rec : FaiRec) (name bases : Bytes)
    (hrec : ix[i]? = some rec) (hnv : (naive (flat L))[i]? = some (name, bases))
    (start end_ : Option Nat) (hs1 : 1 ≤ start.getD 1) (hs2 : start.getD 1 ≤ bases.length)
    (hse : start.getD 1 ≤ end_.getD usizeMax) (ops : List Op) :
    (queryBgzf L (gziOf L) (runOps L ops) rec start end_).1 =
      .ok (bases.extract (start.getD 1 - 1) (min (end_.getD usizeMax) bases.length)) :=
  fai_query_bgzf_correct L hL ix (idx_ok_is_model hc h) i rec name bases hrec hnv
    (idx_clean_bases (flat L) hc i name bases hnv) start end_ hs1 hs2 hse ops

/-- **Non-vacuity at every line width and every schedule.** Every file the FASTA writer produces
from valid records with at least one base each, at any line width `lb ≥ 1`, is `LinesClean`, and
the indexer accepts it under every schedule — with the index of the whole-buffer model. -/
theorem idx_sched_accepts_written (lb : Nat) (hlb : 0 < lb) (rs : List FaRec)
    (hv : ∀ r ∈ rs, ValidFa r) (hne : ∀ r ∈ rs, r.sequence ≠ []) (sc : List Step) :
    LinesClean (writeFa lb rs) ∧
    ∃ ix, indexFileSched (writeFa lb rs) sc = .ok ix ∧ indexFile (writeFa lb rs) = .ok ix := by
  have hc := linesClean_writeFa lb hlb rs hv
  refine ⟨hc, ?_⟩
  obtain ⟨ix, hix⟩ : ∃ ix, indexFile (writeFa lb rs) = .ok ix :=
    indexAll_written hlb rs hv hne _ 0 (Nat.lt_succ_self _)
  have hm := idx_any_schedule_is_model (writeFa lb rs) sc hc
  rw [hix] at hm
  cases hs : indexFileSched (writeFa lb rs) sc with
  | error e => rw [hs] at hm; cases hm
  | ok ix' =>
    rw [hs] at hm
    have : ix' = ix := by injection hm
    subst this
    exact ⟨ix', rfl, hix⟩

/-! ### `Reader::records` / `read_sequence` under small buffers = concatenation of the sequence lines -/

/-- **Records under any buffer = the naive parse.** `fasta::io::Reader::records` (`read_definition`,
then `read_sequence` = std `read_to_end` over `sequence::Reader`: `consume_empty_lines`, `fill_buf`,
`read`, `consume`) as modelled for C12 (`Noodles/Io/Lines.lean`: a `BufReader` of ANY capacity ≥ 1
over an inner reader with ANY delivery schedule — short reads, `Interrupted` — and ANY sequence of
buffer sizes std's `read_to_end` may pass to `read`): on a text with well-formed sequence lines
(`wfFasta`: a `>` only at the start of a line, a CR only before LF or at the very end) whose
definition lines all parse, the records are, in order, exactly (name, concatenation of the
record's sequence lines without their terminators) as C11's naive whole-file parse defines them —
wherever the windows end (between CR and LF, inside a line, before a `>`). -/
theorem records_any_buffer_concat_lines (f : Bytes) (hwf : Noodles.IO.wfFasta f = true)
    (sizes : Nat → List Nat) (cap : Nat) (hcap : 0 < cap) (sched : List Noodles.IO.Delivery)
    (recs : List Noodles.IO.FastaRec)
    (h : (Noodles.IO.fastaRecordsAll sizes (Noodles.IO.BufR.ofSrc ⟨f, sched⟩ cap)).1 = .ok (recs, none)) :
    recs.map (fun r => (r.name, r.sequence)) = naive f :=
  records_any_buffer_concat f hwf sizes cap hcap sched recs h

/-- non-vacuity: `okFile'` = `>a\r\nACGT\r\nAC\r\n>b x\nTT` is `wfFasta`, and read through a one-byte
`BufReader` with an interruption and `read` buffers of 2 bytes gives the two records -/
example : Noodles.IO.wfFasta ([62, 97, 13, 10, 65, 67, 71, 84, 13, 10, 65, 67, 13, 10, 62, 98, 32, 120, 10, 84, 84] : Bytes) = true := by decide

example : ((Noodles.IO.fastaRecordsAll (fun _ => [2, 2, 2, 2, 2]) (Noodles.IO.BufR.ofSrc ⟨([62, 97, 13, 10, 65, 67, 71, 84, 13, 10, 65, 67, 13, 10, 62, 98, 32, 120, 10, 84, 84] : Bytes), [.interrupted]⟩ 1)).1.map
    fun p => (p.1.map fun r => (r.name, r.sequence), p.2)) = .ok ([([97], [65, 67, 71, 84, 65, 67]), ([98], [84, 84])], none) := by decide +kernel

/-- **Well-formed texts (C12's `wfFasta`) are `LinesClean`.** A text that starts with a definition
line (or is empty) and whose sequence blocks are well-formed in the sense of C12 — a `>` only at the
start of a line, a CR only before LF or at the very end of a block — satisfies the indexer's
hypothesis: the record iterator theorem above and the indexer theorems share one hypothesis. -/
theorem idx_wfFasta_lines_clean (f : Bytes) (hwf : Noodles.IO.wfFasta f = true)
    (h0 : f = [] ∨ f.head? = some GT) : LinesClean f :=
  linesClean_of_wfFasta f hwf h0

/-- **Schedule independence on well-formed texts.** -/
theorem idx_wfFasta_schedule_independent (f : Bytes) (hwf : Noodles.IO.wfFasta f = true)
    (h0 : f = [] ∨ f.head? = some GT) (sc : List Step) :
    indexFileSched f sc = indexFileSched f [] ∧
    (indexFileSched f sc).mapError IdxErr.toErr = indexFile f :=
  ⟨idx_schedule_independent f sc (idx_wfFasta_lines_clean f hwf h0),
   idx_any_schedule_is_model f sc (idx_wfFasta_lines_clean f hwf h0)⟩

/-! ### the hypothesis is needed: a window edge at a lone CR / at a `>` inside a line -/

/-- `>s\nAC\rGT\n` -/
def crFile : Bytes := [62, 115, 10, 65, 67, 13, 71, 84, 10]

/-- `>s\nAC>GT\n` -/
def gtFile : Bytes := [62, 115, 10, 65, 67, 62, 71, 84, 10]

/-- one-byte windows (`BufReader::with_capacity(1, ..)`) -/
def oneByte (n : Nat) : List Step := List.replicate n (.win 0)

/-- **Negation witness (lone CR).** `count_bases` drops a CR at the end of a WINDOW: the line
`AC\rGT` has 5 bases over a whole-buffer window and 4 over one-byte windows. -/
theorem idx_cr_edge_witness :
    indexFileSched crFile [] = .ok [⟨[115], 5, 3, 5, 6⟩] ∧
    indexFileSched crFile (oneByte 20) = .ok [⟨[115], 4, 3, 4, 6⟩] := by
  constructor <;> decide

/-- **Negation witness (`>` inside a line).** `consume_sequence_line` stops at a window that starts
with `>` also in the middle of a line: `AC>GT` is one line of 5 bases over a whole-buffer window;
over one-byte windows the record ends after `AC` and `>GT` is taken for a definition line without
sequence (`EmptySequence` at offset 9). -/
theorem idx_gt_edge_witness :
    indexFileSched gtFile [] = .ok [⟨[115], 5, 3, 5, 6⟩] ∧
    indexFileSched gtFile (oneByte 20) = .error (.emptySequence 9) := by
  constructor <;> decide

/-- so schedule independence does not hold for all byte strings -/
theorem idx_schedule_dependent_without_clean :
    ¬ ∀ (f : Bytes) (sc : List Step), indexFileSched f sc = indexFileSched f [] := by
  intro h
  have := h crFile (oneByte 20)
  rw [idx_cr_edge_witness.1, idx_cr_edge_witness.2] at this
  exact absurd this (by decide)

/-! ### non-vacuity -/

/-- `>a\r\nACGT\r\nAC\r\n>b x\nTT` is `LinesClean`, and is indexed the same with windows of 1, 2,
3 bytes and interruptions in between -/
def okFile : Bytes := [62, 97, 13, 10, 65, 67, 71, 84, 13, 10, 65, 67, 13, 10, 62, 98, 32, 120, 10, 84, 84]

example : LinesClean okFile := by
  intro l hl hd
  have hs : splitLines okFile = [[62, 97, 13, 10], [65, 67, 71, 84, 13, 10], [65, 67, 13, 10], [62, 98, 32, 120, 10], [84, 84]] := by decide
  rw [hs] at hl
  simp only [List.mem_cons, List.not_mem_nil, or_false] at hl
  rcases hl with rfl | rfl | rfl | rfl | rfl <;> first | (exact absurd hd (by decide)) | (unfold Clean; decide)

example : indexFileSched okFile [.win 0, .intr, .win 1, .win 2, .intr, .intr, .win 0, .win 0, .win 1, .win 4, .win 0] = .ok [⟨[97], 6, 4, 4, 6⟩, ⟨[98], 2, 19, 2, 2⟩] := by decide

example : indexFileSched okFile [] = .ok [⟨[97], 6, 4, 4, 6⟩, ⟨[98], 2, 19, 2, 2⟩] := by decide

/-- the witnesses are not `LinesClean` -/
example : ¬ LinesClean crFile := by
  intro h
  have := h [65, 67, 13, 71, 84, 10] (by decide) (by decide) 13 (by decide)
  exact this.1 rfl

end Noodles.Props.C11
