import Noodles.Bam.Reenc
import Noodles.Bam.ReencProof
import Noodles.Bam.RecordRefProof
import Noodles.Sam.Reenc
import Noodles.Sam.ReencProof
/-!
# C05 (extension) — lazy records written back through the BAM writer; `RecordRef` over unvalidated bytes

Model: `Noodles/Bam/Reenc.lean` — `encodeView` is `record/codec/encoder.rs::encode` transcribed
over an abstract view of `&dyn sam::alignment::Record` (the twelve accessors and the four hidden
`*_ref` methods), with every sub-encoder path (`FourBytePacked` / generic CIGAR, `FourBitPacked` /
`Raw` / generic sequence, `Raw` / `Offset` / generic quality scores, `FieldEncoded` / generic
data); `viewBuf`, `viewRecord`, `viewRef` are the views of `RecordBuf`, `bam::Record` and
`bam::RecordRef` (= a boxed `bam::Record`). Helper lemmas: `Noodles/Bam/ReencProof.lean`,
`Noodles/Bam/RecordRefProof.lean`.

All statements quantify over ALL byte strings `b` (that the eager decoder accepts, where said so),
any dictionary size, any number of CIGAR ops / data fields.
-/
namespace Noodles.Props.C05
open Noodles.Bam Noodles.Codec

/-! ## the general transcription of the encoder specialises to the `RecordBuf` encoder -/

/-- On the view of a `RecordBuf`, `encodeView` is the encoder that `bam_roundtrip`, `bam_rejects`,
… (Props/C05.lean) are about; every rejection is `InvalidInput`. -/
theorem encode_view_record_buf (nref : Nat) (r : Rec) (hno : NoOverflow r.pos r.cigar) :
    encodeView nref (viewBuf r) = liftIn (encode nref r) :=
  encodeView_buf nref r hno

/-- The hypothesis of `encode_view_record_buf` (the `usize` sums over the CIGAR — reference span,
read length, alignment end — stay inside `usize`; the real code answers `InvalidData` otherwise,
which `encodeView` models and `encode` does not) holds for every record the eager BAM decoder
produces: at most 2^32 ops of less than 2^28, a start of at most 2^31. -/
theorem bam_backed_no_overflow (b : Bytes) (r : Rec) (hd : decode b = .ok r) : NoOverflow r.pos r.cigar := by
  obtain ⟨r0, hp, hr⟩ := decode_inv b r hd
  exact decode_noOverflow b r0 r hp hr

/-! ## a lazy `bam::Record` written back -/

/-- `read_record` then `write_alignment_record(&record)` (the `FourBytePacked`, `FourBitPacked`,
`Raw`, `FieldEncoded` fast paths): for ANY body `b` that the eager decoder accepts, if the writer
accepts the lazy record, the bytes `out` it writes pass `validate` and decode eagerly to the record
`b` decodes to — with the data fields in the order the lazy view lists them (`fs`, a permutation of
the eager list; the same list unless the eager decoder's `swap_remove` of a `CG` field that is not
last moved a field). And the bytes themselves:
* the CIGAR was NOT taken from a `CG` field: `out` is `b` with the bin recomputed and the four
  undefined flag bits cleared — name, `n_cigar_op`, CIGAR, packed bases (padding nibble included),
  qualities and ALL data bytes (a `CG` field of the user's, duplicate-free or not) are copied;
* it was: `out` decodes sequentially to `rawOf` of the record — the ops in the CIGAR slot (at most
  65535 of them) or the `kSmN` placeholder with `k = l_seq`, `m` = the reference span, then the
  data fields other than `CG` re-encoded one by one in file order, then (more than 65535 ops) one
  trailing `CG:B,I` field. -/
theorem reencode_lazy_eq_bytes (nref : Nat) (b out : Bytes) (r : Rec) (hd : decode b = .ok r)
    (hw : rewriteRecord nref b = .ok out) :
    ∃ fs, lazyData b = .ok (fs, false) ∧ fs.Perm r.data ∧
      readRecordBuf out = .ok { r with data := fs } ∧
      ((lazyCigarBytes b = .ok (lCigarSrc b, false) ∧ fs = r.data ∧
          out = patchCore b (binOf r.pos r.cigar)) ∨
       ((∃ buf, lazyCigarBytes b = .ok (buf, true)) ∧
          decodeRaw out = .ok (rawOf { r with data := fs }, []))) := by
  obtain ⟨r0, hp, hr⟩ := decode_inv b r hd
  have henc : encodeView nref (viewRecord b) = .ok out := by
    unfold rewriteRecord at hw
    cases hv : validate b with
    | error e => simp [hv] at hw
    | ok u =>
      simp only [hv, writeView] at hw
      cases he : encodeView nref (viewRecord b) with
      | error e => simp [he] at hw
      | ok body =>
        simp only [he] at hw
        split at hw
        · simp only [Except.ok.injEq] at hw; rw [hw]
        · cases hw
  obtain ⟨fs, hfs, hperm, hdec, hcases⟩ := reenc_record nref b r0 r out hp hr henc
  refine ⟨fs, hfs, hperm, ?_, ?_⟩
  · simp only [readRecordBuf, validate_of_decode out _ hdec, hdec]
  · rcases hcases with ⟨hcb, hrr, hfe, bRef, bPos, lName, bMref, bMpos, bName, bQual,
        p1, p2, p3, p5, p6, p7, pq, pout⟩ | ⟨hcb, hraw⟩
    · subst hrr
      refine Or.inl ⟨hcb, hfe, ?_⟩
      rw [pout]
      exact slot_output_eq_patch nref b r hp bRef bPos lName bMref bMpos bName bQual p1 p2 p3 p5 p6 p7 pq _
    · exact Or.inr ⟨hcb, hraw⟩

/-- …so (CIGAR not from `CG`) the record is written back byte for byte exactly when its stored bin
is the one the writer computes (`reg2bin` of the span, `bam_bin_is_reg2bin`) and its flag word has
none of the four undefined bits. No other byte can change: there is no name padding, no
re-minimisation of integer widths, no re-ordering. -/
theorem reencode_lazy_identical_iff (nref : Nat) (b out : Bytes) (r : Rec) (hd : decode b = .ok r)
    (hw : rewriteRecord nref b = .ok out) (hslot : lazyCigarBytes b = .ok (lCigarSrc b, false)) :
    out = b ↔ headU b 10 2 = binOf r.pos r.cigar ∧ headU b 14 2 < 4096 := by
  obtain ⟨fs, _, _, _, hc⟩ := reencode_lazy_eq_bytes nref b out r hd hw
  have h16 : 16 ≤ b.length := by
    have := validate_inv b (validate_of_decode b r hd)
    unfold lDataStart at this
    omega
  rcases hc with ⟨_, _, hout⟩ | ⟨⟨buf, hcb⟩, _⟩
  · rw [hout]
    exact patchCore_eq_iff b _ h16 (binOf_lt _ _)
  · rw [hslot] at hcb
    simp at hcb

/-! ## the default paths: `RecordRef`, `Box<dyn Record>` -/

/-- `bam::RecordRef` (or a boxed `bam::Record`) over bytes the eager decoder accepts: the default
`*_ref` paths — `Cigar::iter`, the bases iterator, the quality iterator, `Data::iter` with every
field re-encoded from its typed value — do exactly what the `RecordBuf` encoder does on the eagerly
decoded record (data in lazy order), error kind included; so whatever the writer accepts reads back
as that record, minus a `CG` data field (which this path, like the `RecordBuf` path, never writes —
the `FieldEncoded` fast path of `reencode_lazy_eq_bytes` keeps it). -/
theorem reencode_generic_eq_encode (nref : Nat) (b : Bytes) (r : Rec) (hd : decode b = .ok r) :
    ∃ fs, lazyData b = .ok (fs, false) ∧ fs.Perm r.data ∧
      encodeView nref (viewRef b) = liftIn (encode nref { r with data := fs }) ∧
      ∀ out, writeView nref (viewRef b) = .ok out →
        readRecordBuf out = .ok { r with data := fs.filter (fun f => f.1 != CG) } := by
  obtain ⟨r0, hp, hr⟩ := decode_inv b r hd
  obtain ⟨fs, hfs, hperm, _⟩ := lazy_data_perm b r0 r hp hr
  have henc := reenc_ref nref b r0 r hp hr (decode_noOverflow b r0 r hp hr) fs hfs
  refine ⟨fs, hfs, hperm, henc, ?_⟩
  intro out hw
  have he : encode nref { r with data := fs } = .ok out := by
    unfold writeView at hw
    rw [henc] at hw
    cases hx : encode nref { r with data := fs } with
    | error e => simp [hx, liftIn] at hw
    | ok body =>
      simp only [hx, liftIn] at hw
      split at hw
      · simp only [Except.ok.injEq] at hw; rw [hw]
      · cases hw
  have hw1 : WF { r with data := fs } := wf_perm r (decode_wf b r0 r hp hr) fs hperm
  obtain ⟨b', he', hd'⟩ := roundtrip_main nref _ hw1 (fits_of_encode_ok nref _ out he)
  rw [he] at he'
  cases he'
  simp only [readRecordBuf, validate_of_decode out _ hd', hd']
  congr 1
  simp only [norm, decode_seq_norm b r0 r hp hr]

/-- The packed CIGAR a `bam::Record` hands to the encoder is whole 4-byte chunks, FOR ANY BYTES —
`write_four_byte_packed_cigar` never reaches its `unreachable!()` — and, when the lazy CIGAR
decodes, copying it is what re-encoding the ops one by one would write. -/
theorem packed_cigar_whole_chunks (b src : Bytes) (f : Bool) (h : lazyCigarBytes b = .ok (src, f)) :
    writePackedCigar src ≠ .error .panic ∧
      ∀ ops, lazyOps src = .ok ops → writePackedCigar src = .ok src ∧ encOps ops = .ok src := by
  obtain ⟨n, hn⟩ := lazyCigarBytes_chunks b src f h
  refine ⟨?_, ?_⟩
  · have hk : ∀ (n : Nat) (s : Bytes), s.length = n * 4 → kindsOk s ≠ none := by
      intro n
      induction n with
      | zero =>
        intro s hs
        have : s = [] := List.length_eq_zero_iff.mp (by omega)
        subst this; simp [kindsOk]
      | succ n ih =>
        intro s hs
        match s, hs with
        | a :: _ :: _ :: _ :: rest, hs =>
          have := ih rest (by simp at hs; omega)
          simp only [kindsOk]
          cases hr : kindsOk rest with
          | none => exact absurd hr this
          | some v => simp
        | [], hs => simp at hs
        | [_], hs => simp at hs; omega
        | [_, _], hs => simp at hs; omega
        | [_, _, _], hs => simp at hs; omega
    unfold writePackedCigar
    cases hr : kindsOk src with
    | none => exact absurd hr (hk n src hn)
    | some v => cases v <;> simp
  · intro ops ho
    obtain ⟨h1, h2⟩ := packed_eq_generic n src ops hn ho
    exact ⟨by simp [writePackedCigar, h1], h2⟩

/-! ## `RecordRef` over bytes nobody validated -/

/-- `bam::RecordRef::new(b)` asks for 32 bytes and nothing else. FOR ARBITRARY BYTES of that
length: every variable-length accessor panics (slice out of range) exactly when the end of its
slice — computed from `l_read_name`, `n_cigar_op`, `l_seq` — lies beyond the buffer, and otherwise
is the same function of the bytes as on a validated record; `cigar()` additionally slices the data
when the CIGAR slot is the two-op placeholder; `Cigar::iter` itself never panics; and `validate`
is exactly the condition under which none of them does (the largest bound). -/
theorem record_ref_unvalidated (b : Bytes) (h32 : 32 ≤ b.length) :
    (lazyName b = .panic ↔ b.length < lNameEnd b) ∧
    (lazySeq b = .panic ↔ b.length < lSeqEnd b) ∧
    (lazyQual b = .panic ↔ b.length < lDataStart b) ∧
    (lazyRawData b = .panic ↔ b.length < lDataStart b) ∧
    (lazyCigarBytes b = .panic ↔
      b.length < lCigarEnd b ∨ (lSlotIsPlaceholder b ∧ b.length < lDataStart b)) ∧
    (lazyCigar b = .panic ↔ lazyCigarBytes b = .panic) ∧
    (lazyData b = .panic ↔ lazyRawData b = .panic ∨ lazyCigarBytes b = .panic) ∧
    (validate b = .ok () ↔ lDataStart b ≤ b.length) :=
  ⟨lazyName_panic_iff b h32, lazySeq_panic_iff b h32, lazyQual_panic_iff b h32,
   lazyRawData_panic_iff b h32, lazyCigarBytes_panic_iff b h32, lazyCigar_panic_iff b,
   lazyData_panic_iff b, by rw [validate_iff]; exact ⟨fun h => h.2, fun h => ⟨h32, h⟩⟩⟩

/-- "The same as on validated input": a `RecordRef` over only the first `k ≥ 32` bytes of a buffer
(a truncated record, which `validate` would refuse) returns for name, bases and qualities exactly
what it returns over the whole buffer whenever the field's slice ends within the `k` bytes — and
panics otherwise. -/
theorem record_ref_prefix_stable (b : Bytes) (k : Nat) (h32 : 32 ≤ k) (hk : k ≤ b.length) :
    lazyName (b.take k) = (if lNameEnd b ≤ k then lazyName b else .panic) ∧
    lazySeq (b.take k) = (if lSeqEnd b ≤ k then lazySeq b else .panic) ∧
    lazyQual (b.take k) = (if lDataStart b ≤ k then lazyQual b else .panic) :=
  prefix_stable b k h32 hk

/-- The fixed-size accessors never panic, and report an error exactly for the `i32` values that are
neither `-1` nor non-negative. -/
theorem record_ref_fixed_fields (b : Bytes) :
    (lazyRefId b = .err ↔ 2147483648 ≤ headU b 0 4 ∧ headU b 0 4 ≠ 4294967295) ∧
    (lazyPos b = .err ↔ 2147483648 ≤ headU b 4 4 ∧ headU b 4 4 ≠ 4294967295) ∧
    (lazyMateRefId b = .err ↔ 2147483648 ≤ headU b 20 4 ∧ headU b 20 4 ≠ 4294967295) ∧
    (lazyMatePos b = .err ↔ 2147483648 ≤ headU b 24 4 ∧ headU b 24 4 ≠ 4294967295) ∧
    lazyRefId b ≠ .panic ∧ lazyPos b ≠ .panic ∧ lazyMateRefId b ≠ .panic ∧ lazyMatePos b ≠ .panic := by
  have hid : ∀ u, (lazyId u = .err ↔ 2147483648 ≤ u ∧ u ≠ 4294967295) ∧ lazyId u ≠ .panic := by
    intro u; unfold lazyId
    split
    · simp; omega
    · split <;> simp <;> omega
  have hpo : ∀ u, (lazyPosOf u = .err ↔ 2147483648 ≤ u ∧ u ≠ 4294967295) ∧ lazyPosOf u ≠ .panic := by
    intro u; unfold lazyPosOf
    split
    · simp; omega
    · split <;> simp <;> omega
  exact ⟨(hid _).1, (hpo _).1, (hid _).1, (hpo _).1, (hid _).2, (hpo _).2, (hid _).2, (hpo _).2⟩

/-- The lazy model of C05 (`Record.lean`) and the explicit-slicing model of C15
(`Hostile/BamRecord.lean`, theorem `bam_lazy_in_bounds`) take the same five slices, with the same
panic condition, on every buffer of at least 32 bytes. -/
theorem record_ref_same_slices_as_c15 (b : Bytes) (h32 : 32 ≤ b.length) :
    Noodles.Hostile.Bam.rawName b = toRes (slice (lRest b) 0 (lNameLen b)) ∧
    Noodles.Hostile.Bam.rawCigar b = toRes (slice (lRest b) (lNameLen b) (lNameLen b + lOpCount b * 4)) ∧
    Noodles.Hostile.Bam.rawSequence b = toRes (slice (lRest b) (lNameLen b + lOpCount b * 4)
      (lNameLen b + lOpCount b * 4 + (lBaseCount b + 1) / 2)) ∧
    Noodles.Hostile.Bam.rawQualityScores b = toRes (slice (lRest b)
      (lNameLen b + lOpCount b * 4 + (lBaseCount b + 1) / 2)
      (lNameLen b + lOpCount b * 4 + (lBaseCount b + 1) / 2 + lBaseCount b)) ∧
    Noodles.Hostile.Bam.rawData b = toRes (lazyRawData b) :=
  hostile_slices b h32

/-! ## a lazy `sam::Record` into BAM: SAM ≡ BAM at the lazy level -/

/-- For every `RecordBuf` `r` the SAM writer accepts (line `l`): the lazy `sam::Record` that
`read_record` makes of `l` (`Noodles/Sam/Reenc.lean::viewSam`: every mandatory field parsed on
access, `Cigar::len` by counting letters, qualities minus 33, `Data::iter`) handed to the BAM
writer gives exactly what the BAM writer gives for the `RecordBuf` `lazyNorm r` — `r` with the
twelve defined flag bits and its integer aux fields typed `Int32` (`UInt32` above `i32::MAX`, the
only types the lazy view yields; the eager SAM reader picks the narrowest type instead, so the two
BAM encodings differ in exactly those type bytes and widths, `numNorm_lazyNorm`). Same bytes, same
error kind. Hence (`bam_roundtrip`) whatever is accepted reads back as `norm` of that record.
Hypotheses as for `sam_roundtrip` (C06): lawful float formatting, a valid dictionary, finite float
array elements, and not the one quality string (`[9]`) that SAM text prints as `*`; plus `hno`: the
sums over the CIGAR stay inside `usize` (a SAM CIGAR can carry op lengths up to `usize::MAX`; then
the real code and `encodeView` answer `InvalidData` where `encode` says `InvalidInput` — see the
witness `samOverflow` below). -/
theorem reencode_sam_lazy (F : Noodles.Sam.FloatFmt) (hF : F.Lawful) (hne : ∀ x, F.fmtA x ≠ [])
    (refs : List Bytes) (hv : Noodles.Sam.ValidRefs refs) (r : Noodles.Sam.Rec)
    (hw : Noodles.Sam.WellTyped r) (hfin : Noodles.Sam.FiniteArrays r) (hq : r.qual ≠ [9])
    (hno : NoOverflow (Noodles.Sam.toBamRec r).pos (Noodles.Sam.toBamRec r).cigar)
    (l : Bytes) (h : Noodles.Sam.samWrite F refs r = .ok l) :
    Noodles.Sam.samToBam F refs l =
        some (writeView refs.length (viewBuf (Noodles.Sam.toBamRec (Noodles.Sam.lazyNorm r)))) ∧
    (∃ ln, Noodles.Sam.splitLine l = some ln ∧
      encodeView refs.length (Noodles.Sam.viewSam F refs ln) =
        liftIn (encode refs.length (Noodles.Sam.toBamRec (Noodles.Sam.lazyNorm r)))) ∧
    (∀ out, Noodles.Sam.samToBam F refs l = some (.ok out) →
      readRecordBuf out = .ok (norm (Noodles.Sam.toBamRec (Noodles.Sam.lazyNorm r)))) ∧
    Noodles.Sam.numNorm (Noodles.Sam.lazyNorm r) =
      Noodles.Sam.numNorm { r with flags := r.flags % 4096 } := by
  obtain ⟨ln, hs, hview⟩ := Noodles.Sam.viewSam_written F hF hne refs hv r hw hfin hq l h
  have h1 : Noodles.Sam.samToBam F refs l =
      some (writeView refs.length (viewBuf (Noodles.Sam.toBamRec (Noodles.Sam.lazyNorm r)))) := by
    simp only [Noodles.Sam.samToBam, hs, hview]
  refine ⟨h1, ⟨ln, hs, by rw [hview]; exact encodeView_buf _ _ hno⟩, ?_, Noodles.Sam.numNorm_lazyNorm r hw⟩
  intro out ho
  rw [h1] at ho
  have ho' := Option.some.inj ho
  have he : encode refs.length (Noodles.Sam.toBamRec (Noodles.Sam.lazyNorm r)) = .ok out := by
    unfold writeView at ho'
    rw [encodeView_buf _ (Noodles.Sam.toBamRec (Noodles.Sam.lazyNorm r)) hno] at ho'
    cases hx : encode refs.length (Noodles.Sam.toBamRec (Noodles.Sam.lazyNorm r)) with
    | error e => simp [hx, liftIn] at ho'
    | ok body =>
      simp only [hx, liftIn] at ho'
      split at ho'
      · simp only [Except.ok.injEq] at ho'; rw [ho']
      · cases ho'
  have hwf := Noodles.Sam.toBamRec_wf r hw
  obtain ⟨b', he', hd'⟩ := roundtrip_main refs.length _ hwf (fits_of_encode_ok _ _ out he)
  rw [he] at he'
  cases he'
  simp only [readRecordBuf, validate_of_decode out _ hd', hd']

/-! ## non-vacuity and witnesses (each checked against the real code by the harness corpus) -/

/-- `r0`, mapped at 9, `3M1S`, `ACGT`, `NH:C:1` — with a stale bin (0) and the flag word `0xf041` -/
def staleBin : Bytes :=
  [1, 0, 0, 0, 8, 0, 0, 0, 3, 13, 0, 0, 2, 0, 0x41, 0xf0, 4, 0, 0, 0, 255, 255, 255, 255, 255, 255, 255, 255,
   7, 0, 0, 0, 114, 48, 0, 0x30, 0, 0, 0, 0x14, 0, 0, 0, 0x12, 0x48, 45, 35, 43, 50, 78, 72, 67, 1]

/-- the hypotheses of `reencode_lazy_eq_bytes` / `reencode_lazy_identical_iff` are satisfiable, and
the two fields do change: bin 0 → 4681, flags `0xf041` → `0x0041`; nothing else -/
example : (decode staleBin).toOption.isSome = true ∧
    lazyCigarBytes staleBin = .ok (lCigarSrc staleBin, false) ∧
    rewriteRecord 2 staleBin = .ok (patchCore staleBin 4681) ∧ patchCore staleBin 4681 ≠ staleBin ∧
    patchCore staleBin 4681 = staleBin.take 10 ++ [0x49, 0x12, 2, 0, 0x41, 0x00] ++ staleBin.drop 16 :=
  ⟨by rfl, by rfl, by rfl, by decide, by decide⟩

/-- the same record against a dictionary that does not hold reference 1: rejected (`InvalidInput`) -/
example : rewriteRecord 1 staleBin = .error .input := by rfl

/-- hand-made: the placeholder `3S7N` over `ACG`, data `CG:B:I,[2M,1S]` FIRST, then `NH`, `XB` -/
def cgFirst : Bytes :=
  [0, 0, 0, 0, 8, 0, 0, 0, 2, 255, 0x49, 0x12, 2, 0, 0, 0, 3, 0, 0, 0, 255, 255, 255, 255, 255, 255, 255, 255,
   7, 0, 0, 0, 114, 0, 0x34, 0, 0, 0, 0x73, 0, 0, 0, 0x12, 0x40, 1, 2, 3,
   67, 71, 66, 73, 2, 0, 0, 0, 0x20, 0, 0, 0, 0x14, 0, 0, 0, 78, 72, 67, 1, 88, 66, 66, 115, 1, 0, 0, 0, 255, 255]

/-- the `CG` branch of `reencode_lazy_eq_bytes`: the eager decoder's `swap_remove` leaves `XB, NH`,
the lazy view (and what the re-encoded bytes decode to) lists `NH, XB` — a permutation, not the same
list; the CIGAR `2M1S` moves into the CIGAR slot and the `CG` field is gone (so `out ≠ b`, 16 bytes
shorter) -/
example : (decode cgFirst).toOption.map (·.data) =
      some [((88, 66), .arr .s [-1]), ((78, 72), .num .C 1)] ∧
    lazyData cgFirst = .ok ([((78, 72), .num .C 1), ((88, 66), .arr .s [-1])], false) ∧
    (∃ buf, lazyCigarBytes cgFirst = .ok (buf, true)) ∧
    rewriteRecord 2 cgFirst = .ok (cgFirst.take 34 ++ [0x20, 0, 0, 0, 0x14, 0, 0, 0] ++
      (cgFirst.drop 42).take 5 ++ cgFirst.drop 63) := by
  exact ⟨by rfl, by rfl, ⟨[0x20, 0, 0, 0, 0x14, 0, 0, 0], by rfl⟩, by rfl⟩

/-- unmapped `*`, `3M`, packed `ACG` with padding nibble `0xf`, qualities missing, a user field
`CG:Z:a` (the CIGAR slot is not the placeholder) -/
def userCg : Bytes :=
  [255, 255, 255, 255, 255, 255, 255, 255, 2, 255, 0x48, 0x12, 1, 0, 4, 0, 3, 0, 0, 0, 255, 255, 255, 255,
   255, 255, 255, 255, 0, 0, 0, 0, 42, 0, 0x30, 0, 0, 0, 0x12, 0x4f, 255, 255, 255, 67, 71, 90, 97, 0]

/-- the two families of paths differ on exactly this: the fast paths copy the padding nibble and the
`CG:Z` field (byte-identical here), the default paths (`RecordRef`, `Box<dyn Record>`) write the
padding as 0 and leave the `CG` field out -/
example : rewriteRecord 0 userCg = .ok userCg ∧
    writeView 0 (viewRef userCg) = .ok (userCg.take 39 ++ [0x40, 255, 255, 255]) :=
  ⟨by rfl, by rfl⟩

/-- `RecordRef::new` over 33 bytes that announce a 2-byte name: `validate` refuses them, the writer
handed the unvalidated `RecordRef` panics in `name()` (first bound of `record_ref_unvalidated`) -/
example : validate (userCg.take 33) = .error .eof ∧
    lazyName (userCg.take 33) = .panic ∧ rewriteRef 0 (userCg.take 33) = some (.error .panic) :=
  ⟨by rfl, by rfl, by rfl⟩

/-- a float formatter for records without floats -/
def F1 : Noodles.Sam.FloatFmt := ⟨fun _ => [], fun _ => [], fun _ => none⟩

/-- `r0 99 sq0 100 60 2M = 200 -50 AC ?@ NH:i:1 XB:B:s,-1,300` -/
def samEx : Noodles.Sam.Rec :=
  { name := some [114, 48], flags := 99, rid := some 0, pos := 100, mapq := 60,
    cigar := [⟨.M, 2⟩], mrid := some 0, mpos := 200, tlen := -50, seq := [65, 67],
    qual := [30, 31], data := [((78, 72), .int .u8 1), ((88, 66), .iarr .i16 [-1, 300])] }

/-- the situation of `reencode_sam_lazy` on a concrete record: the line is written, the lazy record
goes into BAM as `lazyNorm` of the record does — `NH` as `i` (`4e 48 69 01 00 00 00`), where the
eager `RecordBuf` (`NH:C:1`) gives `4e 48 43 01`: three bytes shorter, the same value -/
example : (Noodles.Sam.samWrite F1 [[115, 113, 48]] samEx).toOption.map
      (Noodles.Sam.samToBam F1 [[115, 113, 48]]) =
    some (some (liftIn (encode 1 (Noodles.Sam.toBamRec (Noodles.Sam.lazyNorm samEx))))) ∧
    (encode 1 (Noodles.Sam.toBamRec (Noodles.Sam.lazyNorm samEx))).toOption.map (·.length) = some 61 ∧
    (encode 1 (Noodles.Sam.toBamRec samEx)).toOption.map (·.length) = some 58 :=
  ⟨by rfl, by rfl, by rfl⟩

/-- `r0 0 sq0 9 1 18446744073709551615M * 0 0 * *`: one op of `usize::MAX` bases -/
def samOverflow : Noodles.Sam.Rec :=
  { name := some [114, 48], flags := 0, rid := some 0, pos := 9, mapq := 1,
    cigar := [⟨.M, 18446744073709551615⟩], mrid := none, mpos := 0, tlen := 0, seq := [],
    qual := [], data := [] }

/-- why `reencode_sam_lazy` (and `encode_view_record_buf`) carry the no-overflow hypothesis: the SAM
writer prints the record, the lazy record handed to the BAM writer fails in `alignment_end`
(`9 + (usize::MAX - 1)` leaves `usize`: `InvalidData`, as the real code — harness corpus
`sam_corpus_op_len_usize_max`), while the `RecordBuf` encoder model, which does not model `usize`,
would go on to refuse the op length (`InvalidInput`) -/
example : (Noodles.Sam.samWrite F1 [[115, 113, 48]] samOverflow).toOption.map
      (Noodles.Sam.samToBam F1 [[115, 113, 48]]) = some (some (.error .data)) ∧
    liftIn (encode 1 (Noodles.Sam.toBamRec (Noodles.Sam.lazyNorm samOverflow))) = .error .input :=
  ⟨by rfl, by rfl⟩

end Noodles.Props.C05
