import Noodles.Bgzf.Stored
import Noodles.Bgzf.StoredProof
/-!
# C01 (extension "stored") — the DEFLATE parameter made concrete at compression level 0

`storedDeflater` is the library as it behaves at level 0 (RFC 1951 stored blocks, transcribed from
what zlib-rs emits and tied to the real writer's FILE BYTES by the correspondence `c01 stored …`
on every run — no table of library answers), with an inflater and a gzip reader written
independently from RFC 1951 §3.2.4 / RFC 1952. Helper lemmas: `Noodles/Bgzf/StoredProof.lean`.
-/
namespace Noodles.Props.C01
open Noodles.Bgzf Noodles.Codec

/-- The level-0 library satisfies every law the parametric C01 theorems assume — so
`run_ok`, `bgzf_roundtrip`, `bgzf_wellformed`, … hold for it with no assumption left about
DEFLATE or CRC-32. -/
theorem storedDeflater_lawful : storedDeflater.Lawful where
  roundtrip := fun _ x => inflateExact_storedDeflate x
  level0 := by
    intro x hx
    rw [MAX_BUF_eq] at hx
    show (storedDeflate x).length ≤ MAX_COMPRESSED
    rw [storedDeflate_single x (by omega), storedBlock_length, MAX_COMPRESSED_eq]
    omega
  crc_lt := crc32_lt
  eof_block := by decide
  crc_nil := by decide

/-- RFC 1951 inflater ∘ stored deflater = id, for EVERY payload (the deflater splits payloads
longer than 65535 bytes into several stored blocks), with any bytes following the stream left
untouched. -/
theorem stored_inflate_deflate (x rest : Bytes) :
    inflateStored ((storedDeflate x ++ rest).length + 1) (storedDeflate x ++ rest) = .ok (x, rest) :=
  inflateStored_storedDeflate x rest _
    (by have := storedDeflate_length_ge x; simp only [List.length_append]; omega)

/-- exact size of the level-0 stream: 5 bytes per stored block, `max 1 ⌈n/65535⌉` blocks -/
theorem stored_deflate_length (x : Bytes) :
    (storedDeflate x).length = x.length + 5 * (if x.length = 0 then 1 else (x.length + 65534) / 65535) :=
  storedDeflateAux_length x.length x (Nat.le_refl _)

/-- non-vacuity / the empty payload and a 3-byte payload, byte for byte -/
example : storedDeflate [] = [0x01, 0x00, 0x00, 0xff, 0xff] := by decide
example : storedDeflate [0x61, 0x62, 0x63] = [0x01, 0x03, 0x00, 0xfc, 0xff, 0x61, 0x62, 0x63] := by decide

/-- The property's last clause as a theorem at level 0: for every write/flush history the file
the level-0 writer emits, read by the independent multi-member gzip reader (which knows nothing
about BGZF), is exactly the payload. -/
theorem bgzf_level0_gunzip (ops : List Op) :
    ∃ w w', run storedDeflater 0 Writer.init ops = .ok w ∧ finish storedDeflater 0 w = .ok w' ∧
      gunzipAll w'.sink = .ok (payload ops) := by
  obtain ⟨w, h, hi⟩ := run_ok' storedDeflater storedDeflater_lawful 0 ops Writer.init [] (Inv_init _)
  obtain ⟨w', frs, hf, hg, hsink, hpay⟩ := finish_ok storedDeflater storedDeflater_lawful 0 w _ hi
  refine ⟨w, w', h, hf, ?_⟩
  -- the EOF marker is one more good member: cdata `03 00`, no data
  have heof : EOF_MARKER = enc storedDeflater [([0x03, 0x00], [])] := by decide
  have hg' : ∀ p ∈ frs ++ [(([0x03, 0x00], []) : Bytes × Bytes)], Good storedDeflater p := by
    intro p hp
    rcases List.mem_append.mp hp with hp | hp
    · exact hg p hp
    · simp only [List.mem_singleton] at hp
      subst hp
      exact ⟨by decide, by decide, by decide⟩
  have hsink' : w'.sink = enc storedDeflater (frs ++ [([0x03, 0x00], [])]) := by
    rw [hsink, heof]; simp [enc]
  have hl := enc_length_ge storedDeflater (frs ++ [([0x03, 0x00], [])])
  unfold gunzipAll
  rw [hsink']
  have hfu : (enc storedDeflater (frs ++ [([0x03, 0x00], [])])).length + 1 =
      (frs ++ [(([0x03, 0x00], []) : Bytes × Bytes)]).length +
        ((enc storedDeflater (frs ++ [([0x03, 0x00], [])])).length
          - (frs ++ [(([0x03, 0x00], []) : Bytes × Bytes)]).length) + 1 := by omega
  rw [hfu, gunzipLoop_frames _ hg', datas_snoc, hpay]
  simp

/-- Exact member arithmetic at level 0: a staged block of `n ≤ 65495` bytes becomes ONE stored
block, so the member is `18 + (1 + 2 + 2 + n) + 8 = n + 31` bytes, its BSIZE field is `n + 30`,
and the largest member the level-0 writer can emit is `65495 + 31 = 65526 ≤ 65536`: the staging
limit `65536 − 18 − 8 − 15` reserves 15 bytes for the level-0 overhead of which zlib uses 5. -/
theorem level0_member_sizes (w : Writer) (hw : w.staging.length ≤ MAX_BUF) :
    ∃ w', flushBlock storedDeflater 0 w = .ok w' ∧
      w'.sink = w.sink ++ mkFrame (storedBlock true w.staging) (Crc32.crc32 w.staging) w.staging.length ∧
      w'.sink.length = w.sink.length + (18 + 5 + w.staging.length + 8) ∧
      18 + 5 + w.staging.length + 8 ≤ 65526 ∧
      unle 2 ((mkFrame (storedBlock true w.staging) (Crc32.crc32 w.staging) w.staging.length).drop 16)
        = .ok (w.staging.length + 30,
            storedBlock true w.staging ++ le 4 (Crc32.crc32 w.staging) ++ le 4 w.staging.length) := by
  rw [MAX_BUF_eq] at hw
  have hl : (storedBlock true w.staging).length = w.staging.length + 5 := storedBlock_length _ _
  refine ⟨_, flushBlock_stored 0 w hw, rfl, ?_, by omega, ?_⟩
  · simp only [List.length_append, mkFrame_length, hl]; omega
  · have h25 : HEADER_SIZE + (storedBlock true w.staging).length + TRAILER_SIZE - 1 = w.staging.length + 30 := by
      simp only [HEADER_SIZE_eq, TRAILER_SIZE_eq, hl]; omega
    simp only [mkFrame, h25, List.append_assoc]
    have : (headerPrefix ++ (le 2 (w.staging.length + 30) ++ (storedBlock true w.staging ++
        (le 4 (Crc32.crc32 w.staging) ++ le 4 w.staging.length)))).drop 16 =
        le 2 (w.staging.length + 30) ++ (storedBlock true w.staging ++
        (le 4 (Crc32.crc32 w.staging) ++ le 4 w.staging.length)) := by
      have := drop_append_len headerPrefix (le 2 (w.staging.length + 30) ++ (storedBlock true w.staging ++
        (le 4 (Crc32.crc32 w.staging) ++ le 4 w.staging.length)))
      rw [headerPrefix_length] at this; exact this
    rw [this, unle_le 2 _ (by omega)]

/-- The incompressible fallback of `deflate::encode` (`if compressed_size > MAX_COMPRESSED_SIZE
{ continue }` to level 0), for ANY library whose level 0 is the stored deflater: whenever the
configured level's output does not fit, the member written is exactly the level-0 member. -/
theorem fallback_is_stored (D : Deflater) (h0 : ∀ x, D.deflate 0 x = storedDeflate x)
    (hcrc : D.crc = Crc32.crc32) (lvl : Nat) (w : Writer) (hw : w.staging.length ≤ MAX_BUF)
    (hbig : MAX_COMPRESSED < (D.deflate lvl w.staging).length) :
    flushBlock D lvl w = flushBlock storedDeflater 0 w := by
  rw [MAX_BUF_eq] at hw
  have hs : storedDeflate w.staging = storedBlock true w.staging := storedDeflate_single _ (by omega)
  have hl : (storedBlock true w.staging).length = w.staging.length + 5 := storedBlock_length _ _
  have he : encodeBlock D lvl w.staging = .ok (storedBlock true w.staging) := by
    unfold encodeBlock
    rw [if_neg (by omega), h0, hs, if_pos (by rw [hl, MAX_COMPRESSED_eq]; omega)]
  have hfr := frame_ok (storedBlock true w.staging) (Crc32.crc32 w.staging) w.staging.length
    (by rw [hl, MAX_COMPRESSED_eq]; omega) (by omega)
  rw [flushBlock_stored 0 w hw]
  simp only [flushBlock, he, hcrc, hfr]

/-- non-vacuity of `fallback_is_stored`: a library whose level-6 output never fits -/
def bloatDeflater : Deflater where
  deflate := fun l x => if l = 0 then storedDeflate x else List.replicate 65511 0
  inflate := inflateExact
  crc := Crc32.crc32

example : flushBlock bloatDeflater 6 ⟨[1, 2, 3], 0, []⟩ = flushBlock storedDeflater 0 ⟨[1, 2, 3], 0, []⟩ :=
  fallback_is_stored bloatDeflater (fun _ => rfl) rfl 6 ⟨[1, 2, 3], 0, []⟩ (by decide)
    (by show MAX_COMPRESSED < (List.replicate 65511 (0 : UInt8)).length
        rw [List.length_replicate, MAX_COMPRESSED_eq]; omega)

/-- the independent reader rejects what it must: wrong NLEN, a Huffman-coded block, reserved
BTYPE, a truncated block (each by evaluation) -/
example : inflateStored 9 [0x01, 0x01, 0x00, 0xff, 0xff, 0x61] = .error .badNlen := rfl
example : inflateStored 9 [0x03, 0x01] = .error .unsupported := rfl
example : inflateStored 9 [0x07, 0x00] = .error .badBtype := rfl
example : inflateStored 9 [0x01, 0x02, 0x00, 0xfd, 0xff, 0x61] = .error .truncated := rfl
/-- … and reads a non-final block followed by a final one -/
example : inflateStored 9 [0x00, 0x01, 0x00, 0xfe, 0xff, 0x61, 0x01, 0x01, 0x00, 0xfe, 0xff, 0x62, 0x99]
    = .ok ([0x61, 0x62], [0x99]) := rfl

/-- a concrete two-block history: instance of `bgzf_level0_gunzip` -/
example : ∃ w w', run storedDeflater 0 Writer.init [.write [1, 2, 3], .flush, .write [4]] = .ok w ∧
    finish storedDeflater 0 w = .ok w' ∧ gunzipAll w'.sink = .ok [1, 2, 3, 4] :=
  bgzf_level0_gunzip [.write [1, 2, 3], .flush, .write [4]]

end Noodles.Props.C01
