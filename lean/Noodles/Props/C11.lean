import Noodles.Props.C11Indexer
import Noodles.Props.C11More
import Noodles.Fasta.Model
import Noodles.Fasta.Spec
import Noodles.Fasta.Proof
import Noodles.Fasta.WriteReadProof
/-!
# C11 — FASTA/FASTQ indexing and random access return exactly the indexed bases

Model: `Noodles/Fasta/Model.lean` (indexer, `fai::Record::query`, `Reader::query`, sequence reader,
FASTA/FASTQ writers and readers). Specification: `Noodles/Fasta/Spec.lean` (`naive`: cut the file
into raw lines, `>` lines open records, strip terminators, concatenate). Helper lemmas:
`Noodles/Fasta/Proof.lean`.

The quantifiers are unbounded: every byte string `f` the indexer accepts — any line width, LF or
CRLF (also mixed where the code tolerates it), short or full last line, last line with or without
terminator, a blank trailing line, any definition text, any number of records — and every region.
The alphabet hypothesis `Clean` (no CR and no `>` among the bases of the queried record) is what
makes the file a FASTA file; without it the sequence reader itself stops at / skips those bytes.

`fai::Record::query` is modelled after the `fix:` commit for finding F8 (start beyond the sequence
length is `InvalidInput`). For the unfixed arithmetic the property is false: `f8_witness` below.
-/
namespace Noodles.Props.C11
open Noodles.Fasta

/-- what the proofs need about record `i`: the index record and the naive record describe the same
raw lines -/
private theorem recOK_at {f : Bytes} {ix : List FaiRec} (h : indexFile f = .ok ix)
    {i : Nat} {rec : FaiRec} {name bases : Bytes}
    (hrec : ix[i]? = some rec) (hnv : (naive f)[i]? = some (name, bases)) :
    ∃ g, g ∈ groupRaw (splitLines f) ∧ RecOK f rec g ∧ name = nameOf g.1 ∧ bases = basesOf g.2 := by
  have hall := indexAll_spec f _ f 0 ix rfl h
  unfold naive at hnv
  rw [List.getElem?_map] at hnv
  cases hg : (groupRaw (splitLines f))[i]? with
  | none => rw [hg] at hnv; cases hnv
  | some g =>
    rw [hg] at hnv
    simp only [Option.map_some, Option.some.injEq, Prod.mk.injEq] at hnv
    exact ⟨g, List.mem_of_getElem? hg, forall₂_get hall i rec g hrec hg, hnv.1.symm, hnv.2.symm⟩

/-- The index lists exactly the records of the naive parse, in file order, each with its name and
its number of bases. -/
theorem fai_index_matches_naive (f : Bytes) (ix : List FaiRec) (h : indexFile f = .ok ix) :
    ix.map (fun r => (r.name, r.length)) = (naive f).map (fun p => (p.1, p.2.length)) := by
  have hall := indexAll_spec f _ f 0 ix rfl h
  unfold naive
  rw [List.map_map]
  exact forall₂_map _ _ hall (fun a b hab => by simp [Function.comp, hab.1, hab.2.1])

/-- **Query = slice of the naive parse.** For the `i`-th record of any accepted file and any region
whose 1-based start lies inside the sequence (`start`/`end_` absent = unbounded, as in
`noodles_core::region::Interval`), `Reader::query` returns exactly the naive bases
`start ..= min end length`. -/
theorem fai_query_correct (f : Bytes) (ix : List FaiRec) (h : indexFile f = .ok ix)
    (i : Nat) (rec : FaiRec) (name bases : Bytes)
    (hrec : ix[i]? = some rec) (hnv : (naive f)[i]? = some (name, bases)) (hclean : Clean bases)
    (start end_ : Option Nat) (hs1 : 1 ≤ start.getD 1) (hs2 : start.getD 1 ≤ bases.length)
    (hse : start.getD 1 ≤ end_.getD usizeMax) :
    queryRec f rec start end_ =
      .ok (bases.extract (start.getD 1 - 1) (min (end_.getD usizeMax) bases.length)) := by
  obtain ⟨g, _, ⟨_, hlen, _, _, hseq⟩, _, hb⟩ := recOK_at h hrec hnv
  subst hb
  have hq : recQuery rec start = .ok (faiPos rec (start.getD 1 - 1)) := by
    cases start with
    | none => rfl
    | some p =>
      simp only [Option.getD_some] at hs1 hs2 ⊢
      simp only [recQuery]
      rw [if_neg (by omega)]
  have hsa := hseq hclean (start.getD 1 - 1) (by omega)
  unfold queryRec
  rw [hq]
  simp only []
  rw [hsa _ (Nat.lt_succ_self _)]
  simp only [List.nil_append, List.length_nil, Nat.sub_zero, List.extract]
  congr 1
  by_cases he : end_.getD usizeMax ≤ (basesOf g.2).length
  · rw [Nat.min_eq_left he]; congr 1; omega
  · rw [Nat.min_eq_right (by omega), List.take_of_length_le (by simp; omega),
      List.take_of_length_le (by simp)]

/-- **Never a byte of a definition line or of another record.** Whatever the region (`start ≤ end`,
as for every interval that denotes positions; the code computes `end - start + 1` in `usize`): a
start inside the sequence yields a contiguous piece of that record's own naive bases; a start
beyond the sequence length is an error (`InvalidInput`), not data. -/
theorem fai_never_crosses_record (f : Bytes) (ix : List FaiRec) (h : indexFile f = .ok ix)
    (i : Nat) (rec : FaiRec) (name bases : Bytes)
    (hrec : ix[i]? = some rec) (hnv : (naive f)[i]? = some (name, bases)) (hclean : Clean bases)
    (start end_ : Option Nat) (hs1 : 1 ≤ start.getD 1) (_hse : start.getD 1 ≤ end_.getD usizeMax) :
    (start.getD 1 ≤ bases.length → ∃ out, queryRec f rec start end_ = .ok out ∧ out <:+: bases) ∧
    (bases.length < start.getD 1 → queryRec f rec start end_ = .error .invalidInput) := by
  obtain ⟨g, _, ⟨_, hlen, _, huni, hseq⟩, _, hb⟩ := recOK_at h hrec hnv
  subst hb
  constructor
  · intro hs2
    have hq : recQuery rec start = .ok (faiPos rec (start.getD 1 - 1)) := by
      cases start with
      | none => rfl
      | some p =>
        simp only [Option.getD_some] at hs1 hs2 ⊢
        simp only [recQuery]
        rw [if_neg (by omega)]
    have hsa := hseq hclean (start.getD 1 - 1) (by omega)
    unfold queryRec
    rw [hq]
    simp only []
    rw [hsa _ (Nat.lt_succ_self _)]
    refine ⟨_, rfl, ?_⟩
    simp only [List.nil_append]
    exact (List.take_prefix _ _).isInfix.trans (List.drop_suffix _ _).isInfix
  · intro hs2
    cases start with
    | none => simp only [Option.getD_none] at hs2; have := uniform_pos huni; omega
    | some p =>
      simp only [Option.getD_some] at hs2
      unfold queryRec recQuery
      simp only []
      rw [if_pos (by omega)]

/-- **Ragged files are rejected.** If the sequence lines of some record are not uniform (a line
other than the last differs from the first in width or number of bases, the last line is longer,
or there is no first line with a base), the indexer returns an error for the whole file. -/
theorem fai_rejects_ragged (f : Bytes) (g : Bytes × List Bytes)
    (hg : g ∈ groupRaw (splitLines f)) (hr : ¬ Uniform g.2) : ∃ e, indexFile f = .error e := by
  cases h : indexFile f with
  | error e => exact ⟨e, rfl⟩
  | ok ix =>
    have hall := indexAll_spec f _ f 0 ix rfl h
    exact absurd (forall₂_right hall (fun a b hab => hab.2.2.2.1) g hg) hr

/-- **FASTA write → read.** Records written by the FASTA writer at any line width `lb ≥ 1` (the
builder takes a `NonZero`) read back equal through `Reader::records`: any number of records, empty
sequences included, any description the format can carry. -/
theorem fasta_write_read (lb : Nat) (hlb : 0 < lb) (rs : List FaRec) (hv : ∀ r ∈ rs, ValidFa r) :
    readFa (writeFa lb rs) = .ok rs :=
  readFaAll_written hlb rs hv _ (Nat.lt_succ_self _)

/-- **Non-vacuity at every line width.** The indexer accepts every file the FASTA writer produces
from valid records with at least one base each, whatever the line width — so the hypothesis
`indexFile f = .ok ix` of the theorems above is met by files of every geometry (LF-terminated; the
CRLF / blank-line / unterminated variants are covered by the `example`s below and by the
correspondence runs). -/
theorem fai_accepts_written (lb : Nat) (hlb : 0 < lb) (rs : List FaRec) (hv : ∀ r ∈ rs, ValidFa r)
    (hne : ∀ r ∈ rs, r.sequence ≠ []) : ∃ ix, indexFile (writeFa lb rs) = .ok ix :=
  indexAll_written hlb rs hv hne _ 0 (Nat.lt_succ_self _)

/-- **FASTQ write → read.** Records written by the FASTQ writer (definition separator SP or TAB)
read back equal; the reader is positional (four lines per record), so `@` and `+` anywhere in the
quality string — also as its first character — are data. -/
theorem fastq_write_read (sep : UInt8) (hsep : sep = SP ∨ sep = TAB) (rs : List FqRec)
    (hv : ∀ r ∈ rs, ValidFq r) : readFq (writeFq sep rs) = .ok rs :=
  readFqAll_written hsep rs hv _ (Nat.lt_succ_self _)

/-! ### non-vacuity and the F8 witness -/

/-- valid records exist: a description with an inner space, 10 bases at line width 3 -/
example : ValidFa ⟨[115, 113, 48], some [100, 32, 101], [65, 67, 71, 84, 65, 67, 71, 84, 65, 67]⟩ ∧ ValidFa ⟨[113, 49], none, [65, 67, 71, 84]⟩ := by
  refine ⟨⟨by decide, by decide, ?_, by unfold CleanL; decide⟩,
    ⟨by decide, by decide, ?_, by unfold CleanL; decide⟩⟩
  · intro d hd; cases hd; decide
  · intro d hd; cases hd

example : writeFa 3 [⟨[115, 113, 48], some [100, 32, 101], [65, 67, 71, 84, 65, 67, 71, 84, 65, 67]⟩, ⟨[113, 49], none, [65, 67, 71, 84]⟩] = [62, 115, 113, 48, 32, 100, 32, 101, 10, 65, 67, 71, 10, 84, 65, 67, 10, 71, 84, 65, 10, 67, 10, 62, 113, 49, 10, 65, 67, 71, 10, 84, 10] := by
  decide

/-- qualities `@+I+` and `+@@!` (starting with `@` / `+`) are valid FASTQ records -/
example : ValidFq ⟨[114, 48], [76, 78, 58, 52], [65, 67, 71, 84], [64, 43, 73, 43]⟩ ∧ ValidFq ⟨[114, 48], [], [65, 67, 71, 84], [43, 64, 64, 33]⟩ := by
  refine ⟨⟨by decide, by decide, by decide, by decide, by decide⟩,
    ⟨by decide, by decide, by decide, by decide, by decide⟩⟩

example : writeFq SP [⟨[114, 48], [76, 78, 58, 52], [65, 67, 71, 84], [64, 43, 73, 43]⟩, ⟨[114, 48], [], [65, 67, 71, 84], [43, 64, 64, 33]⟩] = [64, 114, 48, 32, 76, 78, 58, 52, 10, 65, 67, 71, 84, 10, 43, 10, 64, 43, 73, 43, 10, 64, 114, 48, 10, 65, 67, 71, 84, 10, 43, 10, 43, 64, 64, 33, 10] := by
  decide


/-- `>sq0\nACGT\nAC\n>q1 desc\nTTTTG\n` -/
def f8File : Bytes := [62, 115, 113, 48, 10, 65, 67, 71, 84, 10, 65, 67, 10, 62, 113, 49, 32, 100, 101, 115, 99, 10, 84, 84, 84, 84, 71, 10]

/-- the hypotheses of the theorems are satisfiable: this file is accepted -/
example : indexFile f8File = .ok [⟨[115, 113, 48], 6, 5, 4, 5⟩, ⟨[113, 49], 5, 22, 5, 6⟩] := by decide

example : naive f8File = [([115, 113, 48], [65, 67, 71, 84, 65, 67]), ([113, 49], [84, 84, 84, 84, 71])] := by decide

/-- CRLF, a blank trailing line, a last record without final newline: accepted as well
(`>a\r\nACGT\r\nACGT\r\n\r\n>b x\r\nTT`) -/
example : indexFile ([62, 97, 13, 10, 65, 67, 71, 84, 13, 10, 65, 67, 71, 84, 13, 10, 13, 10, 62, 98, 32, 120, 13, 10, 84, 84] : Bytes) = .ok [⟨[97], 8, 4, 4, 6⟩, ⟨[98], 2, 24, 2, 2⟩] := by decide

/-- a ragged file (`>a\nACGT\nACG\nACGT\n`) is rejected -/
example : indexFile ([62, 97, 10, 65, 67, 71, 84, 10, 65, 67, 71, 10, 65, 67, 71, 84, 10] : Bytes) = .error .invalidInput := by decide

/-- **F8 (negation witness for the unfixed code).** Without the bound on the start, `sq0:9-20` on
the 6-base record `sq0` returned `"1 descTTTTG"`: bytes of the next definition line and of the
next record. -/
theorem f8_witness :
    queryRecUnchecked f8File ⟨[115, 113, 48], 6, 5, 4, 5⟩ (some 9) (some 20) = .ok [49, 32, 100, 101, 115, 99, 84, 84, 84, 84, 71] := by decide

/-- the fixed query answers `InvalidInput` -/
example : queryRec f8File ⟨[115, 113, 48], 6, 5, 4, 5⟩ (some 9) (some 20) = .error .invalidInput := by
  decide

end Noodles.Props.C11
