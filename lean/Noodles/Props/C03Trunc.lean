import Noodles.Bgzf.MtTruncProof
import Noodles.Bgzf.MtTruncSimProof
/-!
# C03 (extension): the multithreaded BGZF reader on damaged / truncated input

The source is ANY byte string.  `MtTrunc.scan D s` is what the reader thread (`read_frame_into`)
and the inflate tasks (`parse_block`) make of it: a list of tickets (`Ok(block)` / `Err`) and how
the thread ends.  `MtTrunc.TStep` is the ticket protocol of `multithreaded_reader.rs` with those
errors; a reachable state (`TReach`) is what ANY schedule of reader thread, workers (any completion
order), consumer calls and `finish()` can produce, for any buffer count `nbuf = workers + 2`.
`Trunc.readStream` (C13) is the single-threaded reader on the same bytes.

The model is that of the code AFTER `fix: deliver multithreaded reader read errors in stream order`
(see `Noodles/Bgzf/MtTrunc.lean`): the reader thread's own read error is the last, failing ticket.
-/
namespace Noodles.Props.C03
open Noodles.MtTrunc Noodles.Bgzf
open Noodles.Codec (Bytes)
open Noodles.Trunc (readStream End)

/-- The two threads split the single-threaded frame parser exactly: `read_frame_into` (reader
thread: `Ok(None)` / `InvalidData` on BSIZE / `UnexpectedEof` in the body) followed by `parse_block`
on the frame buffer (inflate task: header fields, ISIZE, inflate, CRC) is `Bgzf.readFrame` on the
stream — same block, same rest, same error. -/
theorem mtr_trunc_frame_stages (D : Deflater) (s : Bytes) :
    readFrame D s = (match readFrameInto s with
      | .error e => .error e
      | .ok none => .ok none
      | .ok (some (buf, rest)) =>
        match parseBlock D buf with
        | .error e => .error e
        | .ok (bs, data) => .ok (some (bs, data, rest))) :=
  readFrame_stage D s

/-- For every byte string: a reader that stops at the first failing ticket of the reader thread's
scan delivers exactly what the single-threaded reader delivers, and ends the same way. -/
theorem mtr_trunc_scan_is_single_threaded (D : Deflater) (s : Bytes) :
    readStream D s = stOf (scan D s).1 :=
  readStream_eq_stOf_scan D s

/-- Whatever the schedule: the results `read_block` hands to the caller are those of tickets
0, 1, 2, … in file order — `Ok` for a good frame, the error for a bad one, none skipped, none
duplicated, none invented — and never more than the source holds. -/
theorem mtr_trunc_results_in_file_order (n nbuf : Nat) (bad : Nat → Bool) (termErr : Bool) (s : T)
    (h : TReach n nbuf bad termErr s) :
    s.out = evs bad s.out.length ∧ s.out.length = s.delivered ∧ s.delivered ≤ n := by
  have inv := tinv_reach h
  have hl : s.out.length = s.delivered := by rw [inv.ou, evs_length]
  refine ⟨by rw [hl]; exact inv.ou, hl, ?_⟩
  have := inv.is; have := inv.dl; omega

/-- `read` returns `Ok(0)` only after the result of EVERY frame the source holds was handed over. -/
theorem mtr_trunc_eof_only_at_end (n nbuf : Nat) (bad : Nat → Bool) (termErr : Bool) (s : T)
    (h : TReach n nbuf bad termErr s) (he : 0 < s.eofs) : s.out = evs bad n := by
  have inv := tinv_reach h
  rw [inv.ou, (inv.ef he).2.2]

/-- `finish()` returns `Ok` in every schedule, whenever it is called: every read error — of the
reader thread or of an inflate task — travels to the caller as a ticket. -/
theorem mtr_trunc_finish_ok (n nbuf : Nat) (bad : Nat → Bool) (termErr : Bool) (s : T)
    (h : TReach n nbuf bad termErr s) (e : Bool) (hf : s.fin = some e) : e = false :=
  ((tinv_reach h).fn e hf).2.2

/-- The reader thread's own error (invalid BSIZE, member cut in its body, inner I/O error), when
there is one, is the LAST ticket of the scan — so it reaches the caller from the read that comes
after all the blocks before the damage, like an inflate error. -/
theorem mtr_trunc_reader_error_is_last_ticket (D : Deflater) (s : Bytes) (h : (scan D s).2 = true) :
    ∃ e, (scan D s).1.getLast? = some (.error e) :=
  scanF_termErr_last D _ s h

/-- Progress: as long as fewer than `nbuf` tickets failed — or once `finish()` was called — some
step other than calling `finish()` is enabled until `finish()` has returned: no read blocks for
ever, `finish()` always comes back. -/
theorem mtr_trunc_progress (n nbuf : Nat) (bad : Nat → Bool) (termErr : Bool) (s : T)
    (h : TReach n nbuf bad termErr s) (hj : s.joined = false)
    (hl : (s.out.filter Ev.isBad).length < nbuf ∨ s.closed = true) :
    ∃ t, TStep n bad termErr s t ∧ t.closed = s.closed := by
  rw [← (tinv_reach h).lo] at hl
  exact progress h hj hl

/-- The bound of `mtr_trunc_progress` is sharp — a quirk of the code, kept in the model: every
failing ticket drops its buffer (`parse_block(..).map(|_| buffer)`), so a caller that goes on
reading after `nbuf` errors waits for ever (3 buffers, 4 bad frames: only `finish()` can move). -/
theorem mtr_trunc_read_blocks_after_nbuf_errors :
    ∃ s, TReach 4 3 (fun _ => true) false s ∧ s.closed = false ∧ s.out = [.bad 0, .bad 1, .bad 2] ∧
      ∀ t, TStep 4 (fun _ => true) false s t → t.closed = true := by
  refine ⟨_, exec_reach [.issue, .issue, .issue, .complete 2, .complete 0, .complete 1,
      .deliver, .deliver, .deliver] _ _ TReach.init rfl, rfl, rfl, ?_⟩
  intro t ht
  cases ht <;> simp_all [T.init] <;> omega

/-! ## bytes: the multithreaded reader against the single-threaded reader, any byte string -/

/-- For EVERY byte string, every buffer count and every schedule: the bytes handed to the caller
before the first error are a prefix of what the single-threaded reader delivers before ITS first
error; once a read returned `Ok(0)` or an error they are exactly those bytes. -/
theorem mt_bytes_eq_single_threaded (D : Deflater) (bs : Bytes) (nbuf : Nat) (s : T)
    (h : TReach (scan D bs).1.length nbuf (badOf (scan D bs).1) (scan D bs).2 s) :
    (∃ r, (readStream D bs).1 = dataBefore (scan D bs).1 s.out ++ r) ∧
    ((0 < s.eofs ∨ ∃ ev ∈ s.out, ev.isBad = true) →
      dataBefore (scan D bs).1 s.out = (readStream D bs).1) := by
  have inv := tinv_reach h
  have hk : s.delivered ≤ (scan D bs).1.length := by have := inv.is; have := inv.dl; omega
  rw [readStream_eq_stOf_scan, inv.ou, dataBefore_evs _ _ hk]
  refine ⟨stOf_take_prefix _ _, ?_⟩
  rintro (he | ⟨ev, hm, hb⟩)
  · rw [(inv.ef he).2.2, List.take_length]
  · obtain ⟨i, hi, hbi⟩ := mem_evs_bad _ _ ev hm hb
    exact stOf_take_of_bad _ _ i hi hbi

/-- Where the error comes out: if ticket `k` is the first failing one, with error `e` — an
inflate-stage error (header fields, ISIZE, inflate, CRC) of frame `k`, or the reader thread's own
error as the last ticket — then `e` is the single-threaded reader's error, and in every schedule
the caller's `(k+1)`-th block request, if it gets that far, returns that error after exactly the
`k` good blocks (as the single-threaded reader does); a caller that saw `Ok(0)` got that far. -/
theorem mt_first_error_from_read (D : Deflater) (bs : Bytes) (nbuf k : Nat) (e : Err)
    (hk : (scan D bs).1[k]? = some (.error e)) (hg : ∀ i, i < k → badOf (scan D bs).1 i = false) :
    (readStream D bs).2 = .err e ∧
    ∀ s, TReach (scan D bs).1.length nbuf (badOf (scan D bs).1) (scan D bs).2 s →
      (k < s.out.length → s.out[k]? = some (.bad k) ∧ s.out.take k = (List.range k).map Ev.blk) ∧
      (0 < s.eofs → k < s.out.length) := by
  refine ⟨by rw [readStream_eq_stOf_scan]; exact stOf_first_bad _ k e hk hg, ?_⟩
  intro s h
  have inv := tinv_reach h
  have hl : s.out.length = s.delivered := by rw [inv.ou, evs_length]
  have hbk : badOf (scan D bs).1 k = true := by simp [badOf, hk]
  have hkn : k < (scan D bs).1.length := by
    rcases Nat.lt_or_ge k (scan D bs).1.length with h | h
    · exact h
    · rw [List.getElem?_eq_none h] at hk; cases hk
  constructor
  · intro hlt
    rw [inv.ou]
    constructor
    · simp only [evs]
      rw [List.getElem?_map, List.getElem?_range (by omega)]
      simp [hbk]
    · simp only [evs, ← List.map_take, List.take_range]
      rw [Nat.min_eq_left (by omega)]
      apply List.map_congr_left
      intro i hi
      simp [hg i (List.mem_range.mp hi)]
  · intro he
    rw [hl, (inv.ef he).2.2]; exact hkn

/-- Never hidden: if the single-threaded reader fails on the byte string, then in every schedule a
caller that reads until `Ok(0)` has been given an error by a read before that `Ok(0)` — nothing
is left for `finish()` to report, and nothing a later seek could discard. -/
theorem mt_error_never_hidden (D : Deflater) (bs : Bytes) (nbuf : Nat) (e : Err)
    (hst : (readStream D bs).2 = .err e) (s : T)
    (h : TReach (scan D bs).1.length nbuf (badOf (scan D bs).1) (scan D bs).2 s)
    (he : 0 < s.eofs) :
    ∃ ev ∈ s.out, ev.isBad = true := by
  have inv := tinv_reach h
  rw [readStream_eq_stOf_scan] at hst
  obtain ⟨i, hi, hbi⟩ := stOf_err _ e hst
  refine ⟨.bad i, ?_, rfl⟩
  rw [inv.ou, (inv.ef he).2.2]
  simp only [evs, List.mem_map, List.mem_range]
  exact ⟨i, hi, by simp [hbi]⟩

/-- No false alarm: if the single-threaded reader reads the byte string to a clean end, then in
every schedule no read returns an error (and `finish()` returns `Ok`, `mtr_trunc_finish_ok`). -/
theorem mt_no_error_when_single_threaded_clean (D : Deflater) (bs : Bytes) (nbuf : Nat)
    (hst : (readStream D bs).2 = .eof) (s : T)
    (h : TReach (scan D bs).1.length nbuf (badOf (scan D bs).1) (scan D bs).2 s) :
    (∀ ev ∈ s.out, ev.isBad = false) ∧ s.fin ≠ some true := by
  have inv := tinv_reach h
  rw [readStream_eq_stOf_scan] at hst
  have hg := stOf_eof _ hst
  constructor
  · intro ev hm
    cases hb : ev.isBad with
    | false => rfl
    | true =>
      rw [inv.ou] at hm
      obtain ⟨i, _, hbi⟩ := mem_evs_bad _ _ ev hm hb
      rw [hg i] at hbi; cases hbi
  · intro hf
    have := mtr_trunc_finish_ok _ _ _ _ s h true hf
    cases this

/-- After `seek_to_virtual_position` nothing of the history before the seek matters except the
stale block of a failed seek: unconsumed tickets (read-ahead the caller never asked for) are
dropped, the lost buffers are replaced, and the tickets are those of the scan of the source from
the new offset —
so every statement above holds again with `bs.drop c` for `bs`. -/
theorem mt_seek_forgets_history (D : Deflater) (nbuf : Nat) (m m' : Sim) (hf : m.file = m'.file)
    (hc : m.cur = m'.cur) (c u : Nat) :
    (Sim.seek D nbuf m c u).2 = (Sim.seek D nbuf m' c u).2 ∧
    (Sim.seek D nbuf m c u).1 = (Sim.seek D nbuf m' c u).1 := by
  obtain ⟨f, r, sr, fs, t, ok, lo, cu⟩ := m
  obtain ⟨f', r', sr', fs', t', ok', lo', cu'⟩ := m'
  simp only at hf hc
  subst hf hc
  simp [Sim.seek, Sim.readBlock, Sim.resume]

/-! ## the transcript model (what the driver prints and the harness compares with the real reader) -/

/-- The caller-visible transcript model against the single-threaded reader, for EVERY byte string
and every positive buffer count: a fresh multithreaded reader asked for more bytes than there are
delivers exactly the single-threaded reader's bytes and ends as it ends — `Ok(0)` or the same
error, from that read — and `finish()` then returns `Ok`. -/
theorem mt_transcript_read_all_eq_single_threaded (D : Deflater) (file : Bytes) (nbuf want : Nat)
    (hn : 0 < nbuf) (hw : (readStream D file).1.flatten.length < want) :
    Sim.run D nbuf (Sim.init file) [.read want] =
      ([.data (readStream D file).1.flatten (some (readStream D file).2)], some none) :=
  sim_read_all D file nbuf want hn hw

/-- … and after a successful `seek_to_virtual_position(c, u)`, whatever happened before it (errors
returned, buffers lost, read-ahead into damage): reading everything delivers what the
single-threaded reader delivers from compressed offset `c`, minus the first `u` bytes, and ends as
it ends. -/
theorem mt_transcript_after_seek_eq_single_threaded (D : Deflater) (nbuf want c u fuel : Nat) (m : Sim)
    (hn : 0 < nbuf) (hok : (Sim.seek D nbuf m c u).2 = .unit)
    (hw : (readStream D (m.file.drop c)).1.flatten.length < want) (hfuel : m.file.length + 2 ≤ fuel) :
    (Sim.readN D nbuf fuel (Sim.seek D nbuf m c u).1 want []).2 =
      .data ((readStream D (m.file.drop c)).1.flatten.drop u) (some (readStream D (m.file.drop c)).2) :=
  sim_seek_read_all D nbuf want c u fuel m hn hok hw hfuel

/-- non-vacuity of the seek hypothesis: a toy inflater (stored = identity), one 31-byte member
`abcde`, seek to (0, 2) from a fresh reader succeeds -/
example :
    let D : Deflater := ⟨fun _ x => x, fun c n => if c.length = n then some c else none, fun _ => 0⟩
    let file : Bytes := headerPrefix ++ [30, 0] ++ [97, 98, 99, 100, 101] ++ [0, 0, 0, 0, 5, 0, 0, 0]
    (match (Sim.seek D 3 (Sim.init file) 0 2).2 with | .unit => true | _ => false) = true := by
  decide

/-! ## non-vacuity: schedules that exist -/

/-- 3 frames, the middle one bad, 3 buffers, out-of-order completion: the error comes out of the
second block request, reading goes on, `Ok(0)`, `finish()` = `Ok`. -/
example : ∃ s, TReach 3 3 (fun i => i == 1) false s ∧ s.out = [.blk 0, .bad 1, .blk 2] ∧ s.eofs = 1 ∧
    s.fin = some false :=
  ⟨_, exec_reach [.issue, .issue, .issue, .complete 2, .complete 1, .complete 0, .deliver, .deliver,
      .deliver, .hitEnd, .seeEof, .close, .join] _ _ TReach.init rfl, rfl, rfl, rfl⟩

/-- 2 good frames then a reader-thread error (the third ticket, answered at once): reads see data,
data, the error, then `Ok(0)`; `finish()` = `Ok`. -/
example : ∃ s, TReach 3 3 (fun i => i == 2) true s ∧ s.out = [.blk 0, .blk 1, .bad 2] ∧ s.eofs = 1 ∧
    s.fin = some false :=
  ⟨_, exec_reach [.issue, .issue, .issueErr, .complete 1, .complete 0, .deliver, .deliver, .deliver,
      .seeEof, .close, .join] _ _ TReach.init rfl, rfl, rfl, rfl⟩

/-- the caller stops after ONE block of 5 with 3 buffers and calls `finish()`: the thread drains
the recycle channel, starves, `finish()` returns -/
example : ∃ s, TReach 5 3 (fun _ => false) false s ∧ s.out = [.blk 0] ∧ s.fin = some false :=
  ⟨_, exec_reach [.issue, .complete 0, .deliver, .close, .issue, .issue, .issue, .starve, .join]
      _ _ TReach.init rfl, rfl, rfl⟩

end Noodles.Props.C03
