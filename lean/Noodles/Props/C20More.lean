import Noodles.Util.Path
import Noodles.Util.PathProof
import Noodles.Util.AsyncDetect
import Noodles.Util.Indexed
import Noodles.Util.AsyncProof
import Noodles.Util.HeaderConv
import Noodles.Util.HeaderConvProof
import Noodles.Util.DetectWritten
/-!
# C20 (extension) — builders beyond `build_from_reader` / `build_from_writer`

Models: `Noodles/Util/Path.lean` (`std::path` extension / stem, the writer builders'
`detect_*_from_path_extension` and `build_from_path`, sync and async; the reader builders'
`build_from_path`), `Noodles/Util/AsyncDetect.lean` (std and tokio `BufReader::fill_buf` as machines
over a scripted source; sync and async `build_from_reader`), `Noodles/Util/Indexed.lean` (the two
`IndexedReader` builders and the per-format index discovery), `Noodles/Util/HeaderConv.lean` (what
`convert` does to a header, per (source, target) pair). Helper lemmas: `Noodles/Util/{PathProof,
AsyncProof,HeaderConvProof}.lean`.

What the theorems say, in one paragraph. A path decides by its EXTENSION alone (the part of the
file name after its last dot, case-sensitive, nothing else): `sam`, `bam`, `cram`, `gz`/`bgz`
(always SAM.gz resp. VCF.gz — the `file_stem.ends_with("sam")` test the code makes cannot change
any outcome), `vcf`, `bcf`, everything else uncompressed SAM / VCF; an explicit `set_format` /
`set_compression_method` always wins, but a compression that is not set is taken from the path even
when the format is set (so `set_format(Bam)` + `out` writes RAW BAM). The reader builders never
look at the path, so what the writer chose for a path is what the reader finds in the file under
`PrefixOK`, whatever either file is called. The async reader builders answer exactly what the sync
builders answer on the script without its `Pending`s, which is the one-window function of
`Detect.lean` — unconditionally; so every theorem of `Props/C20.lean` carries over, and so does the
known limitation F11c. The `IndexedReader` builders decide as the plain builders do, refuse what
has no index format, and find the index by APPENDING `.csi` / `.bai`→`.csi` / `.crai` /
`.tbi`→`.csi`. A header survives every conversion unchanged, except that a CRAM leg appends the
missing `M5` checksums to `@SQ` lines.

A genuine defect was found below this model by the path oracle (`pathdoc v …`): the async generic
variant writer (`variant::async::io::Writer`) has neither `shutdown` nor access to its inner
writer, so what it buffers can never be flushed — files written through its `build_from_path` come
out empty or truncated (fix `async-variant-writer-shutdown`). `gWrite` here, as in `Props/C20.lean`,
is the COMPLETE stream of a writer that was finished; that is the behaviour after the fix.
-/
namespace Noodles.Props.C20
open Noodles.Util

/-! ## 1. paths -/

/-- **What every path maps to.** With nothing set explicitly, the alignment writer builders (sync
and async) and the variant writer builder write, for EVERY byte string used as a path, the
(format, compression) the table `aExtKind` / `vExtKind` gives for `Path::extension`, whatever
`OsStr::to_str` answers for the stem — and never fail. -/
theorem path_mapping_total (fl : Flavour) (utf8 : Utf8) (p : Bytes) :
    aWriterFromPath fl utf8 none none p = .ok (aExtKind (extension p)) ∧
    vWriterFromPath utf8 none none p = vExtKind (extension p) := by
  constructor
  · unfold aWriterFromPath
    simp only
    apply aWriterKindFl_ok
    rw [aWriterKind_getD, aPathFormat_getD, aPathComp_eq]
    exact aExtKind_writable _
  · unfold vWriterFromPath
    simp only
    rw [vWriterKind_getD, vPathFormat_getD, vPathComp_eq]
    exact vExtKind_writable _

/-- `Path::extension` is what follows the LAST dot of the file name, when something precedes that
dot (`.bam` is a hidden file without extension; `x.` has the empty extension). -/
theorem extension_spec (p e : Bytes) :
    extension p = some e ↔ ∃ b, fileName p = some (b ++ DOT :: e) ∧ b ≠ [] ∧ DOT ∉ e :=
  extension_eq_some_iff p e

/-- `dir/stem.ext` and `stem.ext` have extension `ext`, whatever `dir` is (dots in directory names
do not matter) -/
theorem extension_of_named_file (dir stem ext : Bytes) (hs : stem ≠ []) (hss : SLASH ∉ stem)
    (he : DOT ∉ ext) (hes : SLASH ∉ ext) (hdd : ¬ (stem = [DOT] ∧ ext = [])) :
    extension (dir ++ SLASH :: (stem ++ DOT :: ext)) = some ext ∧ extension (stem ++ DOT :: ext) = some ext :=
  ⟨extension_join dir stem ext hs hss he hes hdd, extension_bare stem ext hs hss he hes hdd⟩

/-- The table itself, row by row: `x.sam` … (each on a bare name and behind any directory). -/
theorem path_mapping_rows (fl : Flavour) (utf8 : Utf8) (dir stem : Bytes) (hs : stem ≠ []) (hss : SLASH ∉ stem) :
    let w := fun ext => aWriterFromPath fl utf8 none none (dir ++ SLASH :: (stem ++ DOT :: ext))
    let v := fun ext => vWriterFromPath utf8 none none (dir ++ SLASH :: (stem ++ DOT :: ext))
    w EXT_SAM = .ok (.sam, .plain) ∧ w EXT_BAM = .ok (.bam, .bgzf) ∧ w EXT_CRAM = .ok (.cram, .plain) ∧
    w EXT_GZ = .ok (.sam, .bgzf) ∧ w EXT_BGZ = .ok (.sam, .bgzf) ∧
    v EXT_VCF = (.vcf, .plain) ∧ v EXT_BCF = (.bcf, .bgzf) ∧ v EXT_GZ = (.vcf, .bgzf) ∧ v EXT_BGZ = (.vcf, .bgzf) := by
  have ext : ∀ e, DOT ∉ e → SLASH ∉ e → e ≠ [] →
      extension (dir ++ SLASH :: (stem ++ DOT :: e)) = some e :=
    fun e h1 h2 h3 => extension_join dir stem e hs hss h1 h2 (fun h => h3 h.2)
  simp only
  refine ⟨?_, ?_, ?_, ?_, ?_, ?_, ?_, ?_, ?_⟩
  · rw [(path_mapping_total fl utf8 _).1, ext EXT_SAM (by decide) (by decide) (by decide)]; rfl
  · rw [(path_mapping_total fl utf8 _).1, ext EXT_BAM (by decide) (by decide) (by decide)]; rfl
  · rw [(path_mapping_total fl utf8 _).1, ext EXT_CRAM (by decide) (by decide) (by decide)]; rfl
  · rw [(path_mapping_total fl utf8 _).1, ext EXT_GZ (by decide) (by decide) (by decide)]; rfl
  · rw [(path_mapping_total fl utf8 _).1, ext EXT_BGZ (by decide) (by decide) (by decide)]; rfl
  · rw [(path_mapping_total fl utf8 _).2, ext EXT_VCF (by decide) (by decide) (by decide)]; rfl
  · rw [(path_mapping_total fl utf8 _).2, ext EXT_BCF (by decide) (by decide) (by decide)]; rfl
  · rw [(path_mapping_total fl utf8 _).2, ext EXT_GZ (by decide) (by decide) (by decide)]; rfl
  · rw [(path_mapping_total fl utf8 _).2, ext EXT_BGZ (by decide) (by decide) (by decide)]; rfl

/-- **Precedence.** An explicit setting always beats the path; but each of the two settings is
replaced on its own: a compression that is not set comes from the path EVEN WHEN the format is set
(the format's own default of `build_from_writer` never applies in `build_from_path`), and a format
that is not set comes from the path's extension row. -/
theorem explicit_settings_beat_path (fl : Flavour) (utf8 : Utf8) (p : Bytes) (f : AFormat) (c : Comp)
    (vf : VFormat) :
    aWriterFromPath fl utf8 (some f) (some c) p = aWriterKindFl fl (some f) (some c) ∧
    aWriterFromPath fl utf8 (some f) none p = aWriterKindFl fl (some f) (some (aExtKind (extension p)).2) ∧
    aWriterFromPath fl utf8 none (some c) p = aWriterKindFl fl (some (aExtKind (extension p)).1) (some c) ∧
    vWriterFromPath utf8 (some vf) (some c) p = (vf, c) ∧
    vWriterFromPath utf8 (some vf) none p = (vf, (vExtKind (extension p)).2) ∧
    vWriterFromPath utf8 none (some c) p = ((vExtKind (extension p)).1, c) := by
  refine ⟨rfl, ?_, ?_, ?_, ?_, ?_⟩
  · simp only [aWriterFromPath, aPathComp_eq]
  · simp only [aWriterFromPath]
    cases fl
    · simp only [aWriterKindFl]; rw [aWriterKind_getD, aPathFormat_getD]
    · simp only [aWriterKindFl]; rw [aWriterKind_getD, aPathFormat_getD]
  · cases vf <;> cases c <;> rfl
  · simp only [vWriterFromPath, vPathComp_eq]
    cases vf <;> cases (vExtKind (extension p)).2 <;> rfl
  · simp only [vWriterFromPath]
    rw [vWriterKind_getD, vPathFormat_getD]
    cases (vExtKind (extension p)).1 <;> cases c <;> rfl

/-- The `file_stem.ends_with("sam" | "vcf")` test of `detect_format_from_path_extension` (and the
UTF-8 check before it) cannot be observed through the builders: whatever `to_str` answers, for every
path and every explicit setting, the same stream is written. -/
theorem stem_check_unobservable (fl : Flavour) (utf8 utf8' : Utf8) (fo : Option AFormat) (vo : Option VFormat)
    (co : Option Comp) (p : Bytes) :
    aWriterFromPath fl utf8 fo co p = aWriterFromPath fl utf8' fo co p ∧
    vWriterFromPath utf8 vo co p = vWriterFromPath utf8' vo co p := by
  constructor
  · cases fo with
    | some f => rfl
    | none =>
      cases co <;> cases fl <;> simp only [aWriterFromPath, aWriterKindFl] <;>
        rw [aWriterKind_getD, aPathFormat_getD, aWriterKind_getD (aPathFormat utf8' p), aPathFormat_getD]
  · cases vo with
    | some f => rfl
    | none =>
      cases co <;> simp only [vWriterFromPath] <;>
        rw [vWriterKind_getD, vPathFormat_getD, vWriterKind_getD (vPathFormat utf8' p), vPathFormat_getD]

/-- **Writer path / reader path agreement.** Whatever the writer builder chose for path `p` (with
or without explicit settings), the reader builder opened on ANY path `p'` — the same one included —
detects exactly that from the content the writer produced, under the `PrefixOK` of
`detect_written_alignment`; the reader never consults the name. -/
theorem writer_path_reader_path_agree (B : BgzfLayer) (fl : Flavour) (utf8 : Utf8)
    (fo : Option AFormat) (co : Option Comp) (p p' : Bytes) (f : AFormat) (c : Comp)
    (payload : APayload) (k : Nat)
    (hw : aWriterFromPath fl utf8 fo co p = .ok (f, c)) (hok : APrefixOK B f c payload k) :
    aReaderFromPath none none p' ((aStream B f c payload).take k) (B.inflate ((aStream B f c payload).take k))
      = aWriterFromPath fl utf8 fo co p := by
  rw [hw]
  exact detect_written_alignment' B f c payload k hok

/-- the same for the variant family (the variant writer builder cannot fail) -/
theorem writer_path_reader_path_agree_variant (B : BgzfLayer) (utf8 : Utf8)
    (fo : Option VFormat) (co : Option Comp) (p p' : Bytes) (body : Bytes) (k : Nat)
    (hok : VPrefixOK B (vWriterFromPath utf8 fo co p).1 (vWriterFromPath utf8 fo co p).2 body k) :
    vReaderFromPath none none p'
        ((vStream B (vWriterFromPath utf8 fo co p).1 (vWriterFromPath utf8 fo co p).2 body).take k)
        (B.inflate ((vStream B (vWriterFromPath utf8 fo co p).1 (vWriterFromPath utf8 fo co p).2 body).take k))
      = .ok (vWriterFromPath utf8 fo co p) :=
  detect_written_variant' B _ _ body k hok

/-- …in particular a file written under a name with nothing set reads back, under the same or any
other name, as what the extension table says. -/
theorem default_path_roundtrip (B : BgzfLayer) (fl : Flavour) (utf8 : Utf8) (p p' : Bytes)
    (payload : APayload) (k : Nat)
    (hok : APrefixOK B (aExtKind (extension p)).1 (aExtKind (extension p)).2 payload k) :
    aReaderFromPath none none p'
        ((aStream B (aExtKind (extension p)).1 (aExtKind (extension p)).2 payload).take k)
        (B.inflate ((aStream B (aExtKind (extension p)).1 (aExtKind (extension p)).2 payload).take k))
      = .ok (aExtKind (extension p)) :=
  writer_path_reader_path_agree B fl utf8 none none p p' _ _ payload k
    (path_mapping_total fl utf8 p).1 hok ▸ (path_mapping_total fl utf8 p).1

/-- Write to a path, read from a path, over abstract per-format codecs: the document comes back in
the normal form of the format the writer builder chose for the path. -/
theorem path_write_read_roundtrip {Doc : Type} (B : BgzfLayer) (C : Codecs AFormat Doc) (fl : Flavour)
    (utf8 : Utf8) (fo : Option AFormat) (co : Option Comp) (p : Bytes) (f : AFormat) (c : Comp) (d : Doc)
    (payload : APayload) (k : Nat)
    (hw : aWriterFromPath fl utf8 fo co p = .ok (f, c))
    (hlead : C.plain f d = aPlain f payload) (hok : APrefixOK B f c payload k) :
    ((aWriterFromPath fl utf8 fo co p).bind fun fc => gRead B C (aDetect B k) (gWrite B C fc.1 fc.2 d))
      = .ok (C.nf f d) := by
  rw [hw]
  exact generic_read_written_alignment' B C f c d payload k hlead hok

/-- a refused request still creates (truncates) the file: `File::create` runs first -/
theorem refused_request_still_creates_file (fl : Flavour) (utf8 : Utf8) (p : Bytes) :
    (aWriterFromPathFs fl utf8 (some .cram) (some .bgzf) p true).created = true ∧
    (aWriterFromPathFs .sync utf8 (some .cram) (some .bgzf) p true).answer = .error .invalidInput ∧
    (aWriterFromPathFs .async utf8 (some .cram) (some .bgzf) p true).answer = .error .invalidData := by
  refine ⟨rfl, rfl, rfl⟩

/-! ### surprising paths (each replayed on the real builders: `c20 apath` / `c20 vpath` corpus) -/

def P_UPPER : Bytes := [0x78, 0x2e, 0x42, 0x41, 0x4d]        -- x.BAM
def P_BAM_GZ : Bytes := [0x78, 0x2e, 0x62, 0x61, 0x6d, 0x2e, 0x67, 0x7a]      -- x.bam.gz
def P_CRAM_GZ : Bytes := [0x78, 0x2e, 0x63, 0x72, 0x61, 0x6d, 0x2e, 0x67, 0x7a]    -- x.cram.gz
def P_BCF_GZ : Bytes := [0x78, 0x2e, 0x62, 0x63, 0x66, 0x2e, 0x67, 0x7a]      -- x.bcf.gz
def P_HIDDEN : Bytes := [0x2e, 0x62, 0x61, 0x6d]      -- .bam
def P_TMP : Bytes := [0x72, 0x65, 0x61, 0x64, 0x73, 0x2e, 0x73, 0x61, 0x6d, 0x2e, 0x67, 0x7a, 0x2e, 0x74, 0x6d, 0x70]            -- reads.sam.gz.tmp
def P_DIRDOT : Bytes := [0x72, 0x75, 0x6e, 0x2e, 0x62, 0x61, 0x6d, 0x2f, 0x6f, 0x75, 0x74]      -- run.bam/out
def P_TRAIL : Bytes := [0x6f, 0x75, 0x74, 0x2e, 0x62, 0x61, 0x6d, 0x2f]        -- out.bam/
def P_CURDIR : Bytes := [0x6f, 0x75, 0x74, 0x2e, 0x63, 0x72, 0x61, 0x6d, 0x2f, 0x2e]      -- out.cram/.
def P_NOEXT : Bytes := [0x6f, 0x75, 0x74]        -- out
def P_XSAM : Bytes := [0x78, 0x2e, 0x73, 0x61, 0x6d]          -- x.sam
def P_XBAM : Bytes := [0x78, 0x2e, 0x62, 0x61, 0x6d]          -- x.bam
def P_XVCF : Bytes := [0x6f, 0x75, 0x74, 0x2e, 0x76, 0x63, 0x66]          -- out.vcf
def P_DOTDOT : Bytes := [0x64, 0x69, 0x72, 0x2f, 0x2e, 0x2e]      -- dir/..
def P_ENDDOT : Bytes := [0x78, 0x2e]      -- x.
def P_MANY : Bytes := [0x61, 0x2e, 0x62, 0x2e, 0x63, 0x2e, 0x62, 0x61, 0x6d]          -- a.b.c.bam
def P_XSAMGZ : Bytes := [0x78, 0x73, 0x61, 0x6d, 0x2e, 0x67, 0x7a]      -- xsam.gz

def yes : Utf8 := fun _ => true

/-- extensions are case-sensitive; only the LAST extension counts (`x.bam.gz` is SAM.gz,
`x.bcf.gz` is VCF.gz, `reads.sam.gz.tmp` is plain SAM); a leading dot starts no extension; dots in
directory names do not count, but a trailing `/` or `/.` is dropped before the name is taken. -/
theorem surprising_paths :
    aWriterFromPath .sync yes none none P_UPPER = .ok (.sam, .plain) ∧
    aWriterFromPath .sync yes none none P_BAM_GZ = .ok (.sam, .bgzf) ∧
    aWriterFromPath .sync yes none none P_CRAM_GZ = .ok (.sam, .bgzf) ∧
    vWriterFromPath yes none none P_BCF_GZ = (.vcf, .bgzf) ∧
    aWriterFromPath .sync yes none none P_HIDDEN = .ok (.sam, .plain) ∧
    aWriterFromPath .sync yes none none P_TMP = .ok (.sam, .plain) ∧
    aWriterFromPath .sync yes none none P_DIRDOT = .ok (.sam, .plain) ∧
    aWriterFromPath .sync yes none none P_TRAIL = .ok (.bam, .bgzf) ∧
    aWriterFromPath .sync yes none none P_CURDIR = .ok (.cram, .plain) ∧
    aWriterFromPath .sync yes none none P_DOTDOT = .ok (.sam, .plain) ∧
    aWriterFromPath .sync yes none none P_ENDDOT = .ok (.sam, .plain) ∧
    aWriterFromPath .sync yes none none P_MANY = .ok (.bam, .bgzf) ∧
    aWriterFromPath .sync yes none none P_XSAMGZ = .ok (.sam, .bgzf) := by decide

/-- `set_format(Bam).build_from_path("out")` writes RAW BAM (`build_from_writer` would have written
bgzipped BAM); `set_format(Bcf).build_from_path("out.vcf")` writes raw BCF; `set_format(Cram)` with
a `.bam` / `.gz` path, or `set_compression_method(Bgzf)` with a `.cram` path, is refused. -/
theorem explicit_format_takes_compression_from_path :
    aWriterFromPath .sync yes (some .bam) none P_NOEXT = .ok (.bam, .plain) ∧
    aWriterKind (some .bam) none = .ok (.bam, .bgzf) ∧
    aWriterFromPath .sync yes (some .bam) none P_XSAM = .ok (.bam, .plain) ∧
    vWriterFromPath yes (some .bcf) none P_XVCF = (.bcf, .plain) ∧
    vWriterKind (some .bcf) none = (.bcf, .bgzf) ∧
    aWriterFromPath .sync yes (some .cram) none P_XBAM = .error .invalidInput ∧
    aWriterFromPath .async yes (some .cram) none P_XBAM = .error .invalidData ∧
    aWriterFromPath .sync yes (some .sam) none P_XBAM = .ok (.sam, .bgzf) := by decide

/-! ## 2. async builders -/

/-- **The async builder answers what the sync builder answers** on the same bytes delivered in the
same sizes — for every byte string, every script of `Pending`s and partial reads, every override;
and both are the one-window function `aBuildWith` of `Detect.lean` on the first window. No
hypothesis: `PrefixOK` is not needed for this. -/
theorem async_detect_eq_sync (infl : Bytes → Inflated) (fo : Option AFormat) (co : Option Comp)
    (data : Bytes) (sched : List Poll1) :
    aBuildAsync infl fo co ⟨data, sched⟩ = aBuildSync infl fo co ⟨data, stripPending sched⟩ ∧
    aBuildSync infl fo co ⟨data, stripPending sched⟩
      = aBuildWith fo co (data.take (firstWindowSize (stripPending sched)))
          (infl (data.take (firstWindowSize (stripPending sched)))) :=
  ⟨aBuildAsync_eq_sync infl fo co data sched, aBuildSync_eq_window infl fo co data _⟩

theorem async_detect_eq_sync_variant (infl : Bytes → Inflated) (fo : Option VFormat) (co : Option Comp)
    (data : Bytes) (sched : List Poll1) :
    vBuildAsync infl fo co ⟨data, sched⟩ = vBuildSync infl fo co ⟨data, stripPending sched⟩ ∧
    vBuildSync infl fo co ⟨data, stripPending sched⟩
      = vBuildWith fo co (data.take (firstWindowSize (stripPending sched)))
          (infl (data.take (firstWindowSize (stripPending sched)))) :=
  ⟨vBuildAsync_eq_sync infl fo co data sched, vBuildSync_eq_window infl fo co data _⟩

/-- …so the async alignment reader told nothing recognises what the generic writer wrote, under
the same `PrefixOK` as the sync reader, `k` being the size of the first ready `poll_read`. -/
theorem async_detect_written_alignment (B : BgzfLayer) (f : AFormat) (c : Comp) (p : APayload)
    (sched : List Poll1) (h : APrefixOK B f c p (firstWindowSize (stripPending sched))) :
    aBuildAsync B.inflate none none ⟨aStream B f c p, sched⟩ = .ok (f, c) := by
  rw [(async_detect_eq_sync _ _ _ _ _).1, (async_detect_eq_sync _ _ _ _ _).2]
  exact detect_written_alignment' B f c p _ h

theorem async_detect_written_variant (B : BgzfLayer) (f : VFormat) (c : Comp) (body : Bytes)
    (sched : List Poll1) (h : VPrefixOK B f c body (firstWindowSize (stripPending sched))) :
    vBuildAsync B.inflate none none ⟨vStream B f c body, sched⟩ = .ok (f, c) := by
  rw [(async_detect_eq_sync_variant _ _ _ _ _).1, (async_detect_eq_sync_variant _ _ _ _ _).2]
  exact detect_written_variant' B f c body _ h

/-- the known limitation F11c holds of the async builders too: a first ready poll of one byte
(after any number of `Pending`s) makes raw BAM be taken for SAM text -/
theorem async_short_first_poll_defeats_detection :
    aBuildAsync storedLayer.inflate none none ⟨aStream storedLayer .bam .plain {}, [.pending, .pending, .ready 1]⟩
      = .ok (.sam, .plain) ∧
    vBuildAsync storedLayer.inflate none none ⟨vStream storedLayer .bcf .plain [], [.pending, .ready 2]⟩
      = .ok (.vcf, .plain) := by decide

/-! ## 3. indexed reader builders -/

/-- **The indexed builders detect as the plain builders do**: same error when the plain builder
fails; `InvalidData` when the detected pair has no index format (uncompressed SAM / BAM, any
uncompressed VCF / BCF); otherwise the format the plain builder names, with the index found as
`aIndexFor` / `vIndexFor` say. -/
theorem indexed_builder_detects_as_reader (fo : Option AFormat) (co : Option Comp)
    (given : Option GivenIndex) (fs : Fs) (src : Option Bytes) (w : Bytes) (infl : Inflated) :
    aIndexedBuild fo co given fs src w infl =
      (match aBuildWith fo co w infl with
       | .error e => .error e
       | .ok (f, c) =>
         if aIndexable (f, c) then (aIndexFor f given fs src).map fun i => (f, i)
         else .error .invalidData) :=
  aIndexedBuild_eq fo co given fs src w infl

theorem indexed_builder_detects_as_reader_variant (fo : Option VFormat) (co : Option Comp)
    (given : Bool) (fs : Fs) (src : Option Bytes) (w : Bytes) (infl : Inflated) :
    vIndexedBuild fo co given fs src w infl =
      (match vBuildWith fo co w infl with
       | .error e => .error e
       | .ok (f, c) =>
         if vIndexable (f, c) then (vIndexFor f given fs src).map fun i => (f, i)
         else .error .invalidData) :=
  vIndexedBuild_eq fo co given fs src w infl

/-- A file the generic writer produced, opened by path with nothing set: SAM.gz / BAM / CRAM are
opened as themselves with the index found by extension, uncompressed SAM and raw BAM are refused. -/
theorem indexed_written_alignment (B : BgzfLayer) (f : AFormat) (c : Comp) (p : APayload) (k : Nat)
    (fs : Fs) (path : Bytes) (hok : APrefixOK B f c p k) :
    aIndexedBuild none none none fs (some path) ((aStream B f c p).take k) (B.inflate ((aStream B f c p).take k))
      = (if aIndexable (f, c) then (aIndexFor f none fs (some path)).map fun i => (f, i)
         else .error .invalidData) := by
  rw [indexed_builder_detects_as_reader]
  have := detect_written_alignment' B f c p k hok
  unfold aDetect at this
  rw [this]

/-- **Index discovery.** The candidates are the data path with `.` + extension APPENDED. BAM: `.bai`
when it can be read; `.csi` only when `.bai` does not exist — an unreadable `.bai` is final even
if a good `.csi` lies next to it. VCF.gz: the same with `.tbi`. SAM.gz and BCF: `.csi` only. CRAM:
`.crai`. -/
theorem index_discovery (fs : Fs) (path : Bytes) :
    aIndexFor .sam none fs (some path) = readIndex fs (path ++ DOT :: EXT_CSI) ∧
    aIndexFor .cram none fs (some path) = readIndex fs (path ++ DOT :: EXT_CRAI) ∧
    vIndexFor .bcf false fs (some path) = readIndex fs (path ++ DOT :: EXT_CSI) ∧
    (fs (path ++ DOT :: EXT_BAI) = .ok → aIndexFor .bam none fs (some path) = .ok (.file (path ++ DOT :: EXT_BAI))) ∧
    (fs (path ++ DOT :: EXT_BAI) = .notFound →
      aIndexFor .bam none fs (some path) = readIndex fs (path ++ DOT :: EXT_CSI)) ∧
    (∀ e, fs (path ++ DOT :: EXT_BAI) = .failed e → aIndexFor .bam none fs (some path) = .error e) ∧
    (fs (path ++ DOT :: EXT_TBI) = .ok → vIndexFor .vcf false fs (some path) = .ok (.file (path ++ DOT :: EXT_TBI))) ∧
    (fs (path ++ DOT :: EXT_TBI) = .notFound →
      vIndexFor .vcf false fs (some path) = readIndex fs (path ++ DOT :: EXT_CSI)) ∧
    (∀ e, fs (path ++ DOT :: EXT_TBI) = .failed e → vIndexFor .vcf false fs (some path) = .error e) := by
  refine ⟨rfl, rfl, rfl, ?_, ?_, ?_, ?_, ?_, ?_⟩ <;>
    intros <;> simp_all [aIndexFor, vIndexFor, discover, readIndexFallback, pushExt]

/-- the index name keeps the data file's extension: `dir/x.bam` → `dir/x.bam.bai`, never
`dir/x.bai`; and the extension of the index path is the index kind -/
theorem index_path_appends (dir name ext : Bytes) (hn : NormalName name)
    (he : DOT ∉ ext) (hes : SLASH ∉ ext) (hne : ext ≠ []) :
    fileName (pushExt (dir ++ SLASH :: name) ext) = some (name ++ DOT :: ext) ∧
    extension (pushExt (dir ++ SLASH :: name) ext) = some ext := by
  have e : pushExt (dir ++ SLASH :: name) ext = dir ++ SLASH :: (name ++ DOT :: ext) := by
    simp [pushExt]
  rw [e]
  exact ⟨fileName_join _ _ (normalName_stem_ext name ext hn.1 hn.2.1 hes (fun h => hne h.2)),
    extension_join dir name ext hn.1 hn.2.1 he hes (fun h => hne h.2)⟩

/-- a given index of the wrong family is dropped without a word: a CRAI handed to the builder of a
BAM is ignored — the index is then looked up on disk (`build_from_path`) or reported missing
(`build_from_reader`, `InvalidInput`); likewise a CSI handed to the builder of a CRAM -/
theorem mismatched_index_silently_dropped (fs : Fs) (path : Bytes) :
    aIndexFor .bam (some .crai) fs (some path) = aIndexFor .bam none fs (some path) ∧
    aIndexFor .bam (some .crai) fs none = .error .invalidInput ∧
    aIndexFor .cram (some .csi) fs none = .error .invalidInput ∧
    aIndexFor .bam (some .csi) fs none = .ok .given ∧
    aIndexFor .cram (some .crai) fs none = .ok .given := by
  refine ⟨rfl, rfl, rfl, rfl, rfl⟩

/-- an unreadable `.bai` hides a good `.csi` -/
theorem corrupt_bai_hides_csi :
    let fs : Fs := fun p => if p = P_XBAM ++ DOT :: EXT_BAI then .failed .invalidData else .ok
    aIndexFor .bam none fs (some P_XBAM) = .error .invalidData := by decide

/-! ## 4. headers through `convert` -/

section headers
open Noodles.Util.HeaderConv Noodles.Sam

/-- **A header through reader(f) → writer(g) → reader(g)**, for every (source, target) pair of
{SAM, BAM, CRAM}: when the two writers accept, the result is the header in the normal forms of the
two formats — and the only non-trivial normal form is CRAM's `add_missing_reference_sequence_
checksums`. Byte level for SAM and BAM (C06 models), the CRAM container is a parameter. -/
theorem convert_header_alignment (F : TextFraming) (md5 : Sam.Bytes → Sam.Bytes) (f g : AFormat) (h : Hdr)
    (hwf : HdrWF h) :
    aConvertHeader F md5 f g h =
      (aWriteHeader F md5 f h).bind fun _ =>
      (aWriteHeader F md5 g (aHeaderNf md5 f h)).map fun _ => aHeaderNf md5 g (aHeaderNf md5 f h) := by
  unfold aConvertHeader
  cases h1 : aWriteHeader F md5 f h with
  | none => rfl
  | some b₁ =>
    simp only [Option.bind, aHeader_roundtrip F md5 f h hwf b₁ h1]
    cases h2 : aWriteHeader F md5 g (aHeaderNf md5 f h) with
    | none => rfl
    | some b₂ =>
      simp only [Option.map, aHeader_roundtrip F md5 g _ (aHeaderNf_wf md5 f h hwf) b₂ h2]

/-- What every conversion keeps: the `@HD` line, the reference sequences in order with their names,
lengths and every field they had, all read groups, programs and comments. What a CRAM leg adds: an
`M5` field at the end of each `@SQ` line that had none; a second CRAM leg adds nothing more. -/
theorem convert_header_keeps (md5 : Sam.Bytes → Sam.Bytes) (f g : AFormat) (h h' : Hdr)
    (hh : h' = aHeaderNf md5 g (aHeaderNf md5 f h)) :
    h'.hd = h.hd ∧ h'.rg = h.rg ∧ h'.pg = h.pg ∧ h'.co = h.co ∧
    h'.sq.map (fun l => (l.name, l.len)) = h.sq.map (fun l => (l.name, l.len)) ∧
    (h' = h ∨ h' = addM5 md5 h) ∧
    (f ≠ .cram → g ≠ .cram → h' = h) := by
  have key : ∀ x : Hdr, (addM5 md5 x).sq.map (fun l => (l.name, l.len)) = x.sq.map (fun l => (l.name, l.len)) := by
    intro x
    simp only [addM5, List.map_map]
    apply List.map_congr_left
    intro l _
    simp [addM5Line_name, addM5Line_len]
  have same : h' = h →
      h'.hd = h.hd ∧ h'.rg = h.rg ∧ h'.pg = h.pg ∧ h'.co = h.co ∧
      h'.sq.map (fun l => (l.name, l.len)) = h.sq.map (fun l => (l.name, l.len)) ∧
      (h' = h ∨ h' = addM5 md5 h) ∧ (f ≠ .cram → g ≠ .cram → h' = h) := fun e => by
    subst e
    exact ⟨rfl, rfl, rfl, rfl, rfl, Or.inl rfl, fun _ _ => rfl⟩
  have added : (f = .cram ∨ g = .cram) → h' = addM5 md5 h →
      h'.hd = h.hd ∧ h'.rg = h.rg ∧ h'.pg = h.pg ∧ h'.co = h.co ∧
      h'.sq.map (fun l => (l.name, l.len)) = h.sq.map (fun l => (l.name, l.len)) ∧
      (h' = h ∨ h' = addM5 md5 h) ∧ (f ≠ .cram → g ≠ .cram → h' = h) := fun hc e => by
    subst e
    exact ⟨rfl, rfl, rfl, rfl, key h, Or.inr rfl, fun h1 h2 => by rcases hc with hc | hc <;> contradiction⟩
  cases f <;> cases g <;> simp only [aHeaderNf, addM5_idem] at hh
  · exact same hh
  · exact same hh
  · exact added (Or.inr rfl) hh
  · exact same hh
  · exact same hh
  · exact added (Or.inr rfl) hh
  · exact added (Or.inl rfl) hh
  · exact added (Or.inl rfl) hh
  · exact added (Or.inl rfl) hh

/-- `add_missing_reference_sequence_checksums` on a line: an existing `M5` is never overwritten -/
theorem cram_keeps_existing_checksum (md5 : Sam.Bytes → Sam.Bytes) (l : SqLine)
    (h : (lookupTag M5 l.others).isSome = true) : addM5Line md5 l = l :=
  addM5Line_of_has md5 l h

open Noodles.Vcf.Header in
/-- **Variant headers**: for every (source, target) pair of {VCF, BCF} a well-formed header comes
out of reader(f) → writer(g) → reader(g) EXACTLY as it went in — every line with its fields and
`IDX` in order — so the dictionaries `StringMaps::try_from(&header)` builds from it (which is what
the BCF writer encodes records with) are the same on both sides of every conversion. -/
theorem convert_header_variant (F : TextFraming) (D : DefTables) (f g : VFormat) (h : Header)
    (hwf : wfHeader D h = true) :
    vConvertHeader F D f g h = some h ∧
    ∀ h', vConvertHeader F D f g h = some h' →
      stringEntries h' = stringEntries h ∧ contigEntries h' = contigEntries h := by
  have hc : vConvertHeader F D f g h = some h := by
    unfold vConvertHeader
    obtain ⟨b₁, hw1, hr1⟩ := vHeader_roundtrip F D f h hwf
    obtain ⟨b₂, hw2, hr2⟩ := vHeader_roundtrip F D g h hwf
    simp only [hw1, Option.bind, hr1, hw2, hr2]
  refine ⟨hc, ?_⟩
  intro h' hh
  rw [hc] at hh
  cases hh
  exact ⟨rfl, rfl⟩

end headers

/-! ### non-vacuity -/

example : APrefixOK storedLayer (aExtKind (extension P_XBAM)).1 (aExtKind (extension P_XBAM)).2
    { body := [0, 0, 0, 0] } 8192 := by decide
example : extension P_MANY = some EXT_BAM := by decide
example : NormalName P_XBAM := by decide
/-- a well-formed SAM header with an `@SQ` line without `M5`, for which a CRAM leg is not the
identity -/
example : let h : Noodles.Sam.Hdr := ⟨none, [⟨[115, 113], 10, []⟩], [], [], []⟩
    Noodles.Util.HeaderConv.addM5 (fun _ => [48]) h ≠ h := by decide

end Noodles.Props.C20
