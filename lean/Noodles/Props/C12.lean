import Noodles.Props.C12Comp
import Noodles.Props.C12More
import Noodles.Io.Loops
import Noodles.Io.LoopsProof
import Noodles.Bgzf.ReaderModel
/-!
# C12 — decoded content does not depend on how the underlying stream chunks its reads

A byte source is its undelivered data plus a FINITE adversarial delivery schedule (short reads of any
size ≥ 1, `ErrorKind::Interrupted` anywhere); a `BufReader` adds a buffer of any capacity ≥ 1. For every
noodles loop transcribed in `Noodles.Io.Loops` the result AND the bytes left unread are a function of
the undelivered bytes alone: two deliveries of the same bytes — different schedules, different
capacities, a different split between buffer and source — give the same answer. Where the loop has a
short closed form (`read_exact`, `read_exact_or_eof`, `read_until`) it is stated too, which also says
that a short read is never mistaken for end of stream (`…_refines`).

The `fill_buf` scanners are proved in their FIXED form (`fixed = true`: the refill is retried on
`Interrupted`; the FASTQ name scanner strips the CR after the name is assembled). For today's code
(`fixed = false`) the `…_chunk_irrelevant` theorems hold for interruption-free schedules and the
`…_today` theorems are the counterexamples (finding F22 and the FASTQ CRLF defect).
Helper lemmas are in `Noodles/Io/LoopsProof.lean`.
-/
namespace Noodles.Props.C12
open Noodles.IO

variable {α : Type}

deriving instance DecidableEq for Except

/-! ## unbuffered loops (`default_read_exact`, `read_exact_or_eof`, BAM and BGZF framing) -/

/-- `default_read_exact` returns exactly the next `want` bytes and leaves exactly the rest, or — only
when fewer than `want` bytes remain — `UnexpectedEof`; under every schedule. -/
theorem defaultReadExact_refines (data : List α) (sched : List Delivery) (want : Nat) :
    (want ≤ data.length →
      (defaultReadExact ⟨data, sched⟩ want).1 = .ok (data.take want) ∧
      (defaultReadExact ⟨data, sched⟩ want).2.data = data.drop want) ∧
    (data.length < want →
      (defaultReadExact ⟨data, sched⟩ want).1 = .error .eof ∧
      (defaultReadExact ⟨data, sched⟩ want).2.data = []) := by
  obtain ⟨h1, h2⟩ := defaultReadExact_spec ⟨data, sched⟩ want
  simp only [specReadExact] at h1 h2
  constructor
  · intro h; rw [if_pos h] at h1 h2; exact ⟨h1, h2⟩
  · intro h; rw [if_neg (by omega)] at h1 h2; exact ⟨h1, h2⟩

theorem defaultReadExact_schedule_irrelevant (data : List α) (sc₁ sc₂ : List Delivery) (want : Nat) :
    (defaultReadExact ⟨data, sc₁⟩ want).1 = (defaultReadExact ⟨data, sc₂⟩ want).1 ∧
    (defaultReadExact ⟨data, sc₁⟩ want).2.data = (defaultReadExact ⟨data, sc₂⟩ want).2.data :=
  defaultReadExact_irrel want ⟨data, sc₁⟩ ⟨data, sc₂⟩ rfl

/-- `read_exact_or_eof` (BAM): the next `want` bytes; nothing, without an error, exactly when no byte
at all remains; `UnexpectedEof` exactly when some but fewer than `want` bytes remain. -/
theorem readExactOrEof_refines (data : List α) (sched : List Delivery) (want : Nat) :
    (want ≤ data.length →
      (readExactOrEof ⟨data, sched⟩ want).1 = .ok (data.take want) ∧
      (readExactOrEof ⟨data, sched⟩ want).2.data = data.drop want) ∧
    (data = [] → 0 < want → (readExactOrEof ⟨data, sched⟩ want).1 = .ok []) ∧
    (0 < data.length → data.length < want → (readExactOrEof ⟨data, sched⟩ want).1 = .error .eof) := by
  obtain ⟨h1, h2⟩ := readExactOrEof_spec ⟨data, sched⟩ want
  simp only [specReadExactOrEof] at h1 h2
  refine ⟨?_, ?_, ?_⟩
  · intro h; rw [if_pos h] at h1 h2; exact ⟨h1, h2⟩
  · intro hd hw
    subst hd
    rw [if_neg (by simp; omega), if_pos (by simp)] at h1
    exact h1
  · intro hd hw
    rw [if_neg (by omega), if_neg (by omega)] at h1
    exact h1

theorem readExactOrEof_schedule_irrelevant (data : List α) (sc₁ sc₂ : List Delivery) (want : Nat) :
    (readExactOrEof ⟨data, sc₁⟩ want).1 = (readExactOrEof ⟨data, sc₂⟩ want).1 ∧
    (readExactOrEof ⟨data, sc₁⟩ want).2.data = (readExactOrEof ⟨data, sc₂⟩ want).2.data :=
  readExactOrEof_irrel want ⟨data, sc₁⟩ ⟨data, sc₂⟩ rfl

/-- BAM `read_record` (block size, body, `validate`): same record / end of stream / error and same
bytes left, under any two schedules. -/
theorem bamReadRecord_schedule_irrelevant (data : Bytes) (sc₁ sc₂ : List Delivery) :
    (bamReadRecord ⟨data, sc₁⟩).1 = (bamReadRecord ⟨data, sc₂⟩).1 ∧
    (bamReadRecord ⟨data, sc₁⟩).2.data = (bamReadRecord ⟨data, sc₂⟩).2.data :=
  bamReadRecord_irrel ⟨data, sc₁⟩ ⟨data, sc₂⟩ rfl

/-- the whole BAM record stream: same records, same outcome, same bytes left. -/
theorem bam_records_schedule_irrelevant (data : Bytes) (sc₁ sc₂ : List Delivery) :
    (bamRecordsAll ⟨data, sc₁⟩).1 = (bamRecordsAll ⟨data, sc₂⟩).1 ∧
    (bamRecordsAll ⟨data, sc₁⟩).2.data = (bamRecordsAll ⟨data, sc₂⟩).2.data :=
  bamRecords_irrel (data.length + 1) [] ⟨data, sc₁⟩ ⟨data, sc₂⟩ rfl

/-- BGZF `read_frame_into`: same frame / end of stream / error and same bytes left. -/
theorem readFrameInto_schedule_irrelevant (data : Bytes) (sc₁ sc₂ : List Delivery) :
    (readFrameInto ⟨data, sc₁⟩).1 = (readFrameInto ⟨data, sc₂⟩).1 ∧
    (readFrameInto ⟨data, sc₁⟩).2.data = (readFrameInto ⟨data, sc₂⟩).2.data :=
  readFrameInto_irrel ⟨data, sc₁⟩ ⟨data, sc₂⟩ rfl

/-- block-by-block reading of a BGZF stream (`read_nonempty_block_with` skipping empty members):
same block positions and data lengths, same outcome, same bytes left. -/
theorem bgzf_blocks_schedule_irrelevant (data : Bytes) (sc₁ sc₂ : List Delivery) :
    (bgzfBlocksAll ⟨data, sc₁⟩).1 = (bgzfBlocksAll ⟨data, sc₂⟩).1 ∧
    (bgzfBlocksAll ⟨data, sc₁⟩).2.data = (bgzfBlocksAll ⟨data, sc₂⟩).2.data :=
  bgzfBlocks_irrel (data.length + 1) 0 [] ⟨data, sc₁⟩ ⟨data, sc₂⟩ rfl

/-- the block layout that C02's reader model works on, from the frames of a source and any inflate
function: compressed size = frame length, data = inflated payload -/
def layoutOf (inflate : Bytes → List UInt8) (frames : List Bytes) : Noodles.Bgzf.RM.Layout UInt8 :=
  frames.map fun f => ⟨f.length, inflate f⟩

/-- Corollary: the BGZF reader of C02 sees the same block layout under every schedule, so every
operation history ends in the same reader state (and C02's refinement theorems apply unchanged). -/
theorem bgzf_reader_schedule_irrelevant (data : Bytes) (sc₁ sc₂ : List Delivery)
    (inflate : Bytes → List UInt8) (ops : List Noodles.Bgzf.RM.Op) :
    Noodles.Bgzf.RM.runOps (layoutOf inflate (bgzfFramesAll ⟨data, sc₁⟩).1.1) ops =
    Noodles.Bgzf.RM.runOps (layoutOf inflate (bgzfFramesAll ⟨data, sc₂⟩).1.1) ops := by
  have h := (bgzfFrames_irrel (data.length + 1) [] ⟨data, sc₁⟩ ⟨data, sc₂⟩ rfl).1
  simp only [bgzfFramesAll]
  simp only at h
  rw [h]

/-! ## `BufReader`, `read_until`, `read_line` -/

/-- `read_until` over a `BufReader` of any capacity over any schedule, starting from any buffer
content, appends exactly the stream up to and including the first delimiter (the whole stream if
there is none) and leaves exactly what follows. -/
theorem readUntil_refines (p : α → Bool) (b : BufR α) (hc : 0 < b.cap) :
    (readUntil p b.fuel b []).1 = (specUntil p b.stream).1 ∧
    (readUntil p b.fuel b []).2.stream = (specUntil p b.stream).2 := by
  have := readUntil_spec p b.fuel b [] hc (mu_lt_fuel b)
  exact ⟨by simpa using this.1, this.2.1⟩

/-- noodles `read_line` (`read_until(b'\n')` + LF / CRLF strip): same line, same byte count and same
remaining stream for any two deliveries of the same stream. -/
theorem readLine_schedule_irrelevant (b₁ b₂ : BufR UInt8) (h₁ : 0 < b₁.cap) (h₂ : 0 < b₂.cap)
    (hs : b₁.stream = b₂.stream) :
    (readLine b₁).1 = (readLine b₂).1 ∧ (readLine b₁).2.stream = (readLine b₂).2.stream := by
  obtain ⟨a, b, _, _⟩ := readLine_irrelB b₁ b₂ h₁ h₂ hs
  exact ⟨a, b⟩

/-- a CRLF split across two deliveries is reassembled: `read_line` strips it as a whole because it
strips after the line is complete -/
theorem readLine_strips_after_assembly (b : BufR UInt8) (hc : 0 < b.cap) :
    (readLine b).1.2 = stripEol (specUntil (· == LF) b.stream).1 := by
  simp only [readLine]
  rw [(readUntil_refines (· == LF) b hc).1]

/-! ## `fill_buf` / `consume` scanners -/

/-- the generic scanner loop with retry computes the stream function its window function agrees with
(`ScanSpec`), whatever the schedule, the capacity and the buffer content -/
theorem scanLoop_refines {σ ρ : Type} (k : σ → List α → Scan σ ρ) (spec : σ → List α → ρ × List α)
    (H : ScanSpec k spec) (st : σ) (b : BufR α) (hc : 0 < b.cap) :
    (scanLoop true k b.fuel st b).1 = .ok (spec st b.stream).1 ∧
    (scanLoop true k b.fuel st b).2.stream = (spec st b.stream).2 := by
  have := scanLoop_spec k spec H b.fuel st b hc (mu_lt_fuel b)
  exact ⟨this.1, this.2.1⟩

/-- `read_field` of the SAM / VCF / BED record readers, fixed code -/
theorem readField_schedule_irrelevant (b₁ b₂ : BufR UInt8) (h₁ : 0 < b₁.cap) (h₂ : 0 < b₂.cap)
    (hs : b₁.stream = b₂.stream) :
    (readField true b₁).1 = (readField true b₂).1 ∧
    (readField true b₁).2.stream = (readField true b₂).2.stream := by
  obtain ⟨a, b, _, _⟩ := readField_irrelB b₁ b₂ h₁ h₂ hs
  exact ⟨a, b⟩

/-- `read_field`, today's code (`fill_buf()?`): without `Interrupted` in the schedule it does what the
fixed code does — so chunk sizes and capacities alone never change its answer -/
theorem readField_chunk_irrelevant (b : BufR UInt8) (h : NoIntr b.src.sched) :
    readField false b = readField true b := by
  unfold readField
  rw [scanLoop_noIntr fieldStep b.fuel ([], 0, none) b h]

/-- F22 witness: one interruption before the first refill turns the field `a` into an error today;
the fixed code returns the field. -/
theorem readField_interrupted_today :
    (readField false (BufR.ofSrc ⟨[97, 9, 98, 10], [.interrupted]⟩ 8)).1 = .error .interrupted ∧
    (readField true (BufR.ofSrc ⟨[97, 9, 98, 10], [.interrupted]⟩ 8)).1 = .ok ([97], 2, false) := by
  decide

/-- `consume_line` (FASTQ) / `discard_line` (BED), fixed code -/
theorem consumeLine_schedule_irrelevant (b₁ b₂ : BufR UInt8) (h₁ : 0 < b₁.cap) (h₂ : 0 < b₂.cap)
    (hs : b₁.stream = b₂.stream) :
    (consumeLine true b₁).1 = (consumeLine true b₂).1 ∧
    (consumeLine true b₁).2.stream = (consumeLine true b₂).2.stream := by
  obtain ⟨a, b, _, _⟩ := consumeLine_irrelB b₁ b₂ h₁ h₂ hs
  exact ⟨a, b⟩

theorem consumeLine_chunk_irrelevant (b : BufR UInt8) (h : NoIntr b.src.sched) :
    consumeLine false b = consumeLine true b :=
  scanLoop_noIntr lineStep b.fuel (0, false) b h

/-- `discard_to_end` of the BAM / BCF / CRAM header sub-readers, fixed code: everything that is left
is consumed and counted -/
theorem discardToEnd_refines (b : BufR α) (hc : 0 < b.cap) :
    (discardToEnd true b).1 = .ok b.stream.length ∧ (discardToEnd true b).2.stream = [] := by
  have := scanLoop_refines discardStep specDiscard discardStep_spec 0 b hc
  simpa [discardToEnd, specDiscard] using this

theorem discardToEnd_chunk_irrelevant (b : BufR α) (h : NoIntr b.src.sched) :
    discardToEnd false b = discardToEnd true b :=
  scanLoop_noIntr discardStep b.fuel 0 b h

/-- the FASTQ record reader (fixed code): `read_u8`, the name scanner, `read_line` for description,
sequence and qualities, `consume_line` for the `+` line — same records, outcome and remaining stream
for any two deliveries of the same stream -/
theorem fastq_records_schedule_irrelevant (b₁ b₂ : BufR UInt8) (h₁ : 0 < b₁.cap) (h₂ : 0 < b₂.cap)
    (hs : b₁.stream = b₂.stream) :
    (fastqRecordsAll true b₁).1 = (fastqRecordsAll true b₂).1 ∧
    (fastqRecordsAll true b₁).2.stream = (fastqRecordsAll true b₂).2.stream := by
  obtain ⟨a, b, _, _⟩ := fastqRecordsAll_irrelB b₁ b₂ h₁ h₂ hs
  exact ⟨a, b⟩

/-- the FASTQ CRLF defect, today's code: the record `@r\r\nA\r\n+\r\nI\r\n` read through a
`BufReader` of capacity 1 has the name `r\r` (the CR is kept), through one of capacity 64 the name
`r`; the fixed code gives `r` both times. No interruption is involved. -/
theorem fastq_name_crlf_today :
    let data : Bytes := [64, 114, 13, 10, 65, 13, 10, 43, 13, 10, 73, 13, 10]
    ((fastqRecordsAll false (BufR.ofSrc ⟨data, []⟩ 1)).1.1.map (·.2.name) = [[114, 13]]) ∧
    ((fastqRecordsAll false (BufR.ofSrc ⟨data, []⟩ 64)).1.1.map (·.2.name) = [[114]]) ∧
    ((fastqRecordsAll true (BufR.ofSrc ⟨data, []⟩ 1)).1.1.map (·.2.name) = [[114]]) := by
  decide

/-- the BED record reader (`Record<3>`, fixed code): comment skipping, three standard fields, other
fields -/
theorem bed_record_schedule_irrelevant (b₁ b₂ : BufR UInt8) (h₁ : 0 < b₁.cap) (h₂ : 0 < b₂.cap)
    (hs : b₁.stream = b₂.stream) :
    (bedReadRecord3 true b₁).1 = (bedReadRecord3 true b₂).1 ∧
    (bedReadRecord3 true b₁).2.stream = (bedReadRecord3 true b₂).2.stream := by
  obtain ⟨a, b, _, _⟩ := bedReadRecord3_irrelB b₁ b₂ h₁ h₂ hs
  exact ⟨a, b⟩

/-- the SAM (`@`) / VCF (`#`) header sub-reader read line by line, as `read_header` does: the header
ends at the first line that does not start with the prefix, decided on whatever window the inner
`fill_buf` returns — yet the raw header lines and the position where the records begin are the same
for any two deliveries of the same stream (today's code: the `Interrupted` that `fill_buf()?` lets
through is retried by `read_until`) -/
theorem header_lines_schedule_irrelevant (pfx : UInt8) (b₁ b₂ : BufR UInt8) (h₁ : 0 < b₁.cap)
    (h₂ : 0 < b₂.cap) (hs : b₁.stream = b₂.stream) :
    (hdrLinesAll pfx b₁).1 = (hdrLinesAll pfx b₂).1 ∧
    (hdrLinesAll pfx b₁).2.stream = (hdrLinesAll pfx b₂).2.stream := by
  obtain ⟨a, b, _, _⟩ := hdrLinesAll_irrelB pfx b₁ b₂ h₁ h₂ hs
  exact ⟨a, b⟩

/-! ## the model's fuel is enough -/

/-- The record / frame loops of the model are bounded by fuel (`stream length + 1` rounds); running
out of it (`Err.fuel`) is the model's only artefact and is unreachable: every round that goes on
consumes at least one byte. So the theorems above speak about the loops, not about their bound. -/
theorem fuel_is_enough (s : Src UInt8) (b : BufR UInt8) (hc : 0 < b.cap) :
    (bamRecordsAll s).1.2 ≠ some .fuel ∧ (bgzfFramesAll s).1.2 ≠ some .fuel ∧
    (bgzfBlocksAll s).1.2 ≠ some .fuel ∧ (fastqRecordsAll true b).1.2 ≠ some .fuel ∧
    (bedReadRecord3 true b).1 ≠ .error .fuel ∧ (∀ pfx, (hdrLinesAll pfx b).1 ≠ .error .fuel) :=
  ⟨bamRecords_fuel_ok _ s [] (Nat.lt_succ_self _), bgzfFrames_fuel_ok _ s [] (Nat.lt_succ_self _),
   bgzfBlocks_fuel_ok _ s 0 [] (Nat.lt_succ_self _),
   fastqRecords_fuel_ok _ b [] hc (Nat.lt_succ_self _), bedReadRecord3_fuel_ok b hc,
   fun pfx => hdrLines_fuel_ok pfx _ true b [] hc (Nat.lt_succ_self _)⟩

/-! ## non-vacuity: concrete deliveries of one stream -/

/-- `AB\r\nCD`: one byte at a time with an interruption and capacity 1, vs everything at once -/
example :
    (readLine (BufR.ofSrc ⟨[65, 66, 13, 10, 67, 68], [.chunk 1, .interrupted, .chunk 1, .chunk 1, .chunk 1]⟩ 1)).1
      = (4, [65, 66]) ∧
    (readLine (BufR.ofSrc ⟨[65, 66, 13, 10, 67, 68], []⟩ 4096)).1 = (4, [65, 66]) := by
  decide

/-- a BAM block-size prefix delivered one byte at a time with interruptions is not taken for EOF -/
example :
    (readExactOrEof (⟨[5, 0, 0, 0, 9], [.chunk 1, .interrupted, .chunk 2, .interrupted, .chunk 1]⟩ : Src UInt8) 4).1
      = .ok [5, 0, 0, 0] := by
  decide

end Noodles.Props.C12
