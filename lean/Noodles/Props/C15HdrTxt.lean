import Noodles.Hostile.HdrTxtProof
import Noodles.Hostile.SamTextProof
/-!
# C15 / hdrtxt — the SAM and VCF header TEXT parsers never panic, and terminate

`noodles-sam/src/header/parser.rs` + `header/parser/**` and `noodles-vcf/src/header/parser.rs` +
`header/parser/**`, transcribed with every `split_at`, `&s[i..]`, `&s[..i]`, `&rest[1..]`, `i + 1`,
`unwrap()` explicit (`Noodles/Hostile/{SamHeaderText,VcfHeaderText}.lean`). Each theorem is stated
FOR EVERY BYTE STRING (the only bound is Rust's own: a slice is at most `isize::MAX` bytes), and
since a loop that outlives its fuel answers `panic`, "≠ panic" includes termination. One lemma per
line kind / lexer piece, so that a change to one kind breaks one lemma. Helper lemmas:
`Noodles/Hostile/HdrTxtProof.lean`.

External parameter: `lexical_core::parse_partial::<usize>` (the `LN` value), assumed to report a
count not beyond its input (`Lex.Lawful`). The hypothesis cannot be dropped
(`sam_header_length_needs_law`); it holds of the transcription the driver runs
(`sam_header_lex_lawful`), which `c15 tlex` compares with the crate on every run.
-/
namespace Noodles.Props.C15
open Noodles.Hostile Noodles.Hostile.Text

/-! ## SAM -/

/-- `parse_kind`: the `split_at(2)` is behind the `len() < 2` test -/
theorem sam_header_kind_no_panic (src : Bytes) : SamHdr.parseKind src ≠ .panic :=
  (SamHdr.parseKind_sat src).ne_panic

/-- `@CO`: `consume_delimiter` + `split_at(src.len())` -/
theorem sam_header_co_no_panic (L : SamHdr.Lex) (hL : L.Lawful) (ad : Bool) (src : Bytes)
    (hlen : src.length < 2 ^ 63) : SamHdr.parseRecordValue L ad .co src ≠ .panic :=
  SamHdr.parseRecordValue_ne_panic L hL ad .co src hlen

/-- `VN` value: `&buf[..i]`, `&buf[i + 1..]` around the first `.` -/
theorem sam_header_version_no_panic (L : SamHdr.Lex) (src : Bytes) (hlen : src.length < 2 ^ 63) :
    SamHdr.parseVersion L src ≠ .panic := SamHdr.parseVersion_ne_panic L src hlen

/-- `LN` value: `&src[i..]` with the count lexical-core reported -/
theorem sam_header_length_no_panic (L : SamHdr.Lex) (hL : L.Lawful) (src : Bytes) :
    SamHdr.parseLength L src ≠ .panic := (SamHdr.parseLength_sat L hL src).ne_panic

/-- …and the law is what keeps `&src[i..]` in range: a parser that over-reports panics -/
theorem sam_header_length_needs_law :
    SamHdr.parseLength ⟨fun _ => some (1, 5), fun _ => none⟩ [56] = .panic := by decide

/-- the law holds of the transcription of lexical-core the driver runs -/
theorem sam_header_lex_lawful : SamHdr.lex.Lawful := fun s n i h =>
  (SamText.lexical_lawful (fun _ => none) (by simp)).usize_le s n i h

/-- `@HD` (`parse_header`): the field loop ends and never panics, duplicates allowed or not -/
theorem sam_header_hd_no_panic (L : SamHdr.Lex) (hL : L.Lawful) (ad : Bool) (src : Bytes)
    (hlen : src.length < 2 ^ 63) : SamHdr.parseRecordValue L ad .hd src ≠ .panic :=
  SamHdr.parseRecordValue_ne_panic L hL ad .hd src hlen

/-- `@SQ` (`parse_reference_sequence`) -/
theorem sam_header_sq_no_panic (L : SamHdr.Lex) (hL : L.Lawful) (ad : Bool) (src : Bytes)
    (hlen : src.length < 2 ^ 63) : SamHdr.parseRecordValue L ad .sq src ≠ .panic :=
  SamHdr.parseRecordValue_ne_panic L hL ad .sq src hlen

/-- `@RG` (`parse_read_group`) -/
theorem sam_header_rg_no_panic (L : SamHdr.Lex) (hL : L.Lawful) (ad : Bool) (src : Bytes)
    (hlen : src.length < 2 ^ 63) : SamHdr.parseRecordValue L ad .rg src ≠ .panic :=
  SamHdr.parseRecordValue_ne_panic L hL ad .rg src hlen

/-- `@PG` (`parse_program`) -/
theorem sam_header_pg_no_panic (L : SamHdr.Lex) (hL : L.Lawful) (ad : Bool) (src : Bytes)
    (hlen : src.length < 2 ^ 63) : SamHdr.parseRecordValue L ad .pg src ≠ .panic :=
  SamHdr.parseRecordValue_ne_panic L hL ad .pg src hlen

/-- every field iteration consumes input: the loops terminate (the fuel `len + 1` is never used up) -/
theorem sam_header_field_consumes (L : SamHdr.Lex) (hL : L.Lawful) (ad : Bool) (k : SamHdr.Kind)
    (src rest : Bytes) (st st' : SamHdr.MapSt) (hlen : src.length < 2 ^ 63)
    (h : SamHdr.fieldStep L ad k src st = .ok (st', rest)) : rest.length < src.length :=
  (SamHdr.fieldStep_sat L hL ad k src st hlen).of_ok h

/-- `Parser::parse_partial` in ANY parser state on ANY line (incl. `extract_version`) -/
theorem sam_header_partial_no_panic (L : SamHdr.Lex) (hL : L.Lawful) (p : SamHdr.Parser) (src : Bytes)
    (hlen : src.length < 2 ^ 63) : SamHdr.parsePartial L p src ≠ .panic :=
  SamHdr.parsePartial_ne_panic L hL p src hlen

/-- `str::parse::<sam::Header>` on ANY byte string: ok or err, never panic -/
theorem sam_header_parse_no_panic (L : SamHdr.Lex) (hL : L.Lawful) (s : Bytes)
    (hlen : s.length < 2 ^ 63) : (SamHdr.parse L s).1 ≠ .panic := SamHdr.parse_ne_panic L hL s hlen

/-- the streaming form from any state over any list of lines -/
theorem sam_header_stream_no_panic (L : SamHdr.Lex) (hL : L.Lawful) (p : SamHdr.Parser) (k : Nat)
    (ls : List Bytes) (h : ∀ l ∈ ls, l.length < 2 ^ 63) : (SamHdr.parseLines L p k ls).1 ≠ .panic :=
  SamHdr.parseLines_ne_panic L hL ls p k h

/-- streaming = whole: feeding the lines in two batches (`parse_partial` line by line, in any
chunking) reaches the state of one pass; with `p = {}` and `lines s = a ++ b` this is
`str::parse` -/
theorem sam_header_stream_eq_whole (L : SamHdr.Lex) : ∀ (a b : List Bytes) (p p' : SamHdr.Parser)
    (k k' : Nat), SamHdr.parseLines L p k a = (.ok p', k') →
      SamHdr.parseLines L p k (a ++ b) = SamHdr.parseLines L p' k' b
  | [], b, p, p', k, k', h => by
    simp only [SamHdr.parseLines, Prod.mk.injEq, Res.ok.injEq] at h
    obtain ⟨rfl, rfl⟩ := h; rfl
  | l :: a, b, p, p', k, k', h => by
    simp only [SamHdr.parseLines, List.cons_append] at h ⊢
    split at h
    · rename_i p1 e
      exact sam_header_stream_eq_whole L a b p1 p' (k + 1) k' h
    · cases h
    · cases h

/-- non-vacuity: the model accepts a header and rejects a duplicate `SN` -/
example : (SamHdr.parse SamHdr.lex [64, 83, 81, 9, 83, 78, 58, 97, 9, 76, 78, 58, 56, 10]).1
    = .ok { refs := [([97], 8, 0)] } := by decide +kernel
example : (SamHdr.parse SamHdr.lex [64, 83, 81, 9, 83, 78, 58, 97, 9, 76, 78, 58, 56, 10,
    64, 83, 81, 9, 83, 78, 58, 97, 9, 76, 78, 58, 57]) = (.err .invalidData, 1) := by decide +kernel

/-! ## VCF -/

/-- `##key=` and map-field `key=`: `split_at(i)`, `&rest[1..]` -/
theorem vcf_header_key_no_panic (src : Bytes) : VcfHdr.parseKey src ≠ .panic :=
  (VcfHdr.parseKey_sat src).ne_panic

/-- `fileformat=VCFv<major>.<minor>`: `&buf[..i]`, `&buf[i + 1..]`, checked `u32` arithmetic -/
theorem vcf_header_fileformat_no_panic (src : Bytes) (hlen : src.length < 2 ^ 63) :
    VcfHdr.parseFileFormat src ≠ .panic := VcfHdr.parseFileFormat_ne_panic src hlen

/-- the quoted-string scanner answers an offset INSIDE the input: `split_at(offset)` and
`&rest[1..]` are in range (and `State::Done` is only left through `break`) -/
theorem vcf_header_escaped_offset_in_range (src : Bytes) (off : Nat) (has : Bool)
    (h : VcfHdr.scanEscaped src 0 false false = .ok (some (off, has))) : off < src.length := by
  have := (VcfHdr.scanEscaped_sat src 0 false false).of_ok h off has rfl
  omega

/-- a field value, quoted (backslash escapes, unbalanced quotes, trailing backslash) or raw -/
theorem vcf_header_field_value_no_panic (src : Bytes) : VcfHdr.parseValue src ≠ .panic :=
  (VcfHdr.parseValue_sat src).ne_panic

/-- `split_field` never panics and every field it returns consumed input -/
theorem vcf_header_split_field_consumes (src : Bytes) :
    VcfHdr.splitField src ≠ .panic ∧
    ∀ k v rest, VcfHdr.splitField src = .ok (some (k, v, rest)) → rest.length < src.length :=
  ⟨(VcfHdr.splitField_sat src).ne_panic, fun k v rest h => (VcfHdr.splitField_sat src).of_ok h k v rest rfl⟩

/-- `##INFO` / `##FILTER` / `##FORMAT` / `##ALT` / `##contig` / other `<…>` maps: the
`while let Some(..) = split_field(..)?` loop ends and nothing panics, for each kind -/
theorem vcf_header_info_no_panic (src : Bytes) : VcfHdr.parseMap .info src ≠ .panic :=
  VcfHdr.parseMap_ne_panic .info src
theorem vcf_header_filter_no_panic (src : Bytes) : VcfHdr.parseMap .filter src ≠ .panic :=
  VcfHdr.parseMap_ne_panic .filter src
theorem vcf_header_format_no_panic (src : Bytes) : VcfHdr.parseMap .format src ≠ .panic :=
  VcfHdr.parseMap_ne_panic .format src
theorem vcf_header_alt_no_panic (src : Bytes) : VcfHdr.parseMap .alt src ≠ .panic :=
  VcfHdr.parseMap_ne_panic .alt src
theorem vcf_header_contig_no_panic (src : Bytes) : VcfHdr.parseMap .contig src ≠ .panic :=
  VcfHdr.parseMap_ne_panic .contig src
theorem vcf_header_other_map_no_panic (src : Bytes) : VcfHdr.parseMap .other src ≠ .panic :=
  VcfHdr.parseMap_ne_panic .other src

/-- `##META` (`Values=[…]`: `split_at(i + 1)`) and `##PEDIGREE`, for every file format -/
theorem vcf_header_meta_pedigree_no_panic (isMeta : Bool) (ff : VcfHdr.FF) (src : Bytes)
    (hlen : src.length < 2 ^ 63) : VcfHdr.parseMeta isMeta ff src ≠ .panic :=
  VcfHdr.parseMeta_ne_panic isMeta ff src hlen

/-- one `##…` line, for every file format and either answer of the reserved-definition table -/
theorem vcf_header_record_no_panic (dm : Bool) (ff : VcfHdr.FF) (src : Bytes)
    (hlen : src.length < 2 ^ 63) : VcfHdr.parseRecord dm src ff ≠ .panic :=
  VcfHdr.parseRecord_ne_panic dm src ff hlen

/-- the `#CHROM` line (fixed columns, `FORMAT`, duplicate sample names) -/
theorem vcf_header_chrom_line_no_panic (src : Bytes) (samples : List Bytes) :
    VcfHdr.parseHeaderLine src samples ≠ .panic := VcfHdr.parseHeaderLine_ne_panic src samples

/-- `try_insert_*`: `get_index(i).unwrap()` right after `entry.insert(..)` at index `i` -/
theorem vcf_header_insert_unwrap_no_panic (maps : List (VcfHdr.MapKind × Bytes)) (k : VcfHdr.MapKind)
    (id : Bytes) : VcfHdr.insertUnwrap maps k id ≠ .panic := VcfHdr.insertUnwrap_ne_panic maps k id

/-- `Parser::parse_partial` in ANY parser state on ANY line -/
theorem vcf_header_partial_no_panic (dm : Bool) (p : VcfHdr.Parser) (src : Bytes)
    (hlen : src.length < 2 ^ 63) : VcfHdr.parsePartial dm p src ≠ .panic :=
  VcfHdr.parsePartial_ne_panic dm p src hlen

/-- `vcf::Header::from_str` / `Parser::parse` on ANY byte string, for ANY behaviour of the
reserved-definition table: ok or err, never panic -/
theorem vcf_header_parse_no_panic (dms : List Nat) (s : Bytes) (hlen : s.length < 2 ^ 63) :
    (VcfHdr.parse dms s).1 ≠ .panic := VcfHdr.parse_ne_panic dms s hlen

/-- the streaming form (`parse_partial` line by line, then `finish`) from any state -/
theorem vcf_header_stream_no_panic (dms : List Nat) (p : VcfHdr.Parser) (k : Nat) (ls : List Bytes)
    (h : ∀ l ∈ ls, l.length < 2 ^ 63) : (VcfHdr.parseLines dms p k ls).1 ≠ .panic :=
  VcfHdr.parseLines_ne_panic dms ls p k h

/-- streaming = whole: lines fed through `parse_partial` in a first batch (no `finish`), then the
rest followed by `finish`, answer exactly what one pass over all lines answers — with `p = {}`,
`k = 0` and `lines s = a ++ b` that one pass is `Header::from_str` -/
theorem vcf_header_stream_eq_whole (dms : List Nat) (a b : List Bytes) (p p' : VcfHdr.Parser) (k : Nat)
    (h : VcfHdr.feed dms p k a = .ok p') :
    VcfHdr.parseLines dms p k (a ++ b) = VcfHdr.parseLines dms p' (k + a.length) b :=
  VcfHdr.parseLines_append dms a b p p' k h

/-- non-vacuity of the hypothesis: a first batch that is accepted (`##fileformat=VCFv4.3`) -/
example : VcfHdr.feed [] {} 0 [[35, 35, 102, 105, 108, 101, 102, 111, 114, 109, 97, 116, 61, 86, 67, 70, 118, 52, 46, 51]]
    = .ok { state := .ready, ff := (4, 3) } := by decide +kernel

/-- non-vacuity: a quoted value with an escaped quote is accepted and unescaped (`"a\"",` ) -/
example : VcfHdr.parseValue [34, 97, 92, 34, 34, 44] = .ok ([97, 34], [44]) := by decide +kernel
example : VcfHdr.parseMap .filter [60, 73, 68, 61, 97, 44, 68, 101, 115, 99, 114, 105, 112, 116, 105, 111, 110, 61, 34, 100, 34, 62]
    = .ok ([97], [([73, 68], [97]), ([68, 101, 115, 99, 114, 105, 112, 116, 105, 111, 110], [100])]) := by
  decide +kernel

end Noodles.Props.C15
