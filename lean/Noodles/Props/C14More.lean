import Noodles.Io.WProg
import Noodles.Io.Writers
import Noodles.Io.WProgProof
import Noodles.Io.WritersProof
/-!
# C14, continued — every format writer as a writer program

`Noodles/Io/WProg.lean` gives writer code a syntax (`WProg`: `write_all`, `flush`, the finishing
call, an own error, `?`-sequencing) and a semantics over a *layer* (`Impl σ`): the destination
itself (`direct`), `std::io::BufWriter` (`buffered`), `bgzf::io::Writer` (`bgzf`, the model of
`Noodles/Bgzf/SinkModel.lean`). ONE generic result — a program over a lawful layer refines the
same program over a perfect destination (`exec_spec`, in `Noodles/Io/WProgProof.lean`) — gives the
three statements of the property for EVERY program, EVERY destination script (short writes,
`Interrupted`, failure at any call with any kind, permanent or once) and every layer; the three
layers are proved lawful; `Noodles/Io/Writers.lean` says which writer uses which layer. Then: what
`Drop` does in each layer, and which writers need their finishing call.

The harness (`harness/src/props/c14_more.rs`) records the program of each real writer session and
checks the model's prediction of the real stack's behaviour under every other destination script.
-/
namespace Noodles.Props.C14
open Noodles.Codec (Bytes)
open Noodles.Bgzf Noodles.WP Noodles.WP.Writers
open Noodles.Bgzf.SM (WErr)

/-! ## the generic theorems (any lawful layer) -/

/-- **(a) a destination failure is the program's result.** If any call on the destination failed
with an error that is not `Interrupted`, the program returned that error — from the `write_all`,
`flush` or finishing call that was running. -/
theorem wprog_reports_failure {σ α : Type} {I : Impl σ} {M : Pure α} {V : View σ α}
    (L : Lawful I M V) (p : WProg) (s : σ) (hnf : V.failed s = false) :
    V.failed (exec I p s).2 = true → (exec I p s).1 = some (.sink (V.kind s)) :=
  exec_reports_failure L p s hnf

/-- **(b) `Ok` ⇒ the layer is in exactly the state the failure-free run produces** (same bytes at
the destination, same bytes still staged), and no destination call failed. -/
theorem wprog_all_ok_complete {σ α : Type} {I : Impl σ} {M : Pure α} {V : View σ α}
    (L : Lawful I M V) (p : WProg) (s : σ) (hnf : V.failed s = false)
    (hok : (exec I p s).1 = none) :
    pexec M p (V.abs s) = .ok (V.abs (exec I p s).2) ∧ V.failed (exec I p s).2 = false :=
  exec_ok_complete L p s hnf hok

/-- **(c) short writes and `Interrupted` change nothing**: two destinations without a scripted
failure, any two scripts: same result, and the same state whenever it is `Ok`. -/
theorem wprog_short_writes_identical {σ α : Type} {I : Impl σ} {M : Pure α} {V : View σ α}
    (L : Lawful I M V) (p : WProg) (s₁ s₂ : σ) (h1 : V.failed s₁ = false) (h2 : V.failed s₂ = false)
    (f1 : V.failAt s₁ = none) (f2 : V.failAt s₂ = none) (hA : V.abs s₁ = V.abs s₂) :
    (exec I p s₁).1 = (exec I p s₂).1 ∧
    ((exec I p s₁).1 = none → V.abs (exec I p s₁).2 = V.abs (exec I p s₂).2) :=
  exec_short_identical L p s₁ s₂ h1 h2 f1 f2 hA

/-- **every failure index inside the run is reported**: if the run on the healthy state `s` makes
more than `k` destination calls, the run on the same state with the failure scripted at call `k`
(`sk`) returns the destination's error. -/
theorem wprog_failure_at_any_call_surfaces {σ α : Type} {I : Impl σ} {M : Pure α} {V : View σ α}
    (L : Lawful I M V) (p : WProg) (s sk : σ) (k : Nat)
    (hheal : V.heal sk = s) (hfa : V.failAt sk = some k) (hnf : V.failed sk = false)
    (hk0 : V.calls sk ≤ k) (hk : k < V.calls (exec I p s).2) :
    (exec I p sk).1 = some (.sink (V.kind sk)) :=
  exec_failure_index_surfaces L p s sk k hheal hfa hnf hk0 hk

/-- the three transcribed layers are lawful -/
theorem direct_layer_lawful : Lawful direct pdirect directV := direct_lawful
theorem buffered_layer_lawful : Lawful buffered pbuffered bufV := buffered_lawful
theorem bgzf_layer_lawful (D : Deflater) (lvl : Nat) : Lawful (bgzf D lvl) (pbgzf D lvl) bgzfV :=
  bgzf_lawful D lvl

/-- what a caller sees — one call after the other, stopping at the first `Err` — is the result of
the calls run as ONE program; so everything above holds for whole sessions -/
theorem caller_sees_program_result {σ : Type} (I : Impl σ) (calls : List WProg) (s : σ) :
    (runCalls I calls 0 s).2 = (exec I (seqAll calls) s).2 ∧
    (runCalls I calls 0 s).1.map (fun x : Nat × WErr => x.2) = (exec I (seqAll calls) s).1 :=
  runCalls_exec I calls 0 s

/-! ## layer 1 — the destination itself
SAM, VCF, FASTA, FASTQ, GFF, GTF, BED, fai, gzi, BAI and CRAM writers built with `Writer::new(sink)`. -/

theorem direct_reports_failure (p : WProg) (S : Dest) (hS : S.failed = false) :
    (exec direct p S).2.failed = true → (exec direct p S).1 = some (.sink S.kind) :=
  exec_reports_failure direct_lawful p S hS

/-- after EVERY call that returned `Ok` the destination holds everything written so far: these
writers need no finishing call -/
theorem direct_all_ok_complete (p : WProg) (S : Dest) (hS : S.failed = false)
    (hok : (exec direct p S).1 = none) :
    (exec direct p S).2.accepted = S.accepted ++ p.bytes ∧ p.ownErr = none := by
  obtain ⟨h, _⟩ := exec_ok_complete direct_lawful p S hS hok
  rw [pexec_pdirect] at h
  cases he : p.ownErr with
  | some e => rw [he] at h; cases h
  | none =>
    rw [he] at h
    injection h with h
    exact ⟨h.symm, rfl⟩

theorem direct_short_writes_identical (p : WProg) (S₁ S₂ : Dest)
    (h1 : S₁.failed = false) (h2 : S₂.failed = false) (f1 : S₁.failAt = none) (f2 : S₂.failAt = none)
    (hA : S₁.accepted = S₂.accepted) :
    (exec direct p S₁).1 = (exec direct p S₂).1 ∧
    ((exec direct p S₁).1 = none → (exec direct p S₁).2.accepted = (exec direct p S₂).2.accepted) :=
  exec_short_identical direct_lawful p S₁ S₂ h1 h2 f1 f2 hA

/-- a destination that never fails hard, any script: a program without an own error returns `Ok`
and everything is there -/
theorem direct_healthy_complete (p : WProg) (S : Dest) (hS : S.failed = false)
    (hF : S.failAt = none) (hp : p.ownErr = none) :
    (exec direct p S).1 = none ∧ (exec direct p S).2.accepted = S.accepted ++ p.bytes := by
  obtain ⟨_, h⟩ := exec_healthy direct_lawful p S hS hF
  rcases h with ⟨a1, _⟩ | ⟨e, _, a2⟩
  · exact ⟨a1, (direct_all_ok_complete p S hS a1).1⟩
  · rw [pexec_pdirect, hp] at a2; cases a2

theorem direct_failure_at_any_call_surfaces (p : WProg) (S : Dest) (k : Nat)
    (hS : S.failed = false) (hH : S.failAt = none) (hk0 : S.calls ≤ k)
    (hk : k < (exec direct p S).2.calls) :
    (exec direct p { S with failAt := some k }).1 = some (.sink S.kind) := by
  refine exec_failure_index_surfaces direct_lawful p S { S with failAt := some k } k ?_ rfl hS hk0 hk
  obtain ⟨a, sc, fb, c, fa, fo, kd, f⟩ := S
  simp only at hH
  subst hH
  rfl

/-- non-vacuity of `direct_failure_at_any_call_surfaces`: one FASTQ record is nine `write_all`s (the
empty description is skipped), so `k < calls` is satisfiable for k = 0 … 8; failing ONCE at call 4
the call returns the destination's error with four pieces written; an own error (`fail`) after two
pieces leaves them behind and is returned as such -/
example :
    (exec direct (fastqRecord 32 [65] [] [67] [33]) (Dest.fresh [] 100 none false 7)).2.calls = 9 ∧
    (exec direct (fastqRecord 32 [65] [] [67] [33]) (Dest.fresh [] 100 (some 4) true 7)).1 = some (.sink 7) ∧
    (exec direct (fastqRecord 32 [65] [] [67] [33]) (Dest.fresh [] 100 (some 4) true 7)).2.accepted = [0x40, 65, 0x0a, 67] ∧
    (exec direct (.seq (emits [[1], [2]]) (.fail .invalidInput)) (Dest.fresh [.interrupted] 1 none false 7)).1 =
      some (.enc .invalidInput) ∧
    (exec direct (.seq (emits [[1], [2]]) (.fail .invalidInput)) (Dest.fresh [.interrupted] 1 none false 7)).2.accepted = [1, 2] ∧
    (exec direct (.seq (emits [[1], [2]]) (.fail .invalidInput)) (Dest.fresh [.interrupted] 1 none false 7)).2.calls = 3 := by
  decide

/-- dropping such a writer never touches the destination -/
theorem direct_drop_silent (S : Dest) : direct.drop S = S := rfl

/-! ## layer 2 — `std::io::BufWriter`
`bed::io::writer::Builder::build_from_writer`, `sam::io::writer::Builder::build_from_writer`
(uncompressed), the `*::fs::write` helpers, noodles-util's uncompressed writers, or the caller's own. -/

theorem buffered_reports_failure (p : WProg) (cap : Nat) (S : Dest) (hS : S.failed = false) :
    (exec buffered p (BufW.init cap S)).2.dest.failed = true →
    (exec buffered p (BufW.init cap S)).1 = some (.sink S.kind) :=
  exec_reports_failure buffered_lawful p (BufW.init cap S) hS

/-- all calls `Ok` INCLUDING the finishing `flush` ⇒ the destination holds everything and the
buffer is empty -/
theorem buffered_all_ok_complete (p : WProg) (cap : Nat) (S : Dest) (hS : S.failed = false)
    (hok : (exec buffered (.seq p .finish) (BufW.init cap S)).1 = none) :
    (exec buffered (.seq p .finish) (BufW.init cap S)).2.dest.accepted = S.accepted ++ p.bytes ∧
    (exec buffered (.seq p .finish) (BufW.init cap S)).2.buf = [] := by
  obtain ⟨h, _⟩ := exec_ok_complete buffered_lawful (.seq p .finish) (BufW.init cap S) hS hok
  have h' : pexec pbuffered (.seq p .finish) (BufW.init cap S).pure =
      .ok (exec buffered (.seq p .finish) (BufW.init cap S)).2.pure := h
  rw [pexec_seq] at h'
  have hp := pexec_pbuffered p (BufW.init cap S).pure
  cases he : p.ownErr with
  | some e =>
    rw [he] at hp
    rw [hp] at h'; cases h'
  | none =>
    rw [he] at hp
    obtain ⟨a1, g1, g2, _⟩ := hp
    rw [g1] at h'
    have h'' : a1.flush = (exec buffered (.seq p .finish) (BufW.init cap S)).2.pure := by
      injection h'
    obtain ⟨f1, _, f3⟩ := a1.flush_tot
    have hbuf : (exec buffered (.seq p .finish) (BufW.init cap S)).2.buf = [] := by
      have : (exec buffered (.seq p .finish) (BufW.init cap S)).2.pure.buf = [] := by rw [← h'']; exact f3
      exact this
    refine ⟨?_, hbuf⟩
    have ht : (exec buffered (.seq p .finish) (BufW.init cap S)).2.pure.tot = S.accepted ++ p.bytes := by
      rw [← h'', f1, g2]
      show (S.accepted ++ []) ++ p.bytes = _
      rw [List.append_nil]
    unfold PBuf.tot at ht
    rw [show (exec buffered (.seq p .finish) (BufW.init cap S)).2.pure.buf = [] from hbuf, List.append_nil] at ht
    exact ht

theorem buffered_short_writes_identical (p : WProg) (cap : Nat) (S₁ S₂ : Dest)
    (h1 : S₁.failed = false) (h2 : S₂.failed = false) (f1 : S₁.failAt = none) (f2 : S₂.failAt = none)
    (hA : S₁.accepted = S₂.accepted) :
    (exec buffered p (BufW.init cap S₁)).1 = (exec buffered p (BufW.init cap S₂)).1 ∧
    ((exec buffered p (BufW.init cap S₁)).1 = none →
      (exec buffered p (BufW.init cap S₁)).2.dest.accepted = (exec buffered p (BufW.init cap S₂)).2.dest.accepted ∧
      (exec buffered p (BufW.init cap S₁)).2.buf = (exec buffered p (BufW.init cap S₂)).2.buf) := by
  have hA' : bufV.abs (BufW.init cap S₁) = bufV.abs (BufW.init cap S₂) := by
    show BufW.pure _ = BufW.pure _
    unfold BufW.pure BufW.init
    simp only
    rw [hA]
  obtain ⟨r, g⟩ := exec_short_identical buffered_lawful p (BufW.init cap S₁) (BufW.init cap S₂) h1 h2 f1 f2 hA'
  refine ⟨r, fun h => ?_⟩
  have := g h
  exact ⟨congrArg PBuf.sink this, congrArg PBuf.buf this⟩

theorem buffered_failure_at_any_call_surfaces (p : WProg) (cap : Nat) (S : Dest) (k : Nat)
    (hS : S.failed = false) (hH : S.failAt = none) (hk0 : S.calls ≤ k)
    (hk : k < (exec buffered p (BufW.init cap S)).2.dest.calls) :
    (exec buffered p (BufW.init cap { S with failAt := some k })).1 = some (.sink S.kind) := by
  refine exec_failure_index_surfaces buffered_lawful p (BufW.init cap S)
    (BufW.init cap { S with failAt := some k }) k ?_ rfl hS hk0 hk
  obtain ⟨a, sc, fb, c, fa, fo, kd, f⟩ := S
  simp only at hH
  subst hH
  rfl

/-- **`Drop` emits the buffered rest** (destination without a scripted failure, any script): a
session whose calls were all `Ok` and that never flushed still ends with everything at the
destination — written inside `Drop`, where … -/
theorem buffered_drop_flushes (p : WProg) (cap : Nat) (S : Dest) (hS : S.failed = false)
    (hF : S.failAt = none) (hok : (exec buffered p (BufW.init cap S)).1 = none) :
    (buffered.drop (exec buffered p (BufW.init cap S)).2).dest.accepted = S.accepted ++ p.bytes := by
  obtain ⟨h, hnf⟩ := exec_ok_complete buffered_lawful p (BufW.init cap S) hS hok
  obtain ⟨_, hfa, _, _⟩ := exec_spec buffered_lawful p (BufW.init cap S) hS
  have hp := pexec_pbuffered p (BufW.init cap S).pure
  have h' : pexec pbuffered p (BufW.init cap S).pure = .ok (exec buffered p (BufW.init cap S)).2.pure := h
  cases he : p.ownErr with
  | some e => rw [he] at hp; rw [hp] at h'; cases h'
  | none =>
    rw [he] at hp
    obtain ⟨a1, g1, g2, _⟩ := hp
    rw [g1] at h'
    have h'' : a1 = (exec buffered p (BufW.init cap S)).2.pure := by injection h'
    -- the drop is a flush_buf on a destination that cannot fail
    obtain ⟨_, _, _, hd⟩ := BufW.flushBuf_specB (exec buffered p (BufW.init cap S)).2 hnf
    have hfa' : (exec buffered p (BufW.init cap S)).2.dest.failAt = none := by
      have : bufV.failAt (exec buffered p (BufW.init cap S)).2 = bufV.failAt (BufW.init cap S) := hfa
      exact this.trans hF
    rcases hd with ⟨_, _, d3⟩ | ⟨_, _, d3⟩ | ⟨_, _, _, d3⟩
    · have d3' : (exec buffered p (BufW.init cap S)).2.pure.flush =
          (exec buffered p (BufW.init cap S)).2.flushBuf.2.pure := by injection d3
      show (exec buffered p (BufW.init cap S)).2.flushBuf.2.pure.sink = _
      rw [← d3', ← h'']
      show a1.tot = _
      rw [g2]
      show (S.accepted ++ []) ++ p.bytes = _
      rw [List.append_nil]
    · exact absurd hfa' d3
    · cases d3

/-- … a failure cannot be reported: here every call returns `Ok`, the destination refuses the
only write (made by `Drop`), and nothing was written. Such a writer REQUIRES `flush` before drop. -/
theorem buffered_drop_failure_unreportable :
    (session buffered [.emit [65, 66]] true (BufW.init 8 (Dest.fresh [] 100 (some 0) false 7))).1 = none ∧
    (session buffered [.emit [65, 66]] true (BufW.init 8 (Dest.fresh [] 100 (some 0) false 7))).2.2.dest.failed = true ∧
    (session buffered [.emit [65, 66]] true (BufW.init 8 (Dest.fresh [] 100 (some 0) false 7))).2.2.dest.accepted = [] := by
  decide

/-- non-vacuity of the `buffered` theorems: capacity 4, three `write_all`s that exercise "fits",
"fills the buffer exactly" and "flush_buf then write through", a destination that interrupts and
takes one byte at a time: all `Ok` with the finishing flush, everything arrives; without it the
last bytes arrive in `Drop`; and a failure ONCE at the first destination call is returned by the
third `write_all`, the rest then arriving in `Drop` although the session ended with an error -/
example :
    (exec buffered (.seq (emits [[1, 2, 3], [4], [5, 6, 7, 8, 9]]) .finish)
      (BufW.init 4 (Dest.fresh [.interrupted] 1 none false 7))).1 = none ∧
    (exec buffered (.seq (emits [[1, 2, 3], [4], [5, 6, 7, 8, 9]]) .finish)
      (BufW.init 4 (Dest.fresh [.interrupted] 1 none false 7))).2.dest.accepted = [1, 2, 3, 4, 5, 6, 7, 8, 9] ∧
    (exec buffered (emits [[1, 2, 3], [4], [5]]) (BufW.init 4 (Dest.fresh [] 1 none false 7))).2.dest.accepted = [1, 2, 3, 4] ∧
    (buffered.drop (exec buffered (emits [[1, 2, 3], [4], [5]]) (BufW.init 4 (Dest.fresh [] 1 none false 7))).2).dest.accepted = [1, 2, 3, 4, 5] ∧
    (session buffered [.emit [1, 2, 3], .emit [4], .emit [5]] true (BufW.init 4 (Dest.fresh [] 9 (some 0) true 7))).1 = some (2, .sink 7) ∧
    (session buffered [.emit [1, 2, 3], .emit [4], .emit [5]] true (BufW.init 4 (Dest.fresh [] 9 (some 0) true 7))).2.2.dest.accepted = [1, 2, 3, 4] := by
  decide

/-- after a finishing `flush` that returned `Ok`, `Drop` does nothing -/
theorem buffered_drop_after_finish_silent (p : WProg) (cap : Nat) (S : Dest) (hS : S.failed = false)
    (hok : (exec buffered (.seq p .finish) (BufW.init cap S)).1 = none) :
    buffered.drop (exec buffered (.seq p .finish) (BufW.init cap S)).2 =
      (exec buffered (.seq p .finish) (BufW.init cap S)).2 :=
  BufW.drop_empty _ (buffered_all_ok_complete p cap S hS hok).2

/-! ## layer 3 — `bgzf::io::Writer`
BAM, BCF, CSI, tabix, and SAM / VCF written through `bgzf::io::Writer`. The destination is the
permanent-failure `ScriptSink` of `Noodles/Bgzf/SinkModel.lean`. -/

theorem bgzf_reports_failure (D : Deflater) (lvl : Nat) (p : WProg) (S : SM.Sink)
    (hS : S.failed = false) :
    (exec (bgzf D lvl) p (SM.FW.init S)).2.sink.failed = true →
    (exec (bgzf D lvl) p (SM.FW.init S)).1 = some (.sink S.kind) :=
  exec_reports_failure (bgzf_lawful D lvl) p (SM.FW.init S) hS

/-- all calls `Ok` INCLUDING `try_finish` ⇒ the destination holds a BGZF file that reads back to
exactly the bytes the format writer handed over -/
theorem bgzf_all_ok_complete (D : Deflater) (hD : D.Lawful) (lvl : Nat) (p : WProg) (S : SM.Sink)
    (hS : S.failed = false) (hA : S.accepted = []) (hp : p.noFinish = true)
    (hok : (exec (bgzf D lvl) (.seq p .finish) (SM.FW.init S)).1 = none) :
    readToEnd D (exec (bgzf D lvl) (.seq p .finish) (SM.FW.init S)).2.sink.accepted = .ok p.bytes := by
  obtain ⟨h, _⟩ := exec_ok_complete (bgzf_lawful D lvl) (.seq p .finish) (SM.FW.init S) hS hok
  have hinit : (SM.FW.init S).pure = Writer.init := by simp [SM.FW.init, SM.FW.pure, Writer.init, hA]
  have h' : pexec (pbgzf D lvl) (.seq p .finish) (SM.FW.init S).pure =
      .ok (exec (bgzf D lvl) (.seq p .finish) (SM.FW.init S)).2.pure := h
  rw [hinit, pexec_seq] at h'
  cases he : p.ownErr with
  | some e =>
    obtain ⟨e', he'⟩ := pexec_ownErr (pbgzf D lvl) p Writer.init e he
    rw [he'] at h'; cases h'
  | none =>
    obtain ⟨g1, g2⟩ := pexec_pbgzf D lvl p Writer.init hp he
    rw [g1] at h'
    obtain ⟨pw, k1, k2⟩ := SM.prunFinish_ok D hD lvl p.ops
    unfold SM.prunFinish at k1
    cases hr : Bgzf.run D lvl Writer.init p.ops with
    | error e => rw [hr] at k1; cases k1
    | ok w' =>
      rw [hr] at k1 h'
      simp only at k1 h'
      have h'' : Bgzf.finish D lvl w' = .ok (exec (bgzf D lvl) (.seq p .finish) (SM.FW.init S)).2.pure := h'
      rw [k1] at h''
      injection h'' with h''
      rw [g2] at k2
      have : pw.sink = (exec (bgzf D lvl) (.seq p .finish) (SM.FW.init S)).2.sink.accepted := by
        rw [h'']; rfl
      rw [← this]; exact k2

theorem bgzf_short_writes_identical (D : Deflater) (lvl : Nat) (p : WProg) (S₁ S₂ : SM.Sink)
    (h1 : S₁.failed = false) (h2 : S₂.failed = false) (f1 : S₁.failAt = none) (f2 : S₂.failAt = none)
    (hA : S₁.accepted = S₂.accepted) :
    (exec (bgzf D lvl) p (SM.FW.init S₁)).1 = (exec (bgzf D lvl) p (SM.FW.init S₂)).1 ∧
    ((exec (bgzf D lvl) p (SM.FW.init S₁)).1 = none →
      (exec (bgzf D lvl) p (SM.FW.init S₁)).2.sink.accepted = (exec (bgzf D lvl) p (SM.FW.init S₂)).2.sink.accepted ∧
      (exec (bgzf D lvl) p (SM.FW.init S₁)).2.position = (exec (bgzf D lvl) p (SM.FW.init S₂)).2.position) := by
  have hA' : bgzfV.abs (SM.FW.init S₁) = bgzfV.abs (SM.FW.init S₂) := by
    show SM.FW.pure _ = SM.FW.pure _
    simp [SM.FW.init, SM.FW.pure, hA]
  obtain ⟨r, g⟩ := exec_short_identical (bgzf_lawful D lvl) p (SM.FW.init S₁) (SM.FW.init S₂) h1 h2 f1 f2 hA'
  refine ⟨r, fun h => ?_⟩
  have := g h
  exact ⟨congrArg Writer.sink this, congrArg Writer.position this⟩

theorem bgzf_failure_at_any_call_surfaces (D : Deflater) (lvl : Nat) (p : WProg) (S : SM.Sink) (k : Nat)
    (hS : S.failed = false) (hH : S.failAt = none) (hk0 : S.calls ≤ k)
    (hk : k < (exec (bgzf D lvl) p (SM.FW.init S)).2.sink.calls) :
    (exec (bgzf D lvl) p (SM.FW.init { S with failAt := some k })).1 = some (.sink S.kind) := by
  refine exec_failure_index_surfaces (bgzf_lawful D lvl) p (SM.FW.init S)
    (SM.FW.init { S with failAt := some k }) k ?_ rfl hS hk0 hk
  obtain ⟨a, sc, fb, c, fa, kd, f⟩ := S
  simp only at hH
  subst hH
  rfl

/-- **`Drop` finishes the file** (destination without a scripted failure, any script): the calls
were `Ok`, no `try_finish` — after `Drop` the destination reads back to everything written -/
theorem bgzf_drop_flushes (D : Deflater) (hD : D.Lawful) (lvl : Nat) (p : WProg) (S : SM.Sink)
    (hS : S.failed = false) (hF : S.failAt = none) (hA : S.accepted = []) (hp : p.noFinish = true)
    (hok : (exec (bgzf D lvl) p (SM.FW.init S)).1 = none) :
    readToEnd D ((bgzf D lvl).drop (exec (bgzf D lvl) p (SM.FW.init S)).2).sink.accepted = .ok p.bytes := by
  have e : (bgzf D lvl).drop (exec (bgzf D lvl) p (SM.FW.init S)).2 =
      (exec (bgzf D lvl) (.seq p .finish) (SM.FW.init S)).2 := by
    show SM.drop D lvl _ = (andThen (exec (bgzf D lvl) p (SM.FW.init S)) (exec (bgzf D lvl) .finish)).2
    cases hR : exec (bgzf D lvl) p (SM.FW.init S) with
    | mk r w' =>
      rw [hR] at hok
      simp only at hok
      subst hok
      rfl
  rw [e]
  have hok2 : (exec (bgzf D lvl) (.seq p .finish) (SM.FW.init S)).1 = none := by
    obtain ⟨_, h⟩ := exec_healthy (bgzf_lawful D lvl) (.seq p .finish) (SM.FW.init S) hS hF
    rcases h with ⟨a1, _⟩ | ⟨e', _, a2⟩
    · exact a1
    · -- the perfect-destination run cannot fail on a lawful library
      exfalso
      have hinit : (SM.FW.init S).pure = Writer.init := by simp [SM.FW.init, SM.FW.pure, Writer.init, hA]
      have a2' : pexec (pbgzf D lvl) (.seq p .finish) (SM.FW.init S).pure = .error e' := a2
      rw [hinit, pexec_seq] at a2'
      obtain ⟨ho, _⟩ := exec_ok_complete (bgzf_lawful D lvl) p (SM.FW.init S) hS hok
      have ho' : pexec (pbgzf D lvl) p (SM.FW.init S).pure = .ok (exec (bgzf D lvl) p (SM.FW.init S)).2.pure := ho
      rw [hinit] at ho'
      cases he : p.ownErr with
      | some e0 =>
        obtain ⟨e1, he1⟩ := pexec_ownErr (pbgzf D lvl) p Writer.init e0 he
        rw [he1] at ho'; cases ho'
      | none =>
        obtain ⟨g1, _⟩ := pexec_pbgzf D lvl p Writer.init hp he
        obtain ⟨pw, k1, _⟩ := SM.prunFinish_ok D hD lvl p.ops
        unfold SM.prunFinish at k1
        rw [ho'] at a2'
        rw [g1] at ho'
        rw [ho'] at k1
        simp only at k1 a2'
        have a2'' : Bgzf.finish D lvl (exec (bgzf D lvl) p (SM.FW.init S)).2.pure = .error e' := a2'
        rw [k1] at a2''; cases a2''
  exact bgzf_all_ok_complete D hD lvl p S hS hA hp hok2

/-- quirk as in the code: `try_finish()` followed by `Drop` (`bam::io::Writer::try_finish`, then
the writer goes out of scope) writes the EOF marker TWICE — `Drop` runs `try_finish` again. On a
destination without a scripted failure the second one appends exactly the 28 marker bytes. -/
theorem bgzf_drop_after_try_finish_appends_eof (D : Deflater) (lvl : Nat) (w : SM.FW)
    (hS : w.sink.failed = false) (hF : w.sink.failAt = none)
    (hok : (SM.tryFinish D lvl w).1 = none) :
    ((bgzf D lvl).drop (SM.tryFinish D lvl w).2).sink.accepted =
      (SM.tryFinish D lvl w).2.sink.accepted ++ EOF_MARKER := by
  have hst := SM.tryFinish_ok_staging D lvl w hok
  obtain ⟨hp, _, h⟩ := SM.tryFinish_spec D lvl w hS
  have hnf : (SM.tryFinish D lvl w).2.sink.failed = false := by
    rcases h with ⟨_, a2, _⟩ | ⟨a1, _, _⟩ | ⟨_, a1, _, _⟩
    · exact a2
    · rw [hok] at a1; cases a1
    · rw [hok] at a1; cases a1
  have hfa : (SM.tryFinish D lvl w).2.sink.failAt = none := hp.2.1.trans hF
  generalize SM.tryFinish D lvl w = o at hst hnf hfa
  obtain ⟨r, w1⟩ := o
  simp only at hst hnf hfa ⊢
  show (SM.tryFinish D lvl w1).2.sink.accepted = _
  have hfl : SM.flush D lvl w1 = (none, w1) := by
    unfold SM.flush
    rw [hst]; rfl
  rw [SM.tryFinish_flush_ok D lvl w1 w1 hfl]
  simp only
  have t := SM.writeAllF_trans w1.sink EOF_MARKER hnf
  rcases t.res with ⟨_, _, a3⟩ | ⟨_, _, a3⟩
  · exact a3
  · exact absurd hfa a3

/-- identity "compression", constant CRC: a DEFLATE library for the witnesses below -/
def idD : Deflater :=
  ⟨fun _ x => x, fun c n => if n = 0 then some [] else if c.length = n then some c else none, fun _ => 0⟩

/-- … which satisfies every law the theorems assume -/
theorem idD_lawful : idD.Lawful where
  roundtrip := by
    intro l x
    cases x with
    | nil => rfl
    | cons a t => simp [idD]
  level0 := by
    intro x hx
    have h1 : MAX_BUF = 65495 := by decide
    have h2 : MAX_COMPRESSED = 65510 := by decide
    show x.length ≤ MAX_COMPRESSED
    omega
  crc_lt := by intro x; show 0 < 2^32; decide
  eof_block := rfl
  crc_nil := rfl

/-- non-vacuity of `bgzf_all_ok_complete` / `bgzf_drop_flushes`: a BAM-shaped program (two
`write_all`s per record) over a destination that interrupts and accepts 1, then 3 bytes per call -/
example :
    (exec (bgzf idD 6) (.seq (seqAll [bamRecord (.ok [7, 8]), bamRecord (.ok [9])]) .finish)
      (SM.FW.init (SM.Sink.fresh [.interrupted, .accept 1] 3 none 7))).1 = none ∧
    readToEnd idD (exec (bgzf idD 6) (.seq (seqAll [bamRecord (.ok [7, 8]), bamRecord (.ok [9])]) .finish)
      (SM.FW.init (SM.Sink.fresh [.interrupted, .accept 1] 3 none 7))).2.sink.accepted =
        .ok (seqAll [bamRecord (.ok [7, 8]), bamRecord (.ok [9])]).bytes :=
  ⟨by decide, bgzf_all_ok_complete idD idD_lawful 6 _ _ rfl rfl rfl (by decide)⟩

example : (seqAll [bamRecord (.ok [7, 8]), bamRecord (.ok [9])]).bytes = [2, 0, 0, 0, 7, 8, 1, 0, 0, 0, 9] := by
  decide

/-- … and a failure inside `Drop` cannot be reported: every call `Ok`, the destination refuses
everything, nothing was written. A BGZF-based writer REQUIRES `try_finish` for a checked result. -/
theorem bgzf_drop_failure_unreportable :
    (session (bgzf idD 6) [.emit [65]] true (SM.FW.init (SM.Sink.fresh [] 100 (some 0) 7))).1 = none ∧
    (session (bgzf idD 6) [.emit [65]] true (SM.FW.init (SM.Sink.fresh [] 100 (some 0) 7))).2.2.sink.failed = true ∧
    (session (bgzf idD 6) [.emit [65]] true (SM.FW.init (SM.Sink.fresh [] 100 (some 0) 7))).2.2.sink.accepted = [] := by
  decide

/-! ## which writer is which -/

/-- every writer of the list sits on one of the three transcribed layers — except crai, whose
gzip layer (flate2) is external and is observed at the destination only -/
theorem every_kind_has_a_layer (k : Kind) :
    k.layer = .direct ∨ k.layer = .buffered ∨ k.layer = .bgzf ∨ k = .crai := by
  cases k <;> simp [Kind.layer]

/-- the writers that need NO finishing call are exactly those on the destination itself, CRAM
excepted (it stages records) -/
theorem no_finishing_call_iff (k : Kind) :
    k.finish = .none ↔ (k.layer = .direct ∧ k ≠ .cram) := by
  cases k <;> simp [Kind.finish, Kind.layer]

/-- and exactly the layers other than `direct` call the destination from `Drop` -/
theorem emits_in_drop_iff (k : Kind) : k.layer.emitsInDrop = true ↔ k.layer ≠ .direct := by
  cases k <;> simp [Kind.layer, Layer.emitsInDrop]

/-- **CRAM requires `try_finish`.** Capacity 2, three records, containers `c₁ c₂`: without
`try_finish` the third record never leaves the writer (there is no `Drop`) — the destination
holds the header and `c₁` only, and every call returned `Ok`; with it, `c₂` and the EOF
container follow. -/
theorem cram_requires_try_finish :
    (seqAll (cramSession 2 [[1]] 3 [[[0xc1]], [[0xc2]]] false)).bytes = [1, 0xc1] ∧
    (seqAll (cramSession 2 [[1]] 3 [[[0xc1]], [[0xc2]]] true)).bytes = [1, 0xc1, 0xc2] ++ CRAM_EOF ∧
    (session direct (cramSession 2 [[1]] 3 [[[0xc1]], [[0xc2]]] false) true (Dest.fresh [] 100 none false 0)).1 = none ∧
    (session direct (cramSession 2 [[1]] 3 [[[0xc1]], [[0xc2]]] false) true (Dest.fresh [] 100 none false 0)).2.2.accepted = [1, 0xc1] := by
  decide

/-- a loop whose bodies have no error of their own has none -/
theorem seqAll_clean (l : List WProg) (h : ∀ x ∈ l, x.ownErr = none) : (seqAll l).ownErr = none := by
  induction l with
  | nil => rfl
  | cons p l ih =>
    show (WProg.seq p (seqAll l)).ownErr = none
    rw [(bytes_seq_none p _ (h p (by simp))).2]
    exact ih (fun x hx => h x (by simp [hx]))

/-- the transcribed FASTA, FASTQ and gzi programs have no error of their own: on a destination
that never fails hard (any short-write / `Interrupted` script) every such call returns `Ok` and
all its bytes are there (`direct_healthy_complete`) -/
theorem seqAll_emits_clean (l : List Bytes) : (emits l).ownErr = none :=
  seqAll_clean _ (by
    intro x hx
    simp at hx
    obtain ⟨b, _, h⟩ := hx
    subst h
    rfl)

theorem fastaRecord_clean (lineBases : Nat) (name : Bytes) (desc : Option Bytes) (seq : Bytes) :
    (fastaRecord lineBases name desc seq).ownErr = none := seqAll_emits_clean _

theorem fastqRecord_clean (sep : UInt8) (name desc seq qual : Bytes) :
    (fastqRecord sep name desc seq qual).ownErr = none := seqAll_emits_clean _

theorem gziIndex_clean (entries : List (Nat × Nat)) : (gziIndex entries).ownErr = none :=
  seqAll_emits_clean _

end Noodles.Props.C14
