import Noodles.Sam.File
import Noodles.Sam.FileSpec
import Noodles.Sam.FileSchedProof
import Noodles.Sam.FileLinesProof
import Noodles.Sam.FileCleanProof
import Noodles.Sam.RecordProof
import Noodles.Sam.HeaderProof
import Noodles.Sam.BamProof
/-!
# C06, file level — whole SAM files: header + record lines through the real line splitters

Model: `Noodles/Sam/File.lean` (the glue: `writeSamFile` = `write_header` + one
`write_alignment_record` + LF per record; `readSamFileB` = `read_header` over the `header::Reader`
adaptor + the `read_record_buf` loop, on a `BufReader` of any capacity over any delivery schedule —
both loops are the C12 transcriptions `IO.hdrLinesAll` / `IO.parsedLinesAll`), closed form
`Noodles/Sam/FileSpec.lean`, helper lemmas `Noodles/Sam/File{Sched,Lines,Clean}Proof.lean`.

Quantifiers: every header value with the invariants of the Rust types (`HdrWF`, as in
`sam_header_roundtrip`), every list of records satisfying the hypotheses of `sam_roundtrip`
(`File.RecOk`), every float library obeying `FloatFmt.Lawful` and `File.LineSafe` (printed floats
contain no LF / CR; validated per run), every `BufReader` capacity ≥ 1 and EVERY `fill_buf` schedule
(chunk sizes and `Interrupted`), and the file the model writer produced for them.

What the reader accepts (transcribed, proved, and compared with the real reader on every run):
CRLF is accepted on header lines AND on record lines (`read_line` pops LF then one CR in both loops),
a missing final newline is accepted after a header line and after a record line, a blank line after
the data is `InvalidData` (the empty line is handed to the record parser), and a record line cannot
start with `@`: the writer refuses `@` anywhere in QNAME (`name.rs::is_valid`), a missing name is `*`.
-/
namespace Noodles.Props.C06
open Noodles.Sam Noodles.Sam.File

/-- a float library for closed examples that involve no float -/
def F0f : FloatFmt := ⟨fun _ => [], fun _ => [], fun _ => none⟩

/-! ### the reader under every schedule -/

/-- **Any capacity, any schedule = the closed form.** Reading a SAM file (`read_header`, then
`read_record_buf` until `Ok(0)` or the first error) through a `BufReader` of any capacity ≥ 1 whose
inner reader delivers the bytes in any chunking, with any number of `Interrupted` failures, gives
exactly what the closed form gives on the byte string still to be delivered. -/
theorem sam_file_reader_any_schedule (F : FloatFmt) (b : Noodles.IO.BufR UInt8) (hc : 0 < b.cap) :
    readSamFileB F b = readSamFile F b.stream :=
  readSamFileB_eq_spec F b hc

/-- … so two deliveries of the same bytes read the same file (C12's schedule independence, for the
composed header + record reader). -/
theorem sam_file_schedule_irrelevant (F : FloatFmt) (b₁ b₂ : Noodles.IO.BufR UInt8)
    (h₁ : 0 < b₁.cap) (h₂ : 0 < b₂.cap) (hs : b₁.stream = b₂.stream) :
    readSamFileB F b₁ = readSamFileB F b₂ := by
  rw [readSamFileB_eq_spec F b₁ h₁, readSamFileB_eq_spec F b₂ h₂, hs]

/-! ### what the writer's file looks like -/

/-- **Header / record boundary.** A line the record writer produced is not empty, does not start with
`@` — so `header::Reader` ends the header before it — and contains neither LF nor CR — so the line
splitter returns it whole, with LF or CRLF after it. -/
theorem sam_record_line_boundary (F : FloatFmt) (hE : LineSafe F) (refs : List Bytes)
    (hv : ValidRefs refs) (r : Rec) (l : Bytes) (h : samWrite F refs r = .ok l) :
    l ≠ [] ∧ l.head? ≠ some 64 ∧ ∀ b ∈ l, b ≠ 10 ∧ b ≠ 13 :=
  samWrite_recLine F hE refs hv r l h

theorem forall₂_parse (F : FloatFmt) (hF : F.Lawful) (refs : List Bytes) (hv : ValidRefs refs)
    (rs : List Rec) (ls : List Bytes) (hrs : ∀ r ∈ rs, RecOk r)
    (h : Forall₂ (fun r l => samWrite F refs r = .ok l) rs ls) :
    Forall₂ (fun l r => samParse F refs l = .ok r) ls (rs.map numNorm) := by
  induction h with
  | nil => exact .nil
  | @cons r l rs' ls' hw _ ih =>
    have ok := hrs r (by simp)
    exact .cons (samParse_samWrite F hF refs hv r ok.wt ok.fin ok.flags ok.qual l hw)
      (ih fun x hx => hrs x (List.mem_cons_of_mem _ hx))

theorem forall₂_recLine (F : FloatFmt) (hE : LineSafe F) (refs : List Bytes) (hv : ValidRefs refs)
    (rs : List Rec) (ls : List Bytes) (h : Forall₂ (fun r l => samWrite F refs r = .ok l) rs ls) :
    ∀ l ∈ ls, RecLine l := by
  induction h with
  | nil => intro l hl; cases hl
  | @cons r l rs' ls' hw _ ih =>
    intro x hx
    rcases List.mem_cons.mp hx with rfl | hx
    · exact samWrite_recLine F hE refs hv r _ hw
    · exact ih x hx

/-- the file the writer produced: the header lines, then the record lines, each followed by LF; the
header lines parse to `h`, the record lines to the records (integer tags by value) -/
theorem written_file_lines (F : FloatFmt) (hF : F.Lawful) (hE : LineSafe F) (h : Hdr) (hwf : HdrWF h)
    (rs : List Rec) (hrs : ∀ r ∈ rs, RecOk r) (bytes : Bytes)
    (hw : writeSamFile F h rs = .ok bytes) :
    ∃ rls, bytes = unlinesWith [10] (hdrLines h) ++ unlinesWith [10] rls ∧
      Lines F (hdrLines h) rls h (rs.map numNorm) := by
  unfold writeSamFile at hw
  cases ht : headerWrite h with
  | error e => rw [ht] at hw; cases hw
  | ok text =>
    rw [ht] at hw
    cases hb : writeRecords F h.refs rs with
    | error e => rw [hb] at hw; cases hw
    | ok body =>
      rw [hb] at hw
      simp only [Except.ok.injEq] at hw
      obtain ⟨htext, _⟩ := headerWrite_spec h text ht
      obtain ⟨ls, hls, hall⟩ := writeRecords_spec F h.refs rs body hb
      have hv : ValidRefs h.refs := by
        refine ⟨hwf.sqNames, ?_⟩
        intro n hn
        obtain ⟨l, hl, rfl⟩ := List.mem_map.mp hn
        exact headerWrite_sq_valid h text ht l hl
      refine ⟨ls, ?_, ?_⟩
      · rw [← hw, htext, hls]; rfl
      · exact ⟨hdrLines_good h hwf text ht, parseLines_hdrLines h hwf text ht,
          forall₂_recLine F hE h.refs hv rs ls hall, forall₂_parse F hF h.refs hv rs ls hrs hall⟩

/-! ### round trips -/

/-- **File round trip.** For every well-formed header and every list of records the writer accepts,
the SAM file the writer produces is read back — `read_header`, then `read_record_buf` to the end —
as the same header and the same records (integer tags by value), without error, through a
`BufReader` of any capacity under every delivery schedule. -/
theorem sam_file_roundtrip (F : FloatFmt) (hF : F.Lawful) (hE : LineSafe F) (h : Hdr) (hwf : HdrWF h)
    (rs : List Rec) (hrs : ∀ r ∈ rs, RecOk r) (bytes : Bytes) (hw : writeSamFile F h rs = .ok bytes)
    (b : Noodles.IO.BufR UInt8) (hc : 0 < b.cap) (hs : b.stream = bytes) :
    readSamFileB F b = ⟨.ok h, rs.map numNorm, none⟩ := by
  obtain ⟨rls, hb, hl⟩ := written_file_lines F hF hE h hwf rs hrs bytes hw
  rw [readSamFileB_eq_spec F b hc, hs, hb]
  exact readSamFile_lf F _ _ _ _ hl

/-- **CRLF.** The same file with every LF replaced by CR LF reads back the same: the reader strips
CRLF on header lines and on record lines alike. -/
theorem sam_file_roundtrip_crlf (F : FloatFmt) (hF : F.Lawful) (hE : LineSafe F) (h : Hdr)
    (hwf : HdrWF h) (rs : List Rec) (hrs : ∀ r ∈ rs, RecOk r) (bytes : Bytes)
    (hw : writeSamFile F h rs = .ok bytes)
    (b : Noodles.IO.BufR UInt8) (hc : 0 < b.cap) (hs : b.stream = toCrlf bytes) :
    readSamFileB F b = ⟨.ok h, rs.map numNorm, none⟩ := by
  obtain ⟨rls, hb, hl⟩ := written_file_lines F hF hE h hwf rs hrs bytes hw
  rw [readSamFileB_eq_spec F b hc, hs, hb, toCrlf_append,
    toCrlf_unlines _ (fun l hl' => (hl.hgood l hl').2.1),
    toCrlf_unlines _ (fun l hl' hm => ((hl.rgood l hl').2.2 10 hm).1 rfl)]
  exact readSamFile_crlf F _ _ _ _ hl

/-- **No final newline.** The same file without its last byte (the LF of the last line, header or
record) reads back the same. -/
theorem sam_file_roundtrip_no_final_newline (F : FloatFmt) (hF : F.Lawful) (hE : LineSafe F) (h : Hdr)
    (hwf : HdrWF h) (rs : List Rec) (hrs : ∀ r ∈ rs, RecOk r) (bytes : Bytes)
    (hw : writeSamFile F h rs = .ok bytes)
    (b : Noodles.IO.BufR UInt8) (hc : 0 < b.cap) (hs : b.stream = dropFinalNewline bytes) :
    readSamFileB F b = ⟨.ok h, rs.map numNorm, none⟩ := by
  obtain ⟨rls, hb, hl⟩ := written_file_lines F hF hE h hwf rs hrs bytes hw
  rw [readSamFileB_eq_spec F b hc, hs, hb]
  exact readSamFile_noFinalLf F _ _ _ _ hl

/-- **A blank line after the data is an error**, after all records have been returned: `read_line`
returns 1, the empty line goes to the record parser, which fails on the empty QNAME. (So an extra
trailing newline is NOT tolerated — what the code does, stated.) -/
theorem sam_file_trailing_blank_line (F : FloatFmt) (hF : F.Lawful) (hE : LineSafe F) (h : Hdr)
    (hwf : HdrWF h) (rs : List Rec) (hrs : ∀ r ∈ rs, RecOk r) (bytes : Bytes)
    (hw : writeSamFile F h rs = .ok bytes)
    (b : Noodles.IO.BufR UInt8) (hc : 0 < b.cap) (hs : b.stream = bytes ++ [10]) :
    readSamFileB F b = ⟨.ok h, rs.map numNorm, some .invalidData⟩ := by
  obtain ⟨rls, hb, hl⟩ := written_file_lines F hF hE h hwf rs hrs bytes hw
  rw [readSamFileB_eq_spec F b hc, hs, hb]
  exact readSamFile_blank F _ _ _ _ hl

/-! ### the edge shapes, as checked instances -/

/-- the empty header and no records: the writer writes nothing, and the empty file reads as the
empty header and no records -/
theorem sam_file_empty (F : FloatFmt) :
    writeSamFile F Hdr.empty [] = .ok [] ∧
    (readSamFile F []).hdr = .ok Hdr.empty ∧ (readSamFile F []).recs = [] ∧ (readSamFile F []).err = none := by
  refine ⟨by rfl, by rfl, by rfl, by rfl⟩

def rStar : Rec :=
  { name := none, flags := 4, rid := none, pos := 0, mapq := 255, cigar := [], mrid := none,
    mpos := 0, tlen := 0, seq := [], qual := [], data := [] }

/-- **QNAME starting with `@`.** The writer refuses it (`InvalidInput`) … -/
theorem at_name_refused :
    (match samWrite F0f [] { rStar with name := some [64, 114] } with
      | .error .invalidInput => true
      | _ => false) = true := by
  decide

/-- … and it has to: the line `@r\t4\t*\t0\t255\t*\t*\t0\t0\t*\t*` a lenient writer would emit is
taken for a header line by `read_header`, which fails there (`InvalidData`); no record is read.
(Replayed on the real reader by the correspondence corpus, `corpus-sstream`.) -/
theorem at_line_is_taken_for_header :
    let o := readSamFile F0f [64, 114, 9, 52, 9, 42, 9, 48, 9, 50, 53, 53, 9, 42, 9, 42, 9, 48, 9, 48, 9, 42, 9, 42, 10]
    (match o.hdr with | .error .invalidData => true | _ => false) = true ∧ o.recs = [] := by
  decide

/-- a file with no header lines: `*\t4\t*\t0\t255\t*\t*\t0\t0\t*\t*\n` reads as the empty header and
one record -/
theorem sam_file_records_only :
    (writeSamFile F0f Hdr.empty [rStar]).toOption.map (fun bytes =>
      let o := readSamFile F0f bytes
      (o.hdr.toOption, o.recs, o.err)) = some (some Hdr.empty, [rStar], none) := by
  decide

/-! ### SAM file ≡ BAM file -/

theorem bamRoundTrip_eq (n : Nat) (r rb : Rec) (hflags : r.flags < 4096)
    (hcg : ∀ p ∈ r.data, p.1 ≠ CG) (hb : bamRoundTrip n r = .ok rb) :
    rb = { r with seq := r.seq.map bamBase } := by
  unfold bamRoundTrip at hb
  split at hb
  · simp only [Except.ok.injEq] at hb
    subst hb
    have hf : r.data.filter (fun p => p.1 != CG) = r.data := by
      rw [List.filter_eq_self]
      intro p hp
      simpa using hcg p hp
    simp [hf, Nat.mod_eq_of_lt hflags]
  · cases hb

theorem bamRecords_eq (n : Nat) (rs rbs : List Rec) (hrs : ∀ r ∈ rs, r.flags < 4096 ∧ ∀ p ∈ r.data, p.1 ≠ CG)
    (hb : bamRecords n rs = .ok rbs) :
    rbs = rs.map fun r => { r with seq := r.seq.map bamBase } := by
  induction rs generalizing rbs with
  | nil => simp only [bamRecords, Except.ok.injEq] at hb; subst hb; rfl
  | cons r rest ih =>
    simp only [bamRecords] at hb
    cases h1 : bamRoundTrip n r with
    | error e => rw [h1] at hb; cases hb
    | ok rb =>
      rw [h1] at hb
      cases h2 : bamRecords n rest with
      | error e => rw [h2] at hb; cases hb
      | ok t =>
        rw [h2] at hb
        simp only [Except.ok.injEq] at hb
        subst hb
        have := hrs r (by simp)
        rw [bamRoundTrip_eq n r rb this.1 this.2 h1, ih t (fun x hx => hrs x (List.mem_cons_of_mem _ hx)) h2]
        rfl

/-- **SAM file ≡ BAM file.** The same header and records, accepted by both writers (`CG`, BAM's own
tag, excluded): the BAM file — header block at byte level, records by the BAM record normal form —
and the SAM file — at byte level, any capacity, any schedule — read back as the same header, and as
the same records up to BAM's 16-letter base alphabet (integer tags by value). -/
theorem sam_file_eq_bam_file (F : FloatFmt) (hF : F.Lawful) (hE : LineSafe F) (h : Hdr) (hwf : HdrWF h)
    (rs : List Rec) (hrs : ∀ r ∈ rs, RecOk r) (hcg : ∀ r ∈ rs, ∀ p ∈ r.data, p.1 ≠ CG)
    (sam : Bytes) (hs : writeSamFile F h rs = .ok sam)
    (bamHdr : Bytes) (hbh : bamHeaderWrite h = .ok bamHdr) (bamRecs : Bytes)
    (rbs : List Rec) (hbr : bamRecords h.refs.length rs = .ok rbs)
    (b : Noodles.IO.BufR UInt8) (hc : 0 < b.cap) (hst : b.stream = sam) :
    ∃ hS rsS, readSamFileB F b = ⟨.ok hS, rsS, none⟩ ∧
      bamHeaderRead (bamHdr ++ bamRecs) = .ok (hS, bamRecs) ∧
      rbs.map numNorm = rsS.map fun r => { r with seq := r.seq.map bamBase } := by
  refine ⟨h, rs.map numNorm, sam_file_roundtrip F hF hE h hwf rs hrs sam hs b hc hst,
    bamHeaderRead_bamHeaderWrite h hwf bamHdr hbh bamRecs, ?_⟩
  rw [bamRecords_eq _ rs rbs (fun r hr => ⟨(hrs r hr).flags, hcg r hr⟩) hbr]
  simp [List.map_map, numNorm]

/-- … and exactly the same records when every base is in `=ACMGRSVTWYHKDBN`. -/
theorem sam_file_eq_bam_file_exact (F : FloatFmt) (hF : F.Lawful) (hE : LineSafe F) (h : Hdr)
    (hwf : HdrWF h) (rs : List Rec) (hrs : ∀ r ∈ rs, RecOk r) (hcg : ∀ r ∈ rs, ∀ p ∈ r.data, p.1 ≠ CG)
    (hbases : ∀ r ∈ rs, ∀ x ∈ r.seq, x ∈ bamAlphabet)
    (sam : Bytes) (hs : writeSamFile F h rs = .ok sam)
    (rbs : List Rec) (hbr : bamRecords h.refs.length rs = .ok rbs)
    (b : Noodles.IO.BufR UInt8) (hc : 0 < b.cap) (hst : b.stream = sam) :
    readSamFileB F b = ⟨.ok h, rbs.map numNorm, none⟩ := by
  rw [sam_file_roundtrip F hF hE h hwf rs hrs sam hs b hc hst,
    bamRecords_eq _ rs rbs (fun r hr => ⟨(hrs r hr).flags, hcg r hr⟩) hbr]
  have hid : ∀ x ∈ bamAlphabet, bamBase x = x := by decide
  have : (rs.map fun r => { r with seq := r.seq.map bamBase }) = rs := by
    conv => rhs; rw [← List.map_id rs]
    apply List.map_congr_left
    intro r hr
    have hm : r.seq.map bamBase = r.seq := by
      conv => rhs; rw [← List.map_id r.seq]
      exact List.map_congr_left fun x hx => hid x (hbases r hr x hx)
    simp [hm]
  rw [this]

/-! ### non-vacuity -/

def hF1 : Hdr :=
  { hd := some ⟨1, 6, []⟩, sq := [⟨[115, 113, 48], 8, []⟩], rg := [], pg := [], co := [[104, 105]] }

def rF1 : Rec :=
  { name := some [114, 48], flags := 99, rid := some 0, pos := 1, mapq := 60,
    cigar := [⟨.M, 2⟩], mrid := some 0, mpos := 5, tlen := -3, seq := [65, 67],
    qual := [30, 31], data := [((78, 72), .int .u8 1)] }

/-- the hypotheses of the file theorems are satisfiable with a header of three lines and two
records, and both writers accept them -/
example : (writeSamFile F0f hF1 [rF1, rStar]).toOption.isSome = true := by decide
example : (bamRecords hF1.refs.length [rF1, rStar]).toOption.isSome = true := by decide
example : (bamHeaderWrite hF1).toOption.isSome = true := by decide
example : LineSafe F0f := fun _ => ⟨fun b h => by simp [F0f] at h, fun b h => by simp [F0f] at h⟩

example : RecOk rF1 where
  wt := ⟨by decide, by decide, by decide, by decide, by
    intro p hp
    simp only [rF1, List.mem_singleton] at hp
    subst hp
    exact ⟨by decide, by decide⟩, by decide⟩
  fin := by
    intro p hp l hl
    simp only [rF1, List.mem_singleton] at hp
    subst hp
    cases hl
  flags := by decide
  qual := by decide

example : HdrWF hF1 where
  hd := by
    intro l e; cases e
    exact ⟨by decide, by decide, ⟨by decide, by decide⟩⟩
  sq := by
    intro l hl
    simp only [hF1, List.mem_singleton] at hl
    subst hl
    exact ⟨by decide, ⟨by decide, by decide⟩⟩
  sqNames := by decide
  rg := by intro l hl; cases hl
  rgIds := by decide
  pg := by intro l hl; cases hl
  pgIds := by decide
  co := by decide

/-- a float library that obeys both assumed laws (the bit pattern in decimal): the hypotheses
`F.Lawful` and `LineSafe F` of the file theorems are jointly satisfiable -/
def Fdec : FloatFmt := ⟨Noodles.Text.printNat, Noodles.Text.printNat, Noodles.Text.parseNat⟩

theorem digit_ne (b : UInt8) (h : isDigit b = true) : b ≠ 9 ∧ b ≠ 44 ∧ b ≠ 10 ∧ b ≠ 13 := by
  refine ⟨?_, ?_, ?_, ?_⟩ <;> (intro e; subst e; simp [isDigit] at h)

example : Fdec.Lawful where
  parseS := fun x _ => Noodles.Text.parse_print x
  parseA := fun x _ => Noodles.Text.parse_print x
  cleanS := fun x b hb => (digit_ne b (printNat_digits x b hb)).1
  cleanA := fun x b hb => ⟨(digit_ne b (printNat_digits x b hb)).1, (digit_ne b (printNat_digits x b hb)).2.1⟩

example : LineSafe Fdec := fun x =>
  ⟨fun b hb => ⟨(digit_ne b (printNat_digits x b hb)).2.2.1, (digit_ne b (printNat_digits x b hb)).2.2.2⟩,
   fun b hb => ⟨(digit_ne b (printNat_digits x b hb)).2.2.1, (digit_ne b (printNat_digits x b hb)).2.2.2⟩⟩

/-- the conclusion on the example, computed on the closed form: the CRLF form of the written file -/
example :
    (writeSamFile F0f hF1 [rF1, rStar]).toOption.map (fun bytes =>
      let o := readSamFile F0f (toCrlf bytes)
      (o.hdr.toOption, o.recs, o.err)) = some (some hF1, [numNorm rF1, rStar], none) := by
  decide

/-- **The asymmetry of the CR.** A CR is stripped only together with the LF that follows it: the CRLF
form of a file WITHOUT its final LF ends in a bare CR, which stays on the last line — here the last
record's QUAL becomes `*\r` and the record is `InvalidData` after the first record was returned.
(`sam_file_roundtrip_no_final_newline` is about the LF form.) -/
theorem crlf_without_final_lf_keeps_cr :
    (writeSamFile F0f Hdr.empty [rStar, rStar]).toOption.map (fun bytes =>
      let o := readSamFile F0f (toCrlf bytes).dropLast
      (o.hdr.toOption, o.recs, o.err)) = some (some Hdr.empty, [rStar], some .invalidData) := by
  decide

end Noodles.Props.C06
