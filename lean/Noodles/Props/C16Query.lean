import Noodles.Csi.QueryIo
import Noodles.Csi.QueryIoProof
import Noodles.Csi.QueryIoSimProof
import Noodles.Bcf.QueryFilter
/-!
# C16 — region queries: `csi::async::io::Query` ≡ `csi::io::Query`

Model: `Noodles/Csi/QueryIo.lean` — both chunk-reader state machines, the sync one
(`fillBufG` / `runS`) over the sync BGZF reader model `Noodles.Bgzf.RM`, the async one (`pollFillQ` /
`pollSeek` / `runA`) over the async BGZF reader poll machine `Noodles.Bgzf.Async`, driven by a script
that fixes every `poll_read` of the source (partial transfer or `Pending`), every completion time of
an inflate task and every `poll_complete` of the source's `AsyncSeek`.  A *consumer* is a list of
`consume` amounts: `fill_buf`, `consume(min n len)`, … — every way of reading a `BufRead`.  The
comparison stops at the first error.  Helper lemmas: `Noodles/Csi/QueryIoProof.lean` (poll machine
= sequential reading) and `Noodles/Csi/QueryIoSimProof.lean` (sequential reading ≈ sync reader); the
BGZF layer below is `Noodles/Bgzf/AsyncReaderProof.lean` (not redone here).

All quantifiers are unbounded: every layout, every chunk list (empty, empty chunks, overlapping,
reversed, ends anywhere), every reader start state that is not in the middle of a seek, every
worker count ≥ 1, every script, every consumer.
-/
namespace Noodles.Props.C16
open Noodles.Bgzf.RM Noodles.Bgzf.Async Noodles.Bgzf.ChunkRead Noodles.Csi.QueryIo

variable {α : Type}

/-- **Schedule irrelevance of the async query reader.**  Whatever the script (partial transfers,
`Pending` before any poll of the source, of an inflate task or of the source's seek) and whatever
the worker count, the async query reader hands out exactly what its sequential reading hands out
and leaves the BGZF reader in exactly the same state; no result is `starved` (every
`fill_buf().await` completes) or `panic`.  Hypothesis: no chunk END lies just behind an empty
member (`EndOk`; see `async_query_end_after_empty_member_schedule_dependent` below — without it the
statement is false for the code as it is). -/
theorem async_query_schedule_irrelevant (L : Layout α) (w : Nat) (hw : 1 ≤ w) (a : AR α)
    (hi : Inv L a.r) (hp : PInv L a.r.next a.p) (chunks : List Chunk)
    (hce : ∀ c ∈ chunks, EndOk L c.e) (ns : List Nat) (qs qs' : QSched) :
    (runA L w a qs chunks ns).1 = (runA L w a qs' chunks ns).1 ∧
    (runA L w a qs chunks ns).2.a.r = (runA L w a qs' chunks ns).2.a.r ∧
    ∀ o ∈ (runA L w a qs chunks ns).1, (∃ b, o = QOut.bytes b) ∨ (∃ e, o = QOut.err e) := by
  obtain ⟨h1, h2⟩ := runA_eq_seq L w hw a hi hp chunks hce ns qs
  obtain ⟨h1', h2'⟩ := runA_eq_seq L w hw a hi hp chunks hce ns qs'
  refine ⟨by rw [h1, h1'], by rw [h2, h2'], ?_⟩
  rw [h1]
  exact runSeq_outs L a.r chunks ns

/-- **async query = sync query.**  For every well-formed layout without two consecutive empty
members, every chunk list whose starts are seeks the two BGZF readers agree on (`StartsValid`) and
whose ends are `EndOk`, every pair of reader start states that simulate each other (e.g. both fresh,
or both after the same history), every worker count, script and consumer: the async query reader
delivers the same slices / the same first error as the sync query reader, and the two BGZF readers
end at the same virtual position. -/
theorem async_query_eq_sync (L : Layout α) (hL : WF L) (hne : NoAdjacentEmpty L) (w : Nat)
    (hw : 1 ≤ w) (a : AR α) (s : R α) (hp : PInv L a.r.next a.p) (hsim : Sim L (PX L) a.r s)
    (chunks : List Chunk) (hv : StartsValid L chunks) (hce : ∀ c ∈ chunks, EndOk L c.e)
    (ns : List Nat) (qs : QSched) :
    (runA L w a qs chunks ns).1 = (Noodles.Csi.QueryIo.runS L s chunks ns).1 ∧
    tell (runA L w a qs chunks ns).2.a.r = tell (Noodles.Csi.QueryIo.runS L s chunks ns).2 := by
  obtain ⟨h1, h2⟩ := runA_eq_seq L w hw a hsim.ia hp chunks hce ns qs
  obtain ⟨g1, g2⟩ := Noodles.Csi.QueryIo.runSeq_sim L hL hne a.r s hsim chunks hv ns
  exact ⟨by rw [h1, g1], by rw [h2, g2]⟩

/-- the instance for two fresh readers -/
theorem async_query_eq_sync_fresh (L : Layout α) (hL : WF L) (hne : NoAdjacentEmpty L) (w : Nat)
    (hw : 1 ≤ w) (chunks : List Chunk) (hv : StartsValid L chunks)
    (hce : ∀ c ∈ chunks, EndOk L c.e) (ns : List Nat) (qs : QSched) :
    (runA L w AR.init qs chunks ns).1 = (Noodles.Csi.QueryIo.runS L R.init chunks ns).1 ∧
    tell (runA L w AR.init qs chunks ns).2.a.r =
      tell (Noodles.Csi.QueryIo.runS L R.init chunks ns).2 :=
  async_query_eq_sync L hL hne w hw AR.init R.init (pinv_init L) (sim_init L _) chunks hv hce ns qs

/-- non-vacuity: the hypotheses hold for a layout with an empty member mid-file and an EOF marker,
and a chunk list with a chunk that starts ON the empty member, an empty chunk and a reversed pair -/
example :
    let L : Layout Nat := [⟨35, [1,2,3,4,5,6,7]⟩, ⟨28, []⟩, ⟨31, [8,9,10,11]⟩, ⟨28, []⟩]
    let chunks : List Chunk := [⟨(35, 0), (63, 2)⟩, ⟨(0, 3), (0, 3)⟩, ⟨(63, 1), (94, 0)⟩, ⟨(0, 0), (35, 0)⟩]
    (∀ c ∈ chunks, EndOk L c.e) ∧ StartsValid L chunks ∧
    (runA L 2 AR.init ⟨⟨[.pending, .ready 3, .pending], [false, true, false]⟩, [false, true, false]⟩
        chunks [2, 100, 100, 100, 100, 100]).1 =
      [.bytes [8, 9, 10, 11], .bytes [9, 10, 11], .bytes [1, 2, 3, 4, 5, 6, 7], .bytes [],
       .bytes [], .bytes []] := by
  refine ⟨?_, ?_, by decide⟩
  · intro c hc k b hb h0
    match k with
    | 0 => simp at hb; subst hb; simp at h0
    | 1 =>
      simp at hc
      rcases hc with rfl | rfl | rfl | rfl <;> decide
    | 2 => simp at hb; subst hb; simp at h0
    | 3 =>
      simp at hc
      rcases hc with rfl | rfl | rfl | rfl <;> decide
    | k + 4 => simp at hb
  · intro c hc k b hm hb h0
    simp at hc
    rcases hc with rfl | rfl | rfl | rfl
    · rfl
    · have : memberAt ([⟨35, [1,2,3,4,5,6,7]⟩, ⟨28, []⟩, ⟨31, [8,9,10,11]⟩, ⟨28, []⟩] : Layout Nat) 0 = some 0 := by decide
      rw [this] at hm; cases hm; simp at hb; subst hb; simp at h0
    · have : memberAt ([⟨35, [1,2,3,4,5,6,7]⟩, ⟨28, []⟩, ⟨31, [8,9,10,11]⟩, ⟨28, []⟩] : Layout Nat) 63 = some 2 := by decide
      rw [this] at hm; cases hm; simp at hb; subst hb; simp at h0
    · rfl

/-- **The full-strength statement (no `EndOk`) is FALSE for the code as it is** — the result of the
async query reader depends on the poll schedule when a chunk ends exactly at the end of an empty
member.  Members "1..7", "" (an EOF marker mid-file, as in concatenated BGZF files), "8..11", "";
chunk `[(0,0), (63,0))`, 63 = start of the third member.  If the source answers `Pending` right
after having delivered the empty member, `poll_fill_buf` of the BGZF reader has already installed
that member (`virtual_position()` moved from (35,0) to (63,0)); the query reader tests the chunk end
again at the next poll and stops: 7 bytes.  Without that `Pending` (and in the sync reader) the
third member is handed out too: 11 bytes.  Replayed on the real code by the harness
(`c16 query` corpus case `end-after-empty`). -/
theorem async_query_end_after_empty_member_schedule_dependent :
    let L : Layout Nat := [⟨35, [1,2,3,4,5,6,7]⟩, ⟨28, []⟩, ⟨31, [8,9,10,11]⟩, ⟨28, []⟩]
    let chunks : List Chunk := [⟨(0, 0), (63, 0)⟩]
    (runA L 1 AR.init ⟨⟨[.ready 35, .ready 28, .pending], []⟩, []⟩ chunks [100, 100, 100]).1 =
      [.bytes [1,2,3,4,5,6,7], .bytes [], .bytes []] ∧
    (runA L 1 AR.init ⟨⟨[], []⟩, []⟩ chunks [100, 100, 100]).1 =
      [.bytes [1,2,3,4,5,6,7], .bytes [8,9,10,11], .bytes []] ∧
    (Noodles.Csi.QueryIo.runS L R.init chunks [100, 100, 100]).1 =
      [.bytes [1,2,3,4,5,6,7], .bytes [8,9,10,11], .bytes []] ∧
    ¬ EndOk L (63, 0) := by
  refine ⟨by decide, by decide, by decide +kernel, ?_⟩
  intro h
  have := h 1 ⟨28, []⟩ rfl rfl
  revert this
  decide

/-- **A second query on a used reader = the query on a fresh reader** (the `poll_seek` repeat defect
fixed in 59e158a — a finished seek left `SeekState::Done(pos)` behind and a later seek to the same
position was skipped — is impossible in the model: `pollSeek` ends in `init` and its result does
not depend on where the reader was).  For every two reader states that are not in the middle of a
seek (any history before: reads, seeks, a completed or failed earlier query), every two scripts and
every non-empty chunk list the delivered results are the same. -/
theorem async_query_same_on_used_reader (L : Layout α) (w : Nat) (hw : 1 ≤ w) (a1 a2 : AR α)
    (hi1 : Inv L a1.r) (hp1 : PInv L a1.r.next a1.p) (hi2 : Inv L a2.r) (hp2 : PInv L a2.r.next a2.p)
    (chunks : List Chunk) (hne : chunks ≠ []) (hce : ∀ c ∈ chunks, EndOk L c.e) (ns : List Nat)
    (qs1 qs2 : QSched) :
    (runA L w a1 qs1 chunks ns).1 = (runA L w a2 qs2 chunks ns).1 := by
  rw [(runA_eq_seq L w hw a1 hi1 hp1 chunks hce ns qs1).1,
    (runA_eq_seq L w hw a2 hi2 hp2 chunks hce ns qs2).1]
  exact runSeq_fresh L a1.r a2.r chunks hne ns

/-- The hypothesis "not in the middle of a seek" cannot be dropped for the code as it is:
`poll_seek` keeps its progress in the READER (`seek_state`), not in the query.  A query whose
`fill_buf()` future is dropped while its seek is `Pending` (a timeout, `select!`) leaves
`SeekState::Finish(stream)` behind; the next query's first `poll_seek(pos')` resumes THAT seek and
labels the block found at the old position with the new one.  Here: first query towards (35,0) is
polled once (`Pending` in `Finish`) and dropped; the second query for `[(0,0),(35,0))` then delivers
the bytes of the member at 35 instead of those at 0. -/
theorem async_query_after_cancelled_seek_differs :
    let L : Layout Nat := [⟨35, [1,2,3,4,5,6,7]⟩, ⟨31, [8,9,10,11]⟩, ⟨28, []⟩]
    let x := (abandon L 1 1 (AQ.new ⟨AR.init, .init⟩ [⟨(35, 0), (66, 0)⟩]) ⟨⟨[.pending], []⟩, []⟩).1
    x.ss = .finish (some 1) ∧
    (runAQ L 1 (AQ.new x [⟨(0, 0), (35, 0)⟩]) ⟨⟨[], []⟩, []⟩ [100]).1 = [.bytes [8, 9, 10, 11]] ∧
    (runA L 1 AR.init ⟨⟨[], []⟩, []⟩ [⟨(0, 0), (35, 0)⟩] [100]).1 = [.bytes [1,2,3,4,5,6,7]] := by
  decide

/-! ## the per-format filters

BAM (`noodles-bam/src/async/io/reader/query.rs`) and VCF (`noodles-vcf/src/async/io/reader/query.rs`)
import the sync module's `intersects` (`crate::io::reader::query::intersects`): the async and the
sync filter are the same function, and the loops around it (`next_record` / the `loop` in the async
`read_record`) are the same loop, so there is nothing to prove beyond the byte stream.  BCF has two
functions: see `Noodles/Bcf/QueryFilter.lean`. -/

open Noodles.Bcf.QueryFilter in
/-- **BCF: the async filter refines the sync filter.**  Whenever the sync `intersects` returns
`Ok(b)`, the async one (after 655489f) returns `Ok(b)`: for every record (any CHROM index, missing
or failing POS, failing end), every contig string map that satisfies the `StringMap` invariant,
every region (unbounded, half-bounded, bounded). -/
theorem bcf_async_filter_refines_sync (m : ContigMap) (hm : m.Lawful) (rec : Rec) (rid : Nat)
    (iv : Interval) (b : Bool) (h : intersectsSync m rec rid iv = .ok b) :
    intersectsAsync rec rid iv = .ok b :=
  intersects_refines m hm rec rid iv b h

open Noodles.Bcf.QueryFilter in
/-- The converse fails, and so does equality of errors: a record whose CHROM index has no entry in
the header's contig map makes the sync filter fail (`InvalidData`) before it looks at the region;
the async filter compares the raw index and skips the record. -/
theorem bcf_filter_not_equal :
    let m : ContigMap := ⟨[some 0], [(0, 0)]⟩
    intersectsSync m ⟨5, .ok (some 10), .ok 10⟩ 0 ⟨none, none⟩ = .error .invalidData ∧
    intersectsAsync ⟨5, .ok (some 10), .ok 10⟩ 0 ⟨none, none⟩ = .ok false ∧ m.Lawful := by
  refine ⟨rfl, rfl, ?_⟩
  intro i n h
  match i with
  | 0 => simp [ContigMap.nameAt] at h; subst h; rfl
  | i + 1 => simp [ContigMap.nameAt] at h

end Noodles.Props.C16
