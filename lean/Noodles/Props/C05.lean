import Noodles.Props.C05Fast
import Noodles.Props.C05Reenc
import Noodles.Bam.Record
import Noodles.Bam.RecordSpec
import Noodles.Bam.RecordProof
import Noodles.Bam.LazyProof
/-!
# C05 — BAM record encode/decode are inverse; lazy field views agree with eager decode

Model: `Noodles/Bam/Record.lean` (`encode` = `record/codec/encoder.rs`, `decode` =
`record/codec/decoder.rs` incl. `cigar::resolve`, `validate` = `io/reader/record.rs`, `lazy*` =
`record_ref.rs` + `record/*.rs`, `writeRecord` = `io/writer.rs::write_alignment_record`).
Vocabulary: `Noodles/Bam/RecordSpec.lean` (`WF` = invariants of the Rust types of `RecordBuf`,
`Fits` = the writer's acceptance condition, `norm` = case folding / `N` mapping of bases and the
dropped `CG` field). Helper lemmas: `Noodles/Bam/RecordProof.lean`, `Noodles/Bam/LazyProof.lean`.

All quantifiers are unbounded: any number of CIGAR ops (so both sides of the 65535 limit), any
sequence length, any list of typed aux fields.

The lazy `data()` view is modelled AS FIXED by the proposed commit "fix: bam lazy record data
exposed the overflowing CIGAR (CG) field": when `cigar()` takes the CIGAR from `CG`, that field is
skipped. For the unfixed code (finding F28) `lazy_data_eq_eager` is false — counterexample: any
record with more than 65535 CIGAR ops written by the BAM writer; the lazy `data()` then still
lists `CG:B,I,…`, the eager decode does not.
-/
namespace Noodles.Props.C05
open Noodles.Bam Noodles.Codec

/-! ## every accepted record is read back equal -/

/-- Whatever the writer accepts is read back (through `validate` and the eager decoder) as
`norm r`: name, flags, ids, positions, MAPQ, CIGAR, template length, qualities and every typed aux
field unchanged, bases folded to `=ACMGRSVTWYHKDBN` — for any number of CIGAR ops. -/
theorem bam_roundtrip (nref : Nat) (r : Rec) (b : Bytes) (hw : WF r) (h : encode nref r = .ok b) :
    readRecordBuf b = .ok (norm r) := by
  obtain ⟨b', he, hd⟩ := roundtrip_main nref r hw (fits_of_encode_ok nref r b h)
  rw [h] at he
  cases he
  simp only [readRecordBuf, validate_of_decode b (norm r) hd, hd]

/-- …and `norm` keeps the CIGAR, so in particular CIGARs with more than 65535 ops come back. -/
theorem norm_keeps (r : Rec) :
    (norm r).name = r.name ∧ (norm r).flags = r.flags ∧ (norm r).refId = r.refId ∧
    (norm r).pos = r.pos ∧ (norm r).mapq = r.mapq ∧ (norm r).cigar = r.cigar ∧
    (norm r).mateRefId = r.mateRefId ∧ (norm r).matePos = r.matePos ∧ (norm r).tlen = r.tlen ∧
    (norm r).qual = r.qual ∧ (norm r).seq = r.seq.map normBase ∧
    (norm r).data = r.data.filter (fun f => f.1 != CG) := by
  simp [norm]

/-- The `CG` convention: with more than 65535 ops the record carries `n_cigar_op = 2`, the CIGAR
slot is the placeholder `kSmN` with `k = l_seq` (also for SEQ `*`, `k = 0`) and `m` the reference
span, the real ops travel in a trailing `CG:B,I` field, and decoding resolves them. -/
theorem bam_cg_roundtrip (nref : Nat) (r : Rec) (b : Bytes) (hw : WF r) (h : encode nref r = .ok b)
    (hlong : 65535 < r.cigar.length) :
    ∃ r0, decodeRaw b = .ok (r0, []) ∧
      r0.cigar = [⟨4, r.seq.length⟩, ⟨3, span r.cigar⟩] ∧
      r0.data = r.data.filter (fun f => f.1 != CG) ++ [(CG, .arr .I (cgInts r.cigar))] ∧
      resolve r0 = .ok (norm r) ∧ (norm r).cigar = r.cigar := by
  obtain ⟨b', he, hd⟩ := roundtrip_raw nref r hw (fits_of_encode_ok nref r b h)
  rw [h] at he
  cases he
  have hn : ¬ r.cigar.length ≤ 65535 := by omega
  refine ⟨rawOf r, hd, ?_, ?_, resolve_rawOf r hw, rfl⟩
  · simp [rawOf, cigarSlot, hn]
  · simp [rawOf, cigarSlot, hn, keep]

/-- non-vacuity: a concrete record is well-formed and accepted -/
example : WF ⟨some [114, 48], 65, some 1, some 9, some 13, [⟨0, 3⟩, ⟨4, 1⟩], some 1, some 22, 144,
    [65, 67, 71, 84], [45, 35, 43, 50], [((78, 72), .num .C 1)]⟩ :=
  ⟨by decide, by decide, by decide, by decide, by decide, by decide,
   by intro f hf; simp only [List.mem_singleton] at hf; subst hf; show NumTy.inRange .C 1; decide,
   by decide⟩

example : (encode 2 ⟨some [114, 48], 65, some 1, some 9, some 13, [⟨0, 3⟩, ⟨4, 1⟩], some 1, some 22, 144,
    [65, 67, 71, 84], [45, 35, 43, 50], [((78, 72), .num .C 1)]⟩).toOption.isSome = true := by decide

/-! ## what does not fit is rejected, never truncated or wrapped -/

/-- The writer accepts exactly the records that fit. -/
theorem bam_accepts_iff_fits (nref : Nat) (r : Rec) (hw : WF r) :
    (∃ b, encode nref r = .ok b) ↔ Fits nref r :=
  ⟨fun ⟨b, h⟩ => fits_of_encode_ok nref r b h,
   fun hf => let ⟨b, he, _⟩ := roundtrip_main nref r hw hf; ⟨b, he⟩⟩

theorem bam_rejects (nref : Nat) (r : Rec) (h : ¬ Fits nref r) : ∃ e, encode nref r = .error e := by
  cases he : encode nref r with
  | error e => exact ⟨e, rfl⟩
  | ok b => exact absurd (fits_of_encode_ok nref r b he) h

/-- name: `l_read_name` is one byte including the NUL -/
theorem bam_rejects_name_length (nref : Nat) (r : Rec) (s : Bytes) (hn : r.name = some s)
    (hl : 255 ≤ s.length) : ∃ e, encode nref r = .error e :=
  bam_rejects nref r fun hf => by
    have := hf.nameLen; rw [hn] at this
    have : s.length + 1 ≤ 255 := this
    omega

/-- reference ids: must be in the dictionary and fit `i32` -/
theorem bam_rejects_reference_id (nref : Nat) (r : Rec) (id : Nat)
    (hn : r.refId = some id ∨ r.mateRefId = some id) (hl : nref ≤ id ∨ 2147483647 < id) :
    ∃ e, encode nref r = .error e :=
  bam_rejects nref r fun hf => by
    rcases hn with hn | hn
    · have := hf.refId; rw [hn] at this
      have : id < nref ∧ id ≤ 2147483647 := this
      omega
    · have := hf.mateRefId; rw [hn] at this
      have : id < nref ∧ id ≤ 2147483647 := this
      omega

/-- positions: `POS - 1` and `PNEXT - 1` must fit `i32` -/
theorem bam_rejects_position (nref : Nat) (r : Rec) (p : Nat)
    (hn : r.pos = some p ∨ r.matePos = some p) (hl : 2147483648 < p) :
    ∃ e, encode nref r = .error e :=
  bam_rejects nref r fun hf => by
    rcases hn with hn | hn
    · have := hf.pos; rw [hn] at this
      have : p - 1 ≤ 2147483647 := this
      omega
    · have := hf.matePos; rw [hn] at this
      have : p - 1 ≤ 2147483647 := this
      omega

/-- CIGAR op lengths are 28 bits, in the CIGAR slot and in the `CG` field alike -/
theorem bam_rejects_op_length (nref : Nat) (r : Rec) (o : Op) (ho : o ∈ r.cigar)
    (hl : 268435455 < o.len) : ∃ e, encode nref r = .error e :=
  bam_rejects nref r fun hf => by
    by_cases hc : r.cigar.length ≤ 65535
    · have := hf.slot
      simp only [cigarSlot, hc, if_true] at this
      have := this o ho
      omega
    · have := (hf.cg (by omega)).2 o ho
      omega

/-- the `kSmN` placeholder: `l_seq` and the reference span must fit 28 bits -/
theorem bam_rejects_placeholder (nref : Nat) (r : Rec) (hlong : 65535 < r.cigar.length)
    (hl : 268435455 < r.seq.length ∨ 268435455 < span r.cigar) : ∃ e, encode nref r = .error e :=
  bam_rejects nref r fun hf => by
    have hn : ¬ r.cigar.length ≤ 65535 := by omega
    have := hf.slot
    simp only [cigarSlot, hn, if_false] at this
    have h1 := this ⟨4, r.seq.length⟩ (by simp)
    have h2 := this ⟨3, span r.cigar⟩ (by simp)
    simp only at h1 h2
    omega

/-- `l_seq` is 32 bits; array counts are 32 bits -/
theorem bam_rejects_counts (nref : Nat) (r : Rec)
    (hl : 4294967295 < r.seq.length ∨
      (∃ t ty vs, (t, Val.arr ty vs) ∈ r.data ∧ t ≠ CG ∧ 4294967295 < vs.length)) :
    ∃ e, encode nref r = .error e :=
  bam_rejects nref r fun hf => by
    rcases hl with hl | ⟨t, ty, vs, hm, hne, hl⟩
    · have := hf.lSeq; omega
    · have := hf.data (t, .arr ty vs) hm hne
      have : vs.length ≤ 4294967295 := this
      omega

/-- sequence / quality lengths must agree with each other and with the CIGAR; quality scores above
93 (so also the `0xff` filler) are rejected -/
theorem bam_rejects_lengths (nref : Nat) (r : Rec)
    (hl : (r.seq ≠ [] ∧ 0 < readLen r.cigar ∧ r.seq.length ≠ readLen r.cigar) ∨
      (r.qual ≠ [] ∧ r.qual.length ≠ r.seq.length) ∨ (∃ q ∈ r.qual, 93 < q.toNat)) :
    ∃ e, encode nref r = .error e :=
  bam_rejects nref r fun hf => by
    rcases hl with ⟨h1, h2, h3⟩ | ⟨h1, h2⟩ | ⟨q, hq, h1⟩
    · rcases hf.seq with h | h
      · exact h1 h
      · exact h ⟨h2, h3⟩
    · rcases hf.qual with ⟨h, _⟩ | ⟨_, h⟩
      · exact h2 h
      · exact h1 h
    · rcases hf.qual with ⟨_, h⟩ | ⟨_, h⟩
      · have := h q hq; omega
      · rw [h] at hq; simp at hq

/-- a rejected record does not disturb the writer: the stream written through ONE writer is the
concatenation of the blocks of the accepted records, each as a fresh writer would produce it
(`write_alignment_record` clears its scratch buffer first) -/
theorem writer_scratch_clean (nref : Nat) (sink : Bytes) (rs : List Rec) :
    writeAll nref sink rs = sink ++ (rs.map (frameOf nref)).flatten := by
  induction rs generalizing sink with
  | nil => simp [writeAll]
  | cons r rs ih =>
    simp only [writeAll, List.map_cons, List.flatten_cons, frameOf, writeRecord]
    cases he : encode nref r with
    | error e => simp [ih]
    | ok body =>
      simp only
      by_cases hl : body.length ≤ 4294967295
      · simp [hl, ih]
      · simp [hl, ih]

/-! ## the stored bin -/

/-- For a record with a position whose alignment end is at most 2^29, bytes 10..12 of the written
record are the spec's `reg2bin` (the function proved sound for C17) of the 0-based span;
without a position it is 4680 = `reg2bin(-1, 0)`. -/
theorem bam_bin_is_reg2bin (nref : Nat) (r : Rec) (b : Bytes) (h : encode nref r = .ok b) :
    (∀ s e, r.pos = some s → alignmentEnd r.pos r.cigar = some e → e ≤ 2 ^ 29 →
      headU b 10 2 = Noodles.Csi.reg2bin (s - 1) (e - 1) 14 5) ∧
    (r.pos = none → headU b 10 2 = 4680) := by
  obtain ⟨hb, _⟩ := encode_bin_field nref r b h
  rw [Nat.mod_eq_of_lt (binOf_lt _ _)] at hb
  refine ⟨fun s e hs he hle => ?_, fun hn => ?_⟩
  · rw [hb]
    simp only [binOf, hs] at he ⊢
    rw [he]
    exact regionToBin_eq s e (by simpa using hle)
  · rw [hb]; simp [binOf, hn]

/-- …and the alignment end is `POS + reference span - 1` (or `POS` for an empty span). -/
theorem alignmentEnd_eq (s : Nat) (cigar : List Op) :
    alignmentEnd (some s) cigar = some (if span cigar = 0 then s else s + span cigar - 1) := by
  by_cases h : span cigar = 0 <;> simp [alignmentEnd, h]

example : headU [1, 0, 0, 0, 8, 0, 0, 0, 3, 13, 0x49, 0x12] 10 2 = Noodles.Csi.reg2bin 8 11 14 5 := by decide

/-! ## lazy = eager -/

/-- For ANY bytes that the eager decoder accepts (they then also pass `validate`), every lazy
accessor returns the eagerly decoded value: the nine fixed-size fields, the name, the CIGAR (also
when it comes from the `CG` field), the bases and the quality scores. -/
theorem lazy_eq_eager (b : Bytes) (r : Rec) (h : decode b = .ok r) :
    validate b = .ok () ∧
    lazyName b = .ok r.name ∧ lazyFlags b = r.flags ∧ lazyRefId b = .ok r.refId ∧
    lazyPos b = .ok r.pos ∧ lazyMapq b = r.mapq ∧ lazyCigar b = .ok r.cigar ∧
    lazyMateRefId b = .ok r.mateRefId ∧ lazyMatePos b = .ok r.matePos ∧ lazyTlen b = r.tlen ∧
    lazySeq b = .ok r.seq ∧ lazyQual b = .ok r.qual := by
  obtain ⟨r0, hp, hr⟩ := decode_inv b r h
  obtain ⟨e1, e2, e3, e4, e5, e6, e7, e8, e9, e10⟩ := resolve_fields r0 r hr
  refine ⟨validate_of_decode b r h, ?_, ?_, ?_, ?_, ?_, (lazyCigar_and_data b r0 r hp hr).1, ?_, ?_, ?_, ?_, ?_⟩
  · rw [e1]; exact lazyName_eq b r0 hp
  · rw [e2]; exact hp.flags.symm
  · rw [e3]; exact hp.refId
  · rw [e4]; exact hp.pos
  · rw [e5]; exact hp.mapq.symm
  · rw [e6]; exact hp.mateRefId
  · rw [e7]; exact hp.matePos
  · rw [e8]; exact hp.tlen.symm
  · rw [e9]; exact lazySeq_eq b r0 hp
  · rw [e10]; exact lazyQual_eq b r0 hp

/-- The lazy data view (as fixed): every field decodes (`false` = the iterator reported no error)
and the fields are the eager ones — the same list, in the same order, except in one situation:
the CIGAR was taken from a `CG` field that is NOT the last field (hand-made bytes; every writer
puts `CG` last). Then the lazy view lists the remaining fields in file order while the eager
decoder's `swap_remove` has moved the last field into `CG`'s place: a permutation of each other. -/
theorem lazy_data_eq_eager (b : Bytes) (r : Rec) (h : decode b = .ok r) :
    ∃ fs, lazyData b = .ok (fs, false) ∧ fs.Perm r.data ∧
      (fs = r.data ∨
        ∃ r0 rest i, decodeRaw b = .ok (r0, rest) ∧
          r0.data.findIdx? (fun f => f.1 == CG) = some i ∧ i + 1 < r0.data.length) := by
  unfold decode at h
  cases hd : decodeRaw b with
  | error e => simp [hd] at h
  | ok p =>
    obtain ⟨r0, rest⟩ := p
    simp only [hd] at h
    have hp := decodeRaw_inv b r0 rest hd
    obtain ⟨fs, h1, h2, h3⟩ := lazy_data_perm b r0 r hp h
    refine ⟨fs, h1, h2, ?_⟩
    rcases h3 with h3 | ⟨i, hi, hl⟩
    · exact Or.inl h3
    · exact Or.inr ⟨r0, rest, i, rfl, hi, hl⟩

/-- On what the writer produces, all twelve lazy accessors agree with the eager decode exactly
(the `CG` field is last there), for every accepted record incl. the more-than-65535-op path. -/
theorem lazy_eq_eager_written (nref : Nat) (r : Rec) (b : Bytes) (hw : WF r)
    (h : encode nref r = .ok b) :
    decode b = .ok (norm r) ∧ lazyCigar b = .ok (norm r).cigar ∧
      lazyData b = .ok ((norm r).data, false) := by
  obtain ⟨b', he, hd⟩ := roundtrip_raw nref r hw (fits_of_encode_ok nref r b h)
  rw [h] at he
  cases he
  have hr := resolve_rawOf r hw
  have hdec : decode b = .ok (norm r) := by simp only [decode, hd, hr]
  have hp := decodeRaw_inv b (rawOf r) [] hd
  obtain ⟨hc, hdata⟩ := lazyCigar_and_data b (rawOf r) (norm r) hp hr
  refine ⟨hdec, hc, ?_⟩
  rcases hdata with ⟨_, h2⟩ | ⟨_, h2, _⟩
  · exact h2
  · rw [h2]
    have : (rawOf r).data.filter (fun f => f.1 != CG) = (norm r).data := by
      simp only [rawOf, List.filter_append]
      have h1 : (keep r.data).filter (fun f => f.1 != CG) = keep r.data := by
        simp [keep, List.filter_filter]
      rw [h1]
      split <;> simp [norm, keep, CG]
    rw [this]

/-- After `validate`, no lazy accessor panics: none indexes outside the buffer, and `Cigar::iter`
never reaches its `unreachable!()` — the bytes it iterates are the `4 * n_cigar_op` bytes of the
CIGAR slot or the payload of a `CG:B:I` array. (Before the fix "bam record cigar panicked on a CG
tag that is not a u32 array" a `CG` array of ANY subtype was taken as the CIGAR, and one whose byte
length is not a multiple of four panicked; `get_raw_cigar` now walks over such a field.) -/
theorem lazy_in_bounds (b : Bytes) (h : validate b = .ok ()) :
    lazyName b ≠ .panic ∧ lazySeq b ≠ .panic ∧ lazyQual b ≠ .panic ∧ lazyRawData b ≠ .panic ∧
    lazyCigarBytes b ≠ .panic ∧ lazyData b ≠ .panic ∧ lazyCigar b ≠ .panic :=
  lazy_in_bounds_of_len b (validate_inv b h)

/-- The input that panicked before the fix: the placeholder `0S7N` (`l_seq = 0`) and the data
`CG:B:C,16,32,48` — a `CG` array of three BYTES. -/
def cgByteArray : Bytes :=
  [255, 255, 255, 255, 255, 255, 255, 255, 2, 255, 72, 18, 2, 0, 4, 0,
   0, 0, 0, 0, 255, 255, 255, 255, 255, 255, 255, 255, 0, 0, 0, 0,
   42, 0, 4, 0, 0, 0, 115, 0, 0, 0,
   67, 71, 66, 67, 3, 0, 0, 0, 16, 32, 48]

/-- …now the `CG:B:C` field is not the CIGAR: `cigar()` is the placeholder stored in the record and
`data()` still lists the field (checked against the real code: `SoftClip:0, Skip:7` / `CG=[16,32,48]`).
The eager decoder rejects the record (`InvalidDataType`), as before. -/
example : lazyCigarBytes cgByteArray = .ok ([4, 0, 0, 0, 115, 0, 0, 0], false) ∧
    lazyCigar cgByteArray = .ok [⟨4, 0⟩, ⟨3, 7⟩] ∧
    lazyData cgByteArray = .ok ([(CG, .arr .C [16, 32, 48])], false) := by decide

example : validate cgByteArray = .ok () := by rfl
example : decode cgByteArray = .error .invalid := by rfl

/-- `get_raw_cigar` goes on scanning after a `CG` field of another type: with `CG:B:I,[3M]` appended,
`cigar()` is `3M`, and the data view (which skips EVERY `CG` field once the CIGAR was taken from one)
is empty (checked against the real code). The eager decoder rejects the duplicate tag. -/
example : lazyCigar (cgByteArray ++ [67, 71, 66, 73, 1, 0, 0, 0, 48, 0, 0, 0]) = .ok [⟨0, 3⟩] ∧
    lazyData (cgByteArray ++ [67, 71, 66, 73, 1, 0, 0, 0, 48, 0, 0, 0]) = .ok ([], false) := by decide

example : decode (cgByteArray ++ [67, 71, 66, 73, 1, 0, 0, 0, 48, 0, 0, 0]) = .error .invalid := by rfl

end Noodles.Props.C05
