import Noodles.Cram.SamSpec
import Noodles.Cram.SamConvProof
import Noodles.Cram.SamValidateProof
import Noodles.Cram.SamSpanProof
import Noodles.Cram.SamNamesProof
import Noodles.Cram.CompressionHeader
/-!
# C07 (extension) — one theorem SAM record → CRAM record → slice streams → CRAM record → SAM record

Model: `Noodles/Cram/SamConv.lean` (`toCram` = `Record::try_from_alignment_record`, `encodeSlice` =
`build_slice` up to the uncompressed streams, `decodeSlice` = `Slice::records` followed by the
`sam::alignment::Record` accessors of `cram::Record`). Specification-side notions (`SamWF`, `SliceWF`,
`Back`, `ValidationAccepts`): `Noodles/Cram/SamSpec.lean`. Helper lemmas: `Noodles/Cram/SamConvProof.lean`.

The theorem composes the C07 cores: `record_series_roundtrip` (with `refctx_covers`,
`features_pass_validation`) for the series, `mates_roundtrip` for the mate links (its proof, restated
for records whose names were not stored), `features_rebuild` for bases and CIGAR, `quals_roundtrip`
for the quality array. Block compression (C08), the bytes of headers and containers (C07 core 3) and
the typed view of tag values (C05) are outside it.
-/
namespace Noodles.Props.C07
open Noodles.Cram Noodles.Cram.Enc Noodles.Cram.Sam

/-- **SAM → CRAM → SAM, one slice.** For every reference repository, every compression header — any
assignment of encodings and content ids the writer can encode with, names preserved or not, absolute
or delta positions —, every valid substitution matrix and every slice-worth of SAM records satisfying
`SamSliceWF` (each record `SamWF`: CIGAR consistent with the bases, alignment inside its reference, flags
consistent with the presence of reference / position / CIGAR / MAPQ, byte arrays that fit their
encodings; mate information consistent in the sense of SAM §1.4.9 for the mapped primary pairs of the
slice — everything else arbitrary): if the writer's `build_slice` produces streams
(`encodeSlice = ok`; it does exactly for the encodings noodles can encode), then `Slice::records`
(including its range validation, `reader_validation_accepts`) + the SAM accessors return, under every
record counter, exactly as many records, and record `p` comes `Back` field for field:

* flags, reference id, position, MAPQ, read group, tags: unchanged;
* CIGAR: in the normal form `normCigar` (`=`/`X` read back as `M`, adjacent operations merged) — the
  witness below shows the CIGAR itself is not preserved;
* bases: equal up to ASCII case for a mapped record (reference-matching bases are not stored, a
  lower-case base that matches comes back in the reference's case), exactly equal for an unmapped one —
  IUPAC codes, `N` and any other byte included;
* qualities: unchanged, missing qualities stay missing;
* mate reference, mate position, TLEN: unchanged — stored verbatim for detached records, recomputed
  from the downstream mate for the first record of a pair and from the pair for the second;
* name: `expectedName` — with preserved names the record's own name (a missing name stays missing);
  without, both records of a linked pair (`Mates.md`: two mapped primary segments of one name) get the
  decimal record number (slice record counter + index) of the pair's first record, every other record
  keeps its name, and a missing name becomes the record's own record number. -/
theorem sam_slice_roundtrip (ch : CH) (refs : Refs) (m : Matrix) (hm : m.OK) (rs : List SamRec)
    (hwf : SamSliceWF refs ch m rs) (ctx : RefCtx) (core : List Nat) (ext : Int → Option (List Nat))
    (henc : encodeSlice ch refs m rs = .ok (ctx, core, ext)) (counter : Nat) :
    ∃ out, decodeSlice ch refs m ctx rs.length counter core (blocksOf ext) = .ok out ∧ out.length = rs.length ∧
      ∀ (p : Nat) (r : SamRec), rs[p]? = some r →
        ∃ r', out[p]? = some r' ∧
          Back (expectedName ch.recordsHaveNames counter (rs.map samView) p r.name) r r' := by
  have hv : rs.map (mateView refs m) = rs.map samView :=
    List.map_congr_left fun r hr => mateView_eq_samView refs ch m r (hwf.recs r hr)
  have := slice_roundtrip' ch refs m hm rs (sliceWF_of_sam refs ch m rs hwf) ctx core ext henc
    (validation_accepts ch refs m rs ctx core ext hwf.recs henc) counter
  rw [hv] at this
  exact this

/-- **The reader's range validation accepts what the writer produces.** `Record::validate_sequence`
(`record/sequence/iter.rs::validate`: every reference stretch between features and the reference base
of every substitution lie inside the reference, the features end inside the read) returns `Ok` for
every record of a `SamWF` slice the writer produced streams for. -/
theorem reader_validation_accepts (ch : CH) (refs : Refs) (m : Matrix) (rs : List SamRec)
    (hwf : ∀ r ∈ rs, SamWF refs ch m r) (ctx : RefCtx) (core : List Nat) (ext : Int → Option (List Nat))
    (henc : encodeSlice ch refs m rs = .ok (ctx, core, ext)) : ValidationAccepts ch refs m ctx rs :=
  validation_accepts ch refs m rs ctx core ext hwf henc

/-- per record: the validator accepts `cigar_to_features`' output for a read inside its reference -/
theorem features_pass_sequence_validation (ref : List Nat) (start : Nat) (c : Cigar) (seq quals : List Nat)
    (m : Matrix) (h : ConsistentRead ref start c seq) :
    validateSeqGo (some ref) seq.length (start - 1) 0 (features ref start c seq quals m) = .ok () :=
  validateSeq_features ref start c seq quals m h

/-- **`calculate_alignment_span` of the writer's features is the CIGAR's reference length** (the
`span` the TLEN rule of `MateOK` is stated with is the SAM record's own) -/
theorem alignment_span_is_reflen (ref : List Nat) (start : Nat) (c : Cigar) (seq quals : List Nat) (m : Matrix)
    (h : readLen c = seq.length) : alignmentSpan seq.length (features ref start c seq quals m) = some (refLen c) :=
  span_features ref start c seq quals m h

/-- the features `cigar_to_features` builds are sorted by read position (what `write_feature`'s
`position - prev_position` needs; used for `WF.sorted`) -/
theorem features_sorted (ref : List Nat) (start : Nat) (c : Cigar) (seq quals : List Nat) (m : Matrix) :
    featuresSorted 0 (features ref start c seq quals m) :=
  sorted_features ref start c seq quals m

/-- **The names `resolve_mates_with` leaves**, on the reader's side, for every slice whose links form
disjoint forward pairs (`PairLinks`; any stored names, any record counter, generating or not): the
second record of a pair without a stored name takes the first's name — generated first, if asked to
and missing —, every other record keeps its stored name or, if asked to and missing, gets its own
record number (`specName`). -/
theorem names_rule (gen : Bool) (counter : Nat) (stored : List (Option (List Nat))) (mi : List (Option Nat))
    (h : Mates.PairLinks mi stored.length) (p : Nat) (hp : p < stored.length) :
    (namesGo gen counter (List.range stored.length) stored mi).getD p none = specName gen counter stored mi p :=
  namesGo_spec gen counter stored mi h p hp

/-- when every record has a name, `resolve_mates` generates and copies none -/
theorem names_untouched (gen : Bool) (counter : Nat) (todo : List Nat) (ns : List (Option (List Nat)))
    (mi : List (Option Nat)) (h : ∀ n ∈ ns, n.isSome = true) : namesGo gen counter todo ns mi = ns :=
  namesGo_of_some gen counter todo ns mi h

/-! ### non-vacuity: a pair, an unmapped read, and a read with soft clip / `=` / `X` / insertion / deletion -/

/-- the default substitution matrix (`READ_BASES`) -/
def exM : Matrix := fun r c => match r, c with
    | .A, 0 => .C | .A, 1 => .G | .A, 2 => .T | .A, _ => .N
    | .C, 0 => .A | .C, 1 => .G | .C, 2 => .T | .C, _ => .N
    | .G, 0 => .A | .G, 1 => .C | .G, 2 => .T | .G, _ => .N
    | .T, 0 => .A | .T, 1 => .C | .T, 2 => .G | .T, _ => .N
    | .N, 0 => .A | .N, 1 => .C | .N, 2 => .G | .N, _ => .T

theorem exM_ok : exM.OK := by
  intro r b h
  cases r <;> cases b <;> first | exact absurd rfl h | exact ⟨0, by decide, rfl⟩ | exact ⟨1, by decide, rfl⟩ | exact ⟨2, by decide, rfl⟩ | exact ⟨3, by decide, rfl⟩

/-- one reference, `ACGT` × 4 -/
def exRefs : Refs := fun i => if i = 0 then some [65,67,71,84,65,67,71,84,65,67,71,84,65,67,71,84] else none

/-- the writer's default encodings, two tag sets (none, `NH:C`) -/
def exCH (pn : Bool) : CH :=
  { recordsHaveNames := pn, apDelta := true, tagSets := [[], [⟨78, 72, 67⟩]], dse := DSE.init,
    tagEnc := fun id => if id = 5130307 then some (.len (.external 5130307) (.external 5130307)) else none }

def ex0 : SamRec :=
  { name := some [97], flags := 99, rid := some 0, pos := some 2, mapq := some 30, cigar := [⟨.M, 4⟩],
    mrid := some 0, mpos := some 9, tlen := 10, seq := [67,71,84,65], quals := [30,31,32,33] }
def ex1 : SamRec := { name := some [98], flags := 4, seq := [65, 67] }
/-- `1S1=1X1I1M2D1M`, with a mismatch (`C` for `T`), an inserted `N`, a lower-case matching `a`, and a tag -/
def ex2 : SamRec :=
  { name := some [99], flags := 0, rid := some 0, pos := some 3, mapq := some 20,
    cigar := [⟨.S,1⟩, ⟨.Eq,1⟩, ⟨.X,1⟩, ⟨.I,1⟩, ⟨.M,1⟩, ⟨.D,2⟩, ⟨.M,1⟩], seq := [84,71,67,78,97,84],
    tags := [(⟨78,72,67⟩, [1])] }
def ex3 : SamRec :=
  { name := some [97], flags := 147, rid := some 0, pos := some 9, mapq := some 30, cigar := [⟨.M, 3⟩],
    mrid := some 0, mpos := some 2, tlen := -10, seq := [65,67,71], quals := [20,20,20] }

/-- pair `a` (flags 99 / 147, TLEN ±10) around an unmapped read and an unpaired read with indels -/
def exSlice : List SamRec := [ex0, ex1, ex2, ex3]

theorem ex0_wf (pn : Bool) : SamWF exRefs (exCH pn) exM ex0 :=
  { flags := (by decide), pos1 := fun p hp => (by cases hp; decide), mpos1 := fun p hp => (by cases hp; decide),
    name := (by decide), nameFits := (by cases pn <;> decide), tlen := ⟨(by decide), (by decide)⟩,
    mapq := fun q hq => (by cases hq; decide), tags := fun kv hkv => (by cases hkv),
    quals := Or.inr ⟨rfl, 30, (by decide), (by decide)⟩,
    mapped := fun _ => ⟨0, 2, _, rfl, rfl, rfl, (by decide), (by decide), (by decide), (by decide)⟩,
    unmapped := fun h => absurd h (by decide), seqFits := fun sb id h => (by
      rcases h with h | h <;> (simp only [exCH, DSE.init, Option.some.injEq, ByteArrayEnc.stop.injEq] at h; obtain ⟨rfl, _⟩ := h; decide)) }

theorem ex1_wf (pn : Bool) : SamWF exRefs (exCH pn) exM ex1 :=
  { flags := (by decide), pos1 := fun p hp => (by cases hp), mpos1 := fun p hp => (by cases hp),
    name := (by decide), nameFits := (by cases pn <;> decide), tlen := ⟨(by decide), (by decide)⟩,
    mapq := fun q hq => (by cases hq), tags := fun kv hkv => (by cases hkv),
    quals := Or.inl rfl, mapped := fun h => absurd h (by decide),
    unmapped := fun _ => ⟨rfl, rfl⟩, seqFits := fun sb id h => (by
      rcases h with h | h <;> (simp only [exCH, DSE.init, Option.some.injEq, ByteArrayEnc.stop.injEq] at h; obtain ⟨rfl, _⟩ := h; decide)) }

theorem ex2_wf (pn : Bool) : SamWF exRefs (exCH pn) exM ex2 :=
  { flags := (by decide), pos1 := fun p hp => (by cases hp; decide), mpos1 := fun p hp => (by cases hp),
    name := (by decide), nameFits := (by cases pn <;> decide), tlen := ⟨(by decide), (by decide)⟩,
    mapq := fun q hq => (by cases hq; decide),
    tags := fun kv hkv => (by
      simp only [ex2, List.mem_cons, List.not_mem_nil, or_false] at hkv
      subst hkv
      exact ⟨rfl, (by cases pn <;> decide)⟩),
    quals := Or.inl rfl,
    mapped := fun _ => ⟨0, 3, _, rfl, rfl, rfl, (by decide), (by decide), (by decide), (by decide)⟩,
    unmapped := fun h => absurd h (by decide), seqFits := fun sb id h => (by
      rcases h with h | h <;> (simp only [exCH, DSE.init, Option.some.injEq, ByteArrayEnc.stop.injEq] at h; obtain ⟨rfl, _⟩ := h; decide)) }

theorem ex3_wf (pn : Bool) : SamWF exRefs (exCH pn) exM ex3 :=
  { flags := (by decide), pos1 := fun p hp => (by cases hp; decide), mpos1 := fun p hp => (by cases hp; decide),
    name := (by decide), nameFits := (by cases pn <;> decide), tlen := ⟨(by decide), (by decide)⟩,
    mapq := fun q hq => (by cases hq; decide), tags := fun kv hkv => (by cases hkv),
    quals := Or.inr ⟨rfl, 20, (by decide), (by decide)⟩,
    mapped := fun _ => ⟨0, 9, _, rfl, rfl, rfl, (by decide), (by decide), (by decide), (by decide)⟩,
    unmapped := fun h => absurd h (by decide), seqFits := fun sb id h => (by
      rcases h with h | h <;> (simp only [exCH, DSE.init, Option.some.injEq, ByteArrayEnc.stop.injEq] at h; obtain ⟨rfl, _⟩ := h; decide)) }

open Noodles.Cram.Mates in
theorem exSlice_att (i : Nat) (a : Mates.Rec) (h1 : (exSlice.map samView)[i]? = some a)
    (h2 : attachable a = true) :
    (i = 0 ∧ a = samView ex0) ∨ (i = 3 ∧ a = samView ex3) := by
  rcases i with _ | _ | _ | _ | i
  · simp [exSlice] at h1; subst h1; left; exact ⟨rfl, rfl⟩
  · simp [exSlice] at h1; subst h1; exact absurd h2 (by decide)
  · simp [exSlice] at h1; subst h1; exact absurd h2 (by decide)
  · simp [exSlice] at h1; subst h1; right; exact ⟨rfl, rfl⟩
  · simp [exSlice] at h1

open Noodles.Cram.Mates in
/-- the hypotheses of `sam_slice_roundtrip` are satisfiable -/
theorem exSlice_wf (pn : Bool) : SamSliceWF exRefs (exCH pn) exM exSlice := by
  refine ⟨?_, ?_, ?_⟩
  · intro r hr
    simp only [exSlice, List.mem_cons, List.not_mem_nil, or_false] at hr
    rcases hr with rfl | rfl | rfl | rfl
    · exact ex0_wf pn
    · exact ex1_wf pn
    · exact ex2_wf pn
    · exact ex3_wf pn
  · intro i j k a b c hij hjk ha hb hc haa hab hac _ _
    rcases exSlice_att i a ha haa with ⟨hi, _⟩ | ⟨hi, _⟩ <;>
    rcases exSlice_att j b hb hab with ⟨hj, _⟩ | ⟨hj, _⟩ <;>
    rcases exSlice_att k c hc hac with ⟨hk, _⟩ | ⟨hk, _⟩ <;> omega
  · intro i j a b hij ha hb haa hab _
    rcases exSlice_att i a ha haa with ⟨hi, ea⟩ | ⟨hi, ea⟩ <;>
    rcases exSlice_att j b hb hab with ⟨hj, eb⟩ | ⟨hj, eb⟩
    · omega
    · subst ea; subst eb; decide
    · omega
    · omega

/-- the model end to end: the slice context, and what the reader returns -/
def exRun (pn : Bool) (counter : Nat) (rs : List SamRec) : Option (RefCtx × Option (List SamRec)) :=
  match encodeSlice (exCH pn) exRefs exM rs with
  | .ok (ctx, core, ext) =>
    some (ctx, (decodeSlice (exCH pn) exRefs exM ctx rs.length counter core (blocksOf ext)).toOption)
  | .error _ => none

/-- the writer produces streams for the example (multi-reference context: an unmapped record among
mapped ones) and the decoded slice — names preserved — is the input in normal form: the pair's mate
fields and TLEN ±10 are recomputed, `=`/`X` come back as one `2M`, the lower-case `a` comes back as the
reference's `A`, the missing qualities stay missing, the tag is kept -/
example : exRun true 100 exSlice = some (.many, some
      [ ex0, ex1, { ex2 with cigar := [⟨.S,1⟩, ⟨.M,2⟩, ⟨.I,1⟩, ⟨.M,1⟩, ⟨.D,2⟩, ⟨.M,1⟩],
                             seq := [84,71,67,78,65,84] }, ex3 ]) := by
  decide +kernel

/-- the name rule without preserved names (record counter 100): the records of the pair are written
attached, without names, and both get the decimal record number of the first (`"100"`); the detached
records keep their names -/
example : (exRun false 100 exSlice).map (fun x => x.2.map (·.map (·.name))) =
    some (some [some [49, 48, 48], some [98], some [99], some [49, 48, 48]]) := by
  decide +kernel

/-- the name rule of the theorem (`expectedName`), evaluated on the same slice: what the model returned -/
example : (List.range 4).map (fun p => expectedName false 100 (exSlice.map samView) p (exSlice[p]?.bind (·.name))) =
    [some [49, 48, 48], some [98], some [99], some [49, 48, 48]] ∧
    (List.range 4).map (fun p => expectedName true 100 (exSlice.map samView) p (exSlice[p]?.bind (·.name))) =
    [some [97], some [98], some [99], some [97]] := by
  decide +kernel

/-- a missing name is generated from the record number when names are not preserved, and stays missing
when they are -/
example : (exRun false 7 [{ ex1 with name := none }]).map (fun x => x.2.map (·.map (·.name))) = some (some [some [55]]) ∧
    (exRun true 7 [{ ex1 with name := none }]).map (fun x => x.2.map (·.map (·.name))) = some (some [none]) := by
  decide +kernel

/-- the CIGAR is preserved only up to the normal form: the witness -/
example : normCigar ex2.cigar = [⟨.S,1⟩, ⟨.M,2⟩, ⟨.I,1⟩, ⟨.M,1⟩, ⟨.D,2⟩, ⟨.M,1⟩] ∧ normCigar ex2.cigar ≠ ex2.cigar := by
  decide

end Noodles.Props.C07
