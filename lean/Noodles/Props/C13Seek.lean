import Noodles.Bgzf.SeekCut
import Noodles.Bgzf.SeekCutProof
import Noodles.Trunc.Model
import Noodles.Trunc.Proof
/-!
# C13 (extension) — seeking in a truncated BGZF file: an indexed consumer on a cut file

Property theorems only; the model is `Noodles/Bgzf/SeekCut.lean` (`Bgzf.SC`: the BGZF reader of
noodles-bgzf `io/reader.rs` + `io/reader/frame.rs` as a state machine over ANY byte string, inner
stream = `std::io::Cursor`), helper lemmas are in `Noodles/Bgzf/SeekCutProof.lean`.

Reading guide. `frs` is the list of members `(cdata, data)` of a file written by noodles
(`Good`: sizes within BGZF limits, `cdata` inflates to `data`), `enc D frs` the file,
`datas frs` what was written. The cut file is `(enc D frs).take k`; `(bgzfCut D frs k).1 = n` members
lie wholly inside it and `(bgzfCut D frs k).2 = j` further bytes are present (`cut_position_spec` in
`Props/C13.lean`). The virtual position `(c, u)` with `c = (enc D (frs.take i)).length` is the start
of member `i` of the ORIGINAL file (`i = frs.length`: its end) and names the flat offset
`(datas (frs.take i)).length + u`. `s` is ANY reader state (whatever was read or sought before —
in particular any block left over from an earlier position), `ns` any list of positive buffer sizes.
-/
namespace Noodles.Props.C13
open Noodles.Bgzf Noodles.Trunc Noodles.Bgzf.SC
open Noodles.Codec hiding Err Dec

/-- NO STALE BLOCK. On a file cut at `k`, after ANY history, a `seek` to the start of member `i` of
the original file plus `u` either fails, or every following run of consumer calls — any mix of
`read` (`(false, n)`: an `n`-byte buffer, block path or ≥ 64 KiB direct path) and `fill_buf` +
`consume` (`(true, m)`) — delivers a prefix of
what was WRITTEN from flat offset `at = ubase(i) + u` on (`(datas frs).drop off`) that lies inside
the whole members of the cut file (`whole.drop off`); a clean end (`Ok(0)`) comes only after ALL of
it, and — when the position is not beyond the cut member — only when fewer than 18 bytes of the cut
member are present or the file is complete; an error is `UnexpectedEof`, comes only after all of it,
and only when at least 18 bytes of the cut member are present. Never a byte of another position,
whatever block the reader held before. -/
theorem seek_cut_no_stale_ops (D : Deflater) (hD : D.Lawful) (frs : List (Bytes × Bytes))
    (hg : ∀ p ∈ frs, Good D p) (k i u : Nat) (hi : i ≤ frs.length) (s s' : R)
    (hseek : seek D ((enc D frs).take k) s (enc D (frs.take i)).length u = (s', none))
    (ops : List (Bool × Nat)) (hops : ∀ op ∈ ops, 0 < op.2) :
    let whole := datas (frs.take (bgzfCut D frs k).1)
    let off := (datas (frs.take i)).length + u
    let r := opsRun D ((enc D frs).take k) s' ops
    r.1 <+: whole.drop off ∧ whole.drop off <+: (datas frs).drop off ∧
    (r.2.1 = .eof → r.1 = whole.drop off ∧
      ¬ (i ≤ (bgzfCut D frs k).1 ∧ (bgzfCut D frs k).1 < frs.length ∧ 18 ≤ (bgzfCut D frs k).2)) ∧
    (∀ e, r.2.1 = .err e → e = .eof ∧ r.1 = whole.drop off ∧
      (bgzfCut D frs k).1 < frs.length ∧ 18 ≤ (bgzfCut D frs k).2) := by
  intro whole off r
  let P : Prop :=
    ¬ (i ≤ (bgzfCut D frs k).1 ∧ (bgzfCut D frs k).1 < frs.length ∧ 18 ≤ (bgzfCut D frs k).2)
  have hP1 : (bgzfCut D frs k).1 < i → P := fun h hc => by omega
  have hP2 : (cutTail D frs k).length < 18 → P := fun h hc => cut_tail_short D frs k h hc.2
  have hsrc := src_of_member D P frs hg k i hi hP1
  have ht := cut_tail D frs hg k
  have hsp := seek_inv D hD P _ ht hP2 ((enc D frs).take k) s _ u _ hsrc
  rw [hseek] at hsp
  obtain ⟨_, hinv⟩ := hsp
  have hrun := opsRun_inv D hD P _ ht hP2 ((enc D frs).take k) ops hops s' _ hinv
  have hdd : (whole.drop (datas (frs.take i)).length).drop u = whole.drop off := by
    rw [List.drop_drop]
  rw [hdd] at hrun
  obtain ⟨h1, h2⟩ := hrun
  refine ⟨h1, ?_, ?_, ?_⟩
  · have hw : datas frs = whole ++ datas (frs.drop (bgzfCut D frs k).1) := by
      rw [← datas_append, List.take_append_drop]
    rw [hw, List.drop_append]
    exact List.prefix_append _ _
  · intro he
    change (match r.2.1 with
      | .more => _ | .eof => r.1 = whole.drop off ∧ P | .err e => _) at h2
    rw [he] at h2; exact h2
  · intro e he
    change (match r.2.1 with
      | .more => _ | .eof => _
      | .err e => e = .eof ∧ r.1 = whole.drop off ∧ 18 ≤ (cutTail D frs k).length) at h2
    rw [he] at h2
    obtain ⟨ha, hb, hc⟩ := h2
    exact ⟨ha, hb, cut_tail_long D frs k hc⟩

/-- `seek_cut_no_stale_ops` for a run of plain `read` calls with buffer sizes `ns`. -/
theorem seek_cut_no_stale (D : Deflater) (hD : D.Lawful) (frs : List (Bytes × Bytes))
    (hg : ∀ p ∈ frs, Good D p) (k i u : Nat) (hi : i ≤ frs.length) (s s' : R)
    (hseek : seek D ((enc D frs).take k) s (enc D (frs.take i)).length u = (s', none))
    (ns : List Nat) (hns : ∀ m ∈ ns, 0 < m) :
    let whole := datas (frs.take (bgzfCut D frs k).1)
    let off := (datas (frs.take i)).length + u
    let r := readRun D ((enc D frs).take k) s' ns
    r.1 <+: whole.drop off ∧ whole.drop off <+: (datas frs).drop off ∧
    (r.2.1 = .eof → r.1 = whole.drop off ∧
      ¬ (i ≤ (bgzfCut D frs k).1 ∧ (bgzfCut D frs k).1 < frs.length ∧ 18 ≤ (bgzfCut D frs k).2)) ∧
    (∀ e, r.2.1 = .err e → e = .eof ∧ r.1 = whole.drop off ∧
      (bgzfCut D frs k).1 < frs.length ∧ 18 ≤ (bgzfCut D frs k).2) := by
  intro whole off
  rw [readRun_eq_opsRun]
  exact seek_cut_no_stale_ops D hD frs hg k i u hi s s' hseek (ns.map fun n => (false, n))
    (by
      intro op hop
      obtain ⟨n, hn, rfl⟩ := List.mem_map.1 hop
      exact hns n hn)

/-- A position the seek accepts is a position of the cut file's whole members: when `seek` to
member `i` plus `u` succeeds, `ubase(i) + u` does not exceed … unless nothing is there: `u` is at
most the number of bytes the whole members hold from member `i` on. -/
theorem seek_cut_accepts_only_held (D : Deflater) (hD : D.Lawful) (frs : List (Bytes × Bytes))
    (hg : ∀ p ∈ frs, Good D p) (k i u : Nat) (hi : i ≤ frs.length) (s s' : R)
    (hseek : seek D ((enc D frs).take k) s (enc D (frs.take i)).length u = (s', none)) :
    u ≤ (datas (frs.take (bgzfCut D frs k).1)).length - (datas (frs.take i)).length := by
  have hsp := seek_inv D hD True _ (cut_tail D frs hg k) (fun _ => trivial) ((enc D frs).take k) s _ u _
    (src_of_member D True frs hg k i hi (fun _ => trivial))
  rw [hseek] at hsp
  have := hsp.1
  rwa [List.length_drop] at this

/-- AFTER THE CUT. A seek to the start of a member that begins beyond the cut member (`i > n`; the
position is at or past the end of the cut file) reads nothing: the block becomes an EMPTY block at
`c`. The seek succeeds iff `u = 0` (then every read is a clean end), `InvalidInput` otherwise —
`u` is never validated against the block the reader held before. -/
theorem seek_cut_after_cut (D : Deflater) (frs : List (Bytes × Bytes)) (hg : ∀ p ∈ frs, Good D p)
    (k i u : Nat) (hi : i ≤ frs.length) (hin : (bgzfCut D frs k).1 < i) (s : R) :
    let f := (enc D frs).take k
    let c := (enc D (frs.take i)).length
    seek D f s c u =
      if u > 0 then (⟨f.length, c, ⟨c, 0, [], 0⟩⟩, some .invalidInput)
      else (⟨f.length, c, ⟨c, 0, [], u⟩⟩, none) := by
  intro f c
  have hsrc := src_of_member D True frs hg k i hi (fun _ => trivial)
  rcases hsrc with ⟨pre, B, hf, _, hpre, hrest⟩ | ⟨hshort, _⟩
  · -- impossible: `i > n` is not the start of a whole member; derive the short case anyway
    exfalso
    have hn : (bgzfCut D frs k).1 < frs.length := by omega
    have h1 := enc_take_mono D frs ((bgzfCut D frs k).1 + 1) i (by omega)
    have h2 : (enc D (frs.take ((bgzfCut D frs k).1 + 1))).length =
        (enc D (frs.take (bgzfCut D frs k).1)).length + (encFrame D frs[(bgzfCut D frs k).1]).length := by
      rw [List.take_succ_eq_append_getElem hn, enc_append, List.length_append]
      simp [enc]
    have h3 := cut_next D frs k hn
    have h4 : ((enc D frs).take k).length ≤
        (enc D (frs.take (bgzfCut D frs k).1)).length + (bgzfCut D frs k).2 := by
      rw [cut_split, List.length_append, cutTail, List.length_take]; omega
    have h5 := congrArg List.length hf
    rw [List.length_append] at h5
    have h6 : 0 < (encFrame D frs[(bgzfCut D frs k).1]).length := by
      rw [encFrame, mkFrame_length]; omega
    omega
  · exact seek_done D f s c u hshort

/-- AT THE CUT. A seek to the start of the member the cut falls into (`i = n`), or to the end of a
complete file: if at least 18 bytes of that member are present the seek FAILS with `UnexpectedEof`
(the header is read, the body is short); if fewer than 18 bytes are present (or the file is
complete) `read_frame_into` reports the end of the stream, the block becomes an empty block, and
the seek succeeds iff `u = 0` (`InvalidInput` otherwise). -/
theorem seek_cut_at_cut (D : Deflater) (hD : D.Lawful) (frs : List (Bytes × Bytes))
    (hg : ∀ p ∈ frs, Good D p) (k u : Nat) (s : R) :
    let n := (bgzfCut D frs k).1
    let j := (bgzfCut D frs k).2
    (seek D ((enc D frs).take k) s (enc D (frs.take n)).length u).2 =
      if n < frs.length ∧ 18 ≤ j then some .eof
      else if u = 0 then none else some .invalidInput := by
  intro n j
  have ht := cut_tail D frs hg k
  have hf : (enc D frs).take k = enc D (frs.take n) ++ (enc D [] ++ cutTail D frs k) := by
    rw [enc_nil, List.nil_append]; exact cut_split D frs k
  rw [hf, seek_live_eq D hD _ ht [] (by simp) (enc D (frs.take n)) s u]
  simp only [expect]
  by_cases hlong : n < frs.length ∧ 18 ≤ j
  · rw [if_pos hlong]
    have : ¬ (cutTail D frs k).length < 18 := by
      rw [cutTail_eq D frs k hlong.1, List.length_take]
      have := cut_next D frs k hlong.1
      omega
    rw [if_neg this]
  · rw [if_neg hlong]
    have : (cutTail D frs k).length < 18 := by
      by_cases h18 : 18 ≤ (cutTail D frs k).length
      · exact absurd (cut_tail_long D frs k h18) hlong
      · omega
    rw [if_pos this]
    by_cases hu : u = 0
    · simp [hu]
    · have : u > 0 := by omega
      simp [hu, this]

/-- INSIDE THE CUT, exact. A seek to the start of a non-empty member that lies wholly inside the cut
file reads exactly that member (cursor and `position` behind it, block = the member at `c`) and
succeeds iff `u` is at most the member's data length (`InvalidInput` otherwise): `u` is validated
against the member at `c`, not against the block held before. -/
theorem seek_cut_whole_member (D : Deflater) (hD : D.Lawful) (frs : List (Bytes × Bytes))
    (hg : ∀ p ∈ frs, Good D p) (k i u : Nat) (hin : i < (bgzfCut D frs k).1)
    (hi : i < frs.length) (hne : 0 < frs[i].2.length) (s : R) :
    let c := (enc D (frs.take i)).length
    let bs := 26 + frs[i].1.length
    seek D ((enc D frs).take k) s c u =
      if u ≤ frs[i].2.length then (⟨c + bs, c + bs, ⟨c, bs, frs[i].2, u⟩⟩, none)
      else (⟨c + bs, c + bs, ⟨c, bs, frs[i].2, 0⟩⟩, some .invalidInput) := by
  intro c bs
  have ht := cut_tail D frs hg k
  have hlt : i < (frs.take (bgzfCut D frs k).1).length := by
    rw [List.length_take]; omega
  have hB : (frs.take (bgzfCut D frs k).1).drop i =
      frs[i] :: (frs.take (bgzfCut D frs k).1).drop (i + 1) := by
    rw [List.drop_eq_getElem_cons hlt, List.getElem_take]
  have hf : (enc D frs).take k = enc D (frs.take i) ++
      (enc D (frs[i] :: (frs.take (bgzfCut D frs k).1).drop (i + 1)) ++ cutTail D frs k) := by
    rw [← hB, cut_split, ← List.append_assoc, ← enc_append, ← take_split frs _ _ (Nat.le_of_lt hin)]
  have hgood : ∀ p ∈ frs[i] :: (frs.take (bgzfCut D frs k).1).drop (i + 1), Good D p := by
    intro p hp
    rw [← hB] at hp
    exact hg p (List.mem_of_mem_take (List.mem_of_mem_drop hp))
  rw [hf, seek_live_eq D hD _ ht _ hgood (enc D (frs.take i)) s u]
  simp only [expect, if_pos hne]
  by_cases hu : u ≤ frs[i].2.length
  · rw [if_pos hu, if_neg (by omega)]
  · rw [if_neg hu, if_pos (by omega)]; rfl

/-- `virtual_position()` after a successful seek into a whole non-empty member is the position
sought — or, at `u = |data|`, the start of the next member, which names the same byte. -/
theorem seek_cut_tell (D : Deflater) (hD : D.Lawful) (frs : List (Bytes × Bytes))
    (hg : ∀ p ∈ frs, Good D p) (k i u : Nat) (hin : i < (bgzfCut D frs k).1)
    (hi : i < frs.length) (hne : 0 < frs[i].2.length) (hu : u ≤ frs[i].2.length) (s : R) :
    tell (seek D ((enc D frs).take k) s (enc D (frs.take i)).length u).1 =
      if u < frs[i].2.length then ((enc D (frs.take i)).length, u)
      else ((enc D (frs.take (i + 1))).length, 0) := by
  have h := seek_cut_whole_member D hD frs hg k i u hin hi hne s
  simp only at h
  rw [h, if_pos hu]
  have hnext : (enc D (frs.take (i + 1))).length = (enc D (frs.take i)).length + (26 + frs[i].1.length) := by
    rw [List.take_succ_eq_append_getElem hi, enc_append, List.length_append]
    simp [enc, encFrame, mkFrame_length]
  simp only [tell, hasRemaining, decide_eq_true_eq]
  by_cases hlt : u < frs[i].2.length
  · rw [if_pos hlt, if_pos hlt]
  · rw [if_neg hlt, if_neg hlt, hnext]

/-- THE INDEXED CONSUMER of the oracle (`seek_on_cut` in the harness; `SC.seekThenRead` is what the
driver runs for `c13 seekcut`): one warm-up `read` of ANY size whose result is ignored, the seek,
then `read` with a buffer of `n > 0` bytes until `Ok(0)` or an error (at most `fuel` rounds). Either
the seek fails, or the delivered bytes are a prefix of what was written at that position, inside
the whole members of the cut file; on a clean end or an error they are ALL of it. -/
theorem seek_cut_consumer (D : Deflater) (hD : D.Lawful) (frs : List (Bytes × Bytes))
    (hg : ∀ p ∈ frs, Good D p) (k i u warm n fuel : Nat) (hi : i ≤ frs.length) (hn : 0 < n) :
    let whole := datas (frs.take (bgzfCut D frs k).1)
    let off := (datas (frs.take i)).length + u
    match seekThenRead D ((enc D frs).take k) warm (enc D (frs.take i)).length u n fuel with
    | .error _ => True
    | .ok (out, stop, _, _) =>
      out <+: (datas frs).drop off ∧ out <+: whole.drop off ∧
      (stop ≠ .more → out = whole.drop off) := by
  intro whole off
  unfold seekThenRead
  simp only
  rcases hsk : seek D ((enc D frs).take k) (read D ((enc D frs).take k) R.init warm).1
    (enc D (frs.take i)).length u with ⟨s1, _ | e⟩
  · simp only
    have h := seek_cut_no_stale D hD frs hg k i u hi _ s1 hsk (List.replicate fuel n)
      (by intro m hm; rw [List.eq_of_mem_replicate hm]; exact hn)
    simp only at h
    rw [← pump_eq_readRun] at h
    obtain ⟨h1, h2, h3, h4⟩ := h
    refine ⟨h1.trans h2, h1, ?_⟩
    intro hst
    rcases hs : (pump D ((enc D frs).take k) n fuel s1).2.1 with _ | _ | e
    · exact absurd hs hst
    · exact (h3 hs).1
    · exact (h4 e hs).2.1
  · simp only

/-- the same consumer reading through `fill_buf`/`consume` (`SC.seekThenFill`, request
`c13 seekcutf`): at most `m > 0` bytes taken per `fill_buf`. -/
theorem seek_cut_consumer_bufread (D : Deflater) (hD : D.Lawful) (frs : List (Bytes × Bytes))
    (hg : ∀ p ∈ frs, Good D p) (k i u warm m fuel : Nat) (hi : i ≤ frs.length) (hm : 0 < m) :
    let whole := datas (frs.take (bgzfCut D frs k).1)
    let off := (datas (frs.take i)).length + u
    match seekThenFill D ((enc D frs).take k) warm (enc D (frs.take i)).length u m fuel with
    | .error _ => True
    | .ok (out, stop, _, _) =>
      out <+: (datas frs).drop off ∧ out <+: whole.drop off ∧
      (stop ≠ .more → out = whole.drop off) := by
  intro whole off
  unfold seekThenFill
  simp only
  rcases hsk : seek D ((enc D frs).take k) (read D ((enc D frs).take k) R.init warm).1
    (enc D (frs.take i)).length u with ⟨s1, _ | e⟩
  · simp only
    have h := seek_cut_no_stale_ops D hD frs hg k i u hi _ s1 hsk (List.replicate fuel (true, m))
      (by intro op hop; rw [List.eq_of_mem_replicate hop]; exact hm)
    simp only at h
    rw [← pumpFill_eq_opsRun] at h
    obtain ⟨h1, h2, h3, h4⟩ := h
    refine ⟨h1.trans h2, h1, ?_⟩
    intro hst
    rcases hs : (pumpFill D ((enc D frs).take k) m fuel s1).2.1 with _ | _ | e
    · exact absurd hs hst
    · exact (h3 hs).1
    · exact (h4 e hs).2.1
  · simp only

/-- A RECORD READER after the seek (`read_exact` in `n`-byte records, `SC.seekThenExact`, request
`c13 seekcutx`; what the BAM/BCF/index readers do): either the seek fails, or only whole records are
delivered, they are a prefix of what was written at that position inside the whole members of the
cut file, the loop never ends cleanly, and when it stops it is with `UnexpectedEof` and fewer than
`n` bytes of the whole members were left — a cut is never a shorter record. -/
theorem seek_cut_consumer_read_exact (D : Deflater) (hD : D.Lawful) (frs : List (Bytes × Bytes))
    (hg : ∀ p ∈ frs, Good D p) (k i u warm n fuel : Nat) (hi : i ≤ frs.length) :
    let whole := datas (frs.take (bgzfCut D frs k).1)
    let off := (datas (frs.take i)).length + u
    match seekThenExact D ((enc D frs).take k) warm (enc D (frs.take i)).length u n fuel with
    | .error _ => True
    | .ok (out, stop, _, _) =>
      out <+: (datas frs).drop off ∧ out <+: whole.drop off ∧
      (stop ≠ .more → stop = .err .eof ∧ (whole.drop off).length - out.length < n) := by
  intro whole off
  unfold seekThenExact
  simp only
  rcases hsk : seek D ((enc D frs).take k) (read D ((enc D frs).take k) R.init warm).1
    (enc D (frs.take i)).length u with ⟨s1, _ | e⟩
  · simp only
    have ht := cut_tail D frs hg k
    have hsp := seek_inv D hD True _ ht (fun _ => trivial) ((enc D frs).take k)
      (read D ((enc D frs).take k) R.init warm).1 _ u _
      (src_of_member D True frs hg k i hi (fun _ => trivial))
    rw [hsk] at hsp
    obtain ⟨_, hinv⟩ := hsp
    have hrun := pumpExact_inv D hD True _ ht (fun _ => trivial) ((enc D frs).take k) n fuel s1 _ hinv
    have hdd : (whole.drop (datas (frs.take i)).length).drop u = whole.drop off := by
      rw [List.drop_drop]
    rw [hdd] at hrun
    obtain ⟨h1, h2⟩ := hrun
    have hw : whole.drop off <+: (datas frs).drop off := by
      have hw : datas frs = whole ++ datas (frs.drop (bgzfCut D frs k).1) := by
        rw [← datas_append, List.take_append_drop]
      rw [hw, List.drop_append]
      exact List.prefix_append _ _
    refine ⟨h1.trans hw, h1, ?_⟩
    intro hst
    change (match (pumpExact D ((enc D frs).take k) n fuel s1).2.1 with
      | .more => _ | .eof => False
      | .err e => e = .eof ∧ (whole.drop off).length -
          (pumpExact D ((enc D frs).take k) n fuel s1).1.length < n) at h2
    rcases hs : (pumpExact D ((enc D frs).take k) n fuel s1).2.1 with _ | _ | e
    · exact absurd hs hst
    · rw [hs] at h2; exact h2.elim
    · rw [hs] at h2
      obtain ⟨he, hlt⟩ := h2
      exact ⟨by rw [he], hlt⟩
  · simp only

/-- SEQUENTIAL COROLLARY (agreement with `bgzf_truncate`). Reading the cut file from the start with
ANY positive buffer sizes delivers a prefix of what the C01/C13 stream reader `readStream` delivers;
when the run stops (clean end or error) it has delivered exactly that, and an error is
`UnexpectedEof` exactly as `bgzf_truncate` says (at least 18 bytes of the cut member present). -/
theorem seek_cut_sequential (D : Deflater) (hD : D.Lawful) (frs : List (Bytes × Bytes))
    (hg : ∀ p ∈ frs, Good D p) (k : Nat) (ns : List Nat) (hns : ∀ m ∈ ns, 0 < m) :
    let f := (enc D frs).take k
    let r := readRun D f R.init ns
    r.1 <+: (readStream D f).1.flatten ∧
    (r.2.1 = .eof → r.1 = (readStream D f).1.flatten ∧ (readStream D f).2 = .eof) ∧
    (∀ e, r.2.1 = .err e → e = .eof ∧ r.1 = (readStream D f).1.flatten ∧
      (readStream D f).2 = .err .eof) := by
  intro f r
  have ht := cut_tail D frs hg k
  let P : Prop := ¬ ((bgzfCut D frs k).1 < frs.length ∧ 18 ≤ (bgzfCut D frs k).2)
  have hP2 : (cutTail D frs k).length < 18 → P := fun h => cut_tail_short D frs k h
  have hsrc := src_of_member D P frs hg k 0 (Nat.zero_le _) (fun h => absurd h (Nat.not_lt_zero _))
  simp only [List.take_zero, enc_nil, datas_nil, List.length_nil, List.drop_zero] at hsrc
  have hinv : Inv D P (cutTail D frs k) f R.init (datas (frs.take (bgzfCut D frs k).1)) :=
    ⟨_, hsrc, by simp [R.init]⟩
  have hrun := readRun_inv D hD P _ ht hP2 f ns hns R.init _ hinv
  have hrs : (readStream D f).1.flatten = datas (frs.take (bgzfCut D frs k).1) := by
    show (readStream D ((enc D frs).take k)).1.flatten = _
    rw [bgzf_cut D hD frs hg k]; rfl
  rw [hrs]
  obtain ⟨h1, h2⟩ := hrun
  refine ⟨h1, ?_, ?_⟩
  · intro he
    change (match r.2.1 with
      | .more => _ | .eof => r.1 = _ ∧ P | .err e => _) at h2
    rw [he] at h2
    refine ⟨h2.1, ?_⟩
    have hP : P := h2.2
    show (readStream D ((enc D frs).take k)).2 = _
    rw [bgzf_cut D hD frs hg k]
    by_cases hn : (bgzfCut D frs k).1 = frs.length
    · rw [if_pos hn]
    · rw [if_neg hn]
      simp only [bgzfStop]
      rw [if_pos (by
        have hle := whole_fst_le_length (frs.map fun p => (encFrame D p).length) k
        rw [List.length_map] at hle
        have : (bgzfCut D frs k).1 < frs.length := by unfold bgzfCut; unfold bgzfCut at hn; omega
        by_cases h18 : (bgzfCut D frs k).2 < 18
        · exact h18
        · exact absurd ⟨this, by omega⟩ hP)]
  · intro e he
    change (match r.2.1 with
      | .more => _ | .eof => _
      | .err e => e = .eof ∧ r.1 = _ ∧ 18 ≤ (cutTail D frs k).length) at h2
    rw [he] at h2
    obtain ⟨ha, hb, hc⟩ := h2
    refine ⟨ha, hb, ?_⟩
    obtain ⟨hn, hj⟩ := cut_tail_long D frs k hc
    show (readStream D ((enc D frs).take k)).2 = _
    rw [bgzf_cut D hD frs hg k]
    simp only [bgzfStop]
    rw [if_neg (by omega), if_neg (by omega)]

/-! ## the hypotheses are satisfiable; witnesses of every outcome (replayed on the real reader by
the corpus of `harness/src/props/c13_seek.rs`) -/

/-- a toy lawful library: "stored" blocks behind a marker byte -/
def seekToy : Deflater where
  deflate := fun _ x => 1 :: x
  inflate := fun c n =>
    match c with
    | [3, 0] => if n = 0 then some [] else none
    | 1 :: x => if x.length = n then some x else none
    | _ => none
  crc := fun _ => 0

theorem seekToy_lawful : seekToy.Lawful where
  roundtrip := by intro l x; simp [seekToy]
  level0 := by intro x hx; simp only [seekToy, List.length_cons, MAX_COMPRESSED_eq]; rw [MAX_BUF_eq] at hx; omega
  crc_lt := by intro x; simp [seekToy]
  eof_block := by simp [seekToy]
  crc_nil := rfl

/-- two members, 29 and 28 bytes long, holding `[7, 8]` and `[9]` -/
def seekFrs : List (Bytes × Bytes) := [([1, 7, 8], [7, 8]), ([1, 9], [9])]

example : ∀ p ∈ seekFrs, Good seekToy p := by
  intro p hp
  simp only [seekFrs, List.mem_cons, List.not_mem_nil, or_false] at hp
  rcases hp with rfl | rfl <;> simp [Good, seekToy]

example : (enc seekToy seekFrs).length = 57 ∧ (enc seekToy (seekFrs.take 1)).length = 29 := by
  decide +kernel

/-- the reader after a warm-up `read` of one byte: it holds member 0 with one byte (`8`) left -/
def seekWarm (k : Nat) : R := (read seekToy ((enc seekToy seekFrs).take k) R.init 1).1

example : (seekWarm 34).blk.data = [7, 8] ∧ (seekWarm 34).blk.cur = 1 := by decide +kernel

/-- NO STALE BLOCK, witness: file cut 5 bytes into member 1. The seek to the start of member 1
succeeds with an EMPTY block (nothing to read, clean end; the stale `8` is not served), and `u = 1`
is `InvalidInput` (not validated against the stale block `[7, 8]`). -/
theorem seek_cut_witness_no_stale :
    let f := (enc seekToy seekFrs).take 34
    (seek seekToy f (seekWarm 34) 29 0).2 = none ∧
    (readRun seekToy f (seek seekToy f (seekWarm 34) 29 0).1 [4096]).1 = [] ∧
    (readRun seekToy f (seek seekToy f (seekWarm 34) 29 0).1 [4096]).2.1 = .eof ∧
    tell (seek seekToy f (seekWarm 34) 29 0).1 = (29, 0) ∧
    (seek seekToy f (seekWarm 34) 29 1).2 = some .invalidInput := by decide +kernel

/-- cut 20 bytes into member 1 (header complete): the same seek fails with `UnexpectedEof` -/
theorem seek_cut_witness_unexpected_eof : (seek seekToy ((enc seekToy seekFrs).take 49) (seekWarm 49) 29 0).2 = some .eof := by
  decide +kernel

/-- a seek to the end of the ORIGINAL file (beyond the cut): succeeds, nothing to read -/
theorem seek_cut_witness_beyond_cut :
    let f := (enc seekToy seekFrs).take 34
    (seek seekToy f (seekWarm 34) 57 0).2 = none ∧
    (readRun seekToy f (seek seekToy f (seekWarm 34) 57 0).1 [7]).2.1 = .eof ∧
    (seek seekToy f (seekWarm 34) 57 1).2 = some .invalidInput := by decide +kernel

/-- a seek into a whole member of the cut file delivers what was written there, and stops with
`UnexpectedEof` at the cut member (49 bytes: its header is complete) -/
theorem seek_cut_witness_data_then_error :
    let f := (enc seekToy seekFrs).take 49
    (seek seekToy f R.init 0 1).2 = none ∧
    (readRun seekToy f (seek seekToy f R.init 0 1).1 [4096, 4096]).1 = [8] ∧
    (readRun seekToy f (seek seekToy f R.init 0 1).1 [4096, 4096]).2.1 = .err .eof := by
  decide +kernel

/-- the complete file, sought into member 0 at offset 1, with the direct path (buffer ≥ 64 KiB) -/
theorem seek_cut_witness_direct_path :
    let f := enc seekToy seekFrs
    (readRun seekToy f (seek seekToy f R.init 0 1).1 [70000, 70000, 70000]).1 = [8, 9] ∧
    (readRun seekToy f (seek seekToy f R.init 0 1).1 [70000, 70000, 70000]).2.1 = .eof := by
  decide +kernel

/-- `read_exact` in 2-byte records on the complete file from `(0, 0)`: the record `[7, 8]`, then
`UnexpectedEof` (one byte left: never a shorter record); in 1-byte records on the file cut at 49:
`[7, 8]`, then `UnexpectedEof` from the cut member -/
theorem seek_cut_witness_read_exact :
    (let f := enc seekToy seekFrs
     let r := pumpExact seekToy f 2 10 (seek seekToy f R.init 0 0).1
     (seek seekToy f R.init 0 0).2 = none ∧ r.1 = [7, 8] ∧ r.2.1 = .err .eof) ∧
    (let f := (enc seekToy seekFrs).take 49
     let r := pumpExact seekToy f 1 10 (seek seekToy f (seekWarm 49) 0 0).1
     (seek seekToy f (seekWarm 49) 0 0).2 = none ∧ r.1 = [7, 8] ∧ r.2.1 = .err .eof) := by
  decide +kernel

end Noodles.Props.C13
