import Noodles.Span.JoinProof
import Noodles.Bgzf.ChunkReadProof
import Noodles.Span.JoinBgzfProof
/-!
# C04, joined — one end-to-end statement, and the chunk reader as a model

`Noodles/Props/C04Span.lean` proves the record-level composition per reference
(`query_records_eq_scan`, `query_variants_eq_scan`) and the whole-file statement on GIVEN spans with a
per-reference index (`query_file_eq_scan`). This file joins them:

* `query_end_to_end`: the index is BUILT by the modelled `Indexer` walking the WHOLE file (all
  references, the unplaced tail), the spans are COMPUTED by the modelled span functions
  (`alignment_end`, `variant_end`, the indexed columns), the chunks of the query are served and
  filtered by the format's `intersects` — and the result is the full scan, for every reference and
  every region in one statement.
* `chunk_reader_serves_records`: the assumption "a chunk `[o_j, o_k)` serves exactly records
  `j..k-1`" becomes a theorem about the BGZF reader state machine of C02
  (`Noodles.Bgzf.RM`, `Noodles/Props/C02.lean`): the chunk endpoints are the virtual positions the
  indexing pass observed, the chunk is served by `seek` + `read_exact` while
  `virtual_position() < chunk.end()`.

Models: `Noodles/Span/Join.lean`, `Noodles/Bgzf/ChunkRead.lean`; helper lemmas:
`Noodles/Span/JoinProof.lean`, `Noodles/Bgzf/ChunkReadProof.lean`.
-/
namespace Noodles.Props.C04
open Noodles.Span Noodles.Csi
open Noodles.Bgzf.RM (Layout WF flat cursor runOps resolve Inv)
open Noodles.Bgzf.ChunkRead (serveChunk scanTells recBytes bnd)

/-- **Region query = linear scan, END TO END.** For every file (alignment records with arbitrary
CIGARs, variant records with REF / END / SVLEN / LEN, start..end features; any number of references;
an unplaced tail) in reference order whose placed records lie within the index geometry, every
strictly increasing assignment of record offsets, linear (BAI / tabix) or binned (CSI) index, every
geometry that fits a `usize`: the index the modelled `Indexer` builds from that file answers EVERY
region query on EVERY reference of the header — `reg2bins` → chunks of the present bins →
`min_offset` + `optimize_chunks` → the records of the chunks → the format's `intersects` — with
exactly the records a full scan keeps (on the queried reference, SPECIFICATION span meets the
region), each once, in file order. The only hypotheses: reference order (`RidSorted`, decidable:
reference ids do not decrease — what `Indexer::add_record` requires — and the unplaced records come
last, where coordinate sorting puts them; the order of POSITIONS inside a reference is NOT needed),
offsets strictly increasing, positions within the geometry (`JoinValid`, decidable), the region within the geometry
with a 1-based start. -/
theorem query_end_to_end (binned : Bool) (minShift depth major minor : Nat) (off : Nat → Nat)
    (hmono : ∀ a b, a < b → off a < off b) (nref : Nat) (file : List JRec)
    (hgeom : maxPos minShift depth ≤ USIZE_MAX) (hsorted : RidSorted file)
    (hvalid : JoinValid major minor minShift depth file) :
    ∀ (q : Nat) (iv : Interval), q < nref → (∀ s, iv.start = some s → 1 ≤ s) →
      (resolveInterval minShift depth iv).isSome →
      joinQuery binned minShift depth major minor off nref file q iv =
        some (joinScan major minor file q iv) :=
  fun q iv hq hiv hin =>
    joinQuery_eq_scan binned minShift depth major minor off hmono nref file hgeom hsorted hvalid
      q iv hq hiv hin

/-- the scan side of `query_end_to_end`, spelled out: record `i` is in the answer iff it exists, is
on the queried reference, has a specification span, and that span meets the region -/
theorem join_scan_spec (major minor : Nat) (file : List JRec) (q : Nat) (iv : Interval) (i : Nat) :
    i ∈ joinScan major minor file q iv ↔
      ∃ r, file[i]? = some r ∧ r.rid = some q ∧
        ∃ sp, r.body.specSpan major minor = some sp ∧ Overlaps sp.s sp.e iv := by
  unfold joinScan JRec.specKeep JRec.specAccept
  simp only [List.mem_filter, List.mem_range]
  constructor
  · rintro ⟨hi, hk⟩
    rw [List.getElem?_eq_getElem hi] at hk
    simp only [Bool.and_eq_true, beq_iff_eq] at hk
    refine ⟨file[i], List.getElem?_eq_getElem hi, hk.1, ?_⟩
    cases hsp : (file[i]).body.specSpan major minor with
    | none => rw [hsp] at hk; simp at hk
    | some sp => rw [hsp] at hk; exact ⟨sp, rfl, by simpa using hk.2⟩
  · rintro ⟨r, hget, hrid, sp, hsp, hov⟩
    have hi : i < file.length := (List.getElem?_eq_some_iff.mp hget).1
    refine ⟨hi, ?_⟩
    rw [hget]
    simp [hrid, hsp, hov]

/-- the modelled indexer ACCEPTS every file in reference order whose placed records lie within the
geometry (so `query_end_to_end` is not about an `Err`) -/
theorem indexer_accepts_sorted (minShift depth major minor : Nat) (off : Nat → Nat) (file : List JRec)
    (hgeom : maxPos minShift depth ≤ USIZE_MAX) (hsorted : RidSorted file)
    (hvalid : JoinValid major minor minShift depth file) :
    ∃ refs, indexAll minShift depth major minor off 0 [] file = some refs := by
  exact indexAll_accepts minShift depth major minor off file hgeom hsorted hvalid

/-- non-vacuity of `query_end_to_end` / `indexer_accepts_sorted`: a BAM-like file — reference 0 with a
long record (`1M 99998N 1M`) before a short one, reference 1 EMPTY, reference 2 with one record, two
unplaced records — a 4.3 VCF-like file with an `END` deletion before a SNV on a later contig, and a
feature file satisfy the decidable hypotheses at the default geometry; an unbounded-end region
resolves -/
example :
    (maxPos 14 5 ≤ USIZE_MAX) ∧
    RidSorted [⟨some 0, .aln ⟨1, [⟨0, 1⟩, ⟨3, 99998⟩, ⟨0, 1⟩]⟩⟩, ⟨some 0, .aln ⟨50000, [⟨4, 3⟩, ⟨0, 11⟩]⟩⟩,
      ⟨some 2, .aln ⟨7, [⟨0, 5⟩]⟩⟩, ⟨none, .aln ⟨0, []⟩⟩, ⟨none, .aln ⟨0, []⟩⟩] ∧
    JoinValid 0 0 14 5 [⟨some 0, .aln ⟨1, [⟨0, 1⟩, ⟨3, 99998⟩, ⟨0, 1⟩]⟩⟩,
      ⟨some 0, .aln ⟨50000, [⟨4, 3⟩, ⟨0, 11⟩]⟩⟩, ⟨some 2, .aln ⟨7, [⟨0, 5⟩]⟩⟩, ⟨none, .aln ⟨0, []⟩⟩,
      ⟨none, .aln ⟨0, []⟩⟩] ∧
    RidSorted [⟨some 0, .var ⟨1, 1, some (some (.integer 100000)), none, none⟩⟩,
      ⟨some 3, .var ⟨50000, 1, none, none, none⟩⟩] ∧
    JoinValid 4 3 14 5 [⟨some 0, .var ⟨1, 1, some (some (.integer 100000)), none, none⟩⟩,
      ⟨some 3, .var ⟨50000, 1, none, none, none⟩⟩] ∧
    JoinValid 0 0 14 5 [⟨some 1, .feat ⟨10, 20⟩⟩, ⟨some 1, .feat ⟨5, 5⟩⟩] ∧
    (resolveInterval 14 5 ⟨some 50005, none⟩).isSome := by
  refine ⟨by decide, by decide, by decide, by decide, by decide, by decide, by decide⟩

/-- reference order IS what the indexer requires: a file whose reference id decreases is refused
(`Err(InvalidInput)`), whatever the offsets -/
theorem indexer_refuses_unsorted (off : Nat → Nat) :
    indexAll 14 5 0 0 off 0 [] [⟨some 1, .feat ⟨10, 20⟩⟩, ⟨some 0, .feat ⟨5, 5⟩⟩] = none := by
  simp [indexAll, JRec.ctx?, Body.span?, addRecordJ, growRefs, modifyAt]

/-! ## the chunk reader over BGZF blocks (from C02) -/

/-- **The chunk endpoints name the record boundaries.** Over ANY well-formed block layout (empty
members anywhere, with or without an EOF marker), a reader that stands at the first record (flat
offset `hdr`) after ANY history and reads the records (`lens`: their positive encoded lengths) one
`read_exact` each reports, before record `m` (and after the last), a virtual position that resolves
to the flat offset `hdr + Σ_{i<m} len_i`. -/
theorem chunk_endpoints_name_boundaries {α : Type} (L : Layout α) (hL : WF L) (hdr : Nat)
    (lens : List Nat) (hpos : ∀ n ∈ lens, 0 < n) (hfit : hdr + lens.sum ≤ (flat L).length)
    (ops0 : List Noodles.Bgzf.RM.Op) (h0 : cursor L (runOps L ops0) = some hdr)
    (m : Nat) (hm : m ≤ lens.length) :
    resolve L ((scanTells L (runOps L ops0) lens).getD m (0, 0)).1
        ((scanTells L (runOps L ops0) lens).getD m (0, 0)).2 = some (bnd hdr lens m) :=
  Noodles.Bgzf.ChunkRead.scanTells_resolve L hL hdr lens hpos hfit ops0 h0 m hm

/-- **A chunk `[o_j, o_k)` serves exactly records `j..k-1`** — no longer an assumption. `o_j`, `o_k`
are the virtual positions the indexing pass observed (after ANY history `ops0` that left the reader
at the first record); the query runs on a reader in ANY reachable state (`ops1`): it seeks to `o_j`
(`Noodles.Props.C02.seek_names_byte`) and reads records while `virtual_position() < o_k`. It
delivers the bytes of records `j, …, k-1` of the uncompressed stream, in order, and nothing else —
also when a record spans a block boundary, ends exactly at the end of a block, or empty members lie
in between (where a fresh seek and a sequential read report DIFFERENT virtual positions for the
same byte). -/
theorem chunk_reader_serves_records {α : Type} (L : Layout α) (hL : WF L) (hdr : Nat)
    (lens : List Nat) (hpos : ∀ n ∈ lens, 0 < n) (hfit : hdr + lens.sum ≤ (flat L).length)
    (ops0 : List Noodles.Bgzf.RM.Op) (h0 : cursor L (runOps L ops0) = some hdr)
    (ops1 : List Noodles.Bgzf.RM.Op) (j k : Nat) (hjk : j < k) (hk : k ≤ lens.length) :
    (serveChunk L (runOps L ops1) ((scanTells L (runOps L ops0) lens).getD j (0, 0))
        ((scanTells L (runOps L ops0) lens).getD k (0, 0)) (lens.drop j)).2
      = some ((List.range (k - j)).map fun i => recBytes L hdr lens (j + i)) :=
  Noodles.Bgzf.ChunkRead.serveChunk_records L hL hdr lens hpos hfit ops0 h0 ops1 j k hjk hk

/-- … and the reader is left in a state from which the next chunk can be served (the invariant of
the C02 refinement holds again), so the statement composes over a chunk list -/
theorem chunk_reader_state_ok {α : Type} (L : Layout α) (hL : WF L) (hdr : Nat)
    (lens : List Nat) (hpos : ∀ n ∈ lens, 0 < n) (hfit : hdr + lens.sum ≤ (flat L).length)
    (ops0 : List Noodles.Bgzf.RM.Op) (h0 : cursor L (runOps L ops0) = some hdr)
    (ops1 : List Noodles.Bgzf.RM.Op) (j k : Nat) (hjk : j < k) (hk : k ≤ lens.length) :
    Inv L (serveChunk L (runOps L ops1) ((scanTells L (runOps L ops0) lens).getD j (0, 0))
        ((scanTells L (runOps L ops0) lens).getD k (0, 0)) (lens.drop j)).1 :=
  Noodles.Bgzf.ChunkRead.serveChunk_records_state L hL hdr lens hpos hfit ops0 h0 ops1 j k hjk hk

/-- non-vacuity of the chunk-reader theorems: a layout with an EMPTY member in the middle is
well-formed and a reader that has read a 1-byte header stands at flat offset 1 (the proof file
evaluates `serveChunk` on it: records ending at a member end / spanning the empty member) -/
example : WF Noodles.Bgzf.ChunkRead.exLayout ∧
    cursor Noodles.Bgzf.ChunkRead.exLayout (runOps Noodles.Bgzf.ChunkRead.exLayout [.readExact 1]) = some 1 :=
  ⟨Noodles.Bgzf.ChunkRead.exLayout_wf, Noodles.Bgzf.ChunkRead.exLayout_start⟩

/-! ## the end-to-end statement on top of the BGZF reader -/

/-- the record offsets of a BGZF file — the packed virtual positions the indexing pass observes —
are strictly increasing (the hypothesis `hmono` of `query_end_to_end` is a THEOREM for them) -/
theorem bgzf_offsets_increasing {α : Type} (L : Layout α) (hL : WF L) (lens : List Nat)
    (hpos : ∀ n ∈ lens, 0 < n) (s0 : Noodles.Bgzf.RM.R α) (hi0 : Inv L s0)
    (hfit : Noodles.Bgzf.RM.off L s0 + lens.sum ≤ (flat L).length) :
    ∀ a b, a < b → offOfTells (scanTells L s0 lens) a < offOfTells (scanTells L s0 lens) b :=
  offOfTells_mono L hL lens hpos s0 hi0 hfit

/-- every chunk a query returns is `[o_j, o_k)` for record boundaries `j < k` of the file (the chunk
endpoints are offsets the indexer was given — what makes the chunk reader theorem applicable) -/
theorem query_chunks_are_record_ranges (o : Nat → Nat) (hmono : ∀ a b, a < b → o a < o b)
    (minShift depth major minor : Nat) (file : List JRec) (refs : List RefIx)
    (hix : indexAll minShift depth major minor o 0 [] file = some refs) (nref q : Nat) (st : RefIx)
    (hst : (buildJ refs nref)[q]? = some st) (binned : Bool) (qs qe : Nat) :
    ∀ c ∈ st.query binned minShift depth qs qe,
      ∃ j k, j < k ∧ k ≤ file.length ∧ c.s = o j ∧ c.e = o k :=
  query_bnd o hmono minShift depth major minor file refs hix nref q st hst binned qs qe

/-- **Region query = linear scan, END TO END, over a BGZF file.** `query_end_to_end` with the chunk
reader abstraction REPLACED by the BGZF reader state machine of C02: `L` is ANY well-formed block
layout, `s0` the reader state at the first record when the file was indexed (any state satisfying
the C02 invariant, e.g. `runOps L ops`), `lens` the positive encoded lengths of the records of
`file`; the record offsets are the packed virtual positions the indexing pass observes; the query
runs on a reader in ANY state `s1`, seeks to every chunk start and reads records while
`virtual_position() < chunk.end()`. No offset-monotonicity hypothesis and no chunk-reader
assumption are left: both are consequences of the C02 model. -/
theorem query_end_to_end_bgzf {α : Type} (binned : Bool) (minShift depth major minor : Nat)
    (L : Layout α) (hL : WF L) (lens : List Nat) (hpos : ∀ n ∈ lens, 0 < n)
    (s0 : Noodles.Bgzf.RM.R α) (hi0 : Inv L s0)
    (hfit : Noodles.Bgzf.RM.off L s0 + lens.sum ≤ (flat L).length) (s1 : Noodles.Bgzf.RM.R α)
    (nref : Nat) (file : List JRec) (hlen : file.length = lens.length)
    (hgeom : maxPos minShift depth ≤ USIZE_MAX) (hsorted : RidSorted file)
    (hvalid : JoinValid major minor minShift depth file) :
    ∀ (q : Nat) (iv : Interval), q < nref → (∀ s, iv.start = some s → 1 ≤ s) →
      (resolveInterval minShift depth iv).isSome →
      joinQueryBgzf binned minShift depth major minor L s0 s1 lens nref file q iv =
        some (joinScan major minor file q iv) :=
  fun q iv hq hiv hin =>
    joinQueryBgzf_eq_scan binned minShift depth major minor L hL lens hpos s0 hi0 hfit s1 nref file
      hlen hgeom hsorted hvalid q iv hq hiv hin

/-- non-vacuity of `query_end_to_end_bgzf`: the initial reader state satisfies the invariant, so a
file without a header (`off = 0`) whose records fill the layout is an instance -/
example : Inv Noodles.Bgzf.ChunkRead.exLayout (Noodles.Bgzf.RM.R.init : Noodles.Bgzf.RM.R Nat) ∧
    Noodles.Bgzf.RM.off Noodles.Bgzf.ChunkRead.exLayout (Noodles.Bgzf.RM.R.init : Noodles.Bgzf.RM.R Nat)
      + [2, 3, 4].sum ≤ (flat Noodles.Bgzf.ChunkRead.exLayout).length :=
  ⟨Noodles.Bgzf.RM.inv_init _, by rw [Noodles.Bgzf.RM.off_init]; decide⟩

end Noodles.Props.C04
