import Noodles.Props.C15HdrTxt
import Noodles.Props.C15Rec
import Noodles.Props.C15Codec
import Noodles.Props.C15Text
import Noodles.Props.C15Bin
import Noodles.Hostile.Proof
import Noodles.Hostile.BcfProof
import Noodles.Hostile.CsiProof
import Noodles.Hostile.BgzfData
/-!
# C15 — corrupt or hostile input is reported as an error, never a panic

The transcribed decoders return `ok | err | panic`, where `panic` is produced exactly where the
Rust code indexes, slices, asserts, unwraps or overflows (`Noodles/Hostile/Basic.lean`). Each
theorem says that a decoder never answers `panic`, FOR EVERY BYTE STRING (no length bound other
than Rust's own: a slice is at most `isize::MAX` bytes), and that the accessors of what was
returned `ok` stay inside the buffer. Helper lemmas: `Noodles/Hostile/*Proof.lean`.

Two models describe the code AFTER a fix written for this property (`csi-index-geometry.diff`,
`bcf-record-bounds.diff`); for those the code as it was is kept as `… false …` / `…Unfixed`, the
`_partial` theorem states the validity hypothesis under which it did not panic, and the
`example`s are the concrete inputs on which it did.
-/
namespace Noodles.Props.C15
open Noodles.Hostile

/-! ## CRAM integer readers -/

theorem itf8_total_no_panic (s : Bytes) : Num.readItf8 s ≠ .panic := Num.readItf8_ne_panic s
theorem ltf8_total_no_panic (s : Bytes) : Num.readLtf8 s ≠ .panic := Num.readLtf8_ne_panic s
theorem uint7_total_no_panic (s : Bytes) : Num.readUint7 s ≠ .panic := Num.readUint7Loop_ne_panic s 0 0

/-! ## BGZF -/

/-- one frame off ANY byte stream, for ANY inflate/CRC behaviour of the compression library -/
theorem bgzf_frame_total_no_panic (D : Noodles.Bgzf.Deflater) (s : Bytes) :
    Frame.readFrame D s ≠ .panic := Frame.readFrame_ne_panic D s

/-- `read_to_end` over any byte stream -/
theorem bgzf_read_to_end_no_panic (D : Noodles.Bgzf.Deflater) (s : Bytes) :
    Frame.readToEnd D s ≠ .panic := Frame.readAll_ne_panic D _ s

/-- `Data::as_ref` (`&buf[pos..len]`) at every state reachable by ANY history of read / read_exact
/ fill_buf / consume / seek (any virtual position, also beyond a block) / seek-by-offset / tell over
any well-formed layout -/
theorem data_as_ref_no_panic {α : Type} (L : Noodles.Bgzf.RM.Layout α) (hL : Noodles.Bgzf.RM.WF L)
    (ops : List Noodles.Bgzf.RM.Op) :
    Data.dataAsRef (Noodles.Bgzf.RM.runOps L ops) ≠ .panic :=
  Data.dataAsRef_of_inv L hL _ (Noodles.Bgzf.RM.runOps_inv L hL ops)

/-- what the reader's `seek` guards against: a cursor beyond the block length panics in `as_ref` -/
example : Data.dataAsRef (⟨1, 30, 0, 30, [1, 2], 3⟩ : Noodles.Bgzf.RM.R Nat) = .panic := by decide

/-! ## BAM record -/

theorem bam_validate_total_no_panic (src : Bytes) : Bam.validate src ≠ .panic :=
  Bam.validate_ne_panic src

/-- `lazy_in_bounds`: once `validate` accepted the buffer, every lazy accessor of `bam::Record`
(name, CIGAR, sequence, quality scores, data) slices inside it -/
theorem bam_lazy_in_bounds (src : Bytes) (h : Bam.validate src = .ok ()) :
    Bam.rawName src ≠ .panic ∧ Bam.rawCigar src ≠ .panic ∧ Bam.rawSequence src ≠ .panic ∧
    Bam.rawQualityScores src ≠ .panic ∧ Bam.rawData src ≠ .panic :=
  Bam.accessors_in_bounds h

/-- `read_record` followed by touching every variable-length field, on ANY record body -/
theorem bam_read_and_touch_no_panic (src : Bytes) : Bam.readAndTouch src ≠ .panic :=
  Bam.readAndTouch_ne_panic src

/-- non-vacuity / why `validate` matters: on a 32-byte buffer that claims a 255-byte name the
accessor panics (this is `RecordRef::new`, whose documentation leaves the check to the caller) -/
example : Bam.rawName ((List.replicate 8 0) ++ [255] ++ List.replicate 23 0) = .panic := by decide
example : Bam.validate ((List.replicate 8 0) ++ [255] ++ List.replicate 23 0) = .err .eof := by decide
/-- a buffer `validate` accepts: the default record (`*`, no bases) -/
example : Bam.validate ([255,255,255,255, 255,255,255,255, 2, 255, 0x48,0x12, 0,0, 4,0, 0,0,0,0,
    255,255,255,255, 255,255,255,255, 0,0,0,0, 42, 0]) = .ok () := by decide

/-! ## BCF typed-value descriptors and the site index (code after `bcf-record-bounds.diff`) -/

theorem bcf_read_type_total_no_panic (src : Bytes) : Bcf.readType src ≠ .panic :=
  (Bcf.readType_sat src).ne_panic

/-- `index` on ANY shared block -/
theorem bcf_index_total_no_panic (site : Bytes) (hlen : site.length < 2^63) :
    Bcf.index site ≠ .panic := (Bcf.index_sat site hlen).ne_panic

/-- the bounds `index` stores are nested inside the block: `ids()`, `reference_bases()`,
`alternate_bases()`, `filters()` cannot slice out of range -/
theorem bcf_fields_in_bounds (site : Bytes) (hlen : site.length < 2^63) (b : Bcf.Bounds)
    (h : Bcf.index site = .ok b) : Bcf.fieldSlices site b ≠ .panic :=
  Bcf.fieldSlices_ne_panic ((Bcf.index_sat site hlen).of_ok h)

theorem bcf_read_and_touch_no_panic (site : Bytes) (hlen : site.length < 2^63) :
    Bcf.readAndTouch site ≠ .panic := by
  unfold Bcf.readAndTouch
  refine Res.bind_ne_panic (bcf_index_total_no_panic site hlen) ?_
  intro b hb
  exact bcf_fields_in_bounds site hlen b hb

/-- the code AS IT WAS panicked on these shared blocks (24 fixed bytes, then the typed values):
a string descriptor that claims 7 bytes where 1 is left (`&buf[len..]`), and an allele count of 0
(`allele_count - 1`). The fixed code answers `UnexpectedEof` / `InvalidData`. -/
example : Bcf.indexUnfixed (List.replicate 18 0 ++ [1, 0] ++ List.replicate 4 0 ++ [0x77, 0x41]) = .panic := by decide
example : Bcf.index (List.replicate 18 0 ++ [1, 0] ++ List.replicate 4 0 ++ [0x77, 0x41]) = .err .eof := by decide
example : Bcf.indexUnfixed (List.replicate 18 0 ++ [0, 0] ++ List.replicate 4 0 ++ [0x07, 0x17, 0x41, 0x00]) = .panic := by decide
example : Bcf.index (List.replicate 18 0 ++ [0, 0] ++ List.replicate 4 0 ++ [0x07, 0x17, 0x41, 0x00]) = .err .invalidData := by decide
/-- non-vacuity: a block `index` accepts (`.` ID, REF `A`, one allele, no filter) -/
example : Bcf.readAndTouch (List.replicate 18 0 ++ [1, 0] ++ List.replicate 4 0 ++ [0x07, 0x17, 0x41, 0x00])
    = .ok ([], [0x41], [], [0x00]) := by decide

/-! ## Querying an index with arbitrary contents (code after `csi-index-geometry.diff`) -/

/-- `reg2bins_in_bounds`: for a geometry whose positions fit a `usize` and an interval inside it,
`reg2bins` stays inside the bit vector of `max_id(depth)` bits: every marked id is below `max_id` -/
theorem reg2bins_in_bounds (start end_ minShift depth : Nat) (hs : 1 ≤ start) (he : 1 ≤ end_)
    (hgeo : minShift + 3 * depth < 64) (hmax : end_ ≤ 2 ^ (minShift + 3 * depth) - 1) :
    ∃ rs, Hostile.Csi.reg2bins (2 ^ ((depth + 1) * 3) / 7) start end_ minShift depth = .ok rs ∧
      ∀ i, Hostile.Csi.inRanges rs i = true → i < 2 ^ ((depth + 1) * 3) / 7 := by
  rw [Hostile.Csi.maxId_val]
  obtain ⟨rs, h1, h2⟩ := Hostile.Csi.reg2bins_ok start end_ minShift depth hs he hgeo hmax
  refine ⟨rs, h1, ?_⟩
  intro i hi
  simp only [Hostile.Csi.inRanges, List.any_eq_true, Bool.and_eq_true, decide_eq_true_eq] at hi
  obtain ⟨r, hr, _, hle⟩ := hi
  have := h2 r hr
  omega

/-- `query_no_panic`, FULL: with the fix, `ReferenceSequence::query` never panics — for every
`min_shift` and `depth` (also 0, also 255), every set of bin ids (also beyond `max_id`) and every
interval of positions -/
theorem csi_query_no_panic (minShift depth : Nat) (ids : List Nat) (start end_ : Option Nat)
    (hs : Hostile.Csi.PosOK start) (he : Hostile.Csi.PosOK end_) :
    Hostile.Csi.query true minShift depth ids start end_ ≠ .panic :=
  Hostile.Csi.query_fixed_ne_panic minShift depth ids start end_ hs he

/-- the code AS IT WAS: no panic provided the geometry is valid (`min_shift > 0`, `depth ≤ 9`,
positions fit 64 bits) and every bin id is below `max_id(depth)` — what the index readers did not
check -/
theorem csi_query_no_panic_partial (minShift depth : Nat) (ids : List Nat) (start end_ : Option Nat)
    (hs : Hostile.Csi.PosOK start) (he : Hostile.Csi.PosOK end_)
    (h0 : 0 < minShift) (hd : depth ≤ 9) (hgeo : minShift + 3 * depth < 64)
    (hids : ∀ id ∈ ids, id < 2 ^ ((depth + 1) * 3) / 7) :
    Hostile.Csi.query false minShift depth ids start end_ ≠ .panic := by
  rw [Hostile.Csi.maxId_val] at hids
  exact Hostile.Csi.query_unfixed_ne_panic minShift depth ids start end_ hs he h0 hd hgeo hids

/-- finding F9, the four witnesses: `min_shift = 0`, `depth = 11`, `depth = 10` (`1 << 33` on
`i32`), a BAI bin id 40000 ≥ `max_id(5)` = 37449, and a shift of 64; each is an error or an empty
answer for the fixed code -/
example : Hostile.Csi.query false 0 5 [] (some 1) (some 10) = .panic := by decide
example : Hostile.Csi.query false 14 11 [] (some 1) (some 10) = .panic := by decide
example : Hostile.Csi.query false 14 10 [] (some 1) (some 10) = .panic := by decide
example : Hostile.Csi.query false 14 5 [40000] (some 1) (some 10) = .panic := by decide
example : Hostile.Csi.query false 60 5 [] (some 1) (some 10) = .panic := by decide
example : Hostile.Csi.query true 0 5 [] (some 1) (some 10) = .err .invalidInput := by decide
example : Hostile.Csi.query true 14 11 [] (some 1) (some 10) = .err .invalidInput := by decide
example : Hostile.Csi.query true 14 5 [40000, 4681, 0] (some 1) (some 10) = .ok [4681, 0] := by decide
/-- non-vacuity of the partial theorem's hypotheses: the BAI geometry -/
example : (0 < 14) ∧ (5 ≤ 9) ∧ (14 + 3 * 5 < 64) ∧ (∀ id ∈ [0, 4681, 37448], id < 2 ^ ((5 + 1) * 3) / 7) := by decide

end Noodles.Props.C15
