import Noodles.Bgzf.IndexedReader
import Noodles.Bgzf.IndexedReaderProof
import Noodles.Bgzf.IndexedBsearch
import Noodles.Index.LinearProof
/-!
# C02 (extension) — `bgzf::io::IndexedReader`: random access by uncompressed offset

The indexed reader (model `Noodles.Bgzf.IR` over the block reader `Noodles.Bgzf.RM`), opened on ANY
well-formed layout with the gzi index OF that layout (`gziOf`: one entry per member but the first —
empty members and the EOF marker included), refines `std::io::Cursor` over the flat payload for
every history of read / read_exact / fill_buf / consume / seek(Start) / position queries.
`seek(Current|End)` and `stream_position` are `unimplemented!()` in noodles (a panic that leaves
the reader untouched); seeking beyond the end is an error, not a position as for `Cursor`.
Helper lemmas are in `Noodles/Bgzf/IndexedReaderProof.lean`.
-/
namespace Noodles.Props.C02
open Noodles.Bgzf.RM Noodles.Bgzf.IR

variable {α : Type}

/-- The reader state after any history of indexed-reader operations. -/
abbrev after (L : Layout α) (ops : List IOp) : R α := (irun L (gziOf L) R.init ops).1

/-- `seek(SeekFrom::Start(p))` for EVERY offset `p ≤ total` (the end of the stream included unless
the last member holds a full 65536 bytes) from any reachable state: returns `p`, and the reader then
names flat offset `p` — so by `read_refines` / `fillBuf_refines` / `readExact_refines` (whose
proofs only use the invariant) the following reads deliver exactly `payload.drop p`; see
`indexed_seek_then_read_exact` and `indexed_refines_cursor`. -/
theorem indexed_seek_start_lands (L : Layout α) (hL : WF L) (hS : Small L) (ops : List IOp)
    (p : Nat) (hp : p < (flat L).length ∨ (p = (flat L).length ∧ EndOk L)) :
    let r := istep L (gziOf L) (after L ops) (.seek (.start p))
    r.2 = .pos p ∧ cursor L r.1 = some p := by
  have hi := irun_inv L hL hS ops _ (inv_init L)
  obtain ⟨a, b, c⟩ := seekU_le_spec L hL hS (after L ops) p hp
  simp only [istep, seekFrom]
  split <;> rename_i heq <;> rw [heq] at a b c
  · exact ⟨rfl, by rw [cursor_of_inv L hL _ b, c]⟩
  · simp at a

/-- seek ∘ read_exact ≡ take ∘ drop on the flat payload. -/
theorem indexed_seek_then_read_exact (L : Layout α) (hL : WF L) (hS : Small L) (ops : List IOp)
    (p n : Nat) (hp : p + n ≤ (flat L).length) (hn : 0 < n) :
    (irun L (gziOf L) (after L ops) [.seek (.start p), .readExact n]).2 =
      [.pos p, .bytes (((flat L).drop p).take n)] := by
  have hi := irun_inv L hL hS ops _ (inv_init L)
  obtain ⟨a, b, c⟩ := seekU_le_spec L hL hS (after L ops) p (Or.inl (by omega))
  obtain ⟨_, _, r3, _⟩ := readExact_spec L hL _ n b
  obtain ⟨r3a, _⟩ := r3 (by omega)
  simp only [irun, istep, seekFrom]
  split <;> rename_i heq <;> rw [heq] at a b c r3a
  · simp only at r3a c ⊢
    split <;> rename_i heq2 <;> rw [heq2] at r3a
    · cases r3a; rw [c]
    · cases r3a
  · simp at a

/-- After `seek(Start(p))`, reading to the end in chunks of ANY size `n > 0` (any number `fuel` of
iterations that suffices: more than the bytes left) delivers EXACTLY `payload.drop p`. -/
theorem indexed_seek_then_read_all (L : Layout α) (hL : WF L) (hS : Small L) (ops : List IOp)
    (p n fuel : Nat) (hp : p < (flat L).length ∨ (p = (flat L).length ∧ EndOk L)) (hn : 0 < n)
    (hf : (flat L).length - p < fuel) :
    readAll L n fuel (istep L (gziOf L) (after L ops) (.seek (.start p))).1 [] =
      (flat L).drop p := by
  have hi := irun_inv L hL hS ops _ (inv_init L)
  obtain ⟨a, b, c⟩ := seekU_le_spec L hL hS (after L ops) p hp
  have e : (istep L (gziOf L) (after L ops) (.seek (.start p))).1 =
      (Noodles.Bgzf.IR.seekU L (gziOf L) (after L ops) p).1 := by
    simp only [istep, seekFrom]; split <;> rename_i heq <;> rw [heq]
  rw [e, readAll_spec L hL n hn fuel _ b [] (by rw [c]; exact hf), c]
  rfl

/-- non-vacuity of the size hypothesis -/
example : Small ([⟨35, [1, 2, 3]⟩, ⟨28, []⟩] : Layout Nat) := by
  unfold Small MAX_COMPRESSED; decide

/-- Seeking is idempotent, and more: where `seek(Start(p))` is served, the reader state afterwards
does not depend on the state before (nothing of the history survives a seek). -/
theorem indexed_seek_forgets_history (L : Layout α) (hL : WF L) (hS : Small L)
    (ops₁ ops₂ : List IOp) (p : Nat)
    (hp : p < (flat L).length ∨ (p = (flat L).length ∧ EndOk L)) :
    istep L (gziOf L) (after L ops₁) (.seek (.start p)) =
      istep L (gziOf L) (after L ops₂) (.seek (.start p)) := by
  have h1 := seekU_le_spec L hL hS (after L ops₁) p hp
  have h2 := seekU_le_spec L hL hS (after L ops₂) p hp
  have e := seekU_state_indep L (gziOf L) (after L ops₁) (after L ops₂) p h1.1
  simp only [istep, seekFrom]
  rw [e]

/-- Seeking BEYOND the end (where `Cursor` would just park) is an error for every layout:
`InvalidInput` after the last member has been loaded (the reader is left at a byte boundary), or
`InvalidData` with the reader untouched when the distance to the last member does not fit `u16`. -/
theorem indexed_seek_beyond_end_errors (L : Layout α) (hL : WF L) (hS : Small L)
    (ops : List IOp) (p : Nat) (hp : (flat L).length < p) :
    let r := istep L (gziOf L) (after L ops) (.seek (.start p))
    (r.2 = .err .invalidInput ∨ r = (after L ops, .err .invalidData)) ∧
    ∃ o, cursor L r.1 = some o ∧ o ≤ (flat L).length := by
  have hi := irun_inv L hL hS ops _ (inv_init L)
  have hinv := seekU_inv' L hL hS (after L ops) p hi
  have hb := seekU_beyond L hL (after L ops) p hp
  simp only [istep, seekFrom]
  split <;> rename_i heq <;> rw [heq] at hb hinv
  · rcases hb with h | h
    · simp at h
    · cases h
  · simp only at hb hinv ⊢
    refine ⟨?_, _, cursor_of_inv L hL _ hinv, off_le L _⟩
    rcases hb with h | h
    · left; cases h; rfl
    · right; cases h; rfl

/-- witnesses for both error kinds (total = 3; replayed on the real reader by the harness corpus):
offset 4 is mapped INTO the EOF member at in-block offset 1 (→ `Reader::seek` says `InvalidInput`),
offset 70000 is refused by `query` itself -/
example : query (gziOf ([⟨35, [1, 2, 3]⟩, ⟨28, []⟩] : Layout Nat)) 4 = .ok (35, 1) ∧
    query (gziOf ([⟨35, [1, 2, 3]⟩, ⟨28, []⟩] : Layout Nat)) 70000 = .error .invalidData :=
  ⟨rfl, rfl⟩

/-- The one offset `≤ total` that is NOT served: the end of a stream whose last member holds a full
65536 bytes (the in-block offset 65536 does not fit the `u16` of a virtual position, and `query`
does not use the "start of the next member" convention). `InvalidData`, reader untouched. -/
theorem indexed_seek_end_full_block (L : Layout α) (ops : List IOp) (hE : ¬ EndOk L) :
    istep L (gziOf L) (after L ops) (.seek (.start (flat L).length)) =
      (after L ops, .err .invalidData) := by
  simp only [istep, seekFrom]
  rw [seekU_end_full L _ hE]

/-- non-vacuity: such a layout exists (and is well-formed) -/
example : ¬ EndOk ([⟨100, List.replicate 65536 0⟩] : Layout Nat) ∧
    WF ([⟨100, List.replicate 65536 0⟩] : Layout Nat) := by
  refine ⟨fun h => ?_, ?_⟩
  · have : (List.replicate 65536 0).length < 65536 := h _ rfl
    rw [List.length_replicate] at this
    omega
  · intro b hb
    rw [List.mem_singleton] at hb
    subst hb
    refine ⟨by decide, ?_⟩
    show (List.replicate 65536 0).length ≤ MAX_ISIZE
    rw [List.length_replicate]
    unfold MAX_ISIZE; omega

/-- `SeekFrom::Current`, `SeekFrom::End` and `Seek::stream_position` are not implemented: the call
panics (`unimplemented!()`) before touching the reader. (As coded; `position()` is the COMPRESSED
position of the inner stream, not the uncompressed offset.) -/
theorem indexed_seek_current_end_unimplemented (L : Layout α) (g : Gzi) (s : R α) (d : Int) :
    istep L g s (.seek (.current d)) = (s, .panic) ∧ istep L g s (.seek (.end d)) = (s, .panic) ∧
    istep L g s .streamPosition = (s, .panic) ∧ istep L g s .position = (s, .pos s.position) :=
  ⟨rfl, rfl, rfl, rfl⟩

/-- The indexed reader refines `Cursor<payload>` along ANY interleaving of read, read_exact,
fill_buf, consume, seek(Start p) (any `p`, in range or not), seek(Current/End), stream_position,
position and virtual_position: before and after every operation the reported virtual position
names a flat offset, and the answer is one the cursor standing at that offset may give
(`IR.accepts`: read/fill_buf a non-empty prefix of `payload.drop o` unless at the end, read_exact
exactly `take n (drop o)` or `UnexpectedEof` with the cursor at the end, consume advances by the
clamped amount, seek(Start p) for `p ≤ total` answers `p` and moves to `p`, errors only where
`indexed_seek_beyond_end_errors` / `indexed_seek_end_full_block` say). -/
theorem indexed_refines_cursor (L : Layout α) (hL : WF L) (hS : Small L) (ops : List IOp) :
    Refines L (gziOf L) R.init ops :=
  refines_of_inv L hL hS ops _ (inv_init L)

/-- For the operations whose answer a cursor DETERMINES — read_exact and seek(Start p) with
`p ≤ total` — in any interleaving, the indexed reader's transcript EQUALS that of
`std::io::Cursor` over the flat payload (`IR.cursorRun`). -/
theorem indexed_equals_cursor (L : Layout α) (hL : WF L) (hS : Small L) (hE : EndOk L)
    (ops : List IOp) (outs : List (IOut α)) (h : cursorRun (flat L) 0 ops = some outs) :
    (irun L (gziOf L) R.init ops).2 = outs := by
  apply irun_eq_cursor L hL hS hE ops _ (inv_init L)
  rw [off_init]; exact h

/-- non-vacuity: a cursor transcript over a 3-member layout with an empty member in the middle -/
example : cursorRun (flat ([⟨35, [1, 2, 3]⟩, ⟨28, []⟩, ⟨31, [4, 5]⟩] : Layout Nat)) 0
    [.seek (.start 2), .readExact 2, .seek (.start 5), .readExact 1, .seek (.start 0)] =
    some [.pos 2, .bytes [3, 4], .pos 5, .err .eof, .pos 0] := by decide

/-- `query` on the index of the file lands IN the member that contains byte `p` — a NON-EMPTY
member: empty members (also several in a row, also the EOF marker mid-file) are skipped because the
LAST entry with uncompressed offset `≤ p` is chosen. -/
theorem indexed_query_lands_in_block (L : Layout α) (hL : WF L) (hS : Small L) (p : Nat)
    (hp : p < (flat L).length) :
    ∃ k b, L[k]? = some b ∧ uoff L k ≤ p ∧ p < uoff L k + b.data.length ∧
      query (gziOf L) p = .ok (coff L k, p - uoff L k) := by
  obtain ⟨k, hk, h1, h2, h3⟩ := gzi_member L p hp
  have hb : L[k]? = some L[k] := List.getElem?_eq_getElem hk
  have hsz := (hL _ (getElem?_mem L k _ hb)).2
  rw [uoff_succ L k _ hb] at h2
  refine ⟨k, L[k], hb, h1, h2, ?_⟩
  rw [query_eq_gziQuery _ _ (gziOf_small L hL hS), gziQuery_eq]
  simp only [h3]
  rw [if_pos (by unfold MAX_ISIZE at hsz; omega)]

/-- `query` is monotone: a larger uncompressed offset never maps to a smaller virtual position. -/
theorem indexed_query_monotone (L : Layout α) (hL : WF L) (p q : Nat) (hpq : p ≤ q)
    (v w : Nat × Nat) (hv : query (gziOf L) p = .ok v) (hw : query (gziOf L) q = .ok w) :
    VLe v w :=
  query_mono L hL p q hpq v w hv hw

/-- The subtraction `pos - uncompressed_pos` in `query` never underflows: in the model (where
`partition_point` is its contract — which is what std's binary search computes on every SORTED
index, `indexed_partition_point_is_binary_search`) the chosen entry satisfies the partition
predicate for any index content; and a successful answer is always a representable virtual
position. (On an unsorted index the real probe order may choose an entry beyond `pos`; that is
outside the model.) -/
theorem indexed_query_no_underflow (g : Gzi) (p : Nat) :
    (entry g p).2 ≤ p ∧ ∀ v, query g p = .ok v → v.1 < 2 ^ 48 ∧ v.2 < 2 ^ 16 := by
  refine ⟨entry_le g p, ?_⟩
  intro v hv
  rw [query_eq] at hv
  split at hv
  · cases hv
  · split at hv
    · cases hv
    · cases hv; simp only; unfold MAX_COMPRESSED at *; omega

/-- `slice::partition_point` AS EXECUTED (std's branch-free binary search, `IR.partitionPointBS`)
returns, on every index sorted by uncompressed offset — in particular on the index of any layout —
the length of the prefix on which `r.1 <= pos` holds, which is what `IR.query` uses. -/
theorem indexed_partition_point_is_binary_search (g : Gzi) (pos : Nat) (hs : SortedU g) :
    partitionPointBS g pos = partitionPoint g pos ∧
    ∀ (L : Layout α), partitionPointBS (gziOf L) pos = partitionPoint (gziOf L) pos :=
  ⟨partitionPointBS_eq g pos hs, fun L => partitionPointBS_eq _ pos (gziOf_sorted L)⟩

/-- non-vacuity: a sorted index with a duplicate -/
example : SortedU [(8, 21), (13, 21), (20, 55)] := by
  intro i j a b hij ha hb
  match i, j with
  | 0, 0 | 0, 1 | 0, 2 | 1, 1 | 1, 2 | 2, 2 => simp at ha hb; subst ha; subst hb; decide
  | 1, 0 | 2, 0 | 2, 1 => omega
  | i + 3, _ => simp at ha
  | 0, j + 3 | 1, j + 3 | 2, j + 3 => simp at hb

/-- A gzi index written to its file and read back (C17 `gzi_roundtrip`) answers every query as the
original does. -/
theorem indexed_gzi_file_same_answers (ix : Gzi) (h : Noodles.Index.Gzi.WF ix) (p : Nat) :
    (Noodles.Index.readGzi (Noodles.Index.encGzi ix)).map (fun g => query g p) =
      .ok (query ix p) := by
  rw [Noodles.Index.readGzi_rt ix h]; rfl

/-- `Builder::build_from_reader` without an index is `InvalidInput` ("missing index"); with one,
the reader starts at offset 0. -/
theorem indexed_builder (L : Layout α) (hL : WF L) (g : Gzi) :
    (build none : Except Err (Gzi × R α)) = .error .invalidInput ∧
    (build (some g) : Except Err (Gzi × R α)) = .ok (g, R.init) ∧
    cursor L (R.init : R α) = some 0 := by
  refine ⟨rfl, rfl, ?_⟩
  rw [cursor_of_inv L hL _ (inv_init L), off_init]

end Noodles.Props.C02
