import Noodles.Hostile.SamTextProof
import Noodles.Hostile.VcfTextProof
import Noodles.Hostile.BedTextProof
import Noodles.Hostile.GffTextProof
import Noodles.Hostile.FastxTextProof
/-!
# C15, text side — hostile lines are an error, never a panic

The lazy text records and line readers of noodles, transcribed with every slice, index, `unwrap`,
`assert`-like arm and overflow-checked addition explicit (`Noodles/Hostile/{TextKit,SamText,VcfText,
BedText,GffText,FastxText}.lean`). Each theorem is stated FOR EVERY BYTE STRING as the reader's
input (the only bound is Rust's own: a slice is at most `isize::MAX` bytes) and says that the
reader, and every accessor of what it returned `ok`, answers a value or an error — the slices the
accessors take lie inside the record buffer, `str` slices fall on `char` boundaries, the counters
do not overflow, the iterators end. Helper lemmas: `Noodles/Hostile/*TextProof.lean`.

Three record readers (SAM, VCF, BED) describe the code AFTER a fix written for this property
(`fixes/text-record-cr.diff`, parameter `fixed = true`): the code as it is pops the carriage
return of a CRLF line ending off the whole record buffer, also when it belongs to the previous
column, and the accessors then slice out of range. For those the transcription of the code as it is
(`fixed = false`) is kept: the `…_partial` theorems state the hypothesis under which it does not
panic (every CR is directly followed by LF), and the `example`s are the concrete lines on which it does — each
replayed on the real code by the harness's corpus.
-/
namespace Noodles.Props.C15
open Noodles.Hostile Noodles.Hostile.Text

/-! ## SAM: `sam::io::Reader::read_record` and the accessors of `sam::Record` -/

/-- `read_record` on ANY input (fixed code): the field reads, the `len += n` additions and the
final `read_line` do not panic -/
theorem sam_read_record_no_panic (input : Bytes) (hlen : input.length < 2 ^ 63) :
    SamText.readRecord true input ≠ .panic := SamText.readRecord_ne_panic input hlen

/-- `…_in_bounds`: whatever `read_record` returned `ok`, each of the eleven column ranges
`bounds.<column>_range()` is a non-reversed range inside the record buffer, and so is
`data_range()`: no accessor of `Fields` can slice out of range -/
theorem sam_fields_in_bounds (input : Bytes) (hlen : input.length < 2 ^ 63) (r : SamText.Rec) (n : Nat)
    (h : SamText.readRecord true input = .ok (r, n)) :
    (∀ k, k < 11 → fieldStart r.ends k ≤ r.ends.getD k 0 ∧ r.ends.getD k 0 ≤ r.buf.length) ∧
    (∀ k, k < 11 → r.field k ≠ .panic) ∧ r.mateName ≠ .panic ∧ r.data ≠ .panic ∧ n ≤ input.length := by
  have ok := (SamText.readRecord_sat input hlen).of_ok h
  have hc : r.ends.length = 11 := ok.count
  have he : EndsOK SamText.NoQ r.ends r.buf := ok.ends
  exact ⟨fun k hk => he.start_le (by omega),
    fun k hk => SamText.field_ne_panic he (by omega),
    SamText.mateName_ne_panic he hc, SamText.data_ne_panic he hc, ok.n_le⟩

/-- the reader followed by all twelve accessors, on ANY input -/
theorem sam_read_and_touch_no_panic (input : Bytes) (hlen : input.length < 2 ^ 63) :
    SamText.readAndTouch true input ≠ .panic := SamText.readAndTouch_ne_panic input hlen

/-- the code AS IT IS: no panic provided every carriage return of the input is directly followed
by a line feed (CRLF line endings are fine; then it reads exactly what the fixed code reads) -/
theorem sam_read_and_touch_no_panic_partial (input : Bytes) (hlen : input.length < 2 ^ 63)
    (hcr : CRLFOnly input) : SamText.readAndTouch false input ≠ .panic := by
  unfold SamText.readAndTouch
  rw [SamText.readRecord_crlf input hcr]
  exact SamText.readAndTouch_ne_panic input hlen

/-- the full statement is FALSE of the code as it is. `r<TAB>0<TAB>*<TAB>0<TAB>0<TAB>*<TAB>*<TAB>0
<TAB>0<TAB>A<CR><TAB><LF>`: SEQ is `A<CR>`, QUAL is empty and ends at the LF, the CR popped off the
buffer is SEQ's — `sequence_end` is one beyond the buffer and `sequence()` panics. Second line: the
same through `read_line` (`…<TAB>A<TAB>I<CR><TAB><LF>`, `data()` panics). The fixed code keeps the
CR in the column it belongs to. -/
def samWitness1 : Bytes := [114, 9, 48, 9, 42, 9, 48, 9, 48, 9, 42, 9, 42, 9, 48, 9, 48, 9, 65, 13, 9, 10]
def samWitness2 : Bytes := [114, 9, 48, 9, 42, 9, 48, 9, 48, 9, 42, 9, 42, 9, 48, 9, 48, 9, 65, 9, 73, 13, 9, 10]
example : SamText.readAndTouch false samWitness1 = .panic := by decide +kernel
example : SamText.readAndTouch false samWitness2 = .panic := by decide +kernel
example : SamText.readAndTouch true samWitness1 =
    .ok (22, [[114], [48], [42], [48], [48], [42], [42], [48], [48], [65, 13], [], []]) := by decide +kernel
example : SamText.readAndTouch true samWitness2 =
    .ok (24, [[114], [48], [42], [48], [48], [42], [42], [48], [48], [65], [73, 13], []]) := by decide +kernel
/-- non-vacuity of the partial theorem's hypothesis (a CRLF-terminated line; any input without CR
qualifies too), and of `sam_fields_in_bounds`: a line that the reader accepts -/
example : CRLFOnly [114, 9, 48, 9, 42, 9, 48, 9, 48, 9, 42, 9, 42, 9, 48, 9, 48, 9, 65, 9, 73, 13, 10] :=
  CRLFOnly.of_check (by decide +kernel)
example (s : Bytes) (h : CR ∉ s) : CRLFOnly s := CRLFOnly.of_not_mem h
/-- the witnesses violate it: their CR is followed by a TAB -/
example : ¬ CRLFOnly samWitness1 := fun h => by simpa [samWitness1, CR, LF] using h 19
example : SamText.readRecord true [114, 9, 48, 9, 42, 9, 48, 9, 48, 9, 42, 9, 42, 9, 48, 9, 48, 9, 65, 9, 73, 10]
    = .ok (⟨[114, 48, 42, 48, 48, 42, 42, 48, 48, 65, 73], [1, 2, 3, 4, 5, 6, 7, 8, 9, 10, 11]⟩, 22) := by
  decide +kernel

/-! ### CIGAR (`Cigar::iter`, `parse_op`) for any lawful `lexical-core` -/

/-- walking `Cigar::iter` over ANY bytes never panics (`&src[i..]` after `parse_partial`) -/
theorem sam_cigar_no_panic (fused : Bool) (L : SamText.Lexical) (hL : L.Lawful) (fuel : Nat) (src : Bytes) :
    SamText.cigarItems fused L fuel src ≠ .panic := SamText.cigarItems_ne_panic fused L hL fuel src

/-- the iterator as it is now ends: within `len + 1` calls it has returned `None`, after at most
`len` items — `Debug`, `count()`, `last()` return -/
theorem sam_cigar_iter_ends (L : SamText.Lexical) (hL : L.Lawful) (src : Bytes) :
    ∃ items, SamText.cigarItems true L (src.length + 1) src = .ok (items, true) ∧ items.length ≤ src.length :=
  SamText.cigarItems_ends L hL (src.length + 1) src (by omega)

/-- the iterator as it was before commit 6119650: on the CIGAR `+` it yields an error for ever -/
theorem sam_cigar_iter_unbounded_before_fix (f32 : Bytes → Option (Nat × Nat)) :
    ∀ fuel, SamText.cigarItems false (SamText.lexical f32) fuel [43] = .ok (List.replicate fuel none, false)
  | 0 => rfl
  | fuel + 1 => by
    have hp : SamText.parseOp (SamText.lexical f32) [43] = .ok (none, [43]) := by rfl
    unfold SamText.cigarItems
    simp only [List.isEmpty_cons, Bool.false_eq_true, if_false, hp, Res.bind_ok, Bool.false_and,
      sam_cigar_iter_unbounded_before_fix f32 fuel, List.replicate_succ]

/-! ### optional fields (`Data::iter`, `parse_field`, `parse_value`, arrays) -/

/-- walking `Data::iter` over ANY bytes never panics: every `&src[i..]` after a partial number
parse and every `split_at` is in range -/
theorem sam_data_no_panic (L : SamText.Lexical) (hL : L.Lawful) (fuel : Nat) (src : Bytes) :
    SamText.dataFields L fuel src ≠ .panic := SamText.dataFields_ne_panic L hL fuel src

/-- every accepted field consumes at least four bytes, so the walk does not depend on the fuel
once it exceeds the length (the model's recursion is the iterator's) -/
theorem sam_data_fuel_irrelevant (L : SamText.Lexical) (hL : L.Lawful) (f1 f2 : Nat) (src : Bytes)
    (h1 : src.length < f1) (h2 : src.length < f2) :
    SamText.dataFields L f1 src = SamText.dataFields L f2 src := SamText.dataFields_fuel L hL f1 f2 src h1 h2

/-- the law assumed of lexical-core holds of the transcription the driver runs (the transcription
itself is compared with the crate on every run, suite `c15 tlex`) -/
theorem lexical_model_lawful (f32 : Bytes → Option (Nat × Nat))
    (hf : ∀ s n i, f32 s = some (n, i) → i ≤ s.length) : (SamText.lexical f32).Lawful :=
  SamText.lexical_lawful f32 hf

/-- non-vacuity: a lawful `Lexical` exists, and a field list the walk accepts -/
example : (SamText.lexical fun _ => none).Lawful := SamText.lexical_lawful _ (by simp)
example : SamText.dataFields (SamText.lexical fun _ => none) 9 [78, 72, 58, 105, 58, 49, 9, 88, 66, 58, 66, 58, 99]
    = .ok ([⟨78, 72, .int32 1⟩, ⟨88, 66, .array 99 []⟩], none) := by decide +kernel

/-! ## VCF: `vcf::io::Reader::read_record` and the accessors of `vcf::Record` -/

theorem vcf_read_record_no_panic (input : Bytes) (hlen : input.length < 2 ^ 63) :
    VcfText.readRecord true input ≠ .panic := (VcfText.readRecord_sat input hlen).ne_panic

/-- `…_in_bounds`: each of the eight column slices and the samples slice of an accepted record is
in range AND on `char` boundaries of the `String` (the accessor returns `ok`), and what it returns
is valid UTF-8 again — the invariant the `&str` parsers below rely on -/
theorem vcf_fields_in_bounds (input : Bytes) (hlen : input.length < 2 ^ 63) (r : VcfText.Rec) (n : Nat)
    (h : VcfText.readRecord true input = .ok (r, n)) :
    (∀ k, k < 8 → ∃ s, r.field k = .ok s ∧ Bcf.isUtf8 s = true) ∧ (∃ s, r.tail = .ok s ∧ Bcf.isUtf8 s = true) := by
  have ok := (VcfText.readRecord_sat input hlen).of_ok h
  have hc : r.ends.length = 8 := ok.count
  have he : EndsOK VcfText.U r.ends r.buf := ok.ends
  have hv : VcfText.U r.buf := ok.valid
  exact ⟨fun k hk => VcfText.field_sat hv he (by omega), VcfText.tail_sat hv he hc⟩

/-- `Info::iter` (`next`, `read_key`, `read_value`: `split_at(i)`, `&rest[1..]`) over any valid
UTF-8 string -/
theorem vcf_info_no_panic (fuel : Nat) (src : Bytes) (h : Bcf.isUtf8 src = true) :
    VcfText.infoFields fuel src ≠ .panic := VcfText.infoFields_ne_panic fuel src h

/-- `Keys::iter` and `Samples::iter` (`parse_key`, `parse_sample`) over any valid UTF-8 string -/
theorem vcf_samples_no_panic (fuel : Nat) (src : Bytes) (h : Bcf.isUtf8 src = true) :
    VcfText.keysIter fuel src ≠ .panic ∧ VcfText.samplesIter fuel src ≠ .panic :=
  ⟨VcfText.keysIter_ne_panic fuel src h, (VcfText.samplesIter_sat fuel src h).ne_panic⟩

/-- the genotype parser (`next_allele` over `char_indices`, `&buf[..1]`, `&buf[1..]`) over any
valid UTF-8 string, multibyte characters at any position included -/
theorem vcf_genotype_no_panic (v : Bytes) (h : Bcf.isUtf8 v = true) : VcfText.genotype v ≠ .panic :=
  VcfText.genotype_ne_panic v h

/-- the reader followed by every accessor and iterator (columns, INFO fields, FORMAT keys,
samples, every `GT` value), on ANY input -/
theorem vcf_read_and_touch_no_panic (input : Bytes) (hlen : input.length < 2 ^ 63) :
    VcfText.readAndTouch true input ≠ .panic := VcfText.readAndTouch_ne_panic input hlen

/-- the code AS IT IS, under the same hypothesis as for SAM -/
theorem vcf_read_and_touch_no_panic_partial (input : Bytes) (hlen : input.length < 2 ^ 63)
    (hcr : CRLFOnly input) : VcfText.readAndTouch false input ≠ .panic := by
  unfold VcfText.readAndTouch
  rw [VcfText.readRecord_crlf input hcr]
  exact VcfText.readAndTouch_ne_panic input hlen

/-- the carriage-return witnesses: `chr<TAB>1<TAB>.<TAB>A<TAB>.<TAB>.<TAB>PASS<CR><TAB><LF>`
(`filters()` panics) and `chr<TAB>1<TAB>.<TAB>A<TAB>.<TAB>.<TAB>.<TAB>x<CR><TAB><LF>` (`info()`,
`samples()` panic) -/
def vcfWitness1 : Bytes := [99, 104, 114, 9, 49, 9, 46, 9, 65, 9, 46, 9, 46, 9, 80, 65, 83, 83, 13, 9, 10]
def vcfWitness2 : Bytes := [99, 104, 114, 9, 49, 9, 46, 9, 65, 9, 46, 9, 46, 9, 46, 9, 120, 13, 9, 10]
example : VcfText.readAndTouch false vcfWitness1 = .panic := by decide +kernel
example : VcfText.readAndTouch false vcfWitness2 = .panic := by decide +kernel
example : VcfText.readAndTouch true vcfWitness1 ≠ .panic := by decide +kernel
example : VcfText.readAndTouch true vcfWitness2 ≠ .panic := by decide +kernel
/-- non-vacuity: a multibyte genotype text (`é|1`) and what the parser makes of it; before
d10df78 `next_allele` split inside the `é` -/
example : Bcf.isUtf8 [0xc3, 0xa9, 124, 49] = true := by decide +kernel
example : VcfText.genotype [0xc3, 0xa9, 124, 49] = .ok [.ok [0xc3, 0xa9] true, .ok [49] true] := by decide +kernel
/-- without the validation the `str` slices do panic: a continuation byte after `|` -/
example : VcfText.genotype [124, 0xa9] = .panic := by decide +kernel

/-! ## BED: `bed::io::Reader::<N, _>::read_record` and the accessors of `bed::Record<N>` -/

/-- `…_in_bounds` for every `N`: the standard-field ends and the other-field ends are one
non-decreasing sequence inside the buffer -/
theorem bed_fields_in_bounds (N : Nat) (input : Bytes) (hlen : input.length < 2 ^ 63)
    (r : BedText.Rec) (n : Nat) (h : BedText.readRecord true N input = .ok (r, n)) :
    (∀ k, k < N → r.field k ≠ .panic) ∧ (∀ i, r.otherField i ≠ .panic) := by
  have ok := (BedText.readRecord_sat N input hlen).of_ok h
  have hc : r.std.length = N - 1 + 1 := ok.count
  have he : EndsOK BedText.NoQ (r.std ++ r.other) r.buf := ok.ends
  exact ⟨fun k hk => fieldSlice_ne_panic (BedText.EndsOK.prefix he) (by omega),
    fun i => BedText.otherField_ne_panic he i⟩

/-- the reader (comment lines skipped), the `N` standard accessors and `OtherFields::iter`, on ANY
input, for every `N` -/
theorem bed_read_and_touch_no_panic (N : Nat) (input : Bytes) (hlen : input.length < 2 ^ 63) :
    BedText.readAndTouch true N input ≠ .panic := BedText.readAndTouch_ne_panic N input hlen

/-- the code AS IT IS, under the same hypothesis as for SAM -/
theorem bed_read_and_touch_no_panic_partial (N : Nat) (input : Bytes) (hlen : input.length < 2 ^ 63)
    (hcr : CRLFOnly input) : BedText.readAndTouch false N input ≠ .panic := by
  unfold BedText.readAndTouch
  rw [BedText.readRecord_crlf N input hcr]
  exact BedText.readAndTouch_ne_panic N input hlen

/-- the carriage-return witness `sq0<TAB>1<TAB>2<CR><TAB><LF>` (`feature_end()` panics) -/
def bedWitness : Bytes := [115, 113, 48, 9, 49, 9, 50, 13, 9, 10]
example : BedText.readAndTouch false 3 bedWitness = .panic := by decide +kernel
example : BedText.readAndTouch true 3 bedWitness = .ok (10, [[115, 113, 48], [49], [50, 13]], [[]]) := by decide +kernel

/-! ## GFF3 / GTF: `Bounds::index`, the accessors, line kinds, directives -/

/-- `Bounds::index` on ANY line -/
theorem gff_bounds_no_panic (line : Bytes) (hlen : line.length < 2 ^ 63) : GffText.index line ≠ .panic :=
  (GffText.index_sat line hlen).ne_panic

/-- `…_in_bounds`: every recorded end counts its TAB, so `sans_delimiter`'s `i - 1` does not
underflow, and the nine ranges are non-reversed ranges inside the line -/
theorem gff_fields_in_bounds (line : Bytes) (hlen : line.length < 2 ^ 63) (ends : List Nat)
    (h : GffText.index line = .ok ends) :
    (∀ k, k < 8 → GffText.field line ends k ≠ .panic) ∧ GffText.attributes line ends ≠ .panic := by
  obtain ⟨h1, h2⟩ := (GffText.index_sat line hlen).of_ok h
  exact ⟨fun k hk => GffText.field_ne_panic h1 (by omega), GffText.attributes_ne_panic h1 h2⟩

/-- every view of a GFF3 line (`kind`, `as_directive` with `key` / `value`, `as_comment`,
`as_record` with all accessors), on ANY line -/
theorem gff_line_touch_no_panic (line : Bytes) (hlen : line.length < 2 ^ 63) :
    GffText.touchGff line ≠ .panic := GffText.touchGff_ne_panic line hlen

/-- the same for a GTF line (bounds and accessors; the attribute parser is C18's
`gtf_read_never_panics`) -/
theorem gtf_line_touch_no_panic (line : Bytes) (hlen : line.length < 2 ^ 63) :
    GffText.touchGtf line ≠ .panic := GffText.touchGtf_ne_panic line hlen

/-- non-vacuity: a record line `a<TAB>b<TAB>c<TAB>1<TAB>2<TAB>.<TAB>+<TAB>.<TAB>x` and its slices;
and what `sans_delimiter` guards against — an end of 0 underflows -/
example : GffText.recordAndTouch [97, 9, 98, 9, 99, 9, 49, 9, 50, 9, 46, 9, 43, 9, 46, 9, 120] =
    .ok ([[97], [98], [99], [49], [50], [46], [43], [46]], [120]) := by decide +kernel
example : GffText.field [97] [0] 0 = .panic := by decide +kernel

/-! ## FASTQ / FASTA -/

/-- `fastq::io::Reader::read_record` on ANY input: `src[i]`, `&src[..i]`, the `unreachable!()`
arm behind `memchr3`, the byte counters -/
theorem fastq_read_no_panic (src : Bytes) (hlen : src.length < 2 ^ 63) :
    FastxText.readFastq src ≠ .panic := FastxText.readFastq_ne_panic src hlen

/-- `fasta::io::Reader::read_definition` (`split_off(..i).unwrap()`) and the sequence view to its
end (`src[0]`, `&src[..i]`, `line.len() - 1`), on ANY input -/
theorem fasta_read_no_panic (src : Bytes) : FastxText.readFasta src ≠ .panic :=
  FastxText.readFasta_ne_panic src

/-- the sequence view makes progress: a `fill_buf` never panics, and a non-empty piece leaves a
strictly shorter input after `consume` — `read_to_end` over the view ends -/
theorem fasta_fill_buf_progress (src : Bytes) (piece rest : Bytes)
    (h : FastxText.fillBuf src = .ok (piece, rest)) :
    rest.length ≤ src.length ∧ (piece ≠ [] → rest.length < src.length) :=
  (FastxText.fillBuf_sat src).of_ok h

example : FastxText.readFastq [64, 114, 32, 100, 10, 65, 67, 10, 43, 10, 73, 73, 10] =
    .ok (some (⟨[114], [100], [65, 67], [73, 73]⟩, 13)) := by decide +kernel
example : FastxText.readFasta [62, 115, 32, 100, 13, 10, 65, 67, 13, 10, 10, 71, 10, 62, 116] =
    .ok (some (([115], [100]), [65, 67, 71])) := by decide +kernel

end Noodles.Props.C15
