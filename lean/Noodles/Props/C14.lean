import Noodles.Props.C14Once
import Noodles.Props.C14More
import Noodles.Bgzf.SinkModel
import Noodles.Bgzf.SinkProof
import Noodles.Props.C03
/-!
# C14 — writers never hide a sink failure; short writes and `Interrupted` are tolerated

The BGZF writer over a scripted destination (model `Noodles.Bgzf.SM`, transcribed from
noodles-bgzf `io/writer.rs` + `io/writer/frame.rs`; the destination is `adversary::ScriptSink`).
The theorems quantify over ALL destinations (any script of short writes and interruptions, any
fallback chunk size, any failure index `k`, any error kind), ALL write/flush histories, all
compression levels and — except where `D.Lawful` is assumed — any DEFLATE library at all.
Helper lemmas: `Noodles/Bgzf/SinkProof.lean`. The multithreaded writer's protocol is C03's
(`Noodles/Props/C03.lean`); its two C14-relevant theorems are restated at the end.

Format writers other than BGZF (BAM, BCF, CRAM, SAM, VCF, FASTA, FASTQ, GFF, BED, index writers)
are not modelled: they are covered by the oracle of `harness/src/props/c14.rs` only.
-/
namespace Noodles.Props.C14
open Noodles.Bgzf Noodles.Bgzf.SM Noodles.Codec

/-- **A destination failure is never hidden.** Run any history and then `try_finish`, stopping at
the first `Err`. If any call on the destination failed, then the call that was running returned an
error, and that error is the destination's own. (Contrapositive: if every call including
`try_finish` returned `Ok`, the destination never failed.) No assumption on the DEFLATE library. -/
theorem writer_reports_failure (D : Deflater) (lvl : Nat) (S : Sink) (ops : List Op)
    (hS : S.failed = false) :
    (runFinish D lvl (FW.init S) ops).2.sink.failed = true →
    (runFinish D lvl (FW.init S) ops).1 = some (.sink S.kind) := by
  intro hf
  obtain ⟨_, _, h⟩ := runFinish_spec D lvl (FW.init S) ops hS
  rcases h with ⟨_, a2, _⟩ | ⟨a1, _, _⟩ | ⟨_, _, a2, _⟩
  · rw [a2] at hf; cases hf
  · exact a1
  · rw [a2] at hf; cases hf

/-- **Every failure index inside the run is reported.** Take a destination that does not fail and
let `N` be the number of `write` calls the session (history, then `try_finish`) makes on it. For
every `k < N`, the same session on the same destination failing from call `k` on returns the
destination's error from one of its calls. -/
theorem failure_at_any_call_surfaces (D : Deflater) (lvl : Nat) (S : Sink) (ops : List Op) (k : Nat)
    (hS : S.failed = false) (hH : S.failAt = none) (hk0 : S.calls ≤ k)
    (hk : k < (runFinish D lvl (FW.init S) ops).2.sink.calls) :
    (runFinish D lvl (FW.init { S with failAt := some k }) ops).1 = some (.sink S.kind) := by
  have hS' : ({ S with failAt := some k } : Sink).failed = false := hS
  obtain ⟨hp, hc, h⟩ := runFinish_spec D lvl (FW.init { S with failAt := some k }) ops hS'
  have hheal : healW (FW.init { S with failAt := some k }) = FW.init S := by
    obtain ⟨a, sc, fb, c, fa, kd, f⟩ := S
    simp only at hH
    subst hH
    rfl
  have hcalls : CallsOK (runFinish D lvl (FW.init { S with failAt := some k }) ops).2.sink := by
    apply hc
    intro k' hk' _
    have : k' = k := by
      have : some k = some k' := hk'
      exact (Option.some.inj this).symm
    subst this
    exact hk0
  have key : (runFinish D lvl (FW.init { S with failAt := some k }) ops).2.sink.failed = false → False := by
    intro hnf
    have g := runFinish_heal D lvl (FW.init { S with failAt := some k }) ops hS' hnf
    rw [hheal] at g
    rw [g] at hk
    have hfa : (runFinish D lvl (FW.init { S with failAt := some k }) ops).2.sink.failAt = some k := hp.2.1
    have := hcalls k hfa hnf
    have e : (healW (runFinish D lvl (FW.init { S with failAt := some k }) ops).2).sink.calls =
        (runFinish D lvl (FW.init { S with failAt := some k }) ops).2.sink.calls := rfl
    simp only [e] at hk
    omega
  rcases h with ⟨_, a2, _⟩ | ⟨a1, _, _⟩ | ⟨_, _, a2, _⟩
  · exact absurd a2 (fun h => key h)
  · exact a1
  · exact absurd a2 (fun h => key h)

/-- **All `Ok` ⇒ complete file.** If every call of the session including `try_finish` returned `Ok`
on a fresh destination, then — whatever the destination's short-write / interruption script — the
bytes it accepted are a BGZF file that the reader decodes to exactly the payload written. -/
theorem all_ok_complete (D : Deflater) (hD : D.Lawful) (lvl : Nat) (S : Sink) (ops : List Op)
    (hS : S.failed = false) (hA : S.accepted = [])
    (hok : (runFinish D lvl (FW.init S) ops).1 = none) :
    readToEnd D (runFinish D lvl (FW.init S) ops).2.sink.accepted = .ok (payload ops) := by
  obtain ⟨_, _, h⟩ := runFinish_spec D lvl (FW.init S) ops hS
  have hinit : (FW.init S).pure = Writer.init := by simp [FW.init, FW.pure, Writer.init, hA]
  obtain ⟨pw, h1, h2⟩ := prunFinish_ok D hD lvl ops
  rcases h with ⟨_, _, a3⟩ | ⟨a1, _, _⟩ | ⟨_, a1, _, _⟩
  · rw [hinit, h1] at a3
    injection a3 with a3
    rw [a3] at h2
    exact h2
  · rw [hok] at a1; cases a1
  · rw [hok] at a1; cases a1

/-- **Short writes and `Interrupted` do not change the output.** Two destinations that never fail
hard, with ANY two scripts of partial acceptances and interruptions: every session returns the
same result on both, and when it is `Ok` the accepted bytes and `position()` are identical. -/
theorem short_writes_identical (D : Deflater) (lvl : Nat) (S₁ S₂ : Sink) (ops : List Op)
    (h1 : S₁.failed = false) (h2 : S₂.failed = false) (f1 : S₁.failAt = none) (f2 : S₂.failAt = none)
    (hA : S₁.accepted = S₂.accepted) :
    (runFinish D lvl (FW.init S₁) ops).1 = (runFinish D lvl (FW.init S₂) ops).1 ∧
    ((runFinish D lvl (FW.init S₁) ops).1 = none →
      (runFinish D lvl (FW.init S₁) ops).2.sink.accepted = (runFinish D lvl (FW.init S₂) ops).2.sink.accepted ∧
      (runFinish D lvl (FW.init S₁) ops).2.position = (runFinish D lvl (FW.init S₂) ops).2.position) := by
  obtain ⟨_, _, a⟩ := runFinish_spec D lvl (FW.init S₁) ops h1
  obtain ⟨_, _, b⟩ := runFinish_spec D lvl (FW.init S₂) ops h2
  have hinit : (FW.init S₁).pure = (FW.init S₂).pure := by simp [FW.init, FW.pure, hA]
  rw [hinit] at a
  rcases a with ⟨a1, _, a3⟩ | ⟨_, _, a3⟩ | ⟨e, a1, _, a3⟩
  · rcases b with ⟨b1, _, b3⟩ | ⟨_, _, b3⟩ | ⟨e', b1, _, b3⟩
    · rw [a3] at b3
      injection b3 with b3
      refine ⟨by rw [a1, b1], fun _ => ⟨?_, ?_⟩⟩
      · exact congrArg Writer.sink b3
      · exact congrArg Writer.position b3
    · exact absurd f2 b3
    · rw [a3] at b3; cases b3
  · exact absurd f1 a3
  · rcases b with ⟨b1, _, b3⟩ | ⟨_, _, b3⟩ | ⟨e', b1, _, b3⟩
    · rw [a3] at b3; cases b3
    · exact absurd f2 b3
    · rw [a3] at b3
      injection b3 with b3
      subst b3
      exact ⟨by rw [a1, b1], fun h => by rw [a1] at h; cases h⟩

/-- **Healthy destination ⇒ every call is `Ok` and the file is complete**, for every short-write /
interruption script (so such destinations give exactly the plain sink's file, by C01). -/
theorem healthy_sink_complete (D : Deflater) (hD : D.Lawful) (lvl : Nat) (S : Sink) (ops : List Op)
    (hS : S.failed = false) (hF : S.failAt = none) (hA : S.accepted = []) :
    (runFinish D lvl (FW.init S) ops).1 = none ∧
    readToEnd D (runFinish D lvl (FW.init S) ops).2.sink.accepted = .ok (payload ops) := by
  obtain ⟨_, _, h⟩ := runFinish_spec D lvl (FW.init S) ops hS
  have hinit : (FW.init S).pure = Writer.init := by simp [FW.init, FW.pure, Writer.init, hA]
  obtain ⟨pw, h1, _⟩ := prunFinish_ok D hD lvl ops
  have hok : (runFinish D lvl (FW.init S) ops).1 = none := by
    rcases h with ⟨a1, _, _⟩ | ⟨_, _, a3⟩ | ⟨_, _, _, a3⟩
    · exact a1
    · exact absurd hF a3
    · rw [hinit, h1] at a3; cases a3
  exact ⟨hok, all_ok_complete D hD lvl S ops hS hA hok⟩

/-- **Dropping the writer without finishing** (healthy destination, any script): `Drop` runs
`try_finish`, so the staged data and the EOF marker are emitted and the file reads back to the
payload. -/
theorem drop_flushes (D : Deflater) (hD : D.Lawful) (lvl : Nat) (S : Sink) (ops : List Op)
    (hS : S.failed = false) (hF : S.failAt = none) (hA : S.accepted = []) :
    readToEnd D (session D lvl (FW.init S) ops .drop).2.sink.accepted = .ok (payload ops) := by
  obtain ⟨hok, hr⟩ := healthy_sink_complete D hD lvl S ops hS hF hA
  have : (session D lvl (FW.init S) ops .drop).2 = (runFinish D lvl (FW.init S) ops).2 := by
    unfold session runFinish at *
    cases hR : run D lvl (FW.init S) ops with
    | mk r w' =>
      rw [hR] at hok
      cases r with
      | some e => simp only at hok; cases hok
      | none => rfl
  rw [this]; exact hr

/-- what a caller sees of a session that ends with `finish()` or `try_finish()` is the result of
history-then-`try_finish` (the extra `Drop` after a failed `finish()` cannot report anything) -/
theorem session_result (D : Deflater) (lvl : Nat) (w : FW) (ops : List Op) (e : End)
    (he : e ≠ .drop) : (session D lvl w ops e).1 = (runFinish D lvl w ops).1 := by
  unfold session runFinish
  cases hR : run D lvl w ops with
  | mk r w' =>
    cases r with
    | some err => rfl
    | none =>
      cases e with
      | drop => exact absurd rfl he
      | tryFinish => rfl
      | finish =>
        simp only
        cases hT : tryFinish D lvl w' with
        | mk r2 w'' => cases r2 <;> rfl

/-- **`try_finish` quirk, as in the code:** once the staged block is flushed, `position()` is
advanced by the 28 bytes of the EOF marker whether or not the destination accepted them. -/
theorem try_finish_position (D : Deflater) (lvl : Nat) (w w' : FW)
    (h : flush D lvl w = (none, w')) :
    (tryFinish D lvl w).2.position = w'.position + 28 ∧
    (tryFinish D lvl w).1 = (w'.sink.writeAllF EOF_MARKER).1 := by
  rw [tryFinish_flush_ok D lvl w w' h]
  exact ⟨rfl, rfl⟩

/-- witness of the quirk: a destination failing at its first call — `try_finish` returns the error,
nothing was accepted, and `position()` nevertheless says 28 -/
example (D : Deflater) :
    (tryFinish D 6 (FW.init (Sink.fresh [] 0 (some 0) 7))).1 = some (.sink 7) ∧
    (tryFinish D 6 (FW.init (Sink.fresh [] 0 (some 0) 7))).2.position = 28 ∧
    (tryFinish D 6 (FW.init (Sink.fresh [] 0 (some 0) 7))).2.sink.accepted = [] := by
  refine ⟨?_, ?_, ?_⟩ <;> rfl

/-- a toy DEFLATE library for the non-vacuity examples: identity "compression", constant CRC -/
def toyD : Deflater :=
  ⟨fun _ x => x, fun c n => if n = 0 then some [] else if c.length = n then some c else none, fun _ => 0⟩

/-- … which satisfies every law the theorems assume -/
theorem toyD_lawful : toyD.Lawful where
  roundtrip := by
    intro l x
    cases x with
    | nil => rfl
    | cons a t => simp [toyD]
  level0 := by
    intro x hx
    have h1 : MAX_BUF = 65495 := by decide
    have h2 : MAX_COMPRESSED = 65510 := by decide
    show x.length ≤ MAX_COMPRESSED
    omega
  crc_lt := by intro x; show 0 < 2^32; decide
  eof_block := rfl
  crc_nil := rfl

/-- non-vacuity of the `Lawful` theorems: a lawful library, a destination that interrupts and
accepts 1 then 3 bytes at a time, a three-call history — everything is `Ok` and reads back -/
example :
    (runFinish toyD 6 (FW.init (Sink.fresh [.interrupted, .accept 1] 3 none 7))
        [.write [65, 66], .flush, .write [67]]).1 = none ∧
    readToEnd toyD (runFinish toyD 6 (FW.init (Sink.fresh [.interrupted, .accept 1] 3 none 7))
        [.write [65, 66], .flush, .write [67]]).2.sink.accepted = .ok [65, 66, 67] :=
  healthy_sink_complete toyD toyD_lawful 6 _ _ rfl rfl rfl

/-- non-vacuity of `failure_at_any_call_surfaces`: writing one byte and finishing makes 15 calls on
a destination that takes whole buffers (14 `write_all`s of the frame + the EOF marker), so the
hypothesis `k < N` is satisfiable for k = 0 … 14; with one-byte acceptances and an interruption the
same session makes 56 calls, and the accepted bytes are the same. -/
example : (runFinish toyD 6 (FW.init (Sink.fresh [] 100 none 7)) [.write [65]]).2.sink.calls = 15 := by
  decide

example :
    (runFinish toyD 6 (FW.init (Sink.fresh [.interrupted] 1 none 7)) [.write [65]]).2.sink.calls = 56 ∧
    (runFinish toyD 6 (FW.init (Sink.fresh [.interrupted] 1 none 7)) [.write [65]]).2.sink.accepted =
      (runFinish toyD 6 (FW.init (Sink.fresh [] 100 none 7)) [.write [65]]).2.sink.accepted := by
  decide

/-- … and with the failure at call 9 (inside the frame header) the session reports it -/
example :
    (runFinish toyD 6 (FW.init (Sink.fresh [] 100 (some 9) 7)) [.write [65]]).1 = some (.sink 7) := by
  decide

/-! ## the multithreaded writer (protocol model of C03) -/

/-- C03's `mtw_error_surfaces`: when the destination rejects frame `k`, every schedule in which
`finish()` (or the failing `send`) returned has handed the error to the caller -/
theorem mtw_error_surfaces (total cap k : Nat) (hk : k < total) (s : Noodles.MtModel.W)
    (h : Noodles.MtModel.WReach total cap (some k) s) (hj : s.joined = true) :
    s.observed = true ∧ s.sink = Noodles.MtModel.frames k :=
  Noodles.Props.C03.mtw_error_surfaces total cap k hk s h hj

/-- C03's `mtw_ok_complete`: healthy destination, `finish()` returned ⇒ complete file, no error -/
theorem mtw_ok_complete (total cap : Nat) (s : Noodles.MtModel.W)
    (h : Noodles.MtModel.WReach total cap none s) (hj : s.joined = true) :
    s.observed = false ∧ s.sink = Noodles.MtModel.frames total ++ [none] :=
  Noodles.Props.C03.mtw_ok_complete total cap s h hj

end Noodles.Props.C14
