import Noodles.Cram.Tok
import Noodles.Cram.TokProof
/-!
# C08 (extension) — the CRAM 3.1 read name tokenizer decodes its own encoding back to the names

Model: `Noodles/Cram/Tok.lean`, transcribed from `noodles-cram/src/codecs/name_tokenizer/{encode.rs,
decode.rs, decode/header.rs}` and `name_tokenizer.rs` — encoder AND decoder are noodles' own (the
decoder with the hardening fix `b8ecbd9`). Lemmas: `Noodles/Cram/TokProof.lean`.

The compressor of the inner token byte streams is a parameter `c : StreamCodec`
(`rans_nx16::encode(Flags::empty(), ·)`, `rans_nx16::decode(·, 0)`, `aac::decode(·, 0)`); what is
assumed of it is `c.Lawful`: a byte string that `c.enc` encodes, `c.dec` decodes back. For rANS
Nx16 that is `rans_nx16_roundtrip` of `C08.lean` (against the specification decoder); the harness
checks the law for the real functions on every inner stream of every run.

Which byte strings are lists of names. `encode` takes ONE byte string: the empty string is the
empty list; otherwise one trailing NUL is dropped and the rest is split at every NUL (`splitNames`),
so a name is any byte string without NUL — empty names, non-ASCII bytes, any length. `decode`
returns every name followed by a NUL (`joinNul`). Hence:
* `name_tokenizer_roundtrip`: whatever `encode` answers, `decode` returns
  `joinNul (splitNames src)`;
* that is `src` itself exactly when `src` is empty or ends in NUL
  (`name_tokenizer_roundtrip_terminated`); an input whose last name is not terminated comes back
  with the NUL added (`name_tokenizer_unterminated`, witness `"a"` → `"a\0"`; the names are the
  same). The full-strength statement `decode (encode src) = src` for EVERY byte string is therefore
  false, and the harness oracle demands byte identity only for terminated inputs.
* The encoder refuses (`InvalidInput`) a name with 127 or more raw tokens (the decoder holds 128
  tokens per name including the distance token and `End`), a numeric token with a leading zero that
  fits `u32` but is longer than 255 bytes (its width is stored in a byte), and inputs of 4 GiB;
  `name_tokenizer_encoder_answers` shows it answers in every other case. Digit runs that do not fit
  `u32` (with or without leading zeros) are strings; a token with a leading zero keeps its width
  (`Digits0`/`Delta0`) and is never delta-coded against a plain number.
-/
namespace Noodles.Props.C08
open Noodles.Cram.Tok

/-- the flat codec of the driver: lawful, so the hypotheses below are satisfiable -/
def flatCodec : StreamCodec := { enc := some, dec := some, decAlt := fun x => some x.reverse }

theorem flatCodec_lawful : flatCodec.Lawful := by
  intro x y _ h
  cases h
  rfl

/-! ## raw tokens -/

/-- `tokenize` cuts a name into non-empty pieces, each of one class (alphanumeric or not), that
concatenate to the name. -/
theorem tok_tokenize_partition (name : Bytes) :
    (tokenize name).flatten = name ∧
    ∀ t ∈ tokenize name, t ≠ [] ∧ ∀ x ∈ t, ∀ y ∈ t, isAlnum x = isAlnum y := by
  refine ⟨flatten_tokenize name, ?_⟩
  intro t ht
  obtain ⟨c, r, rfl, hu⟩ := tokenize_uniform name t ht
  exact ⟨by simp, fun x hx y hy => by rw [hu x hx, hu y hy]⟩

/-! ## what the encoder decides (`build_first_diff`, `build_diff`, the duplicate search) -/

/-- For EVERY list of names the diffs built by `encode` are: one per name, with the raw tokens of
that name; name 0 a `Diff(0)` coded against nothing; every later name either a `Dup(k - j)` of an
EARLIER name `j ≥ 1` with the same bytes whose own diff is not a duplicate (name 0 is never found by
the search) and coded against it, or a `Diff(1)` coded against its predecessor. -/
theorem tok_build_diffs_spec (names : List Bytes) : Spec names (buildDiffs names) :=
  buildDiffs_spec names

example : (buildDiffs [[97], [97], [97]]).map (·.mode) = [.diff 0, .diff 1, .dup 1] := by decide

/-! ## token level -/

/-- One token: for a raw token `s` of a name without NUL, whatever `build_diff` chooses against the
previous name's raw token / token at this position (`Match`, `Delta`, `Delta0`, `Digits0`, `Digits`,
`Char`, `String`), what `write_token` appends to the ten streams is read back by `read_token` —
given the decoder's token `pd` of the previous name — as a token that prints as `s`, consuming
exactly what was appended; and the new pair again satisfies the relation `PrevOK` that the next
name relies on (a numeric encoder token carries the value, and padded the width, that the decoder
holds: no `u32` overflow of `n + delta`, no lost leading zeros). -/
theorem tok_single_token (s : Bytes) (hs : RawTok s) (pr : Option Bytes) (pt : Option Token)
    (pd : Option DTok)
    (hprev : ∀ r t, pr = some r → pt = some t → ∃ d, pd = some d ∧ PrevOK t r d)
    (hok : tokOk (diffToken pr pt s)) (R : Streams) :
    ∃ dt, readToken ((tokBytes (diffToken pr pt s)).append R) pd = .ok (some dt, R) ∧
      render dt = s ∧ PrevOK (diffToken pr pt s) s dt := by
  obtain ⟨dt, h1, h2⟩ := readToken_diffToken s hs pr pt pd hprev hok R
  exact ⟨dt, h1, h2.1, h2⟩

-- `RawTok` is satisfiable: every raw token of a name without NUL
example : RawTok [48, 55] := rawTok_of_tokenize [48, 55] (by decide) [48, 55] (by decide)

/-- `tok_names_roundtrip` (detokenise ∘ tokenise = id): for EVERY list of names without NUL — empty
names, duplicates at any distance, any bytes, digit runs of any length — if the encoder's token
count check passes and `write_token` accepts every token, then the decoder's name loop
(`decode_single_name` for `names.length` names) on the encoder's token streams returns exactly the
names. -/
theorem tok_names_roundtrip (names : List Bytes) (ws : List Streams)
    (hnul : ∀ nm ∈ names, 0 ∉ nm) (hmax : maxTokenCount (buildDiffs names) < 128)
    (h : tokenStreams (buildDiffs names) = .ok ws) :
    decodeNames names.length ws [] = .ok names :=
  decodeNames_tokenStreams names ws hnul hmax h

-- the hypotheses are satisfiable: "6.", "07.", "07.", "", "099", "100", "100"
example : (tokenStreams (buildDiffs [[54, 46], [48, 55, 46], [48, 55, 46], [], [48, 57, 57],
    [49, 48, 48], [49, 48, 48]])).toOption.isSome = true := by decide

/-! ## stream level -/

/-- `tok_streams_roundtrip` (parse ∘ serialise = id): under the codec law, token streams of at most
128 positions, each with a non-empty type stream and consisting of bytes, serialised by
`encode_token_byte_streams` (type byte with the new-token flag, uint7 length, compressed stream;
empty streams omitted) are read back exactly by `decode_token_byte_streams`, for any declared name
count. -/
theorem tok_streams_roundtrip (c : StreamCodec) (hc : c.Lawful) (n : Nat) (ws : List Streams)
    (bs : Bytes) (hws : ∀ w ∈ ws, w.ty ≠ [] ∧ w.IsBytes) (hlen : ws.length ≤ 128)
    (h : serialise c ws = .ok bs) :
    parseStreams c 0 n (bs.length + 1) bs [] = .ok ws := by
  have := parse_serialise c hc n ws [] bs (bs.length + 1) hws (by simpa using hlen) h (by omega)
  simpa using this

example : ∃ bs, serialise flatCodec [{ ty := [6], diff := [0, 0, 0, 0] }, { ty := [12] }] = .ok bs :=
  ⟨_, rfl⟩

/-- The encoder's own token streams satisfy the hypotheses of `tok_streams_roundtrip`: every
position `0 ..= max_token_count` has a type stream (a duplicate never is the only name with that
many tokens) and all streams consist of bytes. -/
theorem tok_encoder_streams_wellformed (names : List Bytes) (ws : List Streams)
    (hne : names ≠ []) (hb : ∀ nm ∈ names, ∀ x ∈ nm, x < 256)
    (h : tokenStreams (buildDiffs names) = .ok ws) :
    ws.length = maxTokenCount (buildDiffs names) + 1 ∧ ∀ w ∈ ws, w.ty ≠ [] ∧ w.IsBytes := by
  have hspec := buildDiffs_spec names
  obtain ⟨e, ok⟩ := tokenStreams_ok _ _ h
  have hD : buildDiffs names ≠ [] := by
    intro hD
    have := hspec.1
    rw [hD] at this
    exact hne (List.eq_nil_of_length_eq_zero this.symm)
  refine ⟨by rw [e]; simp, ?_⟩
  intro w hw
  rw [e] at hw
  obtain ⟨p, hp, rfl⟩ := List.mem_map.mp hw
  have hp' : p ≤ maxTokenCount (buildDiffs names) := by
    have := List.mem_range.mp hp; omega
  exact ⟨ty_position_ne_nil _ _ hspec hD p hp',
    isBytes_streamsAt _ p (fun d hd => isBytes_contrib _ _ hspec hb ok d hd p)⟩

/-! ## composition -/

/-- `name_tokenizer_roundtrip`: for EVERY byte string `src` and every lawful inner codec, whatever
`name_tokenizer::encode` answers, `name_tokenizer::decode` accepts and returns the names of `src`,
each followed by a NUL. -/
theorem name_tokenizer_roundtrip (c : StreamCodec) (hc : c.Lawful) (src bs : Bytes)
    (hb : ∀ x ∈ src, x < 256) (h : encode c src = .ok bs) :
    decode c bs = .ok (joinNul (splitNames src)) :=
  decode_encode c hc src bs hb h

/-- the canonical form: the input itself when it is empty or NUL-terminated, otherwise the input
with the missing NUL added; the names have no NUL inside -/
theorem tok_names_of_input (src : Bytes) :
    (joinNul (splitNames src) =
      if src = [] then [] else if src.getLast? = some 0 then src else src ++ [0]) ∧
    ∀ nm ∈ splitNames src, 0 ∉ nm :=
  ⟨joinNul_splitNames src, splitNames_noNul src⟩

/-- `name_tokenizer_roundtrip_terminated`: an empty or NUL-terminated input (a list of names as
CRAM stores it) comes back byte for byte. -/
theorem name_tokenizer_roundtrip_terminated (c : StreamCodec) (hc : c.Lawful) (src bs : Bytes)
    (hb : ∀ x ∈ src, x < 256) (hterm : src = [] ∨ src.getLast? = some 0)
    (h : encode c src = .ok bs) : decode c bs = .ok src := by
  rw [decode_encode c hc src bs hb h, joinNul_splitNames]
  rcases hterm with h0 | h0
  · rw [if_pos h0, h0]
  · by_cases he : src = []
    · rw [if_pos he, he]
    · rw [if_neg he, if_pos h0]

-- the encoder answers on: empty input; "\0"; "x.9\0x.10\0x.10\0x.07\0" (Digits, Delta, Dup, Digits0)
example : (encode flatCodec []).toOption.isSome = true := by decide
example : (encode flatCodec [0]).toOption.isSome = true := by decide
example : (encode flatCodec [120, 46, 57, 0, 120, 46, 49, 48, 0, 120, 46, 49, 48, 0, 120, 46, 48,
    55, 0] >>= decode flatCodec).toOption =
    some [120, 46, 57, 0, 120, 46, 49, 48, 0, 120, 46, 49, 48, 0, 120, 46, 48, 55, 0] := by decide

/-- an input whose last name is not terminated comes back with the NUL added -/
theorem name_tokenizer_unterminated (c : StreamCodec) (hc : c.Lawful) (src bs : Bytes)
    (hb : ∀ x ∈ src, x < 256) (hne : src ≠ []) (hterm : src.getLast? ≠ some 0)
    (h : encode c src = .ok bs) : decode c bs = .ok (src ++ [0]) := by
  rw [decode_encode c hc src bs hb h, joinNul_splitNames, if_neg hne, if_neg hterm]

/- The full-strength statement
     `∀ c src bs, c.Lawful → encode c src = .ok bs → decode c bs = .ok src`
   is FALSE; witness `"a"` (replayed on the real code: corpus entry "unterminated single char"). -/
theorem name_tokenizer_roundtrip_full_strength_false :
    ¬ ∀ (c : StreamCodec) (src bs : Bytes), c.Lawful → encode c src = .ok bs →
      decode c bs = .ok src := by
  intro hall
  have henc : (encode flatCodec [97]).toOption.isSome = true := by decide
  cases he : encode flatCodec [97] with
  | error e => rw [he] at henc; cases henc
  | ok bs =>
    have h1 := hall flatCodec [97] bs flatCodec_lawful he
    have h2 := name_tokenizer_unterminated flatCodec flatCodec_lawful [97] bs (by decide)
      (by decide) (by decide) he
    rw [h1] at h2
    cases h2

/-! ## when the encoder answers -/

/-- `name_tokenizer_encoder_answers`: the encoder answers for every input below 4 GiB in which no
name has 127 or more raw tokens and no zero-led numeric token that fits `u32` is wider than 255
bytes — provided the inner compressor answers with less than 4 GiB for every non-empty stream. -/
theorem name_tokenizer_encoder_answers (c : StreamCodec) (src : Bytes)
    (hc : ∀ x, x ≠ [] → ∃ y, c.enc x = some y ∧ y.length < 2 ^ 32)
    (hlen : src.length + 1 < 2 ^ 32)
    (htok : ∀ nm ∈ splitNames src, (tokenize nm).length < 127)
    (hwid : ∀ nm ∈ splitNames src, ∀ s ∈ tokenize nm, parseDigits0 s ≠ none → s.length < 256) :
    ∃ bs, encode c src = .ok bs :=
  encode_answers c src hc hlen htok hwid

/-- the encoder's refusal is `InvalidInput` -/
def refusesInvalidInput : Except Err Bytes → Bool
  | .error .invalidInput => true
  | _ => false

-- both refusals exist: 127 raw tokens ("a:a:…:a", 64 letters and 63 colons), 126 are accepted
set_option maxRecDepth 8000 in
example : refusesInvalidInput (encode flatCodec
    (((List.range 127).map fun i => if i % 2 = 0 then 97 else 58) ++ [0])) = true := by decide
set_option maxRecDepth 8000 in
example : (encode flatCodec
    (((List.range 126).map fun i => if i % 2 = 0 then 97 else 58) ++ [0])).toOption.isSome = true := by
  decide
-- … and 256 zeros (255 are accepted)
set_option maxRecDepth 8000 in
example : refusesInvalidInput (encode flatCodec (List.replicate 256 48 ++ [0])) = true := by decide
set_option maxRecDepth 8000 in
example : (encode flatCodec (List.replicate 255 48 ++ [0])).toOption.isSome = true := by decide

end Noodles.Props.C08
