import Noodles.Props.C01Stored
import Noodles.Bgzf.Frame
import Noodles.Bgzf.FrameProof
/-!
# C01 — BGZF write/read is the identity; every emitted file is well-formed BGZF

Property theorems only; helper lemmas are in `Noodles/Bgzf/FrameProof.lean`.
`D : Deflater` is the external DEFLATE/CRC32 library, constrained only by `D.Lawful`.
-/
namespace Noodles.Props.C01
open Noodles.Bgzf Noodles.Codec

/-- A well-formed BGZF file carrying `payload`: a concatenation of gzip members, each with the
fixed BGZF header (`BC` extra field) whose BSIZE is the member's own length − 1, member length
≤ 64 KiB, ISIZE = data length ≤ 64 KiB, CRC32 of the data, CDATA inflating to the data; the
last member is the 28-byte EOF marker. -/
inductive WellFormed (D : Deflater) : Bytes → Bytes → Prop
  | eof : WellFormed D EOF_MARKER []
  | member (cdata data rest payload : Bytes) :
      HEADER_SIZE + cdata.length + TRAILER_SIZE ≤ 65536 →
      data.length ≤ 65536 →
      D.inflate cdata data.length = some data →
      WellFormed D rest payload →
      WellFormed D
        (headerPrefix ++ le 2 (HEADER_SIZE + cdata.length + TRAILER_SIZE - 1) ++ cdata
          ++ le 4 (D.crc data) ++ le 4 data.length ++ rest)
        (data ++ payload)

/-- Every write/flush history runs to completion for every level: no `WriteZero`, the
`unreachable!()` of `deflate::encode` is dead, BSIZE always fits. -/
theorem run_ok (D : Deflater) (hD : D.Lawful) (lvl : Nat) (ops : List Op) :
    ∃ w, run D lvl Writer.init ops = .ok w := by
  obtain ⟨w, h, _⟩ := run_ok' D hD lvl ops Writer.init [] (Inv_init D)
  exact ⟨w, h⟩

/-- Round trip: any payload, any split into write/flush calls, any level; finishing (which is also
what `Drop` does) and reading back yields exactly the payload. -/
theorem bgzf_roundtrip (D : Deflater) (hD : D.Lawful) (lvl : Nat) (ops : List Op) :
    ∃ w w', run D lvl Writer.init ops = .ok w ∧ finish D lvl w = .ok w' ∧
      readToEnd D w'.sink = .ok (payload ops) := by
  obtain ⟨w, h, hi⟩ := run_ok' D hD lvl ops Writer.init [] (Inv_init D)
  obtain ⟨w', frs, hf, hg, hsink, hpay⟩ := finish_ok D hD lvl w _ hi
  refine ⟨w, w', h, hf, ?_⟩
  rw [hsink, readToEnd_frames D hD frs hg, hpay, List.nil_append]

/-- The emitted file is well-formed BGZF carrying the payload. -/
theorem bgzf_wellformed (D : Deflater) (hD : D.Lawful) (lvl : Nat) (ops : List Op) :
    ∃ w w', run D lvl Writer.init ops = .ok w ∧ finish D lvl w = .ok w' ∧
      WellFormed D w'.sink (payload ops) := by
  obtain ⟨w, h, hi⟩ := run_ok' D hD lvl ops Writer.init [] (Inv_init D)
  obtain ⟨w', frs, hf, hg, hsink, hpay⟩ := finish_ok D hD lvl w _ hi
  refine ⟨w, w', h, hf, ?_⟩
  rw [hsink, ← List.nil_append (payload ops), ← hpay]
  clear hsink hpay hf hi h
  induction frs with
  | nil => exact WellFormed.eof
  | cons p frs ih =>
    obtain ⟨h1, h2, h3⟩ := hg p (by simp)
    have ih' := ih (fun q hq => hg q (List.mem_cons_of_mem _ hq))
    have hb : HEADER_SIZE + p.1.length + TRAILER_SIZE ≤ 65536 := by
      simp only [HEADER_SIZE_eq, TRAILER_SIZE_eq]; omega
    rw [enc_cons, datas_cons, List.append_assoc]
    exact WellFormed.member p.1 p.2 _ _ hb h2 h3 ih'

/-- `unreachable!()` in `deflate::encode` is dead code for every staged buffer. -/
theorem never_unreachable (D : Deflater) (hD : D.Lawful) (lvl : Nat) (x : Bytes)
    (hx : x.length ≤ MAX_BUF) : ∃ c, encodeBlock D lvl x = .ok c ∧ c.length ≤ MAX_COMPRESSED := by
  obtain ⟨c, h1, h2, _⟩ := encodeBlock_ok D hD lvl x hx
  exact ⟨c, h1, h2⟩

/-- Block boundaries depend only on the byte stream and the explicit flushes, not on how the
bytes were split into `write` calls: writing `a ++ b` in one call is writing `a` then `b`. -/
theorem write_split (D : Deflater) (hD : D.Lawful) (lvl : Nat) (w : Writer) (a b : Bytes)
    (hw : w.staging.length < MAX_BUF) :
    step D lvl w (.write (a ++ b)) =
      (match step D lvl w (.write a) with
       | .error e => .error e
       | .ok w' => step D lvl w' (.write b)) := by
  have _ := hD
  simp only [step]
  exact writeAll_append D lvl a.length w a b _ _ _ (Nat.le_refl _) hw (by omega) (by omega) (by omega)

/-- `position` always equals the number of bytes in the sink (what `virtual_position` packs). -/
theorem position_eq_sink_length (D : Deflater) (hD : D.Lawful) (lvl : Nat) (ops : List Op) (w : Writer)
    (h : run D lvl Writer.init ops = .ok w) : w.position = w.sink.length ∧ w.staging.length < MAX_BUF := by
  obtain ⟨w', h', hi⟩ := run_ok' D hD lvl ops Writer.init [] (Inv_init D)
  rw [h] at h'
  injection h' with h'
  subst h'
  exact ⟨hi.1.1, hi.2⟩

/-- non-vacuity: the hypotheses on the library are satisfiable — a (non-DEFLATE) marker-byte
identity codec with a constant checksum meets every law of `Deflater.Lawful`, so the theorems
above are not vacuous; the real library's instance of the laws is validated on every run by the
correspondence check (flate2 + CPython zlib re-inflate every written member). -/
def idDeflater : Deflater where
  deflate := fun _ x => 0xAA :: x
  inflate := fun c n => match c with
    | [0x03, 0x00] => if n = 0 then some [] else none
    | 0xAA :: x => if x.length = n then some x else none
    | _ => none
  crc := fun _ => 0

theorem idDeflater_lawful : idDeflater.Lawful where
  roundtrip := by
    intro l x
    simp [idDeflater]
  level0 := by
    intro x hx
    simp only [idDeflater, List.length_cons, MAX_COMPRESSED, MAX_BUF, OVERHEAD0] at *
    omega
  crc_lt := by intro x; simp [idDeflater]
  eof_block := by simp [idDeflater]
  crc_nil := rfl

/-- …and a concrete two-block history round-trips through it (instance of `bgzf_roundtrip`). -/
example : ∃ w w', run idDeflater 6 Writer.init [.write [1, 2, 3], .flush, .write [4]] = .ok w ∧
    finish idDeflater 6 w = .ok w' ∧ readToEnd idDeflater w'.sink = .ok [1, 2, 3, 4] :=
  bgzf_roundtrip idDeflater idDeflater_lawful 6 [.write [1, 2, 3], .flush, .write [4]]

end Noodles.Props.C01
